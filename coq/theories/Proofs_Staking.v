(* Proofs_Staking.v -- invariants of Model_Staking over all operation sequences. *)
From Coq Require Import List ZArith Bool Lia Arith.
From Coq Require Import ZifyBool ZifyNat.
From Goloop Require Import Model_Staking.
Import ListNotations.
Open Scope Z_scope.

(* ------------------------------------------------------------------ *)
(* generic list / sum lemmas                                            *)
(* ------------------------------------------------------------------ *)

Lemma sumZ_app {A} (f : A -> Z) l1 l2 : sumZ f (l1 ++ l2) = sumZ f l1 + sumZ f l2.
Proof. induction l1; cbn; lia. Qed.

Lemma sumZ_map {A B} (f : B -> Z) (g : A -> B) l : sumZ f (map g l) = sumZ (fun x => f (g x)) l.
Proof. induction l; cbn; congruence. Qed.

Lemma sumZ_ext {A} (f g : A -> Z) l : (forall x, In x l -> f x = g x) -> sumZ f l = sumZ g l.
Proof.
  induction l; cbn; intros H; [reflexivity|].
  rewrite (H a) by now left. rewrite IHl; [reflexivity|]. intros; apply H; now right.
Qed.

Lemma sumZ_add {A} (f g : A -> Z) l : sumZ (fun x => f x + g x) l = sumZ f l + sumZ g l.
Proof. induction l; cbn; lia. Qed.

Lemma sumZ_nonneg {A} (f : A -> Z) l : Forall (fun x => 0 <= f x) l -> 0 <= sumZ f l.
Proof. induction 1; cbn; lia. Qed.

Lemma sumZ_filter_split {A} (f : A -> Z) (p : A -> bool) l :
  sumZ f (filter p l) + sumZ f (filter (fun x => negb (p x)) l) = sumZ f l.
Proof. induction l; cbn; [reflexivity|]. destruct (p a); cbn; lia. Qed.

Lemma upd_length {A} i (f : A -> A) l : length (upd i f l) = length l.
Proof. revert i; induction l; intros [|i]; cbn; auto. Qed.

Lemma upd_none {A} i (f : A -> A) l : nth_error l i = None -> upd i f l = l.
Proof.
  revert i; induction l; intros [|i]; cbn; intros H; try reflexivity; try discriminate.
  now rewrite IHl.
Qed.

Lemma nth_error_upd_eq {A} i (f : A -> A) l x :
  nth_error l i = Some x -> nth_error (upd i f l) i = Some (f x).
Proof. revert i; induction l; intros [|i]; cbn; intros H; try discriminate; [congruence|auto]. Qed.

Lemma nth_error_upd_neq {A} i j (f : A -> A) l : i <> j -> nth_error (upd i f l) j = nth_error l j.
Proof.
  revert i j; induction l; intros [|i] [|j]; cbn; intros H; try reflexivity; try congruence.
  apply IHl; congruence.
Qed.

Lemma nth_error_upd {A} i j (f : A -> A) l y :
  nth_error (upd i f l) j = Some y ->
  (i = j /\ exists x, nth_error l j = Some x /\ y = f x) \/ (i <> j /\ nth_error l j = Some y).
Proof.
  destruct (Nat.eq_dec i j) as [->|N].
  - destruct (nth_error l j) eqn:E.
    + rewrite (nth_error_upd_eq _ _ _ _ E). intros [= <-]. left; eauto.
    + rewrite upd_none by assumption. congruence.
  - rewrite nth_error_upd_neq by assumption. auto.
Qed.

Lemma sumZ_upd {A} (g : A -> Z) i (f : A -> A) l x :
  nth_error l i = Some x -> sumZ g (upd i f l) = sumZ g l - g x + g (f x).
Proof.
  revert i; induction l; intros [|i]; cbn; intros H; try discriminate.
  - inversion H; subst. lia.
  - rewrite (IHl _ H). lia.
Qed.

Lemma sumZ_upd_same {A} (g : A -> Z) i (f : A -> A) l :
  (forall x, g (f x) = g x) -> sumZ g (upd i f l) = sumZ g l.
Proof.
  intros H. destruct (nth_error l i) eqn:E.
  - rewrite (sumZ_upd _ _ _ _ _ E), H. lia.
  - now rewrite upd_none.
Qed.

Lemma Forall_upd {A} (P : A -> Prop) i (f : A -> A) l :
  Forall P l -> (forall x, nth_error l i = Some x -> P x -> P (f x)) -> Forall P (upd i f l).
Proof.
  revert i; induction l; intros [|i] HF H; cbn; auto; inversion HF; subst; constructor; auto.
Qed.

Lemma Forall_map_same {A} (P Q : A -> Prop) (f : A -> A) l :
  Forall P l -> (forall x, P x -> Q (f x)) -> Forall Q (map f l).
Proof. induction 1; cbn; constructor; auto. Qed.

Lemma Forall_nth {A} (P : A -> Prop) l i x : Forall P l -> nth_error l i = Some x -> P x.
Proof. intros HF H. eapply Forall_forall; eauto. eapply nth_error_In; eauto. Qed.

Lemma Forall_filter {A} (P : A -> Prop) (p : A -> bool) l : Forall P l -> Forall P (filter p l).
Proof. induction 1; cbn; auto. destruct (p x); auto. Qed.

(* ------------------------------------------------------------------ *)
(* step / run                                                           *)
(* ------------------------------------------------------------------ *)

Lemma step_rejected_unchanged cfg s o s' : step cfg s o = (s', false) -> s' = s.
Proof. unfold step. destruct (try_op cfg s o); intros [= ]; auto. Qed.

Lemma step_accepted cfg s o s' : step cfg s o = (s', true) -> try_op cfg s o = Some s'.
Proof. unfold step. destruct (try_op cfg s o); intros [= ]; subst; auto. Qed.

Lemma run_app cfg s l1 l2 : run cfg s (l1 ++ l2) = run cfg (run cfg s l1) l2.
Proof. unfold run. apply fold_left_app. Qed.

(* an invariant preserved by every accepted operation holds along every run *)
Lemma run_invariant cfg (P : state -> Prop) :
  (forall s o s', P s -> try_op cfg s o = Some s' -> P s') ->
  forall ops s, P s -> P (run cfg s ops).
Proof.
  intros HP. induction ops as [|o r IH]; intros s Hs; cbn; [assumption|].
  apply IH. unfold step. destruct (try_op cfg s o) eqn:E; cbn; eauto.
Qed.

Ltac dif :=
  match goal with
  | H : context [if ?b then _ else _] |- _ => let E := fresh "E" in destruct b eqn:E
  end.

Ltac inv_some :=
  repeat match goal with
  | H : None = Some _ |- _ => discriminate H
  | H : Some _ = Some _ |- _ => injection H as H; subst
  end.

(* ------------------------------------------------------------------ *)
(* I_sum: supply and total stake are the per-account sums               *)
(* ------------------------------------------------------------------ *)

Definition acct_sum (x : acct) : Z := bal x + stake x + us_total (unstakes x).

Ltac unf :=
  unfold acct_sum, total_stake_of, using_stake, set_bal, set_delegs, set_bonding, set_pdeleg,
    set_pbond, set_pstat, set_bonders, with_accts, us_total, ub_total, amt_of in *.

Definition I_sum (s : state) : Prop :=
  supply s = sumZ acct_sum (accts s) /\ tstake s = sumZ stake (accts s).

Lemma sumZ_upd2 {A} (g : A -> Z) i j (f1 f2 : A -> A) l x y :
  i <> j -> nth_error l i = Some x -> nth_error l j = Some y ->
  sumZ g (upd j f2 (upd i f1 l)) = sumZ g l - g x + g (f1 x) - g y + g (f2 y).
Proof.
  intros N Hx Hy.
  rewrite (sumZ_upd g j f2 (upd i f1 l) y) by (rewrite nth_error_upd_neq; auto).
  rewrite (sumZ_upd g i f1 l x Hx). lia.
Qed.

Lemma transfer_sum (g : acct -> Z) s f t v s' :
  (forall y b, g (set_bal y b) = g y - bal y + b) ->
  do_transfer s f t v = Some s' ->
  sumZ g (accts s') = sumZ g (accts s) /\ height s' = height s /\ supply s' = supply s /\
  tstake s' = tstake s /\ tdeleg s' = tdeleg s /\ tbond s' = tbond s.
Proof.
  intros Hg. unfold do_transfer.
  destruct (nth_error (accts s) f) as [x|] eqn:Ex; [|discriminate].
  destruct (nth_error (accts s) t) as [y|] eqn:Ey; [|discriminate].
  intros H; repeat dif; inv_some; [now repeat split|].
  unfold with_accts; cbn. split; auto.
  assert (f <> t).
  { intros ->. match goal with H : orb _ _ = false |- _ =>
      rewrite Nat.eqb_refl, orb_true_r in H; discriminate H end. }
  rewrite (sumZ_upd2 g f t _ _ _ x y) by auto. rewrite !Hg. lia.
Qed.

Lemma transfer_frame (g : acct -> Z) s f t v s' :
  (forall y b, g (set_bal y b) = g y) ->
  do_transfer s f t v = Some s' -> sumZ g (accts s') = sumZ g (accts s).
Proof.
  intros Hg. unfold do_transfer.
  destruct (nth_error (accts s) f) as [x|] eqn:Ex; [|discriminate].
  destruct (nth_error (accts s) t) as [y|] eqn:Ey; [|discriminate].
  intros H; repeat dif; inv_some; auto.
  unfold with_accts; cbn. rewrite !sumZ_upd_same; auto.
Qed.

(* dec_unstake only shrinks the slots *)
Lemma dec_unstake_total l : forall remain us' rm,
  dec_unstake l remain = (us', rm) -> Forall (fun e => 0 < fst e) l -> 0 <= remain ->
  us_total us' <= us_total l /\ us_total l - us_total us' <= remain /\
  (us_total l - us_total us' = remain \/ us' = []) /\ Forall (fun e => 0 < fst e) us'.
Proof.
  induction l as [|[v e] r IH]; cbn; intros remain us' rm H HF Hr.
  - inv_some. injection H as <- <-. cbn. repeat split; auto; lia.
  - inversion HF as [|? ? Hv HF']; subst. cbn in Hv.
    destruct (v <=? remain) eqn:E1.
    + destruct (remain =? v) eqn:E2.
      * injection H as <- <-. unfold us_total in *. cbn. repeat split; auto; lia.
      * destruct (dec_unstake r (remain - v)) as [r' t] eqn:E3. injection H as <- <-.
        destruct (IH _ _ _ E3 HF') as (A & B & C & D); [lia|].
        unfold us_total in *. cbn. repeat split; auto; try lia.
        destruct C as [C| ->]; [left; lia | right; reflexivity].
    + injection H as <- <-. unfold us_total in *. cbn. repeat split; auto; try lia.
      constructor; auto. cbn. lia.
Qed.

(* what an accepted SetStake does *)
Lemma set_stake_spec cfg s a v lock s' :
  do_set_stake cfg s a v lock = Some s' ->
  s' = s \/
  exists x x' us' t',
    nth_error (accts s) a = Some x /\
    s' = mkState (upd a (fun _ => x') (accts s)) (height s) (supply s)
                 (tstake s + (v - stake x)) (tdeleg s) (tbond s) /\
    x' = mkAcct (aid x) (bal x - ((v + us_total us') - total_stake_of x)) v us'
                (delegs x) (bonds x) (unbonds x) t' (ubt x)
                (pstat x) (pdeleg x) (pbond x) (bonders x)
                (g_in x + (if 0 <? v - stake x then 0 else - (v - stake x)))
                (g_back x + (us_total (unstakes x) + (if 0 <? v - stake x then 0 else - (v - stake x)) - us_total us'))
                (g_paid x) /\
    using_stake x <= v /\ v <> stake x /\
    0 <= (v + us_total us') - total_stake_of x <= bal x /\
    ((stake x < v /\ exists rm, dec_unstake (unstakes x) (v - stake x) = (us', rm) /\
                                 t' = fold_left (fun t h => tdel h t) rm (ust x)) \/
     (v < stake x /\ inc_unstake (slot_max cfg) (stake x - v) (height s + 1 + lock) (unstakes x) (ust x) = Some (us', t'))).
Proof.
  unfold do_set_stake. destruct (nth_error (accts s) a) as [x|] eqn:Ex; [|discriminate].
  destruct (v <? using_stake x) eqn:E1; [discriminate|].
  destruct (v - stake x =? 0) eqn:E2; [intros [= <-]; now left|].
  destruct (bal x + total_stake_of x <? v) eqn:E3; [discriminate|].
  destruct (0 <? v - stake x) eqn:E4.
  - destruct (dec_unstake (unstakes x) (v - stake x)) as [us' rm] eqn:E5.
    destruct (v + us_total us' - total_stake_of x <? 0) eqn:E6; [discriminate|].
    destruct (bal x <? v + us_total us' - total_stake_of x) eqn:E7; [discriminate|].
    intros [= <-]. right. exists x; eexists; exists us'; eexists. split; [reflexivity|]. split; [reflexivity|].
    split; [rewrite E4; reflexivity|]. repeat split; try lia. left. split; [lia|]. eauto.
  - destruct (inc_unstake (slot_max cfg) (- (v - stake x)) (height s + 1 + lock) (unstakes x) (ust x))
      as [[us' t']|] eqn:E5; [|discriminate].
    destruct (v + us_total us' - total_stake_of x <? 0) eqn:E6; [discriminate|].
    destruct (bal x <? v + us_total us' - total_stake_of x) eqn:E7; [discriminate|].
    intros [= <-]. right. exists x; eexists; exists us', t'. split; [reflexivity|]. split; [reflexivity|].
    split; [rewrite E4; reflexivity|]. repeat split; try lia. right. split; [lia|].
    replace (stake x - v) with (- (v - stake x)) by lia. exact E5.
Qed.

Definition deleg_delta (ds old : list (nat * Z)) (p : nat) : Z := amt_to p ds - amt_to p old.

Lemma set_delegation_spec cfg s a raw s' :
  do_set_delegation cfg s a raw = Some s' ->
  exists x, nth_error (accts s) a = Some x /\
    votes_ok (length (accts s)) (deleg_max cfg) raw = true /\
    amt_of (norm_votes raw) + ub_total (unbonds x) + amt_of (bonds x) <= stake x /\
    s' = mkState (upd a (fun y => set_delegs y (norm_votes raw))
                   (map (fun y => set_pdeleg y (pdeleg y + deleg_delta (norm_votes raw) (delegs x) (aid y))) (accts s)))
                 (height s) (supply s) (tstake s)
                 (tdeleg s + sumZ (fun y => if is_active y then deleg_delta (norm_votes raw) (delegs x) (aid y) else 0) (accts s))
                 (tbond s).
Proof.
  unfold do_set_delegation. destruct (nth_error (accts s) a) as [x|] eqn:Ex; [|discriminate].
  destruct (votes_ok (length (accts s)) (deleg_max cfg) raw) eqn:E1; cbn [negb]; [|discriminate].
  destruct (stake x <? _) eqn:E2; [discriminate|].
  intros [= <-]. exists x. repeat split; auto. lia.
Qed.

Lemma set_bond_spec cfg s a raw s' :
  do_set_bond cfg s a raw = Some s' ->
  exists x ubs' t', nth_error (accts s) a = Some x /\
    votes_ok (length (accts s)) (bond_max cfg) raw = true /\
    forallb (fun e => match nth_error (accts s) (fst e) with
                      | Some p => has_base p && existsb (Nat.eqb a) (bonders p)
                      | None => false
                      end) (norm_votes raw) = true /\
    update_unbonds (length (accts s)) (deleg_delta (norm_votes raw) (bonds x))
                   (height s + 1 + unbond_period cfg) (unbonds x) (ubt x) = (ubs', t') /\
    (length ubs' <= unbond_max cfg)%nat /\
    amt_of (norm_votes raw) + amt_of (delegs x) + ub_total ubs' <= stake x /\
    s' = mkState (upd a (fun y => set_bonding y (norm_votes raw) ubs' t')
                   (map (fun y => set_pbond y (pbond y + deleg_delta (norm_votes raw) (bonds x) (aid y))) (accts s)))
                 (height s) (supply s) (tstake s) (tdeleg s)
                 (tbond s + sumZ (fun y => if is_active y then deleg_delta (norm_votes raw) (bonds x) (aid y) else 0) (accts s)).
Proof.
  unfold do_set_bond. destruct (nth_error (accts s) a) as [x|] eqn:Ex; [|discriminate].
  destruct (votes_ok (length (accts s)) (bond_max cfg) raw) eqn:E1; cbn [negb]; [|discriminate].
  destruct (forallb _ (norm_votes raw)) eqn:E2; cbn [negb]; [|discriminate].
  destruct (stake x <? amt_of (norm_votes raw) + amt_of (delegs x)) eqn:E3; [discriminate|].
  fold (deleg_delta (norm_votes raw) (bonds x)).
  destruct (update_unbonds _ _ _ _ _) as [ubs' t'] eqn:E4.
  destruct (unbond_max cfg <? length ubs')%nat eqn:E5; [discriminate|].
  destruct (stake x <? amt_of (norm_votes raw) + amt_of (delegs x) + ub_total ubs') eqn:E6; [discriminate|].
  intros [= <-]. exists x, ubs', t'. repeat split; auto; lia.
Qed.

Lemma fire_sum bh x : acct_sum (fire bh x) = acct_sum x.
Proof.
  unfold fire, acct_sum, us_total; cbn. destruct (tmem bh (ust x)); cbn; [|lia].
  pose proof (sumZ_filter_split fst (fun e : Z * Z => snd e =? bh) (unstakes x)) as H.
  cbv beta in H. lia.
Qed.

Lemma fire_stake bh x : stake (fire bh x) = stake x.
Proof. reflexivity. Qed.

Lemma I_sum_step cfg s o s' : I_sum s -> try_op cfg s o = Some s' -> I_sum s'.
Proof.
  intros [HS HT] H. destruct o; cbn in H.
  - (* transfer *)
    destruct (transfer_sum acct_sum _ _ _ _ _ ltac:(intros; unf; cbn; lia) H) as (A & _ & B & C & _).
    pose proof (transfer_frame stake _ _ _ _ _ ltac:(reflexivity) H) as D.
    split; congruence.
  - (* set stake *)
    apply set_stake_spec in H as [->|(x & x' & us' & t' & Ex & -> & -> & _)]; [split; auto|].
    split; cbn.
    + rewrite (sumZ_upd _ _ _ _ _ Ex). unf; cbn. lia.
    + rewrite (sumZ_upd _ _ _ _ _ Ex). cbn. lia.
  - (* set delegation *)
    apply set_delegation_spec in H as (x & Ex & _ & _ & ->). split; cbn.
    + rewrite sumZ_upd_same by reflexivity. rewrite sumZ_map. exact HS.
    + rewrite sumZ_upd_same by reflexivity. rewrite sumZ_map. exact HT.
  - (* set bond *)
    apply set_bond_spec in H as (x & ubs' & t' & Ex & _ & _ & _ & _ & _ & ->). split; cbn.
    + rewrite sumZ_upd_same by reflexivity. rewrite sumZ_map. exact HS.
    + rewrite sumZ_upd_same by reflexivity. rewrite sumZ_map. exact HT.
  - (* bonder list *)
    unfold do_set_bonder_list in H. destruct (nth_error (accts s) p); [|discriminate].
    repeat dif; inv_some. split; unfold with_accts; cbn; rewrite sumZ_upd_same by reflexivity; auto.
  - (* register *)
    unfold do_register in H. destruct (nth_error (accts s) a) eqn:Ex; [|discriminate].
    repeat dif; inv_some;
      (split; cbn; [rewrite (sumZ_upd _ _ _ _ _ Ex); unf; cbn; lia | rewrite sumZ_upd_same by reflexivity; auto]).
  - (* unregister *)
    unfold do_unregister in H. destruct (nth_error (accts s) a) eqn:Ex; [|discriminate].
    repeat dif; inv_some. split; cbn; rewrite sumZ_upd_same by reflexivity; auto.
  - (* claim *)
    unfold do_claim in H. destruct (nth_error (accts s) a); [|discriminate].
    destruct (transfer_sum acct_sum _ _ _ _ _ ltac:(intros; unf; cbn; lia) H) as (A & _ & B & C & _).
    pose proof (transfer_frame stake _ _ _ _ _ ltac:(reflexivity) H) as D.
    split; congruence.
  - (* issue *)
    unfold do_issue in H. destruct (nth_error (accts s) (treasury cfg)) eqn:Ex; [|discriminate].
    repeat dif; inv_some. split; cbn.
    + rewrite (sumZ_upd _ _ _ _ _ Ex). unf; cbn. lia.
    + rewrite sumZ_upd_same by reflexivity. auto.
  - (* end block *)
    unfold do_end_block in H. dif; inv_some. split; cbn; rewrite sumZ_map.
    + rewrite HS. apply sumZ_ext. intros; symmetry; apply fire_sum.
    + exact HT.
Qed.

(* ------------------------------------------------------------------ *)
(* unbond list surgery                                                  *)
(* ------------------------------------------------------------------ *)

Lemma find_ub_split p ubs v e :
  find_ub p ubs = Some (v, e) ->
  exists l1 l2, ubs = l1 ++ (p, v, e) :: l2 /\
    (forall v' e', set_ub p v' e' ubs = l1 ++ (p, v', e') :: l2) /\
    del_ub p ubs = l1 ++ l2.
Proof.
  induction ubs as [|[[t v0] e0] r IH]; cbn; [discriminate|].
  destruct (Nat.eqb t p) eqn:E.
  - apply Nat.eqb_eq in E; subst. intros [= -> ->]. exists [], r. cbn. auto.
  - intros H. destruct (IH H) as (l1 & l2 & -> & A & B).
    exists ((t, v0, e0) :: l1), l2. cbn. repeat split; auto.
    + intros. now rewrite A.
    + now rewrite B.
Qed.

Definition ub_pos (ubs : list (nat * Z * Z)) : Prop := Forall (fun e => 0 < ub_amt e) ubs.

Lemma ub_step_pos eh d p ubs t :
  ub_pos ubs -> ub_pos (fst (ub_step eh d p (ubs, t))).
Proof.
  unfold ub_pos, ub_step. intros HP.
  destruct (d =? 0) eqn:E0; [exact HP|].
  destruct (d <? 0) eqn:E1.
  - destruct (find_ub p ubs) as [[v e]|] eqn:F; cbn.
    + destruct (find_ub_split _ _ _ _ F) as (l1 & l2 & -> & A & _). rewrite A.
      apply Forall_app in HP as [H1 H2]. inversion H2; subst. apply Forall_app; split; auto.
      constructor; auto. unfold ub_amt in *; cbn in *. lia.
    + apply Forall_app; split; auto. constructor; auto. unfold ub_amt; cbn. lia.
  - destruct (find_ub p ubs) as [[v e]|] eqn:F; cbn; [|exact HP].
    destruct (find_ub_split _ _ _ _ F) as (l1 & l2 & -> & A & B).
    apply Forall_app in HP as [H1 H2]. inversion H2; subst.
    destruct (v - d <=? 0) eqn:E2; cbn.
    + rewrite B. apply Forall_app; split; auto.
    + rewrite A. apply Forall_app; split; auto. constructor; auto. unfold ub_amt; cbn. lia.
Qed.

Lemma fold_left_inv {A B} (P : A -> Prop) (f : A -> B -> A) l :
  (forall a b, P a -> P (f a b)) -> forall a, P a -> P (fold_left f l a).
Proof. intros H. induction l; cbn; auto. Qed.

Lemma update_unbonds_pos n c eh ubs t ubs' t' :
  update_unbonds n c eh ubs t = (ubs', t') -> ub_pos ubs -> ub_pos ubs'.
Proof.
  unfold update_unbonds. intros H HP.
  assert (G : ub_pos (fst (fold_left (fun st p => ub_step eh (c p) p st) (seq 0 n) (ubs, t)))).
  { apply fold_left_inv with (P := fun st => ub_pos (fst st)); auto.
    intros [u tt] b; cbn. apply ub_step_pos. }
  now rewrite H in G.
Qed.

Lemma ins_unstake_pos v eh l :
  0 < v -> Forall (fun e : Z * Z => 0 < fst e) l -> Forall (fun e : Z * Z => 0 < fst e) (ins_unstake v eh l).
Proof.
  intros Hv. induction l as [|[v' e'] r IH]; cbn; intros HF.
  - constructor; auto.
  - inversion HF; subst. destruct (e' <=? eh); constructor; auto.
Qed.

Lemma ins_unstake_total v eh l : us_total (ins_unstake v eh l) = us_total l + v.
Proof.
  unfold us_total. induction l as [|[v' e'] r IH]; cbn; [lia|].
  destruct (e' <=? eh); cbn; lia.
Qed.

Lemma inc_unstake_spec sm v eh l t us' t' :
  inc_unstake sm v eh l t = Some (us', t') -> 0 < v ->
  Forall (fun e : Z * Z => 0 < fst e) l ->
  Forall (fun e : Z * Z => 0 < fst e) us' /\ us_total us' = us_total l + v.
Proof.
  unfold inc_unstake. intros H Hv HF.
  destruct (sm <=? length l)%nat.
  - destruct l as [|[lv le] r]; [discriminate|]. inversion HF; subst. cbn in *.
    destruct (le <? eh); injection H as <- <-; unfold us_total; cbn; split; try lia; constructor; auto; cbn; lia.
  - injection H as <- <-. split; [now apply ins_unstake_pos | apply ins_unstake_total].
Qed.

(* ------------------------------------------------------------------ *)
(* I_loc: per-account facts                                             *)
(* ------------------------------------------------------------------ *)

Record acct_ok (x : acct) : Prop := {
  ok_bal : 0 <= bal x;
  ok_stake : 0 <= stake x;
  ok_us : Forall (fun e : Z * Z => 0 < fst e) (unstakes x);
  ok_ds : Forall (fun e : nat * Z => 0 < snd e) (delegs x);
  ok_bs : Forall (fun e : nat * Z => 0 < snd e) (bonds x);
  ok_ubs : ub_pos (unbonds x);
  ok_power : using_stake x <= stake x;
  ok_ledger : g_in x = g_back x + g_paid x + us_total (unstakes x)
}.

Definition I_loc (s : state) : Prop := Forall acct_ok (accts s).

Lemma sum_pos_nonneg {A} (f : A -> Z) l : Forall (fun e => 0 < f e) l -> 0 <= sumZ f l.
Proof. intros H. apply sumZ_nonneg. eapply Forall_impl; [|exact H]. cbn; intros; lia. Qed.

Lemma norm_votes_pos raw : Forall (fun e : nat * Z => 0 < snd e) (norm_votes raw).
Proof.
  unfold norm_votes. induction raw as [|e r IH]; cbn; auto.
  destruct (0 <? snd e) eqn:E; auto. constructor; auto. lia.
Qed.

Lemma using_nonneg x : acct_ok x -> 0 <= using_stake x.
Proof.
  intros []. unfold using_stake, amt_of, ub_total.
  pose proof (sum_pos_nonneg _ _ ok_ds0). pose proof (sum_pos_nonneg _ _ ok_bs0).
  pose proof (sum_pos_nonneg _ _ ok_ubs0). lia.
Qed.

Lemma sumZ_filter_le {A} (f : A -> Z) (p : A -> bool) l :
  Forall (fun e => 0 < f e) l -> sumZ f (filter p l) <= sumZ f l.
Proof. induction 1; cbn; [lia|]. destruct (p x); cbn; lia. Qed.

Lemma fire_ok_acct bh x : acct_ok x -> acct_ok (fire bh x).
Proof.
  intros [].
  assert (D : 0 <= us_total (if tmem bh (ust x) then filter (fun e : Z * Z => snd e =? bh) (unstakes x) else [])).
  { destruct (tmem bh (ust x)); [|unfold us_total; cbn; lia].
    apply sum_pos_nonneg. now apply Forall_filter. }
  constructor; unfold fire; cbn; auto.
  - lia.
  - destruct (tmem bh (ust x)); auto. now apply Forall_filter.
  - destruct (tmem bh (ubt x)); auto. now apply Forall_filter.
  - pose proof (sumZ_filter_le ub_amt (fun e => negb (ub_exp e =? bh)) _ ok_ubs0).
    unf; cbn. destruct (tmem bh (ubt x)); lia.
  - destruct (tmem bh (ust x)); [|unfold us_total in *; cbn; lia].
    pose proof (sumZ_filter_split fst (fun e : Z * Z => snd e =? bh) (unstakes x)) as H.
    cbv beta in H. unfold us_total in *. lia.
Qed.

Lemma set_bal_ok x b : acct_ok x -> 0 <= b -> acct_ok (set_bal x b).
Proof. intros [] Hb. constructor; cbn; auto. Qed.

Lemma transfer_loc s f t v s' : I_loc s -> do_transfer s f t v = Some s' -> I_loc s'.
Proof.
  unfold I_loc, do_transfer. intros HL.
  destruct (nth_error (accts s) f) as [x|] eqn:Ex; [|discriminate].
  destruct (nth_error (accts s) t) as [y|] eqn:Ey; [|discriminate].
  intros H; repeat dif; inv_some; auto. unfold with_accts; cbn.
  apply Forall_upd.
  - apply Forall_upd; auto. intros x0 Hx0 Hok. rewrite Ex in Hx0; inv_some.
    apply set_bal_ok; auto. lia.
  - intros y0 _ Hok. apply set_bal_ok; auto. destruct Hok. lia.
Qed.

Lemma I_loc_step cfg s o s' : I_loc s -> try_op cfg s o = Some s' -> I_loc s'.
Proof.
  intros HL H. destruct o; cbn in H.
  - eapply transfer_loc; eauto.
  - (* set stake *)
    apply set_stake_spec in H as [->|(x & x' & us' & t' & Ex & -> & -> & Hu & Hne & Hd & Hcase)]; auto.
    unfold I_loc; cbn. apply Forall_upd; auto. intros x0 Hx0 Hok. rewrite Ex in Hx0; inv_some.
    pose proof (using_nonneg _ Hok) as Hun. destruct Hok.
    assert (Forall (fun e : Z * Z => 0 < fst e) us' /\
            us_total us' + (if 0 <? v - stake x0 then v - stake x0 else 0) >= us_total (unstakes x0) /\
            (0 <? v - stake x0 = false -> us_total us' = us_total (unstakes x0) + (stake x0 - v))) as (P1 & P2 & P3).
    { destruct Hcase as [(Hlt & rm & Hdec & _)|(Hlt & Hinc)].
      - destruct (dec_unstake_total _ _ _ _ Hdec ok_us0) as (A & B & C & D); [lia|].
        replace (0 <? v - stake x0) with true by lia. repeat split; auto; try lia.
      - destruct (inc_unstake_spec _ _ _ _ _ _ _ Hinc) as (A & B); auto; [lia|].
        replace (0 <? v - stake x0) with false by lia. repeat split; auto; lia. }
    constructor; cbn; auto; try lia.
    unf; cbn in *. destruct (0 <? v - stake x0) eqn:E; lia.
  - (* set delegation *)
    apply set_delegation_spec in H as (x & Ex & Hv & Hp & ->). unfold I_loc; cbn.
    apply Forall_upd.
    + eapply Forall_map_same; [exact HL|]. intros y []. constructor; cbn; auto.
    + intros y Hy []. constructor; cbn in *; auto.
      * apply norm_votes_pos.
      * rewrite nth_error_map, Ex in Hy. cbn in Hy. inv_some. unf; cbn in *. lia.
  - (* set bond *)
    apply set_bond_spec in H as (x & ubs' & t' & Ex & Hv & _ & Hup & _ & Hp & ->). unfold I_loc; cbn.
    apply Forall_upd.
    + eapply Forall_map_same; [exact HL|]. intros y []. constructor; cbn; auto.
    + intros y Hy []. rewrite nth_error_map, Ex in Hy. cbn in Hy. inv_some.
      constructor; cbn in *; auto.
      * apply norm_votes_pos.
      * eapply update_unbonds_pos; eauto.
      * unf; cbn in *. lia.
  - (* bonder list *)
    unfold do_set_bonder_list in H. destruct (nth_error (accts s) p); [|discriminate].
    repeat dif; inv_some. unfold I_loc, with_accts; cbn. apply Forall_upd; auto.
    intros y _ []. constructor; cbn; auto.
  - (* register *)
    unfold do_register in H. destruct (nth_error (accts s) a) eqn:Ex; [|discriminate].
    repeat dif; inv_some; unfold I_loc; cbn; (apply Forall_upd; auto; intros y Hy []; rewrite Ex in Hy; inv_some;
      constructor; cbn; auto; lia).
  - (* unregister *)
    unfold do_unregister in H. destruct (nth_error (accts s) a) eqn:Ex; [|discriminate].
    repeat dif; inv_some. unfold I_loc; cbn. apply Forall_upd; auto. intros y _ []. constructor; cbn; auto.
  - (* claim *)
    unfold do_claim in H. destruct (nth_error (accts s) a); [|discriminate]. eapply transfer_loc; eauto.
  - (* issue *)
    unfold do_issue in H. destruct (nth_error (accts s) (treasury cfg)) eqn:Ex; [|discriminate].
    repeat dif; inv_some. unfold I_loc; cbn. apply Forall_upd; auto. intros y _ Hok.
    apply set_bal_ok; auto. destruct Hok; lia.
  - (* end block *)
    unfold do_end_block in H. dif; inv_some. unfold I_loc; cbn.
    eapply Forall_map_same; [exact HL|]. intros; now apply fire_ok_acct.
Qed.

(* ------------------------------------------------------------------ *)
(* I_id: the aid field is the position                                  *)
(* ------------------------------------------------------------------ *)

Definition I_id (s : state) : Prop := map aid (accts s) = seq 0 (length (accts s)).

Lemma map_upd_same {A B} (g : A -> B) i (f : A -> A) l :
  (forall x, nth_error l i = Some x -> g (f x) = g x) -> map g (upd i f l) = map g l.
Proof.
  revert i; induction l; intros [|i] H; cbn; auto.
  - rewrite H; auto.
  - rewrite IHl; auto.
Qed.

Lemma I_id_nth s i x : I_id s -> nth_error (accts s) i = Some x -> aid x = i.
Proof.
  unfold I_id. intros H Hx.
  assert (nth_error (map aid (accts s)) i = Some (aid x)) by (rewrite nth_error_map, Hx; reflexivity).
  rewrite H in H0. assert (i < length (accts s))%nat by (apply nth_error_Some; congruence).
  rewrite nth_error_nth' with (d := O) in H0 by (now rewrite seq_length).
  rewrite seq_nth in H0 by assumption. cbn in H0. congruence.
Qed.

Lemma I_id_step cfg s o s' : I_id s -> try_op cfg s o = Some s' -> I_id s'.
Proof.
  unfold I_id. intros HI H. destruct o; cbn in H.
  - unfold do_transfer in H.
    destruct (nth_error (accts s) from); [|discriminate]. destruct (nth_error (accts s) to); [|discriminate].
    repeat dif; inv_some; auto. unfold with_accts; cbn. rewrite !upd_length, !map_upd_same; auto.
  - apply set_stake_spec in H as [->|(x & x' & us' & t' & Ex & -> & -> & _)]; auto.
    cbn. rewrite upd_length, map_upd_same; auto. intros y Hy. rewrite Ex in Hy; inv_some. reflexivity.
  - apply set_delegation_spec in H as (x & Ex & _ & _ & ->). cbn.
    rewrite upd_length, map_upd_same, map_length, map_map; auto.
  - apply set_bond_spec in H as (x & ubs' & t' & Ex & _ & _ & _ & _ & _ & ->). cbn.
    rewrite upd_length, map_upd_same, map_length, map_map; auto.
  - unfold do_set_bonder_list in H. destruct (nth_error (accts s) p); [|discriminate].
    repeat dif; inv_some. unfold with_accts; cbn. rewrite upd_length, map_upd_same; auto.
  - unfold do_register in H. destruct (nth_error (accts s) a); [|discriminate].
    repeat dif; inv_some; cbn; rewrite upd_length, map_upd_same; auto.
  - unfold do_unregister in H. destruct (nth_error (accts s) a); [|discriminate].
    repeat dif; inv_some; cbn; rewrite upd_length, map_upd_same; auto.
  - unfold do_claim in H. destruct (nth_error (accts s) a); [|discriminate]. unfold do_transfer in H.
    destruct (nth_error (accts s) (treasury cfg)); [|discriminate]. destruct (nth_error (accts s) a); [|discriminate].
    repeat dif; inv_some; auto. unfold with_accts; cbn. rewrite !upd_length, !map_upd_same; auto.
  - unfold do_issue in H. destruct (nth_error (accts s) (treasury cfg)); [|discriminate].
    repeat dif; inv_some; cbn; rewrite upd_length, map_upd_same; auto.
  - unfold do_end_block in H. dif; inv_some. cbn. rewrite map_length, map_map. exact HI.
Qed.

(* ------------------------------------------------------------------ *)
(* I_vote: P-Rep delegated / bonded and the network totals              *)
(* ------------------------------------------------------------------ *)

Arguments amt_to : simpl never.
Arguments amt_of : simpl never.
Arguments us_total : simpl never.
Arguments ub_total : simpl never.

Definition deleg_in (p : nat) (l : list acct) : Z := sumZ (fun y => amt_to p (delegs y)) l.
Definition bond_in (p : nat) (l : list acct) : Z := sumZ (fun y => amt_to p (bonds y)) l.
Definition act_deleg (y : acct) : Z := if is_active y then pdeleg y else 0.
Definition act_bond (y : acct) : Z := if is_active y then pbond y else 0.

Definition vote_acct (l : list acct) (x : acct) : Prop :=
  pdeleg x = deleg_in (aid x) l /\ pbond x = bond_in (aid x) l /\ (pstat x = PNone -> pbond x = 0).

Definition vote_ok (l : list acct) (td tb : Z) : Prop :=
  Forall (vote_acct l) l /\ td = sumZ act_deleg l /\ tb = sumZ act_bond l.

Definition I_vote (s : state) : Prop := vote_ok (accts s) (tdeleg s) (tbond s).

Definition vsame (x x' : acct) : Prop :=
  aid x' = aid x /\ delegs x' = delegs x /\ bonds x' = bonds x /\
  pdeleg x' = pdeleg x /\ pbond x' = pbond x /\ pstat x' = pstat x.

Lemma vote_acct_ext l l' x x' :
  (forall p, deleg_in p l' = deleg_in p l) -> (forall p, bond_in p l' = bond_in p l) ->
  aid x' = aid x -> pdeleg x' = pdeleg x -> pbond x' = pbond x -> pstat x' = pstat x ->
  vote_acct l x -> vote_acct l' x'.
Proof.
  unfold vote_acct. intros Hd Hb -> -> -> ->. now rewrite Hd, Hb.
Qed.

Lemma vote_ok_upd l td tb i f :
  (forall x, nth_error l i = Some x -> vsame x (f x)) -> vote_ok l td tb -> vote_ok (upd i f l) td tb.
Proof.
  intros Hf (HF & Htd & Htb). destruct (nth_error l i) as [x|] eqn:Ex; [|now rewrite upd_none].
  destruct (Hf x eq_refl) as (Ha & Hds & Hbs & Hpd & Hpb & Hps).
  assert (Hd : forall p, deleg_in p (upd i f l) = deleg_in p l).
  { intros p. unfold deleg_in. rewrite (sumZ_upd _ _ _ _ _ Ex), Hds. lia. }
  assert (Hb : forall p, bond_in p (upd i f l) = bond_in p l).
  { intros p. unfold bond_in. rewrite (sumZ_upd _ _ _ _ _ Ex), Hbs. lia. }
  split; [|split].
  - apply Forall_upd.
    + eapply Forall_impl; [|exact HF]. intros y. now apply vote_acct_ext.
    + intros y Hy Hv. rewrite Ex in Hy; inv_some.
      eapply vote_acct_ext with (l := l) (x := y); auto.
      eapply Forall_nth in HF; eauto.
  - rewrite (sumZ_upd _ _ _ _ _ Ex).
    assert (act_deleg (f x) = act_deleg x) by (unfold act_deleg, is_active; now rewrite Hps, Hpd). lia.
  - rewrite (sumZ_upd _ _ _ _ _ Ex).
    assert (act_bond (f x) = act_bond x) by (unfold act_bond, is_active; now rewrite Hps, Hpb). lia.
Qed.

Lemma vote_ok_map l td tb f :
  (forall x, vsame x (f x)) -> vote_ok l td tb -> vote_ok (map f l) td tb.
Proof.
  intros Hf (HF & Htd & Htb).
  assert (Hd : forall p, deleg_in p (map f l) = deleg_in p l).
  { intros p. unfold deleg_in. rewrite sumZ_map. apply sumZ_ext. intros x _.
    destruct (Hf x) as (_ & -> & _). reflexivity. }
  assert (Hb : forall p, bond_in p (map f l) = bond_in p l).
  { intros p. unfold bond_in. rewrite sumZ_map. apply sumZ_ext. intros x _.
    destruct (Hf x) as (_ & _ & -> & _). reflexivity. }
  split; [|split].
  - eapply Forall_map_same; [exact HF|]. intros x Hv.
    destruct (Hf x) as (A & _ & _ & B & C & D). eapply vote_acct_ext; eauto.
  - rewrite sumZ_map, Htd. apply sumZ_ext. intros x _.
    destruct (Hf x) as (_ & _ & _ & B & _ & D). unfold act_deleg, is_active. now rewrite B, D.
  - rewrite sumZ_map, Htb. apply sumZ_ext. intros x _.
    destruct (Hf x) as (_ & _ & _ & _ & C & D). unfold act_bond, is_active. now rewrite C, D.
Qed.

Lemma amt_to_nonneg p l : Forall (fun e : nat * Z => 0 < snd e) l -> 0 <= amt_to p l.
Proof.
  unfold amt_to. intros H. apply sumZ_nonneg. eapply Forall_impl; [|exact H].
  cbn. intros e He. destruct (Nat.eqb (fst e) p); lia.
Qed.

Lemma amt_to_zero p l : (forall e, In e l -> fst e <> p) -> amt_to p l = 0.
Proof.
  unfold amt_to. induction l; cbn; intros H; [reflexivity|].
  rewrite IHl by (intros; apply H; now right).
  destruct (Nat.eqb (fst a) p) eqn:E; [|lia].
  apply Nat.eqb_eq in E. exfalso. eapply H; [now left|exact E].
Qed.

Lemma sumZ_zero_terms {A} (f : A -> Z) l :
  sumZ f l = 0 -> Forall (fun z => 0 <= f z) l -> forall z, In z l -> f z = 0.
Proof.
  induction l; cbn; intros Hs HF z Hz; [contradiction|].
  inversion HF; subst. pose proof (sumZ_nonneg _ _ H2).
  destruct Hz as [->|Hz]; [lia|]. apply IHl; auto. lia.
Qed.

Lemma deleg_in_nonneg p l : Forall acct_ok l -> 0 <= deleg_in p l.
Proof.
  intros H. unfold deleg_in. apply sumZ_nonneg. eapply Forall_impl; [|exact H].
  cbn. intros x []. now apply amt_to_nonneg.
Qed.

Lemma bond_in_nonneg p l : Forall acct_ok l -> 0 <= bond_in p l.
Proof.
  intros H. unfold bond_in. apply sumZ_nonneg. eapply Forall_impl; [|exact H].
  cbn. intros x []. now apply amt_to_nonneg.
Qed.

(* the common part of SetDelegation and SetBond for the delegated totals *)
Lemma vote_deleg_update l td tb a x ds :
  vote_ok l td tb -> nth_error l a = Some x ->
  vote_ok (upd a (fun y => set_delegs y ds)
             (map (fun y => set_pdeleg y (pdeleg y + deleg_delta ds (delegs x) (aid y))) l))
          (td + sumZ (fun y => if is_active y then deleg_delta ds (delegs x) (aid y) else 0) l) tb.
Proof.
  intros (HF & Htd & Htb) Ex.
  set (c := deleg_delta ds (delegs x)).
  set (l1 := map (fun y => set_pdeleg y (pdeleg y + c (aid y))) l).
  assert (E1 : nth_error l1 a = Some (set_pdeleg x (pdeleg x + c (aid x)))).
  { unfold l1. rewrite nth_error_map, Ex. reflexivity. }
  assert (Hd : forall p, deleg_in p (upd a (fun y => set_delegs y ds) l1) = deleg_in p l + c p).
  { intros p. unfold deleg_in. rewrite (sumZ_upd _ _ _ _ _ E1). cbn.
    unfold l1. rewrite sumZ_map. cbn. unfold c, deleg_delta. lia. }
  assert (Hb : forall p, bond_in p (upd a (fun y => set_delegs y ds) l1) = bond_in p l).
  { intros p. unfold bond_in. rewrite sumZ_upd_same by reflexivity.
    unfold l1. rewrite sumZ_map. reflexivity. }
  split; [|split].
  - apply Forall_upd.
    + unfold l1. eapply Forall_map_same; [exact HF|]. intros y (A & B & C).
      unfold vote_acct; cbn. rewrite Hd, Hb. repeat split; auto. lia.
    + intros y _ (A & B & C). unfold vote_acct in *; cbn in *. auto.
  - rewrite sumZ_upd_same by reflexivity. unfold l1. rewrite sumZ_map, Htd, <- sumZ_add.
    apply sumZ_ext. intros y _. unfold act_deleg, is_active; cbn. destruct (pstatus_eqb (pstat y) PActive); lia.
  - rewrite sumZ_upd_same by reflexivity. unfold l1. rewrite sumZ_map. exact Htb.
Qed.

Lemma vote_bond_update l td tb a x bs ubs t :
  vote_ok l td tb -> nth_error l a = Some x ->
  (forall y, In y l -> pstat y = PNone -> deleg_delta bs (bonds x) (aid y) = 0) ->
  vote_ok (upd a (fun y => set_bonding y bs ubs t)
             (map (fun y => set_pbond y (pbond y + deleg_delta bs (bonds x) (aid y))) l))
          td (tb + sumZ (fun y => if is_active y then deleg_delta bs (bonds x) (aid y) else 0) l).
Proof.
  intros (HF & Htd & Htb) Ex Hnone.
  set (c := deleg_delta bs (bonds x)) in *.
  set (l1 := map (fun y => set_pbond y (pbond y + c (aid y))) l).
  assert (E1 : nth_error l1 a = Some (set_pbond x (pbond x + c (aid x)))).
  { unfold l1. rewrite nth_error_map, Ex. reflexivity. }
  assert (Hb : forall p, bond_in p (upd a (fun y => set_bonding y bs ubs t) l1) = bond_in p l + c p).
  { intros p. unfold bond_in. rewrite (sumZ_upd _ _ _ _ _ E1). cbn.
    unfold l1. rewrite sumZ_map. cbn. unfold c, deleg_delta. lia. }
  assert (Hd : forall p, deleg_in p (upd a (fun y => set_bonding y bs ubs t) l1) = deleg_in p l).
  { intros p. unfold deleg_in. rewrite sumZ_upd_same by reflexivity.
    unfold l1. rewrite sumZ_map. reflexivity. }
  split; [|split].
  - apply Forall_upd.
    + unfold l1. rewrite Forall_forall. intros y1 Hy1. apply in_map_iff in Hy1 as (y & <- & Hy).
      eapply Forall_forall in HF; eauto. destruct HF as (A & B & C).
      unfold vote_acct; cbn. rewrite Hd, Hb. repeat split; auto; try lia.
    + intros y _ (A & B & C). unfold vote_acct in *; cbn in *. auto.
  - rewrite sumZ_upd_same by reflexivity. unfold l1. rewrite sumZ_map. exact Htd.
  - rewrite sumZ_upd_same by reflexivity. unfold l1. rewrite sumZ_map, Htb, <- sumZ_add.
    apply sumZ_ext. intros y _. unfold act_bond, is_active; cbn. destruct (pstatus_eqb (pstat y) PActive); lia.
Qed.

Lemma In_nth_id s y : I_id s -> In y (accts s) -> nth_error (accts s) (aid y) = Some y.
Proof.
  intros HI Hy. apply In_nth_error in Hy as (i & Hi). now rewrite (I_id_nth _ _ _ HI Hi).
Qed.

Lemma pstatus_eqb_eq a b : pstatus_eqb a b = true <-> a = b.
Proof. destruct a, b; cbn; split; congruence. Qed.

Lemma I_vote_step cfg s o s' :
  I_loc s -> I_id s -> I_vote s -> try_op cfg s o = Some s' -> I_vote s'.
Proof.
  intros HL HI HV H. unfold I_vote in *. destruct o; cbn in H.
  - (* transfer *)
    unfold do_transfer in H.
    destruct (nth_error (accts s) from); [|discriminate]. destruct (nth_error (accts s) to); [|discriminate].
    repeat dif; inv_some; auto. unfold with_accts; cbn.
    apply vote_ok_upd; [intros; repeat split|]. apply vote_ok_upd; [intros; repeat split|]. exact HV.
  - (* set stake *)
    apply set_stake_spec in H as [->|(x & x' & us' & t' & Ex & -> & -> & _)]; auto.
    cbn. apply vote_ok_upd; auto. intros y Hy. rewrite Ex in Hy; inv_some. repeat split.
  - (* set delegation *)
    apply set_delegation_spec in H as (x & Ex & _ & _ & ->). cbn. now apply vote_deleg_update.
  - (* set bond *)
    apply set_bond_spec in H as (x & ubs' & t' & Ex & Hv & Hb & _ & _ & _ & ->). cbn.
    apply vote_bond_update; auto.
    intros y Hy Hn. unfold deleg_delta.
    assert (amt_to (aid y) (norm_votes bs) = 0) as ->.
    { apply amt_to_zero. intros e He Heq. rewrite forallb_forall in Hb. specialize (Hb e He).
      rewrite Heq, (In_nth_id _ _ HI Hy) in Hb. unfold has_base in Hb. rewrite Hn in Hb. discriminate. }
    destruct HV as (HF & _). pose proof HF as HF'. rewrite Forall_forall in HF'.
    destruct (HF' y Hy) as (_ & B & C). specialize (C Hn). rewrite C in B. symmetry in B.
    unfold bond_in in B.
    assert (amt_to (aid y) (bonds x) = 0) as ->; [|lia].
    apply (sumZ_zero_terms (fun z => amt_to (aid y) (bonds z)) (accts s) B).
    + eapply Forall_impl; [|exact HL]. cbn. intros z []. now apply amt_to_nonneg.
    + eapply nth_error_In; eauto.
  - (* bonder list *)
    unfold do_set_bonder_list in H. destruct (nth_error (accts s) p); [|discriminate].
    repeat dif; inv_some. unfold with_accts; cbn. apply vote_ok_upd; auto. intros; repeat split.
  - (* register *)
    unfold do_register in H. destruct (nth_error (accts s) a) as [x|] eqn:Ex; [|discriminate].
    destruct HV as (HF & Htd & Htb).
    assert (Hx : vote_acct (accts s) x) by (eapply Forall_nth; eauto).
    destruct Hx as (A & B & C).
    assert (Hpd : 0 <= pdeleg x) by (rewrite A; now apply deleg_in_nonneg).
    destruct (reg_fee cfg <? 0); [discriminate|]. destruct (bal x <? reg_fee cfg); [discriminate|].
    destruct (supply s <? reg_fee cfg); [discriminate|].
    destruct (pstatus_eqb (pstat x) PNone) eqn:Ep; cbn [negb] in H; [|discriminate].
    apply pstatus_eqb_eq in Ep. specialize (C Ep).
    assert (Hd : forall p, deleg_in p (upd a (fun y => set_pstat (set_bal y (bal y - reg_fee cfg)) PActive) (accts s)) = deleg_in p (accts s)).
    { intros p. unfold deleg_in. now rewrite sumZ_upd_same. }
    assert (Hb : forall p, bond_in p (upd a (fun y => set_pstat (set_bal y (bal y - reg_fee cfg)) PActive) (accts s)) = bond_in p (accts s)).
    { intros p. unfold bond_in. now rewrite sumZ_upd_same. }
    assert (vote_ok (upd a (fun y => set_pstat (set_bal y (bal y - reg_fee cfg)) PActive) (accts s))
                    (tdeleg s + pdeleg x) (tbond s)).
    { split; [|split].
      - apply Forall_upd.
        + eapply Forall_impl; [|exact HF]. intros y. now apply vote_acct_ext.
        + intros y Hy (A' & B' & C'). rewrite Hd in A'. rewrite Hb in B'.
          unfold vote_acct; cbn. rewrite Hd, Hb. repeat split; auto. discriminate.
      - rewrite (sumZ_upd _ _ _ _ _ Ex). unfold act_deleg at 2 3, is_active; cbn. rewrite Ep; cbn. lia.
      - rewrite (sumZ_upd _ _ _ _ _ Ex). unfold act_bond at 2 3, is_active; cbn. rewrite Ep; cbn. lia. }
    destruct (0 <? pdeleg x) eqn:E; inv_some; cbn; auto.
    replace (tdeleg s + 0) with (tdeleg s + pdeleg x) by lia. auto.
  - (* unregister *)
    unfold do_unregister in H. destruct (nth_error (accts s) a) as [x|] eqn:Ex; [|discriminate].
    destruct HV as (HF & Htd & Htb).
    assert (Hx : vote_acct (accts s) x) by (eapply Forall_nth; eauto).
    destruct Hx as (A & B & C).
    assert (Hpb : 0 <= pbond x) by (rewrite B; now apply bond_in_nonneg).
    destruct (0 <? pbond x) eqn:E0; [discriminate|].
    destruct (is_active x) eqn:Ea; cbn [negb] in H; [|discriminate]. inv_some. cbn.
    assert (Hd : forall p, deleg_in p (upd a (fun y => set_pstat y PUnreg) (accts s)) = deleg_in p (accts s)).
    { intros p. unfold deleg_in. now rewrite sumZ_upd_same. }
    assert (Hb : forall p, bond_in p (upd a (fun y => set_pstat y PUnreg) (accts s)) = bond_in p (accts s)).
    { intros p. unfold bond_in. now rewrite sumZ_upd_same. }
    split; [|split].
    + apply Forall_upd.
      * eapply Forall_impl; [|exact HF]. intros y. now apply vote_acct_ext.
      * intros y Hy (A' & B' & C'). rewrite Hd in A'. rewrite Hb in B'.
        unfold vote_acct; cbn. rewrite Hd, Hb. repeat split; auto. discriminate.
    + rewrite (sumZ_upd _ _ _ _ _ Ex). unfold act_deleg at 2 3. rewrite Ea. unfold is_active; cbn. lia.
    + rewrite (sumZ_upd _ _ _ _ _ Ex). unfold act_bond at 2 3. rewrite Ea. unfold is_active; cbn. lia.
  - (* claim *)
    unfold do_claim in H. destruct (nth_error (accts s) a); [|discriminate]. unfold do_transfer in H.
    destruct (nth_error (accts s) (treasury cfg)); [|discriminate]. destruct (nth_error (accts s) a); [|discriminate].
    repeat dif; inv_some; auto. unfold with_accts; cbn.
    apply vote_ok_upd; [intros; repeat split|]. apply vote_ok_upd; [intros; repeat split|]. exact HV.
  - (* issue *)
    unfold do_issue in H. destruct (nth_error (accts s) (treasury cfg)); [|discriminate].
    repeat dif; inv_some. cbn. apply vote_ok_upd; auto. intros; repeat split.
  - (* end block *)
    unfold do_end_block in H. dif; inv_some. cbn. apply vote_ok_map; auto. intros; repeat split.
Qed.

(* ------------------------------------------------------------------ *)
(* I_ubt: every unbond entry has its timer and has not expired          *)
(* ------------------------------------------------------------------ *)

Lemma tmem_In h t : tmem h t = true <-> In h t.
Proof.
  unfold tmem. rewrite existsb_exists. split.
  - intros (k & Hk & E). apply Z.eqb_eq in E. now subst.
  - intros H. exists h. split; auto. apply Z.eqb_refl.
Qed.

Lemma In_tadd k h t : In k (tadd h t) <-> k = h \/ In k t.
Proof.
  unfold tadd. destruct (tmem h t) eqn:E.
  - apply tmem_In in E. split; [auto|]. intros [->|]; auto.
  - rewrite in_app_iff. cbn. split; [intros [|[|[]]]; auto | intros [|]; auto].
Qed.

Lemma In_tdel k h t : In k (tdel h t) <-> In k t /\ k <> h.
Proof.
  unfold tdel. rewrite filter_In. split; intros [A B]; split; auto.
  - intros ->. rewrite Z.eqb_refl in B. discriminate.
  - apply negb_true_iff. now apply Z.eqb_neq.
Qed.

Lemma count_exp_app h l1 l2 : count_exp h (l1 ++ l2) = (count_exp h l1 + count_exp h l2)%nat.
Proof. unfold count_exp. now rewrite filter_app, app_length. Qed.

Lemma count_exp_zero h ubs : count_exp h ubs = 0%nat -> Forall (fun u => ub_exp u <> h) ubs.
Proof.
  unfold count_exp. induction ubs as [|u r IH]; cbn; intros H; constructor.
  - destruct (ub_exp u =? h) eqn:E; [discriminate|]. now apply Z.eqb_neq.
  - apply IH. destruct (ub_exp u =? h); [discriminate|assumption].
Qed.

Lemma count_exp_pos h ubs : count_exp h ubs <> 0%nat -> exists u, In u ubs /\ ub_exp u = h.
Proof.
  unfold count_exp. induction ubs as [|u r IH]; cbn; intros H; [congruence|].
  destruct (ub_exp u =? h) eqn:E.
  - exists u. split; auto. now apply Z.eqb_eq.
  - destruct (IH H) as (w & A & B). exists w; auto.
Qed.

Lemma count_exp_one_split e l1 (u : nat * Z * Z) l2 :
  ub_exp u = e -> count_exp e (l1 ++ u :: l2) = 1%nat -> Forall (fun w => ub_exp w <> e) (l1 ++ l2).
Proof.
  intros Hu H. rewrite count_exp_app in H. change (u :: l2) with ([u] ++ l2) in H.
  rewrite count_exp_app in H. unfold count_exp at 2 in H. cbn in H.
  rewrite Hu, Z.eqb_refl in H. cbn in H.
  apply Forall_app. split; apply count_exp_zero; lia.
Qed.

Definition ubT (h : Z) (ubs : list (nat * Z * Z)) (t : list Z) : Prop :=
  Forall (fun e => In (ub_exp e) t /\ h < ub_exp e) ubs.

Lemma ubT_mono h ubs t t' :
  ubT h ubs t -> (forall k, In k t -> (exists u, In u ubs /\ ub_exp u = k) -> In k t') -> ubT h ubs t'.
Proof.
  unfold ubT. rewrite !Forall_forall. intros H Ht u Hu. destruct (H u Hu). split; auto.
  apply Ht; eauto.
Qed.

Lemma ub_step_T h eh d p ubs t :
  h < eh -> ubT h ubs t ->
  ubT h (fst (ub_step eh d p (ubs, t))) (snd (ub_step eh d p (ubs, t))).
Proof.
  intros Hh HT. unfold ub_step.
  destruct (d =? 0); [exact HT|].
  set (t1 := if (count_exp eh ubs =? 0)%nat then tadd eh t else t).
  assert (H1 : In eh t1 /\ forall k, In k t -> In k t1).
  { unfold t1. destruct (count_exp eh ubs =? 0)%nat eqn:E.
    - split; [apply In_tadd; auto | intros; apply In_tadd; auto].
    - split; auto. apply Nat.eqb_neq in E. destruct (count_exp_pos _ _ E) as (u & A & B).
      unfold ubT in HT. rewrite Forall_forall in HT. destruct (HT u A). now rewrite <- B. }
  destruct H1 as [Heh Hsub].
  destruct (d <? 0).
  - destruct (find_ub p ubs) as [[v e]|] eqn:F; cbn [fst snd].
    + destruct (find_ub_split _ _ _ _ F) as (l1 & l2 & -> & A & _). rewrite A.
      unfold ubT in *. apply Forall_app in HT as [T1 T2]. inversion T2 as [|? ? Tu T2']; subst.
      destruct ((count_exp e (l1 ++ (p, v, e) :: l2) =? 1)%nat && negb (e =? eh)) eqn:E.
      * apply andb_true_iff in E as [E1 E2]. apply Nat.eqb_eq in E1. apply negb_true_iff, Z.eqb_neq in E2.
        pose proof (count_exp_one_split e l1 (p, v, e) l2 eq_refl E1) as HN. apply Forall_app in HN as [N1 N2].
        apply Forall_app; split; [|constructor].
        -- rewrite Forall_forall in *. intros u Hu. destruct (T1 u Hu). split; auto.
           apply In_tdel. split; auto.
        -- cbn. split; auto. apply In_tdel. split; auto.
        -- rewrite Forall_forall in *. intros u Hu. destruct (T2' u Hu). split; auto.
           apply In_tdel. split; auto.
      * apply Forall_app; split; [|constructor].
        -- eapply Forall_impl; [|exact T1]. cbn. intros u []. split; auto.
        -- cbn. split; auto.
        -- eapply Forall_impl; [|exact T2']. cbn. intros u []. split; auto.
    + unfold ubT in *. apply Forall_app; split.
      * eapply Forall_impl; [|exact HT]. cbn. intros u []. split; auto.
      * constructor; auto.
  - destruct (find_ub p ubs) as [[v e]|] eqn:F; cbn [fst snd]; [|exact HT].
    destruct (find_ub_split _ _ _ _ F) as (l1 & l2 & -> & A & B).
    unfold ubT in *. pose proof HT as HT0. apply Forall_app in HT as [T1 T2]. inversion T2 as [|? ? Tu T2']; subst.
    destruct (v - d <=? 0); cbn [fst snd].
    + rewrite B. destruct (count_exp e (l1 ++ (p, v, e) :: l2) =? 1)%nat eqn:E1.
      * apply Nat.eqb_eq in E1.
        pose proof (count_exp_one_split e l1 (p, v, e) l2 eq_refl E1) as HN.
        assert (HT' : Forall (fun e0 => In (ub_exp e0) t /\ h < ub_exp e0) (l1 ++ l2)) by (apply Forall_app; auto).
        rewrite Forall_forall in *. intros u Hu. destruct (HT' u Hu). split; auto.
        apply In_tdel. split; auto.
      * apply Forall_app; auto.
    + rewrite A. apply Forall_app; split; auto.
Qed.

Lemma update_unbonds_T h n c eh ubs t ubs' t' :
  h < eh -> ubT h ubs t -> update_unbonds n c eh ubs t = (ubs', t') -> ubT h ubs' t'.
Proof.
  intros Hh HT H. unfold update_unbonds in H.
  assert (G : (fun st => ubT h (fst st) (snd st))
                (fold_left (fun st p => ub_step eh (c p) p st) (seq 0 n) (ubs, t))).
  { apply fold_left_inv; auto. intros [u tt] b; cbn [fst snd]. now apply ub_step_T. }
  now rewrite H in G.
Qed.

Definition I_ubt (s : state) : Prop :=
  Forall (fun x => ubT (height s) (unbonds x) (ubt x)) (accts s).

Lemma I_ubt_step cfg s o s' :
  0 <= unbond_period cfg -> I_ubt s -> try_op cfg s o = Some s' -> I_ubt s'.
Proof.
  intros Hcfg HU H. unfold I_ubt in *. destruct o; cbn in H.
  - unfold do_transfer in H.
    destruct (nth_error (accts s) from); [|discriminate]. destruct (nth_error (accts s) to); [|discriminate].
    repeat dif; inv_some; auto. unfold with_accts; cbn. repeat apply Forall_upd; auto.
  - apply set_stake_spec in H as [->|(x & x' & us' & t' & Ex & -> & -> & _)]; auto.
    cbn. apply Forall_upd; auto. intros y Hy. rewrite Ex in Hy; inv_some. auto.
  - apply set_delegation_spec in H as (x & Ex & _ & _ & ->). cbn.
    apply Forall_upd; [eapply Forall_map_same; [exact HU|]|]; auto.
  - apply set_bond_spec in H as (x & ubs' & t' & Ex & _ & _ & Hup & _ & _ & ->). cbn.
    apply Forall_upd; [eapply Forall_map_same; [exact HU|]; auto|].
    intros y Hy _. cbn. rewrite nth_error_map, Ex in Hy. cbn in Hy. inv_some. cbn in *.
    eapply update_unbonds_T; [| |exact Hup]; [lia|]. eapply Forall_nth in HU; eauto.
  - unfold do_set_bonder_list in H. destruct (nth_error (accts s) p); [|discriminate].
    repeat dif; inv_some. unfold with_accts; cbn. apply Forall_upd; auto.
  - unfold do_register in H. destruct (nth_error (accts s) a); [|discriminate].
    repeat dif; inv_some; cbn; apply Forall_upd; auto.
  - unfold do_unregister in H. destruct (nth_error (accts s) a); [|discriminate].
    repeat dif; inv_some; cbn; apply Forall_upd; auto.
  - unfold do_claim in H. destruct (nth_error (accts s) a); [|discriminate]. unfold do_transfer in H.
    destruct (nth_error (accts s) (treasury cfg)); [|discriminate]. destruct (nth_error (accts s) a); [|discriminate].
    repeat dif; inv_some; auto. unfold with_accts; cbn. repeat apply Forall_upd; auto.
  - unfold do_issue in H. destruct (nth_error (accts s) (treasury cfg)); [|discriminate].
    repeat dif; inv_some; cbn; apply Forall_upd; auto.
  - unfold do_end_block in H. dif; inv_some. cbn.
    eapply Forall_map_same; [exact HU|]. intros x HT. unfold fire, ubT in *; cbn.
    destruct (tmem (height s + 1) (ubt x)) eqn:Et.
    + rewrite Forall_forall in *. intros u Hu. apply filter_In in Hu as [Hu Hne].
      apply negb_true_iff, Z.eqb_neq in Hne. destruct (HT u Hu). split; auto. lia.
    + rewrite Forall_forall in *. intros u Hu. destruct (HT u Hu) as [A B]. split; auto.
      assert (ub_exp u <> height s + 1); [|lia]. intros Heq. rewrite Heq in A.
      apply tmem_In in A. congruence.
Qed.

(* ------------------------------------------------------------------ *)
(* I_ust: (only along fresh runs) every unstake slot has its timer and  *)
(* has not reached its expire height                                    *)
(* ------------------------------------------------------------------ *)

Fixpoint sdesc (l : list (Z * Z)) : Prop :=
  match l with
  | [] => True
  | u :: r => Forall (fun w => snd w < snd u) r /\ sdesc r
  end.

Definition usT (h : Z) (us : list (Z * Z)) (t : list Z) : Prop :=
  Forall (fun e => In (snd e) t /\ h < snd e) us /\ sdesc us.

Lemma sdesc_filter p l : sdesc l -> sdesc (filter p l).
Proof.
  induction l as [|u r IH]; cbn; auto. intros [A B]. destruct (p u); cbn; auto.
  split; auto. now apply Forall_filter.
Qed.

Lemma usT_tail_tdel h u r t : usT h (u :: r) t -> usT h r (tdel (snd u) t).
Proof.
  intros [HF [HS1 HS2]]. inversion HF as [|? ? Hu HF']; subst. split; auto.
  rewrite Forall_forall in *. intros w Hw. destruct (HF' w Hw). split; auto.
  apply In_tdel. split; auto. specialize (HS1 w Hw). lia.
Qed.

Lemma dec_unstake_T h us : forall remain t us' rm,
  usT h us t -> dec_unstake us remain = (us', rm) ->
  usT h us' (fold_left (fun t h => tdel h t) rm t).
Proof.
  induction us as [|[v e] r IH]; cbn; intros remain t us' rm HT H.
  - injection H as <- <-. exact HT.
  - destruct (v <=? remain).
    + destruct (remain =? v).
      * injection H as <- <-. cbn. apply (usT_tail_tdel h (v, e) r t HT).
      * destruct (dec_unstake r (remain - v)) as [r' t0] eqn:E. injection H as <- <-. cbn.
        eapply IH; [|exact E]. apply (usT_tail_tdel h (v, e) r t HT).
    + injection H as <- <-. cbn. destruct HT as [HF [HS1 HS2]]. inversion HF; subst.
      split; [constructor; auto|]. cbn. auto.
Qed.

Lemma In_ins_unstake w v eh l : In w (ins_unstake v eh l) -> w = (v, eh) \/ In w l.
Proof.
  induction l as [|[v' e'] r IH]; cbn.
  - intros [<-|[]]; auto.
  - destruct (e' <=? eh); cbn.
    + intros [<-|[<-|H]]; auto.
    + intros [<-|H]; auto. destruct (IH H); auto.
Qed.

Lemma ins_unstake_T h v eh l t :
  h < eh -> usT h l t -> (forall w, In w l -> snd w <> eh) -> usT h (ins_unstake v eh l) (tadd eh t).
Proof.
  intros Hh [HF HS] Hfresh. split.
  - rewrite Forall_forall in *. intros w Hw. apply In_ins_unstake in Hw as [->|Hw]; cbn.
    + split; auto. apply In_tadd; auto.
    + destruct (HF w Hw). split; auto. apply In_tadd; auto.
  - clear HF. induction l as [|[v' e'] r IH]; cbn; auto.
    destruct HS as [S1 S2]. cbn in S1.
    assert (e' <> eh) by (apply (Hfresh (v', e')); now left).
    destruct (e' <=? eh) eqn:E; cbn.
    + split; [|split; auto]. constructor; [cbn; lia|].
      eapply Forall_impl; [|exact S1]. cbn. intros; lia.
    + split.
      * rewrite Forall_forall in *. intros w Hw. apply In_ins_unstake in Hw as [->|Hw]; cbn; [lia|auto].
      * apply IH; auto. intros w Hw. apply Hfresh. now right.
Qed.

Definition I_ust (s : state) : Prop :=
  Forall (fun x => usT (height s) (unstakes x) (ust x)) (accts s).

Lemma I_ust_step cfg s o s' :
  I_ust s -> fresh_op cfg s o = true -> try_op cfg s o = Some s' -> I_ust s'.
Proof.
  intros HU Hfr H. unfold I_ust in *. destruct o; cbn in H.
  - unfold do_transfer in H.
    destruct (nth_error (accts s) from); [|discriminate]. destruct (nth_error (accts s) to); [|discriminate].
    repeat dif; inv_some; auto. unfold with_accts; cbn. repeat apply Forall_upd; auto.
  - apply set_stake_spec in H as [->|(x & x' & us' & t' & Ex & -> & -> & _ & _ & _ & Hcase)]; auto.
    cbn. apply Forall_upd; auto. intros y Hy HT. rewrite Ex in Hy; inv_some. cbn.
    cbn in Hfr. rewrite Ex in Hfr. apply andb_true_iff in Hfr as [Hlock Hfr].
    destruct Hcase as [(Hlt & rm & Hdec & ->)|(Hlt & Hinc)].
    + eapply dec_unstake_T; eauto.
    + unfold inc_unstake in Hinc.
      destruct (slot_max cfg <=? length (unstakes y))%nat eqn:Efull.
      * destruct (unstakes y) as [|[lv le] r] eqn:Eus; [discriminate|].
        destruct HT as [HF [S1 S2]]. inversion HF as [|? ? [Hin Hh] HF']; subst. cbn in *.
        destruct (le <? height s + 1 + lock) eqn:El; injection Hinc as <- <-.
        -- split; [constructor|].
           ++ cbn. split; [apply In_tadd; auto | lia].
           ++ rewrite Forall_forall in *. intros w Hw. destruct (HF' w Hw). split; auto.
              apply In_tadd. right. apply In_tdel. split; auto. specialize (S1 w Hw). lia.
           ++ cbn. split; auto. eapply Forall_impl; [|exact S1]. cbn. intros; lia.
        -- split; [constructor; auto|]. cbn. auto.
      * injection Hinc as <- <-.
        apply ins_unstake_T; auto; [lia|].
        assert (Hex : existsb (fun e => snd e =? height s + 1 + lock) (unstakes y) = false).
        { rewrite !orb_true_iff in Hfr. destruct Hfr as [[Hf|Hf]|Hf]; [lia|congruence|].
          now apply negb_true_iff in Hf. }
        intros w Hw Heq.
        assert (existsb (fun e => snd e =? height s + 1 + lock) (unstakes y) = true); [|congruence].
        apply existsb_exists. exists w. split; auto. lia.
  - apply set_delegation_spec in H as (x & Ex & _ & _ & ->). cbn.
    apply Forall_upd; [eapply Forall_map_same; [exact HU|]|]; auto.
  - apply set_bond_spec in H as (x & ubs' & t' & Ex & _ & _ & Hup & _ & _ & ->). cbn.
    apply Forall_upd; [eapply Forall_map_same; [exact HU|]; auto|]. auto.
  - unfold do_set_bonder_list in H. destruct (nth_error (accts s) p); [|discriminate].
    repeat dif; inv_some. unfold with_accts; cbn. apply Forall_upd; auto.
  - unfold do_register in H. destruct (nth_error (accts s) a); [|discriminate].
    repeat dif; inv_some; cbn; apply Forall_upd; auto.
  - unfold do_unregister in H. destruct (nth_error (accts s) a); [|discriminate].
    repeat dif; inv_some; cbn; apply Forall_upd; auto.
  - unfold do_claim in H. destruct (nth_error (accts s) a); [|discriminate]. unfold do_transfer in H.
    destruct (nth_error (accts s) (treasury cfg)); [|discriminate]. destruct (nth_error (accts s) a); [|discriminate].
    repeat dif; inv_some; auto. unfold with_accts; cbn. repeat apply Forall_upd; auto.
  - unfold do_issue in H. destruct (nth_error (accts s) (treasury cfg)); [|discriminate].
    repeat dif; inv_some; cbn; apply Forall_upd; auto.
  - unfold do_end_block in H. dif; inv_some. cbn.
    eapply Forall_map_same; [exact HU|]. intros x [HF HS]. unfold fire, usT in *; cbn.
    destruct (tmem (height s + 1) (ust x)) eqn:Et.
    + split; [|now apply sdesc_filter].
      rewrite Forall_forall in *. intros u Hu. apply filter_In in Hu as [Hu Hne].
      apply negb_true_iff, Z.eqb_neq in Hne. destruct (HF u Hu). split; auto. lia.
    + split; auto. rewrite Forall_forall in *. intros u Hu. destruct (HF u Hu) as [A B]. split; auto.
      assert (snd u <> height s + 1); [|lia]. intros Heq. rewrite Heq in A.
      apply tmem_In in A. congruence.
Qed.

Lemma fresh_run_invariant cfg : forall ops s,
  fresh_run cfg s ops = true -> I_ust s -> I_ust (run cfg s ops).
Proof.
  induction ops as [|o r IH]; intros s Hf HU; cbn in *; auto.
  apply andb_true_iff in Hf as [Hf1 Hf2]. apply IH; auto.
  unfold step in *. destruct (try_op cfg s o) eqn:E; cbn in *; auto.
  eapply I_ust_step; eauto.
Qed.

(* ------------------------------------------------------------------ *)
(* I_tm: a timer entry above the current height has a slot / an unbond  *)
(* that expires there; hence the end-of-block step never fails          *)
(* ------------------------------------------------------------------ *)

Definition usB (h : Z) (us : list (Z * Z)) (t : list Z) : Prop :=
  forall k, In k t -> h < k -> exists u, In u us /\ snd u = k.
Definition ubB (h : Z) (ubs : list (nat * Z * Z)) (t : list Z) : Prop :=
  forall k, In k t -> h < k -> exists u, In u ubs /\ ub_exp u = k.

Lemma In_fold_tdel k rm : forall t, In k (fold_left (fun t h => tdel h t) rm t) <-> In k t /\ ~ In k rm.
Proof.
  induction rm as [|e r IH]; cbn; intros t.
  - tauto.
  - rewrite IH, In_tdel. split; [intros [[A B] C]|intros [A B]]; repeat split; auto.
    intros [->|]; auto.
Qed.

Lemma dec_unstake_keeps us : forall remain us' rm,
  dec_unstake us remain = (us', rm) ->
  forall u, In u us -> ~ In (snd u) rm -> exists w, In w us' /\ snd w = snd u.
Proof.
  induction us as [|[v e] r IH]; cbn; intros remain us' rm H u Hu Hn; [contradiction|].
  destruct (v <=? remain).
  - destruct (remain =? v).
    + injection H as <- <-. destruct Hu as [<-|Hu]; [exfalso; apply Hn; now left|]. eauto.
    + destruct (dec_unstake r (remain - v)) as [r' t0] eqn:E. injection H as <- <-.
      destruct Hu as [<-|Hu]; [exfalso; apply Hn; now left|].
      eapply IH; eauto. intros Hc. apply Hn. now right.
  - injection H as <- <-. destruct Hu as [<-|Hu]; [exists (v - remain, e); split; [now left|reflexivity]|].
    exists u. split; auto. now right.
Qed.

Lemma In_ins_unstake_old w v eh l : In w l -> In w (ins_unstake v eh l).
Proof.
  induction l as [|[v' e'] r IH]; cbn; [contradiction|].
  destruct (e' <=? eh); cbn; intros [<-|H]; auto.
Qed.

Lemma In_ins_unstake_new v eh l : In (v, eh) (ins_unstake v eh l).
Proof.
  induction l as [|[v' e'] r IH]; cbn; [now left|]. destruct (e' <=? eh); cbn; auto.
Qed.

Lemma count_exp_two e l1 (u : nat * Z * Z) l2 :
  ub_exp u = e -> count_exp e (l1 ++ u :: l2) <> 1%nat -> exists w, In w (l1 ++ l2) /\ ub_exp w = e.
Proof.
  intros Hu H. rewrite count_exp_app in H. change (u :: l2) with ([u] ++ l2) in H.
  rewrite count_exp_app in H. unfold count_exp at 2 in H. cbn in H.
  rewrite Hu, Z.eqb_refl in H. cbn in H.
  destruct (Nat.eq_dec (count_exp e l1) 0) as [E1|E1].
  - destruct (count_exp_pos e l2) as (w & A & B); [lia|]. exists w. split; auto. apply in_or_app; auto.
  - destruct (count_exp_pos e l1 E1) as (w & A & B). exists w. split; auto. apply in_or_app; auto.
Qed.

Lemma ub_step_B h eh d p ubs t :
  ubB h ubs t -> ubB h (fst (ub_step eh d p (ubs, t))) (snd (ub_step eh d p (ubs, t))).
Proof.
  intros HB. unfold ub_step.
  destruct (d =? 0); [exact HB|].
  set (t1 := if (count_exp eh ubs =? 0)%nat then tadd eh t else t).
  assert (H1 : forall k, In k t1 -> k = eh \/ In k t).
  { unfold t1. intros k. destruct (count_exp eh ubs =? 0)%nat; [apply In_tadd|auto]. }
  destruct (d <? 0).
  - destruct (find_ub p ubs) as [[v e]|] eqn:F; cbn [fst snd].
    + destruct (find_ub_split _ _ _ _ F) as (l1 & l2 & -> & A & _). rewrite A.
      intros k Hk Hh.
      assert (Hk1 : In k t1 /\ (((count_exp e (l1 ++ (p, v, e) :: l2) =? 1)%nat && negb (e =? eh)) = true -> k <> e)).
      { destruct ((count_exp e (l1 ++ (p, v, e) :: l2) =? 1)%nat && negb (e =? eh)).
        - apply In_tdel in Hk as [A1 A2]. split; auto.
        - split; auto. discriminate. }
      destruct Hk1 as [Hk1 Hne].
      destruct (Z.eq_dec k eh) as [->|Hkeh].
      { exists (p, v - d, eh). split; [apply in_or_app; right; now left|reflexivity]. }
      destruct (H1 k Hk1) as [|Hkt]; [contradiction|].
      destruct (HB k Hkt Hh) as (u & Hu & Hue).
      apply in_app_or in Hu as [Hu|[<-|Hu]].
      * exists u. split; auto. apply in_or_app; auto.
      * (* the modified entry carried the timer k = e *)
        cbn in Hue. subst k.
        destruct (count_exp e (l1 ++ (p, v, e) :: l2) =? 1)%nat eqn:Ec.
        -- exfalso. apply Hne; auto. rewrite andb_true_l. apply negb_true_iff. now apply Z.eqb_neq.
        -- apply Nat.eqb_neq in Ec. destruct (count_exp_two e l1 (p, v, e) l2 eq_refl Ec) as (w & Hw & Hwe).
           exists w. split; auto. apply in_app_or in Hw as [|]; apply in_or_app; [auto|right; now right].
      * exists u. split; auto. apply in_or_app; right; now right.
    + intros k Hk Hh. destruct (H1 k Hk) as [->|Hkt].
      * exists (p, - d, eh). split; [apply in_or_app; right; now left|reflexivity].
      * destruct (HB k Hkt Hh) as (u & Hu & Hue). exists u. split; auto. apply in_or_app; auto.
  - destruct (find_ub p ubs) as [[v e]|] eqn:F; cbn [fst snd]; [|exact HB].
    destruct (find_ub_split _ _ _ _ F) as (l1 & l2 & -> & A & B).
    destruct (v - d <=? 0); cbn [fst snd].
    + rewrite B. intros k Hk Hh.
      destruct (count_exp e (l1 ++ (p, v, e) :: l2) =? 1)%nat eqn:Ec.
      * apply In_tdel in Hk as [Hkt Hne]. destruct (HB k Hkt Hh) as (u & Hu & Hue).
        apply in_app_or in Hu as [Hu|[<-|Hu]]; [exists u; split; auto; apply in_or_app; auto| |exists u; split; auto; apply in_or_app; auto].
        cbn in Hue. congruence.
      * destruct (HB k Hk Hh) as (u & Hu & Hue).
        apply in_app_or in Hu as [Hu|[<-|Hu]]; [exists u; split; auto; apply in_or_app; auto| |exists u; split; auto; apply in_or_app; auto].
        cbn in Hue. subst k. apply Nat.eqb_neq in Ec.
        destruct (count_exp_two e l1 (p, v, e) l2 eq_refl Ec) as (w & Hw & Hwe). eauto.
    + rewrite A. intros k Hk Hh. destruct (HB k Hk Hh) as (u & Hu & Hue).
      apply in_app_or in Hu as [Hu|[<-|Hu]].
      * exists u. split; auto. apply in_or_app; auto.
      * exists (p, v - d, e). split; [apply in_or_app; right; now left|exact Hue].
      * exists u. split; auto. apply in_or_app; right; now right.
Qed.

Lemma update_unbonds_B h n c eh ubs t ubs' t' :
  ubB h ubs t -> update_unbonds n c eh ubs t = (ubs', t') -> ubB h ubs' t'.
Proof.
  intros HB H. unfold update_unbonds in H.
  assert (G : (fun st => ubB h (fst st) (snd st))
                (fold_left (fun st p => ub_step eh (c p) p st) (seq 0 n) (ubs, t))).
  { apply fold_left_inv; auto. intros [u tt] b; cbn [fst snd]. apply ub_step_B. }
  now rewrite H in G.
Qed.

Definition I_tm (s : state) : Prop :=
  Forall (fun x => usB (height s) (unstakes x) (ust x) /\ ubB (height s) (unbonds x) (ubt x)) (accts s).

Lemma I_tm_step cfg s o s' : I_tm s -> try_op cfg s o = Some s' -> I_tm s'.
Proof.
  intros HU H. unfold I_tm in *. destruct o; cbn in H.
  - unfold do_transfer in H.
    destruct (nth_error (accts s) from); [|discriminate]. destruct (nth_error (accts s) to); [|discriminate].
    repeat dif; inv_some; auto. unfold with_accts; cbn. repeat apply Forall_upd; auto.
  - apply set_stake_spec in H as [->|(x & x' & us' & t' & Ex & -> & -> & _ & _ & _ & Hcase)]; auto.
    cbn. apply Forall_upd; auto. intros y Hy [HT HB]. rewrite Ex in Hy; inv_some. cbn. split; auto.
    destruct Hcase as [(Hlt & rm & Hdec & ->)|(Hlt & Hinc)].
    + intros k Hk Hh. apply In_fold_tdel in Hk as [Hk Hn].
      destruct (HT k Hk Hh) as (u & Hu & <-). eapply dec_unstake_keeps; eauto.
    + unfold inc_unstake in Hinc.
      destruct (slot_max cfg <=? length (unstakes y))%nat.
      * destruct (unstakes y) as [|[lv le] r] eqn:Eus; [discriminate|].
        destruct (le <? height s + 1 + lock) eqn:El; injection Hinc as <- <-.
        -- intros k Hk Hh. apply In_tadd in Hk as [->|Hk].
           ++ eexists; split; [now left|reflexivity].
           ++ apply In_tdel in Hk as [Hk Hne]. destruct (HT k Hk Hh) as (u & [<-|Hu] & Hue); [cbn in Hue; congruence|].
              exists u. split; auto. now right.
        -- intros k Hk Hh. destruct (HT k Hk Hh) as (u & [<-|Hu] & Hue).
           ++ eexists; split; [now left|exact Hue].
           ++ exists u. split; auto. now right.
      * injection Hinc as <- <-. intros k Hk Hh. apply In_tadd in Hk as [->|Hk].
        -- eexists; split; [apply In_ins_unstake_new|reflexivity].
        -- destruct (HT k Hk Hh) as (u & Hu & Hue). exists u. split; auto. now apply In_ins_unstake_old.
  - apply set_delegation_spec in H as (x & Ex & _ & _ & ->). cbn.
    apply Forall_upd; [eapply Forall_map_same; [exact HU|]|]; auto.
  - apply set_bond_spec in H as (x & ubs' & t' & Ex & _ & _ & Hup & _ & _ & ->). cbn.
    apply Forall_upd; [eapply Forall_map_same; [exact HU|]; auto|].
    intros y Hy _. cbn. rewrite nth_error_map, Ex in Hy. cbn in Hy. inv_some. cbn in *.
    eapply Forall_nth in HU; eauto. destruct HU as [HT HB]. split; auto.
    eapply update_unbonds_B; eauto.
  - unfold do_set_bonder_list in H. destruct (nth_error (accts s) p); [|discriminate].
    repeat dif; inv_some. unfold with_accts; cbn. apply Forall_upd; auto.
  - unfold do_register in H. destruct (nth_error (accts s) a); [|discriminate].
    repeat dif; inv_some; cbn; apply Forall_upd; auto.
  - unfold do_unregister in H. destruct (nth_error (accts s) a); [|discriminate].
    repeat dif; inv_some; cbn; apply Forall_upd; auto.
  - unfold do_claim in H. destruct (nth_error (accts s) a); [|discriminate]. unfold do_transfer in H.
    destruct (nth_error (accts s) (treasury cfg)); [|discriminate]. destruct (nth_error (accts s) a); [|discriminate].
    repeat dif; inv_some; auto. unfold with_accts; cbn. repeat apply Forall_upd; auto.
  - unfold do_issue in H. destruct (nth_error (accts s) (treasury cfg)); [|discriminate].
    repeat dif; inv_some; cbn; apply Forall_upd; auto.
  - unfold do_end_block in H. dif; inv_some. cbn.
    eapply Forall_map_same; [exact HU|]. intros x [HT HB]. unfold fire; cbn. split.
    + intros k Hk Hh. destruct (HT k Hk) as (u & Hu & Hue); [lia|].
      exists u. split; auto. destruct (tmem (height s + 1) (ust x)); auto.
      apply filter_In. split; auto. apply negb_true_iff, Z.eqb_neq. lia.
    + intros k Hk Hh. destruct (HB k Hk) as (u & Hu & Hue); [lia|].
      exists u. split; auto. destruct (tmem (height s + 1) (ubt x)); auto.
      apply filter_In. split; auto. apply negb_true_iff, Z.eqb_neq. lia.
Qed.

Lemma I_tm_end_block s : I_tm s -> exists s', do_end_block s = Some s'.
Proof.
  intros HU. unfold do_end_block.
  assert (forallb (fire_ok (height s + 1)) (accts s) = true) as ->; [|eauto].
  apply forallb_forall. intros x Hx. unfold I_tm in HU. rewrite Forall_forall in HU.
  destruct (HU x Hx) as [HT HB]. unfold fire_ok. apply andb_true_iff. split.
  - destruct (tmem (height s + 1) (ubt x)) eqn:E; cbn; auto.
    apply tmem_In in E. destruct (HB _ E) as (u & Hu & Hue); [lia|].
    apply existsb_exists. exists u. split; auto. now apply Z.eqb_eq.
  - destruct (tmem (height s + 1) (ust x)) eqn:E; cbn; auto.
    apply tmem_In in E. destruct (HT _ E) as (u & Hu & Hue); [lia|].
    apply existsb_exists. exists u. split; auto. now apply Z.eqb_eq.
Qed.

(* ------------------------------------------------------------------ *)
(* genesis                                                              *)
(* ------------------------------------------------------------------ *)

Lemma genesis_accts_all (P : acct -> Prop) (Q : Z -> Prop) bals :
  (forall i b, Q b -> P (empty_acct i b)) -> Forall Q bals -> forall i, Forall P (genesis_accts i bals).
Proof. intros H HF. induction HF; cbn; intros i; constructor; auto. Qed.

Lemma genesis_sum (f : acct -> Z) (g : Z -> Z) bals :
  (forall i b, f (empty_acct i b) = g b) -> forall i, sumZ f (genesis_accts i bals) = sumZ g bals.
Proof. intros H. induction bals; cbn; intros i; [reflexivity|]. now rewrite H, IHbals. Qed.

Lemma genesis_ids bals : forall i, map aid (genesis_accts i bals) = seq i (length bals).
Proof. induction bals; cbn; intros i; [reflexivity|]. now rewrite IHbals. Qed.

Lemma genesis_length bals : forall i, length (genesis_accts i bals) = length bals.
Proof. induction bals; cbn; intros i; [reflexivity|]. now rewrite IHbals. Qed.

Lemma sumZ_const0 {A} (l : list A) : sumZ (fun _ => 0) l = 0.
Proof. induction l; cbn; lia. Qed.

Lemma I_sum_genesis bals : I_sum (genesis bals).
Proof.
  split; cbn.
  - rewrite (genesis_sum acct_sum (fun b => b)); auto. intros; unfold acct_sum, us_total; cbn. lia.
  - rewrite (genesis_sum stake (fun _ => 0)); auto. now rewrite sumZ_const0.
Qed.

Lemma I_loc_genesis bals : Forall (fun b => 0 <= b) bals -> I_loc (genesis bals).
Proof.
  intros H. unfold I_loc; cbn. eapply genesis_accts_all; [|exact H].
  intros i b Hb. constructor; cbn; auto; try constructor; try lia.
  unfold using_stake, amt_of, ub_total; cbn. lia.
Qed.

Lemma I_id_genesis bals : I_id (genesis bals).
Proof. unfold I_id; cbn. now rewrite genesis_ids, genesis_length. Qed.

Lemma I_vote_genesis bals : I_vote (genesis bals).
Proof.
  unfold I_vote, vote_ok; cbn. split; [|split].
  - apply genesis_accts_all with (Q := fun _ => True); [|apply Forall_forall; auto].
    intros i b _. unfold vote_acct, deleg_in, bond_in; cbn.
    rewrite (genesis_sum _ (fun _ => 0)) by reflexivity.
    rewrite (genesis_sum _ (fun _ => 0)) by reflexivity.
    rewrite sumZ_const0. auto.
  - rewrite (genesis_sum act_deleg (fun _ => 0)) by reflexivity. now rewrite sumZ_const0.
  - rewrite (genesis_sum act_bond (fun _ => 0)) by reflexivity. now rewrite sumZ_const0.
Qed.

Lemma I_ubt_genesis bals : I_ubt (genesis bals).
Proof.
  unfold I_ubt; cbn. apply genesis_accts_all with (Q := fun _ => True); [|apply Forall_forall; auto].
  intros; unfold ubT; cbn. constructor.
Qed.

Lemma I_ust_genesis bals : I_ust (genesis bals).
Proof.
  unfold I_ust; cbn. apply genesis_accts_all with (Q := fun _ => True); [|apply Forall_forall; auto].
  intros; unfold usT; cbn. split; [constructor|exact I].
Qed.

(* ------------------------------------------------------------------ *)
(* the invariants along every run                                       *)
(* ------------------------------------------------------------------ *)

Definition I_all (s : state) : Prop := I_sum s /\ I_loc s /\ I_id s /\ I_vote s.

Lemma I_all_run cfg bals ops :
  Forall (fun b => 0 <= b) bals -> I_all (run cfg (genesis bals) ops).
Proof.
  intros Hb. apply run_invariant.
  - intros s o s' (A & B & C & D) H. repeat split.
    + eapply I_sum_step; eauto.
    + eapply I_sum_step; eauto.
    + eapply I_loc_step; eauto.
    + eapply I_id_step; eauto.
    + eapply I_vote_step; eauto.
    + eapply I_vote_step; eauto.
    + eapply I_vote_step; eauto.
  - repeat split; try apply I_sum_genesis; try apply I_id_genesis; try apply I_vote_genesis.
    now apply I_loc_genesis.
Qed.

Lemma I_sum_run cfg bals ops : I_sum (run cfg (genesis bals) ops).
Proof. apply run_invariant; [intros; eapply I_sum_step; eauto | apply I_sum_genesis]. Qed.

Lemma I_tm_genesis bals : I_tm (genesis bals).
Proof.
  unfold I_tm; cbn. apply genesis_accts_all with (Q := fun _ => True); [|apply Forall_forall; auto].
  intros; cbn. split; intros k [].
Qed.

(* the end-of-block step (timer handling) never fails *)
Lemma end_block_never_fails cfg bals ops :
  exists s', try_op cfg (run cfg (genesis bals) ops) OEndBlock = Some s'.
Proof.
  cbn. apply I_tm_end_block.
  apply run_invariant; [intros; eapply I_tm_step; eauto | apply I_tm_genesis].
Qed.

(* ---------- the statements used by Prop_C34 ---------- *)

Lemma supply_conserved cfg bals ops :
  let s := run cfg (genesis bals) ops in
  supply s = sumZ (fun x => bal x + stake x + us_total (unstakes x)) (accts s).
Proof. cbn. exact (proj1 (I_sum_run cfg bals ops)). Qed.

Lemma voting_power_bounded cfg bals ops :
  Forall (fun b => 0 <= b) bals ->
  let s := run cfg (genesis bals) ops in
  forall x, In x (accts s) ->
    amt_of (delegs x) + amt_of (bonds x) + ub_total (unbonds x) <= stake x.
Proof.
  intros Hb s x Hx. destruct (I_all_run cfg bals ops Hb) as (_ & HL & _).
  unfold I_loc in HL. rewrite Forall_forall in HL. exact (ok_power _ (HL x Hx)).
Qed.

Lemma amounts_nonneg cfg bals ops :
  Forall (fun b => 0 <= b) bals ->
  let s := run cfg (genesis bals) ops in
  forall x, In x (accts s) ->
    0 <= bal x /\ 0 <= stake x /\
    Forall (fun e => 0 < fst e) (unstakes x) /\ Forall (fun e => 0 < snd e) (delegs x) /\
    Forall (fun e => 0 < snd e) (bonds x) /\ Forall (fun e => 0 < ub_amt e) (unbonds x).
Proof.
  intros Hb s x Hx. destruct (I_all_run cfg bals ops Hb) as (_ & HL & _).
  unfold I_loc in HL. rewrite Forall_forall in HL. destruct (HL x Hx). repeat split; auto.
Qed.

Lemma totals_consistent cfg bals ops :
  Forall (fun b => 0 <= b) bals ->
  let s := run cfg (genesis bals) ops in
  tstake s = sumZ stake (accts s) /\
  tdeleg s = sumZ (fun p => if is_active p then pdeleg p else 0) (accts s) /\
  tbond s = sumZ (fun p => if is_active p then pbond p else 0) (accts s) /\
  (forall i p, nth_error (accts s) i = Some p ->
     pdeleg p = sumZ (fun a => amt_to i (delegs a)) (accts s) /\
     pbond p = sumZ (fun a => amt_to i (bonds a)) (accts s)).
Proof.
  intros Hb s. destruct (I_all_run cfg bals ops Hb) as ((_ & HT) & _ & HI & (HF & Htd & Htb)).
  repeat split; auto.
  - eapply Forall_nth in HF; eauto. destruct HF as (A & _). now rewrite (I_id_nth _ _ _ HI H) in A.
  - eapply Forall_nth in HF; eauto. destruct HF as (_ & B & _). now rewrite (I_id_nth _ _ _ HI H) in B.
Qed.

Lemma unstake_ledger cfg bals ops :
  Forall (fun b => 0 <= b) bals ->
  let s := run cfg (genesis bals) ops in
  forall x, In x (accts s) -> g_in x = g_back x + g_paid x + us_total (unstakes x).
Proof.
  intros Hb s x Hx. destruct (I_all_run cfg bals ops Hb) as (_ & HL & _).
  unfold I_loc in HL. rewrite Forall_forall in HL. exact (ok_ledger _ (HL x Hx)).
Qed.

Lemma unstake_once_fresh cfg bals ops :
  Forall (fun b => 0 <= b) bals ->
  fresh_run cfg (genesis bals) ops = true ->
  let s := run cfg (genesis bals) ops in
  forall x, In x (accts s) ->
    g_in x = g_back x + g_paid x + us_total (unstakes x) /\
    forall v e, In (v, e) (unstakes x) -> height s < e /\ In e (ust x).
Proof.
  intros Hb Hf s x Hx. split; [eapply unstake_ledger; eauto|].
  pose proof (fresh_run_invariant cfg ops _ Hf (I_ust_genesis bals)) as HU.
  unfold I_ust in HU. rewrite Forall_forall in HU. destruct (HU x Hx) as [HF _].
  rewrite Forall_forall in HF. intros v e Hve. destruct (HF _ Hve). cbn in *. auto.
Qed.

Lemma unbond_released_in_time cfg bals ops :
  0 <= unbond_period cfg ->
  let s := run cfg (genesis bals) ops in
  forall x u, In x (accts s) -> In u (unbonds x) -> height s < ub_exp u /\ In (ub_exp u) (ubt x).
Proof.
  intros Hc s x u Hx Hu.
  assert (HU : I_ubt s).
  { apply run_invariant; [intros; eapply I_ubt_step; eauto | apply I_ubt_genesis]. }
  unfold I_ubt in HU. rewrite Forall_forall in HU. specialize (HU x Hx).
  unfold ubT in HU. rewrite Forall_forall in HU. destruct (HU u Hu). auto.
Qed.

(* ------------------------------------------------------------------ *)
(* the code's unstake timer bookkeeping loses slots: refutation of the  *)
(* unconditional "every slot is released at its expire height"          *)
(* ------------------------------------------------------------------ *)

Definition cfg0 : config := mkConfig 3 10 70 4 4 10 2000 0.

Definition locks_nonneg (ops : list op) : bool :=
  forallb (fun o => match o with OSetStake _ _ l => 0 <=? l | _ => true end) ops.

(* account 1 stakes 1000, unstakes 10 twice in ONE block (both slots expire at
   height 22), re-stakes 10 in the next block (the latest slot is removed and
   with it the account's timer entry at 22), then 30 blocks pass *)
Definition witness_ops : list op :=
  [OSetStake 1 1000 0; OEndBlock;
   OSetStake 1 990 20; OSetStake 1 980 20; OEndBlock;
   OSetStake 1 990 20; OEndBlock] ++ repeat OEndBlock 30.

Lemma unstake_once_refuted :
  exists cfg bals ops,
    Forall (fun b => 0 <= b) bals /\ locks_nonneg ops = true /\
    let s := run cfg (genesis bals) ops in
    exists x v e, In x (accts s) /\ In (v, e) (unstakes x) /\ e <= height s /\ ~ In e (ust x).
Proof.
  exists cfg0, [1000; 5000], witness_ops.
  split; [repeat (apply Forall_cons; [lia|]); apply Forall_nil|]. split; [reflexivity|].
  set (s := run cfg0 (genesis [1000; 5000]) witness_ops).
  assert (E : nth_error (accts s) 1 = Some (mkAcct 1 4000 990 [(10, 22)] [] [] [] [] [] PNone 0 0 [] 20 10 0) /\ height s = 33).
  { vm_compute. split; reflexivity. }
  destruct E as [E Eh]. eexists; exists 10, 22. split; [eapply nth_error_In; exact E|].
  split; [cbn; now left|]. split; [rewrite Eh; lia|]. cbn. intros [].
Qed.

(* the witness is NOT a fresh run, as it must be *)
Example witness_not_fresh : fresh_run cfg0 (genesis [1000; 5000]) witness_ops = false.
Proof. vm_compute. reflexivity. Qed.

(* ------------------------------------------------------------------ *)
(* non-vacuity                                                          *)
(* ------------------------------------------------------------------ *)

Definition ex_bals : list Z := [100000; 50000; 50000; 50000].

Definition ex_ops : list op :=
  [ORegister 1; OSetBonderList 1 [2%nat]; OSetStake 2 10000 0;
   OSetDelegation 2 [(1%nat, 3000)]; OSetBond 2 [(1%nat, 2000)]; OEndBlock;
   OSetBond 2 [(1%nat, 500)]; OSetStake 3 4000 0; OEndBlock;
   OSetStake 3 1000 5; OTransfer 3 1 100; OClaim 2 7; OIssue 50; OEndBlock;
   OSetStake 3 500 7; OSetStake 3 800 7; ORegister 3; OSetDelegation 1 [(3%nat, 0); (1%nat, 0)];
   OUnregister 1 (* rejected: P-Rep 1 still has a bond *);
   OSetStake 2 100 3 (* rejected: below the voting power in use *); OEndBlock;
   OUnregister 3; OEndBlock]
  ++ repeat OEndBlock 5.

Example ex_hyps : Forall (fun b => 0 <= b) ex_bals /\ fresh_run cfg0 (genesis ex_bals) ex_ops = true /\
                  0 <= unbond_period cfg0.
Proof. split; [repeat (apply Forall_cons; [lia|]); apply Forall_nil|]. split; [vm_compute; reflexivity|cbn; lia]. Qed.

(* the end state of the example: the slot of 3000 was paid at height 8, a slot
   of 200 is pending (expires at 11), an unbond of 1500 is pending, two fees of
   2000 were burnt and 50 issued: supply 250000 - 4000 + 50 *)
Example ex_final :
  let s := run cfg0 (genesis ex_bals) ex_ops in
  height s = 10 /\ supply s = 246050 /\ tstake s = 10800 /\ tdeleg s = 3000 /\ tbond s = 500 /\
  option_map (fun x => (bal x, stake x, unstakes x, g_in x, g_back x, g_paid x, pstat x)) (nth_error (accts s) 3)
    = Some (46900, 800, [(200, 11)], 3500, 300, 3000, PUnreg) /\
  option_map (fun x => (stake x, delegs x, bonds x, unbonds x)) (nth_error (accts s) 2)
    = Some (10000, [(1%nat, 3000)], [(1%nat, 500)], [(1%nat, 1500, 72)]) /\
  option_map (fun x => (pstat x, pdeleg x, pbond x)) (nth_error (accts s) 1) = Some (PActive, 3000, 500).
Proof. vm_compute. repeat split; reflexivity. Qed.

(* two operations of the example are rejected and leave the state unchanged *)
Example ex_rejected :
  snd (fold_left (fun '(s, acc) o => let (s', b) := step cfg0 s o in (s', acc ++ [b])) ex_ops (genesis ex_bals, []))
  = repeat true 18 ++ [false; false] ++ repeat true 8.
Proof. vm_compute. reflexivity. Qed.
