(* Proofs_K_onPacketIsBroadcast.v -- network PeerToPeer.onPacket: isBroadcast
   Split out of Proofs_Kernels.v: this file imports ONLY the generated kernel(s)
   gen/K_onPacketIsBroadcast.v, so an edit of another kernel's Go source cannot break it.
   Style: stdlib only; arithmetic closed by lia with the euclidean-division hook. *)
From Coq Require Import ZArith Bool String List Lia.
From Coq Require Import ZifyBool.
From Goloop Require Import lib.GoInt Proofs_K_tactics.
From Goloop.gen Require Import K_onPacketIsBroadcast.
Import ListNotations.
Local Open Scope Z_scope.

Ltac Zify.zify_post_hook ::= Z.to_euclidean_division_equations.

Lemma onPacketIsBroadcast_spec dest ttl :
  onPacketIsBroadcast dest ttl = true <-> (dest = 0 /\ ttl = 0).
Proof. unfold onPacketIsBroadcast. kernel_lia. Qed.

Lemma onPacketIsBroadcast_params_ok : onPacketIsBroadcast_params = ["pkt.dest"; "pkt.ttl"]%string.
Proof. reflexivity. Qed.
