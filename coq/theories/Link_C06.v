(* Link_C06.v -- ties Model_DoubleSign.match_nid (property C06) to the kernel matchNID
   that tools/go2coq re-generates from consensus/doublesigndata.go on every run.

   The model works on N (a uint32 network id), the kernel on Z: for every pair of
   network ids the model's decision EQUALS the kernel's on the injected values.
   Proved from matchNID_spec (Proofs_K_matchNID.v) and match_nid_spec
   (Proofs_DoubleSign.v), never from the shape of the generated text:  `||` turned
   into `&&`, or `==` into `!=`, in matchNID breaks Proofs_K_matchNID.v, hence this
   file, hence Prop_C06.v -- and nothing else.
   Style: stdlib, lia. *)
From Goloop Require Import lib.Bytes lib.GoInt Model_DoubleSign Proofs_DoubleSign.
From Goloop Require Import Proofs_K_tactics Proofs_K_matchNID.
From Goloop.gen Require Export K_matchNID.
From Coq Require Import ZifyBool ZifyN.
Import ListNotations.

Ltac Zify.zify_post_hook ::= Z.to_euclidean_division_equations.

Lemma match_nid_is_matchNID (nid1 nid2 : N) :
  match_nid nid1 nid2 = matchNID (Z.of_N nid1) (Z.of_N nid2).
Proof.
  apply bool_eq_iff. rewrite match_nid_spec, matchNID_spec. lia.
Qed.

(* the scalar parameters of the Go function, in declaration order *)
Definition kernel_params_pinned : Prop := matchNID_params = ["nid1"; "nid2"]%string.

Lemma kernel_params_ok : kernel_params_pinned.
Proof. reflexivity. Qed.

Example link_c06_nontrivial :
  match_nid 0 5 = matchNID 0 5 /\ matchNID 0 5 = true /\
  match_nid 5 6 = matchNID 5 6 /\ matchNID 5 6 = false /\ matchNID 7 7 = true.
Proof. repeat split; reflexivity. Qed.
