(* Spec_Tendermint.v — the abstract, one-height voting protocol that
   consensus/consensus.go follows, as guarded actions over a monotone message
   soup (IronFleet style).  Definitions only; every guard is a boolean, so
   [step] and [run] compute.  Proofs are in Proofs_Tendermint.v.

   What is abstracted
     validators     slots 0 .. n-1 (index in cs.validators); [byz k = true]
                    marks a Byzantine slot.  Nothing is assumed about [byz]
                    here; the theorems assume 3 * |{k < n | byz k}| < n.
     values         [Some b] = a block (b = abstract id of the round decision:
                    block id / part-set id), [None] = the nil vote.
     rounds         N.
     soup           every vote ever sent at this height, by anyone; it only
                    grows.  Network delay, loss, duplication and reordering are
                    covered because every guard only asks for the EXISTENCE of
                    votes in the soup and is monotone in it: a validator that
                    acts on the subset it has received so far satisfies the
                    guard on the whole soup.  Timeouts are not events of their
                    own: a nil precommit needs no evidence, a nil prevote needs
                    only "not locked".
     local state    per correct validator: [lock] (lockedRound, lockedBlock) and
                    [decided].  The validator's current round is not state of
                    the spec: the guard [rounds_le] ("every vote I have sent is
                    in a round <= r") is what the safety argument needs, and it
                    is a function of the votes sent, which are durable.
     crash/restart  a correct validator that restarts with its votes and its
                    lock intact is the identity on this state ([CrashRestart]).
                    (A restart that brings back an OLDER lock is a different
                    action, [RestartStale], kept outside [step]; see the end of
                    this file and Proofs_Tendermint.v.)

   Code anchors of the guards are listed in docs/notes/C01_spec.md. *)
From Coq Require Import List Arith NArith Bool.
Import ListNotations.

Inductive vtype := Prevote | Precommit.

Definition value := option N.            (* None = nil *)

Record vote := mkVote {
  v_sender : nat;
  v_round  : N;
  v_type   : vtype;
  v_value  : value
}.

Record state := mkState {
  soup    : list vote;                   (* all votes ever sent *)
  lock    : nat -> option (N * N);       (* (lockedRound, lockedBlock); None = lockedRound -1 *)
  decided : nat -> option N              (* finalized block *)
}.

Inductive action :=
| SendPrevote   (i : nat) (r : N) (v : value)
| SendPrecommit (i : nat) (r : N) (v : value)
| Lock          (i : nat) (r : N) (b : N)       (* lock without (yet) precommitting *)
| Unlock        (i : nat) (r' : N) (w : value)  (* polka for w at r' seen *)
| SetLock       (i : nat) (l : option (N * N))  (* any lock change that is [lock_safe] *)
| Decide        (i : nat) (r : N) (b : N)
| ByzSend       (m : vote)
| CrashRestart  (i : nat).

(* ---------- equality tests ---------- *)

Definition vtype_eqb (a b : vtype) : bool :=
  match a, b with
  | Prevote, Prevote | Precommit, Precommit => true
  | _, _ => false
  end.

Definition value_eqb (a b : value) : bool :=
  match a, b with
  | None, None => true
  | Some x, Some y => N.eqb x y
  | _, _ => false
  end.

Definition vote_eqb (a b : vote) : bool :=
  Nat.eqb (v_sender a) (v_sender b) && N.eqb (v_round a) (v_round b)
  && vtype_eqb (v_type a) (v_type b) && value_eqb (v_value a) (v_value b).

(* ---------- counting over validator slots ---------- *)

(* number of slots k < n with p k *)
Definition countn (p : nat -> bool) (n : nat) : nat := length (filter p (seq 0 n)).

(* voteSet.hasOverTwoThirds / getOverTwoThirdsRoundDecisionDigest:
   count > len(vs.msgs)*2/3 *)
Definition over23 (c n : nat) : bool := n * 2 / 3 <? c.

(* ---------- queries on the soup ---------- *)

Definition has_vote (sp : list vote) (k : nat) (r : N) (t : vtype) (v : value) : bool :=
  existsb (vote_eqb (mkVote k r t v)) sp.

(* k has sent some vote of type t in round r *)
Definition voted_in (sp : list vote) (k : nat) (r : N) (t : vtype) : bool :=
  existsb (fun m => Nat.eqb (v_sender m) k && N.eqb (v_round m) r && vtype_eqb (v_type m) t) sp.

(* every vote k has sent is in a round <= r *)
Definition rounds_le (sp : list vote) (k : nat) (r : N) : bool :=
  forallb (fun m => negb (Nat.eqb (v_sender m) k) || N.leb (v_round m) r) sp.

Definition upd {A} (f : nat -> A) (i : nat) (x : A) : nat -> A :=
  fun k => if Nat.eqb k i then x else f k.

Section Protocol.
  Variable n : nat.                (* number of validators *)
  Variable byz : nat -> bool.      (* Byzantine slots *)

  Definition correct (k : nat) : bool := (k <? n) && negb (byz k).

  (* more than 2n/3 DISTINCT validator slots have a vote (r, t, v) in the soup *)
  Definition quorum (sp : list vote) (r : N) (t : vtype) (v : value) : bool :=
    over23 (countn (fun k => has_vote sp k r t v) n) n.

  Definition polka (sp : list vote) (r : N) (v : value) : bool := quorum sp r Prevote v.
  Definition qprecommit (sp : list vote) (r : N) (v : value) : bool := quorum sp r Precommit v.

  (* The most general harmless change of a lock (used for restarts, where the
     lock comes back from the lock WAL): for every block b that i has
     precommitted, in round r0, either the new lock is on b since a round >= r0,
     or the soup holds a polka for something else at a round >= r0. *)
  Definition other_polka_from (sp : list vote) (r0 : N) (b : N) : bool :=
    existsb (fun m => vtype_eqb (v_type m) Prevote && N.leb r0 (v_round m)
                      && negb (value_eqb (v_value m) (Some b))
                      && polka sp (v_round m) (v_value m)) sp.

  Definition lock_covers (l : option (N * N)) (r0 : N) (b : N) : bool :=
    match l with
    | Some (lr, lb) => N.eqb lb b && N.leb r0 lr
    | None => false
    end.

  Definition lock_safe (sp : list vote) (i : nat) (l : option (N * N)) : bool :=
    forallb (fun m =>
      negb (Nat.eqb (v_sender m) i && vtype_eqb (v_type m) Precommit)
      || match v_value m with
         | None => true
         | Some b => lock_covers l (v_round m) b || other_polka_from sp (v_round m) b
         end) sp.

  Definition add_vote (s : state) (m : vote) : state :=
    mkState (m :: soup s) (lock s) (decided s).

  Definition set_lock (s : state) (i : nat) (l : option (N * N)) : state :=
    mkState (soup s) (upd (lock s) i l) (decided s).

  Definition init : state := mkState [] (fun _ => None) (fun _ => None).

  Definition step (s : state) (a : action) : option state :=
    match a with
    | SendPrevote i r v =>
        (* one prevote per round; rounds never go back; a locked validator
           prevotes its locked block *)
        if correct i
           && negb (voted_in (soup s) i r Prevote)
           && rounds_le (soup s) i r
           && match lock s i with
              | Some (_, b) => value_eqb v (Some b)
              | None => true
              end
        then Some (add_vote s (mkVote i r Prevote v))
        else None
    | SendPrecommit i r v =>
        (* one precommit per round; rounds never go back; a block is
           precommitted only on a polka for it in that round, and locks it;
           a nil precommit needs nothing and leaves the lock alone *)
        if correct i
           && negb (voted_in (soup s) i r Precommit)
           && rounds_le (soup s) i r
        then match v with
             | None => Some (add_vote s (mkVote i r Precommit None))
             | Some b =>
                 if polka (soup s) r (Some b)
                 then Some (add_vote (set_lock s i (Some (r, b))) (mkVote i r Precommit (Some b)))
                 else None
             end
        else None
    | Lock i r b =>
        (* the lock part of the previous action alone (the vote may fail to be sent) *)
        if correct i && rounds_le (soup s) i r && polka (soup s) r (Some b)
        then Some (set_lock s i (Some (r, b)))
        else None
    | Unlock i r' w =>
        (* a polka for something else (block or nil) at a round not below lockedRound *)
        match lock s i with
        | Some (lr, b) =>
            if correct i && N.leb lr r' && negb (value_eqb w (Some b)) && polka (soup s) r' w
            then Some (set_lock s i None)
            else None
        | None => None
        end
    | SetLock i l =>
        if correct i && lock_safe (soup s) i l then Some (set_lock s i l) else None
    | Decide i r b =>
        if correct i && qprecommit (soup s) r (Some b)
        then Some (mkState (soup s) (lock s) (upd (decided s) i (Some b)))
        else None
    | ByzSend m =>
        if byz (v_sender m) then Some (add_vote s m) else None
    | CrashRestart i =>
        if correct i then Some s else None
    end.

  Fixpoint run (s : state) (acts : list action) : option state :=
    match acts with
    | [] => Some s
    | a :: rest => match step s a with
                   | Some s' => run s' rest
                   | None => None
                   end
    end.

  Definition reachable (s : state) : Prop := exists acts, run init acts = Some s.

  (* ---------- the deviation found in the code, as an extra action ----------
     consensus.go writes the lock WAL only when a NEW block is locked
     (enterPrecommit, "update lock" branch).  The "update lock round" branch
     (same block, later round) and every unlock change lockedRound /
     lockedBlockParts in memory only.  applyLockWAL therefore restores the last
     lock that was written: the same block with an OLDER lockedRound.
     [RestartStale i lr0]: i is locked on b, has precommitted b in round lr0
     (so it did lock b there) and comes back locked on (lr0, b). *)
  Inductive action_x :=
  | Plain (a : action)
  | RestartStale (i : nat) (lr0 : N).

  Definition step_x (s : state) (a : action_x) : option state :=
    match a with
    | Plain a => step s a
    | RestartStale i lr0 =>
        match lock s i with
        | Some (lr, b) =>
            if correct i && N.leb lr0 lr && has_vote (soup s) i lr0 Precommit (Some b)
            then Some (set_lock s i (Some (lr0, b)))
            else None
        | None => None
        end
    end.

  Fixpoint run_x (s : state) (acts : list action_x) : option state :=
    match acts with
    | [] => Some s
    | a :: rest => match step_x s a with
                   | Some s' => run_x s' rest
                   | None => None
                   end
    end.
End Protocol.
