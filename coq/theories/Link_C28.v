(* Link_C28.v -- ties the three scalar functions of Model_Hexary (property C28) to the
   kernels that tools/go2coq re-generates from icon/merkle/hexary on every run:

     LevelFromLen        <->  level_from_len   (merkletree.go: (bits.Len64(len-1)+3)/4)
     powerOf16           <->  power_of_16      (accumulator.go: the loop over hex digits)
     minProofLenForKey   <->  min_proof_len    (merkletree.go: trailing zero hex digits, capped)

   The model works on N / nat, the kernels on Z with Go int wrapping and loop fuel; the
   equalities are on the injected values, for every length / key that fits an int64
   (uint64 for powerOf16) and every tree level that fits an int.  Proved from the
   kernels' characterising lemmas (Proofs_K_<name>.v) and the model's own lemmas
   (Proofs_Hexary.v: lv_unique, p16_sound, p16_complete), never from the shape of the
   generated text: `+3` turned into `+4` in LevelFromLen, `== 1` into `>= 1` in
   powerOf16, or a dropped `-1` in minProofLenForKey breaks Proofs_K_<name>.v, hence
   this file, hence Prop_C28.v.
   Style: stdlib, lia. *)
From Coq Require Import Arith List Lia Bool ZArith NArith ZifyBool ZifyN ZifyNat.
From Goloop Require Import lib.Bytes lib.BytesMap lib.GoInt Model_Hexary Proofs_Hexary.
From Goloop Require Import Proofs_K_tactics Proofs_K_LevelFromLen Proofs_K_powerOf16
  Proofs_K_minProofLenForKey.
From Goloop.gen Require Export K_LevelFromLen K_powerOf16 K_minProofLenForKey.
Import ListNotations.

Ltac Zify.zify_post_hook ::= Z.to_euclidean_division_equations.

Lemma Z_of_nat_pow16 k : Z.of_nat (16 ^ k) = (16 ^ Z.of_nat k)%Z.
Proof. rewrite Nat2Z.inj_pow. reflexivity. Qed.

(* ---- LevelFromLen ---- *)

Lemma level_from_len_is_LevelFromLen (len : N) :
  (Z.of_N len <= 9223372036854775807)%Z ->
  Z.of_nat (level_from_len len) = LevelFromLen (Z.of_N len).
Proof.
  intros Hm. destruct (N.eq_dec len 0) as [->|Hn]; [reflexivity|].
  destruct (LevelFromLen_spec (Z.of_N len) ltac:(lia)) as [[K0 K16] [Kle Kgt]].
  set (K := LevelFromLen (Z.of_N len)) in *.
  assert (E : Z.to_nat K = lv (N.to_nat len)).
  { apply lv_unique.
    - lia.
    - apply Nat2Z.inj_le. rewrite Z_of_nat_pow16, Z2Nat.id by lia. lia.
    - destruct (Z.eq_dec K 0) as [E0|N0]; [left; lia|right].
      apply Nat2Z.inj_lt. rewrite Z_of_nat_pow16.
      replace (Z.of_nat (Z.to_nat K - 1)) with (K - 1)%Z by lia.
      specialize (Kgt ltac:(lia)). lia. }
  unfold lv in E. rewrite N2Nat.id in E. rewrite <- E. lia.
Qed.

(* ---- powerOf16 ---- *)

Lemma power_of_16_iff_is_pow16 (n : N) :
  (Z.of_N n <= 18446744073709551615)%Z ->
  power_of_16 n = true <-> is_pow16 (Z.of_N n).
Proof.
  intros Hm. unfold power_of_16. split.
  - intros P. apply p16_sound in P. destruct P as [k ->].
    exists (Z.of_nat k). split; [lia|].
    rewrite nat_N_Z. apply Z_of_nat_pow16.
  - intros [k [Hk E]].
    assert (Hk16 : (k <= 16)%Z).
    { destruct (Z_le_gt_dec k 16) as [L|G]; [exact L|exfalso].
      assert ((16 ^ 16 <= 16 ^ k)%Z) by (apply Z.pow_le_mono_r; lia).
      change (16 ^ 16)%Z with 18446744073709551616%Z in *. lia. }
    assert (En : n = N.of_nat (16 ^ Z.to_nat k)).
    { apply N2Z.inj. rewrite nat_N_Z, Z_of_nat_pow16, Z2Nat.id by lia. exact E. }
    rewrite En. apply p16_complete. lia.
Qed.

(* 17 rounds of fuel: what the kernel lemma needs for every uint64 *)
Lemma power_of_16_is_powerOf16 (n : N) :
  (Z.of_N n <= 18446744073709551615)%Z ->
  powerOf16 17 (Z.of_N n) = Some (power_of_16 n).
Proof.
  intros Hm.
  destruct (powerOf16_spec 17 (Z.of_N n) ltac:(lia) ltac:(lia)) as [b [E Hb]].
  rewrite E. f_equal. apply bool_eq_iff. rewrite Hb.
  symmetry. apply power_of_16_iff_is_pow16. exact Hm.
Qed.

(* ---- minProofLenForKey ---- *)

Lemma pos_pow2_odd (p : positive) :
  exists r, (0 <= r)%Z /\ Z.pos p = (2 ^ Z.of_N (pos_ctz p) * (2 * r + 1))%Z.
Proof.
  induction p as [q IH|q IH|].
  - exists (Z.pos q). split; [lia|]. cbn [pos_ctz]. change (2 ^ Z.of_N 0)%Z with 1%Z. lia.
  - destruct IH as [r [Hr E]]. exists r. split; [exact Hr|]. cbn [pos_ctz].
    replace (Z.of_N (1 + pos_ctz q)) with (Z.succ (Z.of_N (pos_ctz q))) by lia.
    rewrite Z.pow_succ_r by lia. rewrite <- Z.mul_assoc, <- E. lia.
  - exists 0%Z. split; [lia|]. reflexivity.
Qed.

Lemma tz_not_xor_is_kernel_tz (key : N) :
  (Z.of_N key <= 9223372036854775807)%Z ->
  Z.of_N (tz_not_xor key) = minProofLen_tz (Z.of_N key).
Proof.
  intros Hm. destruct key as [|p]; [reflexivity|].
  destruct (pos_pow2_odd p) as [r [Hr E]].
  cbn [tz_not_xor Z.of_N]. rewrite E.
  rewrite minProofLen_tz_pow2_odd; [lia|lia|exact Hr|].
  rewrite <- E. exact Hm.
Qed.

(* kernel order: (key, sa.level); model order: (level, key) *)
Lemma min_proof_len_is_minProofLenForKey (level : nat) (key : N) :
  (Z.of_N key <= 9223372036854775807)%Z -> (Z.of_nat level <= 9223372036854775807)%Z ->
  Z.of_nat (min_proof_len level key) = minProofLenForKey (Z.of_N key) (Z.of_nat level).
Proof.
  intros Hk Hl. rewrite minProofLenForKey_spec by lia.
  rewrite <- tz_not_xor_is_kernel_tz by exact Hk.
  unfold min_proof_len. cbv zeta.
  assert (1 <= tz_not_xor key)%N by (destruct key; cbn; lia).
  destruct (Nat.ltb_spec level (N.to_nat ((tz_not_xor key + 3) / 4) - 1)); lia.
Qed.

Definition kernel_params_pinned : Prop :=
  LevelFromLen_params = ["len"]%string /\ powerOf16_params = ["n"]%string /\
  minProofLenForKey_params = ["key"; "sa.level"]%string.

Lemma kernel_params_ok : kernel_params_pinned.
Proof. exact (conj eq_refl (conj eq_refl minProofLenForKey_params_ok)). Qed.

Example link_c28_nontrivial :
  level_from_len 17 = 2%nat /\ LevelFromLen 17 = 2%Z /\ LevelFromLen 16 = 1%Z /\
  power_of_16 256 = true /\ powerOf16 17 256 = Some true /\ powerOf16 17 32 = Some false /\
  min_proof_len 5 256 = 2%nat /\ minProofLenForKey 256 5 = 2%Z /\ minProofLenForKey 0 5 = 5%Z.
Proof. repeat split; vm_compute; reflexivity. Qed.
