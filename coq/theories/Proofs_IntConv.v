(* Proofs_IntConv.v — facts about Model_IntConv: big-endian / two's-complement
   byte strings (reusable by other properties: RLP codec, container keys,
   transactions), correctness of the intconv encoders/decoders against the
   closed-form specification tc_bytes/tc_val/tc_len, and the hex text layer. *)
From Goloop Require Import lib.Bytes Model_IntConv.
From Coq Require Import ZifyBool ZifyN ZifyNat.
Ltac Zify.zify_post_hook ::= Z.div_mod_to_equations.
Open Scope N_scope.

(* ================================================================== *)
(* 0. finite enumeration helper                                        *)
(* ================================================================== *)
Lemma N_lt_forallb (n : nat) (P : N -> bool) :
  forallb P (map N.of_nat (seq 0 n)) = true -> forall d, d < N.of_nat n -> P d = true.
Proof.
  intros H d Hd. rewrite forallb_forall in H. apply H.
  apply in_map_iff. exists (N.to_nat d). split; [lia|]. apply in_seq. lia.
Qed.

Lemma land128 b : b < 256 -> (N.land b 128 =? 0) = (b <? 128).
Proof.
  intros Hb. apply Bool.eqb_prop.
  apply (N_lt_forallb 256 (fun b => Bool.eqb (N.land b 128 =? 0) (b <? 128))); [|exact Hb].
  vm_compute. reflexivity.
Qed.

Lemma lxor255 b : b < 256 -> N.lxor b 255 = 255 - b.
Proof.
  intros Hb. apply N.eqb_eq.
  apply (N_lt_forallb 256 (fun b => N.lxor b 255 =? 255 - b)); [|exact Hb].
  vm_compute. reflexivity.
Qed.

(* ================================================================== *)
(* 1. powers of 256                                                    *)
(* ================================================================== *)
Definition P256 (k : nat) : N := 256 ^ N.of_nat k.

Lemma P256_0 : P256 0 = 1. Proof. reflexivity. Qed.
Lemma P256_S k : P256 (S k) = 256 * P256 k.
Proof. unfold P256. rewrite Nat2N.inj_succ, N.pow_succ_r'. reflexivity. Qed.
Lemma P256_pos k : 0 < P256 k.
Proof. unfold P256. apply N.neq_0_lt_0, N.pow_nonzero. discriminate. Qed.
Lemma P256_two k : P256 k = 2 ^ (8 * N.of_nat k).
Proof. unfold P256. rewrite N.pow_mul_r. reflexivity. Qed.
Lemma P256_add a b : P256 (a + b) = P256 a * P256 b.
Proof. unfold P256. rewrite Nat2N.inj_add, N.pow_add_r. reflexivity. Qed.
Lemma P256_le a b : (a <= b)%nat -> P256 a <= P256 b.
Proof. intros. unfold P256. apply N.pow_le_mono_r; lia. Qed.
Lemma ZP256 k : (256 ^ Z.of_nat k)%Z = Z.of_N (P256 k).
Proof. unfold P256. rewrite N2Z.inj_pow. f_equal. lia. Qed.

Global Opaque P256.

(* ================================================================== *)
(* 2. big-endian unsigned strings: be_val / be_bytes                   *)
(* ================================================================== *)
Lemma fold_be acc bs :
  fold_left (fun a b => a * 256 + b) bs acc = acc * P256 (length bs) + be_val bs.
Proof.
  unfold be_val. revert acc. induction bs as [|b r IH]; intro acc; cbn [fold_left length].
  - rewrite P256_0. lia.
  - rewrite IH, (IH (0 * 256 + b)), P256_S. ring.
Qed.

Lemma be_val_nil : be_val [] = 0. Proof. reflexivity. Qed.

Lemma be_val_cons b r : be_val (b :: r) = b * P256 (length r) + be_val r.
Proof. unfold be_val at 1. cbn [fold_left]. rewrite fold_be. lia. Qed.

Lemma be_val_app a b : be_val (a ++ b) = be_val a * P256 (length b) + be_val b.
Proof.
  induction a as [|x a IH]; cbn [app].
  - rewrite be_val_nil. lia.
  - rewrite !be_val_cons, IH, app_length, P256_add. lia.
Qed.

Lemma bytes_ok_cons b r : bytes_ok (b :: r) = true <-> b < 256 /\ bytes_ok r = true.
Proof. unfold bytes_ok. cbn [forallb]. unfold byte_ok. rewrite andb_true_iff, N.ltb_lt. tauto. Qed.

Lemma bytes_ok_app a b : bytes_ok (a ++ b) = true <-> bytes_ok a = true /\ bytes_ok b = true.
Proof. unfold bytes_ok. rewrite forallb_app, andb_true_iff. tauto. Qed.

Lemma be_val_lt bs : bytes_ok bs = true -> be_val bs < P256 (length bs).
Proof.
  induction bs as [|b r IH]; intro H.
  - rewrite be_val_nil. cbn [length]. rewrite P256_0. lia.
  - apply bytes_ok_cons in H as [Hb Hr]. specialize (IH Hr).
    rewrite be_val_cons. cbn [length]. rewrite P256_S. nia.
Qed.

Lemma be_bytes_length n v : length (be_bytes n v) = n.
Proof. induction n; cbn [be_bytes length]; congruence. Qed.

Lemma be_bytes_ok n v : bytes_ok (be_bytes n v) = true.
Proof.
  induction n as [|k IH]; [reflexivity|]. cbn [be_bytes]. apply bytes_ok_cons. split; [|exact IH].
  apply N.mod_lt. discriminate.
Qed.

Lemma be_bytes_S k v : be_bytes (S k) v = (v / P256 k) mod 256 :: be_bytes k v.
Proof. cbn [be_bytes]. rewrite P256_two. reflexivity. Qed.

Lemma be_val_be_bytes n v : be_val (be_bytes n v) = v mod P256 n.
Proof.
  induction n as [|k IH].
  - cbn [be_bytes]. rewrite be_val_nil, P256_0. symmetry. apply N.mod_1_r.
  - rewrite be_bytes_S, be_val_cons, IH, be_bytes_length, P256_S.
    pose proof (P256_pos k).
    rewrite (N.mul_comm 256), (N.mod_mul_r v (P256 k) 256) by lia. lia.
Qed.

(* snoc form: the last byte is v mod 256, the rest is v / 256 *)
Lemma be_bytes_snoc k v : be_bytes (S k) v = be_bytes k (v / 256) ++ [v mod 256].
Proof.
  induction k as [|k IH].
  - rewrite be_bytes_S, P256_0. cbn [be_bytes app]. now rewrite N.div_1_r.
  - rewrite be_bytes_S, IH. rewrite (be_bytes_S k (v / 256)). cbn [app]. f_equal.
    rewrite P256_S. pose proof (P256_pos k).
    rewrite N.div_div by lia. reflexivity.
Qed.

Lemma be_bytes_be_val bs : bytes_ok bs = true -> be_bytes (length bs) (be_val bs) = bs.
Proof.
  induction bs as [|b r IH] using rev_ind; intro H; [reflexivity|].
  apply bytes_ok_app in H as [Hr Hb]. apply bytes_ok_cons in Hb as [Hb _].
  rewrite app_length. cbn [length]. rewrite Nat.add_1_r, be_bytes_snoc.
  rewrite be_val_app, be_val_cons, be_val_nil. cbn [length]. rewrite P256_S, P256_0.
  replace ((be_val r * (256 * 1) + (b * 1 + 0)) / 256) with (be_val r) by lia.
  replace ((be_val r * (256 * 1) + (b * 1 + 0)) mod 256) with b by lia.
  now rewrite (IH Hr).
Qed.

Lemma be_bytes_small_head k v : v < P256 k -> be_bytes (S k) v = 0 :: be_bytes k v.
Proof.
  intro H. rewrite be_bytes_S. f_equal. rewrite N.div_small by exact H. reflexivity.
Qed.

Lemma be_val_inj a b : bytes_ok a = true -> bytes_ok b = true -> length a = length b ->
  be_val a = be_val b -> a = b.
Proof.
  intros Ha Hb Hl Hv. rewrite <- (be_bytes_be_val a Ha), <- (be_bytes_be_val b Hb). congruence.
Qed.

Lemma be_bytes_mod k v : be_bytes k (v mod P256 k) = be_bytes k v.
Proof.
  apply be_val_inj; try apply be_bytes_ok.
  - now rewrite !be_bytes_length.
  - rewrite !be_val_be_bytes. pose proof (P256_pos k). apply N.mod_mod. lia.
Qed.

(* ================================================================== *)
(* 3. two's complement: tc_val / tc_bytes / fits / canonical length    *)
(* ================================================================== *)
Notation ZP k := (Z.of_N (P256 k)).

(* z is representable in k bytes of two's complement *)
Definition fits (k : nat) (z : Z) : Prop := (- ZP k <= 2 * z < ZP k)%Z.

(* k is THE minimal length: z fits in k bytes and not in k-1 *)
Definition canon_len (k : nat) (z : Z) : Prop :=
  (1 <= k)%nat /\ fits k z /\ (k = 1%nat \/ ~ fits (k - 1) z).

Lemma tc_val_cons b r :
  tc_val (b :: r) = if b <? 128 then Z.of_N (be_val (b :: r))
                    else (Z.of_N (be_val (b :: r)) - ZP (S (length r)))%Z.
Proof. unfold tc_val. rewrite ZP256. reflexivity. Qed.

Lemma tc_bytes_eq k z : tc_bytes k z = be_bytes k (Z.to_N (z mod ZP k)).
Proof. unfold tc_bytes. now rewrite ZP256. Qed.

Lemma tc_bytes_length k z : length (tc_bytes k z) = k.
Proof. apply be_bytes_length. Qed.

Lemma tc_bytes_ok k z : bytes_ok (tc_bytes k z) = true.
Proof. apply be_bytes_ok. Qed.

Lemma fits_mono k k' z : (k <= k')%nat -> fits k z -> fits k' z.
Proof. unfold fits. intros Hk H. pose proof (P256_le k k' Hk). lia. Qed.

Lemma fits_div k z : (1 <= k)%nat -> fits (S k) z <-> fits k (z / 256)%Z.
Proof.
  intros Hk. destruct k as [|j]; [lia|]. unfold fits. rewrite !P256_S.
  pose proof (P256_pos j). lia.
Qed.

Lemma fits_1 z : fits 1 z <-> (-128 <= z < 128)%Z.
Proof. unfold fits. rewrite P256_S, P256_0. lia. Qed.

Lemma head_lt_128 v P : 0 < P -> v < 256 * P -> ((v / P) mod 256 <? 128) = (v <? 128 * P).
Proof.
  intros HP Hv. assert (v / P < 256) by (apply N.div_lt_upper_bound; lia).
  rewrite N.mod_small by assumption.
  destruct (v <? 128 * P) eqn:E.
  - apply N.ltb_lt. apply N.div_lt_upper_bound; lia.
  - apply N.ltb_ge. apply N.div_le_lower_bound; lia.
Qed.

Lemma zmod_neg z M : (- M <= z < 0)%Z -> (z mod M)%Z = (z + M)%Z.
Proof.
  intros H. rewrite <- (Z_mod_plus_full z 1 M). rewrite Z.mod_small; lia.
Qed.

Lemma tc_val_tc_bytes k z : (1 <= k)%nat -> fits k z -> tc_val (tc_bytes k z) = z.
Proof.
  intros Hk Hf. destruct k as [|j]; [lia|]. rewrite tc_bytes_eq.
  set (v := Z.to_N (z mod ZP (S j))).
  assert (Hv : v < P256 (S j)) by (pose proof (P256_pos (S j)); lia).
  pose proof (be_val_be_bytes (S j) v) as Hbv. rewrite N.mod_small in Hbv by exact Hv.
  rewrite be_bytes_S in *. rewrite tc_val_cons, Hbv, be_bytes_length.
  pose proof (P256_pos j) as Hp. rewrite P256_S in Hv.
  rewrite head_lt_128 by lia.
  unfold fits in Hf. subst v. rewrite P256_S in *.
  destruct (Z.ltb_spec z 0).
  - rewrite zmod_neg by lia.
    replace (Z.to_N (z + Z.of_N (256 * P256 j)) <? 128 * P256 j) with false by lia. lia.
  - rewrite Z.mod_small by lia.
    replace (Z.to_N z <? 128 * P256 j) with true by lia. lia.
Qed.

Lemma tc_val_mod bs : bytes_ok bs = true ->
  Z.to_N (tc_val bs mod ZP (length bs)) = be_val bs.
Proof.
  intros H. pose proof (be_val_lt bs H) as Hlt. destruct bs as [|b r].
  - cbn [length tc_val]. rewrite P256_0. reflexivity.
  - rewrite tc_val_cons. cbn [length] in *. destruct (b <? 128).
    + rewrite Z.mod_small by lia. lia.
    + rewrite zmod_neg by lia. lia.
Qed.

Lemma tc_bytes_tc_val bs : bytes_ok bs = true -> tc_bytes (length bs) (tc_val bs) = bs.
Proof.
  intros H. rewrite tc_bytes_eq, tc_val_mod by exact H. now apply be_bytes_be_val.
Qed.

Lemma tc_val_fits bs : bytes_ok bs = true -> bs <> [] -> fits (length bs) (tc_val bs).
Proof.
  intros H Hne. destruct bs as [|b r]; [congruence|].
  pose proof (be_val_lt _ H) as Hlt. apply bytes_ok_cons in H as [Hb Hr].
  pose proof (be_val_lt _ Hr) as Hr'. pose proof (P256_pos (length r)).
  rewrite tc_val_cons. unfold fits. rewrite be_val_cons in *. cbn [length] in *. rewrite P256_S in *.
  destruct (N.ltb_spec b 128); nia.
Qed.

Lemma tc_bytes_snoc k z :
  tc_bytes (S k) z = tc_bytes k (z / 256)%Z ++ [Z.to_N (z mod 256)%Z].
Proof.
  rewrite !tc_bytes_eq, be_bytes_snoc, P256_S. pose proof (P256_pos k).
  rewrite N2Z.inj_mul. change (Z.of_N 256) with 256%Z.
  rewrite Z.rem_mul_r by lia.
  set (a := (z mod 256)%Z). set (c := ((z / 256) mod ZP k)%Z).
  assert (0 <= a < 256)%Z by (subst a; lia).
  assert (0 <= c < ZP k)%Z by (subst c; apply Z.mod_pos_bound; lia).
  f_equal; [f_equal|f_equal]; lia.
Qed.

Lemma redundant_iff b0 b1 r : bytes_ok (b0 :: b1 :: r) = true ->
  redundant (b0 :: b1 :: r) = true <-> fits (S (length r)) (tc_val (b0 :: b1 :: r)).
Proof.
  intros H. apply bytes_ok_cons in H as [H0 H]. apply bytes_ok_cons in H as [H1 Hr].
  pose proof (be_val_lt _ Hr) as HR. pose proof (P256_pos (length r)) as HP.
  rewrite tc_val_cons, !be_val_cons. cbn [length redundant]. unfold fits. rewrite !P256_S.
  set (P := P256 (length r)) in *. set (R := be_val r) in *.
  destruct (N.ltb_spec b0 128).
  - split; intro E.
    + assert (b0 = 0 /\ b1 < 128) as [-> ?] by lia. nia.
    + assert (b0 = 0) by nia. subst b0. assert (b1 < 128) by nia. lia.
  - split; intro E.
    + assert (b0 = 255 /\ 128 <= b1) as [-> ?] by lia. nia.
    + assert (b0 = 255) by nia. subst b0. assert (128 <= b1) by nia. lia.
Qed.

Lemma redundant_drop b0 b1 r : bytes_ok (b0 :: b1 :: r) = true ->
  redundant (b0 :: b1 :: r) = true -> tc_val (b0 :: b1 :: r) = tc_val (b1 :: r).
Proof.
  intros H E. apply bytes_ok_cons in H as [H0 H]. apply bytes_ok_cons in H as [H1 Hr].
  rewrite !tc_val_cons, !be_val_cons. cbn [length redundant] in *. rewrite !P256_S.
  assert ((b0 = 0 /\ b1 < 128) \/ (b0 = 255 /\ 128 <= b1)) as [[-> ?]|[-> ?]] by lia.
  - replace (0 <? 128) with true by reflexivity. replace (b1 <? 128) with true by lia. lia.
  - replace (255 <? 128) with false by reflexivity. replace (b1 <? 128) with false by lia. lia.
Qed.

Lemma canon_len_unique k k' z : canon_len k z -> canon_len k' z -> k = k'.
Proof.
  intros (H1 & Hf & Hm) (H1' & Hf' & Hm').
  destruct (Nat.lt_trichotomy k k') as [L|[E|L]]; [|exact E|].
  - destruct Hm' as [->|Hn]; [lia|]. exfalso. apply Hn. apply (fits_mono k); [lia|exact Hf].
  - destruct Hm as [->|Hn]; [lia|]. exfalso. apply Hn. apply (fits_mono k'); [lia|exact Hf'].
Qed.

(* a non-empty string without redundant first byte has the canonical length of its value *)
Lemma nonredundant_canon bs : bytes_ok bs = true -> bs <> [] ->
  redundant bs = false <-> canon_len (length bs) (tc_val bs).
Proof.
  intros H Hne. pose proof (tc_val_fits bs H Hne) as Hf.
  destruct bs as [|b0 [|b1 r]]; [congruence| |].
  - cbn [redundant length]. unfold canon_len. intuition.
  - pose proof (redundant_iff b0 b1 r H) as Hi. cbn [length] in *.
    unfold canon_len. replace (S (S (length r)) - 1)%nat with (S (length r)) by lia.
    split.
    + intro E. split; [lia|]. split; [exact Hf|]. right. rewrite <- Hi, E. discriminate.
    + intros (_ & _ & [E|Hn]); [lia|]. destruct (redundant (b0 :: b1 :: r)); [|reflexivity].
      exfalso. apply Hn, Hi. reflexivity.
Qed.

(* the canonical string: unique, shortest, never redundant *)
Lemma canon_bytes_val k z : canon_len k z -> tc_val (tc_bytes k z) = z.
Proof. intros (H1 & Hf & _). now apply tc_val_tc_bytes. Qed.

Lemma canon_bytes_nonredundant k z : canon_len k z -> redundant (tc_bytes k z) = false.
Proof.
  intros Hc. pose proof Hc as (H1 & Hf & _).
  apply nonredundant_canon.
  - apply tc_bytes_ok.
  - intro E. apply (f_equal (@length N)) in E. rewrite tc_bytes_length in E. cbn in E. lia.
  - now rewrite tc_bytes_length, tc_val_tc_bytes.
Qed.

Lemma canon_bytes_shortest k z bs : canon_len k z ->
  bytes_ok bs = true -> bs <> [] -> tc_val bs = z -> (k <= length bs)%nat.
Proof.
  intros (H1 & Hf & Hm) Hok Hne Hv. pose proof (tc_val_fits bs Hok Hne) as Hb. rewrite Hv in Hb.
  destruct Hm as [->|Hn].
  - destruct bs; [congruence|cbn [length]; lia].
  - destruct (le_lt_dec k (length bs)); [assumption|]. exfalso. apply Hn.
    apply (fits_mono (length bs)); [lia|exact Hb].
Qed.

Lemma canon_bytes_unique k z bs : canon_len k z ->
  bytes_ok bs = true -> tc_val bs = z -> length bs = k -> bs = tc_bytes k z.
Proof. intros _ Hok Hv Hl. rewrite <- Hv, <- Hl. symmetry. now apply tc_bytes_tc_val. Qed.

Lemma nonredundant_unique k z bs : canon_len k z ->
  bytes_ok bs = true -> bs <> [] -> redundant bs = false -> tc_val bs = z -> bs = tc_bytes k z.
Proof.
  intros Hc Hok Hne Hr Hv. apply (canon_bytes_unique k z bs Hc Hok Hv).
  apply (nonredundant_canon bs Hok Hne) in Hr. rewrite Hv in Hr.
  apply (canon_len_unique _ _ z Hr Hc).
Qed.

(* ================================================================== *)
(* 4. bit length, big.Int.Bytes, the closed-form minimal length        *)
(* ================================================================== *)
Lemma bitlen_0 : bitlen 0 = 0. Proof. reflexivity. Qed.

Lemma bitlen_pos n : n <> 0 -> 1 <= bitlen n.
Proof. intro H. unfold bitlen. rewrite N.size_log2 by exact H. lia. Qed.

Lemma bitlen_bounds n : n <> 0 -> 2 ^ (bitlen n - 1) <= n < 2 ^ bitlen n.
Proof.
  intro H. unfold bitlen. rewrite N.size_log2 by exact H.
  replace (N.succ (N.log2 n) - 1) with (N.log2 n) by lia.
  apply N.log2_spec. lia.
Qed.

Lemma bitlen_lt n : n < 2 ^ bitlen n.
Proof. apply N.size_gt. Qed.

Lemma bitlen_unique n b : 1 <= b -> 2 ^ (b - 1) <= n < 2 ^ b -> bitlen n = b.
Proof.
  intros Hb H. assert (n <> 0).
  { pose proof (N.pow_nonzero 2 (b - 1)). lia. }
  unfold bitlen. rewrite N.size_log2 by assumption.
  rewrite (N.log2_unique n (b - 1)); [lia|lia|]. replace (N.succ (b - 1)) with b by lia. exact H.
Qed.

Lemma pow2_le a b : a <= b -> 2 ^ a <= 2 ^ b.
Proof. intro. apply N.pow_le_mono_r; lia. Qed.

(* big.Int.Bytes: k bytes where 256^(k-1) <= n < 256^k (k = 0 for n = 0) *)
Definition ulen (k : nat) (n : N) : Prop := n < P256 k /\ (k = 0%nat \/ P256 (k - 1) <= n).

Lemma ulen_unique k k' n : ulen k n -> ulen k' n -> k = k'.
Proof.
  intros (H1 & H2) (H1' & H2').
  destruct (Nat.lt_trichotomy k k') as [L|[E|L]]; [|exact E|]; exfalso.
  - destruct H2' as [->|H2']; [lia|]. pose proof (P256_le k (k' - 1)). lia.
  - destruct H2 as [->|H2]; [lia|]. pose proof (P256_le k' (k - 1)). lia.
Qed.

Lemma nat_bytes_len n : ulen (N.to_nat ((bitlen n + 7) / 8)) n.
Proof.
  set (k := N.to_nat ((bitlen n + 7) / 8)). unfold ulen. rewrite !P256_two. split.
  - eapply N.lt_le_trans; [apply bitlen_lt|]. apply pow2_le. lia.
  - destruct (N.eq_dec n 0) as [->|Hn].
    + left. reflexivity.
    + right. pose proof (bitlen_pos n Hn). pose proof (bitlen_bounds n Hn) as [Hlo _].
      eapply N.le_trans; [|exact Hlo]. apply pow2_le. lia.
Qed.

Lemma nat_bytes_spec n : exists k, ulen k n /\ nat_bytes n = be_bytes k n.
Proof. eexists. split; [apply nat_bytes_len|reflexivity]. Qed.

Lemma nat_bytes_of_ulen k n : ulen k n -> nat_bytes n = be_bytes k n.
Proof.
  intro H. destruct (nat_bytes_spec n) as (k' & H' & ->). now rewrite (ulen_unique _ _ _ H' H).
Qed.

Lemma be_val_nat_bytes n : be_val (nat_bytes n) = n.
Proof.
  destruct (nat_bytes_spec n) as (k & (Hlt & _) & ->). rewrite be_val_be_bytes. now apply N.mod_small.
Qed.

Lemma nat_bytes_ok n : bytes_ok (nat_bytes n) = true.
Proof. apply be_bytes_ok. Qed.

(* magnitude used by tc_len: z for z >= 0, -z-1 for z < 0 *)
Definition mag (z : Z) : N := Z.to_N (if (z <? 0)%Z then (- z - 1)%Z else z).

Lemma fits_mag k z : (1 <= k)%nat -> fits k z <-> 2 * mag z < P256 k.
Proof.
  intro Hk. destruct k as [|j]; [lia|]. unfold fits, mag. rewrite P256_S.
  pose proof (P256_pos j). destruct (Z.ltb_spec z 0); lia.
Qed.

Lemma tc_len_eq z : tc_len z = N.to_nat (bitlen (mag z) / 8 + 1).
Proof. reflexivity. Qed.

Lemma tc_len_spec z : canon_len (tc_len z) z.
Proof.
  rewrite tc_len_eq. set (m := mag z). set (s := bitlen m).
  set (k := N.to_nat (s / 8 + 1)). assert (Hk : (1 <= k)%nat) by lia.
  unfold canon_len. split; [exact Hk|]. split.
  - apply fits_mag; [exact Hk|]. fold m. rewrite P256_two.
    pose proof (bitlen_lt m). fold s in H.
    assert (2 ^ (s + 1) <= 2 ^ (8 * N.of_nat k)) by (apply pow2_le; lia).
    rewrite N.pow_add_r in H0. change (2 ^ 1) with 2 in H0. lia.
  - destruct (Nat.eq_dec k 1) as [E|E]; [left; exact E|right].
    rewrite fits_mag by lia. fold m. rewrite P256_two.
    assert (Hm : m <> 0). { intro E0. subst s. rewrite E0, bitlen_0 in *. subst k. cbn in E. lia. }
    pose proof (bitlen_bounds m Hm) as [Hlo _]. pose proof (bitlen_pos m Hm). fold s in Hlo, H.
    assert (2 ^ (8 * N.of_nat (k - 1)) <= 2 ^ s) by (apply pow2_le; lia).
    replace s with (s - 1 + 1) in H0 by lia. rewrite N.pow_add_r in H0. change (2 ^ 1) with 2 in H0. lia.
Qed.

Lemma tc_len_unique k z : canon_len k z -> k = tc_len z.
Proof. intro H. apply (canon_len_unique _ _ z H (tc_len_spec z)). Qed.

Lemma tc_len_pos z : (1 <= tc_len z)%nat.
Proof. apply tc_len_spec. Qed.

(* the canonical encoding *)
Definition tc_enc (z : Z) : bytes := tc_bytes (tc_len z) z.

Lemma tc_val_enc z : tc_val (tc_enc z) = z.
Proof. apply canon_bytes_val, tc_len_spec. Qed.
Lemma tc_enc_length z : length (tc_enc z) = tc_len z.
Proof. apply tc_bytes_length. Qed.
Lemma tc_enc_ok z : bytes_ok (tc_enc z) = true.
Proof. apply tc_bytes_ok. Qed.
Lemma tc_enc_nonempty z : tc_enc z <> [].
Proof.
  intro E. apply (f_equal (@length N)) in E. rewrite tc_enc_length in E.
  pose proof (tc_len_pos z). cbn in E. lia.
Qed.
Lemma tc_enc_nonredundant z : redundant (tc_enc z) = false.
Proof. apply canon_bytes_nonredundant, tc_len_spec. Qed.
