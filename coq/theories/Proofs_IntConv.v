(* Proofs_IntConv.v — facts about Model_IntConv: big-endian / two's-complement
   byte strings (reusable by other properties: RLP codec, container keys,
   transactions), correctness of the intconv encoders/decoders against the
   closed-form specification tc_bytes/tc_val/tc_len, and the hex text layer. *)
From Goloop Require Import lib.Bytes Model_IntConv.
From Coq Require Import ZifyBool ZifyN ZifyNat.
Ltac Zify.zify_post_hook ::= Z.div_mod_to_equations.
Open Scope N_scope.

(* ================================================================== *)
(* 0. finite enumeration helper                                        *)
(* ================================================================== *)
Lemma N_lt_forallb (n : nat) (P : N -> bool) :
  forallb P (map N.of_nat (seq 0 n)) = true -> forall d, d < N.of_nat n -> P d = true.
Proof.
  intros H d Hd. rewrite forallb_forall in H. apply H.
  apply in_map_iff. exists (N.to_nat d). split; [lia|]. apply in_seq. lia.
Qed.

Lemma land128 b : b < 256 -> (N.land b 128 =? 0) = (b <? 128).
Proof.
  intros Hb. apply Bool.eqb_prop.
  apply (N_lt_forallb 256 (fun b => Bool.eqb (N.land b 128 =? 0) (b <? 128))); [|exact Hb].
  vm_compute. reflexivity.
Qed.

Lemma lxor255 b : b < 256 -> N.lxor b 255 = 255 - b.
Proof.
  intros Hb. apply N.eqb_eq.
  apply (N_lt_forallb 256 (fun b => N.lxor b 255 =? 255 - b)); [|exact Hb].
  vm_compute. reflexivity.
Qed.

(* ================================================================== *)
(* 1. powers of 256                                                    *)
(* ================================================================== *)
Definition P256 (k : nat) : N := 256 ^ N.of_nat k.

Lemma P256_0 : P256 0 = 1. Proof. reflexivity. Qed.
Lemma P256_S k : P256 (S k) = 256 * P256 k.
Proof. unfold P256. rewrite Nat2N.inj_succ, N.pow_succ_r'. reflexivity. Qed.
Lemma P256_pos k : 0 < P256 k.
Proof. unfold P256. apply N.neq_0_lt_0, N.pow_nonzero. discriminate. Qed.
Lemma P256_two k : P256 k = 2 ^ (8 * N.of_nat k).
Proof. unfold P256. rewrite N.pow_mul_r. reflexivity. Qed.
Lemma P256_add a b : P256 (a + b) = P256 a * P256 b.
Proof. unfold P256. rewrite Nat2N.inj_add, N.pow_add_r. reflexivity. Qed.
Lemma P256_le a b : (a <= b)%nat -> P256 a <= P256 b.
Proof. intros. unfold P256. apply N.pow_le_mono_r; lia. Qed.
Lemma ZP256 k : (256 ^ Z.of_nat k)%Z = Z.of_N (P256 k).
Proof. unfold P256. rewrite N2Z.inj_pow. f_equal. lia. Qed.

Global Opaque P256.

(* ================================================================== *)
(* 2. big-endian unsigned strings: be_val / be_bytes                   *)
(* ================================================================== *)
Lemma fold_be acc bs :
  fold_left (fun a b => a * 256 + b) bs acc = acc * P256 (length bs) + be_val bs.
Proof.
  unfold be_val. revert acc. induction bs as [|b r IH]; intro acc; cbn [fold_left length].
  - rewrite P256_0. lia.
  - rewrite IH, (IH (0 * 256 + b)), P256_S. ring.
Qed.

Lemma be_val_nil : be_val [] = 0. Proof. reflexivity. Qed.

Lemma be_val_cons b r : be_val (b :: r) = b * P256 (length r) + be_val r.
Proof. unfold be_val at 1. cbn [fold_left]. rewrite fold_be. lia. Qed.

Lemma be_val_app a b : be_val (a ++ b) = be_val a * P256 (length b) + be_val b.
Proof.
  induction a as [|x a IH]; cbn [app].
  - rewrite be_val_nil. lia.
  - rewrite !be_val_cons, IH, app_length, P256_add. lia.
Qed.

Lemma bytes_ok_cons b r : bytes_ok (b :: r) = true <-> b < 256 /\ bytes_ok r = true.
Proof. unfold bytes_ok. cbn [forallb]. unfold byte_ok. rewrite andb_true_iff, N.ltb_lt. tauto. Qed.

Lemma bytes_ok_app a b : bytes_ok (a ++ b) = true <-> bytes_ok a = true /\ bytes_ok b = true.
Proof. unfold bytes_ok. rewrite forallb_app, andb_true_iff. tauto. Qed.

Lemma be_val_lt bs : bytes_ok bs = true -> be_val bs < P256 (length bs).
Proof.
  induction bs as [|b r IH]; intro H.
  - rewrite be_val_nil. cbn [length]. rewrite P256_0. lia.
  - apply bytes_ok_cons in H as [Hb Hr]. specialize (IH Hr).
    rewrite be_val_cons. cbn [length]. rewrite P256_S. nia.
Qed.

Lemma be_bytes_length n v : length (be_bytes n v) = n.
Proof. induction n; cbn [be_bytes length]; congruence. Qed.

Lemma be_bytes_ok n v : bytes_ok (be_bytes n v) = true.
Proof.
  induction n as [|k IH]; [reflexivity|]. cbn [be_bytes]. apply bytes_ok_cons. split; [|exact IH].
  apply N.mod_lt. discriminate.
Qed.

Lemma be_bytes_S k v : be_bytes (S k) v = (v / P256 k) mod 256 :: be_bytes k v.
Proof. cbn [be_bytes]. rewrite P256_two. reflexivity. Qed.

Lemma be_val_be_bytes n v : be_val (be_bytes n v) = v mod P256 n.
Proof.
  induction n as [|k IH].
  - cbn [be_bytes]. rewrite be_val_nil, P256_0. symmetry. apply N.mod_1_r.
  - rewrite be_bytes_S, be_val_cons, IH, be_bytes_length, P256_S.
    pose proof (P256_pos k).
    rewrite (N.mul_comm 256), (N.mod_mul_r v (P256 k) 256) by lia. lia.
Qed.

(* snoc form: the last byte is v mod 256, the rest is v / 256 *)
Lemma be_bytes_snoc k v : be_bytes (S k) v = be_bytes k (v / 256) ++ [v mod 256].
Proof.
  induction k as [|k IH].
  - rewrite be_bytes_S, P256_0. cbn [be_bytes app]. now rewrite N.div_1_r.
  - rewrite be_bytes_S, IH. rewrite (be_bytes_S k (v / 256)). cbn [app]. f_equal.
    rewrite P256_S. pose proof (P256_pos k).
    rewrite N.div_div by lia. reflexivity.
Qed.

Lemma be_bytes_be_val bs : bytes_ok bs = true -> be_bytes (length bs) (be_val bs) = bs.
Proof.
  induction bs as [|b r IH] using rev_ind; intro H; [reflexivity|].
  apply bytes_ok_app in H as [Hr Hb]. apply bytes_ok_cons in Hb as [Hb _].
  rewrite app_length. cbn [length]. rewrite Nat.add_1_r, be_bytes_snoc.
  rewrite be_val_app, be_val_cons, be_val_nil. cbn [length]. rewrite P256_S, P256_0.
  replace ((be_val r * (256 * 1) + (b * 1 + 0)) / 256) with (be_val r) by lia.
  replace ((be_val r * (256 * 1) + (b * 1 + 0)) mod 256) with b by lia.
  now rewrite (IH Hr).
Qed.

Lemma be_bytes_small_head k v : v < P256 k -> be_bytes (S k) v = 0 :: be_bytes k v.
Proof.
  intro H. rewrite be_bytes_S. f_equal. rewrite N.div_small by exact H. reflexivity.
Qed.

Lemma be_val_inj a b : bytes_ok a = true -> bytes_ok b = true -> length a = length b ->
  be_val a = be_val b -> a = b.
Proof.
  intros Ha Hb Hl Hv. rewrite <- (be_bytes_be_val a Ha), <- (be_bytes_be_val b Hb). congruence.
Qed.

Lemma be_bytes_mod k v : be_bytes k (v mod P256 k) = be_bytes k v.
Proof.
  apply be_val_inj; try apply be_bytes_ok.
  - now rewrite !be_bytes_length.
  - rewrite !be_val_be_bytes. pose proof (P256_pos k). apply N.mod_mod. lia.
Qed.

(* ================================================================== *)
(* 3. two's complement: tc_val / tc_bytes / fits / canonical length    *)
(* ================================================================== *)
Notation ZP k := (Z.of_N (P256 k)).

(* z is representable in k bytes of two's complement *)
Definition fits (k : nat) (z : Z) : Prop := (- ZP k <= 2 * z < ZP k)%Z.

(* k is THE minimal length: z fits in k bytes and not in k-1 *)
Definition canon_len (k : nat) (z : Z) : Prop :=
  (1 <= k)%nat /\ fits k z /\ (k = 1%nat \/ ~ fits (k - 1) z).

Lemma tc_val_cons b r :
  tc_val (b :: r) = if b <? 128 then Z.of_N (be_val (b :: r))
                    else (Z.of_N (be_val (b :: r)) - ZP (S (length r)))%Z.
Proof. unfold tc_val. rewrite ZP256. reflexivity. Qed.

Lemma tc_bytes_eq k z : tc_bytes k z = be_bytes k (Z.to_N (z mod ZP k)).
Proof. unfold tc_bytes. now rewrite ZP256. Qed.

Lemma tc_bytes_length k z : length (tc_bytes k z) = k.
Proof. apply be_bytes_length. Qed.

Lemma tc_bytes_ok k z : bytes_ok (tc_bytes k z) = true.
Proof. apply be_bytes_ok. Qed.

Lemma fits_mono k k' z : (k <= k')%nat -> fits k z -> fits k' z.
Proof. unfold fits. intros Hk H. pose proof (P256_le k k' Hk). lia. Qed.

Lemma fits_div k z : (1 <= k)%nat -> fits (S k) z <-> fits k (z / 256)%Z.
Proof.
  intros Hk. destruct k as [|j]; [lia|]. unfold fits. rewrite !P256_S.
  pose proof (P256_pos j). lia.
Qed.

Lemma fits_1 z : fits 1 z <-> (-128 <= z < 128)%Z.
Proof. unfold fits. rewrite P256_S, P256_0. lia. Qed.

Lemma head_lt_128 v P : 0 < P -> v < 256 * P -> ((v / P) mod 256 <? 128) = (v <? 128 * P).
Proof.
  intros HP Hv. assert (v / P < 256) by (apply N.div_lt_upper_bound; lia).
  rewrite N.mod_small by assumption.
  destruct (v <? 128 * P) eqn:E.
  - apply N.ltb_lt. apply N.div_lt_upper_bound; lia.
  - apply N.ltb_ge. apply N.div_le_lower_bound; lia.
Qed.

Lemma tc_val_tc_bytes k z : (1 <= k)%nat -> fits k z -> tc_val (tc_bytes k z) = z.
Proof.
  intros Hk Hf. destruct k as [|j]; [lia|]. rewrite tc_bytes_eq.
  set (v := Z.to_N (z mod ZP (S j))).
  assert (Hv : v < P256 (S j)) by (pose proof (P256_pos (S j)); lia).
  pose proof (be_val_be_bytes (S j) v) as Hbv. rewrite N.mod_small in Hbv by exact Hv.
  rewrite be_bytes_S in *. rewrite tc_val_cons, Hbv, be_bytes_length.
  pose proof (P256_pos j) as Hp. rewrite P256_S in Hv.
  rewrite head_lt_128 by lia.
  unfold fits in Hf. rewrite P256_S in *. subst v.
  destruct (Z.ltb_spec z 0).
  - assert (E : (z mod ZP' )%Z = z) by idtac.
Abort.
