(* Proofs_IntConv.v — facts about Model_IntConv: big-endian / two's-complement
   byte strings (reusable by other properties: RLP codec, container keys,
   transactions), correctness of the intconv encoders/decoders against the
   closed-form specification tc_bytes/tc_val/tc_len, and the hex text layer. *)
From Goloop Require Import lib.Bytes Model_IntConv.
From Coq Require Import ZifyBool ZifyN ZifyNat.
Ltac Zify.zify_post_hook ::= Z.div_mod_to_equations.
Open Scope N_scope.

(* ================================================================== *)
(* 0. finite enumeration helper                                        *)
(* ================================================================== *)
Lemma N_lt_forallb (n : nat) (P : N -> bool) :
  forallb P (map N.of_nat (seq 0 n)) = true -> forall d, d < N.of_nat n -> P d = true.
Proof.
  intros H d Hd. rewrite forallb_forall in H. apply H.
  apply in_map_iff. exists (N.to_nat d). split; [lia|]. apply in_seq. lia.
Qed.

Lemma land128 b : b < 256 -> (N.land b 128 =? 0) = (b <? 128).
Proof.
  intros Hb. apply Bool.eqb_prop.
  apply (N_lt_forallb 256 (fun b => Bool.eqb (N.land b 128 =? 0) (b <? 128))); [|exact Hb].
  vm_compute. reflexivity.
Qed.

Lemma lxor255 b : b < 256 -> N.lxor b 255 = 255 - b.
Proof.
  intros Hb. apply N.eqb_eq.
  apply (N_lt_forallb 256 (fun b => N.lxor b 255 =? 255 - b)); [|exact Hb].
  vm_compute. reflexivity.
Qed.

(* ================================================================== *)
(* 1. powers of 256                                                    *)
(* ================================================================== *)
Definition P256 (k : nat) : N := 256 ^ N.of_nat k.

Lemma P256_0 : P256 0 = 1. Proof. reflexivity. Qed.
Lemma P256_S k : P256 (S k) = 256 * P256 k.
Proof. unfold P256. rewrite Nat2N.inj_succ, N.pow_succ_r'. reflexivity. Qed.
Lemma P256_pos k : 0 < P256 k.
Proof. unfold P256. apply N.neq_0_lt_0, N.pow_nonzero. discriminate. Qed.
Lemma P256_two k : P256 k = 2 ^ (8 * N.of_nat k).
Proof. unfold P256. rewrite N.pow_mul_r. reflexivity. Qed.
Lemma P256_add a b : P256 (a + b) = P256 a * P256 b.
Proof. unfold P256. rewrite Nat2N.inj_add, N.pow_add_r. reflexivity. Qed.
Lemma P256_le a b : (a <= b)%nat -> P256 a <= P256 b.
Proof. intros. unfold P256. apply N.pow_le_mono_r; lia. Qed.
Lemma ZP256 k : (256 ^ Z.of_nat k)%Z = Z.of_N (P256 k).
Proof. unfold P256. rewrite N2Z.inj_pow. f_equal. lia. Qed.

Global Opaque P256.

(* ================================================================== *)
(* 2. big-endian unsigned strings: be_val / be_bytes                   *)
(* ================================================================== *)
Lemma fold_be acc bs :
  fold_left (fun a b => a * 256 + b) bs acc = acc * P256 (length bs) + be_val bs.
Proof.
  unfold be_val. revert acc. induction bs as [|b r IH]; intro acc; cbn [fold_left length].
  - rewrite P256_0. lia.
  - rewrite IH, (IH (0 * 256 + b)), P256_S. ring.
Qed.

Lemma be_val_nil : be_val [] = 0. Proof. reflexivity. Qed.

Lemma be_val_cons b r : be_val (b :: r) = b * P256 (length r) + be_val r.
Proof. unfold be_val at 1. cbn [fold_left]. rewrite fold_be. lia. Qed.

Lemma be_val_app a b : be_val (a ++ b) = be_val a * P256 (length b) + be_val b.
Proof.
  induction a as [|x a IH]; cbn [app].
  - rewrite be_val_nil. lia.
  - rewrite !be_val_cons, IH, app_length, P256_add. lia.
Qed.

Lemma bytes_ok_cons b r : bytes_ok (b :: r) = true <-> b < 256 /\ bytes_ok r = true.
Proof. unfold bytes_ok. cbn [forallb]. unfold byte_ok. rewrite andb_true_iff, N.ltb_lt. tauto. Qed.

Lemma bytes_ok_app a b : bytes_ok (a ++ b) = true <-> bytes_ok a = true /\ bytes_ok b = true.
Proof. unfold bytes_ok. rewrite forallb_app, andb_true_iff. tauto. Qed.

Lemma be_val_lt bs : bytes_ok bs = true -> be_val bs < P256 (length bs).
Proof.
  induction bs as [|b r IH]; intro H.
  - rewrite be_val_nil. cbn [length]. rewrite P256_0. lia.
  - apply bytes_ok_cons in H as [Hb Hr]. specialize (IH Hr).
    rewrite be_val_cons. cbn [length]. rewrite P256_S. nia.
Qed.

Lemma be_bytes_length n v : length (be_bytes n v) = n.
Proof. induction n; cbn [be_bytes length]; congruence. Qed.

Lemma be_bytes_ok n v : bytes_ok (be_bytes n v) = true.
Proof.
  induction n as [|k IH]; [reflexivity|]. cbn [be_bytes]. apply bytes_ok_cons. split; [|exact IH].
  apply N.mod_lt. discriminate.
Qed.

Lemma be_bytes_S k v : be_bytes (S k) v = (v / P256 k) mod 256 :: be_bytes k v.
Proof. cbn [be_bytes]. rewrite P256_two. reflexivity. Qed.

Lemma be_val_be_bytes n v : be_val (be_bytes n v) = v mod P256 n.
Proof.
  induction n as [|k IH].
  - cbn [be_bytes]. rewrite be_val_nil, P256_0. symmetry. apply N.mod_1_r.
  - rewrite be_bytes_S, be_val_cons, IH, be_bytes_length, P256_S.
    pose proof (P256_pos k).
    rewrite (N.mul_comm 256), (N.mod_mul_r v (P256 k) 256) by lia. lia.
Qed.

(* snoc form: the last byte is v mod 256, the rest is v / 256 *)
Lemma be_bytes_snoc k v : be_bytes (S k) v = be_bytes k (v / 256) ++ [v mod 256].
Proof.
  induction k as [|k IH].
  - rewrite be_bytes_S, P256_0. cbn [be_bytes app]. now rewrite N.div_1_r.
  - rewrite be_bytes_S, IH. rewrite (be_bytes_S k (v / 256)). cbn [app]. f_equal.
    rewrite P256_S. pose proof (P256_pos k).
    rewrite N.div_div by lia. reflexivity.
Qed.

Lemma be_bytes_be_val bs : bytes_ok bs = true -> be_bytes (length bs) (be_val bs) = bs.
Proof.
  induction bs as [|b r IH] using rev_ind; intro H; [reflexivity|].
  apply bytes_ok_app in H as [Hr Hb]. apply bytes_ok_cons in Hb as [Hb _].
  rewrite app_length. cbn [length]. rewrite Nat.add_1_r, be_bytes_snoc.
  rewrite be_val_app, be_val_cons, be_val_nil. cbn [length]. rewrite P256_S, P256_0.
  replace ((be_val r * (256 * 1) + (b * 1 + 0)) / 256) with (be_val r) by lia.
  replace ((be_val r * (256 * 1) + (b * 1 + 0)) mod 256) with b by lia.
  now rewrite (IH Hr).
Qed.

Lemma be_bytes_small_head k v : v < P256 k -> be_bytes (S k) v = 0 :: be_bytes k v.
Proof.
  intro H. rewrite be_bytes_S. f_equal. rewrite N.div_small by exact H. reflexivity.
Qed.

Lemma be_val_inj a b : bytes_ok a = true -> bytes_ok b = true -> length a = length b ->
  be_val a = be_val b -> a = b.
Proof.
  intros Ha Hb Hl Hv. rewrite <- (be_bytes_be_val a Ha), <- (be_bytes_be_val b Hb). congruence.
Qed.

Lemma be_bytes_mod k v : be_bytes k (v mod P256 k) = be_bytes k v.
Proof.
  apply be_val_inj; try apply be_bytes_ok.
  - now rewrite !be_bytes_length.
  - rewrite !be_val_be_bytes. pose proof (P256_pos k). apply N.mod_mod. lia.
Qed.

(* ================================================================== *)
(* 3. two's complement: tc_val / tc_bytes / fits / canonical length    *)
(* ================================================================== *)
Notation ZP k := (Z.of_N (P256 k)).

(* z is representable in k bytes of two's complement *)
Definition fits (k : nat) (z : Z) : Prop := (- ZP k <= 2 * z < ZP k)%Z.

(* k is THE minimal length: z fits in k bytes and not in k-1 *)
Definition canon_len (k : nat) (z : Z) : Prop :=
  (1 <= k)%nat /\ fits k z /\ (k = 1%nat \/ ~ fits (k - 1) z).

Lemma tc_val_cons b r :
  tc_val (b :: r) = if b <? 128 then Z.of_N (be_val (b :: r))
                    else (Z.of_N (be_val (b :: r)) - ZP (S (length r)))%Z.
Proof. unfold tc_val. rewrite ZP256. reflexivity. Qed.

Lemma tc_bytes_eq k z : tc_bytes k z = be_bytes k (Z.to_N (z mod ZP k)).
Proof. unfold tc_bytes. now rewrite ZP256. Qed.

Lemma tc_bytes_length k z : length (tc_bytes k z) = k.
Proof. apply be_bytes_length. Qed.

Lemma tc_bytes_ok k z : bytes_ok (tc_bytes k z) = true.
Proof. apply be_bytes_ok. Qed.

Lemma fits_mono k k' z : (k <= k')%nat -> fits k z -> fits k' z.
Proof. unfold fits. intros Hk H. pose proof (P256_le k k' Hk). lia. Qed.

Lemma fits_div k z : (1 <= k)%nat -> fits (S k) z <-> fits k (z / 256)%Z.
Proof.
  intros Hk. destruct k as [|j]; [lia|]. unfold fits. rewrite !P256_S.
  pose proof (P256_pos j). lia.
Qed.

Lemma fits_1 z : fits 1 z <-> (-128 <= z < 128)%Z.
Proof. unfold fits. rewrite P256_S, P256_0. lia. Qed.

Lemma head_lt_128 v P : 0 < P -> v < 256 * P -> ((v / P) mod 256 <? 128) = (v <? 128 * P).
Proof.
  intros HP Hv. assert (v / P < 256) by (apply N.div_lt_upper_bound; lia).
  rewrite N.mod_small by assumption.
  destruct (v <? 128 * P) eqn:E.
  - apply N.ltb_lt. apply N.div_lt_upper_bound; lia.
  - apply N.ltb_ge. apply N.div_le_lower_bound; lia.
Qed.

Lemma zmod_neg z M : (- M <= z < 0)%Z -> (z mod M)%Z = (z + M)%Z.
Proof.
  intros H. rewrite <- (Z_mod_plus_full z 1 M). rewrite Z.mod_small; lia.
Qed.

Lemma tc_val_tc_bytes k z : (1 <= k)%nat -> fits k z -> tc_val (tc_bytes k z) = z.
Proof.
  intros Hk Hf. destruct k as [|j]; [lia|]. rewrite tc_bytes_eq.
  set (v := Z.to_N (z mod ZP (S j))).
  assert (Hv : v < P256 (S j)) by (pose proof (P256_pos (S j)); lia).
  pose proof (be_val_be_bytes (S j) v) as Hbv. rewrite N.mod_small in Hbv by exact Hv.
  rewrite be_bytes_S in *. rewrite tc_val_cons, Hbv, be_bytes_length.
  pose proof (P256_pos j) as Hp. rewrite P256_S in Hv.
  rewrite head_lt_128 by lia.
  unfold fits in Hf. subst v. rewrite P256_S in *.
  destruct (Z.ltb_spec z 0).
  - rewrite zmod_neg by lia.
    replace (Z.to_N (z + Z.of_N (256 * P256 j)) <? 128 * P256 j) with false by lia. lia.
  - rewrite Z.mod_small by lia.
    replace (Z.to_N z <? 128 * P256 j) with true by lia. lia.
Qed.

Lemma tc_val_mod bs : bytes_ok bs = true ->
  Z.to_N (tc_val bs mod ZP (length bs)) = be_val bs.
Proof.
  intros H. pose proof (be_val_lt bs H) as Hlt. destruct bs as [|b r].
  - cbn [length tc_val]. rewrite P256_0. reflexivity.
  - rewrite tc_val_cons. cbn [length] in *. destruct (b <? 128).
    + rewrite Z.mod_small by lia. lia.
    + rewrite zmod_neg by lia. lia.
Qed.

Lemma tc_bytes_tc_val bs : bytes_ok bs = true -> tc_bytes (length bs) (tc_val bs) = bs.
Proof.
  intros H. rewrite tc_bytes_eq, tc_val_mod by exact H. now apply be_bytes_be_val.
Qed.

Lemma tc_val_fits bs : bytes_ok bs = true -> bs <> [] -> fits (length bs) (tc_val bs).
Proof.
  intros H Hne. destruct bs as [|b r]; [congruence|].
  pose proof (be_val_lt _ H) as Hlt. apply bytes_ok_cons in H as [Hb Hr].
  pose proof (be_val_lt _ Hr) as Hr'. pose proof (P256_pos (length r)).
  rewrite tc_val_cons. unfold fits. rewrite be_val_cons in *. cbn [length] in *. rewrite P256_S in *.
  destruct (N.ltb_spec b 128); nia.
Qed.

Lemma tc_bytes_snoc k z :
  tc_bytes (S k) z = tc_bytes k (z / 256)%Z ++ [Z.to_N (z mod 256)%Z].
Proof.
  rewrite !tc_bytes_eq, be_bytes_snoc, P256_S. pose proof (P256_pos k).
  rewrite N2Z.inj_mul. change (Z.of_N 256) with 256%Z.
  rewrite Z.rem_mul_r by lia.
  set (a := (z mod 256)%Z). set (c := ((z / 256) mod ZP k)%Z).
  assert (0 <= a < 256)%Z by (subst a; lia).
  assert (0 <= c < ZP k)%Z by (subst c; apply Z.mod_pos_bound; lia).
  f_equal; [f_equal|f_equal]; lia.
Qed.

Lemma redundant_iff b0 b1 r : bytes_ok (b0 :: b1 :: r) = true ->
  redundant (b0 :: b1 :: r) = true <-> fits (S (length r)) (tc_val (b0 :: b1 :: r)).
Proof.
  intros H. apply bytes_ok_cons in H as [H0 H]. apply bytes_ok_cons in H as [H1 Hr].
  pose proof (be_val_lt _ Hr) as HR. pose proof (P256_pos (length r)) as HP.
  rewrite tc_val_cons, !be_val_cons. cbn [length redundant]. unfold fits. rewrite !P256_S.
  set (P := P256 (length r)) in *. set (R := be_val r) in *.
  destruct (N.ltb_spec b0 128).
  - split; intro E.
    + assert (b0 = 0 /\ b1 < 128) as [-> ?] by lia. nia.
    + assert (b0 = 0) by nia. subst b0. assert (b1 < 128) by nia. lia.
  - split; intro E.
    + assert (b0 = 255 /\ 128 <= b1) as [-> ?] by lia. nia.
    + assert (b0 = 255) by nia. subst b0. assert (128 <= b1) by nia. lia.
Qed.

Lemma redundant_drop b0 b1 r : bytes_ok (b0 :: b1 :: r) = true ->
  redundant (b0 :: b1 :: r) = true -> tc_val (b0 :: b1 :: r) = tc_val (b1 :: r).
Proof.
  intros H E. apply bytes_ok_cons in H as [H0 H]. apply bytes_ok_cons in H as [H1 Hr].
  rewrite !tc_val_cons, !be_val_cons. cbn [length redundant] in *. rewrite !P256_S.
  assert ((b0 = 0 /\ b1 < 128) \/ (b0 = 255 /\ 128 <= b1)) as [[-> ?]|[-> ?]] by lia.
  - replace (0 <? 128) with true by reflexivity. replace (b1 <? 128) with true by lia. lia.
  - replace (255 <? 128) with false by reflexivity. replace (b1 <? 128) with false by lia. lia.
Qed.

Lemma canon_len_unique k k' z : canon_len k z -> canon_len k' z -> k = k'.
Proof.
  intros (H1 & Hf & Hm) (H1' & Hf' & Hm').
  destruct (Nat.lt_trichotomy k k') as [L|[E|L]]; [|exact E|].
  - destruct Hm' as [->|Hn]; [lia|]. exfalso. apply Hn. apply (fits_mono k); [lia|exact Hf].
  - destruct Hm as [->|Hn]; [lia|]. exfalso. apply Hn. apply (fits_mono k'); [lia|exact Hf'].
Qed.

(* a non-empty string without redundant first byte has the canonical length of its value *)
Lemma nonredundant_canon bs : bytes_ok bs = true -> bs <> [] ->
  redundant bs = false <-> canon_len (length bs) (tc_val bs).
Proof.
  intros H Hne. pose proof (tc_val_fits bs H Hne) as Hf.
  destruct bs as [|b0 [|b1 r]]; [congruence| |].
  - cbn [redundant length]. unfold canon_len. intuition.
  - pose proof (redundant_iff b0 b1 r H) as Hi. cbn [length] in *.
    unfold canon_len. replace (S (S (length r)) - 1)%nat with (S (length r)) by lia.
    split.
    + intro E. split; [lia|]. split; [exact Hf|]. right. rewrite <- Hi, E. discriminate.
    + intros (_ & _ & [E|Hn]); [lia|]. destruct (redundant (b0 :: b1 :: r)); [|reflexivity].
      exfalso. apply Hn, Hi. reflexivity.
Qed.

(* the canonical string: unique, shortest, never redundant *)
Lemma canon_bytes_val k z : canon_len k z -> tc_val (tc_bytes k z) = z.
Proof. intros (H1 & Hf & _). now apply tc_val_tc_bytes. Qed.

Lemma canon_bytes_nonredundant k z : canon_len k z -> redundant (tc_bytes k z) = false.
Proof.
  intros Hc. pose proof Hc as (H1 & Hf & _).
  apply nonredundant_canon.
  - apply tc_bytes_ok.
  - intro E. apply (f_equal (@length N)) in E. rewrite tc_bytes_length in E. cbn in E. lia.
  - now rewrite tc_bytes_length, tc_val_tc_bytes.
Qed.

Lemma canon_bytes_shortest k z bs : canon_len k z ->
  bytes_ok bs = true -> bs <> [] -> tc_val bs = z -> (k <= length bs)%nat.
Proof.
  intros (H1 & Hf & Hm) Hok Hne Hv. pose proof (tc_val_fits bs Hok Hne) as Hb. rewrite Hv in Hb.
  destruct Hm as [->|Hn].
  - destruct bs; [congruence|cbn [length]; lia].
  - destruct (le_lt_dec k (length bs)); [assumption|]. exfalso. apply Hn.
    apply (fits_mono (length bs)); [lia|exact Hb].
Qed.

Lemma canon_bytes_unique k z bs : canon_len k z ->
  bytes_ok bs = true -> tc_val bs = z -> length bs = k -> bs = tc_bytes k z.
Proof. intros _ Hok Hv Hl. rewrite <- Hv, <- Hl. symmetry. now apply tc_bytes_tc_val. Qed.

Lemma nonredundant_unique k z bs : canon_len k z ->
  bytes_ok bs = true -> bs <> [] -> redundant bs = false -> tc_val bs = z -> bs = tc_bytes k z.
Proof.
  intros Hc Hok Hne Hr Hv. apply (canon_bytes_unique k z bs Hc Hok Hv).
  apply (nonredundant_canon bs Hok Hne) in Hr. rewrite Hv in Hr.
  apply (canon_len_unique _ _ z Hr Hc).
Qed.

(* ================================================================== *)
(* 4. bit length, big.Int.Bytes, the closed-form minimal length        *)
(* ================================================================== *)
Lemma bitlen_0 : bitlen 0 = 0. Proof. reflexivity. Qed.

Lemma bitlen_pos n : n <> 0 -> 1 <= bitlen n.
Proof. intro H. unfold bitlen. rewrite N.size_log2 by exact H. lia. Qed.

Lemma bitlen_bounds n : n <> 0 -> 2 ^ (bitlen n - 1) <= n < 2 ^ bitlen n.
Proof.
  intro H. unfold bitlen. rewrite N.size_log2 by exact H.
  replace (N.succ (N.log2 n) - 1) with (N.log2 n) by lia.
  apply N.log2_spec. lia.
Qed.

Lemma bitlen_lt n : n < 2 ^ bitlen n.
Proof. apply N.size_gt. Qed.

Lemma bitlen_unique n b : 1 <= b -> 2 ^ (b - 1) <= n < 2 ^ b -> bitlen n = b.
Proof.
  intros Hb H. assert (n <> 0).
  { pose proof (N.pow_nonzero 2 (b - 1)). lia. }
  unfold bitlen. rewrite N.size_log2 by assumption.
  rewrite (N.log2_unique n (b - 1)); [lia|lia|]. replace (N.succ (b - 1)) with b by lia. exact H.
Qed.

Lemma pow2_le a b : a <= b -> 2 ^ a <= 2 ^ b.
Proof. intro. apply N.pow_le_mono_r; lia. Qed.

(* big.Int.Bytes: k bytes where 256^(k-1) <= n < 256^k (k = 0 for n = 0) *)
Definition ulen (k : nat) (n : N) : Prop := n < P256 k /\ (k = 0%nat \/ P256 (k - 1) <= n).

Lemma ulen_unique k k' n : ulen k n -> ulen k' n -> k = k'.
Proof.
  intros (H1 & H2) (H1' & H2').
  destruct (Nat.lt_trichotomy k k') as [L|[E|L]]; [|exact E|]; exfalso.
  - destruct H2' as [->|H2']; [lia|]. pose proof (P256_le k (k' - 1)). lia.
  - destruct H2 as [->|H2]; [lia|]. pose proof (P256_le k' (k - 1)). lia.
Qed.

Lemma nat_bytes_len n : ulen (N.to_nat ((bitlen n + 7) / 8)) n.
Proof.
  set (k := N.to_nat ((bitlen n + 7) / 8)). unfold ulen. rewrite !P256_two. split.
  - eapply N.lt_le_trans; [apply bitlen_lt|]. apply pow2_le. lia.
  - destruct (N.eq_dec n 0) as [->|Hn].
    + left. reflexivity.
    + right. pose proof (bitlen_pos n Hn). pose proof (bitlen_bounds n Hn) as [Hlo _].
      eapply N.le_trans; [|exact Hlo]. apply pow2_le. lia.
Qed.

Lemma nat_bytes_spec n : exists k, ulen k n /\ nat_bytes n = be_bytes k n.
Proof. eexists. split; [apply nat_bytes_len|reflexivity]. Qed.

Lemma nat_bytes_of_ulen k n : ulen k n -> nat_bytes n = be_bytes k n.
Proof.
  intro H. destruct (nat_bytes_spec n) as (k' & H' & ->). now rewrite (ulen_unique _ _ _ H' H).
Qed.

Lemma be_val_nat_bytes n : be_val (nat_bytes n) = n.
Proof.
  destruct (nat_bytes_spec n) as (k & (Hlt & _) & ->). rewrite be_val_be_bytes. now apply N.mod_small.
Qed.

Lemma nat_bytes_ok n : bytes_ok (nat_bytes n) = true.
Proof. apply be_bytes_ok. Qed.

(* magnitude used by tc_len: z for z >= 0, -z-1 for z < 0 *)
Definition mag (z : Z) : N := Z.to_N (if (z <? 0)%Z then (- z - 1)%Z else z).

Lemma fits_mag k z : (1 <= k)%nat -> fits k z <-> 2 * mag z < P256 k.
Proof.
  intro Hk. destruct k as [|j]; [lia|]. unfold fits, mag. rewrite P256_S.
  pose proof (P256_pos j). destruct (Z.ltb_spec z 0); lia.
Qed.

Lemma tc_len_eq z : tc_len z = N.to_nat (bitlen (mag z) / 8 + 1).
Proof. reflexivity. Qed.

Lemma tc_len_spec z : canon_len (tc_len z) z.
Proof.
  rewrite tc_len_eq. set (m := mag z). set (s := bitlen m).
  set (k := N.to_nat (s / 8 + 1)). assert (Hk : (1 <= k)%nat) by lia.
  unfold canon_len. split; [exact Hk|]. split.
  - apply fits_mag; [exact Hk|]. fold m. rewrite P256_two.
    pose proof (bitlen_lt m). fold s in H.
    assert (2 ^ (s + 1) <= 2 ^ (8 * N.of_nat k)) by (apply pow2_le; lia).
    rewrite N.pow_add_r in H0. change (2 ^ 1) with 2 in H0. lia.
  - destruct (Nat.eq_dec k 1) as [E|E]; [left; exact E|right].
    rewrite fits_mag by lia. fold m. rewrite P256_two.
    assert (Hm : m <> 0). { intro E0. apply E. unfold k, s. rewrite E0. reflexivity. }
    pose proof (bitlen_bounds m Hm) as [Hlo _]. pose proof (bitlen_pos m Hm). fold s in Hlo, H.
    assert (2 ^ (8 * N.of_nat (k - 1)) <= 2 ^ s) by (apply pow2_le; lia).
    replace s with (s - 1 + 1) in H0 by lia. rewrite N.pow_add_r in H0. change (2 ^ 1) with 2 in H0. lia.
Qed.

Lemma tc_len_unique k z : canon_len k z -> k = tc_len z.
Proof. intro H. apply (canon_len_unique _ _ z H (tc_len_spec z)). Qed.

Lemma tc_len_pos z : (1 <= tc_len z)%nat.
Proof. apply tc_len_spec. Qed.

(* the canonical encoding *)
Definition tc_enc (z : Z) : bytes := tc_bytes (tc_len z) z.

Lemma tc_val_enc z : tc_val (tc_enc z) = z.
Proof. apply canon_bytes_val, tc_len_spec. Qed.
Lemma tc_enc_length z : length (tc_enc z) = tc_len z.
Proof. apply tc_bytes_length. Qed.
Lemma tc_enc_ok z : bytes_ok (tc_enc z) = true.
Proof. apply tc_bytes_ok. Qed.
Lemma tc_enc_nonempty z : tc_enc z <> [].
Proof.
  intro E. apply (f_equal (@length N)) in E. rewrite tc_enc_length in E.
  pose proof (tc_len_pos z). cbn in E. lia.
Qed.
Lemma tc_enc_nonredundant z : redundant (tc_enc z) = false.
Proof. apply canon_bytes_nonredundant, tc_len_spec. Qed.

(* ================================================================== *)
(* 5. the encoders of intconv/bytes.go produce the canonical encoding  *)
(* ================================================================== *)

(* ---- bit operations as arithmetic ---- *)
Lemma zland255 v : Z.land v 255 = (v mod 256)%Z.
Proof. change 255%Z with (Z.ones 8). rewrite Z.land_ones by lia. reflexivity. Qed.
Lemma zshiftr8 v : Z.shiftr v 8 = (v / 256)%Z.
Proof. rewrite Z.shiftr_div_pow2 by lia. reflexivity. Qed.
Lemma zland_m128 v : Z.land v (-128) = (128 * (v / 128))%Z.
Proof.
  change (-128)%Z with (Z.lnot (Z.ones 7)).
  rewrite <- Z.ldiff_land, Z.ldiff_ones_r, Z.shiftl_mul_pow2, Z.shiftr_div_pow2 by lia.
  change (2 ^ 7)%Z with 128%Z. lia.
Qed.
Lemma nland255 v : N.land v 255 = v mod 256.
Proof. change 255 with (N.ones 8). rewrite N.land_ones. reflexivity. Qed.
Lemma nshiftr8 v : N.shiftr v 8 = v / 256.
Proof. rewrite N.shiftr_div_pow2. reflexivity. Qed.

Lemma P256_8 : P256 8 = 18446744073709551616.
Proof. rewrite P256_two. reflexivity. Qed.
Lemma P256_9 : P256 9 = 256 * 18446744073709551616.
Proof. rewrite P256_S, P256_8. reflexivity. Qed.

Lemma tc_bytes_0 z : tc_bytes 0 z = [].
Proof. reflexivity. Qed.
Lemma tc_bytes_1 z : tc_bytes 1 z = [Z.to_N (z mod 256)%Z].
Proof. rewrite tc_bytes_snoc, tc_bytes_0. reflexivity. Qed.

(* ---- Int64ToBytes ---- *)
Lemma int64_loop_spec n : forall v acc, (1 <= n)%nat -> fits n v ->
  exists k, (k <= n)%nat /\ canon_len k v /\
    int64_loop n (if (v <? 0)%Z then (-128)%Z else 0%Z) v acc = tc_bytes k v ++ acc.
Proof.
  induction n as [|m IH]; intros v acc Hn Hf; [lia|].
  cbn [int64_loop]. rewrite zland_m128, zland255, zshiftr8.
  destruct (Z.eqb_spec (128 * (v / 128)) (if (v <? 0)%Z then (-128)%Z else 0%Z)) as [E|E].
  - assert (F1 : fits 1 v) by (apply fits_1; destruct (Z.ltb_spec v 0); lia).
    exists 1%nat. split; [lia|]. split; [unfold canon_len; auto|].
    rewrite tc_bytes_1. reflexivity.
  - assert (F1 : ~ fits 1 v) by (rewrite fits_1; destruct (Z.ltb_spec v 0); lia).
    assert (Hm : (1 <= m)%nat) by (destruct m; [tauto|lia]).
    assert (Hf' : fits m (v / 256)%Z) by (apply fits_div; assumption).
    destruct (IH (v / 256)%Z (Z.to_N (v mod 256) :: acc) Hm Hf') as (k' & Hk' & Hc & Hr).
    replace (v / 256 <? 0)%Z with (v <? 0)%Z in Hr by lia.
    exists (S k'). split; [lia|]. destruct Hc as (H1 & Hfk & Hmin). split.
    + unfold canon_len. split; [lia|]. split; [apply fits_div; assumption|].
      right. replace (S k' - 1)%nat with k' by lia.
      destruct (Nat.eq_dec k' 1) as [->|Hne]; [exact F1|].
      destruct Hmin as [?|Hmin]; [lia|]. intro Hc. apply Hmin.
      replace k' with (S (k' - 1)) in Hc by lia. apply fits_div in Hc; [exact Hc|lia].
    + rewrite Hr, tc_bytes_snoc, <- app_assoc. reflexivity.
Qed.

Lemma in_int64_fits v : in_int64 v = true -> fits 8 v.
Proof. unfold in_int64, fits. rewrite P256_8. lia. Qed.

Lemma int64_to_bytes_spec v : in_int64 v = true -> int64_to_bytes v = tc_enc v.
Proof.
  intro H. unfold int64_to_bytes, tc_enc. destruct (Z.eqb_spec v 0) as [->|Hv]; [reflexivity|].
  destruct (int64_loop_spec 8 v [] ltac:(lia) (in_int64_fits v H)) as (k & _ & Hc & ->).
  rewrite app_nil_r. now rewrite (tc_len_unique k v Hc).
Qed.

(* ---- Uint64ToBytes: the same loop on a non-negative value, 9 slots ---- *)
Lemma uint64_loop_int64 n : forall v acc,
  uint64_loop n v acc = int64_loop n 0%Z (Z.of_N v) acc.
Proof.
  induction n as [|m IH]; intros v acc; [reflexivity|].
  cbn [uint64_loop int64_loop]. rewrite zland_m128, zland255, zshiftr8, nland255, nshiftr8.
  rewrite land128 by (apply N.mod_lt; discriminate).
  replace (Z.to_N (Z.of_N v mod 256)) with (v mod 256) by lia.
  replace (128 * (Z.of_N v / 128) =? 0)%Z with ((v / 256 =? 0) && (v mod 256 <? 128)) by lia.
  destruct ((v / 256 =? 0) && (v mod 256 <? 128)); [reflexivity|].
  rewrite IH. f_equal. lia.
Qed.

Lemma uint64_to_bytes_spec v : v < 2 ^ 64 -> uint64_to_bytes v = tc_enc (Z.of_N v).
Proof.
  intro H. unfold uint64_to_bytes, tc_enc. destruct (N.eqb_spec v 0) as [->|Hv]; [reflexivity|].
  rewrite uint64_loop_int64.
  assert (Hf : fits 9 (Z.of_N v)) by (unfold fits; rewrite P256_9; lia).
  destruct (int64_loop_spec 9 (Z.of_N v) [] ltac:(lia) Hf) as (k & _ & Hc & Hr).
  replace (Z.of_N v <? 0)%Z with false in Hr by lia.
  rewrite Hr, app_nil_r. now rewrite (tc_len_unique k _ Hc).
Qed.

(* ---- SizeToBytes: minimal unsigned form ---- *)
Lemma size_loop_spec n : forall v acc, (1 <= n)%nat -> v <> 0 -> v < P256 n ->
  exists k, (1 <= k <= n)%nat /\ ulen k v /\ size_loop n v acc = be_bytes k v ++ acc.
Proof.
  induction n as [|m IH]; intros v acc Hn Hv Hlt; [lia|].
  cbn [size_loop]. rewrite nland255, nshiftr8.
  destruct (N.eqb_spec (v / 256) 0) as [E|E].
  - exists 1%nat. split; [lia|]. split.
    + unfold ulen. rewrite P256_S, P256_0. cbn [Nat.sub]. rewrite P256_0. lia.
    + rewrite be_bytes_snoc. reflexivity.
  - rewrite P256_S in Hlt.
    assert (Hm : (1 <= m)%nat). { destruct m; [rewrite P256_0 in Hlt; lia|lia]. }
    destruct (IH (v / 256) (v mod 256 :: acc) Hm E ltac:(lia)) as (k' & Hk' & (Hu1 & Hu2) & Hr).
    exists (S k'). split; [lia|]. split.
    + unfold ulen. rewrite P256_S. split; [lia|]. right.
      replace (S k' - 1)%nat with (S (k' - 1)) by lia. rewrite P256_S.
      destruct Hu2 as [?|Hu2]; [lia|]. lia.
    + rewrite Hr, be_bytes_snoc, <- app_assoc. reflexivity.
Qed.

Lemma size_to_bytes_spec v : v < 2 ^ 64 ->
  exists k, (1 <= k <= 8)%nat /\ size_to_bytes v = be_bytes k v /\ v < P256 k /\
            (v <> 0 -> P256 (k - 1) <= v).
Proof.
  intro H. unfold size_to_bytes. destruct (N.eqb_spec v 0) as [->|Hv].
  - exists 1%nat. split; [lia|]. split; [reflexivity|]. pose proof (P256_pos 1). split; [lia|congruence].
  - assert (Hlt : v < P256 8) by (rewrite P256_8; exact H).
    destruct (size_loop_spec 8 v [] ltac:(lia) Hv Hlt) as (k & Hk & (Hu1 & Hu2) & ->).
    exists k. rewrite app_nil_r. split; [exact Hk|]. split; [reflexivity|]. split; [exact Hu1|].
    intros _. destruct Hu2; [lia|assumption].
Qed.

Lemma size_to_bytes_nat_bytes v : v <> 0 -> v < 2 ^ 64 -> size_to_bytes v = nat_bytes v.
Proof.
  intros Hv H. destruct (size_to_bytes_spec v H) as (k & Hk & -> & Hlt & Hlo).
  symmetry. apply nat_bytes_of_ulen. split; [exact Hlt|right; auto].
Qed.

Lemma be_val_size_to_bytes v : v < 2 ^ 64 -> be_val (size_to_bytes v) = v.
Proof.
  intro H. destruct (size_to_bytes_spec v H) as (k & _ & -> & Hlt & _).
  rewrite be_val_be_bytes. now apply N.mod_small.
Qed.

(* ---- BigIntToBytes ---- *)
Lemma tc_bytes_nonneg k z : (0 <= z)%Z -> Z.to_N z < P256 k -> tc_bytes k z = be_bytes k (Z.to_N z).
Proof. intros H0 H. rewrite tc_bytes_eq, Z.mod_small by lia. reflexivity. Qed.

Lemma bigint_to_bytes_spec z : bigint_to_bytes z = tc_enc z.
Proof.
  pose proof (tc_len_spec z) as (HK1 & HKf & _). unfold tc_enc.
  destruct z as [|p|p]; [reflexivity| |].
  - cbn [bigint_to_bytes]. set (n := Z.to_N (Z.pos p)).
    apply fits_mag in HKf; [|exact HK1]. rewrite tc_len_eq in *.
    replace (mag (Z.pos p)) with n in * by reflexivity.
    pose proof (nat_bytes_len n) as Hu. rewrite (nat_bytes_of_ulen _ _ Hu).
    rewrite tc_bytes_nonneg by (fold n; lia). fold n.
    destruct (N.eqb_spec (bitlen n mod 8) 0) as [E|E].
    + replace (N.to_nat (bitlen n / 8 + 1)) with (S (N.to_nat ((bitlen n + 7) / 8))) by lia.
      rewrite be_bytes_small_head; [reflexivity|apply Hu].
    + replace (N.to_nat (bitlen n / 8 + 1)) with (N.to_nat ((bitlen n + 7) / 8)) by lia. reflexivity.
  - cbn [bigint_to_bytes]. set (z := Z.neg p) in *. assert (Hz : (z < 0)%Z) by (subst z; lia).
    pose proof HKf as HKm. apply fits_mag in HKm; [|exact HK1]. rewrite tc_len_eq in *.
    replace (Z.abs_N (z + 1)) with (mag z)
      by (apply N2Z.inj; rewrite N2Z.inj_abs_N; unfold mag; destruct (Z.ltb_spec z 0); lia).
    set (K := N.to_nat (bitlen (mag z) / 8 + 1)) in *.
    replace ((bitlen (mag z) + 8) / 8 * 8) with (8 * N.of_nat K) by lia.
    replace (2 ^ Z.of_N (8 * N.of_nat K))%Z with (ZP K)
      by (rewrite P256_two, N2Z.inj_pow; reflexivity).
    unfold fits in HKf. rewrite tc_bytes_eq, zmod_neg by lia. rewrite (Z.add_comm (ZP K) z).
    apply nat_bytes_of_ulen. destruct K as [|j]; [lia|]. unfold ulen.
    replace (S j - 1)%nat with j by lia. rewrite P256_S in *. pose proof (P256_pos j). lia.
Qed.

Lemma int64_eq_bigint v : in_int64 v = true -> int64_to_bytes v = bigint_to_bytes v.
Proof. intro H. now rewrite int64_to_bytes_spec, bigint_to_bytes_spec. Qed.

Lemma uint64_eq_bigint v : v < 2 ^ 64 -> uint64_to_bytes v = bigint_to_bytes (Z.of_N v).
Proof. intro H. now rewrite uint64_to_bytes_spec, bigint_to_bytes_spec. Qed.

(* ================================================================== *)
(* 6. the decoders of intconv/bytes.go                                 *)
(* ================================================================== *)
Lemma bigint_set_bytes_spec bs : bytes_ok bs = true -> bigint_set_bytes bs = tc_val bs.
Proof.
  intro H. destruct bs as [|b r]; [reflexivity|].
  pose proof (be_val_lt _ H) as Hlt. apply bytes_ok_cons in H as [Hb Hr].
  unfold bigint_set_bytes. rewrite tc_val_cons, land128 by exact Hb.
  destruct (N.ltb_spec b 128) as [L|L]; cbn [negb]; [reflexivity|].
  f_equal. cbn [length] in *. pose proof (P256_pos (length r)).
  rewrite (bitlen_unique (be_val (b :: r)) (8 * N.of_nat (S (length r)))).
  - rewrite P256_two, N2Z.inj_pow. reflexivity.
  - lia.
  - rewrite <- P256_two. split; [|exact Hlt].
    replace (8 * N.of_nat (S (length r)) - 1) with (7 + 8 * N.of_nat (length r)) by lia.
    rewrite N.pow_add_r, <- P256_two, be_val_cons. change (2 ^ 7) with 128. nia.
Qed.

Lemma be_val_compl bs : bytes_ok bs = true ->
  be_val (map (fun x => N.lxor x 255) bs) + be_val bs + 1 = P256 (length bs).
Proof.
  induction bs as [|b r IH]; intro H.
  - cbn [map length]. rewrite be_val_nil, P256_0. reflexivity.
  - apply bytes_ok_cons in H as [Hb Hr]. specialize (IH Hr).
    cbn [map length]. rewrite !be_val_cons, map_length, P256_S, lxor255 by exact Hb. nia.
Qed.

Lemma bytes_to_int64_spec bs : bytes_ok bs = true ->
  bytes_to_int64 bs = if Nat.ltb 8 (length bs) then None else Some (tc_val bs).
Proof.
  intro H. destruct bs as [|b r]; [reflexivity|].
  pose proof (be_val_compl _ H) as Hc. pose proof H as H'. apply bytes_ok_cons in H' as [Hb Hr].
  unfold bytes_to_int64. destruct (Nat.ltb 8 (length (b :: r))); [reflexivity|].
  rewrite tc_val_cons, land128 by exact Hb. cbn [length] in *.
  destruct (N.ltb_spec b 128); cbn [negb]; f_equal. lia.
Qed.

Lemma tc_val_int64_range bs : bytes_ok bs = true -> (length bs <= 8)%nat -> in_int64 (tc_val bs) = true.
Proof.
  intros H Hl. destruct bs as [|b r]; [reflexivity|].
  assert (Hf : fits 8 (tc_val (b :: r))).
  { apply (fits_mono (length (b :: r))); [exact Hl|]. apply tc_val_fits; [exact H|discriminate]. }
  unfold fits in Hf. rewrite P256_8 in Hf. unfold in_int64. lia.
Qed.

(* SafeBytesToUint64: an optional leading 0x00, then at most 8 bytes, first byte < 0x80 *)
Lemma bytes_to_uint64_spec bs : bytes_ok bs = true ->
  bytes_to_uint64 bs =
    match bs with
    | [] => Some 0
    | b :: r =>
        if b =? 0 then (if Nat.ltb 8 (length r) then None else Some (be_val bs))
        else if 128 <=? b then None
        else if Nat.ltb 8 (length bs) then None else Some (be_val bs)
    end.
Proof.
  intro H. destruct bs as [|b r]; [reflexivity|]. apply bytes_ok_cons in H as [Hb Hr].
  unfold bytes_to_uint64. rewrite land128 by exact Hb.
  destruct (N.eqb_spec b 0) as [->|Hn].
  - rewrite be_val_cons. replace (0 * P256 (length r) + be_val r) with (be_val r) by lia. reflexivity.
  - destruct (N.ltb_spec b 128), (N.leb_spec 128 b); try lia; reflexivity.
Qed.

Lemma bytes_to_uint64_value bs v : bytes_ok bs = true ->
  bytes_to_uint64 bs = Some v -> Z.of_N v = tc_val bs /\ v < 2 ^ 64.
Proof.
  intros H E. rewrite bytes_to_uint64_spec in E by exact H. destruct bs as [|b r].
  - inversion E; subst. split; reflexivity.
  - pose proof (be_val_lt _ H) as Hlt. pose proof H as H'. apply bytes_ok_cons in H' as [Hb Hr].
    pose proof (be_val_lt _ Hr) as Hlr. rewrite tc_val_cons. cbn [length] in *.
    change (2 ^ 64) with 18446744073709551616. rewrite <- P256_8.
    destruct (N.eqb_spec b 0) as [->|Hn].
    + destruct (Nat.ltb_spec 8 (length r)); [discriminate|]. inversion E; subst. split; [reflexivity|].
      rewrite be_val_cons. pose proof (P256_le (length r) 8). lia.
    + destruct (N.leb_spec 128 b); [discriminate|].
      destruct (Nat.ltb_spec 8 (S (length r))); [discriminate|]. inversion E; subst.
      replace (b <? 128) with true by lia. split; [reflexivity|].
      pose proof (P256_le (S (length r)) 8). lia.
Qed.

(* accept / reject sets *)
Lemma bytes_to_int64_reject bs : bytes_to_int64 bs = None <-> (8 < length bs)%nat.
Proof.
  destruct bs as [|b r]; [cbn; split; [discriminate|lia]|].
  unfold bytes_to_int64. destruct (Nat.ltb_spec 8 (length (b :: r))).
  - tauto.
  - destruct (negb (N.land b 128 =? 0)); split; (discriminate || lia).
Qed.

Lemma bytes_to_size64_reject bs : bytes_to_size64 bs = None <-> (8 < length bs)%nat.
Proof.
  destruct bs as [|b r]; [cbn; split; [discriminate|lia]|].
  unfold bytes_to_size64. destruct (Nat.ltb_spec 8 (length (b :: r))); split; (tauto || discriminate || lia).
Qed.

Lemma bytes_to_size64_value bs : (length bs <= 8)%nat -> bytes_to_size64 bs = Some (be_val bs).
Proof.
  intro H. destruct bs as [|b r]; [reflexivity|]. unfold bytes_to_size64.
  destruct (Nat.ltb_spec 8 (length (b :: r))); [lia|reflexivity].
Qed.

Lemma bytes_to_uint64_reject bs : bytes_ok bs = true ->
  bytes_to_uint64 bs = None <->
  exists b r, bs = b :: r /\
    (128 <= b \/ (b = 0 /\ (8 < length r)%nat) \/ (0 < b < 128 /\ (8 < length bs)%nat)).
Proof.
  intro H. rewrite bytes_to_uint64_spec by exact H. destruct bs as [|b r].
  - split; [discriminate|]. intros (b & r & E & _). discriminate.
  - split.
    + intro E. exists b, r. split; [reflexivity|].
      destruct (N.eqb_spec b 0) as [->|Hn].
      * destruct (Nat.ltb_spec 8 (length r)); [|discriminate]. right. left. lia.
      * destruct (N.leb_spec 128 b); [left; lia|].
        destruct (Nat.ltb_spec 8 (length (b :: r))); [|discriminate]. right. right. lia.
    + intros (b' & r' & E & Hc). inversion E; subst b' r'.
      destruct (N.eqb_spec b 0) as [->|Hn].
      * destruct (Nat.ltb_spec 8 (length r)); [reflexivity|]. lia.
      * destruct (N.leb_spec 128 b); [reflexivity|].
        destruct (Nat.ltb_spec 8 (length (b :: r))); [reflexivity|]. lia.
Qed.

(* ---- round trips ---- *)
Lemma bigint_roundtrip z : bigint_set_bytes (bigint_to_bytes z) = z.
Proof.
  rewrite bigint_to_bytes_spec, bigint_set_bytes_spec by apply tc_enc_ok. apply tc_val_enc.
Qed.

Lemma tc_len_int64 v : in_int64 v = true -> (tc_len v <= 8)%nat.
Proof.
  intro H. pose proof (tc_len_spec v) as (H1 & _ & Hm).
  destruct Hm as [->|Hn]; [lia|]. destruct (le_lt_dec (tc_len v) 8); [assumption|].
  exfalso. apply Hn. apply (fits_mono 8); [lia|]. now apply in_int64_fits.
Qed.

Lemma int64_roundtrip v : in_int64 v = true -> bytes_to_int64 (int64_to_bytes v) = Some v.
Proof.
  intro H. rewrite int64_to_bytes_spec by exact H.
  rewrite bytes_to_int64_spec by apply tc_enc_ok. rewrite tc_enc_length, tc_val_enc.
  pose proof (tc_len_int64 v H). destruct (Nat.ltb_spec 8 (tc_len v)); [lia|reflexivity].
Qed.

Lemma tc_len_uint64 v : v < 2 ^ 64 -> (tc_len (Z.of_N v) <= 9)%nat.
Proof.
  intro H. pose proof (tc_len_spec (Z.of_N v)) as (H1 & _ & Hm).
  destruct Hm as [->|Hn]; [lia|]. destruct (le_lt_dec (tc_len (Z.of_N v)) 9); [assumption|].
  exfalso. apply Hn. apply (fits_mono 9); [lia|]. unfold fits. rewrite P256_9. lia.
Qed.

Lemma uint64_roundtrip v : v < 2 ^ 64 -> bytes_to_uint64 (uint64_to_bytes v) = Some v.
Proof.
  intro H. rewrite uint64_to_bytes_spec by exact H. set (z := Z.of_N v).
  pose proof (tc_enc_ok z) as Hok. pose proof (tc_val_enc z) as Hv. pose proof (tc_enc_length z) as Hl.
  pose proof (tc_enc_nonredundant z) as Hr. pose proof (tc_len_uint64 v H) as H9. fold z in H9.
  rewrite bytes_to_uint64_spec by exact Hok.
  destruct (tc_enc z) as [|b r] eqn:E; [now apply tc_enc_nonempty in E|].
  pose proof (be_val_lt _ Hok) as Hlt. apply bytes_ok_cons in Hok as [Hb Hrr].
  rewrite tc_val_cons in Hv. cbn [length] in *.
  destruct (N.ltb_spec b 128) as [L|L]; [|subst z; lia].
  replace (128 <=? b) with false by lia.
  destruct (N.eqb_spec b 0) as [->|Hn].
  - destruct (Nat.ltb_spec 8 (length r)); [lia|]. f_equal. subst z. lia.
  - destruct (Nat.ltb_spec 8 (S (length r))) as [L9|L9]; [|f_equal; subst z; lia].
    (* 9 bytes with a first byte in 1..127 would be >= 2^64 *)
    exfalso. assert (length r = 8%nat) by lia. rewrite be_val_cons in Hv. rewrite H0, P256_8 in *. subst z. lia.
Qed.

Lemma size_roundtrip v : v < 2 ^ 64 -> bytes_to_size64 (size_to_bytes v) = Some v.
Proof.
  intro H. destruct (size_to_bytes_spec v H) as (k & Hk & E & Hlt & _).
  rewrite bytes_to_size64_value by (rewrite E, be_bytes_length; lia).
  now rewrite be_val_size_to_bytes.
Qed.

(* ================================================================== *)
(* 7. minimality / uniqueness of BigIntToBytes                         *)
(* ================================================================== *)
Lemma bigint_to_bytes_ok z : bytes_ok (bigint_to_bytes z) = true.
Proof. rewrite bigint_to_bytes_spec. apply tc_enc_ok. Qed.

Lemma bigint_to_bytes_nonempty z : bigint_to_bytes z <> [].
Proof. rewrite bigint_to_bytes_spec. apply tc_enc_nonempty. Qed.

Lemma bigint_to_bytes_length z : length (bigint_to_bytes z) = tc_len z.
Proof. rewrite bigint_to_bytes_spec. apply tc_enc_length. Qed.

Lemma bigint_nonredundant z : redundant (bigint_to_bytes z) = false.
Proof. rewrite bigint_to_bytes_spec. apply tc_enc_nonredundant. Qed.

Lemma bigint_first_byte z b0 b1 r : bigint_to_bytes z = b0 :: b1 :: r ->
  ~ (b0 = 0 /\ b1 < 128) /\ ~ (b0 = 255 /\ 128 <= b1).
Proof.
  intro E. pose proof (bigint_nonredundant z) as H. rewrite E in H. cbn [redundant] in H. lia.
Qed.

Lemma bigint_minimal z bs : bytes_ok bs = true -> bs <> [] -> bigint_set_bytes bs = z ->
  (length (bigint_to_bytes z) <= length bs)%nat.
Proof.
  intros Hok Hne Hv. rewrite bigint_set_bytes_spec in Hv by exact Hok.
  rewrite bigint_to_bytes_length. apply (canon_bytes_shortest _ z bs (tc_len_spec z) Hok Hne Hv).
Qed.

Lemma bigint_shorter_differs z bs : bytes_ok bs = true -> bs <> [] ->
  (length bs < length (bigint_to_bytes z))%nat -> bigint_set_bytes bs <> z.
Proof. intros Hok Hne Hl Hv. pose proof (bigint_minimal z bs Hok Hne Hv). lia. Qed.

Lemma bigint_same_length_unique z bs : bytes_ok bs = true -> bigint_set_bytes bs = z ->
  length bs = length (bigint_to_bytes z) -> bs = bigint_to_bytes z.
Proof.
  intros Hok Hv Hl. rewrite bigint_set_bytes_spec in Hv by exact Hok.
  rewrite bigint_to_bytes_length in Hl. rewrite bigint_to_bytes_spec.
  apply (canon_bytes_unique _ z bs (tc_len_spec z) Hok Hv Hl).
Qed.

Lemma bigint_canonical_iff bs : bytes_ok bs = true ->
  bigint_to_bytes (bigint_set_bytes bs) = bs <-> bs <> [] /\ redundant bs = false.
Proof.
  intro Hok. rewrite bigint_set_bytes_spec by exact Hok. rewrite bigint_to_bytes_spec. split.
  - intro E. rewrite <- E. split; [apply tc_enc_nonempty|apply tc_enc_nonredundant].
  - intros [Hne Hr]. symmetry.
    apply (nonredundant_unique _ _ bs (tc_len_spec _) Hok Hne Hr eq_refl).
Qed.

(* ================================================================== *)
(* 8. hex text layer                                                   *)
(* ================================================================== *)
Definition is_lhex (c : N) : bool := ((48 <=? c) && (c <=? 57)) || ((97 <=? c) && (c <=? 102)).

Definition digits_val (b : N) (ds : bytes) (acc : N) : N :=
  fold_left (fun a c => a * b + big_digit_val c) ds acc.

(* the digits after "0x" produced by encodeHexNumber *)
Definition hex_strip (b : bytes) : bytes :=
  match hex_encode b with
  | [] => [c_0]
  | c :: r => if c =? c_0 then r else c :: r
  end.

(* encodeHexNumber ignores neg when the byte string is empty ("0x0") *)
Lemma encode_hex_number_eq (neg : bool) b : (neg = true -> b <> []) ->
  encode_hex_number neg b = (if neg then [c_minus] else []) ++ c_0 :: c_x :: hex_strip b.
Proof.
  intro H. unfold encode_hex_number, hex_strip. destruct b as [|x r].
  - destruct neg; [now specialize (H eq_refl)|reflexivity].
  - cbn [hex_encode]. destruct neg; reflexivity.
Qed.

Lemma nat_bytes_nonempty n : n <> 0 -> nat_bytes n <> [].
Proof. intros Hn E. apply Hn. rewrite <- (be_val_nat_bytes n), E. reflexivity. Qed.

Lemma size_to_bytes_nonempty v : v < 2 ^ 64 -> size_to_bytes v <> [].
Proof.
  intros H E. destruct (size_to_bytes_spec v H) as (k & Hk & Ek & _). rewrite Ek in E.
  apply (f_equal (@length N)) in E. rewrite be_bytes_length in E. cbn in E. lia.
Qed.

Lemma hexdigit_facts d : d < 16 ->
  is_lhex (hexdigit d) = true /\ big_digit_val (hexdigit d) = d /\ ((hexdigit d =? c_0) = (d =? 0)).
Proof.
  intro H.
  assert (E : (is_lhex (hexdigit d) && (big_digit_val (hexdigit d) =? d)
               && Bool.eqb (hexdigit d =? c_0) (d =? 0)) = true).
  { apply (N_lt_forallb 16 (fun d => is_lhex (hexdigit d) && (big_digit_val (hexdigit d) =? d)
               && Bool.eqb (hexdigit d =? c_0) (d =? 0))); [vm_compute; reflexivity|exact H]. }
  apply andb_true_iff in E as [E E3]. apply andb_true_iff in E as [E1 E2].
  split; [exact E1|]. split; [now apply N.eqb_eq|now apply Bool.eqb_prop].
Qed.

(* what the three digit readers do with a lower-case hex digit *)
Definition strconv_digit (c : N) : option N :=
  if (c_0 <=? c) && (c <=? c_9) then Some (c - c_0)
  else if (c_a <=? lower c) && (lower c <=? c_z) then Some (lower c - c_a + 10)
  else None.

Lemma lhex_facts c : is_lhex c = true ->
  (c =? c_us) = false /\ big_digit_val c < 16 /\ strconv_digit c = Some (big_digit_val c).
Proof.
  intro H. assert (Hc : c < 256) by (unfold is_lhex in H; lia).
  assert (E : implb (is_lhex c) (negb (c =? c_us) && (big_digit_val c <? 16)
               && match strconv_digit c with Some d => d =? big_digit_val c | None => false end) = true).
  { apply (N_lt_forallb 256 (fun c => implb (is_lhex c) (negb (c =? c_us) && (big_digit_val c <? 16)
               && match strconv_digit c with Some d => d =? big_digit_val c | None => false end)));
      [vm_compute; reflexivity|exact Hc]. }
  rewrite H in E. cbn [implb] in E.
  apply andb_true_iff in E as [E E3]. apply andb_true_iff in E as [E1 E2].
  split; [now apply negb_true_iff|]. split; [now apply N.ltb_lt|].
  destruct (strconv_digit c); [|discriminate]. apply N.eqb_eq in E3. now subst.
Qed.

Lemma hex_encode_lhex bs : bytes_ok bs = true -> forallb is_lhex (hex_encode bs) = true.
Proof.
  induction bs as [|b r IH]; intro H; [reflexivity|]. apply bytes_ok_cons in H as [Hb Hr].
  cbn [hex_encode forallb]. rewrite (IH Hr).
  destruct (hexdigit_facts (b / 16)) as (-> & _); [lia|].
  destruct (hexdigit_facts (b mod 16)) as (-> & _); [lia|]. reflexivity.
Qed.

Lemma digits_val_hex_encode bs : forall acc, bytes_ok bs = true ->
  digits_val 16 (hex_encode bs) acc = acc * P256 (length bs) + be_val bs.
Proof.
  induction bs as [|b r IH]; intros acc H.
  - cbn [hex_encode length]. unfold digits_val. cbn [fold_left]. rewrite P256_0, be_val_nil. lia.
  - apply bytes_ok_cons in H as [Hb Hr]. cbn [hex_encode length]. unfold digits_val in *. cbn [fold_left].
    rewrite (IH _ Hr).
    destruct (hexdigit_facts (b / 16)) as (_ & -> & _); [lia|].
    destruct (hexdigit_facts (b mod 16)) as (_ & -> & _); [lia|].
    rewrite be_val_cons, P256_S.
    replace ((acc * 16 + b / 16) * 16 + b mod 16) with (acc * 256 + b) by lia. ring.
Qed.

Lemma hex_strip_props b : bytes_ok b = true ->
  hex_strip b <> [] /\ forallb is_lhex (hex_strip b) = true /\ digits_val 16 (hex_strip b) 0 = be_val b.
Proof.
  intro H. pose proof (hex_encode_lhex b H) as Hl. pose proof (digits_val_hex_encode b 0 H) as Hd.
  rewrite N.mul_0_l, N.add_0_l in Hd. unfold hex_strip. destruct b as [|x r]; [repeat split; discriminate|].
  apply bytes_ok_cons in H as [Hx Hr]. cbn [hex_encode] in *.
  destruct (hexdigit_facts (x / 16)) as (_ & Hv & Hz); [lia|].
  rewrite Hz. destruct (N.eqb_spec (x / 16) 0) as [E|E].
  - split; [discriminate|]. cbn [forallb] in Hl. apply andb_true_iff in Hl as [_ Hl].
    split; [exact Hl|]. rewrite <- Hd. unfold digits_val. cbn [fold_left]. rewrite Hv, E. reflexivity.
  - split; [discriminate|]. split; [exact Hl|]. exact Hd.
Qed.

(* ---- math/big scanner on lower-case hex digits ---- *)
Lemma scan_loop_hex ds : forall pv inval count acc, forallb is_lhex ds = true ->
  scan_loop true 16 ds pv inval count acc =
  {| sc_acc := digits_val 16 ds acc; sc_count := count + N.of_nat (length ds);
     sc_prev := match ds with [] => pv | _ => PDigit end; sc_inval := inval; sc_rest := [] |}.
Proof.
  induction ds as [|c r IH]; intros pv inval count acc H.
  - cbn [scan_loop length digits_val fold_left]. f_equal. lia.
  - cbn [forallb] in H. apply andb_true_iff in H as [Hc Hr].
    destruct (lhex_facts c Hc) as (Hus & Hlt & _).
    cbn [scan_loop]. rewrite Hus. cbn [andb].
    replace (16 <=? big_digit_val c) with false by lia.
    rewrite (IH _ _ _ _ Hr). unfold digits_val. cbn [fold_left length]. f_equal; [lia|].
    destruct r; reflexivity.
Qed.

Lemma nat_scan_0x ds : nat_scan 0 (c_0 :: c_x :: ds) = scan_finish false (scan_loop true 16 ds PDigit false 0 0).
Proof. reflexivity. Qed.

Lemma big_set_string_0x (neg : bool) ds : ds <> [] -> forallb is_lhex ds = true ->
  big_set_string ((if neg then [c_minus] else []) ++ c_0 :: c_x :: ds) 0 =
  Some (if neg then (- Z.of_N (digits_val 16 ds 0))%Z else Z.of_N (digits_val 16 ds 0)).
Proof.
  intros Hne Hl.
  assert (E : nat_scan 0 (c_0 :: c_x :: ds) = Some (digits_val 16 ds 0, [])).
  { rewrite nat_scan_0x, (scan_loop_hex ds _ _ _ _ Hl). unfold scan_finish.
    cbn [sc_inval sc_prev sc_count sc_acc sc_rest orb].
    destruct ds as [|d r]; [congruence|]. cbn [prev_is_sep length].
    replace (0 + N.of_nat (S (length r)) =? 0) with false by lia. reflexivity. }
  destruct neg; cbn [app]; unfold big_set_string.
  - change (c_minus =? c_minus) with true. cbn [orb]. rewrite E. reflexivity.
  - change (c_0 =? c_minus) with false. change (c_0 =? c_plus) with false. cbn [orb]. rewrite E. reflexivity.
Qed.

Lemma parse_bigint_0x (neg : bool) ds :
  parse_bigint ((if neg then [c_minus] else []) ++ c_0 :: c_x :: ds) =
  big_set_string ((if neg then [c_minus] else []) ++ c_0 :: c_x :: ds) 0.
Proof. destruct neg; reflexivity. Qed.

Lemma bigint_hex_roundtrip z : parse_bigint (format_bigint z) = Some z.
Proof.
  unfold format_bigint.
  rewrite encode_hex_number_eq by (intro L; apply nat_bytes_nonempty; lia).
  rewrite parse_bigint_0x.
  destruct (hex_strip_props (nat_bytes (Z.abs_N z)) (nat_bytes_ok _)) as (Hne & Hl & Hv).
  rewrite (big_set_string_0x _ _ Hne Hl), Hv, be_val_nat_bytes, N2Z.inj_abs_N. f_equal.
  destruct (Z.ltb_spec z 0); lia.
Qed.

(* ---- strconv on lower-case hex digits ---- *)
Lemma digits_val_ge b ds : forall acc, 1 <= b -> acc <= digits_val b ds acc.
Proof.
  induction ds as [|c r IH]; intros acc Hb; unfold digits_val in *; cbn [fold_left]; [lia|].
  specialize (IH (acc * b + big_digit_val c) Hb). nia.
Qed.

Lemma parse_uint_loop_hex maxval ds : forall n us, forallb is_lhex ds = true ->
  maxval <= max_uint64 -> digits_val 16 ds n <= maxval ->
  parse_uint_loop 16 (max_uint64 / 16 + 1) maxval ds n us = Some (digits_val 16 ds n, us).
Proof.
  induction ds as [|c r IH]; intros n us H Hm Hv; [reflexivity|].
  cbn [forallb] in H. apply andb_true_iff in H as [Hc Hr].
  destruct (lhex_facts c Hc) as (Hus & Hlt & Hd). unfold strconv_digit in Hd.
  unfold digits_val in Hv. cbn [fold_left] in Hv. fold (digits_val 16 r (n * 16 + big_digit_val c)) in Hv.
  pose proof (digits_val_ge 16 r (n * 16 + big_digit_val c) ltac:(lia)) as Hge.
  cbn [parse_uint_loop]. rewrite Hus, Hd.
  replace (16 <=? big_digit_val c) with false by lia.
  assert (Hn : n <= max_uint64 / 16) by (apply N.div_le_lower_bound; lia).
  replace (max_uint64 / 16 + 1 <=? n) with false by lia.
  replace (maxval <? n * 16 + big_digit_val c) with false by lia.
  rewrite (IH _ _ Hr Hm Hv). reflexivity.
Qed.

Lemma parse_uint_0x ds bits : ds <> [] -> forallb is_lhex ds = true -> bits <= 64 ->
  digits_val 16 ds 0 <= 2 ^ bits - 1 ->
  parse_uint (c_0 :: c_x :: ds) bits = Some (digits_val 16 ds 0).
Proof.
  intros Hne Hl Hb Hv. destruct ds as [|d r]; [congruence|].
  assert (Hm : 2 ^ bits - 1 <= max_uint64).
  { unfold max_uint64. pose proof (pow2_le bits 64 Hb). lia. }
  pose proof (parse_uint_loop_hex (2 ^ bits - 1) (d :: r) 0 false Hl Hm Hv) as E.
  unfold parse_uint. change (c_0 =? c_0) with true. cbv iota beta.
  change (Nat.leb 3 (length (c_0 :: c_x :: d :: r))) with true.
  change (lower c_x =? c_b) with false. change (lower c_x =? c_o) with false.
  change (lower c_x =? c_x) with true. cbn [andb]. cbv iota beta. rewrite E. reflexivity.
Qed.

Lemma format_uint_roundtrip v bits : bits <= 64 -> v < 2 ^ bits ->
  parse_uint (format_uint v) bits = Some v.
Proof.
  intros Hb Hv. assert (H64 : v < 2 ^ 64) by (pose proof (pow2_le bits 64 Hb); lia).
  unfold format_uint. rewrite encode_hex_number_eq by discriminate. cbn [app].
  assert (Hok : bytes_ok (size_to_bytes v) = true).
  { destruct (size_to_bytes_spec v H64) as (k & _ & -> & _). apply be_bytes_ok. }
  destruct (hex_strip_props _ Hok) as (Hne & Hl & Hd). rewrite be_val_size_to_bytes in Hd by exact H64.
  rewrite (parse_uint_0x _ bits Hne Hl Hb); rewrite Hd; [reflexivity|lia].
Qed.

Lemma format_int_roundtrip v bits : 1 <= bits <= 64 -> in_intn bits v = true ->
  parse_int (format_int v) bits = Some v.
Proof.
  intros Hb Hv. unfold in_intn in Hv.
  assert (Hp : (2 ^ (Z.of_N bits - 1) = Z.of_N (2 ^ (bits - 1)))%Z).
  { rewrite N2Z.inj_pow. f_equal. lia. }
  rewrite Hp in Hv. clear Hp.
  assert (Hpp : 2 ^ bits = 2 * 2 ^ (bits - 1)).
  { replace bits with (bits - 1 + 1) at 1 by lia. rewrite N.pow_add_r. change (2 ^ 1) with 2. lia. }
  pose proof (pow2_le bits 64 ltac:(lia)) as H64.
  set (a := Z.abs_N v). assert (Ha : Z.of_N a = Z.abs v) by (subst a; apply N2Z.inj_abs_N).
  assert (Ha64 : a < 2 ^ 64) by lia.
  unfold format_int. fold a. rewrite encode_hex_number_eq by (intros _; now apply size_to_bytes_nonempty).
  assert (Hok : bytes_ok (size_to_bytes a) = true).
  { destruct (size_to_bytes_spec a Ha64) as (k & _ & -> & _). apply be_bytes_ok. }
  destruct (hex_strip_props _ Hok) as (Hne & Hl & Hd). rewrite be_val_size_to_bytes in Hd by exact Ha64.
  assert (E : parse_uint (c_0 :: c_x :: hex_strip (size_to_bytes a)) bits = Some a).
  { rewrite (parse_uint_0x _ bits Hne Hl ltac:(lia)); rewrite Hd; [reflexivity|lia]. }
  destruct (Z.ltb_spec v 0) as [L|L]; cbn [app]; unfold parse_int.
  - change (c_minus =? c_minus) with true. change (c_minus =? c_plus) with false. cbn [orb negb andb].
    rewrite E. replace (2 ^ (bits - 1) <? a) with false by lia. f_equal. lia.
  - change (c_0 =? c_minus) with false. change (c_0 =? c_plus) with false. cbn [orb negb andb].
    rewrite E. replace (2 ^ (bits - 1) <=? a) with false by lia. f_equal. lia.
Qed.

(* shape of the produced text: optional '-', "0x", lower-case hex digits *)
Lemma format_bigint_shape z : exists ds,
  format_bigint z = (if (z <? 0)%Z then [c_minus] else []) ++ c_0 :: c_x :: ds /\
  ds <> [] /\ forallb is_lhex ds = true /\ digits_val 16 ds 0 = Z.abs_N z.
Proof.
  exists (hex_strip (nat_bytes (Z.abs_N z))). unfold format_bigint.
  rewrite encode_hex_number_eq by (intro L; apply nat_bytes_nonempty; lia).
  destruct (hex_strip_props (nat_bytes (Z.abs_N z)) (nat_bytes_ok _)) as (Hne & Hl & Hv).
  rewrite be_val_nat_bytes in Hv. auto.
Qed.

(* ================================================================== *)
(* 9. statements used by Prop_C24 and non-vacuity examples             *)
(* ================================================================== *)
Lemma bigint_minimal_unique z bs : bytes_ok bs = true -> bs <> [] -> bigint_set_bytes bs = z ->
  (length (bigint_to_bytes z) <= length bs)%nat /\
  (length bs = length (bigint_to_bytes z) -> bs = bigint_to_bytes z).
Proof.
  intros Hok Hne Hv. split; [now apply bigint_minimal|]. intro Hl. now apply bigint_same_length_unique.
Qed.

Lemma bigint_closed_form z :
  bigint_to_bytes z = tc_bytes (tc_len z) z /\ tc_val (bigint_to_bytes z) = z /\
  length (bigint_to_bytes z) = tc_len z.
Proof.
  rewrite bigint_to_bytes_spec. split; [reflexivity|]. split; [apply tc_val_enc|apply tc_enc_length].
Qed.

Lemma int64_decoder bs : bytes_ok bs = true ->
  (bytes_to_int64 bs = None <-> (8 < length bs)%nat) /\
  (forall v, bytes_to_int64 bs = Some v -> v = bigint_set_bytes bs /\ in_int64 v = true).
Proof.
  intro H. split; [apply bytes_to_int64_reject|]. intros v E.
  rewrite bytes_to_int64_spec in E by exact H. rewrite bigint_set_bytes_spec by exact H.
  destruct (Nat.ltb_spec 8 (length bs)); [discriminate|]. inversion E; subst.
  split; [reflexivity|]. apply tc_val_int64_range; [exact H|lia].
Qed.

Lemma uint64_decoder bs : bytes_ok bs = true ->
  (bytes_to_uint64 bs = None <->
     exists b r, bs = b :: r /\
       (128 <= b \/ (b = 0 /\ (8 < length r)%nat) \/ (0 < b < 128 /\ (8 < length bs)%nat))) /\
  (forall v, bytes_to_uint64 bs = Some v -> Z.of_N v = bigint_set_bytes bs /\ v < 2 ^ 64).
Proof.
  intro H. split; [now apply bytes_to_uint64_reject|]. intros v E.
  rewrite bigint_set_bytes_spec by exact H. now apply bytes_to_uint64_value.
Qed.

Lemma size64_decoder bs :
  (bytes_to_size64 bs = None <-> (8 < length bs)%nat) /\
  ((length bs <= 8)%nat -> bytes_to_size64 bs = Some (be_val bs)).
Proof. split; [apply bytes_to_size64_reject|apply bytes_to_size64_value]. Qed.

Lemma empty_decodes_zero :
  bigint_set_bytes [] = 0%Z /\ bytes_to_int64 [] = Some 0%Z /\ bytes_to_uint64 [] = Some 0 /\
  bytes_to_size64 [] = Some 0 /\ bigint_to_bytes 0 = [0].
Proof. repeat split. Qed.

(* boundary encodings, as in the Go code *)
Example ex_bigint_boundaries :
  bigint_to_bytes 0 = [0] /\ bigint_to_bytes (-1) = [255] /\
  bigint_to_bytes 127 = [127] /\ bigint_to_bytes 128 = [0; 128] /\
  bigint_to_bytes (-128) = [128] /\ bigint_to_bytes (-129) = [255; 127] /\
  bigint_to_bytes 255 = [0; 255] /\ bigint_to_bytes 256 = [1; 0] /\
  bigint_to_bytes (-256) = [255; 0] /\ bigint_to_bytes (-32768) = [128; 0] /\
  bigint_to_bytes (-32769) = [255; 127; 255] /\ bigint_to_bytes 32768 = [0; 128; 0].
Proof. vm_compute. repeat split. Qed.

Example ex_int64_range :
  in_int64 (-9223372036854775808) = true /\ in_int64 9223372036854775807 = true /\
  int64_to_bytes (-9223372036854775808) = [128; 0; 0; 0; 0; 0; 0; 0] /\
  int64_to_bytes 9223372036854775807 = [127; 255; 255; 255; 255; 255; 255; 255] /\
  in_int64 9223372036854775808 = false.
Proof. vm_compute. repeat split. Qed.

Example ex_uint64_range :
  18446744073709551615 < 2 ^ 64 /\
  uint64_to_bytes 18446744073709551615 = [0; 255; 255; 255; 255; 255; 255; 255; 255] /\
  size_to_bytes 18446744073709551615 = [255; 255; 255; 255; 255; 255; 255; 255] /\
  bytes_to_uint64 [0; 255; 255; 255; 255; 255; 255; 255; 255] = Some 18446744073709551615 /\
  bytes_to_uint64 [1; 0; 0; 0; 0; 0; 0; 0; 0] = None /\
  bytes_to_uint64 [128] = None /\ bytes_to_uint64 [0; 128] = Some 128.
Proof. vm_compute. repeat split. Qed.

(* hypotheses of the minimality theorems are satisfiable; decoders accept non-minimal input *)
Example ex_minimal :
  bytes_ok [0; 0; 128] = true /\ [0; 0; 128] <> [] /\ bigint_set_bytes [0; 0; 128] = 128%Z /\
  length (bigint_to_bytes 128) = 2%nat /\ redundant [0; 0; 128] = true /\
  bigint_set_bytes [127] <> 128%Z /\ (length [127] < length (bigint_to_bytes 128))%nat /\
  bigint_set_bytes [255; 255] = (-1)%Z /\ bytes_to_int64 [255; 255; 128] = Some (-128)%Z /\
  bytes_to_int64 [0; 0; 0; 0; 0; 0; 0; 0; 1] = None.
Proof. vm_compute. repeat split; try discriminate; auto with arith. Qed.

Example ex_hex :
  format_bigint (-255) = [45; 48; 120; 102; 102] /\               (* "-0xff" *)
  format_bigint 0 = [48; 120; 48] /\                                (* "0x0" *)
  format_int (-9223372036854775808) = [45;48;120;56;48;48;48;48;48;48;48;48;48;48;48;48;48;48;48] /\
  in_intn 16 (-32768) = true /\ in_intn 16 32768 = false /\
  parse_int [45; 48; 120; 56; 48; 48; 48] 16 = Some (-32768)%Z /\  (* "-0x8000" *)
  parse_int [48; 120; 56; 48; 48; 48] 16 = None /\                 (* "0x8000" at 16 bits *)
  parse_bigint [] = None /\                                         (* "" *)
  parse_bigint [48; 120] = None /\                                  (* "0x" *)
  parse_bigint [48; 88; 102] = None /\                              (* "0Xf" *)
  parse_bigint [48; 120; 70; 102] = Some 255%Z /\                   (* "0xFf": upper-case digits accepted *)
  parse_bigint [48; 120; 48; 48; 102] = Some 15%Z /\                (* "0x00f": leading zeros accepted *)
  parse_bigint [102; 102] = None /\                                 (* "ff": no prefix means decimal *)
  parse_bigint [49; 50] = Some 12%Z /\                              (* "12" *)
  parse_bigint [48; 49; 55] = Some 17%Z /\                          (* "017" is decimal for HexInt ... *)
  parse_int [48; 49; 55] 64 = Some 15%Z /\                          (* ... but octal for HexInt64 *)
  parse_bigint [43; 48; 88; 102] = Some 15%Z /\                     (* "+0Xf" slips past the prefix filter *)
  parse_bigint [43; 48; 49; 55] = Some 15%Z.                        (* "+017" is octal *)
Proof. vm_compute. repeat split. Qed.

Lemma bigint_wellformed z :
  bigint_to_bytes z <> [] /\ bytes_ok (bigint_to_bytes z) = true /\ redundant (bigint_to_bytes z) = false.
Proof. exact (conj (bigint_to_bytes_nonempty z) (conj (bigint_to_bytes_ok z) (bigint_nonredundant z))). Qed.
