(* Property C09 — Parallel transaction execution is equivalent to sequential
   execution.  This file holds only the property theorems; proofs are in
   Proofs_VirtualState_Seq.v / Proofs_VirtualState_Inv.v / Proofs_VirtualState.v.

   exec level w0 txs sched  = the state of the small-step model of
     executeTxsConcurrent (dispatcher + one worker per transaction over the chain
     of virtual states of worldvirtualstate.go) after the schedule sched, started
     with concurrency level `level` on the world w0;
   complete g               = executeTxsConcurrent has returned;
   seq_world / observed_seq = executeTxsSequential: the transactions one by one in
     block order;
   Fail k (in a program)    = the attempt ends with a retryable error: the executor
     resets the state (Reset) and runs k; sequentially: the world goes back to the
     one the transaction started from;
   well_declared t          = the program of t reads / writes only accounts covered
     by the lock requests of t;
   no_world_read t          = t does not request {WorldIDStr, AccountReadLock}. *)
From Coq Require Import List Arith ZArith.
From Goloop Require Import Model_VirtualState Proofs_VirtualState_Seq Proofs_VirtualState_Inv Proofs_VirtualState.
Import ListNotations.

(* for ALL transaction lists (arbitrary programs that touch only what they
   declared, account read / write locks and world WRITE locks), all levels and
   ALL schedules under which the function returns: final world and every receipt
   are those of sequential execution *)
Theorem C09_serializable : forall level w0 txs sched,
  Forall well_declared txs -> Forall no_world_read txs ->
  complete (exec level w0 txs sched) = true ->
  exists w, g_final (exec level w0 txs sched) = Some w /\
    (forall a, w a = seq_world txs w0 a) /\
    forall i, i < length txs -> g_rcts (exec level w0 txs sched) i = observed_seq txs w0 i.
Proof. exact serializable. Qed.
Print Assumptions C09_serializable.

(* a transaction observes, for each account, exactly the value after all earlier
   transactions in block order that write-lock that account *)
Theorem C09_sees_prefix : forall level w0 txs sched,
  Forall well_declared txs -> Forall no_world_read txs ->
  complete (exec level w0 txs sched) = true ->
  forall i t, nth_error txs i = Some t ->
    g_rcts (exec level w0 txs sched) i = Some (snd (run_prog (tx_prog t) (prefix_view txs w0 i))).
Proof. exact sees_prefix. Qed.
Print Assumptions C09_sees_prefix.

(* after every schedule, until the function has returned, some goroutine can take
   a step (also with world read locks) *)
Theorem C09_no_deadlock : forall level w0 txs sched,
  level <> 0 -> Forall well_declared txs ->
  complete (exec level w0 txs sched) = false ->
  exists a, In a (actors txs) /\ can_step txs (exec level w0 txs sched) a = true.
Proof. exact no_deadlock. Qed.
Print Assumptions C09_no_deadlock.

(* a retried transaction's effects equal a fresh run: failing first attempts (each
   running a prefix of the instructions) leave no trace in the sequential meaning;
   with C09_serializable the same holds for concurrent execution *)
Theorem C09_retry_fresh : forall is fails w,
  run_prog (compile_fails is fails) w = run_prog (compile is []) w.
Proof. exact run_compile_fails. Qed.
Print Assumptions C09_retry_fresh.

Theorem C09_retry_fresh_prog : forall p w, run_prog (Fail p) w = run_prog p w.
Proof. exact run_prog_fail. Qed.
Print Assumptions C09_retry_fresh_prog.

(* the world READ lock path is NOT serializable: a well-declared block and a
   complete schedule (replayed on the real code by the harness) in which the
   world reader observes the write of a LATER transaction *)
Theorem C09_world_read_refuted :
  Forall well_declared wr_txs /\
  complete (exec 3 w_init wr_txs wr_sched) = true /\
  observed_seq wr_txs w_init 1 = Some [7%Z] /\
  g_rcts (exec 3 w_init wr_txs wr_sched) 1 = Some [10%Z].
Proof. exact world_read_refuted. Qed.
Print Assumptions C09_world_read_refuted.
