(* Model_BTPProof.v — executable model of
     btp/ntm/secp256k1proof.go   secp256k1ProofContext.VerifyPart, .Verify
     btp/ntm/proof.go            networkTypeSectionDecision (what is signed)
     btp/proofcontextmap.go      proofContextMap.Verify
   No proofs here.

   A proof context is the list of validator addresses by position; a position
   whose validator has no key for the DSA holds a nil address (None).  A proof
   is a vector of signatures by position, nil (None) where a validator did not
   sign.  `recover d sig` — secp256k1 public-key recovery over the hash of the
   decision followed by the network type's address derivation — is a Section
   variable. *)
From Goloop Require Import lib.Bytes Model_Quorum.
Open Scope N_scope.

(* networkTypeSectionDecision: SrcNetworkID, DstType, Height, Round, NetworkTypeSectionHash *)
Record decision := Decision {
  d_src : bytes;
  d_ntid : Z;
  d_height : Z;
  d_round : Z;
  d_nts_hash : bytes
}.

Fixpoint count_present {A} (l : list (option A)) : nat :=
  match l with
  | [] => 0
  | Some _ :: r => S (count_present r)
  | None :: r => count_present r
  end.

Section Verify.
  Context {sigT addrT : Type}.
  Variable addr_eqb : addrT -> addrT -> bool.
  Variable recover : decision -> sigT -> option addrT.

  (* VerifyPart(dHash, part{Index, Signature}): the validator index, or an error (None).
       if Index < 0 || Index >= len(Validators)        -> error
       (Signature == nil                                -> error)
       addr, err := recover                             -> error
       if !bytes.Equal(Validators[Index], addr)         -> error
     A nil Validators[Index] is never equal to a recovered address (those have
     20 or 21 bytes). *)
  Definition verify_part (d : decision) (vals : list (option addrT)) (idx : Z) (s : option sigT)
    : option nat :=
    if ((idx <? 0) || (Z.of_nat (length vals) <=? idx))%Z then None
    else
      let i := Z.to_nat idx in
      match nth_error vals i with
      | None => None
      | Some va =>
          match s with
          | None => None
          | Some sg =>
              match recover d sg with
              | None => None
              | Some a =>
                  match va with
                  | Some v => if addr_eqb v a then Some i else None
                  | None => None
                  end
              end
          end
      end.

  (* the loop of Verify over ep.Signatures; `valid` counts the parts that passed.
     (The map `set` of the Go code is keyed by the loop index itself, so its
     "duplicated proof parts" branch cannot be taken; it has no counterpart here.) *)
  Fixpoint verify_loop (d : decision) (vals : list (option addrT)) (i : nat)
           (sigs : list (option sigT)) (valid : nat) : option nat :=
    match sigs with
    | [] => Some valid
    | None :: r => verify_loop d vals (S i) r valid
    | Some sg :: r =>
        match verify_part d vals (Z.of_nat i) (Some sg) with
        | None => None
        | Some _ => verify_loop d vals (S i) r (S valid)
        end
    end.

  (* true = nil error *)
  Definition verify (d : decision) (vals : list (option addrT)) (sigs : list (option sigT)) : bool :=
    match verify_loop d vals 0 sigs 0 with
    | None => false
    | Some valid => negb (ntm_too_few valid (length vals))
    end.

  (* A sequence of calls on ONE decoded part object / ONE decoded proof object,
     each with its own decision.  The code keeps no state in the object between
     calls (VerifyPart and Verify only read it), so the k-th verdict is what a
     first call with that decision would give: the session is a map. *)
  Definition part_session (vals : list (option addrT)) (idx : Z) (s : option sigT)
             (ds : list decision) : list (option nat) :=
    map (fun d => verify_part d vals idx s) ds.

  Definition verify_session (vals : list (option addrT)) (sigs : list (option sigT))
             (ds : list decision) : list bool :=
    map (fun d => verify d vals sigs) ds.

  (* proofContextMap.Verify(srcUID, height, round, digest, proofs):
     digests = (network type id, network type section hash) in digest order;
     ctxs = the map ntid -> proof context; proofs = the NTSD proofs in order,
     None for bytes that NewProofFromBytes refuses. *)
  Fixpoint ctx_for (ctxs : list (Z * list (option addrT))) (ntid : Z) : option (list (option addrT)) :=
    match ctxs with
    | [] => None
    | (k, v) :: r => if (k =? ntid)%Z then Some v else ctx_for r ntid
    end.

  Fixpoint pcm_count (ctxs : list (Z * list (option addrT))) (digests : list (Z * bytes)) : nat :=
    match digests with
    | [] => 0
    | (ntid, _) :: r =>
        match ctx_for ctxs ntid with
        | Some _ => S (pcm_count ctxs r)
        | None => pcm_count ctxs r
        end
    end.

  Fixpoint pcm_loop (src : bytes) (height round : Z) (ctxs : list (Z * list (option addrT)))
           (digests : list (Z * bytes)) (proofs : list (option (list (option sigT)))) : bool :=
    match digests with
    | [] => true
    | (ntid, h) :: r =>
        match ctx_for ctxs ntid with
        | None => pcm_loop src height round ctxs r proofs
        | Some vals =>
            match proofs with
            | [] => false
            | None :: _ => false
            | Some sigs :: pr =>
                if verify (Decision src ntid height round h) vals sigs
                then pcm_loop src height round ctxs r pr
                else false
            end
        end
    end.

  Definition pcm_verify (src : bytes) (height round : Z) (ctxs : list (Z * list (option addrT)))
             (digests : list (Z * bytes)) (proofs : list (option (list (option sigT)))) : bool :=
    if Nat.eqb (pcm_count ctxs digests) (length proofs)
    then pcm_loop src height round ctxs digests proofs
    else false.
  (* proofContextMap.Update with a section made by the section builder:
       for every network type section whose next proof context changed:
           res.pcMap[ntid] = the new context     (on a COPY of the map)
       for every inactivated network type:       delete(res.pcMap, ntid)  (on a copy)
     The receiver map is never written: Update is a function from a map value
     to a map value. *)
  Definition ctx_remove (ctxs : list (Z * list (option addrT))) (ntid : Z) :=
    filter (fun kv => negb (fst kv =? ntid)%Z) ctxs.
  Definition ctx_set (ctxs : list (Z * list (option addrT))) (kv : Z * list (option addrT)) :=
    kv :: ctx_remove ctxs (fst kv).
  Definition pcm_update (ctxs : list (Z * list (option addrT)))
             (changed : list (Z * list (option addrT))) (inactivated : list Z) :=
    fold_left ctx_remove inactivated (fold_left ctx_set changed ctxs).

  (* a history over map VERSIONS: version 0 is the initial map, every Update
     appends a version derived from an existing one; Verify / ProofContextFor
     are asked of any version at any time *)
  Inductive pcm_op :=
  | PUpdate (from : nat) (changed : list (Z * list (option addrT))) (inactivated : list Z)
  | PVerify (on : nat) (src : bytes) (height round : Z) (digests : list (Z * bytes))
            (proofs : list (option (list (option sigT))))
  | PHas (on : nat) (ntid : Z).

  (* the verdict of an op (None for Update, or for a version that does not exist) *)
  Definition pcm_answer (maps : list (list (Z * list (option addrT)))) (o : pcm_op) : option bool :=
    match o with
    | PUpdate _ _ _ => None
    | PVerify on src h r dg pf =>
        option_map (fun m => pcm_verify src h r m dg pf) (nth_error maps on)
    | PHas on ntid =>
        option_map (fun m => match ctx_for m ntid with Some _ => true | None => false end) (nth_error maps on)
    end.

  Definition pcm_step (maps : list (list (Z * list (option addrT)))) (o : pcm_op) :=
    match o with
    | PUpdate from ch inact =>
        match nth_error maps from with
        | Some m => maps ++ [pcm_update m ch inact]
        | None => maps
        end
    | _ => maps
    end.

  Fixpoint pcm_run (maps : list (list (Z * list (option addrT)))) (ops : list pcm_op)
    : list (option bool) :=
    match ops with
    | [] => []
    | o :: r => pcm_answer maps o :: pcm_run (pcm_step maps o) r
    end.

  Definition pcm_versions (maps : list (list (Z * list (option addrT)))) (ops : list pcm_op) :=
    fold_left pcm_step ops maps.
End Verify.

(* ------------------------------------------------------------------------
   Ground truth supplied by the harness (it made every key and signature):
   a correct signature of key k over decision d, bytes that recover to an
   address nobody owns, or bytes from which no key is recovered. *)
Inductive bsig :=
| BSigned (k : nat) (d : decision)
| BJunk
| BUnrec.

Inductive baddr := BKey (k : nat) | BStranger.

Definition decision_eqb (a b : decision) : bool :=
  bytes_eqb (d_src a) (d_src b) && (d_ntid a =? d_ntid b)%Z && (d_height a =? d_height b)%Z &&
  (d_round a =? d_round b)%Z && bytes_eqb (d_nts_hash a) (d_nts_hash b).

Definition baddr_eqb (a b : baddr) : bool :=
  match a, b with
  | BKey i, BKey j => Nat.eqb i j
  | BStranger, BStranger => true
  | _, _ => false
  end.

Definition bt_recover (d : decision) (s : bsig) : option baddr :=
  match s with
  | BSigned k d' => if decision_eqb d d' then Some (BKey k) else Some BStranger
  | BJunk => Some BStranger
  | BUnrec => None
  end.

Definition bt_vals (vals : list (option nat)) : list (option baddr) := map (option_map BKey) vals.

Definition bt_verify_part d vals idx s := verify_part baddr_eqb bt_recover d (bt_vals vals) idx s.
Definition bt_verify d vals sigs := verify baddr_eqb bt_recover d (bt_vals vals) sigs.
Definition bt_ctxs (ctxs : list (Z * list (option nat))) := map (fun kv => (fst kv, bt_vals (snd kv))) ctxs.
Definition bt_part_session vals idx s ds := part_session baddr_eqb bt_recover (bt_vals vals) idx s ds.
Definition bt_verify_session vals sigs ds := verify_session baddr_eqb bt_recover (bt_vals vals) sigs ds.
Definition bt_pcm_verify src height round (ctxs : list (Z * list (option nat))) digests proofs :=
  pcm_verify baddr_eqb bt_recover src height round
             (map (fun kv => (fst kv, bt_vals (snd kv))) ctxs) digests proofs.
