(* Proofs_KX_thresholds_agree.v -- all three consensus thresholds are the same predicate
   Split out of Proofs_Kernels.v: this file imports ONLY the generated kernel(s)
   gen/K_enoughVote.v, gen/K_hasOverTwoThirds.v, gen/K_overTwoThirdsDecision.v, so an edit of another kernel's Go source cannot break it.
   Style: stdlib only; arithmetic closed by lia with the euclidean-division hook. *)
From Coq Require Import ZArith Bool String List Lia.
From Coq Require Import ZifyBool.
From Goloop Require Import lib.GoInt Proofs_K_tactics Proofs_K_enoughVote Proofs_K_hasOverTwoThirds Proofs_K_overTwoThirdsDecision.
From Goloop.gen Require Import K_enoughVote K_hasOverTwoThirds K_overTwoThirdsDecision.
Import ListNotations.
Local Open Scope Z_scope.

Ltac Zify.zify_post_hook ::= Z.to_euclidean_division_equations.

(* all three consensus thresholds are the same predicate *)
Lemma thresholds_agree x n :
  0 < n <= half_i64 ->
  enoughVote x n = hasOverTwoThirds x n /\ hasOverTwoThirds x n = overTwoThirdsDecision x n.
Proof.
  intros Hn. split; apply bool_eq_iff.
  - rewrite enoughVote_spec, hasOverTwoThirds_spec by lia. lia.
  - rewrite hasOverTwoThirds_spec, overTwoThirdsDecision_spec by lia. lia.
Qed.
