(* Model_CommitVoteList.v — executable model of
     consensus/commitvotelist.go   blockCommitVoteList.VerifyBlock, enoughVote
     consensus/message.go          blockVoteByteser.bytes (which fields are signed)
     consensus/signedbase.go       signedBase.address  (recover, may fail)
   No proofs here.

   The signature primitive is abstract: `recover msg sig` is a Section variable
   (secp256k1 public-key recovery over SHA3-256 of the vote bytes, followed by
   the address derivation).  A vote message is the tuple of exactly the fields
   that blockVoteByteser marshals: Height, Round, Type, BlockID,
   BlockPartSetIDAndNTSVoteCount (nil, or CountWord and Hash), Timestamp. *)
From Goloop Require Import lib.Bytes Model_Quorum.
Open Scope N_scope.

Inductive vote_type := Prevote | Precommit.

(* *PartSetIDAndAppData: nil, or (CountWord, Hash) *)
Definition psid := option (N * bytes).

Record vote_msg := VoteMsg {
  vm_height : Z;
  vm_round : Z;
  vm_type : vote_type;
  vm_bid : bytes;
  vm_psid : psid;
  vm_ts : Z
}.

Inductive outcome :=
| Accept (voted : list bool)   (* nil error; the []bool that is returned *)
| Reject.                      (* any error *)

Fixpoint set_true (i : nat) (v : list bool) : list bool :=
  match v, i with
  | [], _ => []
  | _ :: r, O => true :: r
  | x :: r, S j => x :: set_true j r
  end.

Section VerifyBlock.
  Context {sigT addrT : Type}.
  Variable addr_eqb : addrT -> addrT -> bool.
  Variable recover : vote_msg -> sigT -> option addrT.

  (* validators.IndexOf(addr): position of addr in the list, -1 (None) if absent *)
  Fixpoint index_of_from (k : nat) (vals : list addrT) (a : addrT) : option nat :=
    match vals with
    | [] => None
    | x :: r => if addr_eqb x a then Some k else index_of_from (S k) r a
    end.
  Definition index_of := index_of_from 0.

  (* the message VerifyBlock rebuilds for an item: everything comes from the
     block and the list header, only the timestamp from the item *)
  Definition item_msg (height round : Z) (bid : bytes) (ps : psid) (ts : Z) : vote_msg :=
    VoteMsg height round Precommit bid ps ts.

  (* msg.address() then validators.IndexOf: None = "bad signature" or "bad voter" *)
  Definition signer_index (mk : Z -> vote_msg) (vals : list addrT) (it : Z * sigT) : option nat :=
    match recover (mk (fst it)) (snd it) with
    | None => None
    | Some a => index_of vals a
    end.

  (* the loop over bvl.Items; None = an error was returned from inside the loop *)
  Fixpoint scan (mk : Z -> vote_msg) (vals : list addrT) (vset : list bool)
           (items : list (Z * sigT)) : option (list bool) :=
    match items with
    | [] => Some vset
    | it :: r =>
        match signer_index mk vals it with
        | None => None
        | Some i =>
            match nth_error vset i with
            | Some false => scan mk vals (set_true i vset) r
            | Some true => None            (* duplicated validator *)
            | None => None                 (* index beyond vset: cannot happen, vset has Len() entries *)
            end
        end
    end.

  (* vals = None is the nil ValidatorList *)
  Definition verify_block (height round : Z) (bid : bytes) (ps : psid)
             (vals : option (list addrT)) (items : list (Z * sigT)) : outcome :=
    match (if (height =? 0)%Z then None else vals) with
    | None => match items with [] => Accept [] | _ :: _ => Reject end
    | Some vl =>
        match scan (item_msg height round bid ps) vl (repeat false (length vl)) items with
        | None => Reject
        | Some vset => if enough (length items) (length vl) then Accept vset else Reject
        end
    end.

  (* VerifyBlock called several times on ONE decoded list object, each time with
     its own block (height, id): the list is only read, so the session is a map *)
  Definition verify_session (round : Z) (ps : psid) (vals : option (list addrT))
             (items : list (Z * sigT)) (blocks : list (Z * bytes)) : list outcome :=
    map (fun hb => verify_block (fst hb) round (snd hb) ps vals items) blocks.

  (* The code before commit ac6da88 of /repo: an item whose signature does not
     recover made IndexOf dereference a nil address.  Kept as a witness of the
     defect that was found with this model (see Proofs: prefix_crashes). *)
  Inductive outcome0 := Accept0 (voted : list bool) | Reject0 | Crash0.
  Fixpoint scan0 (mk : Z -> vote_msg) (vals : list addrT) (vset : list bool)
           (items : list (Z * sigT)) : outcome0 :=
    match items with
    | [] => Accept0 vset
    | it :: r =>
        match recover (mk (fst it)) (snd it) with
        | None => Crash0
        | Some a =>
            match index_of vals a with
            | None => Reject0
            | Some i =>
                match nth_error vset i with
                | Some false => scan0 mk vals (set_true i vset) r
                | _ => Reject0
                end
            end
        end
    end.
End VerifyBlock.

(* ------------------------------------------------------------------------
   The fast-sync path, consensus/consensus.go processBlock (with
   CommitVoteList.toVoteList and the height vote set): the list is converted
   item by item — an item that does not recover to a validator refuses the whole
   list — the votes are put into the precommit vote set of the list's round
   (one slot per validator, so a second item of a signer does not count twice),
   the set must hold more than two thirds (`max > len(msgs)*2/3`) and the
   part-set id the votes carry must be the id of the block's own part set.
   Modelled for a node that holds no earlier precommit of that round. *)
Section FastSync.
  Context {sigT addrT : Type}.
  Variable addr_eqb : addrT -> addrT -> bool.
  Variable recover : vote_msg -> sigT -> option addrT.

  Fixpoint indices (mk : Z -> vote_msg) (vals : list addrT) (items : list (Z * sigT))
    : option (list nat) :=
    match items with
    | [] => Some []
    | it :: r =>
        match signer_index addr_eqb recover mk vals it, indices mk vals r with
        | Some i, Some l => Some (i :: l)
        | _, _ => None
        end
    end.

  Fixpoint dedup (l : list nat) : list nat :=
    match l with
    | [] => []
    | x :: r => if existsb (Nat.eqb x) r then dedup r else x :: dedup r
    end.

  (* PartSetIDAndAppData.ID(): the low 16 bits of the count word, and the hash *)
  Definition ps_id (ps : psid) : option (N * bytes) :=
    option_map (fun p => (N.land (fst p) 65535, snd p)) ps.

  Definition ps_id_matches (ps : psid) (real : N * bytes) : bool :=
    match ps_id ps with
    | Some (c, h) => (c =? fst real) && bytes_eqb h (snd real)
    | None => false
    end.

  (* true = br.Consume(), false = br.Reject() *)
  Definition fs_accept (height round : Z) (bid : bytes) (ps : psid) (real : N * bytes)
             (vals : list addrT) (items : list (Z * sigT)) : bool :=
    match indices (item_msg height round bid ps) vals items with
    | None => false
    | Some idxs =>
        (Nat.ltb (length vals * 2 / 3) (length (dedup idxs))) && ps_id_matches ps real
    end.
End FastSync.

(* ------------------------------------------------------------------------
   Ground truth supplied by the harness, which made every key and signature:
   a signature is a correct signature of key k over the message m (Signed k m),
   or a byte string that recovers to an address nobody owns (Junk), or one from
   which no key can be recovered (Unrec). *)
Inductive gsig :=
| Signed (k : nat) (m : vote_msg)
| Junk
| Unrec.

Inductive gaddr := Key (k : nat) | Stranger.

Definition vote_type_eqb (a b : vote_type) : bool :=
  match a, b with Prevote, Prevote | Precommit, Precommit => true | _, _ => false end.

Definition psid_eqb (a b : psid) : bool :=
  match a, b with
  | None, None => true
  | Some (c1, h1), Some (c2, h2) => (c1 =? c2) && bytes_eqb h1 h2
  | _, _ => false
  end.

Definition vote_msg_eqb (a b : vote_msg) : bool :=
  (vm_height a =? vm_height b)%Z && (vm_round a =? vm_round b)%Z &&
  vote_type_eqb (vm_type a) (vm_type b) && bytes_eqb (vm_bid a) (vm_bid b) &&
  psid_eqb (vm_psid a) (vm_psid b) && (vm_ts a =? vm_ts b)%Z.

Definition gaddr_eqb (a b : gaddr) : bool :=
  match a, b with
  | Key i, Key j => Nat.eqb i j
  | Stranger, Stranger => true
  | _, _ => false
  end.

Definition gt_recover (m : vote_msg) (s : gsig) : option gaddr :=
  match s with
  | Signed k m' => if vote_msg_eqb m m' then Some (Key k) else Some Stranger
  | Junk => Some Stranger
  | Unrec => None
  end.

(* validator lists are given as lists of key numbers *)
Definition gt_fs_accept (height round : Z) (bid : bytes) (ps : psid) (real : N * bytes)
           (vals : list nat) (items : list (Z * gsig)) : bool :=
  fs_accept gaddr_eqb gt_recover height round bid ps real (map Key vals) items.

Definition gt_verify_block (height round : Z) (bid : bytes) (ps : psid)
           (vals : option (list nat)) (items : list (Z * gsig)) : outcome :=
  verify_block gaddr_eqb gt_recover height round bid ps (option_map (map Key) vals) items.

Definition gt_verify_session (round : Z) (ps : psid) (vals : option (list nat))
           (items : list (Z * gsig)) (blocks : list (Z * bytes)) : list outcome :=
  verify_session gaddr_eqb gt_recover round ps (option_map (map Key) vals) items blocks.
