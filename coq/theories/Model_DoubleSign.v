(* Model_DoubleSign.v — double-sign evidence (property C06).
   Mirrors, function by function,
     consensus/doublesigndata.go   matchNID, dsVote.IsConflictWith, dsProposal.IsConflictWith,
                                   DecodeDoubleSignData (which tag gives which concrete type)
     consensus/dsmlog.go           dsmCacheKey, put/get, LogAndCheckVoteMessage, LogAndCheckProposalMessage
     common/cache/costerrandom.go  CosterRandom.Put / Get (the store of the message log; eviction is
                                   by cost cap with random victims, not by height)
     service/contract/dsrhandler.go  DoubleSignReport.Decode, DSRHandler.DoExecuteSync
     service/contract/dscontext.go   DSContextHistory.Get
     service/transaction/doublesignreport.go  doubleSignReportTx.PreValidate
     service/dsrmanager.go         dsrManager.Add
   No proofs here.

   A signed consensus message is abstracted to the fields the decision logic reads:
     signer  = msg.address().ID()      (20 bytes, recovered from the signature over hash)
     height, round                      (_HR)
     mkind                              concrete Go type: dsVote / dsProposal
     vtype   = VoteMessage.Type         (a byte; 0 prevote, 1 precommit; 0 for proposals)
     nid     = voteBase.NID() / proposal.NID   (uint32, 0 = unspecified)
     hash    = signedBase.hash()        (SHA3-256 of the signed content)
     cost    = Coster.Cost()            (only used by the log's store)
     unsigned_ext = the unsigned attachments (VoteMessage.NTSVoteBases / NTSDProofParts);
                    read by no decision below                                              *)
From Goloop Require Import lib.Bytes.
Open Scope N_scope.

Inductive kind := KVote | KProposal.

Definition kind_eqb (a b : kind) : bool :=
  match a, b with
  | KVote, KVote => true
  | KProposal, KProposal => true
  | _, _ => false
  end.

Record msg := mkMsg {
  signer : bytes;
  height : Z;
  round  : Z;
  mkind  : kind;
  vtype  : N;
  nid    : N;
  hash   : bytes;
  cost   : Z;
  unsigned_ext : bytes   (* what travels with the message but is NOT covered by hash():
                            NTSVoteBases and NTSDProofParts of a precommit (a digest of them) *)
}.

Definition VoteTypePrevote : N := 0.
Definition VoteTypePrecommit : N := 1.

(* ---------------------------------------------------------------- *)
(* consensus/doublesigndata.go                                       *)

(* func matchNID(nid1, nid2 uint32) bool *)
Definition match_nid (nid1 nid2 : N) : bool :=
  if (nid1 =? 0) || (nid2 =? 0) then true
  else nid1 =? nid2.

(* dsVote.IsConflictWith, after the type assertion succeeded (other is a dsVote).
   The nil-pointer guards (v == nil || v2 == nil) have no counterpart: a msg is a value. *)
Definition vote_conflict (v v2 : msg) : bool :=
  let nid1 := nid v in
  let nid2 := nid v2 in
  if negb (match_nid nid1 nid2) then false else
  if negb (vtype v2 =? vtype v)
     || negb (height v2 =? height v)%Z
     || negb (round v2 =? round v)%Z
     || negb (bytes_eqb (signer v2) (signer v)) then false
  else negb (bytes_eqb (hash v) (hash v2)).

(* dsProposal.IsConflictWith, after the type assertion succeeded *)
Definition prop_conflict (d d2 : msg) : bool :=
  if negb (match_nid (nid d) (nid d2)) then false else
  if negb (height d =? height d2)%Z
     || negb (round d =? round d2)%Z
     || negb (bytes_eqb (signer d2) (signer d)) then false
  else negb (bytes_eqb (hash d) (hash d2)).

(* module.DoubleSignData.IsConflictWith: dynamic dispatch on the receiver, then the
   type assertion on the argument (other must have the receiver's concrete type):
   a vote never conflicts with a proposal. *)
Definition is_conflict (a b : msg) : bool :=
  match mkind a with
  | KVote =>
      match mkind b with
      | KVote => vote_conflict a b
      | KProposal => false
      end
  | KProposal =>
      match mkind b with
      | KProposal => prop_conflict a b
      | KVote => false
      end
  end.

(* ---------------------------------------------------------------- *)
(* consensus/dsmlog.go: dsmCacheKey {Type, VoteType, Address, Height, Round}.
   Address is the account address made of the recovered public key: type byte 0 and
   the 20 id bytes, so it is represented by the id bytes (= signer). *)

Record dkey := mkKey {
  k_kind   : kind;
  k_vtype  : N;
  k_addr   : bytes;
  k_height : Z;
  k_round  : Z
}.

Definition dkey_eqb (a b : dkey) : bool :=
  kind_eqb (k_kind a) (k_kind b)
  && (k_vtype a =? k_vtype b)
  && bytes_eqb (k_addr a) (k_addr b)
  && (k_height a =? k_height b)%Z
  && (k_round a =? k_round b)%Z.

(* putVoteMessage / getVoteMessage key *)
Definition vote_key (m : msg) : dkey := mkKey KVote (vtype m) (signer m) (height m) (round m).
(* putProposalMessage / getProposalMessage key: VoteType 0 *)
Definition prop_key (m : msg) : dkey := mkKey KProposal 0 (signer m) (height m) (round m).

Definition key_of (m : msg) : dkey :=
  match mkind m with
  | KVote => vote_key m
  | KProposal => prop_key m
  end.

(* ---------------------------------------------------------------- *)
(* common/cache/costerrandom.go : CosterRandom[K, V]                 *)

Record cache := mkCache {
  c_cap  : Z;                       (* costCap *)
  c_sum  : Z;                       (* costSum *)
  c_kv   : list (dkey * msg);       (* kv map (association list, one entry per key) *)
  c_keys : list dkey                (* keys slice *)
}.

(* MakeCosterRandom(cap, src) *)
Definition make_cache (cap : Z) : cache := mkCache cap 0 [] [].

Fixpoint kv_get (k : dkey) (kv : list (dkey * msg)) : option msg :=
  match kv with
  | [] => None
  | (k', v) :: r => if dkey_eqb k k' then Some v else kv_get k r
  end.

(* delete(c.kv, k) *)
Fixpoint kv_del (k : dkey) (kv : list (dkey * msg)) : list (dkey * msg) :=
  match kv with
  | [] => []
  | (k', v) :: r => if dkey_eqb k k' then kv_del k r else (k', v) :: kv_del k r
  end.

(* c.kv[k] = v *)
Definition kv_set (k : dkey) (v : msg) (kv : list (dkey * msg)) : list (dkey * msg) :=
  (k, v) :: kv_del k kv.

Fixpoint list_set {A} (i : nat) (x : A) (l : list A) : list A :=
  match l with
  | [] => []
  | y :: r => match i with O => x :: r | S j => y :: list_set j x r end
  end.

(* One iteration of the eviction loop of Put; r is the value of c.rnd.Uint64().
   None = the Go code panics here (modulo by zero when a single key is left, or a
   key of the slice that is missing in the map).  *)
Definition evict_step (key : dkey) (c : cache) (r : N) : option cache :=
  let keys := c_keys c in
  let n := length keys in
  if (n <=? 1)%nat then None else
  let ei := N.to_nat (r mod N.of_nat (n - 1)) in
  match nth_error keys ei, nth_error keys (n - 1) with
  | Some ek0, Some lastk =>
      let ek := if dkey_eqb ek0 key then lastk else ek0 in
      let keys1 := if dkey_eqb ek0 key then keys else list_set ei lastk keys in
      let keys2 := removelast keys1 in
      match kv_get ek (c_kv c) with
      | Some ev => Some (mkCache (c_cap c) (c_sum c - cost ev)%Z (kv_del ek (c_kv c)) keys2)
      | None => None
      end
  | _, _ => None
  end.

(* for c.costSum > c.costCap { ... }  — rnds are the numbers the generator returns, in
   order; the remaining ones are handed back.  None also when the stream is too short. *)
Fixpoint evict_loop (key : dkey) (c : cache) (rnds : list N) : option (cache * list N) :=
  if (c_sum c <=? c_cap c)%Z then Some (c, rnds) else
  match rnds with
  | [] => None
  | r :: rs =>
      match evict_step key c r with
      | None => None
      | Some c' => evict_loop key c' rs
      end
  end.

(* CosterRandom.Put *)
Definition put (c : cache) (k : dkey) (v : msg) (rnds : list N) : option (cache * list N) :=
  if (cost v >? c_cap c)%Z then Some (c, rnds) else
  let sum1 := match kv_get k (c_kv c) with
              | Some old => (c_sum c - cost old)%Z
              | None => c_sum c
              end in
  let keys1 := match kv_get k (c_kv c) with
               | Some _ => c_keys c
               | None => c_keys c ++ [k]
               end in
  evict_loop k (mkCache (c_cap c) (sum1 + cost v)%Z (kv_set k v (c_kv c)) keys1) rnds.

(* ---------------------------------------------------------------- *)
(* consensus/dsmlog.go : LogAndCheckVoteMessage / LogAndCheckProposalMessage.
   Result: None = Go panic (see evict_step); otherwise the new log, the unused random
   numbers and the returned []DoubleSignData (nil or the pair {stored, new}). *)

Definition log_and_check_vote (c : cache) (m : msg) (rnds : list N)
  : option (cache * list N * option (msg * msg)) :=
  match kv_get (vote_key m) (c_kv c) with
  | Some omsg =>
      if vote_conflict omsg m then Some (c, rnds, Some (omsg, m))
      else match put c (vote_key m) m rnds with
           | Some (c', rest) => Some (c', rest, None)
           | None => None
           end
  | None =>
      match put c (vote_key m) m rnds with
      | Some (c', rest) => Some (c', rest, None)
      | None => None
      end
  end.

Definition log_and_check_proposal (c : cache) (m : msg) (rnds : list N)
  : option (cache * list N * option (msg * msg)) :=
  match kv_get (prop_key m) (c_kv c) with
  | Some omsg =>
      if prop_conflict omsg m then Some (c, rnds, Some (omsg, m))
      else Some (c, rnds, None)
  | None =>
      match put c (prop_key m) m rnds with
      | Some (c', rest) => Some (c', rest, None)
      | None => None
      end
  end.

(* which of the two entry points is called is fixed by the Go type of the message *)
Definition log_and_check (c : cache) (m : msg) (rnds : list N)
  : option (cache * list N * option (msg * msg)) :=
  match mkind m with
  | KVote => log_and_check_vote c m rnds
  | KProposal => log_and_check_proposal c m rnds
  end.

(* a history: each message with the random numbers available to its Put *)
Fixpoint run (c : cache) (steps : list (msg * list N))
  : option (cache * list (option (msg * msg))) :=
  match steps with
  | [] => Some (c, [])
  | (m, rnds) :: r =>
      match log_and_check c m rnds with
      | None => None
      | Some (c', _, out) =>
          match run c' r with
          | None => None
          | Some (cf, outs) => Some (cf, out :: outs)
          end
      end
  end.

(* same, but also requires every step to use up exactly its random numbers
   (used by the correspondence check only) *)
Fixpoint run_exact (c : cache) (steps : list (msg * list N))
  : option (cache * list (option (msg * msg))) :=
  match steps with
  | [] => Some (c, [])
  | (m, rnds) :: r =>
      match log_and_check c m rnds with
      | Some (c', [], out) =>
          match run_exact c' r with
          | None => None
          | Some (cf, outs) => Some (cf, out :: outs)
          end
      | _ => None
      end
  end.

(* consensus.go logAndCheckVoteMessage/ProposalMessage call the log only for heights in
   [cur+configDSMLogBegin, cur+configDSMLogEnd) *)
Definition configDSMLogBegin : Z := (-9)%Z.
Definition configDSMLogEnd : Z := 10%Z.
Definition dsm_in_range (cur h : Z) : bool :=
  ((cur + configDSMLogBegin <=? h) && (h <? cur + configDSMLogEnd))%Z.

(* ---------------------------------------------------------------- *)
(* report acceptance                                                 *)

(* bytes.Compare *)
Fixpoint bytes_compare (a b : bytes) : comparison :=
  match a, b with
  | [], [] => Eq
  | [], _ :: _ => Lt
  | _ :: _, [] => Gt
  | x :: a', y :: b' =>
      match x ?= y with
      | Eq => bytes_compare a' b'
      | Lt => Lt
      | Gt => Gt
      end
  end.

(* module.DoubleSignContext (state.dsValidators): the validator ids and vl.Hash() *)
Record dsctx := mkCtx {
  ctx_validators : list bytes;
  ctx_hash : bytes
}.

(* dsValidators.AddressOf(signer) != nil *)
Definition ctx_has (c : dsctx) (s : bytes) : bool := existsb (bytes_eqb s) (ctx_validators c).

(* the same message with other unsigned attachments (and, since proof parts count
   in Cost(), possibly another cost) *)
Definition with_unsigned (e : bytes) (c : Z) (m : msg) : msg :=
  mkMsg (signer m) (height m) (round m) (mkind m) (vtype m) (nid m) (hash m) c e.

(* contract.DoubleSignReport {Type, Data, Context}; the type string is "vote",
   "proposal" or anything else (None) *)
Record report := mkReport {
  r_tag  : option kind;
  r_data : list bytes;
  r_ctx  : bytes
}.

Definition set_kind (k : kind) (m : msg) : msg :=
  mkMsg (signer m) (height m) (round m) k (vtype m) (nid m) (hash m) (cost m) (unsigned_ext m).

(* DSContextHistory.Get : last entry with Height <= height, nil when there is none or
   the height is below the first entry *)
Definition hist_get (h : list (Z * bytes)) (hgt : Z) : option bytes :=
  match h with
  | [] => None
  | (h0, _) :: _ =>
      if (hgt <? h0)%Z then None
      else fold_left (fun acc e => if (fst e <=? hgt)%Z then Some (snd e) else acc) h None
  end.

(* bytes.Equal(vh, hash) with vh possibly nil: nil equals the empty slice *)
Definition nil_bytes_eqb (a : option bytes) (b : bytes) : bool :=
  match a with
  | None => bytes_eqb [] b
  | Some x => bytes_eqb x b
  end.

Inductive dec_result :=
| DecOk (d1 d2 : msg) (c : dsctx)
| DecBadLength | DecBadOrder | DecBadData1 | DecBadData2 | DecBadContext.

Inductive pv_result := PVOk | PVDisabled | PVUnsupported | PVBadData | PVInvalidReport.

Inductive h_result :=
| HCall (k : kind) (hgt : Z) (sgn : bytes)     (* handleDoubleSignReport(type,height,signer) is called *)
| HAccessDenied | HBadFormat | HNoConflict | HFuture | HNotValidSigner | HBadContext.

Inductive add_result := AddQueued | AddDropped | AddBadArgs | AddBadState | AddNoConflict | AddNoSigner.

Section Report.
  (* codec + signature recovery: consensus.DecodeDoubleSignData calls
     msgCodec.UnmarshalFromBytes and signedBase.verify; abstract here *)
  Variable decode_vote : bytes -> option msg.
  Variable decode_proposal : bytes -> option msg.
  (* state.decodeDoubleSignContext for a known tag *)
  Variable decode_ctx : bytes -> option dsctx.

  (* consensus.DecodeDoubleSignData(t, d): the tag alone fixes the concrete type *)
  Definition decode_data (t : kind) (d : bytes) : option msg :=
    match t with
    | KVote => option_map (set_kind KVote) (decode_vote d)
    | KProposal => option_map (set_kind KProposal) (decode_proposal d)
    end.

  (* DoubleSignReport.Decode (the cached copy is not modelled: force = true) *)
  Definition decode_report (r : report) : dec_result :=
    match r_data r with
    | [data1; data2] =>
        match bytes_compare data1 data2 with
        | Gt => DecBadOrder
        | _ =>
            match r_tag r with
            | None => DecBadData1
            | Some t =>
                match decode_data t data1 with
                | None => DecBadData1
                | Some d1 =>
                    match decode_data t data2 with
                    | None => DecBadData2
                    | Some d2 =>
                        match decode_ctx (r_ctx r) with
                        | None => DecBadContext
                        | Some c => DecOk d1 d2 c
                        end
                    end
                end
            end
        end
    | _ => DecBadLength
    end.

  (* doubleSignReportTx.PreValidate.  rev_has = wc.Revision().Has(ReportDoubleSign),
     from_nil = (tx.data.From == nil).  ValidateNetwork of both data is constantly true. *)
  Definition pre_validate (rev_has from_nil : bool) (r : report) : pv_result :=
    if negb rev_has then PVDisabled else
    if negb from_nil then PVUnsupported else
    match decode_report r with
    | DecOk d1 d2 c =>
        if negb (is_conflict d1 d2) || negb (ctx_has c (signer d1)) then PVInvalidReport
        else PVOk
    | _ => PVBadData
    end.

  (* DSRHandler.DoExecuteSync up to the inner call.  from_system = (h.From == SystemAddress),
     blk = cc.BlockHeight(), hist = the stored DSContextHistory *)
  Definition handler_exec (from_system : bool) (blk : Z) (hist : list (Z * bytes)) (r : report) : h_result :=
    if negb from_system then HAccessDenied else
    match decode_report r with
    | DecOk dsr1 dsr2 dsc =>
        if negb (is_conflict dsr1 dsr2) then HNoConflict else
        if (height dsr1 >? blk)%Z then HFuture else
        if negb (ctx_has dsc (signer dsr1)) then HNotValidSigner else
        if negb (nil_bytes_eqb (hist_get hist (height dsr1 - 2)%Z) (ctx_hash dsc)) then HBadContext
        else HCall (mkind dsr1) (height dsr1) (signer dsr1)
    | _ => HBadFormat
    end.
End Report.

(* service/dsrmanager.go : dsrManager.Add.  State: firstHeight and the keys
   (height, signer) already known (todo or done). *)
Record dsm := mkDsm {
  dsm_first : Z;                      (* InvalidFirstHeight = -1 *)
  dsm_keys  : list (Z * bytes);
  dsm_todo  : list (msg * msg)
}.

Definition dsm_has (st : dsm) (h : Z) (s : bytes) : bool :=
  existsb (fun e => (fst e =? h)%Z && bytes_eqb (snd e) s) (dsm_keys st).

Definition dsm_add (st : dsm) (data : list msg) (ctx : option dsctx) : add_result * dsm :=
  match data, ctx with
  | [d0; d1], Some c =>
      if (dsm_first st =? -1)%Z || (height d0 <? dsm_first st)%Z then (AddBadState, st) else
      if negb (is_conflict d0 d1) then (AddNoConflict, st) else
      if negb (ctx_has c (signer d0)) then (AddNoSigner, st) else
      if dsm_has st (height d0) (signer d0) then (AddDropped, st)
      else (AddQueued, mkDsm (dsm_first st) ((height d0, signer d0) :: dsm_keys st)
                             (dsm_todo st ++ [(d0, d1)]))
  | _, _ => (AddBadArgs, st)
  end.
