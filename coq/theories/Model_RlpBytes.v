(* Model_RlpBytes.v — the byte-level RLP used by the trie nodes
   (common/trie/ompt/rlp.go): rlpEncodeBytes, rlpEncodeList, rlpCountBytesForSize,
   rlpReadSize, rlpParseHeader, rlpParseList, rlpParseBytes.
   Strings and lists only.  No proofs here (Proofs_RlpBytes.v). *)
From Goloop Require Import lib.Bytes.
Open Scope N_scope.

Definition blen (b : bytes) : N := N.of_nat (length b).

(* ---------- encoder ---------- *)

(* rlpCountBytesForSize + the big-endian size loop of rlpEncodeBytes/rlpEncodeList:
   the minimal big-endian bytes of a size (only used for sizes > 55) *)
Definition size_count (n : N) : nat := N.to_nat (N.max 1 ((N.size n + 7) / 8)).
Definition size_bytes (n : N) : bytes := be_bytes (size_count n) n.

Definition rlp_hdr (base n : N) : bytes :=
  if n <=? 55 then [base + n]
  else let sb := size_bytes n in (base + 55 + blen sb) :: sb.

(* rlpEncodeBytes *)
Definition rlp_str (b : bytes) : bytes :=
  match b with
  | [x] => if x <? 128 then [x] else rlp_hdr 128 1 ++ b
  | _ => rlp_hdr 128 (blen b) ++ b
  end.

(* rlpEncodeList: the items are already encoded *)
Definition rlp_list (items : list bytes) : bytes :=
  let p := concat items in rlp_hdr 192 (blen p) ++ p.

(* ---------- decoder ---------- *)

(* rlpReadSize: None = error *)
Definition read_size (b : bytes) (slen : N) : option N :=
  if blen b <? slen then None else
  let sb := firstn (N.to_nat slen) b in
  match sb with
  | [] => None
  | b0 :: _ => let s := be_val sb in if (s <? 56) || (b0 =? 0) then None else Some s
  end.

(* rlpParseHeader: (islist, tagsize, contentsize) *)
Definition parse_header (buf : bytes) : option (bool * N * N) :=
  match buf with
  | [] => None
  | b :: rest =>
      let check (r : bool * N * N) : option (bool * N * N) :=
        let '(_, ts, cs) := r in if blen buf - ts <? cs then None else Some r in
      if 256 <=? b then None
      else if b <? 128 then check (false, 0, 1)
      else if b <? 184 then
        let cs := b - 128 in
        if (cs =? 1) && (match rest with x :: _ => x <? 128 | [] => false end) then None
        else check (false, 1, cs)
      else if b <? 192 then
        match read_size rest (b - 183) with
        | None => None
        | Some cs => check (false, b - 183 + 1, cs)
        end
      else if b <? 248 then check (true, 1, b - 192)
      else
        match read_size rest (b - 247) with
        | None => None
        | Some cs => check (true, b - 247 + 1, cs)
        end
  end.

Definition take (n : N) (b : bytes) : bytes := firstn (N.to_nat n) b.
Definition drop (n : N) (b : bytes) : bytes := skipn (N.to_nat n) b.

(* the item loop of rlpParseList *)
Fixpoint split_items (fuel : nat) (b : bytes) : option (list bytes) :=
  match b with
  | [] => Some []
  | _ =>
      match fuel with
      | O => None
      | S f =>
          match parse_header b with
          | None => None
          | Some (_, ts, cs) =>
              match split_items f (drop (ts + cs) b) with
              | None => None
              | Some r => Some (take (ts + cs) b :: r)
              end
          end
      end
  end.

(* rlpParseList: bytes after the list are ignored, as in the code *)
Definition parse_list (b : bytes) : option (list bytes) :=
  match parse_header b with
  | Some (true, ts, cs) => split_items (length b) (take cs (drop ts b))
  | _ => None
  end.

(* rlpParseBytes *)
Definition parse_bytes (b : bytes) : option bytes :=
  match parse_header b with
  | Some (false, ts, cs) => Some (take cs (drop ts b))
  | _ => None
  end.
