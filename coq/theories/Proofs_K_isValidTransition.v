(* Proofs_K_isValidTransition.v -- consensus isValidTransition (step machine)
   Split out of Proofs_Kernels.v: this file imports ONLY the generated kernel(s)
   gen/K_isValidTransition.v, so an edit of another kernel's Go source cannot break it.
   Style: stdlib only; arithmetic closed by lia with the euclidean-division hook. *)
From Coq Require Import ZArith Bool String List Lia.
From Coq Require Import ZifyBool.
From Goloop Require Import lib.GoInt Proofs_K_tactics.
From Goloop.gen Require Import K_isValidTransition.
Import ListNotations.
Local Open Scope Z_scope.

Ltac Zify.zify_post_hook ::= Z.to_euclidean_division_equations.

(* step constants (consensus/step.go iota block), as resolved by the translator:
   stepNewHeight = 0, stepNewRound = 2, stepCommit = 8 *)
Lemma isValidTransition_spec from to :
  isValidTransition from to = true <->
  (to = 0 /\ (from = 0 \/ from = 8)) \/ to = 2 \/ (to <> 0 /\ to <> 2 /\ from < to).
Proof. unfold isValidTransition. kernel_lia. Qed.

(* within one round (no return to NewHeight / NewRound) steps only move forward *)
Lemma isValidTransition_forward from to :
  isValidTransition from to = true -> to <> 0 -> to <> 2 -> from < to.
Proof. rewrite isValidTransition_spec. lia. Qed.
