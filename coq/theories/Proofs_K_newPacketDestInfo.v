(* Proofs_K_newPacketDestInfo.v -- network newPacketDestInfo (dest<<8 | ttl)
   Split out of Proofs_Kernels.v: this file imports ONLY the generated kernel(s)
   gen/K_newPacketDestInfo.v, so an edit of another kernel's Go source cannot break it.
   Style: stdlib only; arithmetic closed by lia with the euclidean-division hook. *)
From Coq Require Import ZArith Bool String List Lia.
From Coq Require Import ZifyBool.
From Goloop Require Import lib.GoInt Proofs_K_tactics.
From Goloop.gen Require Import K_newPacketDestInfo.
Import ListNotations.
Local Open Scope Z_scope.

Ltac Zify.zify_post_hook ::= Z.to_euclidean_division_equations.

Lemma newPacketDestInfo_spec dest ttl :
  0 <= dest <= max_u8 -> 0 <= ttl <= max_u8 ->
  newPacketDestInfo dest ttl = dest * 256 + ttl.
Proof.
  intros Hd Ht. unfold newPacketDestInfo.
  rewrite (wrap_int_small (Z.shiftl dest 8))
    by (rewrite shiftl_mul by lia; change (2 ^ 8) with 256; lia).
  rewrite lor_shiftl_low by (change (2 ^ 8) with 256; lia).
  change (2 ^ 8) with 256. apply wrap_u16_small. lia.
Qed.
