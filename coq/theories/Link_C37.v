(* Link_C37.v -- ties the scalar decisions that Model_TxPool (property C37) takes through
   Model_Locator to the kernels that tools/go2coq re-generates from service/tschecker.go
   and common/txlocator/manager.go on every run.

   Model_TxPool uses the SAME window test (Model_Locator.range_check / in_window) and
   the SAME lookup (Model_Locator.manager_has, tracker walks of variant VCode) as C11,
   so the links are those of Link_C11.v, re-exported here:

     CheckTxTimestamp, timestampRangeMin, timestampRangeMax  <->  range_check, in_window
     locatorCacheMiss                                        <->  db_skip VCode inside manager_has
     trackerHasGuard                                         <->  skip_own VCode inside the
                                                                  tracker walk (parent_has_v)

   plus the two places where Model_TxPool calls them.  An edit of one of these kernels
   in the Go source breaks Proofs_K_<name>.v, hence Link_C11.v, hence this file, hence
   Prop_C37.v (and Prop_C11.v) -- and nothing else.
   Style: stdlib, lia. *)
From Goloop Require Import lib.Bytes lib.GoInt Model_Locator Proofs_Locator Model_TxPool Proofs_TxPool.
From Goloop Require Export Link_C11.
From Coq Require Import ZifyBool ZifyN.
Import ListNotations.
Local Open Scope Z_scope.

Ltac Zify.zify_post_hook ::= Z.to_euclidean_division_equations.

(* manager.Has, as TransactionPool.Candidate and the validator's tracker call it, written
   with the kernel for the maxTSInDB shortcut *)
Lemma manager_has_is_kernel (m : manager) (g : bool) (id : N) (ts : Z) :
  manager_has m g id ts =
  if mem id (m_locs m) then true
  else if locatorCacheMiss (c_max (cache_of m g)) ts then false
  else mem id (m_db m).
Proof.
  unfold manager_has, manager_has_v. rewrite db_skip_is_locatorCacheMiss. reflexivity.
Qed.

(* the window class that candidate / validate_block compute for a transaction is the
   error NewTimestampRange(bts, th).CheckTx returns *)
Lemma txpool_window_is_kernels (bts th ts : Z) :
  i64 (bts - th) -> i64 (bts + th) ->
  CheckTxTimestamp (timestampRangeMin bts th) (timestampRangeMax bts th) ts
  = ts_err_of_class (range_check bts th ts).
Proof. exact (range_check_is_kernels bts th ts). Qed.

Example link_c37_nontrivial :
  manager_has new_manager true 7%N 110 = false /\
  CheckTxTimestamp (timestampRangeMin 100 10) (timestampRangeMax 100 10) 111
    = ts_err_of_class cFuture /\
  CheckTxTimestamp (timestampRangeMin 100 10) (timestampRangeMax 100 10) 90
    = ts_err_of_class cExpired.
Proof. repeat split; reflexivity. Qed.
