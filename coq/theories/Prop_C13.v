(* Property C13 — Only the sender's key can authorise a transaction.
   This file holds only the property theorems; proofs are in Proofs_TxVerify.v.
   H (SHA3-256) and recover (secp256k1 public-key recovery) are universally
   quantified: the theorems are about the decision logic and the byte formats
   around the primitive; the sign/recover round trip of the primitive itself is
   exercised by the harness on every run (trusted base). *)
From Goloop Require Import lib.Bytes Model_Address Model_TxSerialize Proofs_TxSerialize Model_TxVerify Proofs_TxVerify.

Theorem C13_verify_iff : forall (H : bytes -> bytes) (recover : bytes -> bytes -> option bytes) from s id,
  verify_signature H recover from s id = VOk <->
  exists pk, recover_public_key recover s id = Some pk /\ addr_of_pub H pk = Some from.
Proof. exact verify_signature_iff. Qed.
Print Assumptions C13_verify_iff.

Theorem C13_verify_needs_recovery : forall (H : bytes -> bytes) (recover : bytes -> bytes -> option bytes) from s id,
  verify_signature H recover from s id = VOk ->
  exists vrs pk, s = SigV vrs /\ (0 < length id <= 32)%nat /\ recover vrs id = Some pk
                 /\ addr_of_pub H pk = Some from.
Proof. exact verify_needs_recovery. Qed.
Print Assumptions C13_verify_needs_recovery.

Theorem C13_verify_checks_signature : forall (H : bytes -> bytes) (recover : bytes -> bytes -> option bytes) f data_ok id,
  verify H recover f data_ok id = VOk -> verify_signature H recover (t_from f) (t_sig f) id = VOk.
Proof. exact verify_ok_implies_signature. Qed.
Print Assumptions C13_verify_checks_signature.

(* signature formats *)
Theorem C13_sig_formats_rsv : forall b, length b = 65%nat -> bytes_ok b = true ->
  exists vrs, parse_signature b = Some (SigV vrs) /\ length vrs = 65%nat /\ bytes_ok vrs = true
              /\ serialize_rsv (SigV vrs) = Some b.
Proof. exact parse_rsv_65. Qed.
Print Assumptions C13_sig_formats_rsv.

Theorem C13_sig_formats_rsv_inv : forall vrs, wf_sig (SigV vrs) = true ->
  exists b, serialize_rsv (SigV vrs) = Some b /\ length b = 65%nat /\ parse_signature b = Some (SigV vrs).
Proof. exact serialize_parse_rsv. Qed.
Print Assumptions C13_sig_formats_rsv_inv.

Theorem C13_sig_formats_vrs : forall b, length b = 65%nat -> bytes_ok b = true ->
  exists vrs, parse_signature_vrs b = Some (SigV vrs) /\ serialize_vrs (SigV vrs) = Some b.
Proof. exact parse_vrs_65. Qed.
Print Assumptions C13_sig_formats_vrs.

Theorem C13_sig_formats_rsv_vrs : forall b s, length b = 65%nat -> bytes_ok b = true ->
  parse_signature b = Some s ->
  exists v, skipn 64 b = [v] /\ serialize_vrs s = Some (v :: firstn 64 b)
            /\ parse_signature_vrs (v :: firstn 64 b) = Some s.
Proof. exact rsv_to_vrs. Qed.
Print Assumptions C13_sig_formats_rsv_vrs.

Theorem C13_sig_lengths : forall b s, parse_signature b = Some s ->
  (length b = 65%nat /\ has_v s = true) \/ (length b = 64%nat /\ s = SigRS b).
Proof. exact parse_signature_lengths. Qed.
Print Assumptions C13_sig_lengths.

Theorem C13_sig_64_never_verifies : forall (H : bytes -> bytes) (recover : bytes -> bytes -> option bytes) from b s id,
  length b = 64%nat -> parse_signature b = Some s -> verify_signature H recover from s id <> VOk.
Proof. exact rs64_never_verifies. Qed.
Print Assumptions C13_sig_64_never_verifies.

Theorem C13_v_offset : forall v, (v < 256)%N ->
  (flag_to_ecdsa v < 256 /\ flag_to_compat v < 256 /\
   flag_to_compat (flag_to_ecdsa v) = v /\ flag_to_ecdsa (flag_to_compat v) = v)%N.
Proof. exact flag_conversions. Qed.
Print Assumptions C13_v_offset.
