(* Property C04 — Vote tallies report a 2/3 majority exactly when one exists.
   Only the property theorems; proofs are in Proofs_VoteSet.v.
   A history is any list of operations  OAdd i v  (voteSet.add)  and  OQuery
   (getOverTwoThirdsRoundDecisionDigest, which fills the maxIndex cache) applied
   to newVoteSet(n);  run n ops = Some s  says the history ran without a panic
   and ended in state s.  votes_for / occupied are recounts of the slot array. *)
From Goloop Require Import lib.Bytes Model_VoteSet Proofs_VoteSet.
From Goloop Require Import Link_C04.
Open Scope Z_scope.

(* the threshold of the code,  c > n*2/3  in Go int arithmetic, is  3c > 2n *)
Theorem C04_threshold : forall c n, 0 <= n -> (over23 c n = true <-> 3 * c > 2 * n).
Proof. exact over23_spec. Qed.
Print Assumptions C04_threshold.

(* the counters the code keeps are an independent recount of the slots *)
Theorem C04_counters_are_recount : forall n ops s, run n ops = Some s ->
  length (vs_msgs s) = n /\
  NoDup (map c_dec (vs_counters s)) /\
  (forall d, counter_of (vs_counters s) d = votes_for s d) /\
  (forall c, In c (vs_counters s) -> c_count c <> 0) /\
  vs_count s = occupied s.
Proof. exact counters_are_recount. Qed.
Print Assumptions C04_counters_are_recount.

(* a decision is reported exactly when more than 2/3 of the slots hold it *)
Theorem C04_reports_iff : forall n ops s d, run n ops = Some s ->
  (over23_decision s = Some (Some d) <-> 3 * votes_for s d > 2 * Z.of_nat n).
Proof. exact reports_iff. Qed.
Print Assumptions C04_reports_iff.

Theorem C04_reports_none_iff : forall n ops s, run n ops = Some s ->
  (over23_decision s = Some None <-> forall d, 3 * votes_for s d <= 2 * Z.of_nat n).
Proof. exact reports_none_iff. Qed.
Print Assumptions C04_reports_none_iff.

(* hasOverTwoThirds: more than 2/3 of the slots are occupied *)
Theorem C04_has_over23_iff : forall n ops s, run n ops = Some s ->
  (has_over23 s = true <-> 3 * occupied s > 2 * Z.of_nat n).
Proof. exact has_over23_iff. Qed.
Print Assumptions C04_has_over23_iff.

(* at most one decision has +2/3, and it is the reported one *)
Theorem C04_unique : forall n ops s d1 d2, run n ops = Some s ->
  3 * votes_for s d1 > 2 * Z.of_nat n -> 3 * votes_for s d2 > 2 * Z.of_nat n -> d1 = d2.
Proof. exact unique23. Qed.
Print Assumptions C04_unique.

Theorem C04_unique_report : forall n ops s d1 d2, run n ops = Some s ->
  over23_decision s = Some (Some d1) -> 3 * votes_for s d2 > 2 * Z.of_nat n -> d1 = d2.
Proof. exact unique_report. Qed.
Print Assumptions C04_unique_report.

(* once a decision has +2/3 no continuation (conflicting re-votes included) lowers
   its support, and it stays the reported decision *)
Theorem C04_sticky : forall n ops s d ops' s', run n ops = Some s ->
  3 * votes_for s d > 2 * Z.of_nat n ->
  run_from s ops' = Some s' ->
  votes_for s d <= votes_for s' d /\ over23_decision s' = Some (Some d).
Proof. exact sticky. Qed.
Print Assumptions C04_sticky.

(* why: a slot backing the +2/3 decision is never overwritten *)
Theorem C04_sticky_slot : forall n ops s d i o v s' b, run n ops = Some s ->
  3 * votes_for s d > 2 * Z.of_nat n ->
  nth_error (vs_msgs s) i = Some (Some o) -> v_dec o = d ->
  add s i v = Some (s', b) -> b = false /\ vs_msgs s' = vs_msgs s.
Proof. exact sticky_slot. Qed.
Print Assumptions C04_sticky_slot.

(* what add returns: true for a fresh slot; false for an identical vote; false
   (slots, counters, count untouched) when the old vote backs the +2/3 decision;
   otherwise true and the slot is replaced *)
Theorem C04_add_result : forall n ops s i v s' b, run n ops = Some s ->
  add s i v = Some (s', b) ->
  match nth_error (vs_msgs s) i with
  | None => False
  | Some None => b = true /\ vs_msgs s' = set_nth i (Some v) (vs_msgs s)
  | Some (Some o) =>
      if vote_eqb o v then b = false /\ s' = s
      else if 3 * votes_for s (v_dec o) >? 2 * Z.of_nat n
      then b = false /\ vs_msgs s' = vs_msgs s /\ vs_counters s' = vs_counters s
           /\ vs_count s' = vs_count s
      else b = true /\ vs_msgs s' = set_nth i (Some v) (vs_msgs s)
  end.
Proof. exact add_result. Qed.
Print Assumptions C04_add_result.

(* the code never indexes out of range on a reachable state *)
Theorem C04_no_panic : forall n ops s, run n ops = Some s ->
  (forall i v, (i < n)%nat -> exists s' b, add s i v = Some (s', b)) /\
  (exists s' r, query s = Some (s', r)).
Proof. exact no_panic. Qed.
Print Assumptions C04_no_panic.

(* ---- kernel links (Link_C04.v).  hasOverTwoThirds and overTwoThirdsDecision are
   re-generated from consensus/voteset.go on every run (tools/go2coq); the threshold
   of the model used in all theorems above IS the threshold of the current Go code,
   for every slot count a Go slice can have (n <= 2^62-1: len*2 does not overflow) ---- *)
Theorem C04_kernel_hasOverTwoThirds : forall c n, 0 <= n <= 4611686018427387903 ->
  over23 c n = hasOverTwoThirds c n.
Proof. exact over23_is_hasOverTwoThirds. Qed.
Print Assumptions C04_kernel_hasOverTwoThirds.

Theorem C04_kernel_overTwoThirdsDecision : forall c n, 0 <= n <= 4611686018427387903 ->
  over23 c n = overTwoThirdsDecision c n.
Proof. exact over23_is_overTwoThirdsDecision. Qed.
Print Assumptions C04_kernel_overTwoThirdsDecision.

(* has_over23 is the kernel on (vs.count, len(vs.msgs)); the test of query is the
   kernel on (best counter, len(vs.msgs)) *)
Theorem C04_kernel_has_over23 : forall s, nvals s <= 4611686018427387903 ->
  has_over23 s = hasOverTwoThirds (vs_count s) (nvals s).
Proof. exact has_over23_is_kernel. Qed.
Print Assumptions C04_kernel_has_over23.

Theorem C04_kernel_decision_test : forall mx s, nvals s <= 4611686018427387903 ->
  over23 mx (nvals s) = overTwoThirdsDecision mx (nvals s).
Proof. exact decision_test_is_kernel. Qed.
Print Assumptions C04_kernel_decision_test.

(* the operand order the translator recorded (positional calls above rely on it) *)
Theorem C04_kernel_params : Link_C04.kernel_params_pinned.
Proof. exact Link_C04.kernel_params_ok. Qed.
Print Assumptions C04_kernel_params.
