(* Property C29 — BTP proofs require more than two thirds of distinct validator
   signatures, each at its own index.
   Only statements here; proofs are in Proofs_BTPProof.v / Proofs_Quorum.v.
   `recover` (secp256k1 recovery over the decision hash + the network type's
   address derivation) and the address type are universally quantified. *)
From Goloop Require Import lib.Bytes Model_Quorum Proofs_Quorum Model_BTPProof Proofs_BTPProof.
From Goloop Require Import Link_C29.
Open Scope nat_scope.

(* `valid <= 2*len(Validators)/3` is refused; passing it is exactly 3*valid > 2*n *)
Theorem C29_threshold : forall valid validators,
  ntm_too_few valid validators = false <-> 3 * valid > 2 * validators.
Proof. exact ntm_too_few_spec. Qed.
Print Assumptions C29_threshold.

(* VerifyPart returns index i iff the part names index i, carries a signature,
   and the signature recovers (for this decision) to the validator listed AT i *)
Theorem C29_verify_part_iff :
  forall (sigT addrT : Type) (addr_eqb : addrT -> addrT -> bool)
         (recover : decision -> sigT -> option addrT),
    (forall a b, addr_eqb a b = true <-> a = b) ->
  forall d (vals : list (option addrT)) idx (s : option sigT) i,
    verify_part addr_eqb recover d vals idx s = Some i <->
    idx = Z.of_nat i /\ exists sg, s = Some sg /\ part_ok recover d vals i sg.
Proof. exact @verify_part_iff. Qed.
Print Assumptions C29_verify_part_iff.

(* Verify accepts iff every signature present in the vector recovers, for this
   decision, to the validator at its own position, and 3 * #present > 2 * #validators *)
Theorem C29_accept_iff :
  forall (sigT addrT : Type) (addr_eqb : addrT -> addrT -> bool)
         (recover : decision -> sigT -> option addrT),
    (forall a b, addr_eqb a b = true <-> a = b) ->
  forall d (vals : list (option addrT)) (sigs : list (option sigT)),
    verify addr_eqb recover d vals sigs = true <->
    (forall i sg, nth_error sigs i = Some (Some sg) -> part_ok recover d vals i sg) /\
    3 * count_present sigs > 2 * length vals.
Proof. exact @accept_iff. Qed.
Print Assumptions C29_accept_iff.

(* if the context lists pairwise distinct addresses, the signers of an accepted
   proof are pairwise distinct validators, more than two thirds of the context *)
Theorem C29_distinct_signers :
  forall (sigT addrT : Type) (addr_eqb : addrT -> addrT -> bool)
         (recover : decision -> sigT -> option addrT),
    (forall a b, addr_eqb a b = true <-> a = b) ->
  forall d (vals : list (option addrT)) (sigs : list (option sigT)),
    verify addr_eqb recover d vals sigs = true -> NoDup (somes vals) ->
    let ss := signers vals sigs in
    NoDup ss /\ length ss = count_present sigs /\ 3 * length ss > 2 * length vals /\
    forall a, In a ss -> In (Some a) vals /\ exists sg, In (Some sg) sigs /\ recover d sg = Some a.
Proof. exact @distinct_signers. Qed.
Print Assumptions C29_distinct_signers.

(* two accepted proofs over one context share a signing validator position *)
Theorem C29_proofs_intersect :
  forall (sigT addrT : Type) (addr_eqb : addrT -> addrT -> bool)
         (recover : decision -> sigT -> option addrT),
    (forall a b, addr_eqb a b = true <-> a = b) ->
  forall (vals : list (option addrT)) d1 (sigs1 : list (option sigT)) d2 sigs2,
    verify addr_eqb recover d1 vals sigs1 = true -> verify addr_eqb recover d2 vals sigs2 = true ->
    exists i sg1 sg2 a,
      nth_error sigs1 i = Some (Some sg1) /\ nth_error sigs2 i = Some (Some sg2) /\
      nth_error vals i = Some (Some a) /\ recover d1 sg1 = Some a /\ recover d2 sg2 = Some a.
Proof. exact @proofs_intersect. Qed.
Print Assumptions C29_proofs_intersect.

(* a context without validators accepts no proof *)
Theorem C29_empty_context :
  forall (sigT addrT : Type) (addr_eqb : addrT -> addrT -> bool)
         (recover : decision -> sigT -> option addrT),
    (forall a b, addr_eqb a b = true <-> a = b) ->
  forall d (sigs : list (option sigT)), verify addr_eqb recover d [] sigs = false.
Proof. exact @empty_context_rejects. Qed.
Print Assumptions C29_empty_context.

(* proofContextMap.Verify accepts iff there is exactly one decodable proof per
   network type of the digest that has a proof context, in digest order, and
   each is accepted by Verify for the decision (src, ntid, height, round, NTS hash) *)
Theorem C29_pcm_accept_iff :
  forall (sigT addrT : Type) (addr_eqb : addrT -> addrT -> bool)
         (recover : decision -> sigT -> option addrT),
  forall src height round ctxs digests (proofs : list (option (list (option sigT)))),
    pcm_verify addr_eqb recover src height round ctxs digests proofs = true <->
    exists sigss, proofs = map Some sigss /\
      Forall2 (proof_ok addr_eqb recover src height round) (with_ctx ctxs digests) sigss.
Proof. exact @pcm_accept_iff. Qed.
Print Assumptions C29_pcm_accept_iff.

(* statelessness over call sequences on one decoded part / proof object: the
   verdict of the k-th call equals the verdict of a fresh call with the k-th
   decision — no replay of an accepted part for another decision *)
Theorem C29_verify_stateless :
  forall (sigT addrT : Type) (addr_eqb : addrT -> addrT -> bool)
         (recover : decision -> sigT -> option addrT),
  forall (vals : list (option addrT)) idx (s : option sigT) (sigs : list (option sigT)) ds k d,
    nth_error ds k = Some d ->
    nth_error (part_session addr_eqb recover vals idx s ds) k = Some (verify_part addr_eqb recover d vals idx s) /\
    nth_error (verify_session addr_eqb recover vals sigs ds) k = Some (verify addr_eqb recover d vals sigs).
Proof.
  intros. split; [apply part_session_stateless|apply verify_session_stateless]; assumption.
Qed.
Print Assumptions C29_verify_stateless.

Theorem C29_no_replay_across_decisions :
  forall (sigT addrT : Type) (addr_eqb : addrT -> addrT -> bool)
         (recover : decision -> sigT -> option addrT),
    (forall a b, addr_eqb a b = true <-> a = b) ->
  forall (vals : list (option addrT)) idx (s : option sigT) ds k d i,
    nth_error ds k = Some d ->
    nth_error (part_session addr_eqb recover vals idx s ds) k = Some (Some i) ->
    exists sg, s = Some sg /\ part_ok recover d vals i sg.
Proof. exact @part_session_no_replay. Qed.
Print Assumptions C29_no_replay_across_decisions.

(* proof context maps are values: deriving the next map with Update leaves every
   existing version as it was, so every verdict (Verify, ProofContextFor) obtained
   from a version before an Update is obtained again after any further history *)
Theorem C29_old_map_unchanged :
  forall (sigT addrT : Type) (maps : list (list (Z * list (option addrT)))) (ops : list (@pcm_op sigT addrT)) i m,
    nth_error maps i = Some m -> nth_error (pcm_versions maps ops) i = Some m.
Proof. exact @old_versions_unchanged. Qed.
Print Assumptions C29_old_map_unchanged.

Theorem C29_verdicts_repeat :
  forall (sigT addrT : Type) (addr_eqb : addrT -> addrT -> bool)
         (recover : decision -> sigT -> option addrT),
  forall (maps : list (list (Z * list (option addrT)))) (ops : list (@pcm_op sigT addrT)) o b,
    pcm_answer addr_eqb recover maps o = Some b ->
    pcm_answer addr_eqb recover (pcm_versions maps ops) o = Some b.
Proof. exact @verdicts_repeat. Qed.
Print Assumptions C29_verdicts_repeat.

(* with the signature ground truth of the correspondence run *)
Theorem C29_accept_iff_ground_truth :
  forall d (vals : list (option nat)) (sigs : list (option bsig)),
    bt_verify d vals sigs = true <->
    (forall i sg, nth_error sigs i = Some (Some sg) ->
       exists k, sg = BSigned k d /\ nth_error vals i = Some (Some k)) /\
    3 * count_present sigs > 2 * length vals.
Proof. exact bt_accept_iff. Qed.
Print Assumptions C29_accept_iff_ground_truth.

(* ---- kernel links (Link_C29.v).  ntmNotEnoughParts and ntmPartIndexOutOfRange are
   re-generated from btp/ntm/secp256k1proof.go on every run (tools/go2coq); the
   threshold ntm_too_few and the index guard of verify_part, used in all theorems above,
   ARE the tests of the current Go code ---- *)
Theorem C29_kernel_ntmNotEnoughParts : forall valid validators : nat,
  (Z.of_nat validators <= 4611686018427387903)%Z ->
  ntm_too_few valid validators = ntmNotEnoughParts (Z.of_nat valid) (Z.of_nat validators).
Proof. exact ntm_too_few_is_ntmNotEnoughParts. Qed.
Print Assumptions C29_kernel_ntmNotEnoughParts.

(* VerifyPart refuses exactly the indices the kernel refuses, before anything else *)
Theorem C29_kernel_ntmPartIndexOutOfRange :
  forall (sigT addrT : Type) (addr_eqb : addrT -> addrT -> bool)
         (recover : decision -> sigT -> option addrT)
         (d : decision) (vals : list (option addrT)) (idx : Z) (s : option sigT),
    ntmPartIndexOutOfRange idx (Z.of_nat (length vals)) = true ->
    verify_part addr_eqb recover d vals idx s = None.
Proof. exact (@verify_part_refuses_out_of_range). Qed.
Print Assumptions C29_kernel_ntmPartIndexOutOfRange.

Theorem C29_kernel_index_guard : forall (idx : Z) (n : nat),
  ((idx <? 0) || (Z.of_nat n <=? idx))%Z%bool = ntmPartIndexOutOfRange idx (Z.of_nat n).
Proof. exact index_guard_is_ntmPartIndexOutOfRange. Qed.
Print Assumptions C29_kernel_index_guard.

Theorem C29_kernel_params : Link_C29.kernel_params_pinned.
Proof. exact Link_C29.kernel_params_ok. Qed.
Print Assumptions C29_kernel_params.
