(* Proofs_VirtualState.v — serializability of Model_VirtualState: the value
   invariant (what the real world state and every read-only account hold, in
   terms of sequential execution) on top of the structural invariant of
   Proofs_VirtualState_Inv.v, its preservation by every step, and the theorems
   of Prop_C09.v.  Style: stdlib. *)
From Coq Require Import List Arith Bool ZArith Lia.
From Goloop Require Import Model_VirtualState Proofs_VirtualState_Seq Proofs_VirtualState_Inv.
Import ListNotations.

Section Val.
Variable txs : list tx.
Variable w0 : world.
Hypothesis Hwd : forall i t, nth_error txs i = Some t -> well_declared t.
Hypothesis Hnwr : forall i t, nth_error txs i = Some t -> no_world_read t.
Let n := length txs.

Notation WB := (world_before txs w0).
Notation Inv1 := (Inv1 txs).
Notation effw := (effw txs).

(* transaction i currently holds the live account a of the real world state *)
Definition active_w (g : gstate) (i : nat) (a : acct) : Prop :=
  exists v, g_vs g i = Some v /\ v_done v = false /\
    (v_accts v a = Some (mkLas WriteLock SLive) \/ (v_wlock v = WriteLock /\ startedb g i = true)).

Definition touched (g : gstate) (j : nat) (a : acct) : Prop := is_done g j = true \/ active_w g j a.

(* the program the worker of i still has to run *)
Definition cur_prog (g : gstate) (i : nat) (t : tx) : prog :=
  match g_work g i with Some (WRun p) => p | _ => tx_prog t end.

(* w is the world the sequential execution of transaction i is in, at the
   point where cur_prog remains *)
Definition shadow_ok (g : gstate) (i : nat) (t : tx) (w : world) : Prop :=
  touches_only t (cur_prog g i t) /\
  (forall a, fst (run_prog (cur_prog g i t) w) a = WB (S i) a) /\
  snd (run_prog (cur_prog g i t) w) = snd (run_prog (tx_prog t) (WB i)) /\
  (forall a, ~ active_w g i a -> w a = WB i a) /\
  (forall a, active_w g i a -> g_real g a = w a).

Record Inv2 (g : gstate) : Prop := {
  v_real : forall a k, k <= n ->
     (forall j, j < k -> effw j a -> is_done g j = true) ->
     (forall j, k <= j -> effw j a -> ~ touched g j a) ->
     g_real g a = WB k a;
  v_shadow : forall i v t, g_vs g i = Some v -> nth_error txs i = Some t -> v_done v = false ->
     exists w, shadow_ok g i t w;
  v_ro : forall i v a x, g_vs g i = Some v -> v_accts v a = Some (mkLas ReadLock (SRO x)) -> x = WB i a;
  v_pub : forall i v a x, g_vs g i = Some v -> v_accts v a = Some (mkLas WriteUnlock (SRO x)) -> x = WB (S i) a;
  v_pubw : forall i v t, g_vs g i = Some v -> nth_error txs i = Some t -> v_done v = true ->
     world_lock (reqs_of t) = WriteLock -> exists w, v_committed v = Some w /\ forall a, w a = WB (S i) a;
  v_cache : forall a x, g_rocache g a = Some x -> x = w0 a;
  v_rcts : forall i r, g_rcts g i = Some r -> observed_seq txs w0 i = Some r;
  v_rdone : forall i, finishedb g i = true -> g_rcts g i <> None;
  v_final : forall w, g_final g = Some w -> forall a, w a = seq_world txs w0 a
}.

(* ------------------------------------------------------------------ *)
(* consequences of the structural invariant                             *)

Lemma active_effw g i a : Inv1 g -> active_w g i a -> effw i a.
Proof.
  intros I (v & Hv & Hnd & H). destruct (tx_of_vs _ _ _ _ I Hv) as [t Ht].
  pose proof (i_vs_ok _ _ I _ _ _ Hv Ht) as OK. exists t. split; auto.
  unfold eff_writer. apply can_write_spec. destruct H as [H|[H _]].
  - right. pose proof (vo_accts _ _ _ _ _ OK a) as LA. rewrite H in LA.
    destruct (entry (reqs_of t) a); try contradiction. destruct LA as [_ (E & _)]. now subst.
  - left. rewrite (vo_wlock _ _ _ _ _ OK), Hnd in H. exact H.
Qed.

Lemma touched_earlier g j a : Inv1 g -> effw j a -> touched g j a -> earlier_done txs g j a.
Proof.
  intros I [t [Ht E]] [D|(v & Hv & Hnd & H)].
  - unfold is_done in D. destruct (g_vs g j) as [v|] eqn:Hv; try discriminate.
    eapply (vo_order _ _ _ _ _ (i_vs_ok _ _ I _ _ _ Hv Ht)); eauto.
  - pose proof (i_vs_ok _ _ I _ _ _ Hv Ht) as OK. destruct H as [H|[H S]].
    + pose proof (vo_accts _ _ _ _ _ OK a) as LA. rewrite H in LA.
      destruct (entry (reqs_of t) a); try contradiction. destruct LA as [_ (_ & _ & ED)]. exact ED.
    + intros m Hm _. apply (vo_base _ _ _ _ _ OK); auto. apply (vo_started _ _ _ _ _ OK); auto.
      rewrite (vo_wlock _ _ _ _ _ OK), Hnd in H. congruence.
Qed.

Lemma active_not_done g i a : active_w g i a -> is_done g i = false.
Proof. intros (v & Hv & Hnd & _). unfold is_done. now rewrite Hv. Qed.

Lemma active_unique g i j a : Inv1 g -> active_w g i a -> active_w g j a -> i = j.
Proof.
  intros I Ai Aj.
  destruct (Nat.lt_trichotomy i j) as [H|[H|H]]; auto; exfalso.
  - pose proof (touched_earlier _ _ _ I (active_effw _ _ _ I Aj) (or_intror Aj) i H (active_effw _ _ _ I Ai)) as D.
    rewrite (active_not_done _ _ _ Ai) in D. discriminate.
  - pose proof (touched_earlier _ _ _ I (active_effw _ _ _ I Ai) (or_intror Ai) j H (active_effw _ _ _ I Aj)) as D.
    rewrite (active_not_done _ _ _ Aj) in D. discriminate.
Qed.

(* a later effective writer that is touched would need i to have committed *)
Lemma later_untouched g i a j : Inv1 g -> effw i a -> is_done g i = false -> i < j -> effw j a -> ~ touched g j a.
Proof.
  intros I Ei Di Hij Ej T. pose proof (touched_earlier _ _ _ I Ej T i Hij Ei). congruence.
Qed.

Lemma effw_lt_n j a : effw j a -> j < n.
Proof. intros [t [Ht _]]. apply nth_error_Some. congruence. Qed.

(* ------------------------------------------------------------------ *)
(* frame lemmas                                                         *)

Lemma active_same g g' i a : g_vs g' i = g_vs g i -> g_work g' i = g_work g i ->
  (active_w g' i a <-> active_w g i a).
Proof.
  intros Hv Hw. unfold active_w, startedb. rewrite Hv, Hw. tauto.
Qed.

Lemma cur_prog_same g g' i t : g_work g' i = g_work g i -> cur_prog g' i t = cur_prog g i t.
Proof. unfold cur_prog. now intros ->. Qed.

Lemma shadow_frame g g' i t w : g_vs g' i = g_vs g i -> g_work g' i = g_work g i ->
  (forall a, active_w g i a -> g_real g' a = g_real g a) ->
  shadow_ok g i t w -> shadow_ok g' i t w.
Proof.
  intros Hv Hw Hr (S1 & S2 & S3 & S4 & S5). unfold shadow_ok.
  rewrite (cur_prog_same _ _ _ _ Hw). repeat split; auto.
  - intros a Na. apply S4. intro A. apply Na. apply (active_same g g'); auto.
  - intros a A. apply (active_same g g') in A; auto. rewrite Hr; auto.
Qed.

Lemma v_real_mono g g' : (forall j, is_done g' j = is_done g j) ->
  (forall j a, touched g j a -> touched g' j a) -> g_real g' = g_real g ->
  (forall a k, k <= n ->
     (forall j, j < k -> effw j a -> is_done g j = true) ->
     (forall j, k <= j -> effw j a -> ~ touched g j a) -> g_real g a = WB k a) ->
  forall a k, k <= n ->
     (forall j, j < k -> effw j a -> is_done g' j = true) ->
     (forall j, k <= j -> effw j a -> ~ touched g' j a) -> g_real g' a = WB k a.
Proof.
  intros D T R H a k Hk H1 H2. rewrite R. apply H; auto.
  - intros j Hj E. rewrite <- D. auto.
  - intros j Hj E Tj. apply (H2 j Hj E). auto.
Qed.

(* steps that only set base / committed fields that were nil *)
Lemma inv2_st_sim g g' : Inv2 g -> st_sim g g' -> Inv2 g'.
Proof.
  intros [V1 V2 V3 V4 V5 V6 V7 V8 V9] S.
  assert (SD' : forall m, is_done g' m = is_done g m) by (intro m; eapply st_sim_done; eauto).
  destruct S as [(R & W & Dp & Tk & Rc & Lk & Wl & Ro & Fi) Sv].
  assert (Act : forall j a, active_w g' j a <-> active_w g j a).
  { intros j a. unfold active_w, startedb. rewrite W. specialize (Sv j).
    destruct (g_vs g j) as [v|], (g_vs g' j) as [v'|]; try contradiction.
    - destruct Sv as (A1 & A2 & A3 & _).
      split; intros (u & Hu & H); inversion Hu; subst; eexists; split; eauto; rewrite ?A1, ?A2, ?A3 in *; auto.
    - split; intros (u & Hu & _); discriminate. }
  constructor.
  - apply (v_real_mono g g'); auto. intros j a [T|T]; [left; now rewrite SD'|right; now apply Act].
  - intros i v' t Hv' Ht Hnd. specialize (Sv i). rewrite Hv' in Sv.
    destruct (g_vs g i) as [v|] eqn:Hv; try contradiction. destruct Sv as (A1 & A2 & A3 & _).
    destruct (V2 i v t Hv Ht) as [w (S1 & S2 & S3 & S4 & S5)]; [congruence|].
    exists w. unfold shadow_ok. rewrite (cur_prog_same g g') by (now rewrite W). repeat split; auto.
    + intros a Na. apply S4. intro A. apply Na. now apply Act.
    + intros a A. rewrite R. apply S5. now apply Act.
  - intros i v' a x Hv' Ha. specialize (Sv i). rewrite Hv' in Sv.
    destruct (g_vs g i) as [v|] eqn:Hv; try contradiction. destruct Sv as (A1 & _).
    eapply V3; eauto. now rewrite <- A1.
  - intros i v' a x Hv' Ha. specialize (Sv i). rewrite Hv' in Sv.
    destruct (g_vs g i) as [v|] eqn:Hv; try contradiction. destruct Sv as (A1 & _).
    eapply V4; eauto. now rewrite <- A1.
  - intros i v' t Hv' Ht Hd Wt. specialize (Sv i). rewrite Hv' in Sv.
    destruct (g_vs g i) as [v|] eqn:Hv; try contradiction. destruct Sv as (A1 & A2 & A3 & A4 & A5 & A6).
    destruct (V5 i v t Hv Ht) as (w & Hc & Hw); auto; [congruence|].
    exists w. split; auto. destruct A5 as [A5|[A5 _]]; congruence.
  - intros a x. rewrite Ro. apply V6.
  - intros i r. rewrite Rc. apply V7.
  - intros i. unfold finishedb. rewrite W, Rc. apply V8.
  - intros w. rewrite Fi. apply V9.
Qed.

(* ------------------------------------------------------------------ *)
(* the value handed out by a depend that has committed                   *)

Lemma peek_value g i a d x : Inv1 g -> Inv2 g -> last_writer txs i a = Some d -> i <= n ->
  is_done g d = true -> peek g d a = Some x -> x = WB i a.
Proof.
  intros I V L Hi D P. destruct (last_writer_Some _ _ _ _ L) as (Hd & [td [Htd Ed]] & Hno).
  assert (E : WB i a = WB (S d) a).
  { apply (world_before_frame txs w0 Hwd); try lia. intros k Hk. apply Hno. lia. }
  rewrite E. clear E.
  pose proof (done_started _ _ _ I D) as St.
  unfold is_done in D. destruct (g_vs g d) as [vd|] eqn:Hvd; try discriminate.
  pose proof (i_vs_ok _ _ I _ _ _ Hvd Htd) as OK. unfold peek in P. rewrite Hvd in P.
  apply can_write_spec in Ed as [Ed|Ed].
  - pose proof (vo_accts _ _ _ _ _ OK a) as LA. rewrite (entry_world_write _ a Ed) in LA.
    destruct (v_accts vd a); try contradiction.
    destruct (v_pubw _ V _ _ _ Hvd Htd D Ed) as (w & Hc & Hw).
    rewrite (vo_wlock _ _ _ _ _ OK), D, Ed, Hc in P.
    destruct (v_base vd); inversion P; subst; auto.
  - pose proof (vo_accts _ _ _ _ _ OK a) as LA. rewrite Ed in LA.
    destruct (v_accts vd a) as [[l st]|] eqn:Ha; try contradiction. destruct LA as [L1 L2]. cbn in L1, L2.
    rewrite D in L1. subst l. destruct st as [d'| |y].
    + discriminate.
    + destruct L2 as (_ & L2 & _). congruence.
    + inversion P; subst. eapply (v_pub _ V); eauto.
Qed.

(* ------------------------------------------------------------------ *)
(* acquiring an account                                                 *)

Lemma active_upd_other g i v a l' j a' : g_vs g i = Some v -> (j <> i \/ a' <> a) ->
  (active_w (set_vs g i (upd_accts v a l')) j a' <-> active_w g j a').
Proof.
  intros Hv Hne. unfold active_w, startedb. cbn.
  destruct (Nat.eqb_spec j i); subst; [|tauto].
  destruct Hne as [Hne|Hne]; [congruence|].
  split; intros (u & Hu & Hd & H); inversion Hu; subst; eexists; (split; [eauto|]); cbn in *;
  destruct (Nat.eqb_spec a' a); try congruence; auto.
  rewrite Hv in Hu. inversion Hu; subst. cbn. destruct (Nat.eqb_spec a' a); try congruence; auto.
Qed.

Lemma entry_of_las g i v t a l : Inv1 g -> g_vs g i = Some v -> nth_error txs i = Some t ->
  v_accts v a = Some l -> exists e, entry (reqs_of t) a = Some e /\ las_ok txs g i (v_done v) a e l /\
  world_lock (reqs_of t) <> WriteLock.
Proof.
  intros I Hv Ht Ha. pose proof (vo_accts _ _ _ _ _ (i_vs_ok _ _ I _ _ _ Hv Ht) a) as LA.
  rewrite Ha in LA. destruct (entry (reqs_of t) a) as [e|] eqn:He; try contradiction.
  exists e. split; auto. split; auto. intro W. rewrite (entry_world_write _ a W) in He. discriminate.
Qed.

Lemma acqw_inv2 g i v a d : Inv1 g -> Inv2 g -> g_vs g i = Some v ->
  v_accts v a = Some (mkLas WriteLock (SDep d)) -> is_done g d = true ->
  Inv2 (set_vs g i (upd_accts v a (mkLas WriteLock SLive))).
Proof.
  intros I V Hv Ha D. set (g' := set_vs g i (upd_accts v a (mkLas WriteLock SLive))).
  destruct (tx_of_vs _ _ _ _ I Hv) as [t Ht].
  destruct (entry_of_las _ _ _ _ _ _ I Hv Ht Ha) as (e & He & [L1 L2] & Wnw). cbn in L1, L2.
  destruct L2 as [LW L2].
  assert (e = WriteLock /\ v_done v = false) as [-> Hnd].
  { destruct (entry_rw _ _ _ He) as [->| ->]; destruct (v_done v); try discriminate; auto. }
  assert (Hwl : v_wlock v <> WriteLock).
  { rewrite (vo_wlock _ _ _ _ _ (i_vs_ok _ _ I _ _ _ Hv Ht)), Hnd. exact Wnw. }
  assert (Ei : effw i a) by (exists t; split; auto; apply can_write_spec; auto).
  assert (Di : is_done g i = false) by (unfold is_done; now rewrite Hv).
  assert (Nact : ~ active_w g i a).
  { intros (u & Hu & _ & [H|[H _]]); assert (u = v) by congruence; subst u; congruence. }
  assert (SD : forall m, is_done g' m = is_done g m) by (intro; eapply is_done_upd_accts; eauto).
  assert (Amono : forall j a', active_w g j a' -> active_w g' j a').
  { intros j a' A. destruct (Nat.eq_dec j i) as [->|]; [destruct (Nat.eq_dec a' a) as [->|]|].
    - contradiction.
    - apply (active_upd_other g i v a (mkLas WriteLock SLive) i a'); auto.
    - apply (active_upd_other g i v a (mkLas WriteLock SLive) j a'); auto. }
  assert (Hi : i <= n) by (apply Nat.lt_le_incl, nth_error_Some; congruence).
  assert (Hreal : g_real g a = WB i a).
  { apply (v_real _ V); auto.
    - eapply dep_done_earlier; eauto.
    - intros j Hj Ej. destruct (Nat.eq_dec j i) as [->|].
      + intros [T|T]; [congruence|contradiction].
      + apply (later_untouched g i a j I Ei Di); [lia|exact Ej]. }
  destruct V as [V1 V2 V3 V4 V5 V6 V7 V8 V9]. constructor; auto.
  - apply (v_real_mono g g'); auto. intros j a' [T|T]; [left; now rewrite SD|right; auto].
  - intros j vj tj Hvj Htj Hndj. destruct (Nat.eq_dec j i) as [->|Hne].
    + assert (tj = t) by congruence; subst tj.
      destruct (V2 i v t Hv Ht Hnd) as [w (S1 & S2 & S3 & S4 & S5)]. exists w.
      unfold shadow_ok. rewrite (cur_prog_same g g') by reflexivity.
      split; [exact S1|]. split; [exact S2|]. split; [exact S3|]. split.
      * intros a' Na. apply S4. intro A. apply Na. auto.
      * intros a' A. change (g_real g a' = w a').
        destruct (Nat.eq_dec a' a) as [->|Hna].
        -- rewrite Hreal. symmetry. apply S4. exact Nact.
        -- apply S5. apply (active_upd_other g i v a (mkLas WriteLock SLive) i a'); auto.
    + assert (Hvj' : g_vs g j = Some vj).
      { unfold g' in Hvj. cbn in Hvj. destruct (Nat.eqb_spec j i); congruence. }
      destruct (V2 j vj tj Hvj' Htj Hndj) as [w Sw]. exists w.
      apply (shadow_frame g g'); auto. cbn. destruct (Nat.eqb_spec j i); congruence.
  - intros j vj a' x Hvj Ha'. unfold g' in Hvj. cbn in Hvj. destruct (Nat.eqb_spec j i); subst.
    + inversion Hvj; subst vj. cbn in Ha'. destruct (Nat.eqb_spec a' a); [discriminate|]. eapply V3; eauto.
    + eapply V3; eauto.
  - intros j vj a' x Hvj Ha'. unfold g' in Hvj. cbn in Hvj. destruct (Nat.eqb_spec j i); subst.
    + inversion Hvj; subst vj. cbn in Ha'. destruct (Nat.eqb_spec a' a); [discriminate|]. eapply V4; eauto.
    + eapply V4; eauto.
  - intros j vj tj Hvj Htj Hdj Wj. unfold g' in Hvj. cbn in Hvj. destruct (Nat.eqb_spec j i); subst.
    + inversion Hvj; subst vj. cbn in *. congruence.
    + eapply V5; eauto.
Qed.

Lemma active_upd_nolive g i v a l' j a' : g_vs g i = Some v ->
  v_accts v a <> Some (mkLas WriteLock SLive) -> l' <> mkLas WriteLock SLive ->
  (active_w (set_vs g i (upd_accts v a l')) j a' <-> active_w g j a').
Proof.
  intros Hv Ho Hn. destruct (Nat.eq_dec j i) as [->|Hne]; [destruct (Nat.eq_dec a' a) as [->|Hna]|].
  - unfold active_w, startedb. cbn. rewrite Nat.eqb_refl, Hv.
    split; intros (u & Hu & Hd & H); inversion Hu; subst; eexists; (split; [eauto|]); cbn in *;
    rewrite ?Nat.eqb_refl in *; (split; [auto|]); destruct H as [H|H]; auto; congruence.
  - apply active_upd_other; auto.
  - apply active_upd_other; auto.
Qed.

Lemma acqr_inv2 g i v a l d x : Inv1 g -> Inv2 g -> g_vs g i = Some v ->
  v_accts v a = Some (mkLas l (SDep d)) -> l <> WriteLock -> is_done g d = true -> peek g d a = Some x ->
  Inv2 (set_vs g i (upd_accts v a (mkLas l (SRO x)))).
Proof.
  intros I V Hv Ha Hl D P. set (g' := set_vs g i (upd_accts v a (mkLas l (SRO x)))).
  destruct (tx_of_vs _ _ _ _ I Hv) as [t Ht].
  destruct (entry_of_las _ _ _ _ _ _ I Hv Ht Ha) as (e & He & [L1 L2] & Wnw). cbn in L1, L2.
  destruct L2 as [LW L2].
  assert (l = ReadLock) as ->.
  { destruct (entry_rw _ _ _ He) as [->| ->]; destruct (v_done v); auto; try congruence.
    specialize (L2 eq_refl). discriminate. }
  assert (Hi : i <= n) by (apply Nat.lt_le_incl, nth_error_Some; congruence).
  assert (Hx : x = WB i a) by (eapply peek_value; eauto).
  assert (SD : forall m, is_done g' m = is_done g m) by (intro; eapply is_done_upd_accts; eauto).
  assert (Act : forall j a', active_w g' j a' <-> active_w g j a').
  { intros. apply active_upd_nolive; auto; congruence. }
  destruct V as [V1 V2 V3 V4 V5 V6 V7 V8 V9]. constructor; auto.
  - apply (v_real_mono g g'); auto. intros j a' [T|T]; [left; now rewrite SD|right; now apply Act].
  - intros j vj tj Hvj Htj Hndj.
    assert (exists vj0, g_vs g j = Some vj0 /\ v_done vj0 = false) as (vj0 & Hvj0 & Hnd0).
    { unfold g' in Hvj. cbn in Hvj. destruct (Nat.eqb_spec j i); subst; eauto.
      inversion Hvj; subst vj. cbn in Hndj. eauto. }
    destruct (V2 j vj0 tj Hvj0 Htj Hnd0) as [w (S1 & S2 & S3 & S4 & S5)]. exists w.
    unfold shadow_ok. rewrite (cur_prog_same g g') by reflexivity.
    split; [exact S1|]. split; [exact S2|]. split; [exact S3|]. split.
    + intros a' Na. apply S4. intro A. apply Na. now apply Act.
    + intros a' A. apply S5. now apply Act.
  - intros j vj a' y Hvj Ha'. unfold g' in Hvj. cbn in Hvj. destruct (Nat.eqb_spec j i); subst.
    + inversion Hvj; subst vj. cbn in Ha'. destruct (Nat.eqb_spec a' a); subst.
      * inversion Ha'; subst. reflexivity.
      * eapply V3; eauto.
    + eapply V3; eauto.
  - intros j vj a' y Hvj Ha'. unfold g' in Hvj. cbn in Hvj. destruct (Nat.eqb_spec j i); subst.
    + inversion Hvj; subst vj. cbn in Ha'. destruct (Nat.eqb_spec a' a); [discriminate|]. eapply V4; eauto.
    + eapply V4; eauto.
  - intros j vj tj Hvj Htj Hdj Wj. unfold g' in Hvj. cbn in Hvj. destruct (Nat.eqb_spec j i); subst.
    + inversion Hvj; subst vj. cbn in *. eapply V5; eauto.
    + eapply V5; eauto.
Qed.

(* GetAccountState preserves the value invariant *)
Lemma access_inv2 g i a g' h : Inv1 g -> Inv2 g -> access g i a = Some (g', h) -> Inv2 g'.
Proof.
  intros I V H. destruct (access_cases _ _ _ _ _ H) as
    [v d Hv Ha D -> ->|v l d x Hv Ha Hl D P -> ->|v l Hv Ha -> ->|v l x Hv Ha -> ->|v v' Hv Ha W R Hv' Hh Hb]; auto.
  - eapply acqw_inv2; eauto.
  - eapply acqr_inv2; eauto.
  - destruct (realize_base_inv1 _ _ _ _ _ I Hv R) as (_ & S & _). eapply inv2_st_sim; eauto.
Qed.

(* what the handle returned by GetAccountState shows is the shadow's value *)
Lemma handle_value g i a g' h : Inv1 g -> Inv2 g -> access g i a = Some (g', h) ->
  startedb g i = true -> finishedb g i = false ->
  forall v' t w, g_vs g' i = Some v' -> nth_error txs i = Some t -> shadow_ok g' i t w ->
  match h with HLive => active_w g' i a | HRO x => x = w a end.
Proof.
  intros I V H St Fi v' t w Hv' Ht (S1 & S2 & S3 & S4 & S5).
  destruct (access_inv1 _ _ _ _ _ _ I H) as (I' & SD & VO).
  pose proof (access_inv2 _ _ _ _ _ I V H) as V'.
  assert (Fi' : finishedb g' i = false).
  { destruct VO as (_ & W & _). unfold finishedb in *. now rewrite W. }
  assert (St' : startedb g' i = true).
  { destruct VO as (_ & W & _). unfold startedb in *. now rewrite W. }
  destruct (not_done_of_phase _ _ _ _ _ I' Hv' Ht Fi') as (Hnd' & Hc' & Hwl').
  pose proof (i_vs_ok _ _ I' _ _ _ Hv' Ht) as OK'.
  assert (RO : forall x, v_accts v' a = Some (mkLas ReadLock (SRO x)) -> x = w a).
  { intros x Ha'. rewrite (v_ro _ V' _ _ _ _ Hv' Ha'). symmetry. apply S4.
    intros (u & Hu & _ & [A|[A _]]); assert (u = v') by congruence; subst u; try congruence.
    pose proof (vo_accts _ _ _ _ _ OK' a) as LA. rewrite Ha' in LA.
    rewrite Hwl' in A. rewrite (entry_world_write _ a A) in LA. exact LA. }
  destruct (access_cases _ _ _ _ _ H) as
    [v d Hv Ha D E ->|v l d x Hv Ha Hl D P E ->|v l Hv Ha E ->|v l x Hv Ha E ->|v v1 Hv Ha W R Hv1 Hh Hb].
  - subst g'. cbn in Hv'. rewrite Nat.eqb_refl in Hv'. inversion Hv'; subst v'.
    exists (upd_accts v a (mkLas WriteLock SLive)). split; [cbn; now rewrite Nat.eqb_refl|].
    split; auto. left. cbn. now rewrite Nat.eqb_refl.
  - subst g'. cbn in Hv'. rewrite Nat.eqb_refl in Hv'. inversion Hv'; subst v'.
    apply RO. cbn. rewrite Nat.eqb_refl.
    pose proof (vo_accts _ _ _ _ _ OK' a) as LA. cbn in LA. rewrite Nat.eqb_refl in LA.
    destruct (entry (reqs_of t) a) as [e|] eqn:He; try contradiction. destruct LA as [L1 [[L2|L2] _]]; cbn in *.
    + subst e. rewrite Hnd' in L1. congruence.
    + congruence.
  - subst g'. assert (v' = v) by congruence; subst v'.
    exists v. split; auto. split; auto. left.
    pose proof (vo_accts _ _ _ _ _ OK' a) as LA. rewrite Ha in LA.
    destruct (entry (reqs_of t) a) as [e|] eqn:He; try contradiction. destruct LA as [L1 (L2 & _)]; cbn in *.
    subst e. rewrite Hnd' in L1. congruence.
  - subst g'. assert (v' = v) by congruence; subst v'. apply RO.
    pose proof (vo_accts _ _ _ _ _ OK' a) as LA. rewrite Ha in LA.
    destruct (entry (reqs_of t) a) as [e|] eqn:He; try contradiction. destruct LA as [L1 [[L2|L2] _]]; cbn in *.
    + subst e. rewrite Hnd' in L1. congruence.
    + congruence.
  - assert (v1 = v') by congruence; subst v1. rewrite Hc' in Hh.
    destruct (tx_of_vs _ _ _ _ I Hv) as [t0 Ht0]. assert (t0 = t) by congruence; subst t0.
    destruct (not_done_of_phase _ _ _ _ _ I Hv Ht Fi) as (Hnd & Hc & Hwl).
    assert (Ww : world_lock (reqs_of t) = WriteLock).
    { destruct (world_lock_cases (reqs_of t)) as [E|[E|E]]; auto.
      - rewrite Hwl in W. congruence.
      - exfalso. apply (Hnwr _ _ Ht). exact E. }
    rewrite Hwl, Ww in Hh. subst h.
    exists v'. split; auto. split; auto. right. split; auto. congruence.
Qed.

(* ------------------------------------------------------------------ *)
(* steps that leave the virtual states alone                            *)

Lemma active_dec g i a : active_w g i a \/ ~ active_w g i a.
Proof.
  unfold active_w. destruct (g_vs g i) as [v|]; [|right; intros (u & Hu & _); discriminate].
  destruct (v_done v) eqn:D; [right; intros (u & Hu & Hd & _); inversion Hu; subst; congruence|].
  destruct (v_accts v a) as [[[] []]|] eqn:A;
  try (left; exists v; split; auto; split; auto; left; reflexivity);
  (destruct (v_wlock v) eqn:W;
   try (right; intros (u & Hu & _ & [H|[H _]]); inversion Hu; subst; congruence);
   destruct (startedb g i) eqn:S;
   [left; exists v; split; auto|right; intros (u & Hu & _ & [H|[_ H]]); inversion Hu; subst; congruence]).
Qed.

Lemma inv2_frame g g' : Inv2 g -> g_vs g' = g_vs g -> g_real g' = g_real g ->
  g_rocache g' = g_rocache g -> g_rcts g' = g_rcts g -> g_final g' = g_final g ->
  (forall j, startedb g' j = startedb g j) -> (forall j, finishedb g' j = finishedb g j) ->
  (forall j v t w, g_vs g j = Some v -> nth_error txs j = Some t -> v_done v = false ->
     shadow_ok g j t w -> exists w', shadow_ok g' j t w') ->
  Inv2 g'.
Proof.
  intros [V1 V2 V3 V4 V5 V6 V7 V8 V9] Hvs Hr Hc Hrc Hf Hs Hfi Hsh.
  assert (SD : forall m, is_done g' m = is_done g m) by (intro; unfold is_done; now rewrite Hvs).
  assert (Act : forall j a, active_w g' j a <-> active_w g j a).
  { intros. unfold active_w. rewrite Hvs, Hs. tauto. }
  constructor.
  - apply (v_real_mono g g'); auto. intros j a [T|T]; [left; now rewrite SD|right; now apply Act].
  - intros j v t Hv Ht Hnd. rewrite Hvs in Hv. destruct (V2 j v t Hv Ht Hnd) as [w Sw]. eauto.
  - intros j v a x. rewrite Hvs. apply V3.
  - intros j v a x. rewrite Hvs. apply V4.
  - intros j v t. rewrite Hvs. apply V5.
  - intros a x. rewrite Hc. apply V6.
  - intros j r. rewrite Hrc. apply V7.
  - intros j. rewrite Hfi, Hrc. apply V8.
  - intros w. rewrite Hf. apply V9.
Qed.

(* a shadow carries over when the remaining program and the active set of j are the same *)
Lemma shadow_same g g' j t w : cur_prog g' j t = cur_prog g j t ->
  (forall a, active_w g' j a <-> active_w g j a) -> g_real g' = g_real g ->
  shadow_ok g j t w -> shadow_ok g' j t w.
Proof.
  intros Hp Ha Hr (S1 & S2 & S3 & S4 & S5). unfold shadow_ok. rewrite Hp, Hr.
  split; [exact S1|]. split; [exact S2|]. split; [exact S3|]. split.
  - intros a Na. apply S4. intro A. apply Na. now apply Ha.
  - intros a A. apply S5. now apply Ha.
Qed.

Lemma active_set_work g i p j a : startedb (set_work g i p) i = startedb g i ->
  (active_w (set_work g i p) j a <-> active_w g j a).
Proof.
  intro Hs. unfold active_w. cbn [g_vs set_work].
  assert (E : startedb (set_work g i p) j = startedb g j).
  { destruct (Nat.eq_dec j i) as [->|]; auto. unfold startedb. cbn. destruct (Nat.eqb_spec j i); congruence. }
  rewrite E. tauto.
Qed.

(* the worker of i moves on inside Execute *)
Lemma inv2_set_run g i p p' : Inv2 g -> g_work g i = Some (WRun p) ->
  (forall v t w, g_vs g i = Some v -> nth_error txs i = Some t -> v_done v = false ->
     shadow_ok g i t w -> exists w', shadow_ok (set_work g i (WRun p')) i t w') ->
  Inv2 (set_work g i (WRun p')).
Proof.
  intros V Hw Hsh.
  assert (Hs : forall j, startedb (set_work g i (WRun p')) j = startedb g j).
  { intro j. unfold startedb. cbn. destruct (Nat.eqb_spec j i); subst; auto. now rewrite Hw. }
  assert (Hf : forall j, finishedb (set_work g i (WRun p')) j = finishedb g j).
  { intro j. unfold finishedb. cbn. destruct (Nat.eqb_spec j i); subst; auto. now rewrite Hw. }
  eapply inv2_frame; eauto.
  intros j v t w Hv Ht Hnd Sw. destruct (Nat.eq_dec j i) as [->|Hne]; eauto.
  exists w. apply (shadow_same g (set_work g i (WRun p')) j t w); auto.
  - unfold cur_prog. cbn. destruct (Nat.eqb_spec j i); [contradiction|reflexivity].
  - intro a. apply active_set_work. apply Hs.
Qed.

End Val.
