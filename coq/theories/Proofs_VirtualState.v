(* Proofs_VirtualState.v — serializability of Model_VirtualState: the value
   invariant (what the real world state and every read-only account hold, in
   terms of sequential execution) on top of the structural invariant of
   Proofs_VirtualState_Inv.v, its preservation by every step, and the theorems
   of Prop_C09.v.  Style: stdlib. *)
From Coq Require Import List Arith Bool ZArith Lia.
From Goloop Require Import Model_VirtualState Proofs_VirtualState_Seq Proofs_VirtualState_Inv.
Import ListNotations.

Section Val.
Variable txs : list tx.
Variable w0 : world.
Hypothesis Hwd : forall i t, nth_error txs i = Some t -> well_declared t.
Hypothesis Hnwr : forall i t, nth_error txs i = Some t -> no_world_read t.
Let n := length txs.

Notation WB := (world_before txs w0).
Notation Inv1 := (Inv1 txs).
Notation effw := (effw txs).

(* transaction i currently holds the live account a of the real world state *)
Definition active_w (g : gstate) (i : nat) (a : acct) : Prop :=
  exists v, g_vs g i = Some v /\ v_done v = false /\
    (v_accts v a = Some (mkLas WriteLock SLive) \/ (v_wlock v = WriteLock /\ startedb g i = true)).

Definition touched (g : gstate) (j : nat) (a : acct) : Prop := is_done g j = true \/ active_w g j a.

(* the program the worker of i still has to run *)
Definition cur_prog (g : gstate) (i : nat) (t : tx) : prog :=
  match g_work g i with Some (WRun p) => p | _ => tx_prog t end.

(* w is the world the sequential execution of transaction i is in, at the
   point where cur_prog remains *)
Definition shadow_ok (g : gstate) (i : nat) (t : tx) (w : world) : Prop :=
  touches_only t (cur_prog g i t) /\
  (forall a, fst (run_from (WB i) (cur_prog g i t) w) a = WB (S i) a) /\
  snd (run_from (WB i) (cur_prog g i t) w) = snd (run_prog (tx_prog t) (WB i)) /\
  (forall a, ~ active_w g i a -> w a = WB i a) /\
  (forall a, active_w g i a -> g_real g a = w a) /\
  (startedb g i = false -> forall a, w a = WB i a).

Record Inv2 (g : gstate) : Prop := {
  v_real : forall a k, k <= n ->
     (forall j, j < k -> effw j a -> is_done g j = true) ->
     (forall j, k <= j -> effw j a -> ~ touched g j a) ->
     g_real g a = WB k a;
  v_shadow : forall i v t, g_vs g i = Some v -> nth_error txs i = Some t -> v_done v = false ->
     exists w, shadow_ok g i t w;
  v_ro : forall i v a x, g_vs g i = Some v -> v_accts v a = Some (mkLas ReadLock (SRO x)) -> x = WB i a;
  v_pub : forall i v a x, g_vs g i = Some v -> v_accts v a = Some (mkLas WriteUnlock (SRO x)) -> x = WB (S i) a;
  v_pubw : forall i v t, g_vs g i = Some v -> nth_error txs i = Some t -> v_done v = true ->
     world_lock (reqs_of t) = WriteLock -> exists w, v_committed v = Some w /\ forall a, w a = WB (S i) a;
  v_cache : forall a x, g_rocache g a = Some x -> x = w0 a;
  v_rcts : forall i r, g_rcts g i = Some r -> observed_seq txs w0 i = Some r;
  v_rdone : forall i, finishedb g i = true -> g_rcts g i <> None;
  v_final : forall w, g_final g = Some w -> forall a, w a = seq_world txs w0 a;
  (* committed is set by the own Commit of a world writer, by the start of the next
     transaction (a world locker) or by the final Realize (everything is dispatched then) *)
  v_csrc : forall j v t, g_vs g j = Some v -> nth_error txs j = Some t -> v_committed v <> None ->
     world_lock (reqs_of t) = WriteLock \/ S j < dcount txs g \/ n <= dcount txs g;
  (* base of a transaction without world lock: the world it starts from *)
  v_basev : forall i v t b, g_vs g i = Some v -> nth_error txs i = Some t ->
     world_lock (reqs_of t) <> WriteLock -> v_base v = Some b -> forall a, b a = WB i a;
  (* the worker's snapshot and the recorded bases hold the values the transaction started from *)
  v_snapv : forall i v s, g_vs g i = Some v -> v_done v = false -> v_snap v = Some s ->
     (forall a x, s_accts s a = Some x -> x = WB i a) /\ (forall b, s_base s = Some b -> forall a, b a = WB i a) /\
     (forall a, s_accts s a <> None -> v_accts v a = Some (mkLas WriteLock SLive));
  v_lbasev : forall i v a x, g_vs g i = Some v -> v_done v = false -> v_lbase v a = Some x -> x = WB i a
}.

(* ------------------------------------------------------------------ *)
(* consequences of the structural invariant                             *)

Lemma active_effw g i a : Inv1 g -> active_w g i a -> effw i a.
Proof.
  intros I (v & Hv & Hnd & H). destruct (tx_of_vs _ _ _ _ I Hv) as [t Ht].
  pose proof (i_vs_ok _ _ I _ _ _ Hv Ht) as OK. exists t. split; auto.
  unfold eff_writer. apply can_write_spec. destruct H as [H|[H _]].
  - right. pose proof (vo_accts _ _ _ _ _ OK a) as LA. rewrite H in LA.
    destruct (entry (reqs_of t) a); try contradiction. destruct LA as [_ (E & _)]. now subst.
  - left. rewrite (vo_wlock _ _ _ _ _ OK), Hnd in H. exact H.
Qed.

Lemma touched_earlier g j a : Inv1 g -> effw j a -> touched g j a -> earlier_done txs g j a.
Proof.
  intros I [t [Ht E]] [D|(v & Hv & Hnd & H)].
  - unfold is_done in D. destruct (g_vs g j) as [v|] eqn:Hv; try discriminate.
    eapply (vo_order _ _ _ _ _ (i_vs_ok _ _ I _ _ _ Hv Ht)); eauto.
  - pose proof (i_vs_ok _ _ I _ _ _ Hv Ht) as OK. destruct H as [H|[H S]].
    + pose proof (vo_accts _ _ _ _ _ OK a) as LA. rewrite H in LA.
      destruct (entry (reqs_of t) a); try contradiction. destruct LA as [_ (_ & _ & ED)]. exact ED.
    + intros m Hm _. apply (vo_base _ _ _ _ _ OK); auto. apply (vo_started _ _ _ _ _ OK); auto.
      rewrite (vo_wlock _ _ _ _ _ OK), Hnd in H. congruence.
Qed.

Lemma active_not_done g i a : active_w g i a -> is_done g i = false.
Proof. intros (v & Hv & Hnd & _). unfold is_done. now rewrite Hv. Qed.

Lemma active_unique g i j a : Inv1 g -> active_w g i a -> active_w g j a -> i = j.
Proof.
  intros I Ai Aj.
  destruct (Nat.lt_trichotomy i j) as [H|[H|H]]; auto; exfalso.
  - pose proof (touched_earlier _ _ _ I (active_effw _ _ _ I Aj) (or_intror Aj) i H (active_effw _ _ _ I Ai)) as D.
    rewrite (active_not_done _ _ _ Ai) in D. discriminate.
  - pose proof (touched_earlier _ _ _ I (active_effw _ _ _ I Ai) (or_intror Ai) j H (active_effw _ _ _ I Aj)) as D.
    rewrite (active_not_done _ _ _ Aj) in D. discriminate.
Qed.

(* a later effective writer that is touched would need i to have committed *)
Lemma later_untouched g i a j : Inv1 g -> effw i a -> is_done g i = false -> i < j -> effw j a -> ~ touched g j a.
Proof.
  intros I Ei Di Hij Ej T. pose proof (touched_earlier _ _ _ I Ej T i Hij Ei). congruence.
Qed.

Lemma effw_lt_n j a : effw j a -> j < n.
Proof. intros [t [Ht _]]. apply nth_error_Some. congruence. Qed.

(* ------------------------------------------------------------------ *)
(* frame lemmas                                                         *)

Lemma active_same g g' i a : g_vs g' i = g_vs g i -> g_work g' i = g_work g i ->
  (active_w g' i a <-> active_w g i a).
Proof.
  intros Hv Hw. unfold active_w, startedb. rewrite Hv, Hw. tauto.
Qed.

Lemma cur_prog_same g g' i t : g_work g' i = g_work g i -> cur_prog g' i t = cur_prog g i t.
Proof. unfold cur_prog. now intros ->. Qed.

Lemma shadow_frame g g' i t w : g_vs g' i = g_vs g i -> g_work g' i = g_work g i ->
  (forall a, active_w g i a -> g_real g' a = g_real g a) ->
  shadow_ok g i t w -> shadow_ok g' i t w.
Proof.
  intros Hv Hw Hr (S1 & S2 & S3 & S4 & S5 & S6). unfold shadow_ok.
  rewrite (cur_prog_same _ _ _ _ Hw).
  split; [exact S1|]. split; [exact S2|]. split; [exact S3|]. split; [|split].
  - intros a Na. apply S4. intro A. apply Na. apply (active_same g g'); auto.
  - intros a A. apply (active_same g g') in A; auto. rewrite Hr; auto.
  - intro St. apply S6. unfold startedb in *. now rewrite <- Hw.
Qed.

Lemma v_real_mono g g' : (forall j, is_done g' j = is_done g j) ->
  (forall j a, touched g j a -> touched g' j a) -> g_real g' = g_real g ->
  (forall a k, k <= n ->
     (forall j, j < k -> effw j a -> is_done g j = true) ->
     (forall j, k <= j -> effw j a -> ~ touched g j a) -> g_real g a = WB k a) ->
  forall a k, k <= n ->
     (forall j, j < k -> effw j a -> is_done g' j = true) ->
     (forall j, k <= j -> effw j a -> ~ touched g' j a) -> g_real g' a = WB k a.
Proof.
  intros D T R H a k Hk H1 H2. rewrite R. apply H; auto.
  - intros j Hj E. rewrite <- D. auto.
  - intros j Hj E Tj. apply (H2 j Hj E). auto.
Qed.

(* steps that only set base / committed fields that were nil *)
Lemma inv2_st_sim g g' : Inv2 g -> st_sim g g' ->
  (forall j v v', g_vs g j = Some v -> g_vs g' j = Some v' -> v_committed v = None ->
     v_committed v' <> None -> S j < dcount txs g \/ n <= dcount txs g) ->
  (forall j v v' t, g_vs g j = Some v -> g_vs g' j = Some v' -> nth_error txs j = Some t ->
     v_base v' <> v_base v -> world_lock (reqs_of t) = WriteLock) ->
  Inv2 g'.
Proof.
  intros [V1 V2 V3 V4 V5 V6 V7 V8 V9 V10 V11 V12 V13] S Hcs Hbs.
  assert (SD' : forall m, is_done g' m = is_done g m) by (intro m; eapply st_sim_done; eauto).
  destruct S as [(R & W & Dp & Tk & Rc & Lk & Wl & Ro & Fi) Sv].
  assert (Dc : dcount txs g' = dcount txs g) by (unfold dcount; now rewrite Dp).
  assert (Act : forall j a, active_w g' j a <-> active_w g j a).
  { intros j a. unfold active_w, startedb. rewrite W. specialize (Sv j).
    destruct (g_vs g j) as [v|], (g_vs g' j) as [v'|]; try contradiction.
    - destruct Sv as (A1 & A2 & A3 & _).
      split; intros (u & Hu & H); inversion Hu; subst; eexists; split; eauto; rewrite ?A1, ?A2, ?A3 in *; auto.
    - split; intros (u & Hu & _); discriminate. }
  constructor.
  - apply (v_real_mono g g'); auto. intros j a [T|T]; [left; now rewrite SD'|right; now apply Act].
  - intros i v' t Hv' Ht Hnd. specialize (Sv i). rewrite Hv' in Sv.
    destruct (g_vs g i) as [v|] eqn:Hv; try contradiction. destruct Sv as (A1 & A2 & A3 & _).
    destruct (V2 i v t Hv Ht) as [w (S1 & S2 & S3 & S4 & S5 & S6)]; [congruence|].
    exists w. unfold shadow_ok. rewrite (cur_prog_same g g') by (now rewrite W).
    split; [exact S1|]. split; [exact S2|]. split; [exact S3|]. split; [|split].
    + intros a Na. apply S4. intro A. apply Na. now apply Act.
    + intros a A. rewrite R. apply S5. now apply Act.
    + intro St. apply S6. unfold startedb in *. now rewrite <- W.
  - intros i v' a x Hv' Ha. specialize (Sv i). rewrite Hv' in Sv.
    destruct (g_vs g i) as [v|] eqn:Hv; try contradiction. destruct Sv as (A1 & _).
    eapply V3; eauto. now rewrite <- A1.
  - intros i v' a x Hv' Ha. specialize (Sv i). rewrite Hv' in Sv.
    destruct (g_vs g i) as [v|] eqn:Hv; try contradiction. destruct Sv as (A1 & _).
    eapply V4; eauto. now rewrite <- A1.
  - intros i v' t Hv' Ht Hd Wt. specialize (Sv i). rewrite Hv' in Sv.
    destruct (g_vs g i) as [v|] eqn:Hv; try contradiction. destruct Sv as (A1 & A2 & A3 & A4 & A5 & A6).
    destruct (V5 i v t Hv Ht) as (w & Hc & Hw); auto; [congruence|].
    exists w. split; auto. destruct A5 as [A5|[A5 _]]; congruence.
  - intros a x. rewrite Ro. apply V6.
  - intros i r. rewrite Rc. apply V7.
  - intros i. unfold finishedb. rewrite W, Rc. apply V8.
  - intros w. rewrite Fi. apply V9.
  - intros j v' t Hv' Ht Hc. rewrite Dc. pose proof (Sv j) as Sj. rewrite Hv' in Sj.
    destruct (g_vs g j) as [v|] eqn:Hv; try contradiction. destruct Sj as (_ & _ & _ & _ & A5 & _).
    destruct (v_committed v) eqn:C.
    + apply (V10 j v t Hv Ht). congruence.
    + right. apply (Hcs j v v' Hv Hv' C Hc).
  - intros i v' t b Hv' Ht Wn Hb. pose proof (Sv i) as Si. rewrite Hv' in Si.
    destruct (g_vs g i) as [v|] eqn:Hv; try contradiction.
    destruct Si as (_ & _ & _ & _ & _ & [E|E] & _).
    + apply (V11 i v t b Hv Ht Wn). congruence.
    + exfalso. apply Wn. apply (Hbs i v v' t Hv Hv' Ht). congruence.
  - intros i v' s Hv' Hnd Hs. pose proof (Sv i) as Si. rewrite Hv' in Si.
    destruct (g_vs g i) as [v|] eqn:Hv; try contradiction. destruct Si as (A1 & _ & A3 & _ & _ & _ & _ & A8).
    rewrite A1. apply (V12 i v s Hv); congruence.
  - intros i v' a x Hv' Hnd Hx. pose proof (Sv i) as Si. rewrite Hv' in Si.
    destruct (g_vs g i) as [v|] eqn:Hv; try contradiction. destruct Si as (_ & _ & A3 & _ & _ & _ & A7 & _).
    apply (V13 i v a x Hv); congruence.
Qed.

(* ------------------------------------------------------------------ *)
(* the value handed out by a depend that has committed                   *)

Lemma peek_value g i a d x : Inv1 g -> Inv2 g -> last_writer txs i a = Some d -> i <= n ->
  is_done g d = true -> peek g d a = Some x -> x = WB i a.
Proof.
  intros I V L Hi D P. destruct (last_writer_Some _ _ _ _ L) as (Hd & [td [Htd Ed]] & Hno).
  assert (E : WB i a = WB (S d) a).
  { apply (world_before_frame txs w0 Hwd); try lia. intros k Hk. apply Hno. lia. }
  rewrite E. clear E.
  pose proof (done_started _ _ _ I D) as St.
  unfold is_done in D. destruct (g_vs g d) as [vd|] eqn:Hvd; try discriminate.
  pose proof (i_vs_ok _ _ I _ _ _ Hvd Htd) as OK. unfold peek in P. rewrite Hvd in P.
  apply can_write_spec in Ed as [Ed|Ed].
  - pose proof (vo_accts _ _ _ _ _ OK a) as LA. rewrite (entry_world_write _ a Ed) in LA.
    destruct (v_accts vd a); try contradiction.
    destruct (v_pubw _ V _ _ _ Hvd Htd D Ed) as (w & Hc & Hw).
    rewrite (vo_wlock _ _ _ _ _ OK), D, Ed, Hc in P.
    destruct (v_base vd); inversion P; subst; auto.
  - pose proof (vo_accts _ _ _ _ _ OK a) as LA. rewrite Ed in LA.
    destruct (v_accts vd a) as [[l st]|] eqn:Ha; try contradiction. destruct LA as [L1 L2]. cbn in L1, L2.
    rewrite D in L1. subst l. destruct st as [d'| |y].
    + discriminate.
    + destruct L2 as (_ & L2 & _). congruence.
    + inversion P; subst. eapply (v_pub _ V); eauto.
Qed.

(* ------------------------------------------------------------------ *)
(* acquiring an account                                                 *)

Lemma active_upd_other g i v a l' b j a' : g_vs g i = Some v -> (j <> i \/ a' <> a) ->
  (active_w (set_vs g i (upd_accts v a l' b)) j a' <-> active_w g j a').
Proof.
  intros Hv Hne. unfold active_w, startedb. cbn.
  destruct (Nat.eqb_spec j i); subst; [|tauto].
  destruct Hne as [Hne|Hne]; [congruence|].
  split; intros (u & Hu & Hd & H); inversion Hu; subst; eexists; (split; [eauto|]); cbn in *;
  destruct (Nat.eqb_spec a' a); try congruence; auto.
  rewrite Hv in Hu. inversion Hu; subst. cbn. destruct (Nat.eqb_spec a' a); try congruence; auto.
Qed.

Lemma entry_of_las g i v t a l : Inv1 g -> g_vs g i = Some v -> nth_error txs i = Some t ->
  v_accts v a = Some l -> exists e, entry (reqs_of t) a = Some e /\ las_ok txs g i (v_done v) a e l /\
  world_lock (reqs_of t) <> WriteLock.
Proof.
  intros I Hv Ht Ha. pose proof (vo_accts _ _ _ _ _ (i_vs_ok _ _ I _ _ _ Hv Ht) a) as LA.
  rewrite Ha in LA. destruct (entry (reqs_of t) a) as [e|] eqn:He; try contradiction.
  exists e. split; auto. split; auto. intro W. rewrite (entry_world_write _ a W) in He. discriminate.
Qed.

Lemma acqw_inv2 g i v a d : Inv1 g -> Inv2 g -> g_vs g i = Some v ->
  v_accts v a = Some (mkLas WriteLock (SDep d)) -> is_done g d = true ->
  Inv2 (set_vs g i (upd_accts v a (mkLas WriteLock SLive) (g_real g a))).
Proof.
  intros I V Hv Ha D. set (g' := set_vs g i (upd_accts v a (mkLas WriteLock SLive) (g_real g a))).
  destruct (tx_of_vs _ _ _ _ I Hv) as [t Ht].
  destruct (entry_of_las _ _ _ _ _ _ I Hv Ht Ha) as (e & He & [L1 L2] & Wnw). cbn in L1, L2.
  destruct L2 as [LW L2].
  assert (e = WriteLock /\ v_done v = false) as [-> Hnd].
  { destruct (entry_rw _ _ _ He) as [->| ->]; destruct (v_done v); try discriminate; auto. }
  assert (Hwl : v_wlock v <> WriteLock).
  { rewrite (vo_wlock _ _ _ _ _ (i_vs_ok _ _ I _ _ _ Hv Ht)), Hnd. exact Wnw. }
  assert (Ei : effw i a) by (exists t; split; auto; apply can_write_spec; auto).
  assert (Di : is_done g i = false) by (unfold is_done; now rewrite Hv).
  assert (Nact : ~ active_w g i a).
  { intros (u & Hu & _ & [H|[H _]]); assert (u = v) by congruence; subst u; congruence. }
  assert (SD : forall m, is_done g' m = is_done g m) by (intro; eapply is_done_upd_accts; eauto).
  assert (Amono : forall j a', active_w g j a' -> active_w g' j a').
  { intros j a' A. destruct (Nat.eq_dec j i) as [->|]; [destruct (Nat.eq_dec a' a) as [->|]|].
    - contradiction.
    - apply (active_upd_other g i v a (mkLas WriteLock SLive) (g_real g a) i a'); auto.
    - apply (active_upd_other g i v a (mkLas WriteLock SLive) (g_real g a) j a'); auto. }
  assert (Hi : i <= n) by (apply Nat.lt_le_incl, nth_error_Some; congruence).
  assert (Hreal : g_real g a = WB i a).
  { apply (v_real _ V); auto.
    - eapply dep_done_earlier; eauto.
    - intros j Hj Ej. destruct (Nat.eq_dec j i) as [->|].
      + intros [T|T]; [congruence|contradiction].
      + apply (later_untouched g i a j I Ei Di); [lia|exact Ej]. }
  destruct V as [V1 V2 V3 V4 V5 V6 V7 V8 V9 V10 V11 V12 V13]. constructor; auto.
  - apply (v_real_mono g g'); auto. intros j a' [T|T]; [left; now rewrite SD|right; auto].
  - intros j vj tj Hvj Htj Hndj. destruct (Nat.eq_dec j i) as [->|Hne].
    + assert (tj = t) by congruence; subst tj.
      destruct (V2 i v t Hv Ht Hnd) as [w (S1 & S2 & S3 & S4 & S5 & S6)]. exists w.
      unfold shadow_ok. rewrite (cur_prog_same g g') by reflexivity.
      split; [exact S1|]. split; [exact S2|]. split; [exact S3|]. split; [|split].
      * intros a' Na. apply S4. intro A. apply Na. auto.
      * intros a' A. change (g_real g a' = w a').
        destruct (Nat.eq_dec a' a) as [->|Hna].
        -- rewrite Hreal. symmetry. apply S4. exact Nact.
        -- apply S5. apply (active_upd_other g i v a (mkLas WriteLock SLive) (g_real g a) i a'); auto.
      * exact S6.
    + assert (Hvj' : g_vs g j = Some vj).
      { unfold g' in Hvj. cbn in Hvj. destruct (Nat.eqb_spec j i); congruence. }
      destruct (V2 j vj tj Hvj' Htj Hndj) as [w Sw]. exists w.
      apply (shadow_frame g g'); auto. cbn. destruct (Nat.eqb_spec j i); congruence.
  - intros j vj a' x Hvj Ha'. unfold g' in Hvj. cbn in Hvj. destruct (Nat.eqb_spec j i); subst.
    + inversion Hvj; subst vj. cbn in Ha'. destruct (Nat.eqb_spec a' a); [discriminate|]. eapply V3; eauto.
    + eapply V3; eauto.
  - intros j vj a' x Hvj Ha'. unfold g' in Hvj. cbn in Hvj. destruct (Nat.eqb_spec j i); subst.
    + inversion Hvj; subst vj. cbn in Ha'. destruct (Nat.eqb_spec a' a); [discriminate|]. eapply V4; eauto.
    + eapply V4; eauto.
  - intros j vj tj Hvj Htj Hdj Wj. unfold g' in Hvj. cbn in Hvj. destruct (Nat.eqb_spec j i); subst.
    + inversion Hvj; subst vj. cbn in *. congruence.
    + eapply V5; eauto.
  - intros j vj tj Hvj Htj Hc. unfold g' in Hvj. cbn in Hvj. change (dcount txs g') with (dcount txs g).
    destruct (Nat.eqb_spec j i); subst.
    + inversion Hvj; subst vj. eapply V10; eauto.
    + eapply V10; eauto.
  - intros j vj tj b Hvj Htj Wn Hb. unfold g' in Hvj. cbn in Hvj. destruct (Nat.eqb_spec j i); subst.
    + inversion Hvj; subst vj. eapply V11; eauto.
    + eapply V11; eauto.
  - intros j vj s Hvj Hndj Hs. unfold g' in Hvj. cbn in Hvj. destruct (Nat.eqb_spec j i); subst.
    + inversion Hvj; subst vj. destruct (V12 i v s Hv Hnd Hs) as (P1 & P2 & P3).
      split; [exact P1|]. split; [exact P2|]. intros a' Ha'. cbn.
      destruct (Nat.eqb_spec a' a); subst; auto.
    + eapply V12; eauto.
  - intros j vj a' x Hvj Hndj Hx. unfold g' in Hvj. cbn in Hvj. destruct (Nat.eqb_spec j i); subst.
    + inversion Hvj; subst vj. cbn in Hx. destruct (Nat.eqb_spec a' a); subst.
      * inversion Hx; subst. exact Hreal.
      * eapply V13; eauto.
    + eapply V13; eauto.
Qed.

Lemma active_upd_nolive g i v a l' b j a' : g_vs g i = Some v ->
  v_accts v a <> Some (mkLas WriteLock SLive) -> l' <> mkLas WriteLock SLive ->
  (active_w (set_vs g i (upd_accts v a l' b)) j a' <-> active_w g j a').
Proof.
  intros Hv Ho Hn. destruct (Nat.eq_dec j i) as [->|Hne]; [destruct (Nat.eq_dec a' a) as [->|Hna]|].
  - unfold active_w, startedb. cbn. rewrite Nat.eqb_refl, Hv.
    split; intros (u & Hu & Hd & H); inversion Hu; subst; eexists; (split; [eauto|]); cbn in *;
    rewrite ?Nat.eqb_refl in *; (split; [auto|]); destruct H as [H|H]; auto; congruence.
  - apply active_upd_other; auto.
  - apply active_upd_other; auto.
Qed.

Lemma acqr_inv2 g i v a l d x : Inv1 g -> Inv2 g -> g_vs g i = Some v ->
  v_accts v a = Some (mkLas l (SDep d)) -> l <> WriteLock -> is_done g d = true -> peek g d a = Some x ->
  Inv2 (set_vs g i (upd_accts v a (mkLas l (SRO x)) x)).
Proof.
  intros I V Hv Ha Hl D P. set (g' := set_vs g i (upd_accts v a (mkLas l (SRO x)) x)).
  destruct (tx_of_vs _ _ _ _ I Hv) as [t Ht].
  destruct (entry_of_las _ _ _ _ _ _ I Hv Ht Ha) as (e & He & [L1 L2] & Wnw). cbn in L1, L2.
  destruct L2 as [LW L2].
  assert (l = ReadLock) as ->.
  { destruct (entry_rw _ _ _ He) as [->| ->]; destruct (v_done v); auto; try congruence.
    specialize (L2 eq_refl). discriminate. }
  assert (Hi : i <= n) by (apply Nat.lt_le_incl, nth_error_Some; congruence).
  assert (Hx : x = WB i a) by (eapply peek_value; eauto).
  assert (SD : forall m, is_done g' m = is_done g m) by (intro; eapply is_done_upd_accts; eauto).
  assert (Act : forall j a', active_w g' j a' <-> active_w g j a').
  { intros. apply active_upd_nolive; auto; congruence. }
  destruct V as [V1 V2 V3 V4 V5 V6 V7 V8 V9 V10 V11 V12 V13]. constructor; auto.
  - apply (v_real_mono g g'); auto. intros j a' [T|T]; [left; now rewrite SD|right; now apply Act].
  - intros j vj tj Hvj Htj Hndj.
    assert (exists vj0, g_vs g j = Some vj0 /\ v_done vj0 = false) as (vj0 & Hvj0 & Hnd0).
    { unfold g' in Hvj. cbn in Hvj. destruct (Nat.eqb_spec j i); subst; eauto.
      inversion Hvj; subst vj. cbn in Hndj. eauto. }
    destruct (V2 j vj0 tj Hvj0 Htj Hnd0) as [w (S1 & S2 & S3 & S4 & S5 & S6)]. exists w.
    unfold shadow_ok. rewrite (cur_prog_same g g') by reflexivity.
    split; [exact S1|]. split; [exact S2|]. split; [exact S3|]. split; [|split].
    + intros a' Na. apply S4. intro A. apply Na. now apply Act.
    + intros a' A. apply S5. now apply Act.
    + exact S6.
  - intros j vj a' y Hvj Ha'. unfold g' in Hvj. cbn in Hvj. destruct (Nat.eqb_spec j i); subst.
    + inversion Hvj; subst vj. cbn in Ha'. destruct (Nat.eqb_spec a' a); subst.
      * inversion Ha'; subst. reflexivity.
      * eapply V3; eauto.
    + eapply V3; eauto.
  - intros j vj a' y Hvj Ha'. unfold g' in Hvj. cbn in Hvj. destruct (Nat.eqb_spec j i); subst.
    + inversion Hvj; subst vj. cbn in Ha'. destruct (Nat.eqb_spec a' a); [discriminate|]. eapply V4; eauto.
    + eapply V4; eauto.
  - intros j vj tj Hvj Htj Hdj Wj. unfold g' in Hvj. cbn in Hvj. destruct (Nat.eqb_spec j i); subst.
    + inversion Hvj; subst vj. cbn in *. eapply V5; eauto.
    + eapply V5; eauto.
  - intros j vj tj Hvj Htj Hc. unfold g' in Hvj. cbn in Hvj. change (dcount txs g') with (dcount txs g).
    destruct (Nat.eqb_spec j i); subst.
    + inversion Hvj; subst vj. eapply V10; eauto.
    + eapply V10; eauto.
  - intros j vj tj b Hvj Htj Wn Hb. unfold g' in Hvj. cbn in Hvj. destruct (Nat.eqb_spec j i); subst.
    + inversion Hvj; subst vj. eapply V11; eauto.
    + eapply V11; eauto.
  - intros j vj s Hvj Hndj Hs. unfold g' in Hvj. cbn in Hvj. destruct (Nat.eqb_spec j i); subst.
    + inversion Hvj; subst vj. cbn in Hndj. destruct (V12 i v s Hv Hndj Hs) as (P1 & P2 & P3).
      split; [exact P1|]. split; [exact P2|]. intros a' Ha'. cbn.
      destruct (Nat.eqb_spec a' a); subst; auto.
      exfalso. specialize (P3 a Ha'). congruence.
    + eapply V12; eauto.
  - intros j vj a' y Hvj Hndj Hy. unfold g' in Hvj. cbn in Hvj. destruct (Nat.eqb_spec j i); subst.
    + inversion Hvj; subst vj. cbn in Hy. destruct (Nat.eqb_spec a' a); subst.
      * inversion Hy; subst. reflexivity.
      * eapply V13; eauto.
    + eapply V13; eauto.
Qed.

(* realizeBaseInLock of a world locker preserves the value invariant *)
Lemma realize_base_inv2 g i v g' : Inv1 g -> Inv2 g -> g_vs g i = Some v -> v_wlock v <> NoLock ->
  realize_base g i = Some g' -> Inv2 g'.
Proof.
  intros I V Hv W R.
  destruct (realize_base_inv1 _ _ _ _ _ I Hv R) as (_ & Sim & (v1 & Hv1 & _ & _ & _ & _ & Cs) & _).
  pose proof (vs_created _ _ _ _ I Hv) as Hc.
  eapply inv2_st_sim; eauto.
  - intros j u u' Hu Hu' Cn Cn'. destruct (Nat.eq_dec j i) as [->|Hne].
    + assert (u' = v1) by congruence; subst u'. assert (u = v) by congruence; subst u. congruence.
    + destruct (Nat.eq_dec (S j) i) as [<-|Hne']; [left; exact Hc|].
      rewrite (realize_base_others _ _ _ R j Hne Hne') in Hu'. congruence.
  - intros j u u' t Hu Hu' Ht Hb. destruct (Nat.eq_dec j i) as [->|Hne].
    + assert (u = v) by congruence; subst u.
      pose proof (vo_wlock _ _ _ _ _ (i_vs_ok _ _ I _ _ _ Hv Ht)) as E.
      destruct (world_lock_cases (reqs_of t)) as [Wl|[Wl|Wl]]; auto.
      * rewrite Wl in E. destruct (v_done v); congruence.
      * exfalso. apply (Hnwr _ _ Ht). exact Wl.
    + exfalso. apply Hb.
      destruct (Nat.eq_dec (S j) i) as [<-|Hne'].
      * (* the parent only gets its committed field set *)
        unfold realize_base in R. rewrite Hv in R. destruct (v_base v); [inversion R; subst; congruence|].
        destruct (realize g j) as [g1|] eqn:Rj; try discriminate.
        destruct (g_vs g1 j) as [p|] eqn:Hp; try discriminate.
        destruct (g_vs g1 (S j)) as [v'|]; try discriminate. inversion R; subst. cbn in Hu'.
        destruct (Nat.eqb_spec j (S j)); [lia|]. rewrite Hp in Hu'. inversion Hu'; subst u'.
        unfold realize in Rj. destruct (forallb (is_done g) (chain g j)); try discriminate.
        rewrite Hu in Rj. destruct (v_committed u); inversion Rj; subst.
        -- congruence.
        -- cbn in Hp. rewrite Nat.eqb_refl in Hp. inversion Hp; subst. reflexivity.
      * rewrite (realize_base_others _ _ _ R j Hne Hne') in Hu'. congruence.
Qed.

(* GetAccountState preserves the value invariant *)
Lemma access_inv2 g i a g' h : Inv1 g -> Inv2 g -> access g i a = Some (g', h) -> Inv2 g'.
Proof.
  intros I V H. destruct (access_cases _ _ _ _ _ H) as
    [v d Hv Ha D -> ->|v l d x Hv Ha Hl D P -> ->|v l Hv Ha -> ->|v l x Hv Ha -> ->|v v' Hv Ha W R Hv' Hh Hb]; auto.
  - eapply acqw_inv2; eauto.
  - eapply acqr_inv2; eauto.
  - eapply realize_base_inv2; eauto.
Qed.

(* what the handle returned by GetAccountState shows is the shadow's value *)
Lemma handle_value g i a g' h : Inv1 g -> Inv2 g -> access g i a = Some (g', h) ->
  startedb g i = true -> finishedb g i = false ->
  forall v' t w, g_vs g' i = Some v' -> nth_error txs i = Some t -> shadow_ok g' i t w ->
  match h with HLive => active_w g' i a | HRO x => x = w a end.
Proof.
  intros I V H St Fi v' t w Hv' Ht (S1 & S2 & S3 & S4 & S5 & S6).
  destruct (access_inv1 _ _ _ _ _ _ I H) as (I' & SD & VO).
  pose proof (access_inv2 _ _ _ _ _ I V H) as V'.
  assert (Fi' : finishedb g' i = false).
  { destruct VO as (_ & W & _). unfold finishedb in *. now rewrite W. }
  assert (St' : startedb g' i = true).
  { destruct VO as (_ & W & _). unfold startedb in *. now rewrite W. }
  destruct (not_done_of_phase _ _ _ _ _ I' Hv' Ht Fi') as (Hnd' & Hc' & Hwl').
  pose proof (i_vs_ok _ _ I' _ _ _ Hv' Ht) as OK'.
  assert (RO : forall x, v_accts v' a = Some (mkLas ReadLock (SRO x)) -> x = w a).
  { intros x Ha'. rewrite (v_ro _ V' _ _ _ _ Hv' Ha'). symmetry. apply S4.
    intros (u & Hu & _ & [A|[A _]]); assert (u = v') by congruence; subst u; try congruence.
    pose proof (vo_accts _ _ _ _ _ OK' a) as LA. rewrite Ha' in LA.
    rewrite Hwl' in A. rewrite (entry_world_write _ a A) in LA. exact LA. }
  destruct (access_cases _ _ _ _ _ H) as
    [v d Hv Ha D E ->|v l d x Hv Ha Hl D P E ->|v l Hv Ha E ->|v l x Hv Ha E ->|v v1 Hv Ha W R Hv1 Hh Hb].
  - subst g'. cbn in Hv'. rewrite Nat.eqb_refl in Hv'. inversion Hv'; subst v'.
    exists (upd_accts v a (mkLas WriteLock SLive) (g_real g a)). split; [cbn; now rewrite Nat.eqb_refl|].
    split; auto. left. cbn. now rewrite Nat.eqb_refl.
  - subst g'. cbn in Hv'. rewrite Nat.eqb_refl in Hv'. inversion Hv'; subst v'.
    apply RO. cbn. rewrite Nat.eqb_refl.
    pose proof (vo_accts _ _ _ _ _ OK' a) as LA. cbn in LA. rewrite Nat.eqb_refl in LA.
    destruct (entry (reqs_of t) a) as [e|] eqn:He; try contradiction. destruct LA as [L1 [[L2|L2] _]]; cbn in *.
    + subst e. rewrite Hnd' in L1. congruence.
    + congruence.
  - subst g'. assert (v' = v) by congruence; subst v'.
    exists v. split; auto. split; auto. left.
    pose proof (vo_accts _ _ _ _ _ OK' a) as LA. rewrite Ha in LA.
    destruct (entry (reqs_of t) a) as [e|] eqn:He; try contradiction. destruct LA as [L1 (L2 & _)]; cbn in *.
    subst e. rewrite Hnd' in L1. congruence.
  - subst g'. assert (v' = v) by congruence; subst v'. apply RO.
    pose proof (vo_accts _ _ _ _ _ OK' a) as LA. rewrite Ha in LA.
    destruct (entry (reqs_of t) a) as [e|] eqn:He; try contradiction. destruct LA as [L1 [[L2|L2] _]]; cbn in *.
    + subst e. rewrite Hnd' in L1. congruence.
    + congruence.
  - assert (v1 = v') by congruence; subst v1. rewrite Hc' in Hh.
    destruct (tx_of_vs _ _ _ _ I Hv) as [t0 Ht0]. assert (t0 = t) by congruence; subst t0.
    destruct (not_done_of_phase _ _ _ _ _ I Hv Ht Fi) as (Hnd & Hc & Hwl).
    assert (Ww : world_lock (reqs_of t) = WriteLock).
    { destruct (world_lock_cases (reqs_of t)) as [E|[E|E]]; auto.
      - rewrite Hwl in W. congruence.
      - exfalso. apply (Hnwr _ _ Ht). exact E. }
    rewrite Hwl, Ww in Hh. subst h.
    exists v'. split; auto. split; auto. right. split; auto. congruence.
Qed.

(* ------------------------------------------------------------------ *)
(* steps that leave the virtual states alone                            *)

Lemma active_dec g i a : active_w g i a \/ ~ active_w g i a.
Proof.
  unfold active_w. destruct (g_vs g i) as [v|]; [|right; intros (u & Hu & _); discriminate].
  destruct (v_done v) eqn:D; [right; intros (u & Hu & Hd & _); inversion Hu; subst; congruence|].
  destruct (v_accts v a) as [[[] []]|] eqn:A;
  try (left; exists v; split; auto; split; auto; left; reflexivity);
  (destruct (v_wlock v) eqn:W;
   try (right; intros (u & Hu & _ & [H|[H _]]); inversion Hu; subst; congruence);
   destruct (startedb g i) eqn:S;
   [left; exists v; split; auto|right; intros (u & Hu & _ & [H|[_ H]]); inversion Hu; subst; congruence]).
Qed.

Lemma inv2_frame_act g g' : Inv2 g -> g_vs g' = g_vs g -> g_real g' = g_real g ->
  g_rocache g' = g_rocache g -> g_rcts g' = g_rcts g -> g_final g' = g_final g ->
  dcount txs g' = dcount txs g ->
  (forall j a, active_w g j a -> active_w g' j a) -> (forall j, finishedb g' j = finishedb g j) ->
  (forall j v t w, g_vs g j = Some v -> nth_error txs j = Some t -> v_done v = false ->
     shadow_ok g j t w -> exists w', shadow_ok g' j t w') ->
  Inv2 g'.
Proof.
  intros [V1 V2 V3 V4 V5 V6 V7 V8 V9 V10 V11 V12 V13] Hvs Hr Hc Hrc Hf Hdc Act Hfi Hsh.
  assert (SD : forall m, is_done g' m = is_done g m) by (intro; unfold is_done; now rewrite Hvs).
  constructor.
  - apply (v_real_mono g g'); auto. intros j a [T|T]; [left; now rewrite SD|right; now apply Act].
  - intros j v t Hv Ht Hnd. rewrite Hvs in Hv. destruct (V2 j v t Hv Ht Hnd) as [w Sw]. eauto.
  - intros j v a x. rewrite Hvs. apply V3.
  - intros j v a x. rewrite Hvs. apply V4.
  - intros j v t. rewrite Hvs. apply V5.
  - intros a x. rewrite Hc. apply V6.
  - intros j r. rewrite Hrc. apply V7.
  - intros j. rewrite Hfi, Hrc. apply V8.
  - intros w. rewrite Hf. apply V9.
  - intros j v t Hv Ht Hcm. rewrite Hvs in Hv. rewrite Hdc. apply (V10 j v t Hv Ht Hcm).
  - intros j v t b. rewrite Hvs. apply V11.
  - intros j v s. rewrite Hvs. apply V12.
  - intros j v a x. rewrite Hvs. apply V13.
Qed.

Lemma inv2_frame g g' : Inv2 g -> g_vs g' = g_vs g -> g_real g' = g_real g ->
  g_rocache g' = g_rocache g -> g_rcts g' = g_rcts g -> g_final g' = g_final g ->
  g_disp g' = g_disp g ->
  (forall j, startedb g' j = startedb g j) -> (forall j, finishedb g' j = finishedb g j) ->
  (forall j v t w, g_vs g j = Some v -> nth_error txs j = Some t -> v_done v = false ->
     shadow_ok g j t w -> exists w', shadow_ok g' j t w') ->
  Inv2 g'.
Proof.
  intros V Hvs Hr Hc Hrc Hf Hd Hs Hfi Hsh. eapply inv2_frame_act; eauto.
  - unfold dcount. now rewrite Hd.
  - intros j a. unfold active_w. rewrite Hvs, Hs. tauto.
Qed.

(* a shadow carries over when the remaining program and the active set of j are the same *)
Lemma shadow_same g g' j t w : cur_prog g' j t = cur_prog g j t ->
  (forall a, active_w g' j a <-> active_w g j a) -> g_real g' = g_real g ->
  (startedb g' j = false -> startedb g j = false) ->
  shadow_ok g j t w -> shadow_ok g' j t w.
Proof.
  intros Hp Ha Hr Hs (S1 & S2 & S3 & S4 & S5 & S6). unfold shadow_ok. rewrite Hp, Hr.
  split; [exact S1|]. split; [exact S2|]. split; [exact S3|]. split; [|split].
  - intros a Na. apply S4. intro A. apply Na. now apply Ha.
  - intros a A. apply S5. now apply Ha.
  - intro St. apply S6. auto.
Qed.

Lemma active_set_work g i p j a : startedb (set_work g i p) i = startedb g i ->
  (active_w (set_work g i p) j a <-> active_w g j a).
Proof.
  intro Hs. unfold active_w. cbn [g_vs set_work].
  assert (E : startedb (set_work g i p) j = startedb g j).
  { destruct (Nat.eq_dec j i) as [->|]; auto. unfold startedb. cbn. destruct (Nat.eqb_spec j i); congruence. }
  rewrite E. tauto.
Qed.

(* the worker of i moves on inside Execute *)
Lemma inv2_set_run g i p p' : Inv2 g -> g_work g i = Some (WRun p) ->
  (forall v t w, g_vs g i = Some v -> nth_error txs i = Some t -> v_done v = false ->
     shadow_ok g i t w -> exists w', shadow_ok (set_work g i (WRun p')) i t w') ->
  Inv2 (set_work g i (WRun p')).
Proof.
  intros V Hw Hsh.
  assert (Hs : forall j, startedb (set_work g i (WRun p')) j = startedb g j).
  { intro j. unfold startedb. cbn. destruct (Nat.eqb_spec j i); subst; auto. now rewrite Hw. }
  assert (Hf : forall j, finishedb (set_work g i (WRun p')) j = finishedb g j).
  { intro j. unfold finishedb. cbn. destruct (Nat.eqb_spec j i); subst; auto. now rewrite Hw. }
  eapply inv2_frame; eauto.
  intros j v t w Hv Ht Hnd Sw. destruct (Nat.eq_dec j i) as [->|Hne]; eauto.
  exists w. apply (shadow_same g (set_work g i (WRun p')) j t w); auto.
  - unfold cur_prog. cbn. destruct (Nat.eqb_spec j i); [contradiction|reflexivity].
  - intro a. apply active_set_work. apply Hs.
  - rewrite Hs. auto.
Qed.

Lemma cur_prog_run g i t p : g_work g i = Some (WRun p) -> cur_prog g i t = p.
Proof. unfold cur_prog. now intros ->. Qed.

Lemma phase_flags g i p : g_work g i = Some (WRun p) -> startedb g i = true /\ finishedb g i = false.
Proof. unfold startedb, finishedb. now intros ->. Qed.

Lemma read_inv2 g i a k g1 h : Inv1 g -> Inv2 g -> g_work g i = Some (WRun (Read a k)) ->
  access g i a = Some (g1, h) ->
  Inv2 (set_work g1 i (WRun (k (match h with HLive => g_real g1 a | HRO x => x end)))).
Proof.
  intros I V Hw A. destruct (phase_flags _ _ _ Hw) as [St Fi].
  destruct (access_inv1 _ _ _ _ _ _ I A) as (I1 & SD & VO).
  pose proof (access_inv2 _ _ _ _ _ I V A) as V1.
  assert (Hw1 : g_work g1 i = Some (WRun (Read a k))) by (destruct VO as (_ & W & _); now rewrite W).
  eapply inv2_set_run; eauto.
  intros v t w Hv Ht Hnd Sw. pose proof (handle_value _ _ _ _ _ I V A St Fi _ _ _ Hv Ht Sw) as HV.
  destruct Sw as (S1 & S2 & S3 & S4 & S5 & S6). rewrite (cur_prog_run _ _ _ _ Hw1) in *.
  assert (Val : match h with HLive => g_real g1 a | HRO x => x end = w a).
  { destruct h; auto. }
  rewrite Val. exists w. unfold shadow_ok. rewrite (cur_prog_run (set_work g1 i (WRun (k (w a)))) i t (k (w a))).
  2:{ cbn. now rewrite Nat.eqb_refl. }
  assert (Hs : startedb (set_work g1 i (WRun (k (w a)))) i = startedb g1 i).
  { unfold startedb. cbn. now rewrite Nat.eqb_refl, Hw1. }
  split; [apply touches_read_inv in S1; apply S1|]. split; [exact S2|]. split; [exact S3|]. split; [|split].
  - intros a' Na. apply S4. intro Ac. apply Na. now apply active_set_work.
  - intros a' Ac. apply S5. now apply (active_set_work g1 i _ i a') in Ac.
  - rewrite Hs. destruct (phase_flags _ _ _ Hw1) as [St1 _]. congruence.
Qed.

Lemma write_inv2 g i a x k g1 : Inv1 g -> Inv2 g -> g_work g i = Some (WRun (Write a x k)) ->
  access g i a = Some (g1, HLive) ->
  Inv2 (set_work (set_real g1 (upd (g_real g1) a x)) i (WRun k)).
Proof.
  intros I V Hw A. destruct (phase_flags _ _ _ Hw) as [St Fi].
  destruct (access_inv1 _ _ _ _ _ _ I A) as (I1 & SD & VO).
  pose proof (access_inv2 _ _ _ _ _ I V A) as V1.
  assert (Hw1 : g_work g1 i = Some (WRun (Write a x k))) by (destruct VO as (_ & W & _); now rewrite W).
  assert (exists v t, g_vs g1 i = Some v /\ nth_error txs i = Some t /\ v_done v = false) as (v & t & Hv & Ht & Hnd).
  { assert (Hs : i < scount txs g1).
    { destruct (Nat.lt_ge_cases i (scount txs g1)); auto. rewrite (i_wk_none _ _ I1 i) in Hw1 by assumption. discriminate. }
    pose proof (scount_le_dcount txs g1). destruct (i_vs_some _ _ I1 i) as [v Hv]; [lia|].
    destruct (tx_of_vs _ _ _ _ I1 Hv) as [t Ht]. exists v, t. split; auto. split; auto.
    destruct (phase_flags _ _ _ Hw1) as [_ Fi1].
    apply (not_done_of_phase _ _ _ _ _ I1 Hv Ht Fi1). }
  destruct (v_shadow _ V1 _ _ _ Hv Ht Hnd) as [w Sw].
  pose proof (handle_value _ _ _ _ _ I V A St Fi _ _ _ Hv Ht Sw) as Act. cbn in Act.
  set (g2 := set_real g1 (upd (g_real g1) a x)).
  set (g' := set_work g2 i (WRun k)).
  assert (ActE : forall j a', active_w g' j a' <-> active_w g1 j a').
  { intros j a'. unfold g'. rewrite active_set_work.
    - unfold active_w, g2. cbn. tauto.
    - unfold startedb, g2. cbn. now rewrite Nat.eqb_refl, Hw1. }
  assert (SDE : forall m, is_done g' m = is_done g1 m) by reflexivity.
  assert (Ei : effw i a) by (eapply active_effw; eauto).
  assert (Di : is_done g1 i = false) by (eapply active_not_done; eauto).
  destruct V1 as [V1 V2 V3 V4 V5 V6 V7 V8 V9 V10 V11 V12 V13]. constructor; auto.
  - intros a' k' Hk H1 H2. destruct (Nat.eq_dec a' a) as [->|Hna].
    + exfalso. destruct (Nat.lt_ge_cases i k') as [Hik|Hik].
      * specialize (H1 i Hik Ei). rewrite SDE in H1. congruence.
      * apply (H2 i Hik Ei). right. now apply ActE.
    + change (upd (g_real g1) a x a' = WB k' a'). rewrite upd_other by auto. apply V1; auto.
      intros j Hj Ej [T|T]; apply (H2 j Hj Ej); [left; exact T|right; now apply ActE].
  - intros j vj tj Hvj Htj Hndj. change (g_vs g1 j = Some vj) in Hvj.
    destruct (Nat.eq_dec j i) as [->|Hne].
    + assert (vj = v) by congruence; subst vj. assert (tj = t) by congruence; subst tj.
      destruct Sw as (S1 & S2 & S3 & S4 & S5 & S6). rewrite (cur_prog_run _ _ _ _ Hw1) in *.
      exists (upd w a x). unfold shadow_ok. rewrite (cur_prog_run g' i t k).
      2:{ unfold g'. cbn. now rewrite Nat.eqb_refl. }
      split; [apply touches_write_inv in S1; apply S1|]. split; [exact S2|]. split; [exact S3|]. split; [|split].
      * intros a' Na. destruct (Nat.eq_dec a' a) as [->|Hna].
        -- exfalso. apply Na. now apply ActE.
        -- rewrite upd_other by auto. apply S4. intro Ac. apply Na. now apply ActE.
      * intros a' Ac. change (upd (g_real g1) a x a' = upd w a x a').
        destruct (Nat.eq_dec a' a) as [->|Hna].
        -- now rewrite !upd_same.
        -- rewrite !upd_other by auto. apply S5. now apply ActE.
      * intro St'. exfalso. unfold startedb, g' in St'. cbn in St'. rewrite Nat.eqb_refl in St'. discriminate.
    + destruct (V2 j vj tj Hvj Htj Hndj) as [wj (S1 & S2 & S3 & S4 & S5 & S6)]. exists wj.
      assert (Cp : cur_prog g' j tj = cur_prog g1 j tj).
      { unfold cur_prog, g'. cbn. destruct (Nat.eqb_spec j i); [contradiction|reflexivity]. }
      unfold shadow_ok. rewrite Cp.
      split; [exact S1|]. split; [exact S2|]. split; [exact S3|]. split; [|split].
      * intros a' Na. apply S4. intro Ac. apply Na. now apply ActE.
      * intros a' Ac. apply ActE in Ac. change (upd (g_real g1) a x a' = wj a').
        destruct (Nat.eq_dec a' a) as [->|Hna].
        -- exfalso. apply Hne. eapply active_unique; eauto.
        -- rewrite upd_other by auto. apply S5. exact Ac.
      * intro St'. apply S6. unfold startedb, g' in St'. cbn in St'.
        destruct (Nat.eqb_spec j i); [contradiction|exact St'].
  - intros j. unfold finishedb, g'. cbn. destruct (Nat.eqb_spec j i); subst.
    + discriminate.
    + apply V8.
Qed.

(* ------------------------------------------------------------------ *)
(* the worker enters Execute                                            *)

(* a world writer that has realized its base and not yet started: the real world
   state is the world it starts from *)
Lemma world_writer_real g i t v : Inv1 g -> Inv2 g -> g_vs g i = Some v -> nth_error txs i = Some t ->
  world_lock (reqs_of t) = WriteLock -> v_done v = false -> startedb g i = false ->
  (forall m, m < i -> is_done g m = true) -> forall a, g_real g a = WB i a.
Proof.
  intros I V Hv Ht Wl Hnd Ns Bs a. pose proof (i_vs_ok _ _ I _ _ _ Hv Ht) as OK.
  assert (Di : is_done g i = false) by (unfold is_done; now rewrite Hv).
  assert (Ei : forall a, effw i a).
  { intro x. exists t. split; auto. apply can_write_spec. auto. }
  assert (NA : forall a, ~ active_w g i a).
  { intros x (u & Hu & _ & [H|[_ S]]).
    - assert (u = v) by congruence; subst u.
      pose proof (vo_accts _ _ _ _ _ OK x) as LA. rewrite H, (entry_world_write _ x Wl) in LA. exact LA.
    - congruence. }
  assert (Hi : i <= n) by (apply Nat.lt_le_incl, nth_error_Some; congruence).
  apply (v_real _ V); auto.
  intros j Hj Ej. destruct (Nat.eq_dec j i) as [->|].
  - intros [T|T]; [congruence|exact (NA a T)].
  - apply (later_untouched g i a j I (Ei a) Di); [lia|exact Ej].
Qed.

Lemma started_inv2 g i t v : Inv1 g -> Inv2 g -> g_work g i = Some WStart ->
  nth_error txs i = Some t -> g_vs g i = Some v ->
  (world_lock (reqs_of t) <> NoLock -> v_base v <> None) ->
  Inv2 (set_work g i (WRun (tx_prog t))).
Proof.
  intros I V Hw Ht Hv Hb. set (g' := set_work g i (WRun (tx_prog t))).
  assert (Fi : finishedb g i = false) by (unfold finishedb; now rewrite Hw).
  assert (Ns : startedb g i = false) by (unfold startedb; now rewrite Hw).
  destruct (not_done_of_phase _ _ _ _ _ I Hv Ht Fi) as (Hnd & Hc & Hwl).
  pose proof (i_vs_ok _ _ I _ _ _ Hv Ht) as OK.
  assert (Hfi : forall j, finishedb g' j = finishedb g j).
  { intro j. unfold finishedb, g'. cbn. destruct (Nat.eqb_spec j i); subst; auto; now rewrite Hw. }
  assert (Cp : forall j tj, nth_error txs j = Some tj -> cur_prog g' j tj = cur_prog g j tj).
  { intros j tj Htj. unfold cur_prog, g'. cbn. destruct (Nat.eqb_spec j i); subst; auto.
    rewrite Hw. congruence. }
  assert (ActO : forall j a, j <> i -> (active_w g' j a <-> active_w g j a)).
  { intros j a Hne. unfold active_w, startedb, g'. cbn. destruct (Nat.eqb_spec j i); [contradiction|tauto]. }
  assert (StO : forall j, j <> i -> startedb g' j = startedb g j).
  { intros j Hne. unfold startedb, g'. cbn. destruct (Nat.eqb_spec j i); [contradiction|reflexivity]. }
  assert (StI : startedb g' i = true) by (unfold startedb, g'; cbn; now rewrite Nat.eqb_refl).
  assert (ActM : forall j a, active_w g j a -> active_w g' j a).
  { intros j a A. destruct (Nat.eq_dec j i) as [->|Hne]; [|now apply ActO].
    destruct A as (u & Hu & Hd & [H|[H S]]).
    - exists u. split; auto.
    - congruence. }
  destruct (world_lock_cases (reqs_of t)) as [Wl|[Wl|Wl]].
  - (* no world lock: the active sets do not change *)
    assert (ActI : forall a, active_w g' i a -> active_w g i a).
    { intros a (u & Hu & Hd & [H|[H S]]); change (g_vs g i = Some u) in Hu.
      - exists u. split; auto.
      - assert (u = v) by congruence; subst u. rewrite Hwl, Wl in H. discriminate. }
    eapply inv2_frame_act; eauto.
    intros j vj tj w Hvj Htj Hndj Sw. exists w. apply (shadow_same g g' j tj w); auto.
    + intro a. split; auto. destruct (Nat.eq_dec j i) as [->|Hne]; auto. apply ActO; auto.
    + destruct (Nat.eq_dec j i) as [->|Hne]; [congruence|]. rewrite StO; auto.
  - exfalso. apply (Hnwr _ _ Ht). exact Wl.
  - (* world write lock: from now on it holds every live account *)
    assert (Bs : forall m, m < i -> is_done g m = true).
    { apply (vo_base _ _ _ _ _ OK). apply Hb. congruence. }
    pose proof (world_writer_real g i t v I V Hv Ht Wl Hnd Ns Bs) as Hreal.
    assert (NA : forall a, ~ active_w g i a).
    { intros x (u & Hu & _ & [H|[_ S]]).
      - assert (u = v) by congruence; subst u.
        pose proof (vo_accts _ _ _ _ _ OK x) as LA. rewrite H, (entry_world_write _ x Wl) in LA. exact LA.
      - congruence. }
    eapply inv2_frame_act; eauto.
    intros j vj tj w Hvj Htj Hndj Sw. destruct (Nat.eq_dec j i) as [->|Hne].
    + assert (tj = t) by congruence; subst tj. destruct Sw as (S1 & S2 & S3 & S4 & S5 & S6).
      exists w. unfold shadow_ok. rewrite (Cp _ _ Ht).
      split; [exact S1|]. split; [exact S2|]. split; [exact S3|]. split; [|split].
      * intros a _. apply S4. apply NA.
      * intros a _. change (g_real g a = w a). rewrite Hreal. symmetry. apply S4. apply NA.
      * congruence.
    + exists w. apply (shadow_same g g' j tj w); auto; try (intro a; apply ActO; auto).
      rewrite StO; auto.
Qed.

(* the worker takes its snapshot *)
Lemma snap_inv2 g i t v : Inv1 g -> Inv2 g -> g_work g i = Some WStart ->
  nth_error txs i = Some t -> g_vs g i = Some v ->
  (world_lock (reqs_of t) <> NoLock -> v_base v <> None) ->
  Inv2 (set_vs g i (set_snap v (take_snapshot g v))).
Proof.
  intros I V Hw Ht Hv Hb. set (sn := take_snapshot g v). set (g' := set_vs g i (set_snap v sn)).
  assert (Fi : finishedb g i = false) by (unfold finishedb; now rewrite Hw).
  assert (Ns : startedb g i = false) by (unfold startedb; now rewrite Hw).
  destruct (not_done_of_phase _ _ _ _ _ I Hv Ht Fi) as (Hnd & Hc & Hwl).
  pose proof (i_vs_ok _ _ I _ _ _ Hv Ht) as OK.
  assert (Act : forall j a, active_w g' j a <-> active_w g j a).
  { intros j a. unfold active_w, startedb, g'. cbn. destruct (Nat.eqb_spec j i); subst; [|tauto].
    rewrite Hv. split; intros (u & Hu & H); inversion Hu; subst; eexists; split; eauto. }
  assert (SD : forall m, is_done g' m = is_done g m).
  { intro m. unfold g'. rewrite is_done_set_vs. destruct (Nat.eqb_spec m i); subst; auto.
    unfold is_done. now rewrite Hv. }
  assert (Other : forall j vj, g_vs g' j = Some vj ->
            exists uj, g_vs g j = Some uj /\ v_accts vj = v_accts uj /\ v_done vj = v_done uj /\
                       v_committed vj = v_committed uj /\ v_base vj = v_base uj /\ v_lbase vj = v_lbase uj /\
                       (j <> i -> v_snap vj = v_snap uj)).
  { intros j vj Hvj. unfold g' in Hvj. cbn in Hvj. destruct (Nat.eqb_spec j i); subst.
    - inversion Hvj; subst vj. exists v. cbn. repeat split; auto. congruence.
    - exists vj. repeat split; auto. }
  (* the values in the snapshot *)
  assert (Snap : (forall a x, s_accts sn a = Some x -> x = WB i a) /\
                 (forall b, s_base sn = Some b -> forall a, b a = WB i a) /\
                 (forall a, s_accts sn a <> None -> v_accts v a = Some (mkLas WriteLock SLive))).
  { destruct (v_shadow _ V _ _ _ Hv Ht Hnd) as [w (S1 & S2 & S3 & S4 & S5 & S6)].
    unfold sn, take_snapshot. rewrite Hc, Hwl.
    destruct (world_lock_cases (reqs_of t)) as [Wl|[Wl|Wl]]; rewrite Wl; cbn.
    - split; [|split].
      3:{ intros a Hx. destruct (v_accts v a) as [[[] [d| |y]]|] eqn:Ha; try congruence.
          exfalso. destruct (entry_of_las _ _ _ _ _ _ I Hv Ht Ha) as (e & He & [L1 [[L2|L2] _]] & _); cbn in *;
          rewrite Hnd in *; try congruence; subst e; discriminate. }
      + intros a x Hx. destruct (v_accts v a) as [[[] [d| |y]]|] eqn:Ha; try discriminate.
        * inversion Hx; subst x. rewrite <- (S6 Ns a). apply S5.
          exists v. split; auto.
        * exfalso. destruct (entry_of_las _ _ _ _ _ _ I Hv Ht Ha) as (e & He & [L1 [[L2|L2] _]] & _); cbn in *;
          rewrite Hnd in *; try congruence; subst e; discriminate.
      + intros b Hbb. apply (v_basev _ V i v t b Hv Ht); auto. congruence.
    - exfalso. apply (Hnwr _ _ Ht). exact Wl.
    - split; [discriminate|]. split; [|congruence]. intros b E a. inversion E; subst b.
      apply (world_writer_real g i t v I V Hv Ht Wl Hnd Ns).
      apply (vo_base _ _ _ _ _ OK). apply Hb. congruence. }
  destruct V as [V1 V2 V3 V4 V5 V6 V7 V8 V9 V10 V11 V12 V13]. constructor; auto.
  - apply (v_real_mono g g'); auto. intros j a [T|T]; [left; now rewrite SD|right; now apply Act].
  - intros j vj tj Hvj Htj Hndj. destruct (Other j vj Hvj) as (uj & Huj & _ & Ed & _).
    destruct (V2 j uj tj Huj Htj) as [w Sw]; [congruence|]. exists w.
    apply (shadow_same g g' j tj w); auto.
  - intros j vj a x Hvj Ha. destruct (Other j vj Hvj) as (uj & Huj & Ea & _). eapply V3; eauto; congruence.
  - intros j vj a x Hvj Ha. destruct (Other j vj Hvj) as (uj & Huj & Ea & _). eapply V4; eauto; congruence.
  - intros j vj tj Hvj Htj Hdj Wj. destruct (Other j vj Hvj) as (uj & Huj & _ & Ed & Ec & _).
    rewrite Ec. eapply V5; eauto; congruence.
  - intros j vj tj Hvj Htj Hcm. destruct (Other j vj Hvj) as (uj & Huj & _ & _ & Ec & _).
    change (dcount txs g') with (dcount txs g).
    eapply V10; eauto; congruence.
  - intros j vj tj b Hvj Htj Wn Hbb. destruct (Other j vj Hvj) as (uj & Huj & _ & _ & _ & Eb & _).
    eapply V11; eauto; congruence.
  - intros j vj s Hvj Hndj Hs. destruct (Other j vj Hvj) as (uj & Huj & _ & Ed & _ & _ & _ & Es).
    destruct (Nat.eq_dec j i) as [->|Hne].
    + unfold g' in Hvj. cbn in Hvj. rewrite Nat.eqb_refl in Hvj. inversion Hvj; subst vj. cbn in Hs.
      inversion Hs; subst s. exact Snap.
    + destruct (Other j vj Hvj) as (uj' & Huj' & Ea' & _). assert (uj' = uj) by congruence; subst uj'.
      rewrite Ea'. eapply V12; eauto; try congruence. rewrite <- Es; auto.
  - intros j vj a x Hvj Hndj Hx. destruct (Other j vj Hvj) as (uj & Huj & _ & Ed & _ & _ & El & _).
    eapply V13; eauto; congruence.
Qed.

Lemma start_inv2 g i g' : Inv1 g -> Inv2 g -> g_work g i = Some WStart ->
  step_start txs g i = Some g' -> Inv2 g'.
Proof.
  intros I V Hw H.
  destruct (nth_error txs i) as [t|] eqn:Ht; [|unfold step_start in H; rewrite Ht in H; discriminate].
  destruct (g_vs g i) as [v|] eqn:Hv; [|unfold step_start in H; rewrite Ht, Hv in H; discriminate].
  destruct (start_prefix _ _ _ _ _ _ I Hw Ht Hv H) as
    (g1 & v1 & I1 & S1 & Hv1 & Hnd1 & Hc1 & Hwl1 & Hb1 & _ & I1' & H1 & Org).
  assert (V1 : Inv2 g1).
  { destruct Org as [->|[R Wn]]; [exact V|]. exact (realize_base_inv2 g i v g1 I V Hv Wn R). }
  assert (Hw1 : g_work g1 i = Some WStart) by (destruct S1 as [(_ & W & _) _]; now rewrite W).
  pose proof (snap_inv2 g1 i t v1 I1 V1 Hw1 Ht Hv1 Hb1) as V1'.
  set (g1' := set_vs g1 i (set_snap v1 (take_snapshot g1 v1))) in *.
  destruct (access g1' i SYS) as [[g2 h]|] eqn:A; try discriminate. inversion H1; subst g'. clear H1.
  destruct (access_inv1 _ _ _ _ _ _ I1' A) as (I2 & D2 & VO2).
  pose proof (access_inv2 _ _ _ _ _ I1' V1' A) as V2.
  assert (Hw2 : g_work g2 i = Some WStart).
  { destruct VO2 as (_ & W2 & _). rewrite W2. exact Hw1. }
  assert (Hv1' : g_vs g1' i = Some (set_snap v1 (take_snapshot g1 v1))) by (unfold g1'; cbn; now rewrite Nat.eqb_refl).
  destruct (access_keep _ _ _ _ _ _ _ I1' A Hv1') as (v2 & Hv2 & B2 & _).
  eapply started_inv2; eauto.
Qed.

(* ------------------------------------------------------------------ *)
(* Commit                                                               *)

Lemma commit_inv2 g i r g1 : Inv1 g -> Inv2 g -> g_work g i = Some (WRun (Done r)) ->
  commit (set_rct g i r) i = Some g1 -> Inv2 (set_work g1 i WRelease).
Proof.
  intros I V Hw H. unfold commit in H. cbn [g_vs set_rct] in H.
  destruct (g_vs g i) as [v|] eqn:Hv; try discriminate.
  destruct (tx_of_vs _ _ _ _ I Hv) as [t Ht]. pose proof (i_vs_ok _ _ I _ _ _ Hv Ht) as OK.
  destruct (phase_flags _ _ _ Hw) as [St Fi].
  destruct (not_done_of_phase _ _ _ _ _ I Hv Ht Fi) as (Hnd & Hc & Hwl).
  rewrite Hnd in H.
  match type of H with (if ?c then _ else _) = _ => destruct c eqn:FA; try discriminate end.
  set (accts' := fun a => match v_accts v a with
                          | Some l => match commit_las (set_rct g i r) a l with Some l' => Some l' | None => Some l end
                          | None => None end) in *.
  assert (exists wl' cm', g1 = set_vs (set_rct g i r) i (mkV wl' accts' (v_keys v) (v_base v) cm' true (v_lbase v) (v_snap v)) /\
            (world_lock (reqs_of t) = WriteLock -> cm' = Some (g_real g)) /\
            (world_lock (reqs_of t) <> WriteLock -> cm' = None)) as (wl' & cm' & -> & Hcm & Hcn).
  { rewrite Hwl in H. destruct (world_lock (reqs_of t)) eqn:Wl; inversion H; subst;
    do 2 eexists; split; eauto; split; congruence. }
  set (v' := mkV wl' accts' (v_keys v) (v_base v) cm' true (v_lbase v) (v_snap v)).
  set (g' := set_work (set_vs (set_rct g i r) i v') i WRelease).
  destruct (v_shadow _ V _ _ _ Hv Ht Hnd) as [w (S1 & S2 & S3 & S4 & S5 & S6)].
  rewrite (cur_prog_run _ _ _ _ Hw) in *.
  assert (S2' : forall a, w a = WB (S i) a) by exact S2.
  assert (S3' : r = snd (run_prog (tx_prog t) (WB i))) by exact S3.
  clear S2 S3. rename S2' into S2. rename S3' into S3.
  assert (Hi : i < n) by (apply nth_error_Some; congruence).
  assert (Di : is_done g i = false) by (unfold is_done; now rewrite Hv).
  assert (SDo : forall j, j <> i -> is_done g' j = is_done g j).
  { intros j Hne. unfold is_done, g'. cbn. destruct (Nat.eqb_spec j i); [contradiction|reflexivity]. }
  assert (SDi : is_done g' i = true) by (unfold is_done, g'; cbn; now rewrite Nat.eqb_refl).
  assert (ActO : forall j a, j <> i -> (active_w g' j a <-> active_w g j a)).
  { intros j a Hne. unfold active_w, startedb, g'. cbn. destruct (Nat.eqb_spec j i); [contradiction|tauto]. }
  assert (NAi : forall a, ~ active_w g' i a).
  { intros a (u & Hu & Hd & _). unfold g' in Hu. cbn in Hu. rewrite Nat.eqb_refl in Hu.
    inversion Hu; subst u. discriminate. }
  (* the live value of an account i holds or never touched *)
  assert (Hreal : forall a, eff_writer t a = true ->
            (forall j, j < i -> effw j a -> is_done g j = true) -> g_real g a = WB (S i) a).
  { intros a Ea H1. assert (Ei : effw i a) by (exists t; auto).
    destruct (active_dec g i a) as [A|NA].
    - rewrite (S5 a A). apply S2.
    - rewrite <- S2, (S4 a NA). apply (v_real _ V); auto; [lia|].
      intros j Hj Ej. destruct (Nat.eq_dec j i) as [->|].
      + intros [T|T]; [congruence|contradiction].
      + apply (later_untouched g i a j I Ei Di); [lia|exact Ej]. }
  pose proof V as Vall.
  destruct V as [V1 V2 V3 V4 V5 V6 V7 V8 V9 V10 V11 V12 V13]. constructor.
  - intros a k Hk H1 H2. change (g_real g a = WB k a).
    destruct (eff_writer t a) eqn:Ea.
    + assert (Ei : effw i a) by (exists t; auto).
      destruct (Nat.lt_ge_cases i k) as [Hik|Hik].
      2:{ exfalso. apply (H2 i Hik Ei). left. exact SDi. }
      assert (Hno : forall j, S i <= j < k -> ~ effw j a).
      { intros j Hj Ej. assert (Dj : is_done g j = true) by (rewrite <- SDo by lia; apply H1; [lia|exact Ej]).
        pose proof (touched_earlier _ _ _ I Ej (or_introl Dj) i ltac:(lia) Ei). congruence. }
      rewrite (world_before_frame txs w0 Hwd a (S i) k) by (auto; lia).
      apply Hreal; auto. intros j Hj Ej. rewrite <- SDo by lia. apply H1; [lia|exact Ej].
    + apply V1; auto.
      * intros j Hj Ej. destruct (Nat.eq_dec j i) as [->|Hne].
        -- destruct Ej as [t' [Ht' Ea']]. congruence.
        -- rewrite <- SDo by auto. auto.
      * intros j Hj Ej T. destruct (Nat.eq_dec j i) as [->|Hne].
        -- destruct Ej as [t' [Ht' Ea']]. congruence.
        -- apply (H2 j Hj Ej). destruct T as [T|T]; [left; now rewrite SDo|right; now apply ActO].
  - intros j vj tj Hvj Htj Hndj. unfold g' in Hvj. cbn in Hvj. destruct (Nat.eqb_spec j i); subst.
    + inversion Hvj; subst vj. discriminate.
    + destruct (V2 j vj tj Hvj Htj Hndj) as [wj Sw]. exists wj.
      apply (shadow_frame g g'); auto; unfold g'; cbn; destruct (Nat.eqb_spec j i); congruence.
  - intros j vj a x Hvj Ha. unfold g' in Hvj. cbn in Hvj. destruct (Nat.eqb_spec j i); subst.
    + inversion Hvj; subst vj. cbn in Ha. unfold accts' in Ha.
      destruct (v_accts v a) as [l|] eqn:Hl; try discriminate.
      destruct (entry_of_las _ _ _ _ _ _ I Hv Ht Hl) as (e & He & [L1 L2] & _). rewrite Hnd in L1.
      change (commit_las (set_rct g i _) a l) with (commit_las g a l) in Ha.
      unfold commit_las in Ha. rewrite L1 in Ha.
      destruct (entry_rw _ _ _ He) as [->| ->].
      * inversion Ha; subst l. eapply V3; eauto.
      * destruct (l_st l) as [d| |y]; cbn in Ha.
        -- destruct (is_done g d); [destruct (peek g d a)|]; inversion Ha; subst; try discriminate;
           cbn in *; congruence.
        -- discriminate.
        -- discriminate.
    + eapply V3; eauto.
  - intros j vj a x Hvj Ha. unfold g' in Hvj. cbn in Hvj. destruct (Nat.eqb_spec j i); subst.
    + inversion Hvj; subst vj. cbn in Ha. unfold accts' in Ha.
      destruct (v_accts v a) as [l|] eqn:Hl; try discriminate.
      destruct (entry_of_las _ _ _ _ _ _ I Hv Ht Hl) as (e & He & [L1 L2] & Wnw). rewrite Hnd in L1.
      change (commit_las (set_rct g i _) a l) with (commit_las g a l) in Ha.
      unfold commit_las in Ha. rewrite L1 in Ha.
      destruct (entry_rw _ _ _ He) as [->| ->].
      * inversion Ha; subst l. cbn in L1. discriminate.
      * assert (NWl : v_wlock v <> WriteLock) by (rewrite Hwl; exact Wnw).
        destruct (l_st l) as [d| |y] eqn:Hst; cbn in Ha.
        -- destruct L2 as [LW _].
           destruct (is_done g d) eqn:Dd; [destruct (peek g d a) as [y|] eqn:P|]; inversion Ha; subst;
           try (cbn in *; congruence).
           assert (NA : ~ active_w g i a).
           { intros (u & Hu & _ & [A|[A _]]); assert (u = v) by congruence; subst u; try congruence.
             rewrite Hl in A. inversion A. destruct l; cbn in *; congruence. }
           rewrite <- S2, (S4 a NA). apply (peek_value g i a d x I Vall LW); [lia|exact Dd|exact P].
        -- inversion Ha; subst. change (g_real g a = WB (S i) a).
           assert (A : active_w g i a).
           { exists v. split; auto. split; auto. left. rewrite Hl. destruct l; cbn in *; congruence. }
           rewrite (S5 a A). apply S2.
        -- destruct L2 as [[L2|L2] _]; congruence.
    + eapply V4; eauto.
  - intros j vj tj Hvj Htj Hdj Wj. unfold g' in Hvj. cbn in Hvj. destruct (Nat.eqb_spec j i); subst.
    + inversion Hvj; subst vj. assert (tj = t) by congruence; subst tj. cbn.
      exists (g_real g). split; [apply Hcm; auto|]. intro a.
      assert (A : active_w g i a).
      { exists v. split; auto. split; auto. right. split; auto. congruence. }
      rewrite (S5 a A). apply S2.
    + eapply V5; eauto.
  - exact V6.
  - intros j r'. unfold g'. cbn. destruct (Nat.eqb_spec j i); subst.
    + intro E. inversion E; subst r'. unfold observed_seq. rewrite Ht. reflexivity.
    + apply V7.
  - intros j. unfold finishedb, g'. cbn. destruct (Nat.eqb_spec j i); subst.
    + discriminate.
    + apply V8.
  - exact V9.
  - intros j vj tj Hvj Htj Hcm'. unfold g' in Hvj. cbn in Hvj.
    change (dcount txs g') with (dcount txs g).
    destruct (Nat.eqb_spec j i); subst.
    + inversion Hvj; subst vj. assert (tj = t) by congruence; subst tj. cbn in Hcm'.
      destruct (world_lock_cases (reqs_of t)) as [Wl|[Wl|Wl]]; auto;
      exfalso; apply Hcm'; apply Hcn; congruence.
    + eapply V10; eauto.
  - intros j vj tj b Hvj Htj Wn Hb. unfold g' in Hvj. cbn in Hvj. destruct (Nat.eqb_spec j i); subst.
    + inversion Hvj; subst vj. eapply V11; eauto.
    + eapply V11; eauto.
  - intros j vj s Hvj Hndj Hs. unfold g' in Hvj. cbn in Hvj. destruct (Nat.eqb_spec j i); subst.
    + inversion Hvj; subst vj. discriminate.
    + eapply V12; eauto.
  - intros j vj a x Hvj Hndj Hx. unfold g' in Hvj. cbn in Hvj. destruct (Nat.eqb_spec j i); subst.
    + inversion Hvj; subst vj. discriminate.
    + eapply V13; eauto.
Qed.

(* ------------------------------------------------------------------ *)
(* dispatcher steps                                                     *)

Lemma get_future_cache g i t a x : g_rocache (get_future g i t) a = Some x ->
  g_rocache g a = Some x \/ (x = g_real g a /\ get_locker g a = None).
Proof.
  unfold get_future. destruct (world_lock (reqs_of t)); cbn; auto;
  destruct (entry (reqs_of t) a) as [[]|]; auto;
  destruct (get_locker g a); auto; destruct (g_rocache g a); auto;
  intro E; inversion E; auto.
Qed.

Lemma prepare_inv2 g i t : Inv1 g -> Inv2 g -> g_disp g = DPrepare i -> nth_error txs i = Some t ->
  Inv2 (set_disp (get_future g i t) (DSpawn i)).
Proof.
  intros I V Hd Ht.
  destruct (get_future_spec g i t) as (vn & Hvs & Wn & Dn & Cn & Bn & An & Kn & Ln & Wk & Dp & Rl & Tk & Rc & Fn).
  set (g' := set_disp (get_future g i t) (DSpawn i)).
  assert (Hdc : dcount txs g = i) by (unfold dcount; now rewrite Hd).
  assert (Hsc : scount txs g = i) by (unfold scount; now rewrite Hd).
  assert (Hin : i < n) by (apply nth_error_Some; congruence).
  assert (Hnone : g_vs g i = None) by (apply (i_vs_none _ _ I); lia).
  assert (Wnone : g_work g i = None) by (apply (i_wk_none _ _ I); lia).
  assert (Hvs' : forall m, g_vs g' m = if Nat.eqb m i then Some vn else g_vs g m) by exact Hvs.
  assert (SD : forall m, is_done g' m = is_done g m).
  { intro m. unfold is_done. rewrite Hvs'. destruct (Nat.eqb_spec m i); subst; auto. now rewrite Dn, Hnone. }
  assert (Later : forall j a, i <= j -> ~ touched g j a).
  { intros j a Hj [T|(u & Hu & _)].
    - apply (is_done_created _ _ _ I) in T. lia.
    - rewrite (i_vs_none _ _ I j) in Hu by lia. discriminate. }
  (* an account nobody before i writes still has its initial value *)
  assert (Fresh : forall a, get_locker g a = None -> g_real g a = WB i a /\ WB i a = w0 a).
  { intros a L. rewrite (i_lockers _ _ I a), Hdc in L. split.
    - apply (v_real _ V); [lia| |intros; apply Later; auto].
      intros j Hj Ej. exfalso. eapply last_writer_None; eauto.
    - rewrite (world_before_frame txs w0 Hwd a 0 i); auto; try lia.
      intros k Hk. eapply last_writer_None; eauto. lia. }
  assert (ActO : forall j a, j <> i -> (active_w g' j a <-> active_w g j a)).
  { intros j a Hne. unfold active_w, startedb. rewrite Hvs'. change (g_work g' j) with (g_work (get_future g i t) j).
    rewrite Wk. destruct (Nat.eqb_spec j i); [contradiction|tauto]. }
  assert (ActM : forall j a, active_w g j a -> active_w g' j a).
  { intros j a A. destruct (Nat.eq_dec j i) as [->|Hne]; [|now apply ActO].
    destruct A as (u & Hu & _). congruence. }
  assert (Hfi : forall j, finishedb g' j = finishedb g j).
  { intro j. unfold finishedb. change (g_work g' j) with (g_work (get_future g i t) j). now rewrite Wk. }
  pose proof V as Vall. destruct V as [V1 V2 V3 V4 V5 V6 V7 V8 V9 V10 V11 V12 V13]. constructor.
  - apply (v_real_mono g g'); auto. intros j a [T|T]; [left; now rewrite SD|right; auto].
  - intros j vj tj Hvj Htj Hndj. rewrite Hvs' in Hvj. destruct (Nat.eq_dec j i) as [->|Hne].
    + rewrite Nat.eqb_refl in Hvj. inversion Hvj; subst vj. assert (tj = t) by congruence; subst tj.
      exists (WB i). unfold shadow_ok.
      assert (Cp : cur_prog g' i t = tx_prog t).
      { unfold cur_prog. change (g_work g' i) with (g_work (get_future g i t) i). now rewrite Wk, Wnone. }
      rewrite Cp. split; [apply (Hwd _ _ Ht)|]. split.
      { intro a. rewrite (world_before_S txs w0 i t Ht). reflexivity. }
      split; [reflexivity|]. split; [auto|]. split; [|auto].
      intros a (u & Hu & _ & [A|[_ S]]).
      * rewrite Hvs', Nat.eqb_refl in Hu. inversion Hu; subst u. rewrite An in A.
        destruct (entry (reqs_of t) a) as [e|]; try discriminate. unfold init_las in A.
        destruct (get_locker g a) eqn:L; [inversion A|].
        change (g_real g' a) with (g_real (get_future g i t) a). rewrite Rl. apply Fresh; auto.
      * unfold startedb in S. change (g_work g' i) with (g_work (get_future g i t) i) in S.
        rewrite Wk, Wnone in S. discriminate.
    + destruct (Nat.eqb_spec j i); [contradiction|].
      destruct (V2 j vj tj Hvj Htj Hndj) as [w Sw]. exists w.
      apply (shadow_same g g' j tj w); auto;
        try (unfold cur_prog; change (g_work g' j) with (g_work (get_future g i t) j); now rewrite Wk);
        try (intro a; apply ActO; auto);
        try (unfold startedb; change (g_work g' j) with (g_work (get_future g i t) j); rewrite Wk; auto).
  - intros j vj a x Hvj Ha. rewrite Hvs' in Hvj. destruct (Nat.eq_dec j i) as [->|Hne].
    + rewrite Nat.eqb_refl in Hvj. inversion Hvj; subst vj. rewrite An in Ha.
      destruct (entry (reqs_of t) a) as [e|]; try discriminate. unfold init_las in Ha.
      destruct (get_locker g a) eqn:L; [inversion Ha|].
      destruct (Fresh a L) as [F1 F2].
      destruct e; inversion Ha; subst; destruct (g_rocache g a) eqn:C; try (apply V6 in C; subst); congruence.
    + destruct (Nat.eqb_spec j i); [contradiction|]. eapply V3; eauto.
  - intros j vj a x Hvj Ha. rewrite Hvs' in Hvj. destruct (Nat.eq_dec j i) as [->|Hne].
    + rewrite Nat.eqb_refl in Hvj. inversion Hvj; subst vj. rewrite An in Ha.
      destruct (entry (reqs_of t) a) as [e|] eqn:He; try discriminate. unfold init_las in Ha.
      destruct (entry_rw _ _ _ He) as [->| ->]; destruct (get_locker g a); inversion Ha.
    + destruct (Nat.eqb_spec j i); [contradiction|]. eapply V4; eauto.
  - intros j vj tj Hvj Htj Hdj Wj. rewrite Hvs' in Hvj. destruct (Nat.eq_dec j i) as [->|Hne].
    + rewrite Nat.eqb_refl in Hvj. inversion Hvj; subst vj. congruence.
    + destruct (Nat.eqb_spec j i); [contradiction|]. eapply V5; eauto.
  - intros a x Hc. change (g_rocache g' a) with (g_rocache (get_future g i t) a) in Hc.
    destruct (get_future_cache _ _ _ _ _ Hc) as [C|[-> L]]; auto.
    destruct (Fresh a L) as [F1 F2]. congruence.
  - intros j r. change (g_rcts g' j) with (g_rcts (get_future g i t) j). rewrite Rc. apply V7.
  - intros j. rewrite Hfi. change (g_rcts g' j) with (g_rcts (get_future g i t) j). rewrite Rc. apply V8.
  - intros w. change (g_final g') with (g_final (get_future g i t)). rewrite Fn. apply V9.
  - intros j vj tj Hvj Htj Hcm. rewrite Hvs' in Hvj.
    assert (Dc' : dcount txs g' = S i) by reflexivity. rewrite Dc'.
    destruct (Nat.eq_dec j i) as [->|Hne].
    + rewrite Nat.eqb_refl in Hvj. inversion Hvj; subst vj. congruence.
    + destruct (Nat.eqb_spec j i); [contradiction|].
      destruct (V10 j vj tj Hvj Htj Hcm) as [H|[H|H]]; auto.
      * right. left. rewrite Hdc in H. lia.
      * rewrite Hdc in H. fold n in H. lia.
  - intros j vj tj b Hvj Htj Wnw Hb. rewrite Hvs' in Hvj. destruct (Nat.eq_dec j i) as [->|Hne].
    + rewrite Nat.eqb_refl in Hvj. inversion Hvj; subst vj. assert (tj = t) by congruence; subst tj.
      rewrite Bn in Hb. destruct i as [|i']; cbn in Hb.
      * inversion Hb; subst b. intro a. apply V1; [lia| |intros; apply Later; auto].
        intros j Hj. lia.
      * destruct (g_vs g i') as [p|] eqn:Hp; try discriminate.
        destruct (tx_of_vs _ _ _ _ I Hp) as [tp Htp].
        assert (Hcp : v_committed p <> None) by congruence.
        assert (Dp' : is_done g i' = true).
        { apply (vo_comm _ _ _ _ _ (i_vs_ok _ _ I _ _ _ Hp Htp)); auto. }
        assert (Dpv : v_done p = true) by (unfold is_done in Dp'; now rewrite Hp in Dp').
        destruct (V10 i' p tp Hp Htp Hcp) as [H|[H|H]]; [|rewrite Hdc in H; lia|rewrite Hdc in H; fold n in H; lia].
        destruct (V5 i' p tp Hp Htp Dpv H) as (w & Hw & Hwv). intro a. rewrite <- Hwv. congruence.
    + destruct (Nat.eqb_spec j i); [contradiction|]. eapply V11; eauto.
  - intros j vj s Hvj Hndj Hs. rewrite Hvs' in Hvj. destruct (Nat.eq_dec j i) as [->|Hne].
    + rewrite Nat.eqb_refl in Hvj. inversion Hvj; subst vj.
      rewrite (get_future_snap g i t vn) in Hs; [discriminate|]. rewrite Hvs, Nat.eqb_refl. reflexivity.
    + destruct (Nat.eqb_spec j i); [contradiction|]. eapply V12; eauto.
  - intros j vj a x Hvj Hndj Hx. rewrite Hvs' in Hvj. destruct (Nat.eq_dec j i) as [->|Hne].
    + rewrite Nat.eqb_refl in Hvj. inversion Hvj; subst vj.
      rewrite (get_future_lbase g i t vn a) in Hx; [discriminate|]. rewrite Hvs, Nat.eqb_refl. reflexivity.
    + destruct (Nat.eqb_spec j i); [contradiction|]. eapply V13; eauto.
Qed.

Lemma final_inv2 g : Inv2 g -> (forall j, j < n -> is_done g j = true) ->
  Inv2 (set_disp (set_final g (g_real g)) DDone).
Proof.
  intros V D. set (g' := set_disp (set_final g (g_real g)) DDone).
  assert (Fin : forall a, g_real g a = seq_world txs w0 a).
  { intro a. rewrite <- (world_before_all txs w0 n) by (unfold n; lia).
    apply (v_real _ V); auto.
    intros j Hj Ej. apply effw_lt_n in Ej. lia. }
  destruct V as [V1 V2 V3 V4 V5 V6 V7 V8 V9 V10 V11 V12 V13]. constructor; auto;
  try (intros j v t Hv Ht Hnd; destruct (V2 j v t Hv Ht Hnd) as [w Sw]; exists w; exact Sw);
  try (intros w E; inversion E; subst; exact Fin);
  try (intros j v t Hv Ht Hc; right; right; unfold dcount, g'; cbn; lia).
Qed.

Lemma step_disp_inv2 g g' : Inv1 g -> Inv2 g -> step_disp txs g = Some g' -> Inv2 g'.
Proof.
  intros I V H. unfold step_disp in H. destruct (g_disp g) as [i|i|] eqn:Hd; try discriminate.
  - destruct (nth_error txs i) as [t|] eqn:Ht.
    + inversion H; subst. apply prepare_inv2; auto.
    + assert (Hn : n <= i) by (apply nth_error_None; auto).
      assert (Hi : i <= n) by (pose proof (i_disp _ _ I) as B; rewrite Hd in B; exact B).
      destruct i as [|j].
      * inversion H; subst. apply final_inv2; auto. intros j Hj. lia.
      * destruct (realize g j) as [g1|] eqn:R; try discriminate. inversion H; subst. clear H.
        assert (Hj : j < dcount txs g) by (unfold dcount; rewrite Hd; lia).
        destruct (realize_inv1 _ _ _ _ I Hj R) as (I1 & S1 & D & _).
        apply final_inv2.
        -- eapply inv2_st_sim; eauto.
           ++ intros m u u' Hu Hu' _ _. right. unfold dcount. rewrite Hd. fold n. lia.
           ++ intros m u u' t Hu Hu' Ht' Hb. exfalso. apply Hb. eapply realize_base_same; eauto.
        -- intros m Hm. rewrite (st_sim_done _ _ _ S1). apply D. lia.
  - destruct (g_tokens g) as [|k] eqn:Tk; try discriminate. inversion H; subst. clear H.
    assert (Sc : scount txs g = i) by (unfold scount; now rewrite Hd).
    assert (Wn : g_work g i = None) by (apply (i_wk_none _ _ I); lia).
    set (g' := set_disp (set_work (set_tokens g k) i WStart) (DPrepare (S i))).
    assert (Act : forall j a, active_w g' j a <-> active_w g j a).
    { intros j a. unfold active_w, startedb, g'. cbn. destruct (Nat.eqb_spec j i); subst; [|tauto].
      rewrite Wn. tauto. }
    eapply inv2_frame_act; eauto.
    + unfold dcount, g'. cbn. now rewrite Hd.
    + intros j a. apply Act.
    + intro j. unfold finishedb, g'. cbn. destruct (Nat.eqb_spec j i); subst; auto. now rewrite Wn.
    + intros j v t w Hv Ht Hnd Sw. exists w. apply (shadow_same g g' j t w); auto.
      * unfold cur_prog, g'. cbn. destruct (Nat.eqb_spec j i); subst; auto. now rewrite Wn.
      * unfold startedb, g'. cbn. destruct (Nat.eqb_spec j i); subst; auto. now rewrite Wn.
Qed.

(* ------------------------------------------------------------------ *)
(* a failed attempt is reset                                            *)

Lemma fail_inv2 g i k g1 : Inv1 g -> Inv2 g -> g_work g i = Some (WRun (Fail k)) ->
  reset g i = Some g1 -> Inv2 (set_work g1 i (WRun k)).
Proof.
  intros I V Hw R. destruct (phase_flags _ _ _ Hw) as [St Fi].
  assert (Hs : i < scount txs g).
  { destruct (Nat.lt_ge_cases i (scount txs g)); auto. rewrite (i_wk_none _ _ I i) in Hw by assumption. discriminate. }
  pose proof (scount_le_dcount txs g). destruct (i_vs_some _ _ I i) as [v Hv]; [lia|].
  destruct (tx_of_vs _ _ _ _ I Hv) as [t Ht]. pose proof (i_vs_ok _ _ I _ _ _ Hv Ht) as OK.
  destruct (not_done_of_phase _ _ _ _ _ I Hv Ht Fi) as (Hnd & Hc & Hwl).
  destruct (v_shadow _ V _ _ _ Hv Ht Hnd) as [w (S1 & S2 & S3 & S4 & S5 & S6)].
  rewrite (cur_prog_run _ _ _ _ Hw) in *.
  (* what Reset writes *)
  assert (exists Rw, g1 = set_real g Rw /\
            (forall a, active_w g i a -> Rw a = WB i a) /\
            (forall a, ~ active_w g i a -> Rw a = g_real g a)) as (Rw & -> & Ra & Rn).
  { unfold reset in R. rewrite Hv, Hnd in R. destruct (v_snap v) as [s|] eqn:Hs'; try discriminate.
    destruct (v_snapv _ V _ _ _ Hv Hnd Hs') as (P1 & P2 & P3).
    rewrite Hwl in R. destruct (world_lock_cases (reqs_of t)) as [Wl|[Wl|Wl]]; rewrite Wl in R.
    - match type of R with (if ?c then _ else _) = _ => destruct c; try discriminate end.
      inversion R; subst g1. eexists. split; [reflexivity|]. split.
      + intros a (u & Hu & _ & [A|[A _]]); assert (u = v) by congruence; subst u; [|congruence].
        unfold reset_val. rewrite A. destruct (s_accts s a) as [x|] eqn:Sa; [eapply P1; eauto|].
        destruct (s_base s) as [b|] eqn:Sb; [eapply P2; eauto|].
        destruct (v_lbase v a) as [x|] eqn:Lb; [eapply (v_lbasev _ V); eauto|].
        (* no base at all: the live account was there before the snapshot or resolved later *)
        destruct (vo_lbase _ _ _ _ _ OK a A) as [N|[(s' & Hs'' & N)|N]]; congruence.
      + intros a Na. unfold reset_val. destruct (v_accts v a) as [[l st]|] eqn:Ha; auto.
        destruct l; auto.
        destruct (s_accts s a) as [x|] eqn:Sa.
        { exfalso. apply Na. exists v. split; auto. split; auto. left. apply P3. congruence. }
        destruct st as [d| |x]; auto.
        * exfalso. apply Na. exists v. split; auto.
        * exfalso. destruct (entry_of_las _ _ _ _ _ _ I Hv Ht Ha) as (e & He & [L1 [[L2|L2] _]] & _); cbn in *;
          rewrite Hnd in *; try congruence; subst e; discriminate.
    - exfalso. apply (Hnwr _ _ Ht). exact Wl.
    - destruct (s_base s) as [b|] eqn:Sb; try discriminate. inversion R; subst g1.
      exists b. split; [reflexivity|]. split.
      + intros a _. eapply P2; eauto.
      + intros a Na. exfalso. apply Na. exists v. split; auto. split; auto. right. split; auto. congruence. }
  set (g2 := set_real g Rw). set (g' := set_work g2 i (WRun k)).
  assert (ActE : forall j a', active_w g' j a' <-> active_w g j a').
  { intros j a'. unfold g'. rewrite active_set_work.
    - unfold active_w, g2. cbn. tauto.
    - unfold startedb, g2. cbn. now rewrite Nat.eqb_refl, Hw. }
  assert (SDE : forall m, is_done g' m = is_done g m) by reflexivity.
  assert (Di : is_done g i = false) by (unfold is_done; now rewrite Hv).
  pose proof V as Vall.
  destruct V as [V1 V2 V3 V4 V5 V6 V7 V8 V9 V10 V11 V12 V13]. constructor; auto.
  - intros a' k' Hk H1 H2. change (Rw a' = WB k' a').
    destruct (active_dec g i a') as [A|NA].
    + exfalso. pose proof (active_effw _ _ _ I A) as Ei.
      destruct (Nat.lt_ge_cases i k') as [Hik|Hik].
      * specialize (H1 i Hik Ei). rewrite SDE in H1. congruence.
      * apply (H2 i Hik Ei). right. now apply ActE.
    + rewrite (Rn a' NA). apply V1; auto.
      intros j Hj Ej [T|T]; apply (H2 j Hj Ej); [left; exact T|right; now apply ActE].
  - intros j vj tj Hvj Htj Hndj. change (g_vs g j = Some vj) in Hvj.
    destruct (Nat.eq_dec j i) as [->|Hne].
    + assert (vj = v) by congruence; subst vj. assert (tj = t) by congruence; subst tj.
      exists (WB i). unfold shadow_ok. rewrite (cur_prog_run g' i t k).
      2:{ unfold g'. cbn. now rewrite Nat.eqb_refl. }
      split; [apply touches_fail_inv in S1; exact S1|]. split; [exact S2|]. split; [exact S3|].
      split; [auto|]. split.
      * intros a' Ac. apply ActE in Ac. change (Rw a' = WB i a'). auto.
      * intro St'. exfalso. unfold startedb, g' in St'. cbn in St'. rewrite Nat.eqb_refl in St'. discriminate.
    + destruct (V2 j vj tj Hvj Htj Hndj) as [wj (T1 & T2 & T3 & T4 & T5 & T6)]. exists wj.
      assert (Cp : cur_prog g' j tj = cur_prog g j tj).
      { unfold cur_prog, g'. cbn. destruct (Nat.eqb_spec j i); [contradiction|reflexivity]. }
      unfold shadow_ok. rewrite Cp.
      split; [exact T1|]. split; [exact T2|]. split; [exact T3|]. split; [|split].
      * intros a' Na. apply T4. intro Ac. apply Na. now apply ActE.
      * intros a' Ac. apply ActE in Ac. change (Rw a' = wj a').
        rewrite Rn; [apply T5; exact Ac|]. intro Ai. apply Hne. eapply active_unique; eauto.
      * intro St'. apply T6. unfold startedb, g' in St'. cbn in St'.
        destruct (Nat.eqb_spec j i); [contradiction|exact St'].
  - intros j. unfold finishedb, g'. cbn. destruct (Nat.eqb_spec j i); subst.
    + discriminate.
    + apply V8.
Qed.

Lemma step_worker_inv2 g i g' : Inv1 g -> Inv2 g -> step_worker txs g i = Some g' -> Inv2 g'.
Proof.
  intros I V H. unfold step_worker in H.
  destruct (g_work g i) as [[|p| |]|] eqn:Hw; try discriminate.
  - eapply start_inv2; eauto.
  - destruct p as [r|a k|a x k|k].
    + destruct (commit (set_rct g i r) i) as [g1|] eqn:C; try discriminate.
      inversion H; subst. eapply commit_inv2; eauto.
    + destruct (access g i a) as [[g1 h]|] eqn:A; try discriminate. inversion H; subst.
      eapply read_inv2; eauto.
    + destruct (access g i a) as [[g1 [|y]]|] eqn:A; try discriminate. inversion H; subst.
      eapply write_inv2; eauto.
    + destruct (reset g i) as [g1|] eqn:R; try discriminate. inversion H; subst.
      eapply fail_inv2; eauto.
  - inversion H; subst. clear H.
    set (g' := set_work (set_tokens g (S (g_tokens g))) i WFinished).
    assert (Act : forall j a, active_w g' j a <-> active_w g j a).
    { intros j a. unfold active_w, startedb, g'. cbn. destruct (Nat.eqb_spec j i); subst; [|tauto].
      rewrite Hw. tauto. }
    eapply inv2_frame_act; eauto.
    + intros j a. apply Act.
    + intro j. unfold finishedb, g'. cbn. destruct (Nat.eqb_spec j i); subst; auto. now rewrite Hw.
    + intros j v t w Hv Ht Hnd Sw. exists w. apply (shadow_same g g' j t w); auto.
      * unfold cur_prog, g'. cbn. destruct (Nat.eqb_spec j i); subst; auto. now rewrite Hw.
      * unfold startedb, g'. cbn. destruct (Nat.eqb_spec j i); subst; auto. discriminate.
Qed.

Lemma init_inv2 level : Inv2 (init_state level w0).
Proof.
  constructor; cbn; try discriminate.
  - intros a k Hk H1 H2. rewrite (world_before_frame txs w0 Hwd a 0 k); auto; try lia.
    intros j Hj Ej. specialize (H1 j ltac:(lia) Ej). discriminate.
Qed.

Lemma run_inv12 sched : forall g, Inv1 g -> Inv2 g -> Inv1 (run txs g sched) /\ Inv2 (run txs g sched).
Proof.
  induction sched as [|a s IH]; intros g I V; cbn; auto.
  destruct (step txs g a) as [g'|] eqn:E; auto.
  apply IH; [eapply step_inv1; eauto|].
  destruct a; cbn in E; eauto using step_disp_inv2, step_worker_inv2.
Qed.

(* ------------------------------------------------------------------ *)
(* once executeTxsConcurrent has returned every worker has committed     *)

Record Inv4 (g : gstate) : Prop := {
  i_fin : g_disp g = DDone -> forall j, j < n -> finishedb g j = true;
  i_finw : g_disp g = DDone -> g_final g <> None
}.

Lemma commit_frame g i g1 : commit g i = Some g1 ->
  g_disp g1 = g_disp g /\ g_final g1 = g_final g /\ g_work g1 = g_work g.
Proof.
  unfold commit. destruct (g_vs g i) as [v|]; try discriminate.
  destruct (v_done v); [intro E; inversion E; auto|].
  match goal with |- (if ?c then _ else _) = _ -> _ => destruct c; try discriminate end.
  destruct (v_wlock v); intro E; inversion E; auto.
Qed.

Lemma step_worker_inv4 g i g' : Inv1 g -> Inv4 g -> step_worker txs g i = Some g' -> Inv4 g'.
Proof.
  intros I [F W] H.
  assert (Key : g_disp g' = g_disp g /\ g_final g' = g_final g /\
                forall j, finishedb g j = true -> finishedb g' j = true).
  { unfold step_worker in H. destruct (g_work g i) as [[|p| |]|] eqn:Hw; try discriminate.
    - destruct (nth_error txs i) as [t|] eqn:Ht; [|unfold step_start in H; rewrite Ht in H; discriminate].
      destruct (g_vs g i) as [v|] eqn:Hv; [|unfold step_start in H; rewrite Ht, Hv in H; discriminate].
      destruct (start_prefix _ _ _ _ _ _ I Hw Ht Hv H) as (g1 & v1 & I1 & S1 & Hv1 & _ & _ & _ & _ & _ & I1' & H1 & _).
      set (g1' := set_vs g1 i (set_snap v1 (take_snapshot g1 v1))) in *.
      destruct (access g1' i SYS) as [[g2 h]|] eqn:A; try discriminate. inversion H1; subst g'.
      destruct (access_inv1 _ _ _ _ _ _ I1' A) as (_ & _ & (_ & W2 & D2 & _ & _ & _ & _ & _ & F2)).
      destruct S1 as [(_ & W1 & D1 & _ & _ & _ & _ & _ & F1) _].
      assert (Wk : g_work g2 = g_work g) by (rewrite W2; cbn; exact W1).
      assert (Dp : g_disp g2 = g_disp g) by (rewrite D2; cbn; exact D1).
      assert (Fn : g_final g2 = g_final g) by (rewrite F2; cbn; exact F1).
      split; auto. split; auto. intros j. unfold finishedb. cbn. rewrite Wk.
      destruct (Nat.eqb_spec j i); subst; auto. rewrite Hw. discriminate.
    - destruct p as [r|a k|a x k|k].
      4:{ destruct (reset g i) as [g1|] eqn:R; try discriminate. inversion H; subst.
          destruct (reset_real _ _ _ R) as [Rw ->].
          split; auto. split; auto. intros j. unfold finishedb. cbn.
          destruct (Nat.eqb_spec j i); subst; auto. rewrite Hw. discriminate. }
      + destruct (commit (set_rct g i r) i) as [g1|] eqn:C; try discriminate. inversion H; subst.
        destruct (commit_frame _ _ _ C) as (Dp & Fn & Wk).
        split; auto. split; auto. intros j. unfold finishedb. cbn. rewrite Wk. cbn.
        destruct (Nat.eqb_spec j i); subst; auto.
      + destruct (access g i a) as [[g1 h]|] eqn:A; try discriminate. inversion H; subst.
        destruct (access_inv1 _ _ _ _ _ _ I A) as (_ & _ & (_ & Wk & Dp & _ & _ & _ & _ & _ & Fn)).
        split; auto. split; auto. intros j. unfold finishedb. cbn. rewrite Wk.
        destruct (Nat.eqb_spec j i); subst; auto. rewrite Hw. discriminate.
      + destruct (access g i a) as [[g1 [|y]]|] eqn:A; try discriminate. inversion H; subst.
        destruct (access_inv1 _ _ _ _ _ _ I A) as (_ & _ & (_ & Wk & Dp & _ & _ & _ & _ & _ & Fn)).
        split; auto. split; auto. intros j. unfold finishedb. cbn. rewrite Wk.
        destruct (Nat.eqb_spec j i); subst; auto. rewrite Hw. discriminate.
    - inversion H; subst. split; auto. split; auto. intros j. unfold finishedb. cbn.
      destruct (Nat.eqb_spec j i); subst; auto. }
  destruct Key as (Dp & Fn & Fm). constructor.
  - rewrite Dp. intros D j Hj. apply Fm. auto.
  - rewrite Dp, Fn. auto.
Qed.

Lemma step_disp_inv4 g g' : Inv1 g -> Inv4 g -> step_disp txs g = Some g' -> Inv4 g'.
Proof.
  intros I [F W] H. unfold step_disp in H. destruct (g_disp g) as [i|i|] eqn:Hd; try discriminate.
  - destruct (nth_error txs i) as [t|] eqn:Ht.
    + inversion H; subst. constructor; cbn; discriminate.
    + assert (Hn : n <= i) by (apply nth_error_None; auto).
      destruct i as [|j].
      * inversion H; subst. constructor; cbn; [intros _ j Hj; lia|discriminate].
      * destruct (realize g j) as [g1|] eqn:R; try discriminate. inversion H; subst. clear H.
        assert (Hj : j < dcount txs g) by (unfold dcount; rewrite Hd; lia).
        destruct (realize_inv1 _ _ _ _ I Hj R) as (I1 & S1 & D & _).
        constructor; cbn; [|discriminate]. intros _ m Hm.
        assert (Dm : is_done g1 m = true) by (rewrite (st_sim_done _ _ _ S1); apply D; lia).
        unfold is_done in Dm. destruct (g_vs g1 m) as [v|] eqn:Hv; try discriminate.
        destruct (tx_of_vs _ _ _ _ I1 Hv) as [t Htm]. change (finishedb g1 m = true).
        rewrite <- (vo_done _ _ _ _ _ (i_vs_ok _ _ I1 _ _ _ Hv Htm)). exact Dm.
  - destruct (g_tokens g); try discriminate. inversion H; subst. constructor; cbn; discriminate.
Qed.

Lemma init_inv4 level : Inv4 (init_state level w0).
Proof. constructor; cbn; discriminate. Qed.

Lemma run_inv124 sched : forall g, Inv1 g -> Inv2 g -> Inv4 g ->
  Inv1 (run txs g sched) /\ Inv2 (run txs g sched) /\ Inv4 (run txs g sched).
Proof.
  induction sched as [|a s IH]; intros g I V F; cbn; auto.
  destruct (step txs g a) as [g'|] eqn:E; auto.
  apply IH; [eapply step_inv1; eauto| |].
  - destruct a; cbn in E; eauto using step_disp_inv2, step_worker_inv2.
  - destruct a; cbn in E; eauto using step_disp_inv4, step_worker_inv4.
Qed.

(* ------------------------------------------------------------------ *)
(* the theorems, for this list of transactions                          *)

Theorem serializable_val level sched :
  complete (exec level w0 txs sched) = true ->
  exists w, g_final (exec level w0 txs sched) = Some w /\
    (forall a, w a = seq_world txs w0 a) /\
    forall i, i < n -> g_rcts (exec level w0 txs sched) i = observed_seq txs w0 i.
Proof.
  unfold exec. intro C.
  destruct (run_inv124 sched _ (init_inv1 txs level w0) (init_inv2 level) (init_inv4 level)) as (I & V & F).
  set (g := run txs (init_state level w0) sched) in *.
  assert (D : g_disp g = DDone) by (unfold complete in C; destruct (g_disp g); congruence).
  destruct (g_final g) as [w|] eqn:Fw; [|exfalso; apply (i_finw _ F D); auto].
  exists w. split; auto. split; [apply (v_final _ V); auto|].
  intros i Hi. pose proof (i_fin _ F D i Hi) as Fi. pose proof (v_rdone _ V i Fi) as R.
  destruct (g_rcts g i) as [r|] eqn:Er; try congruence. symmetry. apply (v_rcts _ V); auto.
Qed.

End Val.

(* ------------------------------------------------------------------ *)
(* statements over lists of transactions                                *)

Lemma Forall_nth {A} (P : A -> Prop) l : Forall P l -> forall i x, nth_error l i = Some x -> P x.
Proof. intros F i x H. rewrite Forall_forall in F. apply F. eapply nth_error_In; eauto. Qed.

Theorem serializable level w0 txs sched :
  Forall well_declared txs -> Forall no_world_read txs ->
  complete (exec level w0 txs sched) = true ->
  exists w, g_final (exec level w0 txs sched) = Some w /\
    (forall a, w a = seq_world txs w0 a) /\
    forall i, i < length txs -> g_rcts (exec level w0 txs sched) i = observed_seq txs w0 i.
Proof.
  intros W R. apply serializable_val.
  - intros i t. apply (Forall_nth _ _ W).
  - intros i t. apply (Forall_nth _ _ R).
Qed.

(* a transaction observes, per account, the value after all earlier
   transactions in block order that write-lock that account *)
Theorem sees_prefix level w0 txs sched :
  Forall well_declared txs -> Forall no_world_read txs ->
  complete (exec level w0 txs sched) = true ->
  forall i t, nth_error txs i = Some t ->
    g_rcts (exec level w0 txs sched) i = Some (snd (run_prog (tx_prog t) (prefix_view txs w0 i))).
Proof.
  intros W R C i t Ht. destruct (serializable level w0 txs sched W R C) as (w & _ & _ & Rc).
  assert (Hi : i < length txs) by (apply nth_error_Some; congruence).
  rewrite (Rc i Hi). unfold observed_seq. rewrite Ht. f_equal.
  apply run_prog_ext. intro a. symmetry. apply prefix_view_eq; [|lia].
  intros j tj. apply (Forall_nth _ _ W).
Qed.

(* until executeTxsConcurrent has returned some goroutine can take a step *)
Theorem no_deadlock level w0 txs sched :
  level <> 0 -> Forall well_declared txs ->
  complete (exec level w0 txs sched) = false ->
  exists a, In a (actors txs) /\ can_step txs (exec level w0 txs sched) a = true.
Proof.
  intros L W C. unfold exec in *.
  assert (Hwd : forall i t, nth_error txs i = Some t -> well_declared t) by (intros i t; apply (Forall_nth _ _ W)).
  destruct (run_inv13 txs Hwd sched _ (init_inv1 txs level w0) (init_inv3 txs level w0 L)) as (I & I3).
  apply no_deadlock_inv; auto.
Qed.

(* ------------------------------------------------------------------ *)
(* the world READ lock: not serializable                                *)

Local Open Scope Z_scope.

Definition w_init : world := fun a => match a with 1%nat => 5 | 2%nat => 7 | _ => 0 end.

(* T0 adds 1 to account 1; T1 holds the world READ lock and reads account 2;
   T2 adds 3 to account 2; T3 reads account 3 *)
Definition wr_txs : list tx := [
  mkTx [(LAcct 1%nat, LWrite)] (compile [IDo (SAdd 1%nat 1)] []);
  mkTx [(LWorld, LRead)] (compile [IDo (SRead 2%nat)] []);
  mkTx [(LAcct 2%nat, LWrite)] (compile [IDo (SAdd 2%nat 3)] []);
  mkTx [(LAcct 3%nat, LRead)] (compile [IDo (SRead 3%nat)] [])
].

(* the dispatcher prepares and spawns T0, T1, T2 (it is then blocked in
   ec.Ready() at level 3, or simply slow); T2 runs and commits; T0 runs and
   commits; only now can T1 take its base snapshot — of a world state that
   already contains T2's write; T1 runs; T3 is dispatched and runs; return *)
Definition wr_sched : list actor :=
  repeat ADisp 6 ++ repeat (AWorker 2) 5 ++ repeat (AWorker 0) 5 ++ repeat (AWorker 1) 4 ++
  repeat ADisp 2 ++ repeat (AWorker 3) 4 ++ [ADisp].

Lemma compile_well_declared locks is :
  forallb (instr_ok (mkTx locks (compile is []))) is = true -> well_declared (mkTx locks (compile is [])).
Proof. intro H. unfold well_declared. cbn. apply compile_touches. exact H. Qed.

Lemma wr_txs_well_declared : Forall well_declared wr_txs.
Proof. repeat (apply Forall_cons; [apply compile_well_declared; reflexivity|]). apply Forall_nil. Qed.

Theorem world_read_refuted :
  Forall well_declared wr_txs /\
  complete (exec 3 w_init wr_txs wr_sched) = true /\
  observed_seq wr_txs w_init 1 = Some [7] /\
  g_rcts (exec 3 w_init wr_txs wr_sched) 1 = Some [10].
Proof.
  split; [exact wr_txs_well_declared|]. split; [|split]; vm_compute; reflexivity.
Qed.

(* ------------------------------------------------------------------ *)
(* non-vacuity: the hypotheses of the theorems are met by a block with
   real conflicts (two transfers over a shared account, a reader of it, a
   world WRITE lock in the middle), run to completion under a schedule that
   starts the transactions in reverse order                              *)

Definition ex_txs : list tx := [
  mkTx [(LAcct 1%nat, LWrite); (LAcct 2%nat, LWrite)] (compile [IDo (SXfer 1%nat 2%nat 3)] []);
  mkTx [(LAcct 2%nat, LRead)] (compile [IDo (SRead 2%nat)] []);
  mkTx [(LWorld, LWrite)] (compile [IGuard 2%nat 8 (SAdd 3%nat 4); IDo (SRead 1%nat)] []);
  mkTx [(LAcct 2%nat, LWrite); (LAcct 3%nat, LWrite)] (compile [IDo (SXfer 2%nat 3%nat 20); IDo (SRead 3%nat)] [])
].

Definition ex_sched : list actor :=
  repeat ADisp 8 ++
  concat (repeat [AWorker 3; AWorker 2; AWorker 1; AWorker 0] 40) ++ [ADisp].

Example ex_hypotheses : Forall well_declared ex_txs /\ Forall no_world_read ex_txs.
Proof.
  split.
  - repeat (apply Forall_cons; [apply compile_well_declared; reflexivity|]). apply Forall_nil.
  - repeat (apply Forall_cons; [unfold no_world_read; vm_compute; discriminate|]). apply Forall_nil.
Qed.

Example ex_complete : complete (exec 4 w_init ex_txs ex_sched) = true.
Proof. vm_compute. reflexivity. Qed.

(* what the theorem then says about this run (also checked by computation) *)
Example ex_result :
  g_rcts (exec 4 w_init ex_txs ex_sched) 3 = Some [0; 4] /\
  observed_seq ex_txs w_init 1 = Some [10].
Proof. split; vm_compute; reflexivity. Qed.

(* no_deadlock: a partial run of the same block *)
Example ex_partial_can_step :
  complete (exec 2 w_init ex_txs (repeat ADisp 3 ++ [AWorker 1])) = false.
Proof. vm_compute. reflexivity. Qed.

(* a retried transaction: the first attempt of T1 writes account 2 and reads
   account 1 (resolved after the snapshot was taken) and fails, the second
   attempt fails after one instruction, the third succeeds *)
Definition rt_txs : list tx := [
  mkTx [(LAcct 1%nat, LWrite)] (compile [IDo (SAdd 1%nat 4)] []);
  mkTx [(LAcct 1%nat, LWrite); (LAcct 2%nat, LWrite)]
       (compile_fails [IDo (SXfer 1%nat 2%nat 6); IDo (SRead 2%nat)] [2%nat; 1%nat]);
  mkTx [(LAcct 2%nat, LRead)] (compile [IDo (SRead 2%nat)] [])
].

Definition rt_sched : list actor :=
  repeat ADisp 6 ++ concat (repeat [AWorker 2; AWorker 1; AWorker 0] 40) ++ [ADisp].

Example rt_hypotheses : Forall well_declared rt_txs /\ Forall no_world_read rt_txs.
Proof.
  split.
  - apply Forall_cons; [apply compile_well_declared; reflexivity|].
    apply Forall_cons; [unfold well_declared; cbn [tx_prog]; apply compile_fails_touches; reflexivity|].
    apply Forall_cons; [apply compile_well_declared; reflexivity|]. apply Forall_nil.
  - repeat (apply Forall_cons; [unfold no_world_read; vm_compute; discriminate|]). apply Forall_nil.
Qed.

Example rt_result :
  complete (exec 3 w_init rt_txs rt_sched) = true /\
  g_rcts (exec 3 w_init rt_txs rt_sched) 1 = Some [1; 13] /\
  g_rcts (exec 3 w_init rt_txs rt_sched) 2 = Some [13] /\
  observed_seq rt_txs w_init 1 = Some [1; 13].
Proof. repeat split; vm_compute; reflexivity. Qed.
