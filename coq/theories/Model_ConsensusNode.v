(* Model_ConsensusNode.v — executable model of ONE validator's consensus engine
   (consensus/consensus.go) over one height, function by function, including
   its three write-ahead logs, crashes and restarts.  No proofs here.

   What is abstracted
     blocks      a block / part set is an id (N); what the engine can learn about
                 an id comes from the block table [blocks] (number of parts,
                 whether the complete part set decodes, the proposer recorded in
                 the block, whether ImportBlock rejects it synchronously).
     votes       (sender slot, round, type, decision, stamp).  decision = None is
                 the nil vote.  The stamp stands for the timestamp (EqualExceptSigs
                 compares it); own votes carry stamp 0.
     WALs        lists of records with a synced prefix; a crash keeps the synced
                 records and a prefix of the unsynced ones (that is C03's theorem
                 about consensus/wal.go; torn tails are repaired away).
     timers      a timer is a flag; its firing is the event [ETimeout].
     callbacks   BlockManager.Propose / ImportBlock complete by the events
                 [EProposeCb] / [EImportCb] / [ECommitCb]; the model remembers the
                 outstanding request (the closure the engine handed out).
     crash point [fuse]: the number of outputs (WAL write, WAL sync, network
                 send, block-manager call) that still happen in this event before
                 the process dies.  After it reaches 0 nothing is written or sent.
     panics      the engine's log.Panicf / nil dereferences end the process:
                 status [Down].

   Go anchors are given at each definition. *)
From Coq Require Import List ZArith NArith Bool Arith.
Import ListNotations.
Open Scope Z_scope.

(* ------------------------------------------------------------------ data *)

Inductive vtype := Prevote | Precommit.

Record vote := mkVote {
  v_from : Z;            (* validator slot; negative: not a validator *)
  v_round : Z;
  v_type : vtype;
  v_dec : option N;      (* None = nil *)
  v_ts : N               (* stamp *)
}.

(* consensus/step.go *)
Inductive step := SNewHeight | STxWait | SNewRound | SPropose | SPrevote
                | SPrevoteWait | SPrecommit | SPrecommitWait | SCommit.

Definition step_code (s : step) : N :=
  match s with
  | SNewHeight => 0 | STxWait => 1 | SNewRound => 2 | SPropose => 3 | SPrevote => 4
  | SPrevoteWait => 5 | SPrecommit => 6 | SPrecommitWait => 7 | SCommit => 8
  end%N.

Definition step_ltb (a b : step) : bool := N.ltb (step_code a) (step_code b).
Definition step_leb (a b : step) : bool := N.leb (step_code a) (step_code b).
Definition step_eqb (a b : step) : bool := N.eqb (step_code a) (step_code b).

(* consensus.go:isValidTransition *)
Definition valid_transition (from to : step) : bool :=
  match to with
  | SNewHeight => step_eqb from SNewHeight || step_eqb from SCommit
  | SNewRound => true
  | _ => step_ltb from to
  end.

Record blk := mkBlk {
  b_id : N;
  b_parts : N;          (* PartSetID.Count *)
  b_dec : bool;         (* NewBlockDataFromReader succeeds *)
  b_prop : Z;           (* validator slot of block.Proposer(), negative: none *)
  b_imperr : bool       (* ImportBlock returns an error synchronously *)
}.

Inductive wal := WRound | WLock | WCommit.

Inductive wrec :=
| RVote (v : vote)
| RProposal (r : Z) (b : N) (pol : Z)
| RVoteList (l : list vote)
| RPart (b : N) (idx : N)
| RUnknown.

Inductive out :=
| OWrite (w : wal) (r : wrec)
| OSync (w : wal)
| OSendVote (v : vote)
| OSendProposal (r : Z) (b : N) (pol : Z)
| OSendPart (b : N) (idx : N)
| OSendVoteList (l : list vote)
| OImportReq (b : N) (force : bool) (syncerr : bool)
| OProposeReq (syncerr : bool)
| OFinalize (b : N)
| OUnknown.

Inductive event :=
| EProposal (curh : bool) (r : Z) (from : Z) (pol : Z) (b : N)
| EPart (curh : bool) (b : N) (idx : N)
| EVote (curh : bool) (v : vote)
| EVoteList (l : list (bool * vote))
| ETimeout
| EProposeCb (rr : Z) (ok : bool) (b : N)
| EImportCb (rr : Z) (ok : bool)
| ECommitCb (rr : Z) (ok : bool)
| ECrash (kr kl kc : nat)
| ERestart
| EUnknown.

(* ------------------------------------------------------------------ equality *)

Definition vtype_eqb (a b : vtype) : bool :=
  match a, b with Prevote, Prevote | Precommit, Precommit => true | _, _ => false end.

Definition dec_eqb (a b : option N) : bool :=
  match a, b with
  | None, None => true
  | Some x, Some y => N.eqb x y
  | _, _ => false
  end.

(* VoteMessage.EqualExceptSigs (height is the current one for every stored vote) *)
Definition vote_eqb (a b : vote) : bool :=
  Z.eqb (v_from a) (v_from b) && Z.eqb (v_round a) (v_round b) && vtype_eqb (v_type a) (v_type b)
  && dec_eqb (v_dec a) (v_dec b) && N.eqb (v_ts a) (v_ts b).

(* ------------------------------------------------------------------ vote sets
   consensus/voteset.go: one slot per validator; a later different vote of the
   same validator REPLACES the stored one unless the stored one belongs to the
   current +2/3 decision. *)

Definition vset := list (option vote).

Definition vs_empty (n : nat) : vset := repeat None n.

Definition vs_count (vs : vset) : nat :=
  length (filter (fun o => match o with Some _ => true | None => false end) vs).

Definition vs_count_dec (vs : vset) (d : option N) : nat :=
  length (filter (fun o => match o with Some v => dec_eqb (v_dec v) d | None => false end) vs).

(* n*2/3 < c *)
Definition over23 (c n : nat) : bool := (n * 2 / 3 <? c)%nat.

(* voteSet.hasOverTwoThirds *)
Definition vs_has23 (vs : vset) : bool := over23 (vs_count vs) (length vs).

(* voteSet.getOverTwoThirdsRoundDecisionDigest: the decision that has +2/3, if any *)
Definition vs_over23 (vs : vset) : option (option N) :=
  match find (fun o => match o with
                       | Some v => over23 (vs_count_dec vs (v_dec v)) (length vs)
                       | None => false end) vs with
  | Some (Some v) => Some (v_dec v)
  | _ => None
  end.

Fixpoint set_nth {A} (i : nat) (x : A) (l : list A) : list A :=
  match l, i with
  | [], _ => []
  | _ :: r, O => x :: r
  | y :: r, S k => y :: set_nth k x r
  end.

(* voteSet.add: (added, new set) *)
Definition vs_add (vs : vset) (i : nat) (v : vote) : bool * vset :=
  match nth_error vs i with
  | None => (false, vs)                              (* index out of range: not reached *)
  | Some None => (true, set_nth i (Some v) vs)
  | Some (Some o) =>
      if vote_eqb o v then (false, vs)
      else match vs_over23 vs with
           | Some d => if dec_eqb d (v_dec o) then (false, vs) else (true, set_nth i (Some v) vs)
           | None => (true, set_nth i (Some v) vs)
           end
  end.

(* voteSet.voteList *)
Definition vs_list (vs : vset) : list vote :=
  flat_map (fun o => match o with Some v => [v] | None => [] end) vs.

(* voteSet.voteListForOverTwoThirds (nil list printed as empty) *)
Definition vs_list23 (vs : vset) : list vote :=
  match vs_over23 vs with
  | Some d => filter (fun v => dec_eqb (v_dec v) d) (vs_list vs)
  | None => []
  end.

(* heightVoteSet: round -> (prevotes, precommits) *)
Definition hvs_t := list (Z * (vset * vset)).

Fixpoint hvs_get (n : nat) (h : hvs_t) (r : Z) : vset * vset :=
  match h with
  | [] => (vs_empty n, vs_empty n)
  | (r', p) :: t => if Z.eqb r r' then p else hvs_get n t r
  end.

Definition hvs_for (n : nat) (h : hvs_t) (r : Z) (t : vtype) : vset :=
  let p := hvs_get n h r in match t with Prevote => fst p | Precommit => snd p end.

Fixpoint hvs_set (h : hvs_t) (r : Z) (p : vset * vset) : hvs_t :=
  match h with
  | [] => [(r, p)]
  | (r', q) :: t => if Z.eqb r r' then (r, p) :: t else (r', q) :: hvs_set t r p
  end.

(* heightVoteSet.add *)
Definition hvs_add (n : nat) (h : hvs_t) (i : nat) (v : vote) : bool * hvs_t :=
  let p := hvs_get n h (v_round v) in
  match v_type v with
  | Prevote => let '(a, s) := vs_add (fst p) i v in (a, hvs_set h (v_round v) (s, snd p))
  | Precommit => let '(a, s) := vs_add (snd p) i v in (a, hvs_set h (v_round v) (fst p, s))
  end.

(* heightVoteSet.removeLowerRoundExcept *)
Definition hvs_remove_lower (h : hvs_t) (lower except : Z) : hvs_t :=
  filter (fun e => negb (Z.ltb (fst e) lower && negb (Z.eqb (fst e) except))) h.

(* ------------------------------------------------------------------ part sets
   consensus/blockpartset.go *)

Record bps := mkBps {
  p_id : N;
  p_have : list N;      (* indices of the parts present *)
  p_block : bool;       (* HasBlockData *)
  p_valid : bool        (* HasValidatedBlock *)
}.

Definition bps_id (o : option bps) : option N := option_map p_id o.

Definition bps_id_is (o : option bps) (b : N) : bool :=
  match o with Some p => N.eqb (p_id p) b | None => false end.

(* ------------------------------------------------------------------ WAL state *)

Record walst := mkWal { w_synced : list wrec; w_unsynced : list wrec }.

Definition wal_empty := mkWal [] [].
Definition wal_all (w : walst) : list wrec := w_synced w ++ w_unsynced w.
Definition wal_write (w : walst) (r : wrec) := mkWal (w_synced w) (w_unsynced w ++ [r]).
Definition wal_sync (w : walst) := mkWal (w_synced w ++ w_unsynced w) [].
(* crash: the synced records and the first [keep] unsynced ones are on disk *)
Definition wal_crash (w : walst) (keep : nat) := mkWal (w_synced w) (firstn keep (w_unsynced w)).
(* after recovery everything that is on disk is durable *)
Definition wal_recover (w : walst) := mkWal (wal_all w) [].

Inductive status := Running | Down | Decided.

(* ghost log of the decisions that matter for agreement (C01), each with the
   evidence the engine acted on (the vote set it looked at).  Not an output:
   nothing here influences the engine. *)
Inductive gev :=
| GVote (r : Z) (t : vtype) (d : option N) (lk : option (Z * N))
    (* the engine sends its vote (r, t, d); lk = (lockedRound, locked block) at that moment *)
| GLock (r : Z) (b : N) (ev : vset)
    (* lockedRound / lockedBlockParts := (r, b), on the prevotes ev of round r *)
| GUnlock (lr : Z) (b : N) (r : Z) (w : option N) (ev : vset)
    (* the lock (lr, b) is dropped, on the prevotes ev of round r that hold +2/3 for w *)
| GCommit (b : N) (r : Z) (ev : vset).
    (* enterCommit for block b, on the precommits ev of round r *)

(* messages signed by this validator that went out to the network (ghost
   history: survives crashes; the number is the emission counter, so two
   separate emissions are always two different entries) *)
Inductive sentmsg :=
| SVote (r : Z) (t : vtype) (d : option N) (stamp : nat)
| SProposal (r : Z) (b : N) (pol : Z) (stamp : nat).

Record st := mkSt {
  status_ : status;
  round : Z;
  stp : step;
  locked_round : Z;
  locked : option bps;
  pol_round : Z;
  cur : option bps;
  hvs : hvs_t;
  commit_round : Z;
  bpm : list (N * N);                 (* bpmCache: (part set, index) *)
  timer : bool;
  prop_req : option Z;                (* outstanding Propose: round of the request *)
  imp_req : option (Z * N);           (* outstanding prevote-ImportBlock: (round, block) *)
  commit_req : option Z;              (* outstanding forced ImportBlock of enterCommit: round *)
  wal_r : walst; wal_l : walst; wal_c : walst;
  sent : list sentmsg;
  nsent : nat;
  outs : list out;                    (* outputs of the current event *)
  fuse : option nat;                  (* outputs left before the crash point *)
  decided : option N;
  glog : list gev                     (* ghost *)
}.

Definition init : st :=
  mkSt Down 0 SNewHeight (-1) None (-1) None [] (-1) [] false None None None
       wal_empty wal_empty wal_empty [] O [] None None [].

(* record update helpers *)
Definition set_status x s := mkSt x (round s) (stp s) (locked_round s) (locked s) (pol_round s) (cur s) (hvs s) (commit_round s) (bpm s) (timer s) (prop_req s) (imp_req s) (commit_req s) (wal_r s) (wal_l s) (wal_c s) (sent s) (nsent s) (outs s) (fuse s) (decided s) (glog s).
Definition set_round x s := mkSt (status_ s) x (stp s) (locked_round s) (locked s) (pol_round s) (cur s) (hvs s) (commit_round s) (bpm s) (timer s) (prop_req s) (imp_req s) (commit_req s) (wal_r s) (wal_l s) (wal_c s) (sent s) (nsent s) (outs s) (fuse s) (decided s) (glog s).
Definition set_stp x s := mkSt (status_ s) (round s) x (locked_round s) (locked s) (pol_round s) (cur s) (hvs s) (commit_round s) (bpm s) (timer s) (prop_req s) (imp_req s) (commit_req s) (wal_r s) (wal_l s) (wal_c s) (sent s) (nsent s) (outs s) (fuse s) (decided s) (glog s).
Definition set_lock lr l s := mkSt (status_ s) (round s) (stp s) lr l (pol_round s) (cur s) (hvs s) (commit_round s) (bpm s) (timer s) (prop_req s) (imp_req s) (commit_req s) (wal_r s) (wal_l s) (wal_c s) (sent s) (nsent s) (outs s) (fuse s) (decided s) (glog s).
Definition set_pol x s := mkSt (status_ s) (round s) (stp s) (locked_round s) (locked s) x (cur s) (hvs s) (commit_round s) (bpm s) (timer s) (prop_req s) (imp_req s) (commit_req s) (wal_r s) (wal_l s) (wal_c s) (sent s) (nsent s) (outs s) (fuse s) (decided s) (glog s).
Definition set_cur x s := mkSt (status_ s) (round s) (stp s) (locked_round s) (locked s) (pol_round s) x (hvs s) (commit_round s) (bpm s) (timer s) (prop_req s) (imp_req s) (commit_req s) (wal_r s) (wal_l s) (wal_c s) (sent s) (nsent s) (outs s) (fuse s) (decided s) (glog s).
Definition set_hvs x s := mkSt (status_ s) (round s) (stp s) (locked_round s) (locked s) (pol_round s) (cur s) x (commit_round s) (bpm s) (timer s) (prop_req s) (imp_req s) (commit_req s) (wal_r s) (wal_l s) (wal_c s) (sent s) (nsent s) (outs s) (fuse s) (decided s) (glog s).
Definition set_commit_round x s := mkSt (status_ s) (round s) (stp s) (locked_round s) (locked s) (pol_round s) (cur s) (hvs s) x (bpm s) (timer s) (prop_req s) (imp_req s) (commit_req s) (wal_r s) (wal_l s) (wal_c s) (sent s) (nsent s) (outs s) (fuse s) (decided s) (glog s).
Definition set_bpm x s := mkSt (status_ s) (round s) (stp s) (locked_round s) (locked s) (pol_round s) (cur s) (hvs s) (commit_round s) x (timer s) (prop_req s) (imp_req s) (commit_req s) (wal_r s) (wal_l s) (wal_c s) (sent s) (nsent s) (outs s) (fuse s) (decided s) (glog s).
Definition set_timer x s := mkSt (status_ s) (round s) (stp s) (locked_round s) (locked s) (pol_round s) (cur s) (hvs s) (commit_round s) (bpm s) x (prop_req s) (imp_req s) (commit_req s) (wal_r s) (wal_l s) (wal_c s) (sent s) (nsent s) (outs s) (fuse s) (decided s) (glog s).
Definition set_prop_req x s := mkSt (status_ s) (round s) (stp s) (locked_round s) (locked s) (pol_round s) (cur s) (hvs s) (commit_round s) (bpm s) (timer s) x (imp_req s) (commit_req s) (wal_r s) (wal_l s) (wal_c s) (sent s) (nsent s) (outs s) (fuse s) (decided s) (glog s).
Definition set_imp_req x s := mkSt (status_ s) (round s) (stp s) (locked_round s) (locked s) (pol_round s) (cur s) (hvs s) (commit_round s) (bpm s) (timer s) (prop_req s) x (commit_req s) (wal_r s) (wal_l s) (wal_c s) (sent s) (nsent s) (outs s) (fuse s) (decided s) (glog s).
Definition set_commit_req x s := mkSt (status_ s) (round s) (stp s) (locked_round s) (locked s) (pol_round s) (cur s) (hvs s) (commit_round s) (bpm s) (timer s) (prop_req s) (imp_req s) x (wal_r s) (wal_l s) (wal_c s) (sent s) (nsent s) (outs s) (fuse s) (decided s) (glog s).
Definition set_wals r l c s := mkSt (status_ s) (round s) (stp s) (locked_round s) (locked s) (pol_round s) (cur s) (hvs s) (commit_round s) (bpm s) (timer s) (prop_req s) (imp_req s) (commit_req s) r l c (sent s) (nsent s) (outs s) (fuse s) (decided s) (glog s).
Definition set_sent x k s := mkSt (status_ s) (round s) (stp s) (locked_round s) (locked s) (pol_round s) (cur s) (hvs s) (commit_round s) (bpm s) (timer s) (prop_req s) (imp_req s) (commit_req s) (wal_r s) (wal_l s) (wal_c s) x k (outs s) (fuse s) (decided s) (glog s).
Definition set_outs x f s := mkSt (status_ s) (round s) (stp s) (locked_round s) (locked s) (pol_round s) (cur s) (hvs s) (commit_round s) (bpm s) (timer s) (prop_req s) (imp_req s) (commit_req s) (wal_r s) (wal_l s) (wal_c s) (sent s) (nsent s) x f (decided s) (glog s).
Definition set_decided x s := mkSt (status_ s) (round s) (stp s) (locked_round s) (locked s) (pol_round s) (cur s) (hvs s) (commit_round s) (bpm s) (timer s) (prop_req s) (imp_req s) (commit_req s) (wal_r s) (wal_l s) (wal_c s) (sent s) (nsent s) (outs s) (fuse s) x (glog s).

Definition set_glog x s := mkSt (status_ s) (round s) (stp s) (locked_round s) (locked s) (pol_round s) (cur s) (hvs s) (commit_round s) (bpm s) (timer s) (prop_req s) (imp_req s) (commit_req s) (wal_r s) (wal_l s) (wal_c s) (sent s) (nsent s) (outs s) (fuse s) (decided s) x.
Definition glog_add (e : gev) (s : st) : st := set_glog (glog s ++ [e]) s.
Definition lock_of (s : st) : option (Z * N) := option_map (fun p => (locked_round s, p_id p)) (locked s).

(* the process has passed its crash point in this event *)
Definition blown (s : st) : bool := match fuse s with Some O => true | _ => false end.

(* effect of an output on the durable / ghost part of the state *)
Definition apply_out (o : out) (s : st) : st :=
  match o with
  | OWrite WRound r => set_wals (wal_write (wal_r s) r) (wal_l s) (wal_c s) s
  | OWrite WLock r => set_wals (wal_r s) (wal_write (wal_l s) r) (wal_c s) s
  | OWrite WCommit r => set_wals (wal_r s) (wal_l s) (wal_write (wal_c s) r) s
  | OSync WRound => set_wals (wal_sync (wal_r s)) (wal_l s) (wal_c s) s
  | OSync WLock => set_wals (wal_r s) (wal_sync (wal_l s)) (wal_c s) s
  | OSync WCommit => set_wals (wal_r s) (wal_l s) (wal_sync (wal_c s)) s
  | OSendVote v => set_sent (sent s ++ [SVote (v_round v) (v_type v) (v_dec v) (nsent s)]) (S (nsent s)) s
  | OSendProposal r b pol => set_sent (sent s ++ [SProposal r b pol (nsent s)]) (S (nsent s)) s
  | OFinalize b => set_decided (Some b) s
  | _ => s
  end.

(* every output of the engine goes through here *)
Definition emit (o : out) (s : st) : st :=
  match fuse s with
  | Some O => s
  | Some (S k) => apply_out o (set_outs (outs s ++ [o]) (Some k) s)
  | None => apply_out o (set_outs (outs s ++ [o]) None s)
  end.

Fixpoint emit_all (l : list out) (s : st) : st :=
  match l with [] => s | o :: r => emit_all r (emit o s) end.

(* ------------------------------------------------------------------ the engine *)

Section Engine.
  Variable n : nat.                 (* number of validators *)
  Variable own : Z.                 (* this validator's slot *)
  Variable blocks : list blk.       (* block table *)
  Variable delay : bool.            (* enterNewRound finds nextProposeTime in the future *)

  Definition blk_of (b : N) : option blk := find (fun x => N.eqb (b_id x) b) blocks.
  Definition nparts (b : N) : N := match blk_of b with Some x => b_parts x | None => 1%N end.
  Definition decodable (b : N) : bool := match blk_of b with Some x => b_dec x | None => false end.
  Definition proposer_in (b : N) : Z := match blk_of b with Some x => b_prop x | None => (-1) end.
  Definition imperr (b : N) : bool := match blk_of b with Some x => b_imperr x | None => false end.

  Definition all_parts (b : N) : list N := map N.of_nat (seq 0 (N.to_nat (nparts b))).

  Definition bps_complete (p : bps) : bool := N.eqb (N.of_nat (length (p_have p))) (nparts (p_id p)).
  Definition cur_complete (s : st) : bool := match cur s with Some p => bps_complete p | None => false end.
  Definition cur_hasblock (s : st) : bool := match cur s with Some p => p_block p | None => false end.
  Definition cur_valid (s : st) : bool := match cur s with Some p => p_valid p | None => false end.

  (* getProposerIndex at height 1: (height + round) mod n *)
  Definition proposer (r : Z) : Z := (1 + r) mod (Z.of_nat n).
  Definition is_proposer (s : st) : bool := Z.eqb (proposer (round s)) own.

  Definition votes_for (s : st) (r : Z) (t : vtype) : vset := hvs_for n (hvs s) r t.

  (* blockPartSet.SetByPartSetID *)
  Definition set_by_psid (b : N) (s : st) : st :=
    if bps_id_is (cur s) b then s else set_cur (Some (mkBps b [] false false)) s.

  (* blockPartSet.AddPartFromBytes on currentBlockParts: (added, state) *)
  Definition add_part (b idx : N) (s : st) : bool * st :=
    match cur s with
    | None => (false, s)
    | Some p =>
        if negb (N.eqb (p_id p) b) then (false, s)                 (* proof does not verify *)
        else if negb (N.ltb idx (nparts b)) then (false, s)
        else if existsb (N.eqb idx) (p_have p) then (false, s)
        else
          let have := p_have p ++ [idx] in
          let full := N.eqb (N.of_nat (length have)) (nparts b) in
          (true, set_cur (Some (mkBps b have (if full then decodable b else p_block p) (p_valid p))) s)
    end.

  (* fill currentBlockParts from the bpm cache (ReceiveProposalMessage / enterCommit) *)
  Definition fill_from_cache (b : N) (s : st) : st :=
    fold_left (fun s i => if existsb (fun e => N.eqb (fst e) b && N.eqb (snd e) i) (bpm s)
                          then snd (add_part b i s) else s)
              (all_parts b) s.

  (* isProposalAndPOLPrevotesComplete *)
  Definition prop_pol_complete (s : st) : bool :=
    cur_complete s &&
    (if Z.leb 0 (pol_round s)
     then match vs_over23 (votes_for s (pol_round s) Prevote) with
          | Some (Some _) => true
          | _ => false
          end
     else true).

  (* proposalHasValidProposer *)
  Definition valid_proposer (s : st) : bool :=
    prop_pol_complete s &&
    (if Z.eqb (pol_round s) (-1)
     then match cur s with
          | Some p => Z.leb 0 (proposer_in (p_id p)) && Z.eqb (proposer (round s)) (proposer_in (p_id p))
          | None => false
          end
     else true).

  Definition panic (s : st) : st := set_status Down s.

  (* endStep + beginStep (resetForNewStep); an invalid transition is log.Panicf *)
  Definition new_step (to : step) (s : st) : st :=
    let s := set_timer false s in
    if valid_transition (stp s) to then set_stp to s else panic s.

  (* resetForNewRound *)
  Definition new_round (r : Z) (s : st) : st :=
    let s := set_timer false s in
    let s := set_pol (-1) s in
    let s := set_cur None s in
    let s := set_round r s in
    let s := set_hvs (hvs_remove_lower (hvs s) (r - 1) (locked_round s)) s in
    set_stp SNewRound s.

  Definition unlock (s : st) : st := set_lock (-1) None s.

  (* unlock, noting in the ghost log which lock was dropped and on what evidence *)
  Definition unlock_on (r : Z) (w : option N) (ev : vset) (s : st) : st :=
    match locked s with
    | Some l => unlock (glog_add (GUnlock (locked_round s) (p_id l) r w ev) s)
    | None => unlock s
    end.

  Definition own_vote (s : st) (t : vtype) (d : option N) : vote := mkVote own (round s) t d 0%N.

  (* doSendProposal *)
  Definition send_proposal (b : N) (pol : Z) (s : st) : st :=
    let s := emit (OWrite WRound (RProposal (round s) b pol)) s in
    let s := emit (OSync WRound) s in
    let s := emit (OSendProposal (round s) b pol) s in
    let s := if Z.leb 0 pol then emit (OSendVoteList (vs_list23 (votes_for s pol Prevote))) s else s in
    emit_all (map (OSendPart b) (all_parts b)) s.

  (* writeLockWAL: the polka, the parts of the locked block, Sync *)
  Definition write_lock_wal (pv : vset) (b : N) (s : st) : st :=
    let s := emit (OWrite WLock (RVoteList (vs_list pv))) s in
    let s := emit_all (map (fun i => OWrite WLock (RPart b i)) (all_parts b)) s in
    emit (OSync WLock) s.

  (* what the running engine does; [f] is fuel (every call consumes one) *)
  Inductive act :=
  | AEnterPropose | AEnterPrevote | AEnterPrevoteWait | AEnterPrecommit | AEnterPrecommitWait
  | AEnterCommit (r : Z) (b : N) | AEnterNewRound | ACommitNewHeight
  | ASendVote (t : vtype) (d : option N)
  | ARecvVote (v : vote).

  Fixpoint run (f : nat) (a : act) (s : st) {struct f} : st :=
    match status_ s with
    | Running =>
    match f with
    | O => panic s
    | S f =>
      match a with
      (* ---- ReceiveVoteMessage (current height), then handlePrevoteMessage /
              handlePrecommitMessage ---- *)
      | ARecvVote v =>
          if Z.ltb (v_from v) 0 || Z.leb (Z.of_nat n) (v_from v) then s else
          let '(added, h) := hvs_add n (hvs s) (Z.to_nat (v_from v)) v in
          if negb added then s else
          let s := set_hvs h s in
          let votes := votes_for s (v_round v) (v_type v) in
          if negb (vs_has23 votes) then s else
          let r := v_round v in
          match v_type v with
          | Prevote =>
              if step_leb SCommit (stp s) then s else
              let o := vs_over23 votes in
              let s := match o with
                       | Some d =>
                           let s := if Z.ltb (locked_round s) r
                                       && match locked s with Some l => negb (dec_eqb (Some (p_id l)) d) | None => false end
                                    then unlock_on r d votes s else s in
                           match d with
                           | Some b => if Z.eqb (round s) r then set_by_psid b s else s
                           | None => s
                           end
                       | None => s
                       end in
              if Z.ltb r (round s) && step_ltb (stp s) SPrevote && Z.eqb r (pol_round s) && prop_pol_complete s
              then run f AEnterPrevote s
              else if Z.eqb (round s) r && step_ltb (stp s) SPrevote then run f AEnterPrevote s
              else if Z.eqb (round s) r && step_eqb (stp s) SPrevote then run f AEnterPrevoteWait s
              else if Z.eqb (round s) r && step_eqb (stp s) SPrevoteWait
                   then match o with Some _ => run f AEnterPrecommit s | None => s end
              else if Z.ltb (round s) r && step_ltb (stp s) SCommit
                   then run f AEnterPrevote (new_round r s)
              else s
          | Precommit =>
              let o := vs_over23 votes in
              if Z.ltb r (round s) && step_ltb (stp s) SCommit
              then match o with Some (Some b) => run f (AEnterCommit r b) s | _ => s end
              else if Z.eqb (round s) r && step_ltb (stp s) SPrecommit then run f AEnterPrecommit s
              else if Z.eqb (round s) r && step_eqb (stp s) SPrecommit then run f AEnterPrecommitWait s
              else if Z.eqb (round s) r && step_eqb (stp s) SPrecommitWait
                   then match o with
                        | Some (Some b) => run f (AEnterCommit r b) s
                        | Some None => run f AEnterNewRound s
                        | None => s
                        end
              else if Z.ltb (round s) r && step_ltb (stp s) SCommit
                   then run f AEnterPrecommit (new_round r s)
              else s
          end

      (* ---- doSendVote ---- *)
      | ASendVote t d =>
          if Z.ltb own 0 || Z.leb (Z.of_nat n) own then s else
          let v := own_vote s t d in
          let s := glog_add (GVote (round s) t d (lock_of s)) s in
          let s := emit (OWrite WRound (RVote v)) s in
          let s := emit (OSync WRound) s in
          let s := emit (OSendVote v) s in
          run f (ARecvVote v) s

      (* ---- enterPropose ---- *)
      | AEnterPropose =>
          let s := new_step SPropose s in
          match status_ s with
          | Running =>
              let s := set_timer true s in
              if is_proposer s then
                match locked s with
                | Some l =>
                    let s := send_proposal (p_id l) (locked_round s) s in
                    set_cur (Some l) s
                | None =>
                    let s := emit (OProposeReq false) s in
                    set_prop_req (Some (round s)) s
                end
              else if prop_pol_complete s then run f AEnterPrevote s else s
          | _ => s
          end

      (* ---- enterPrevote ---- *)
      | AEnterPrevote =>
          let s := new_step SPrevote s in
          match status_ s with
          | Running =>
              let tail (s : st) : st :=
                if step_eqb (stp s) SPrevote && vs_has23 (votes_for s (round s) Prevote)
                then run f AEnterPrevoteWait s else s in
              match locked s with
              | Some l => tail (run f (ASendVote Prevote (Some (p_id l))) s)
              | None =>
                  match cur s with
                  | Some p =>
                      if p_block p then
                        if p_valid p then tail (run f (ASendVote Prevote (Some (p_id p))) s)
                        else if negb (valid_proposer s) then tail (run f (ASendVote Prevote None) s)
                        else if imperr (p_id p)
                             then run f (ASendVote Prevote None) (emit (OImportReq (p_id p) false true) s)
                             else tail (set_imp_req (Some (round s, p_id p)) (emit (OImportReq (p_id p) false false) s))
                      else tail (run f (ASendVote Prevote None) s)
                  | None => tail (run f (ASendVote Prevote None) s)
                  end
              end
          | _ => s
          end

      (* ---- enterPrevoteWait ---- *)
      | AEnterPrevoteWait =>
          let s := new_step SPrevoteWait s in
          match status_ s with
          | Running =>
              let pv := votes_for s (round s) Prevote in
              let s := emit (OWrite WRound (RVoteList (vs_list pv))) s in
              match vs_over23 pv with
              | Some _ => run f AEnterPrecommit s
              | None => set_timer true s
              end
          | _ => s
          end

      (* ---- enterPrecommit ---- *)
      | AEnterPrecommit =>
          let s := new_step SPrecommit s in
          match status_ s with
          | Running =>
              let pv := votes_for s (round s) Prevote in
              let tail (s : st) : st :=
                if step_eqb (stp s) SPrecommit && vs_has23 (votes_for s (round s) Precommit)
                then run f AEnterPrecommitWait s else s in
              match vs_over23 pv with
              | None => tail (run f (ASendVote Precommit None) s)
              | Some None => tail (run f (ASendVote Precommit None) (unlock_on (round s) None pv s))
              | Some (Some b) =>
                  if bps_id_is (locked s) b then
                    (* "update lock round": the lock WAL gets the new round as well *)
                    let s := set_lock (round s) (locked s) (glog_add (GLock (round s) b pv) s) in
                    let s := write_lock_wal pv b s in
                    tail (run f (ASendVote Precommit (Some b)) s)
                  else if bps_id_is (cur s) b && cur_hasblock s then
                    let s := set_lock (round s) (cur s) (glog_add (GLock (round s) b pv) s) in
                    let s := write_lock_wal pv b s in
                    tail (run f (ASendVote Precommit (Some b)) s)
                  else if bps_id_is (cur s) b && cur_complete s then panic s
                  else
                    let s := set_by_psid b s in
                    tail (run f (ASendVote Precommit None) (unlock_on (round s) (Some b) pv s))
              end
          | _ => s
          end

      (* ---- enterPrecommitWait ---- *)
      | AEnterPrecommitWait =>
          let s := new_step SPrecommitWait s in
          match status_ s with
          | Running =>
              let pc := votes_for s (round s) Precommit in
              let s := emit (OWrite WRound (RVoteList (vs_list pc))) s in
              match vs_over23 pc with
              | Some (Some b) => run f (AEnterCommit (round s) b) s
              | Some None => run f AEnterNewRound s
              | None => set_timer true s
              end
          | _ => s
          end

      (* ---- enterCommit ---- *)
      | AEnterCommit r b =>
          let s := new_step SCommit s in
          match status_ s with
          | Running =>
              let s := set_commit_round r s in
              let s := glog_add (GCommit b r (votes_for s r Precommit)) s in
              let s := emit (OWrite WCommit (RVoteList (vs_list (votes_for s r Precommit)))) s in
              let s := emit (OSync WCommit) s in
              let s := set_by_psid b s in
              let s := if cur_complete s then s else fill_from_cache b s in
              if cur_complete s then run f ACommitNewHeight s else s
          | _ => s
          end

      (* ---- commitAndEnterNewHeight ---- *)
      | ACommitNewHeight =>
          match cur s with
          | Some p =>
              if p_valid p then
                let s := emit (OFinalize (p_id p)) s in
                set_status Decided s
              else if negb (p_block p) then panic s          (* nil block handed to ImportBlock *)
              else if imperr (p_id p) then panic (emit (OImportReq (p_id p) true true) s)
              else set_commit_req (Some (round s)) (emit (OImportReq (p_id p) true false) s)
          | None => panic s
          end

      (* ---- enterNewRound ---- *)
      | AEnterNewRound =>
          let s := new_round (round s + 1) s in
          if delay then set_timer true s else run f AEnterPropose s
      end
    end
    | _ => s
    end.

  Definition fuel : nat := 64.

  (* ---- ReceiveProposalMessage ---- *)
  Definition recv_proposal (curh : bool) (r from pol : Z) (b : N) (s : st) : st :=
    if Z.ltb pol (-1) || Z.leb r pol then s else               (* ProposalMessage.Verify *)
    if negb curh || negb (Z.eqb r (round s)) || step_leb SCommit (stp s) then s else
    if Z.ltb from 0 || Z.leb (Z.of_nat n) from then s else
    if negb (Z.eqb (proposer (round s)) from) then s else
    match cur s with
    | Some _ => s
    | None =>
        let s := set_pol pol s in
        let s := set_cur (Some (mkBps b [] false false)) s in
        let s := fill_from_cache b s in
        if (step_eqb (stp s) STxWait || step_eqb (stp s) SPropose) && prop_pol_complete s
        then run fuel AEnterPrevote s
        else s
    end.

  (* ---- ReceiveBlockPartMessage ---- *)
  Definition recv_part (curh : bool) (b idx : N) (s : st) : st :=
    let s := if existsb (fun e => N.eqb (fst e) b && N.eqb (snd e) idx) (bpm s) then s
             else set_bpm (bpm s ++ [(b, idx)]) s in
    if negb curh then s else
    match cur s with
    | None => s
    | Some p =>
        if bps_complete p then s else
        let '(added, s) := add_part b idx s in
        if negb added then s else
        if (step_eqb (stp s) STxWait || step_eqb (stp s) SPropose) && prop_pol_complete s
        then run fuel AEnterPrevote s
        else if step_eqb (stp s) SCommit && cur_complete s then run fuel ACommitNewHeight s
        else s
    end.

  Definition recv_vote (curh : bool) (v : vote) (s : st) : st :=
    if negb curh then s else run fuel (ARecvVote v) s.

  (* ---- the step timers ---- *)
  Definition timeout (s : st) : st :=
    if negb (timer s) then s else
    match stp s with
    | SPropose => run fuel AEnterPrevote s
    | SPrevoteWait => run fuel AEnterPrecommit s
    | SPrecommitWait => run fuel AEnterNewRound s
    | SNewRound => run fuel AEnterPropose s
    | _ => s
    end.

  (* ---- callback of BlockManager.Propose (enterPropose) ---- *)
  Definition propose_cb (rr : Z) (ok : bool) (b : N) (s : st) : st :=
    match prop_req s with
    | Some r =>
        if negb (Z.eqb r rr) then s else
        let s := set_prop_req None s in
        if negb (Z.eqb (round s) r && step_eqb (stp s) SPropose) then s else
        if negb ok then run fuel AEnterPrevote s else
        let s := send_proposal b (-1) s in
        let s := set_cur (Some (mkBps b (all_parts b) true true)) s in
        run fuel AEnterPrevote s
    | None => s
    end.

  (* ---- callback of ImportBlock called by enterPrevote ---- *)
  Definition import_cb (rr : Z) (ok : bool) (s : st) : st :=
    match imp_req s with
    | Some (r, b) =>
        if negb (Z.eqb r rr) then s else
        let s := set_imp_req None s in
        if negb (Z.eqb (round s) r) || step_leb SCommit (stp s) then s else
        if ok then
          let s := if cur_hasblock s && bps_id_is (cur s) b
                   then set_cur (Some (mkBps b (all_parts b) true true)) s else s in
          if step_leb (stp s) SPrevoteWait then
            match cur s with
            | Some p => if p_block p then run fuel (ASendVote Prevote (Some (p_id p))) s else panic s
            | None => panic s
            end
          else s
        else
          if step_leb (stp s) SPrevoteWait then run fuel (ASendVote Prevote None) s else s
    | None => s
    end.

  (* ---- callback of the forced ImportBlock of commitAndEnterNewHeight ---- *)
  Definition commit_cb (rr : Z) (ok : bool) (s : st) : st :=
    match commit_req s with
    | Some r =>
        if negb (Z.eqb r rr) then s else
        let s := set_commit_req None s in
        if negb (Z.eqb (round s) r && step_eqb (stp s) SCommit) then s else
        if negb ok then panic s else
        match cur s with
        | Some p =>
            let s := set_cur (Some (mkBps (p_id p) (all_parts (p_id p)) true true)) s in
            set_status Decided (emit (OFinalize (p_id p)) s)
        | None => panic s
        end
    | None => s
    end.

  (* ---- restart: resetForNewHeight, applyRoundWAL, applyLockWAL,
          applyCommitWAL, then the dispatch at the end of Start ---- *)

  Definition mstep_of (t : vtype) : step := match t with Prevote => SPrevote | Precommit => SPrecommit end.

  Definition add_votes (l : list vote) (h : hvs_t) : hvs_t :=
    fold_left (fun h v => if Z.ltb (v_from v) 0 || Z.leb (Z.of_nat n) (v_from v) then h
                          else snd (hvs_add n h (Z.to_nat (v_from v)) v)) l h.

  (* the "update round/step" block shared by the three apply functions for a vote list *)
  Definition bump_by_list (l : list vote) (h : hvs_t) (rs : Z * step) : Z * step :=
    match l with
    | [] => rs
    | v0 :: _ =>
        let '(r, st0) := rs in
        let m := mstep_of (v_type v0) in
        if Z.ltb r (v_round v0) || (Z.eqb r (v_round v0) && step_ltb st0 m)
        then if vs_has23 (hvs_for n h (v_round v0) (v_type v0)) then (v_round v0, m) else rs
        else rs
    end.

  (* applyRoundWAL: state = (hvs, (round, rstep), ok) ; ok=false: the Go code indexes an empty list *)
  Definition apply_round_rec (acc : hvs_t * (Z * step) * bool) (rec : wrec) : hvs_t * (Z * step) * bool :=
    let '(h, rs, ok) := acc in
    let '(r, st0) := rs in
    match rec with
    | RProposal pr _ _ =>
        if Z.ltb r pr || (Z.eqb r pr && step_leb st0 SPropose) then (h, (pr, SPropose), ok) else acc
    | RVote v =>
        if negb (Z.eqb (v_from v) own) then acc else
        if Z.ltb (v_from v) 0 || Z.leb (Z.of_nat n) (v_from v) then acc else
        let h := snd (hvs_add n h (Z.to_nat (v_from v)) v) in
        let m := mstep_of (v_type v) in
        if Z.ltb r (v_round v) || (Z.eqb r (v_round v) && step_leb st0 m) then (h, (v_round v, m), ok) else (h, rs, ok)
    | RVoteList l =>
        let h := add_votes l h in
        match l with
        | [] => (h, rs, false)
        | _ => (h, bump_by_list l h rs, ok)
        end
    | _ => acc
    end.

  (* applyLockWAL: acc = (hvs, (round, step), bpset under construction, last complete) *)
  Definition apply_lock_rec (acc : hvs_t * (Z * step) * option (N * Z * list N) * option (N * Z))
                            (rec : wrec) : hvs_t * (Z * step) * option (N * Z * list N) * option (N * Z) :=
    let '(h, rs, bp, last) := acc in
    match rec with
    | RVoteList l =>
        match l with
        | [] => acc
        | v0 :: _ =>
            let h := add_votes l h in
            let bp := match vs_over23 (hvs_for n h (v_round v0) Prevote) with
                      | Some (Some b) => Some (b, v_round v0, [])
                      | _ => bp
                      end in
            (h, bump_by_list l h rs, bp, last)
        end
    | RPart b idx =>
        match bp with
        | None => acc
        | Some (pb, plr, have) =>
            if negb (N.eqb pb b) || negb (N.ltb idx (nparts pb)) || existsb (N.eqb idx) have then acc
            else
              let have := have ++ [idx] in
              let last := if N.eqb (N.of_nat (length have)) (nparts pb) then Some (pb, plr) else last in
              (h, rs, Some (pb, plr, have), last)
        end
    | _ => acc
    end.

  Definition apply_commit_rec (acc : hvs_t * (Z * step)) (rec : wrec) : hvs_t * (Z * step) :=
    let '(h, rs) := acc in
    match rec with
    | RVoteList l =>
        match l with
        | [] => acc
        | _ => let h := add_votes l h in (h, bump_by_list l h rs)
        end
    | _ => acc
    end.

  Definition restart (s : st) : st :=
    let wr := wal_recover (wal_r s) in
    let wl := wal_recover (wal_l s) in
    let wc := wal_recover (wal_c s) in
    let '(h, rs, ok) := fold_left apply_round_rec (w_synced wr) ([], (0, SNewHeight), true) in
    let '(h, rs, _, last) := fold_left apply_lock_rec (w_synced wl) (h, rs, None, None) in
    let '(h, rs) := fold_left apply_commit_rec (w_synced wc) (h, rs) in
    let lk := match last with
              | Some (b, lr) => Some (mkBps b (all_parts b) true false, lr)
              | None => None
              end in
    let s0 := mkSt Running (fst rs) (snd rs)
                   (match lk with Some (_, lr) => lr | None => (-1) end)
                   (option_map fst lk) (-1) (option_map fst lk) h (-1) [] false None None None
                   wr wl wc (sent s) (nsent s) (outs s) (fuse s) (decided s) (glog s) in
    if negb ok then panic s0 else
    match last with
    | Some (b, _) => if negb (decodable b) then panic s0 else
        (* Start dispatch *)
        match snd rs with
        | SNewHeight => if Z.eqb (fst rs) 0 then run fuel AEnterPropose (new_step STxWait s0)
                        else run fuel AEnterPropose s0
        | SPropose => run fuel AEnterPrevote s0
        | SPrevote => if vs_has23 (votes_for s0 (round s0) Prevote) then run fuel AEnterPrevoteWait s0 else s0
        | SPrecommit => if vs_has23 (votes_for s0 (round s0) Precommit) then run fuel AEnterPrecommitWait s0 else s0
        | _ => s0
        end
    | None =>
        match snd rs with
        | SNewHeight => if Z.eqb (fst rs) 0 then run fuel AEnterPropose (new_step STxWait s0)
                        else run fuel AEnterPropose s0
        | SPropose => run fuel AEnterPrevote s0
        | SPrevote => if vs_has23 (votes_for s0 (round s0) Prevote) then run fuel AEnterPrevoteWait s0 else s0
        | SPrecommit => if vs_has23 (votes_for s0 (round s0) Precommit) then run fuel AEnterPrecommitWait s0 else s0
        | _ => s0
        end
    end.

  Definition crash (kr kl kc : nat) (s : st) : st :=
    set_status Down (set_wals (wal_crash (wal_r s) kr) (wal_crash (wal_l s) kl) (wal_crash (wal_c s) kc) s).

  (* one event; [fz] is the crash point inside it (None: the event completes) *)
  Definition step_ev (e : event) (fz : option nat) (s : st) : st :=
    let s := set_outs [] fz s in
    let s' :=
      match e with
      | ECrash kr kl kc => match status_ s with Decided => s | _ => crash kr kl kc s end
      | ERestart => match status_ s with Down => restart s | _ => s end
      | _ =>
          match status_ s with
          | Running =>
              match e with
              | EProposal curh r from pol b => recv_proposal curh r from pol b s
              | EPart curh b idx => recv_part curh b idx s
              | EVote curh v => recv_vote curh v s
              | EVoteList l => fold_left (fun s cv => recv_vote (fst cv) (snd cv) s) l s
              | ETimeout => timeout s
              | EProposeCb rr ok b => propose_cb rr ok b s
              | EImportCb rr ok => import_cb rr ok s
              | ECommitCb rr ok => commit_cb rr ok s
              | _ => s
              end
          | _ => s
          end
      end in
    (* the process died inside the event *)
    if blown s' then set_status (match status_ s' with Decided => Decided | _ => Down end) s' else s'.

End Engine.
