(* Proofs_Hexary.v — lemmas about Model_Hexary (icon/merkle/hexary).

   Specification: the layered 16-ary Merkle tree of a sequence of hashes
   ([layer1] hashes every chunk of 16, the last chunk may be shorter; a lone
   hash is its own root).  The accumulator's roots are the trailing incomplete
   chunks of the layers of complete blocks ([spec_roots]); its header is the
   layered root ([spec_root]); Prove walks the chunks on the key's path;
   SetLen rebuilds exactly [spec_roots] of the prefix from such a path.
   Nothing assumes that the hash is injective: statements that depend on what
   the bucket returns end in "... \/ collision". *)
From Coq Require Import ZifyBool ZifyN ZifyNat.
From Goloop Require Import lib.Bytes lib.BytesMap Model_Hexary.
Ltac Zify.zify_post_hook ::= Z.div_mod_to_equations.
Open Scope nat_scope.

Definition h32 (x : bytes) : Prop := length x = 32.
Definition hash32 (H : bytes -> bytes) : Prop := forall x, length (H x) = 32.

(* ------------------------------------------------------------------ *)
(* bytes <-> list of hashes                                             *)

Lemma concat_length32 (b : list bytes) : Forall h32 b -> length (concat b) = 32 * length b.
Proof.
  induction 1 as [|x b Hx Hb IH]; cbn [concat length]; [reflexivity|].
  rewrite app_length, IH. unfold h32 in Hx. lia.
Qed.

Lemma firstn_app_len {A} (a r : list A) n : length a = n -> firstn n (a ++ r) = a.
Proof.
  intro E. rewrite firstn_app, E, Nat.sub_diag. cbn [firstn]. rewrite app_nil_r.
  apply firstn_all2. lia.
Qed.

Lemma skipn_app_len {A} (a r : list A) n : length a = n -> skipn n (a ++ r) = r.
Proof.
  intro E. rewrite skipn_app, E, Nat.sub_diag. cbn [skipn]. rewrite skipn_all2 by lia. reflexivity.
Qed.

Lemma split32_concat : forall (b : list bytes) fuel, Forall h32 b -> length b <= fuel ->
  split32 fuel (concat b) = Some b.
Proof.
  induction b as [|x b IH]; intros fuel Hb Hf.
  - destruct fuel; reflexivity.
  - inversion Hb as [|? ? Hx Hb']; subst. unfold h32 in Hx.
    destruct fuel as [|f]; [cbn in Hf; lia|]. cbn [concat].
    destruct x as [|x0 xr]; [discriminate|]. cbn [app split32].
    change (x0 :: xr ++ concat b) with ((x0 :: xr) ++ concat b).
    rewrite app_length, Hx. unfold hash_len.
    destruct (Nat.ltb_spec (32 + length (concat b)) 32); [lia|].
    rewrite (skipn_app_len _ _ 32 Hx).
    rewrite (IH f Hb') by (cbn in Hf; lia).
    rewrite (firstn_app_len _ _ 32 Hx). reflexivity.
Qed.

Lemma split32_sound : forall fuel bs b, split32 fuel bs = Some b -> concat b = bs /\ Forall h32 b.
Proof.
  induction fuel as [|f IH]; intros bs b E.
  - destruct bs; cbn in E; [|discriminate]. inversion E; subst. split; [reflexivity|constructor].
  - destruct bs as [|x0 xr]; cbn [split32] in E.
    + inversion E; subst. split; [reflexivity|constructor].
    + set (zs := x0 :: xr) in *.
      destruct (Nat.ltb_spec (length zs) hash_len) as [|Hge]; [discriminate|].
      destruct (split32 f (skipn hash_len zs)) as [r|] eqn:Er; [|discriminate].
      assert (Eb : b = firstn hash_len zs :: r) by congruence. subst b. clear E.
      destruct (IH _ _ Er) as [Hc Hf]. split.
      * cbn [concat]. rewrite Hc. apply firstn_skipn.
      * constructor; auto. unfold h32. rewrite firstn_length. unfold hash_len in *. lia.
Qed.

Lemma node_of_bytes_concat (b : node) : Forall h32 b -> length b <= 16 ->
  node_of_bytes (concat b) = HOk b.
Proof.
  intros Hb Hl. unfold node_of_bytes. rewrite concat_length32 by assumption.
  unfold hash_len, max_children.
  destruct (Nat.ltb_spec (32 * 16) (32 * length b)); [lia|].
  rewrite split32_concat; auto.
Qed.

Lemma node_of_bytes_sound bs b : node_of_bytes bs = HOk b -> concat b = bs /\ Forall h32 b.
Proof.
  unfold node_of_bytes. destruct (Nat.ltb _ _); [discriminate|].
  destruct (split32 _ bs) as [r|] eqn:E; [|discriminate]. intro X; inversion X; subst.
  eapply split32_sound; eauto.
Qed.

(* ------------------------------------------------------------------ *)
(* chunks                                                               *)

Definition chunk_at (ys : list bytes) (q : nat) : list bytes := firstn 16 (skipn (16 * q) ys).
Definition nchunks (n : nat) : nat := (n + 15) / 16.
Definition rem16 (ys : list bytes) : list bytes := skipn (16 * (length ys / 16)) ys.

Arguments chunk_at : simpl never.
Arguments nchunks : simpl never.
Arguments rem16 : simpl never.

Lemma chunk_at_length ys q : length (chunk_at ys q) = Nat.min 16 (length ys - 16 * q).
Proof. unfold chunk_at. now rewrite firstn_length, skipn_length. Qed.

Lemma Forall_firstn' {A} (P : A -> Prop) : forall n l, Forall P l -> Forall P (firstn n l).
Proof. induction n; intros [|x l] F; cbn; try constructor; inversion F; subst; auto. Qed.

Lemma Forall_skipn' {A} (P : A -> Prop) : forall n l, Forall P l -> Forall P (skipn n l).
Proof. induction n; intros [|x l] F; cbn; auto. inversion F; subst; auto. Qed.

Lemma nth_error_skipn' {A} : forall n (l : list A) t, nth_error (skipn n l) t = nth_error l (n + t).
Proof. induction n; intros [|x l] t; cbn; auto. destruct t; reflexivity. Qed.

Lemma nth_error_firstn_lt {A} : forall n (l : list A) t, t < n -> nth_error (firstn n l) t = nth_error l t.
Proof.
  induction n; intros [|x l] t Ht; cbn; try lia; auto. destruct t; cbn; auto. apply IHn. lia.
Qed.

Lemma skipn_skipn' {A} : forall a b (l : list A), skipn a (skipn b l) = skipn (a + b) l.
Proof.
  intros a b. revert a. induction b; intros a l.
  - now rewrite Nat.add_0_r.
  - destruct l; [now rewrite !skipn_nil|]. rewrite Nat.add_succ_r. cbn. apply IHb.
Qed.

Lemma chunk_at_h32 ys q : Forall h32 ys -> Forall h32 (chunk_at ys q).
Proof. intro F. unfold chunk_at. now apply Forall_firstn', Forall_skipn'. Qed.

Lemma chunk_at_le16 ys q : length (chunk_at ys q) <= 16.
Proof. rewrite chunk_at_length. lia. Qed.

Lemma chunk_at_app ys zs q : 16 * q + 16 <= length ys -> chunk_at (ys ++ zs) q = chunk_at ys q.
Proof.
  intro Hq. unfold chunk_at. rewrite skipn_app, firstn_app, skipn_length.
  replace (16 - (length ys - 16 * q)) with 0 by lia. cbn [firstn]. now rewrite app_nil_r.
Qed.

Lemma rem16_length ys : length (rem16 ys) = length ys mod 16.
Proof. unfold rem16. rewrite skipn_length. lia. Qed.

Lemma chunk_at_last ys zs : length ys mod 16 + length zs <= 16 ->
  chunk_at (ys ++ zs) (length ys / 16) = rem16 ys ++ zs.
Proof.
  intro Hl. unfold chunk_at, rem16. rewrite skipn_app.
  replace (16 * (length ys / 16) - length ys) with 0 by lia. cbn [skipn].
  apply firstn_all2. rewrite app_length, skipn_length. lia.
Qed.

Lemma chunk_at_firstn ly a q : 16 * q + 16 <= a -> chunk_at (firstn a ly) q = chunk_at ly q.
Proof.
  intro Hq. unfold chunk_at. rewrite skipn_firstn_comm, firstn_firstn. f_equal. lia.
Qed.

Lemma nth_error_chunk_at ys q t : t < 16 -> nth_error (chunk_at ys q) t = nth_error ys (16 * q + t).
Proof. intro Ht. unfold chunk_at. now rewrite nth_error_firstn_lt, nth_error_skipn'. Qed.

Lemma nth_error_seq0 n q : q < n -> nth_error (seq 0 n) q = Some q.
Proof.
  intro Hq. rewrite (nth_error_nth' _ 0) by (now rewrite seq_length). now rewrite seq_nth.
Qed.

Lemma firstn_seq0 j N : j <= N -> firstn j (seq 0 N) = seq 0 j.
Proof.
  intro Hj. replace N with (j + (N - j)) by lia. rewrite seq_app, firstn_app, seq_length.
  rewrite Nat.sub_diag. cbn [firstn]. rewrite app_nil_r. apply firstn_all2. rewrite seq_length. lia.
Qed.

(* ------------------------------------------------------------------ *)
Section Proofs.
Variable H : bytes -> bytes.
Hypothesis H_len : hash32 H.

Definition collision : Prop := exists a b : bytes, a <> b /\ H a = H b.

Definition hc (c : list bytes) : bytes := H (concat c).

(* the next layer: hash of every chunk, the last one possibly short *)
Definition layer1 (ys : list bytes) : list bytes :=
  map (fun q => hc (chunk_at ys q)) (seq 0 (nchunks (length ys))).
(* ... of complete chunks only *)
Definition cl1 (ys : list bytes) : list bytes :=
  map (fun q => hc (chunk_at ys q)) (seq 0 (length ys / 16)).

Lemma layer1_length ys : length (layer1 ys) = nchunks (length ys).
Proof. unfold layer1. now rewrite map_length, seq_length. Qed.
Lemma cl1_length ys : length (cl1 ys) = length ys / 16.
Proof. unfold cl1. now rewrite map_length, seq_length. Qed.

Lemma layer1_h32 ys : Forall h32 (layer1 ys).
Proof. unfold layer1. apply Forall_forall. intros x Hx. apply in_map_iff in Hx. destruct Hx as (q & <- & _). apply H_len. Qed.
Lemma cl1_h32 ys : Forall h32 (cl1 ys).
Proof. unfold cl1. apply Forall_forall. intros x Hx. apply in_map_iff in Hx. destruct Hx as (q & <- & _). apply H_len. Qed.

Lemma nth_error_layer1 ys q : q < nchunks (length ys) ->
  nth_error (layer1 ys) q = Some (hc (chunk_at ys q)).
Proof. intro Hq. unfold layer1. erewrite map_nth_error; eauto using nth_error_seq0. Qed.

(* accumulator roots of a sequence: the trailing incomplete chunk of every
   layer of complete blocks *)
Fixpoint spec_roots_f (fuel : nat) (ys : list bytes) : list node :=
  match fuel with
  | O => []
  | S f => match ys with [] => [] | _ => rem16 ys :: spec_roots_f f (cl1 ys) end
  end.
Definition spec_roots (ys : list bytes) : list node := spec_roots_f (length ys) ys.

Lemma spec_roots_f_fuel : forall f ys, length ys <= f -> spec_roots_f f ys = spec_roots_f (length ys) ys.
Proof.
  induction f as [f IH] using lt_wf_ind. intros ys Hl.
  destruct ys as [|y ys']; [destruct f; reflexivity|].
  destruct f as [|f]; [cbn in Hl; lia|].
  set (zs := y :: ys') in *. assert (Lz : length zs = S (length ys')) by reflexivity.
  rewrite Lz. cbn [spec_roots_f]. f_equal.
  assert (Lc : length (cl1 zs) <= length ys') by (rewrite cl1_length; lia).
  rewrite (IH f) by lia. rewrite (IH (length ys')) by lia. reflexivity.
Qed.

Lemma spec_roots_nil : spec_roots [] = [].
Proof. reflexivity. Qed.

Lemma spec_roots_cons ys : ys <> [] -> spec_roots ys = rem16 ys :: spec_roots (cl1 ys).
Proof.
  intro Hn. destruct ys as [|y ys']; [congruence|].
  unfold spec_roots at 1. cbn [length spec_roots_f]. f_equal.
  unfold spec_roots. apply spec_roots_f_fuel. rewrite cl1_length. cbn [length]. lia.
Qed.

(* complete chunks of an extended sequence *)
Lemma cl1_snoc_same ys x : (length ys + 1) mod 16 <> 0 -> cl1 (ys ++ [x]) = cl1 ys.
Proof.
  intro Hm. unfold cl1. rewrite app_length. cbn [length].
  replace ((length ys + 1) / 16) with (length ys / 16) by lia.
  apply map_ext_in. intros q Hq. apply in_seq in Hq. f_equal. apply chunk_at_app. lia.
Qed.

Lemma cl1_snoc_carry ys x : (length ys + 1) mod 16 = 0 ->
  cl1 (ys ++ [x]) = cl1 ys ++ [hc (rem16 ys ++ [x])].
Proof.
  intro Hm. unfold cl1. rewrite app_length. cbn [length].
  replace ((length ys + 1) / 16) with (S (length ys / 16)) by lia.
  rewrite seq_S, map_app. cbn [map Nat.add]. f_equal.
  - apply map_ext_in. intros q Hq. apply in_seq in Hq. f_equal. apply chunk_at_app. lia.
  - f_equal. f_equal. apply chunk_at_last. cbn [length]. lia.
Qed.

Lemma rem16_snoc_same ys x : (length ys + 1) mod 16 <> 0 -> rem16 (ys ++ [x]) = rem16 ys ++ [x].
Proof.
  intro Hm. unfold rem16. rewrite app_length. cbn [length].
  replace ((length ys + 1) / 16) with (length ys / 16) by lia.
  rewrite skipn_app. replace (16 * (length ys / 16) - length ys) with 0 by lia. reflexivity.
Qed.

Lemma rem16_snoc_carry ys x : (length ys + 1) mod 16 = 0 -> rem16 (ys ++ [x]) = [].
Proof.
  intro Hm. unfold rem16. apply skipn_all2. rewrite app_length. cbn [length]. lia.
Qed.

Lemma rem16_h32 ys : Forall h32 ys -> Forall h32 (rem16 ys).
Proof. intro F. unfold rem16. now apply Forall_skipn'. Qed.

(* ------------------------------------------------------------------ *)
(* the bucket                                                           *)

Definition sound (m : bmap bytes) : Prop := forall k v, bm_get k m = Some v -> H v = k.
Definition ext (m m' : bmap bytes) : Prop := forall k v, bm_get k m = Some v -> bm_get k m' = Some v.

Lemma ext_refl m : ext m m. Proof. intros k v; auto. Qed.
Lemma ext_trans a b c : ext a b -> ext b c -> ext a c. Proof. intros X Y k v Hk; auto. Qed.
Lemma sound_empty : sound bm_empty.
Proof. intros k v. rewrite bm_get_empty. discriminate. Qed.

Lemma set_sound m v : sound m -> sound (bm_set (H v) v m).
Proof.
  intros Hs k v'. destruct (bytes_eqb (H v) k) eqn:E.
  - apply bytes_eqb_eq in E. subst k. rewrite bm_gss. congruence.
  - assert (H v <> k) by (intro X; rewrite X, bytes_eqb_refl in E; discriminate).
    rewrite bm_gso by assumption. apply Hs.
Qed.

Lemma set_ext m v : sound m -> ext m (bm_set (H v) v m) \/ collision.
Proof.
  intro Hs. destruct (bm_get (H v) m) as [v0|] eqn:G.
  - destruct (bytes_eqb v0 v) eqn:E.
    + apply bytes_eqb_eq in E. subst v0. left. intros k v' Hk.
      destruct (bytes_eqb (H v) k) eqn:E2.
      * apply bytes_eqb_eq in E2. subst k. rewrite bm_gss. congruence.
      * rewrite bm_gso; auto. intro X. rewrite X, bytes_eqb_refl in E2. discriminate.
    + right. exists v0, v. split.
      * intro X. subst. rewrite bytes_eqb_refl in E. discriminate.
      * now apply Hs.
  - left. intros k v' Hk.
    destruct (bytes_eqb (H v) k) eqn:E2.
    + apply bytes_eqb_eq in E2. subst k. congruence.
    + rewrite bm_gso; auto. intro X. rewrite X, bytes_eqb_refl in E2. discriminate.
Qed.

(* chunk q of ys is in the bucket under its hash *)
Definition chunk_stored (m : bmap bytes) (ys : list bytes) (q : nat) : Prop :=
  bm_get (hc (chunk_at ys q)) m = Some (concat (chunk_at ys q)).

(* all complete blocks of all levels are in the bucket (stored when they carry) *)
Fixpoint blocks_stored_f (fuel : nat) (m : bmap bytes) (ys : list bytes) : Prop :=
  match fuel with
  | O => True
  | S f => (forall q, q < length ys / 16 -> chunk_stored m ys q) /\ blocks_stored_f f m (cl1 ys)
  end.
Definition blocks_stored m ys := blocks_stored_f (S (length ys)) m ys.

Lemma blocks_stored_f_ext f : forall m m' ys, ext m m' -> blocks_stored_f f m ys -> blocks_stored_f f m' ys.
Proof.
  induction f; intros m m' ys He; cbn [blocks_stored_f]; auto. intros [A B]. split; eauto.
  intros q Hq. apply He. apply A. exact Hq.
Qed.

Lemma blocks_stored_f_fuel : forall f m ys, length ys < f -> (blocks_stored_f f m ys <-> blocks_stored m ys).
Proof.
  induction f as [f IH] using lt_wf_ind. intros m ys Hl. unfold blocks_stored.
  destruct f as [|f]; [lia|]. cbn [blocks_stored_f].
  destruct (Nat.eq_dec (length ys) 0) as [E0|E0].
  - (* nothing to store at any level *)
    assert (Z : forall g zs, length zs = 0 -> blocks_stored_f g m zs).
    { induction g; intros zs Hz; cbn [blocks_stored_f]; auto. split; [intros q Hq; rewrite Hz in Hq; cbn in Hq; lia|].
      apply IHg. rewrite cl1_length, Hz. reflexivity. }
    assert (Lc : length (cl1 ys) = 0) by (rewrite cl1_length, E0; reflexivity).
    split; intros [A _]; (split; [exact A|apply Z; exact Lc]).
  - assert (Lc : length (cl1 ys) < length ys) by (rewrite cl1_length; lia).
    split; intros [A B]; (split; [exact A|]).
    + apply (IH f) in B; [|lia|lia]. apply (IH (length ys)); [lia|lia|exact B].
    + apply (IH (length ys)) in B; [|lia|lia]. apply (IH f); [lia|lia|exact B].
Qed.

Lemma blocks_stored_unfold m ys :
  blocks_stored m ys <-> (forall q, q < length ys / 16 -> chunk_stored m ys q) /\ blocks_stored m (cl1 ys).
Proof.
  unfold blocks_stored at 1. cbn [blocks_stored_f].
  destruct (Nat.eq_dec (length ys) 0) as [E0|E0].
  - assert (Lc : length (cl1 ys) = 0) by (rewrite cl1_length, E0; reflexivity).
    rewrite E0. cbn [blocks_stored_f]. split.
    + intros [A _]. split; [exact A|]. unfold blocks_stored. rewrite Lc. cbn [blocks_stored_f].
      split; [|exact I]. intros q Hq. rewrite Lc in Hq. cbn in Hq. lia.
    + intros [A _]. split; [exact A|exact I].
  - rewrite (blocks_stored_f_fuel (length ys) m (cl1 ys)) by (rewrite cl1_length; lia). tauto.
Qed.

Lemma blocks_stored_ext m m' ys : ext m m' -> blocks_stored m ys -> blocks_stored m' ys.
Proof. apply blocks_stored_f_ext. Qed.

Lemma blocks_stored_short m ys : length ys < 16 -> blocks_stored m ys.
Proof.
  unfold blocks_stored. generalize (S (length ys)) as g. intros g. revert ys.
  induction g; intros ys Hl; cbn [blocks_stored_f]; auto. split.
  - intros q Hq. replace (length ys / 16) with 0 in Hq by lia. lia.
  - apply IHg. rewrite cl1_length. lia.
Qed.

(* ------------------------------------------------------------------ *)
(* Add                                                                  *)

Lemma node_add_ok (b : node) h : h32 h -> length b < 16 -> node_add b h = HOk (b ++ [h]).
Proof.
  intros Hh Hb. unfold node_add, node_full, hash_len, max_children. rewrite Hh. cbn [Nat.eqb negb].
  destruct (Nat.eqb_spec (length b) 16); [lia|reflexivity].
Qed.

Lemma add_at_ok : forall n ys x m, length ys = n -> Forall h32 ys -> h32 x -> sound m -> blocks_stored m ys ->
  (exists m', add_at H (spec_roots ys) x m = HOk (spec_roots (ys ++ [x]), m') /\
              sound m' /\ ext m m' /\ blocks_stored m' (ys ++ [x]))
  \/ collision.
Proof.
  induction n as [n IH] using lt_wf_ind. intros ys x m Hn Fy Hx Hs Hb.
  destruct ys as [|y ys'].
  - left. exists m. cbn [app]. rewrite spec_roots_nil. cbn [add_at].
    rewrite (node_add_ok [] x Hx) by (cbn; lia). split; [|split; [auto|split; [apply ext_refl|]]].
    + reflexivity.
    + apply blocks_stored_short. cbn. lia.
  - set (zs := y :: ys') in *. assert (Nz : zs <> []) by discriminate.
    rewrite (spec_roots_cons zs Nz). cbn [add_at].
    rewrite (node_add_ok (rem16 zs) x Hx) by (rewrite rem16_length; lia).
    unfold node_full, max_children. rewrite app_length, rem16_length. cbn [length].
    assert (Nz' : zs ++ [x] <> []) by (destruct zs; discriminate).
    apply blocks_stored_unfold in Hb. destruct Hb as [Hb0 Hb1].
    destruct (Nat.eqb_spec (length zs mod 16 + 1) 16) as [E16|E16].
    + (* the node is full: store it, carry its hash *)
      assert (Hm : (length zs + 1) mod 16 = 0) by lia.
      assert (Nr : rem16 zs ++ [x] <> []) by (destruct (rem16 zs); discriminate).
      unfold node_hash. destruct (rem16 zs ++ [x]) as [|r0 rr] eqn:Er; [congruence|]. rewrite <- Er.
      fold (hc (rem16 zs ++ [x])). unfold node_bytes.
      set (v := concat (rem16 zs ++ [x])). change (hc (rem16 zs ++ [x])) with (H v).
      destruct (set_ext m v Hs) as [X1|C]; [|right; exact C].
      destruct (IH (length (cl1 zs)) ltac:(rewrite cl1_length; subst n; lia) (cl1 zs) (H v) (bm_set (H v) v m)
                  eq_refl (cl1_h32 zs) (H_len v) (set_sound m v Hs) (blocks_stored_ext _ _ _ X1 Hb1))
        as [(m' & E & S' & X' & B')|C]; [left|right; exact C].
      exists m'. rewrite (spec_roots_cons _ Nz'), rem16_snoc_carry, cl1_snoc_carry by assumption.
      fold v. change (hc (rem16 zs ++ [x])) with (H v).
      match goal with |- context [add_at ?a ?b ?c ?d] =>
        replace (add_at a b c d) with (@HOk (list node * bmap bytes) (spec_roots (cl1 zs ++ [H v]), m'))
          by (symmetry; exact E) end.
      split; [reflexivity|]. split; [auto|]. split; [eauto using ext_trans|].
      apply blocks_stored_unfold. rewrite cl1_snoc_carry by assumption. split; [|exact B'].
      intros q Hq. rewrite app_length in Hq. cbn [length] in Hq.
      unfold chunk_stored. destruct (Nat.eq_dec q (length zs / 16)) as [->|Nq].
      * rewrite chunk_at_last by (cbn [length]; lia). apply X'. fold v. apply bm_gss.
      * rewrite chunk_at_app by lia. apply X', X1. apply Hb0. lia.
    + left. exists m. rewrite (spec_roots_cons _ Nz'), rem16_snoc_same, cl1_snoc_same by lia.
      split; [reflexivity|]. split; [auto|]. split; [apply ext_refl|].
      apply blocks_stored_unfold. rewrite cl1_snoc_same by lia. split; [|exact Hb1].
      intros q Hq. rewrite app_length in Hq. cbn [length] in Hq.
      unfold chunk_stored. rewrite chunk_at_app by lia. apply Hb0. lia.
Qed.

(* the roots alone: no assumption on the bucket, no collision case *)
Lemma add_at_roots : forall n ys x m, length ys = n -> h32 x ->
  exists m', add_at H (spec_roots ys) x m = HOk (spec_roots (ys ++ [x]), m').
Proof.
  induction n as [n IH] using lt_wf_ind. intros ys x m Hn Hx.
  destruct ys as [|y ys'].
  - exists m. cbn [app]. rewrite spec_roots_nil. cbn [add_at].
    rewrite (node_add_ok [] x Hx) by (cbn; lia). reflexivity.
  - set (zs := y :: ys') in *. assert (Nz : zs <> []) by discriminate.
    rewrite (spec_roots_cons zs Nz). cbn [add_at].
    rewrite (node_add_ok (rem16 zs) x Hx) by (rewrite rem16_length; lia).
    unfold node_full, max_children. rewrite app_length, rem16_length. cbn [length].
    assert (Nz' : zs ++ [x] <> []) by (destruct zs; discriminate).
    destruct (Nat.eqb_spec (length zs mod 16 + 1) 16) as [E16|E16].
    + assert (Hm : (length zs + 1) mod 16 = 0) by lia.
      unfold node_hash. destruct (rem16 zs ++ [x]) as [|r0 rr] eqn:Er; [destruct (rem16 zs); discriminate|].
      rewrite <- Er. fold (hc (rem16 zs ++ [x])). unfold node_bytes.
      set (v := concat (rem16 zs ++ [x])). change (hc (rem16 zs ++ [x])) with (H v).
      destruct (IH (length (cl1 zs)) ltac:(rewrite cl1_length; subst n; lia) (cl1 zs) (H v) (bm_set (H v) v m)
                  eq_refl (H_len v)) as (m' & E).
      exists m'. rewrite (spec_roots_cons _ Nz'), rem16_snoc_carry, cl1_snoc_carry by assumption.
      fold v. change (hc (rem16 zs ++ [x])) with (H v).
      match goal with |- context [add_at ?a ?b ?c ?d] =>
        replace (add_at a b c d) with (@HOk (list node * bmap bytes) (spec_roots (cl1 zs ++ [H v]), m'))
          by (symmetry; exact E) end.
      reflexivity.
    + exists m. rewrite (spec_roots_cons _ Nz'), rem16_snoc_same, cl1_snoc_same by lia. reflexivity.
Qed.

(* ------------------------------------------------------------------ *)
(* layers, the root, the stored tree                                    *)

Fixpoint layer_at (ys : list bytes) (n : nat) : list bytes :=
  match n with O => ys | S n' => layer_at (layer1 ys) n' end.

Fixpoint top_f (fuel : nat) (ys : list bytes) : option bytes :=
  match fuel with
  | O => None
  | S f => match ys with [] => None | [y] => Some y | _ => top_f f (layer1 ys) end
  end.
Definition spec_root (ys : list bytes) : option bytes := top_f (S (length ys)) ys.
Definition spec_header (xs : list bytes) : header := mkHeader (spec_root xs) (N.of_nat (length xs)).

Lemma nchunks_lt n : 2 <= n -> nchunks n < n.
Proof. unfold nchunks. lia. Qed.

Lemma top_f_fuel : forall f ys, length ys < f -> top_f f ys = spec_root ys.
Proof.
  induction f as [f IH] using lt_wf_ind. intros ys Hl. unfold spec_root.
  destruct f as [|f]; [lia|]. cbn [top_f].
  destruct ys as [|y [|y2 ys']]; try reflexivity.
  set (zs := y :: y2 :: ys') in *.
  assert (L2 : 2 <= length zs) by (subst zs; cbn [length]; lia).
  pose proof (nchunks_lt _ L2) as Hc. rewrite <- layer1_length in Hc.
  rewrite (IH f) by lia. rewrite (IH (length zs)) by lia. reflexivity.
Qed.

Lemma spec_root_nil : spec_root [] = None. Proof. reflexivity. Qed.
Lemma spec_root_one y : spec_root [y] = Some y. Proof. reflexivity. Qed.
Lemma spec_root_step ys : 2 <= length ys -> spec_root ys = spec_root (layer1 ys).
Proof.
  intro L2. unfold spec_root at 1. cbn [top_f].
  destruct ys as [|y [|y2 ys']]; cbn [length] in L2; try lia.
  apply top_f_fuel. rewrite layer1_length. apply nchunks_lt. cbn [length]. lia.
Qed.

Definition tree_stored (m : bmap bytes) (ys : list bytes) : Prop :=
  forall n q, 2 <= length (layer_at ys n) -> q < nchunks (length (layer_at ys n)) ->
              chunk_stored m (layer_at ys n) q.

Lemma tree_stored_unfold m ys :
  tree_stored m ys <->
  ((2 <= length ys -> forall q, q < nchunks (length ys) -> chunk_stored m ys q) /\ tree_stored m (layer1 ys)).
Proof.
  unfold tree_stored. split.
  - intro T. split; [intros L q Hq; exact (T 0 q L Hq)|intros n q; exact (T (S n) q)].
  - intros [A B] [|n] q; cbn [layer_at]; [auto|apply B].
Qed.

Lemma layer_at_small ys : length ys <= 1 -> forall n, length (layer_at ys n) <= 1.
Proof.
  intros Hl n. revert ys Hl. induction n; intros ys Hl; cbn [layer_at]; auto.
  apply IHn. rewrite layer1_length. unfold nchunks. lia.
Qed.

Lemma tree_stored_small m ys : length ys <= 1 -> tree_stored m ys.
Proof. intros Hl n q L. pose proof (layer_at_small ys Hl n). lia. Qed.

Lemma tree_stored_ext m m' ys : ext m m' -> tree_stored m ys -> tree_stored m' ys.
Proof. intros He T n q L Hq. apply He. apply T; auto. Qed.

Lemma layer1_single ws : 1 <= length ws <= 16 -> layer1 ws = [hc ws].
Proof.
  intro Hl. unfold layer1. replace (nchunks (length ws)) with 1 by (unfold nchunks; lia).
  cbn [seq map]. f_equal. f_equal. unfold chunk_at. cbn [Nat.mul skipn]. apply firstn_all2. lia.
Qed.

Lemma layer1_full zs : length zs mod 16 = 0 -> layer1 zs = cl1 zs.
Proof.
  intro Hm. unfold layer1, cl1. replace (nchunks (length zs)) with (length zs / 16) by (unfold nchunks; lia).
  reflexivity.
Qed.

Lemma layer1_partial zs o : 1 <= length zs mod 16 + length o <= 16 ->
  layer1 (zs ++ o) = cl1 zs ++ [hc (rem16 zs ++ o)].
Proof.
  intro Hl. unfold layer1, cl1. rewrite app_length.
  replace (nchunks (length zs + length o)) with (S (length zs / 16)) by (unfold nchunks; lia).
  rewrite seq_S, map_app. cbn [map Nat.add]. f_equal.
  - apply map_ext_in. intros q Hq. apply in_seq in Hq. f_equal. apply chunk_at_app. lia.
  - f_equal. f_equal. apply chunk_at_last. lia.
Qed.

Definition olist (c : option bytes) : list bytes := match c with Some x => [x] | None => [] end.

Lemma spec_roots_cl1_nil zs : length zs < 16 -> spec_roots (cl1 zs) = [].
Proof.
  intro Hl. assert (E : cl1 zs = []).
  { apply length_zero_iff_nil. rewrite cl1_length. lia. }
  now rewrite E.
Qed.

Lemma rem16_short zs : length zs < 16 -> rem16 zs = zs.
Proof. intro Hl. unfold rem16. replace (length zs / 16) with 0 by lia. reflexivity. Qed.

(* GetMerkleHeader / Finalize on the roots of ys with a carry-in c:
   the layered root of ys ++ [c]; Finalize leaves the whole tree in the bucket *)
Lemma carry_loop_ok : forall n ys c m store,
  length ys = n -> Forall h32 ys -> Forall h32 (olist c) ->
  exists m', carry_loop H store (spec_roots ys) c m = HOk (spec_root (ys ++ olist c), m') /\
    (store = false -> m' = m) /\
    (store = true -> sound m -> blocks_stored m ys ->
       (sound m' /\ ext m m' /\ tree_stored m' (ys ++ olist c)) \/ collision).
Proof.
  induction n as [n IH] using lt_wf_ind. intros ys c m store Hn Fy Fc.
  destruct ys as [|y ys'].
  - exists m. rewrite spec_roots_nil. cbn [carry_loop app].
    split; [destruct c; reflexivity|]. split; [auto|]. intros _ Hs _. left.
    split; [auto|]. split; [apply ext_refl|]. apply tree_stored_small. destruct c; cbn; lia.
  - set (zs := y :: ys') in *. assert (Nz : zs <> []) by discriminate.
    rewrite (spec_roots_cons zs Nz). cbn [carry_loop].
    remember (rem16 zs ++ olist c) as r' eqn:Dr.
    assert (Er' : carry_in (rem16 zs) c = HOk r').
    { subst r'. unfold carry_in. destruct c as [c0|]; cbn [olist].
      - inversion Fc; subst. apply node_add_ok; auto. rewrite rem16_length. lia.
      - now rewrite app_nil_r. }
    rewrite Er'.
    assert (Lr : length r' = length zs mod 16 + length (olist c))
      by (subst r'; now rewrite app_length, rem16_length).
    assert (Lc : length (olist c) <= 1) by (destruct c; cbn; lia).
    assert (Fr : Forall h32 r') by (subst r'; apply Forall_app; split; auto using rem16_h32).
    destruct (Nat.lt_ge_cases (length zs) 16) as [Hsh|Hlg].
    + (* the last root *)
      rewrite (spec_roots_cl1_nil zs Hsh).
      assert (Ers : r' = zs ++ olist c) by (subst r'; now rewrite rem16_short).
      rewrite <- Ers. unfold node_len.
      destruct (Nat.eqb_spec (length r') 1) as [E1|E1].
      * exists m. destruct r' as [|w [|w2 r2]]; cbn [length] in E1; try lia.
        cbn [node_get nth_error]. rewrite spec_root_one.
        split; [reflexivity|]. split; [auto|]. intros _ Hs _. left.
        split; [auto|]. split; [apply ext_refl|]. apply tree_stored_small. cbn; lia.
      * assert (L2 : 2 <= length r' <= 16).
        { split; [|rewrite Lr; lia]. rewrite Ers, app_length. subst zs. cbn [length]. cbn [length] in E1.
          rewrite Ers, app_length in E1. cbn [length] in E1. lia. }
        assert (Eh : node_hash H r' = Some (hc r')).
        { unfold node_hash. destruct r'; [cbn in L2; lia|reflexivity]. }
        rewrite Eh. rewrite (spec_root_step r') by lia. rewrite (layer1_single r') by lia. rewrite spec_root_one.
        eexists. split; [reflexivity|]. split; [intros ->; reflexivity|].
        intros -> Hs _. unfold node_bytes.
        destruct (set_ext m (concat r') Hs) as [X|C]; [left|right; exact C].
        split; [apply set_sound; auto|]. split; [exact X|].
        apply tree_stored_unfold. split.
        -- intros _ q Hq. replace (nchunks (length r')) with 1 in Hq by (unfold nchunks; lia).
           assert (q = 0) by lia. subst q. unfold chunk_stored.
           replace (chunk_at r' 0) with r' by (unfold chunk_at; cbn [Nat.mul skipn]; symmetry; apply firstn_all2; lia).
           apply bm_gss.
        -- rewrite (layer1_single r') by lia. apply tree_stored_small. cbn; lia.
    + (* a higher root follows *)
      assert (Nc : cl1 zs <> []).
      { intro E. apply (f_equal (@length _)) in E. rewrite cl1_length in E.
        change (@length bytes []) with 0 in E. lia. }
      rewrite (spec_roots_cons _ Nc).
      assert (Lcl : length (cl1 zs) < n) by (rewrite cl1_length; subst n; lia).
      destruct (Nat.eq_dec (length r') 0) as [L0|L0].
      * (* nothing at this level *)
        assert (Hm0 : length zs mod 16 = 0) by lia.
        assert (Ec : c = None) by (destruct c; cbn [olist length] in Lr; [lia|reflexivity]).
        assert (Er0 : r' = []) by (apply length_zero_iff_nil; exact L0).
        subst c. rewrite Er0. cbn [node_hash olist] in *.
        destruct (IH _ Lcl (cl1 zs) None m store eq_refl (cl1_h32 zs) Fc) as (m' & E & P0 & P1).
        rewrite <- (spec_roots_cons _ Nc). exists m'. cbn [olist] in *. rewrite !app_nil_r in *.
        rewrite (spec_root_step zs) by lia. rewrite (layer1_full zs Hm0).
        split; [exact E|]. split; [auto|]. intros St Hs Hb.
        apply blocks_stored_unfold in Hb. destruct Hb as [Hb0 Hb1].
        destruct (P1 St Hs Hb1) as [(S' & X' & T')|C]; [left|right; exact C].
        split; [auto|]. split; [auto|]. apply tree_stored_unfold. split.
        -- intros _ q Hq. replace (nchunks (length zs)) with (length zs / 16) in Hq by (unfold nchunks; lia).
           apply X'. apply Hb0. exact Hq.
        -- rewrite (layer1_full zs Hm0). exact T'.
      * idtac.
        assert (Lr1 : 1 <= length r' <= 16).
        { lia. }
        assert (Eh : node_hash H r' = Some (hc r')).
        { unfold node_hash. destruct r'; [cbn in Lr1; lia|reflexivity]. }
        rewrite Eh. unfold node_bytes.
        set (m1 := if store then bm_set (hc r') (concat r') m else m).
        assert (Fc1 : Forall h32 (olist (Some (hc r')))) by (constructor; [apply H_len|constructor]).
        destruct (IH _ Lcl (cl1 zs) (Some (hc r')) m1 store eq_refl (cl1_h32 zs) Fc1) as (m' & E & P0 & P1).
        rewrite <- (spec_roots_cons _ Nc). exists m'. cbn [olist] in *.
        assert (El : layer1 (zs ++ olist c) = cl1 zs ++ [hc r']).
        { rewrite Dr. apply layer1_partial. lia. }
        rewrite (spec_root_step (zs ++ olist c)) by (rewrite app_length; lia). rewrite El.
        split; [exact E|]. split; [intros ->; subst m1; auto|].
        intros -> Hs Hb. subst m1.
        apply blocks_stored_unfold in Hb. destruct Hb as [Hb0 Hb1].
        destruct (set_ext m (concat r') Hs) as [X1|C]; [|right; exact C].
        fold (hc r') in X1.
        destruct (P1 eq_refl (set_sound m _ Hs) (blocks_stored_ext _ _ _ X1 Hb1)) as [(S' & X' & T')|C];
          [left|right; exact C].
        split; [auto|]. split; [eauto using ext_trans|]. apply tree_stored_unfold. split.
        -- intros _ q Hq. rewrite app_length in Hq.
           replace (nchunks (length zs + length (olist c))) with (S (length zs / 16)) in Hq by (unfold nchunks; lia).
           unfold chunk_stored. destruct (Nat.eq_dec q (length zs / 16)) as [->|Nq].
           ++ rewrite chunk_at_last by lia. rewrite <- Dr. apply X'. apply bm_gss.
           ++ rewrite chunk_at_app by lia. apply X', X1. apply Hb0. lia.
        -- rewrite El. exact T'.
Qed.

(* ------------------------------------------------------------------ *)
(* arithmetic of levels                                                 *)

Lemma pow16_pos n : 0 < 16 ^ n.
Proof. induction n; cbn [Nat.pow]; lia. Qed.

Lemma pow16_S n : 16 ^ S n = 16 * 16 ^ n.
Proof. apply Nat.pow_succ_r'. Qed.

Lemma pow16_mono a b : a <= b -> 16 ^ a <= 16 ^ b.
Proof. intro. apply Nat.pow_le_mono_r; lia. Qed.

Lemma pow16_lt_inv a b : 16 ^ a < 16 ^ b -> a < b.
Proof. intro X. apply (Nat.pow_lt_mono_r_iff 16); lia. Qed.

(* ceil (L / 16^n) *)
Definition clen (n L : nat) : nat := (L + 16 ^ n - 1) / 16 ^ n.

Lemma clen_0 L : clen 0 L = L.
Proof. unfold clen. cbn [Nat.pow]. rewrite Nat.div_1_r. lia. Qed.

Lemma clen_S n L : clen n (nchunks L) = clen (S n) L.
Proof.
  unfold clen, nchunks. pose proof (pow16_pos n) as Hp. rewrite pow16_S.
  set (b := 16 ^ n) in *.
  replace ((L + 15) / 16 + b - 1) with ((L + 15) / 16 + (b - 1)) by lia.
  rewrite <- (Nat.div_add (L + 15) (b - 1) 16) by lia.
  rewrite Nat.div_div by lia. f_equal; lia.
Qed.

Lemma clen_ge2 n L : 2 <= clen n L <-> 16 ^ n < L.
Proof.
  unfold clen. pose proof (pow16_pos n) as Hp. set (b := 16 ^ n) in *. split; intro X.
  - destruct (Nat.lt_ge_cases b L) as [|Hle]; auto.
    assert ((L + b - 1) / b < 2) by (apply Nat.div_lt_upper_bound; lia). lia.
  - apply Nat.div_le_lower_bound; lia.
Qed.

Lemma clen_pos n L : 1 <= L -> 1 <= clen n L.
Proof.
  intro X. unfold clen. pose proof (pow16_pos n). apply Nat.div_le_lower_bound; lia.
Qed.

Lemma div_lt_clen n L k : k < L -> k / 16 ^ n < clen n L.
Proof.
  intro X. unfold clen. pose proof (pow16_pos n) as Hp. set (b := 16 ^ n) in *.
  replace (L + b - 1) with ((L - 1) + 1 * b) by lia. rewrite Nat.div_add by lia.
  assert (k / b <= (L - 1) / b) by (apply Nat.div_le_mono; lia). lia.
Qed.

Lemma div_le_clen n L l : l <= L -> l / 16 ^ n <= clen n L.
Proof.
  intro X. unfold clen. pose proof (pow16_pos n) as Hp. apply Nat.div_le_mono; lia.
Qed.

Lemma layer_at_S : forall n ys, layer_at ys (S n) = layer1 (layer_at ys n).
Proof. induction n; intros ys; [reflexivity|]. cbn [layer_at] in *. apply IHn. Qed.

Lemma layer_at_length : forall n ys, length (layer_at ys n) = clen n (length ys).
Proof.
  induction n; intros ys; cbn [layer_at].
  - now rewrite clen_0.
  - rewrite IHn, layer1_length. apply clen_S.
Qed.

Lemma layer_at_h32 : forall n ys, Forall h32 ys -> Forall h32 (layer_at ys n).
Proof. induction n; intros ys F; cbn [layer_at]; auto. apply IHn. apply layer1_h32. Qed.

(* LevelFromLen *)
Definition lv (L : nat) : nat := level_from_len (N.of_nat L).

Lemma N16_pow v : (16 ^ N.of_nat v)%N = N.of_nat (16 ^ v).
Proof. now rewrite Nat2N.inj_pow. Qed.

Lemma lv_spec L : 1 <= L -> L <= 16 ^ lv L /\ (lv L = 0 \/ 16 ^ (lv L - 1) < L).
Proof.
  intro HL. unfold lv, level_from_len.
  destruct (N.eqb_spec (N.of_nat L) 0) as [E|_]; [lia|].
  set (s := N.size (N.of_nat L - 1)).
  set (v := ((s + 3) / 4)%N).
  assert (Hgt : (N.of_nat L - 1 < 2 ^ s)%N) by apply N.size_gt.
  assert (Hle : (2 ^ s <= N.succ_double (N.of_nat L - 1))%N) by apply N.size_le.
  assert (E16 : forall w : N, (16 ^ w = 2 ^ (4 * w))%N).
  { intro w. change 16%N with (2 ^ 4)%N. now rewrite <- N.pow_mul_r. }
  assert (Ev : (16 ^ v = N.of_nat (16 ^ N.to_nat v))%N).
  { rewrite <- N16_pow, N2Nat.id. reflexivity. }
  split.
  - assert (X : (2 ^ s <= 16 ^ v)%N).
    { rewrite E16. apply N.pow_le_mono_r; [discriminate|]. subst v. lia. }
    rewrite Ev in X. lia.
  - destruct (N.eqb_spec v 0) as [E0|N0]; [left; lia|right].
    assert (Hs : (1 <= s)%N) by (subst v; lia).
    assert (X : (16 ^ (v - 1) <= 2 ^ (s - 1))%N).
    { rewrite E16. apply N.pow_le_mono_r; [discriminate|]. subst v. lia. }
    assert (Y : (2 ^ s = 2 * 2 ^ (s - 1))%N).
    { replace s with (N.succ (s - 1)) at 1 by lia. now rewrite N.pow_succ_r'. }
    assert (Ev1 : (16 ^ (v - 1) = N.of_nat (16 ^ (N.to_nat v - 1)))%N).
    { rewrite <- N16_pow. f_equal. lia. }
    rewrite Ev1 in X. rewrite N.succ_double_spec in Hle. lia.
Qed.

Lemma lv_unique L k : 1 <= L -> L <= 16 ^ k -> (k = 0 \/ 16 ^ (k - 1) < L) -> k = lv L.
Proof.
  intros HL Hk1 Hk2. destruct (lv_spec L HL) as [A B].
  destruct (Nat.lt_trichotomy k (lv L)) as [Hlt|[E|Hgt]]; auto; exfalso.
  - destruct B as [B|B]; [lia|].
    assert (16 ^ k <= 16 ^ (lv L - 1)) by (apply pow16_mono; lia). lia.
  - destruct Hk2 as [Hk2|Hk2]; [lia|].
    assert (16 ^ lv L <= 16 ^ (k - 1)) by (apply pow16_mono; lia). lia.
Qed.

Lemma lv_small L : L <= 1 -> lv L = 0.
Proof.
  intro X. destruct L as [|[|L]]; try lia; reflexivity.
Qed.

Lemma lv_clen L : 1 <= L -> clen (lv L) L = 1 /\ forall n, n < lv L -> 2 <= clen n L.
Proof.
  intro HL. destruct (lv_spec L HL) as [A B]. split.
  - pose proof (clen_pos (lv L) L HL). destruct (Nat.le_gt_cases 2 (clen (lv L) L)) as [X|X]; [|lia].
    apply clen_ge2 in X. lia.
  - intros n Hn. apply clen_ge2. destruct B as [B|B]; [lia|].
    assert (16 ^ n <= 16 ^ (lv L - 1)) by (apply pow16_mono; lia). lia.
Qed.

(* the root is the only element of the top layer *)
Lemma spec_root_layers : forall n ys, (forall n', n' < n -> 2 <= length (layer_at ys n')) ->
  spec_root ys = spec_root (layer_at ys n).
Proof.
  induction n; intros ys Hn; cbn [layer_at]; [reflexivity|].
  rewrite (spec_root_step ys) by (apply (Hn 0); lia).
  apply IHn. intros n' Hn'. apply (Hn (S n')). lia.
Qed.

Lemma spec_root_top ys : 1 <= length ys ->
  exists r, layer_at ys (lv (length ys)) = [r] /\ spec_root ys = Some r /\ h32 r \/
            (lv (length ys) = 0 /\ layer_at ys 0 = [r] /\ spec_root ys = Some r).
Proof.
  intro HL. destruct (lv_clen _ HL) as [A B].
  assert (L1 : length (layer_at ys (lv (length ys))) = 1) by (now rewrite layer_at_length).
  destruct (layer_at ys (lv (length ys))) as [|r [|r2 rr]] eqn:E; cbn [length] in L1; try lia.
  exists r. destruct (lv (length ys)) as [|v] eqn:Ev.
  - right. cbn [layer_at] in E. subst ys. auto.
  - left. split; [reflexivity|]. split.
    + rewrite (spec_root_layers (S v)).
      * rewrite E. reflexivity.
      * intros n' Hn'. rewrite layer_at_length. apply B. lia.
    + rewrite layer_at_S in E. pose proof (layer1_h32 (layer_at ys v)) as F. rewrite E in F. now inversion F.
Qed.

(* digits *)
Lemma digit_spec key n : digit key n = (N.to_nat key / 16 ^ n) mod 16.
Proof.
  unfold digit. change 15%N with (N.ones 4). rewrite N.land_ones, N.shiftr_div_pow2.
  rewrite N2Nat.inj_mod, N2Nat.inj_div. f_equal. f_equal.
  rewrite N.pow_mul_r. change (2 ^ 4)%N with 16%N.
  rewrite N2Nat.inj_pow, Nat2N.id. reflexivity.
Qed.

(* ------------------------------------------------------------------ *)
(* Prove and Add (verification)                                         *)

(* the nodes on the path of key k, heights n .. 1 *)
Fixpoint path (ys : list bytes) (k n : nat) : list bytes :=
  match n with
  | O => []
  | S n' => concat (chunk_at (layer_at ys n') (k / 16 ^ S n')) :: path ys k n'
  end.

Lemma path_length ys k n : length (path ys k n) = n.
Proof. induction n; cbn [path length]; auto. Qed.

Lemma path_skipn ys k : forall n j, j <= n -> skipn (n - j) (path ys k n) = path ys k j.
Proof.
  induction n; intros j Hj.
  - assert (j = 0) by lia. subst. reflexivity.
  - destruct (Nat.eq_dec j (S n)) as [->|Nj].
    + now rewrite Nat.sub_diag.
    + replace (S n - j) with (S (n - j)) by lia. cbn [path skipn]. apply IHn. lia.
Qed.

Lemma path_from_end ys k : forall n i, i < n ->
  nth_error (path ys k n) (n - 1 - i) = Some (concat (chunk_at (layer_at ys i) (k / 16 ^ S i))).
Proof.
  induction n; intros i Hi; [lia|].
  destruct (Nat.eq_dec i n) as [->|Ni].
  - replace (S n - 1 - n) with 0 by lia. reflexivity.
  - replace (S n - 1 - i) with (S (n - 1 - i)) by lia. cbn [path nth_error]. apply IHn. lia.
Qed.

Lemma chunk_nonempty ly q : q < nchunks (length ly) -> chunk_at ly q <> [].
Proof.
  intros Hq E. apply (f_equal (@length _)) in E. rewrite chunk_at_length in E.
  unfold nchunks in Hq. cbn [length] in E. lia.
Qed.

Lemma node_hash_nonempty (b : node) : b <> [] -> node_hash H b = Some (hc b).
Proof. destruct b; [congruence|reflexivity]. Qed.

(* what one step down the path finds *)
Lemma path_step ys k key n (br : node) :
  Forall h32 ys -> N.to_nat key = k -> k < length ys ->
  nth_error br (digit key (S n)) = nth_error (layer_at ys (S n)) (k / 16 ^ S n) ->
  let c := chunk_at (layer_at ys n) (k / 16 ^ S n) in
  nth_error br (digit key (S n)) = Some (hc c) /\ c <> [] /\ Forall h32 c /\ length c <= 16 /\
  k / 16 ^ S n < nchunks (length (layer_at ys n)) /\
  nth_error c (digit key n) = nth_error (layer_at ys n) (k / 16 ^ n).
Proof.
  intros Fy Ek Hk Hbr c.
  assert (Hq : k / 16 ^ S n < nchunks (length (layer_at ys n))).
  { rewrite <- layer1_length, <- layer_at_S, layer_at_length. now apply div_lt_clen. }
  split; [|split; [|split; [|split; [|split]]]].
  - rewrite Hbr, layer_at_S. now apply nth_error_layer1.
  - now apply chunk_nonempty.
  - apply chunk_at_h32. now apply layer_at_h32.
  - apply chunk_at_le16.
  - exact Hq.
  - subst c. rewrite digit_spec, Ek.
    rewrite nth_error_chunk_at by (apply Nat.mod_upper_bound; lia). f_equal.
    rewrite pow16_S. pose proof (pow16_pos n).
    rewrite (Nat.mul_comm 16 (16 ^ n)), <- Nat.div_div by lia.
    set (a := k / 16 ^ n). pose proof (Nat.div_mod a 16). lia.
Qed.

Lemma prove_loop_ok m ys k key : Forall h32 ys -> N.to_nat key = k -> k < length ys -> tree_stored m ys ->
  forall n (br : node), (forall n', n' < n -> 2 <= length (layer_at ys n')) ->
  nth_error br (digit key n) = nth_error (layer_at ys n) (k / 16 ^ n) ->
  prove_loop m br n key = HOk (path ys k n).
Proof.
  intros Fy Ek Hk T. induction n as [|n IH]; intros br Hn Hbr; [reflexivity|].
  destruct (path_step ys k key n br Fy Ek Hk Hbr) as (E1 & Nc & Fc & Lc & Hq & Enext).
  cbn [prove_loop path]. unfold node_get. rewrite E1. unfold db_get.
  rewrite (T n _ (Hn n (Nat.lt_succ_diag_r n)) Hq).
  rewrite node_of_bytes_concat by assumption.
  rewrite (IH _ (fun n' Hn' => Hn n' (Nat.lt_lt_succ_r _ _ Hn')) Enext). reflexivity.
Qed.

Lemma mt_add_loop_ok m ys k key : Forall h32 ys -> N.to_nat key = k -> k < length ys ->
  forall n (br : node) i pre acc, length pre = i ->
  nth_error br (digit key n) = nth_error (layer_at ys n) (k / 16 ^ n) ->
  exists br' nodes, mt_add_loop H m br n key 0 i (pre ++ path ys k n) acc = HOk (br', nodes) /\
                    nth_error br' (digit key 0) = nth_error ys k.
Proof.
  intros Fy Ek Hk. induction n as [|n IH]; intros br i pre acc Hi Hbr.
  - cbn [mt_add_loop]. exists br, acc. split; [reflexivity|].
    rewrite Hbr. cbn [layer_at Nat.pow]. now rewrite Nat.div_1_r.
  - destruct (path_step ys k key n br Fy Ek Hk Hbr) as (E1 & Nc & Fc & Lc & Hq & Enext).
    cbn [mt_add_loop path]. unfold node_get. destruct (Nat.ltb_spec i 0) as [|_]; [lia|].
    rewrite Nat.sub_0_r, nth_error_app2 by lia. rewrite Hi, Nat.sub_diag. cbn [nth_error].
    rewrite node_of_bytes_concat by assumption.
    rewrite (node_hash_nonempty _ Nc), E1. cbn [obytes]. rewrite bytes_eqb_refl.
    set (c := chunk_at (layer_at ys n) (k / 16 ^ S n)) in *.
    replace (pre ++ concat c :: path ys k n) with ((pre ++ [concat c]) ++ path ys k n)
      by (now rewrite <- app_assoc).
    apply IH; [rewrite app_length; cbn [length]; lia|exact Enext].
Qed.

Lemma put_all_ok : forall l m, exists m', put_all H m l = HOk m'.
Proof.
  induction l as [|b l IH]; intros m; cbn [put_all]; [eauto|].
  unfold db_put. destruct (node_hash H b); apply IH.
Qed.

Lemma min_proof_len_le level key : min_proof_len level key <= level.
Proof. unfold min_proof_len. destruct (Nat.ltb_spec level (N.to_nat ((tz_not_xor key + 3) / 4) - 1)); lia. Qed.

Lemma node_of_bytes_one r : h32 r -> node_of_bytes r = HOk [r].
Proof.
  intro Hr. pose proof (node_of_bytes_concat [r]) as E. cbn [concat length] in E.
  rewrite app_nil_r in E. apply E; [repeat constructor; auto|lia].
Qed.

(* the tree built from the header of xs *)
Lemma new_mtree_ok m xs : Forall h32 xs -> 1 <= length xs ->
  exists r, spec_root xs = Some r /\
    new_mtree m (spec_header xs) = HOk (mkMtree m (lv (length xs)) [r] (N.of_nat (length xs))) /\
    layer_at xs (lv (length xs)) = [r].
Proof.
  intros Fx HL. unfold new_mtree, spec_header. cbn [hd_root hd_leaves]. fold (lv (length xs)).
  destruct (spec_root_top xs HL) as (r & [(E & R & Hr)|(Ev & E & R)]).
  - exists r. rewrite R. cbn [obytes]. rewrite (node_of_bytes_one r Hr). auto.
  - exists r. rewrite R. cbn [layer_at] in E. subst xs. inversion Fx; subst.
    cbn [obytes]. rewrite (node_of_bytes_one r) by assumption. rewrite Ev. auto.
Qed.

Lemma top_digit xs k key : N.to_nat key = k -> k < length xs -> 1 <= length xs ->
  forall r, layer_at xs (lv (length xs)) = [r] ->
  nth_error [r] (digit key (lv (length xs))) =
  nth_error (layer_at xs (lv (length xs))) (k / 16 ^ lv (length xs)).
Proof.
  intros Ek Hk HL r E. destruct (lv_spec _ HL) as [A _].
  rewrite digit_spec, Ek, E. rewrite Nat.div_small by lia. reflexivity.
Qed.

(* Prove returns the path; a tree built from the same header accepts it *)
Lemma prove_ok m xs k : Forall h32 xs -> k < length xs -> tree_stored m xs ->
  exists mt, new_mtree m (spec_header xs) = HOk mt /\
             prove mt (N.of_nat k) (Some 0) = HOk (path xs k (lv (length xs))).
Proof.
  intros Fx Hk T. assert (HL : 1 <= length xs) by lia.
  destruct (new_mtree_ok m xs Fx HL) as (r & R & E & El). eexists. split; [exact E|].
  unfold prove. cbn [mt_db mt_root mt_level].
  rewrite (prove_loop_ok m xs k (N.of_nat k) Fx (Nat2N.id k) Hk T).
  - rewrite path_length. cbn [Nat.ltb skipn]. destruct (lv (length xs)); reflexivity.
  - intros n' Hn'. rewrite layer_at_length. apply (proj2 (lv_clen _ HL)). exact Hn'.
  - apply top_digit; auto using Nat2N.id.
Qed.

Lemma verify_ok m0 xs k x : Forall h32 xs -> nth_error xs k = Some x ->
  exists vt, new_mtree m0 (spec_header xs) = HOk vt /\
    exists vt', mt_add H vt (N.of_nat k) x (path xs k (lv (length xs))) = HOk vt'.
Proof.
  intros Fx Hx. assert (Hk : k < length xs) by (apply nth_error_Some; congruence).
  assert (HL : 1 <= length xs) by lia.
  destruct (new_mtree_ok m0 xs Fx HL) as (r & R & E & El). eexists. split; [exact E|].
  unfold mt_add. cbn [mt_db mt_root mt_level mt_cap]. rewrite path_length.
  pose proof (min_proof_len_le (lv (length xs)) (N.of_nat k)).
  destruct (Nat.ltb_spec (lv (length xs)) (min_proof_len (lv (length xs)) (N.of_nat k))) as [|_]; [lia|].
  rewrite Nat.ltb_irrefl, Nat.sub_diag.
  destruct (mt_add_loop_ok m0 xs k (N.of_nat k) Fx (Nat2N.id k) Hk (lv (length xs)) [r] 0 [] []
              eq_refl (top_digit xs k _ (Nat2N.id k) Hk HL r El)) as (br' & nodes & E2 & E3).
  cbn [app] in E2. rewrite E2. unfold node_get. rewrite E3, Hx. cbn [obytes].
  rewrite bytes_eqb_refl. cbn [negb Nat.ltb].
  destruct (put_all_ok nodes m0) as (m' & ->). eauto.
Qed.

(* binding: two accepted full proofs for the same key agree, or the hash collides *)
Lemma node_of_bytes_inj a b n : node_of_bytes a = HOk n -> node_of_bytes b = HOk n -> a = b.
Proof.
  intros Ea Eb. apply node_of_bytes_sound in Ea. apply node_of_bytes_sound in Eb.
  destruct Ea, Eb. congruence.
Qed.

Lemma hash_eq_bytes (b b' : node) pb pb' :
  node_of_bytes pb = HOk b -> node_of_bytes pb' = HOk b' ->
  obytes (node_hash H b) = obytes (node_hash H b') -> pb = pb' \/ collision.
Proof.
  intros E E' Hh. destruct (node_of_bytes_sound _ _ E) as [C F].
  destruct (node_of_bytes_sound _ _ E') as [C' F'].
  destruct b as [|x b], b' as [|x' b']; cbn [node_hash obytes] in Hh.
  - left. cbn in C, C'. congruence.
  - exfalso. pose proof (H_len (node_bytes (x' :: b'))) as L. rewrite <- Hh in L. discriminate.
  - exfalso. pose proof (H_len (node_bytes (x :: b))) as L. rewrite Hh in L. discriminate.
  - unfold node_bytes in Hh. rewrite C, C' in Hh.
    destruct (bytes_eqb pb pb') eqn:Eq.
    + left. now apply bytes_eqb_eq.
    + right. exists pb, pb'. split; auto. intro X. rewrite X, bytes_eqb_refl in Eq. discriminate.
Qed.

Lemma mt_add_loop_binding m key : forall n (br : node) i pre pre' q q' acc acc' b b' nodes nodes',
  length pre = i -> length pre' = i -> length q = n -> length q' = n ->
  mt_add_loop H m br n key 0 i (pre ++ q) acc = HOk (b, nodes) ->
  mt_add_loop H m br n key 0 i (pre' ++ q') acc' = HOk (b', nodes') ->
  (q = q' /\ b = b') \/ collision.
Proof.
  induction n as [|n IH]; intros br i pre pre' q q' acc acc' b b' nodes nodes' Hi Hi' Hq Hq' E E'.
  - destruct q, q'; cbn [length] in *; try lia. cbn [mt_add_loop] in *. left. split; congruence.
  - destruct q as [|pb q]; [cbn in Hq; lia|]. destruct q' as [|pb' q']; [cbn in Hq'; lia|].
    cbn [mt_add_loop] in E, E'. destruct (Nat.ltb_spec i 0) as [|_]; [lia|].
    rewrite Nat.sub_0_r, nth_error_app2 in E, E' by lia.
    rewrite Hi, Nat.sub_diag in E. rewrite Hi', Nat.sub_diag in E'. cbn [nth_error] in E, E'.
    destruct (node_of_bytes pb) as [b1|] eqn:N1; [|discriminate].
    destruct (node_of_bytes pb') as [b1'|] eqn:N1'; [|discriminate].
    destruct (bytes_eqb (obytes (node_hash H b1)) (obytes (node_get br (digit key (S n))))) eqn:Q; [|discriminate].
    destruct (bytes_eqb (obytes (node_hash H b1')) (obytes (node_get br (digit key (S n))))) eqn:Q'; [|discriminate].
    apply bytes_eqb_eq in Q, Q'.
    destruct (hash_eq_bytes b1 b1' pb pb' N1 N1' (eq_trans Q (eq_sym Q'))) as [Epb|C]; [|right; exact C].
    subst pb'. rewrite N1 in N1'. inversion N1'; subst b1'.
    replace (pre ++ pb :: q) with ((pre ++ [pb]) ++ q) in E by (now rewrite <- app_assoc).
    replace (pre' ++ pb :: q') with ((pre' ++ [pb]) ++ q') in E' by (now rewrite <- app_assoc).
    destruct (IH b1 (S i) (pre ++ [pb]) (pre' ++ [pb]) q q' (acc ++ [b1]) (acc' ++ [b1]) b b' nodes nodes')
      as [[Eq Eb]|C]; auto;
      try (rewrite app_length; cbn [length]; lia); try (cbn [length] in *; lia).
    left. split; congruence.
Qed.

Theorem mt_add_binding vt key h p h' p' vt1 vt2 :
  length p = mt_level vt -> length p' = mt_level vt ->
  mt_add H vt key h p = HOk vt1 -> mt_add H vt key h' p' = HOk vt2 ->
  (h = h' /\ p = p') \/ collision.
Proof.
  intros Lp Lp' E E'. unfold mt_add in E, E'. rewrite Lp in E. rewrite Lp' in E'.
  destruct (Nat.ltb _ _); [discriminate|]. rewrite Nat.ltb_irrefl, Nat.sub_diag in E, E'.
  destruct (mt_add_loop H (mt_db vt) (mt_root vt) (mt_level vt) key 0 0 p []) as [[b nodes]|] eqn:L1; [|discriminate].
  destruct (mt_add_loop H (mt_db vt) (mt_root vt) (mt_level vt) key 0 0 p' []) as [[b' nodes']|] eqn:L2; [|discriminate].
  destruct (mt_add_loop_binding (mt_db vt) key (mt_level vt) (mt_root vt) 0 [] [] p p' [] [] b b' nodes nodes'
              eq_refl eq_refl Lp Lp' L1 L2) as [[Ep Eb]|C]; [|right; exact C].
  subst p' b'. left. split; [|reflexivity].
  destruct (bytes_eqb (obytes (node_get b (digit key 0))) h) eqn:Q; [|discriminate].
  destruct (bytes_eqb (obytes (node_get b (digit key 0))) h') eqn:Q'; [|discriminate].
  apply bytes_eqb_eq in Q, Q'. congruence.
Qed.

(* ------------------------------------------------------------------ *)
(* SetLen                                                               *)

(* number of roots of a sequence of length n >= 1: the K with 16^(K-1) <= n < 16^K *)
Lemma spec_roots_count : forall n ys, length ys = n -> 1 <= n ->
  1 <= length (spec_roots ys) /\ 16 ^ (length (spec_roots ys) - 1) <= n < 16 ^ length (spec_roots ys).
Proof.
  induction n as [n IH] using lt_wf_ind. intros ys Hn H1.
  assert (Nz : ys <> []) by (intro E; subst ys; cbn in Hn; lia).
  rewrite (spec_roots_cons ys Nz). cbn [length].
  destruct (Nat.lt_ge_cases n 16) as [Hs|Hl].
  - rewrite spec_roots_cl1_nil by lia. cbn. lia.
  - destruct (IH (n / 16) ltac:(lia) (cl1 ys) ltac:(rewrite cl1_length; now subst n) ltac:(lia)) as [K1 [Klo Khi]].
    set (K := length (spec_roots (cl1 ys))) in *.
    split; [lia|]. replace (S K - 1) with K by lia. rewrite pow16_S.
    assert (EK : 16 ^ K = 16 * 16 ^ (K - 1)).
    { replace K with (S (K - 1)) at 1 by lia. apply pow16_S. }
    lia.
Qed.

Lemma roots_count_unique n K K' : 16 ^ (K - 1) <= n < 16 ^ K -> 16 ^ (K' - 1) <= n < 16 ^ K' ->
  1 <= K -> 1 <= K' -> K = K'.
Proof.
  intros [A B] [A' B'] H1 H1'.
  assert (K - 1 < K') by (apply pow16_lt_inv; lia).
  assert (K' - 1 < K) by (apply pow16_lt_inv; lia). lia.
Qed.

(* powerOf16 *)
Lemma N_land15 n : N.land n 15 = (n mod 16)%N.
Proof. change 15%N with (N.ones 4). now rewrite N.land_ones. Qed.
Lemma N_shiftr4 n : N.shiftr n 4 = (n / 16)%N.
Proof. now rewrite N.shiftr_div_pow2. Qed.

Lemma p16_sound : forall f n, power_of_16_loop f n = true -> exists k, n = N.of_nat (16 ^ k).
Proof.
  induction f as [|f IH]; intros n E; cbn [power_of_16_loop] in E.
  - destruct (15 <? n)%N eqn:C; [discriminate|]. apply N.eqb_eq in E. exists 0. now subst.
  - destruct (15 <? n)%N eqn:C.
    + rewrite N_land15, N_shiftr4 in E.
      destruct (N.eqb_spec (n mod 16) 0) as [Em|]; [|discriminate]. cbn [negb] in E.
      destruct (IH _ E) as (k & Ek). exists (S k). rewrite pow16_S.
      assert (n = 16 * (n / 16) + n mod 16)%N by (apply N.div_mod; discriminate). lia.
    + apply N.eqb_eq in E. exists 0. now subst.
Qed.

Lemma p16_complete : forall f k, k <= f -> power_of_16_loop f (N.of_nat (16 ^ k)) = true.
Proof.
  induction f as [|f IH]; intros k Hk.
  - assert (k = 0) by lia. subst. reflexivity.
  - destruct k as [|k]; [reflexivity|]. cbn [power_of_16_loop]. rewrite pow16_S.
    pose proof (pow16_pos k) as Hp.
    destruct (N.ltb_spec 15 (N.of_nat (16 * 16 ^ k))) as [_|X]; [|lia].
    rewrite N_land15, N_shiftr4.
    replace (N.of_nat (16 * 16 ^ k) mod 16)%N with 0%N by lia. cbn [N.eqb negb].
    replace (N.of_nat (16 * 16 ^ k) / 16)%N with (N.of_nat (16 ^ k)) by lia.
    apply IH. lia.
Qed.

(* an int64 length has at most 16 hex digits (kept in N: no large nat is ever computed) *)
Lemma lv_bound l : 1 <= l -> (N.of_nat l < 2 ^ 63)%N -> lv l <= 16.
Proof.
  intros H1 Hb. destruct (lv_spec l H1) as [_ [B|B]]; [lia|].
  assert (X : (16 ^ N.of_nat (lv l - 1) < 16 ^ 16)%N).
  { rewrite N16_pow. assert (Y : (2 ^ 63 < 16 ^ 16)%N) by reflexivity. lia. }
  apply N.pow_lt_mono_r_iff in X; lia.
Qed.

(* lvl of SetLen = number of roots of a sequence of length l *)
Lemma setlen_lvl l K : 1 <= l -> (N.of_nat l < 2 ^ 63)%N -> 1 <= K -> 16 ^ (K - 1) <= l < 16 ^ K ->
  lv l + (if power_of_16 (N.of_nat l) then 1 else 0) = K.
Proof.
  intros H1 Hb HK HKl. destruct (lv_spec l H1) as [A B].
  pose proof (lv_bound l H1 Hb) as Hl16.
  destruct (power_of_16 (N.of_nat l)) eqn:P.
  - apply p16_sound in P. destruct P as (k & Ek). apply Nat2N.inj in Ek.
    assert (Ev : k = lv l).
    { apply lv_unique; [lia|lia|]. destruct k; [left; reflexivity|right].
      replace (S k - 1) with k by lia. rewrite Ek, pow16_S. pose proof (pow16_pos k). lia. }
    rewrite <- Ev. apply (roots_count_unique l); auto; try lia.
    replace (k + 1 - 1) with k by lia. replace (k + 1) with (S k) by lia. rewrite pow16_S.
    pose proof (pow16_pos k). lia.
  - rewrite Nat.add_0_r. apply (roots_count_unique l); auto.
    + assert (Nl : l <> 16 ^ lv l).
      { intro E.
        unfold power_of_16 in P. rewrite E, p16_complete in P by lia. discriminate. }
      destruct B as [B|B].
      * rewrite B in *. cbn [Nat.pow] in *. lia.
      * lia.
    + destruct B as [B|B]; [|destruct (lv l); cbn in B |- *; lia].
      rewrite B in *. cbn [Nat.pow] in *. assert (l = 1) by lia. subst l.
      exfalso. unfold power_of_16 in P. cbn in P. discriminate.
Qed.

(* complete blocks of a prefix *)
Lemma cl1_firstn ly a : a <= length ly -> cl1 (firstn a ly) = firstn (a / 16) (layer1 ly).
Proof.
  intro Ha. unfold cl1, layer1. rewrite firstn_length, Nat.min_l by lia.
  rewrite firstn_map, firstn_seq0 by (unfold nchunks; lia).
  apply map_ext_in. intros q Hq. apply in_seq in Hq. f_equal. apply chunk_at_firstn. lia.
Qed.

Lemma cl1_prefix ly : cl1 ly = firstn (length ly / 16) (layer1 ly).
Proof. rewrite <- (cl1_firstn ly (length ly)) by lia. now rewrite firstn_all. Qed.

Lemma cl1_firstn_cl1 ly a : a <= length ly -> cl1 (firstn a ly) = firstn (a / 16) (cl1 ly).
Proof.
  intro Ha. rewrite cl1_firstn by assumption. rewrite cl1_prefix, firstn_firstn. f_equal.
  assert (a / 16 <= length ly / 16) by (apply Nat.div_le_mono; lia). lia.
Qed.

Lemma blocks_stored_firstn m : forall n ys a, length ys = n -> a <= n ->
  blocks_stored m ys -> blocks_stored m (firstn a ys).
Proof.
  induction n as [n IH] using lt_wf_ind. intros ys a Hn Ha Hb.
  destruct (Nat.lt_ge_cases a 16) as [Hs|Hl].
  - apply blocks_stored_short. rewrite firstn_length. lia.
  - apply blocks_stored_unfold in Hb. destruct Hb as [Hb0 Hb1].
    apply blocks_stored_unfold. rewrite firstn_length, Nat.min_l by lia. split.
    + intros q Hq. unfold chunk_stored. rewrite chunk_at_firstn by lia. apply Hb0.
      assert (a / 16 <= length ys / 16) by (apply Nat.div_le_mono; lia). lia.
    + rewrite cl1_firstn_cl1 by lia.
      apply (IH (length (cl1 ys))); auto; rewrite cl1_length; subst n.
      * lia.
      * apply Nat.div_le_mono; lia.
Qed.

(* the first (a mod 16) children of the path node are the trailing chunk of the prefix *)
Lemma prefix_rem ly a q : a <= length ly -> (0 < a mod 16 -> q = a / 16) ->
  firstn (a mod 16) (chunk_at ly q) = rem16 (firstn a ly).
Proof.
  intros Ha Hq. unfold rem16. rewrite firstn_length, Nat.min_l by lia.
  destruct (Nat.eq_dec (a mod 16) 0) as [E0|N0].
  - rewrite E0. cbn [firstn]. symmetry. apply skipn_all2. rewrite firstn_length. lia.
  - rewrite (Hq ltac:(lia)). unfold chunk_at. rewrite firstn_firstn, Nat.min_l by lia.
    rewrite firstn_skipn_comm. f_equal. f_equal. lia.
Qed.

Lemma path_digit_arith l i : 1 <= l -> 0 < (l / 16 ^ i) mod 16 -> (l - 1) / 16 ^ S i = l / 16 ^ i / 16.
Proof.
  intros H1 Hd. rewrite pow16_S. pose proof (pow16_pos i) as Hp. set (b := 16 ^ i) in *.
  pose proof (Nat.div_mod l b ltac:(lia)) as E1. pose proof (Nat.mod_upper_bound l b ltac:(lia)) as E2.
  set (a := l / b) in *. set (r := l mod b) in *.
  pose proof (Nat.div_mod a 16 ltac:(lia)) as E3. set (q := a / 16) in *. set (d := a mod 16) in *.
  symmetry. apply (Nat.div_unique _ _ _ (l - 1 - 16 * b * q)); nia.
Qed.

Lemma build_roots_ok xs l P lvl : Forall h32 xs -> 1 <= l -> l <= length xs ->
  (forall i, i < lvl -> nth_error P (length P - 1 - i) =
                         Some (concat (chunk_at (layer_at xs i) ((l - 1) / 16 ^ S i)))) ->
  forall n i, i + n = lvl ->
  n = length (spec_roots (firstn (l / 16 ^ i) (layer_at xs i))) ->
  build_roots P n i (N.of_nat (l / 16 ^ i)) = HOk (spec_roots (firstn (l / 16 ^ i) (layer_at xs i))).
Proof.
  intros Fx H1 Hl HP. induction n as [|n IH]; intros i Hi Hn.
  - cbn [build_roots]. symmetry in Hn. apply length_zero_iff_nil in Hn. now rewrite Hn.
  - set (a := l / 16 ^ i) in *. set (ly := layer_at xs i) in *.
    assert (Ha : a <= length ly).
    { subst a ly. rewrite layer_at_length. now apply div_le_clen. }
    assert (Nz : firstn a ly <> []).
    { intro E. rewrite E, spec_roots_nil in Hn. discriminate. }
    rewrite (spec_roots_cons _ Nz) in Hn |- *. cbn [length] in Hn.
    assert (Ec : cl1 (firstn a ly) = firstn (l / 16 ^ S i) (layer_at xs (S i))).
    { rewrite cl1_firstn by assumption. rewrite layer_at_S. f_equal. subst a.
      rewrite pow16_S, (Nat.mul_comm 16), Nat.div_div; pose proof (pow16_pos i); lia. }
    cbn [build_roots]. pose proof (HP i ltac:(lia)) as HPi. unfold bytes in *. rewrite HPi. fold bytes in *.
    set (c := chunk_at (layer_at xs i) ((l - 1) / 16 ^ S i)).
    assert (Fc : Forall h32 c) by (apply chunk_at_h32, layer_at_h32; auto).
    rewrite node_of_bytes_concat; [|exact Fc|apply chunk_at_le16].
    replace (N.to_nat (N.of_nat a mod 16)) with (a mod 16) by lia.
    assert (ER : firstn (a mod 16) c = rem16 (firstn a ly)).
    { apply prefix_rem; auto. intro Hd. now apply path_digit_arith. }
    assert (Lk : a mod 16 <= length c).
    { pose proof (f_equal (@length _) ER) as X. rewrite firstn_length, rem16_length, firstn_length in X.
      rewrite (Nat.min_l a) in X by lia. lia. }
    unfold node_len. destruct (Nat.ltb_spec (length c) (a mod 16)) as [|_]; [lia|].
    replace (N.of_nat a / 16)%N with (N.of_nat (l / 16 ^ S i)).
    2:{ subst a. rewrite pow16_S, (Nat.mul_comm 16), <- Nat.div_div by (pose proof (pow16_pos i); lia). lia. }
    rewrite (IH (S i)) by (try lia; rewrite <- Ec; lia).
    rewrite ER, Ec. reflexivity.
Qed.

(* ------------------------------------------------------------------ *)
(* the accumulator invariant                                            *)

Definition HInv (st : hstate) (xs : list bytes) : Prop :=
  h_roots (hs_acc st) = spec_roots xs /\ h_len (hs_acc st) = N.of_nat (length xs) /\
  Forall h32 xs /\ sound (hs_tree st) /\ blocks_stored (hs_tree st) xs.

Lemma HInv_intro st xs :
  h_roots (hs_acc st) = spec_roots xs -> h_len (hs_acc st) = N.of_nat (length xs) ->
  Forall h32 xs -> sound (hs_tree st) -> blocks_stored (hs_tree st) xs -> HInv st xs.
Proof. unfold HInv. tauto. Qed.

Lemma HInv_init : HInv hstate_init [].
Proof.
  apply HInv_intro.
  - reflexivity.
  - reflexivity.
  - constructor.
  - apply sound_empty.
  - apply blocks_stored_short. cbn. lia.
Qed.

(* the header depends on roots and length only *)
Lemma get_header_roots st xs : h_roots (hs_acc st) = spec_roots xs -> h_len (hs_acc st) = N.of_nat (length xs) ->
  Forall h32 xs -> get_header H st = HOk (spec_header xs).
Proof.
  intros Hr Hl Fx. unfold get_header. rewrite Hr.
  destruct (carry_loop_ok (length xs) xs None (hs_tree st) false eq_refl Fx (Forall_nil _)) as (m' & E & _).
  cbn [olist] in E. rewrite app_nil_r in E. rewrite E, Hl. reflexivity.
Qed.

Lemma get_header_ok st xs : HInv st xs -> get_header H st = HOk (spec_header xs).
Proof. intros (Hr & Hl & Fx & _). now apply get_header_roots. Qed.

Lemma finalize_ok st xs : HInv st xs ->
  (exists st1, finalize H st = HOk (spec_header xs, st1) /\ HInv st1 xs /\ tree_stored (hs_tree st1) xs /\
               hs_acc st1 = hs_acc st)
  \/ collision.
Proof.
  intros (Hr & Hl & Fx & Hs & Hb). unfold finalize. rewrite Hr.
  destruct (carry_loop_ok (length xs) xs None (hs_tree st) true eq_refl Fx (Forall_nil _)) as (m' & E & _ & P).
  cbn [olist] in *. rewrite app_nil_r in *. rewrite E, Hl.
  destruct (P eq_refl Hs Hb) as [(S' & X' & T')|C]; [left|right; exact C].
  eexists. split; [reflexivity|]. cbn [hs_acc hs_tree].
  split; [|split; auto].
  split; [auto|split; [auto|split; [auto|split; [auto|eapply blocks_stored_ext; eauto]]]].
Qed.

Lemma acc_add_ok st xs x : HInv st xs -> h32 x ->
  (exists st', acc_add H st x = HOk st' /\ HInv st' (xs ++ [x])) \/ collision.
Proof.
  intros (Hr & Hl & Fx & Hs & Hb) Hx. unfold acc_add. rewrite Hr.
  destruct (add_at_ok (length xs) xs x (hs_tree st) eq_refl Fx Hx Hs Hb) as [(m' & E & S' & X' & B')|C];
    [left|right; exact C].
  rewrite E. eexists. split; [reflexivity|].
  apply HInv_intro; cbn [hs_acc hs_tree h_roots h_len]; auto.
  - rewrite Hl, app_length. cbn [length]. lia.
  - apply Forall_app. split; auto.
Qed.

Lemma set_len_ok st xs l : HInv st xs -> (N.of_nat (length xs) < 2 ^ 63)%N -> l <= length xs ->
  (exists st', set_len H st (N.of_nat l) = HOk st' /\ HInv st' (firstn l xs)) \/ collision.
Proof.
  intros Hi Hb Hl. pose proof Hi as (Hr & Hlen & Fx & Hs & Hbs). unfold set_len. rewrite Hlen.
  destruct (N.ltb_spec (N.of_nat (length xs)) (N.of_nat l)) as [|_]; [lia|].
  destruct (N.eqb_spec (N.of_nat l) 0) as [E0|N0].
  - left. eexists. split; [reflexivity|]. assert (l = 0) by lia. subst l. cbn [firstn].
    apply HInv_intro; cbn [hs_acc hs_tree h_roots h_len]; auto. apply blocks_stored_short. cbn. lia.
  - destruct (N.eqb_spec (N.of_nat l) (N.of_nat (length xs))) as [EL|NL].
    + left. exists st. split; [reflexivity|]. assert (l = length xs) by lia. subst l. now rewrite firstn_all.
    + assert (Hl1 : 1 <= l) by lia. assert (Hl2 : l < length xs) by lia.
      destruct (finalize_ok st xs Hi) as [(st1 & Ef & Hi1 & T1 & Ea)|C]; [|right; exact C].
      rewrite Ef. destruct Hi1 as (_ & _ & _ & Hs1 & Hbs1).
      destruct (prove_ok (hs_tree st1) xs (l - 1) Fx ltac:(lia) T1) as (mt & Em & Ep).
      rewrite Em. replace (N.of_nat l - 1)%N with (N.of_nat (l - 1)) by lia. rewrite Ep.
      rewrite path_length. left.
      (* the number of roots *)
      set (pre := firstn l xs).
      assert (Lpre : length pre = l) by (subst pre; rewrite firstn_length; lia).
      destruct (spec_roots_count l pre Lpre Hl1) as (K1 & Klo & Khi).
      set (K := length (spec_roots pre)) in *.
      fold (lv l). rewrite (setlen_lvl l K Hl1 ltac:(lia) K1 (conj Klo Khi)).
      assert (HKL : K <= lv (length xs)).
      { destruct (lv_spec (length xs) ltac:(lia)) as [A _].
        assert (K - 1 < lv (length xs)) by (apply pow16_lt_inv; lia). lia. }
      destruct (Nat.ltb_spec (lv (length xs)) K) as [|_]; [lia|].
      rewrite path_skipn by assumption.
      pose proof (build_roots_ok xs l (path xs (l - 1) K) K Fx Hl1 ltac:(lia)) as BR.
      rewrite path_length in BR.
      specialize (BR (fun i Hi' => path_from_end xs (l - 1) K i Hi') K 0 eq_refl).
      cbn [Nat.pow layer_at] in BR. rewrite Nat.div_1_r in BR. fold pre in BR. fold K in BR.
      rewrite (BR eq_refl).
      eexists. split; [reflexivity|].
      apply HInv_intro; cbn [hs_acc hs_tree h_roots h_len];
        [reflexivity | rewrite Lpre; reflexivity | subst pre; now apply Forall_firstn' | exact Hs1
        | subst pre; eapply blocks_stored_firstn; eauto; lia].
Qed.

(* ------------------------------------------------------------------ *)
(* histories                                                            *)

Definition hop_ok (o : hop) : Prop := match o with HAdd h => h32 h | _ => True end.

Definition seq_step (xs : list bytes) (o : hop) : list bytes :=
  match o with
  | HAdd h => xs ++ [h]
  | HSetLen l => if Nat.leb (N.to_nat l) (length xs) then firstn (N.to_nat l) xs else xs
  | _ => xs
  end.
Definition hseq (ops : list hop) : list bytes := fold_left seq_step ops [].

Fixpoint adds (ops : list hop) : nat :=
  match ops with [] => 0 | HAdd _ :: r => S (adds r) | _ :: r => adds r end.

Lemma hstep_inv st xs o : HInv st xs -> hop_ok o -> (N.of_nat (length xs + adds [o]) < 2 ^ 63)%N ->
  HInv (hstep H st o) (seq_step xs o) \/ collision.
Proof.
  intros Hi Ho Hb. destruct o as [h| | |l]; cbn [hstep seq_step].
  - destruct (acc_add_ok st xs h Hi Ho) as [(st' & E & Hi')|C]; [left|right; exact C]. now rewrite E.
  - destruct (finalize_ok st xs Hi) as [(st1 & E & Hi1 & _)|C]; [left|right; exact C]. now rewrite E.
  - now left.
  - destruct (Nat.leb_spec (N.to_nat l) (length xs)) as [Hle|Hgt].
    + destruct (set_len_ok st xs (N.to_nat l) Hi ltac:(cbn [adds] in Hb; lia) Hle) as [(st' & E & Hi')|C];
        [left|right; exact C].
      rewrite N2Nat.id in E. now rewrite E.
    + left. unfold set_len. destruct Hi as (Hr & Hlen & Hrest). rewrite Hlen.
      destruct (N.ltb_spec (N.of_nat (length xs)) l) as [_|]; [|lia]. unfold HInv. tauto.
Qed.

Lemma hsteps_inv : forall ops st xs, HInv st xs -> Forall hop_ok ops ->
  (N.of_nat (length xs + adds ops) < 2 ^ 63)%N ->
  HInv (fold_left (hstep H) ops st) (fold_left seq_step ops xs) \/ collision.
Proof.
  induction ops as [|o ops IH]; intros st xs Hi F Hb; [now left|].
  inversion F; subst. cbn [fold_left].
  assert (Hb1 : (N.of_nat (length xs + adds [o]) < 2 ^ 63)%N).
  { destruct o; cbn [adds] in *; lia. }
  destruct (hstep_inv st xs o Hi H2 Hb1) as [Hi'|C]; [|right; exact C].
  apply IH; auto.
  destruct o as [h| | |l]; cbn [seq_step adds] in *; try lia.
  - rewrite app_length. cbn [length]. lia.
  - destruct (Nat.leb_spec (N.to_nat l) (length xs)); [rewrite firstn_length|]; lia.
Qed.

Lemma hrun_inv ops : Forall hop_ok ops -> (N.of_nat (adds ops) < 2 ^ 63)%N ->
  HInv (hrun H ops) (hseq ops) \/ collision.
Proof. intros F Hb. apply (hsteps_inv ops hstate_init [] HInv_init F). exact Hb. Qed.

(* additions only: roots and header need nothing from the bucket *)
Lemma adds_roots : forall xs st ys, h_roots (hs_acc st) = spec_roots ys -> h_len (hs_acc st) = N.of_nat (length ys) ->
  Forall h32 xs ->
  h_roots (hs_acc (fold_left (hstep H) (map HAdd xs) st)) = spec_roots (ys ++ xs) /\
  h_len (hs_acc (fold_left (hstep H) (map HAdd xs) st)) = N.of_nat (length (ys ++ xs)).
Proof.
  induction xs as [|x xs IH]; intros st ys Hr Hl F; cbn [map fold_left].
  - rewrite app_nil_r. auto.
  - inversion F; subst. cbn [hstep]. unfold acc_add. rewrite Hr.
    destruct (add_at_roots (length ys) ys x (hs_tree st) eq_refl H2) as (m' & E). rewrite E.
    replace (ys ++ x :: xs) with ((ys ++ [x]) ++ xs) by (now rewrite <- app_assoc).
    apply IH; auto. cbn [hs_acc h_len]. rewrite Hl, app_length. cbn [length]. lia.
Qed.

(* ------------------------------------------------------------------ *)
(* the statements of Prop_C28                                           *)

Theorem header_of_adds xs : Forall h32 xs ->
  get_header H (hrun H (map HAdd xs)) = HOk (spec_header xs) /\
  h_roots (hs_acc (hrun H (map HAdd xs))) = spec_roots xs.
Proof.
  intro F. destruct (adds_roots xs hstate_init [] eq_refl eq_refl F) as [Hr Hl]. cbn [app] in *.
  split; [|exact Hr]. now apply get_header_roots.
Qed.

Theorem header_function_of_sequence ops : Forall hop_ok ops -> (N.of_nat (adds ops) < 2 ^ 63)%N ->
  (get_header H (hrun H ops) = HOk (spec_header (hseq ops)) /\
   exists st1, finalize H (hrun H ops) = HOk (spec_header (hseq ops), st1) /\
               get_header H st1 = HOk (spec_header (hseq ops)))
  \/ collision.
Proof.
  intros F Hb. destruct (hrun_inv ops F Hb) as [Hi|C]; [|right; exact C].
  destruct (finalize_ok _ _ Hi) as [(st1 & E & Hi1 & _)|C]; [left|right; exact C].
  split; [now apply get_header_ok|]. exists st1. split; [exact E|now apply get_header_ok].
Qed.

Theorem proof_accepted ops i x : Forall hop_ok ops -> (N.of_nat (adds ops) < 2 ^ 63)%N ->
  nth_error (hseq ops) i = Some x ->
  (exists st1 mt p,
     finalize H (hrun H ops) = HOk (spec_header (hseq ops), st1) /\
     new_mtree (hs_tree st1) (spec_header (hseq ops)) = HOk mt /\
     prove mt (N.of_nat i) (Some 0) = HOk p /\ length p = mt_level mt /\
     forall m0, exists vt vt', new_mtree m0 (spec_header (hseq ops)) = HOk vt /\
                               mt_add H vt (N.of_nat i) x p = HOk vt')
  \/ collision.
Proof.
  intros F Hb Hx. destruct (hrun_inv ops F Hb) as [Hi|C]; [|right; exact C].
  destruct (finalize_ok _ _ Hi) as [(st1 & E & Hi1 & T1 & _)|C]; [left|right; exact C].
  destruct Hi as (_ & _ & Fx & _).
  assert (Hk : i < length (hseq ops)) by (apply nth_error_Some; congruence).
  destruct (prove_ok (hs_tree st1) _ i Fx Hk T1) as (mt & Em & Ep).
  exists st1, mt, (path (hseq ops) i (lv (length (hseq ops)))).
  split; [exact E|]. split; [exact Em|]. split; [exact Ep|]. split.
  - rewrite path_length. destruct (new_mtree_ok (hs_tree st1) _ Fx ltac:(lia)) as (r & _ & Em' & _).
    rewrite Em in Em'. inversion Em'; subst. reflexivity.
  - intro m0. destruct (verify_ok m0 _ i x Fx Hx) as (vt & Ev & vt' & Ea). eauto.
Qed.

Theorem altered_rejected_or_collision vt key h p vt1 h' p' :
  length p = mt_level vt -> length p' = mt_level vt ->
  mt_add H vt key h p = HOk vt1 -> (h', p') <> (h, p) ->
  (forall vt2, mt_add H vt key h' p' <> HOk vt2) \/ collision.
Proof.
  intros Lp Lp' E Hne. destruct (mt_add H vt key h' p') as [vt2|e] eqn:E'.
  - destruct (mt_add_binding vt key h p h' p' vt1 vt2 Lp Lp' E E') as [[-> ->]|C]; [congruence|right; exact C].
  - left. intros vt2 X. discriminate.
Qed.

(* a proof with more elements than the tree has levels is a verification error *)
Theorem overlong_rejected vt key h p : mt_level vt < length p -> mt_add H vt key h p = HErr HVerify.
Proof.
  intro Hl. unfold mt_add. destruct (Nat.ltb _ _); [reflexivity|].
  destruct (Nat.ltb_spec (mt_level vt) (length p)); [reflexivity|lia].
Qed.

(* the code before /repo 33272cd crashed on such a proof although everything it checked was genuine *)
Lemma mt_add_old_refuted :
  exists vt key h p, mt_level vt < length p /\ mt_add_old H vt key h p = HErr HPanic.
Proof.
  exists (mkMtree bm_empty 0 [repeat 1%N 32] 1%N), 0%N, (repeat 1%N 32), [repeat 0%N 32].
  split; [cbn; lia|reflexivity].
Qed.

Theorem rewind ops l : Forall hop_ok ops -> (N.of_nat (adds ops) < 2 ^ 63)%N -> l <= length (hseq ops) ->
  (exists st', set_len H (hrun H ops) (N.of_nat l) = HOk st' /\
     h_roots (hs_acc st') = spec_roots (firstn l (hseq ops)) /\
     get_header H st' = HOk (spec_header (firstn l (hseq ops))) /\
     get_header H (hrun H (map HAdd (firstn l (hseq ops)))) = HOk (spec_header (firstn l (hseq ops))) /\
     h_roots (hs_acc (hrun H (map HAdd (firstn l (hseq ops))))) = spec_roots (firstn l (hseq ops)))
  \/ collision.
Proof.
  intros F Hb Hl. destruct (hrun_inv ops F Hb) as [Hi|C]; [|right; exact C].
  assert (Hlen : length (hseq ops) <= adds ops).
  { clear. unfold hseq. assert (G : forall os xs, length (fold_left seq_step os xs) <= length xs + adds os).
    { induction os as [|o os IH]; intros xs; cbn [fold_left adds]; [lia|].
      specialize (IH (seq_step xs o)). destruct o as [h| | |l0]; cbn [seq_step] in *; try lia.
      - rewrite app_length in IH. cbn [length] in IH. lia.
      - destruct (Nat.leb_spec (N.to_nat l0) (length xs)); [rewrite firstn_length in IH|]; lia. }
    specialize (G ops []). cbn [length] in G. lia. }
  assert (Hb' : (N.of_nat (length (hseq ops)) < 2 ^ 63)%N) by lia.
  destruct (set_len_ok (hrun H ops) (hseq ops) l Hi Hb' Hl) as [(st' & E & Hi')|C]; [left|right; exact C].
  pose proof Hi as (_ & _ & Fx & _).
  destruct (header_of_adds (firstn l (hseq ops)) (Forall_firstn' _ _ _ Fx)) as [G1 G2].
  exists st'. split; [exact E|]. split; [apply Hi'|]. split; [now apply get_header_ok|]. auto.
Qed.

End Proofs.

(* ------------------------------------------------------------------ *)
(* the hypotheses are satisfiable *)
Definition H_example (x : bytes) : bytes := firstn 32 (x ++ repeat 0%N 32).

Example H_example_hash32 : hash32 H_example.
Proof. intro x. unfold H_example. rewrite firstn_length, app_length, repeat_length. lia. Qed.

Example history_example :
  let h (i : N) := repeat i 32 in
  let ops := map (fun i => HAdd (h (N.of_nat i))) (seq 0 20) ++ [HFinalize; HSetLen 17; HAdd (h 99%N); HGetHeader; HSetLen 3] in
  Forall hop_ok ops /\ (N.of_nat (adds ops) < 2 ^ 63)%N /\ length (hseq ops) = 3 /\
  nth_error (hseq ops) 2 = Some (h 2%N).
Proof.
  cbv zeta. split; [|split; [|split]].
  - apply Forall_app. split; [|repeat constructor].
    apply Forall_forall. intros o Ho. apply in_map_iff in Ho. destruct Ho as (i & <- & _).
    unfold hop_ok, h32. apply repeat_length.
  - reflexivity.
  - reflexivity.
  - reflexivity.
Qed.
