(* Proofs_Hexary.v — lemmas about Model_Hexary (icon/merkle/hexary).

   Specification: the layered 16-ary Merkle tree of a sequence of hashes
   ([layer1] hashes every chunk of 16, the last chunk may be shorter; a lone
   hash is its own root).  The accumulator's roots are the trailing incomplete
   chunks of the layers of complete blocks ([spec_roots]); its header is the
   layered root ([spec_root]); Prove walks the chunks on the key's path;
   SetLen rebuilds exactly [spec_roots] of the prefix from such a path.
   Nothing assumes that the hash is injective: statements that depend on what
   the bucket returns end in "... \/ collision". *)
From Coq Require Import ZifyBool ZifyN ZifyNat.
From Goloop Require Import lib.Bytes lib.BytesMap Model_Hexary.
Ltac Zify.zify_post_hook ::= Z.div_mod_to_equations.
Open Scope nat_scope.

Definition h32 (x : bytes) : Prop := length x = 32.
Definition hash32 (H : bytes -> bytes) : Prop := forall x, length (H x) = 32.

(* ------------------------------------------------------------------ *)
(* bytes <-> list of hashes                                             *)

Lemma concat_length32 (b : list bytes) : Forall h32 b -> length (concat b) = 32 * length b.
Proof.
  induction 1 as [|x b Hx Hb IH]; cbn [concat length]; [reflexivity|].
  rewrite app_length, IH. unfold h32 in Hx. lia.
Qed.

Lemma firstn_app_len {A} (a r : list A) n : length a = n -> firstn n (a ++ r) = a.
Proof.
  intro E. rewrite firstn_app, E, Nat.sub_diag. cbn [firstn]. rewrite app_nil_r.
  apply firstn_all2. lia.
Qed.

Lemma skipn_app_len {A} (a r : list A) n : length a = n -> skipn n (a ++ r) = r.
Proof.
  intro E. rewrite skipn_app, E, Nat.sub_diag. cbn [skipn]. rewrite skipn_all2 by lia. reflexivity.
Qed.

Lemma split32_concat : forall (b : list bytes) fuel, Forall h32 b -> length b <= fuel ->
  split32 fuel (concat b) = Some b.
Proof.
  induction b as [|x b IH]; intros fuel Hb Hf.
  - destruct fuel; reflexivity.
  - inversion Hb as [|? ? Hx Hb']; subst. unfold h32 in Hx.
    destruct fuel as [|f]; [cbn in Hf; lia|]. cbn [concat].
    destruct x as [|x0 xr]; [discriminate|]. cbn [app split32].
    change (x0 :: xr ++ concat b) with ((x0 :: xr) ++ concat b).
    rewrite app_length, Hx. unfold hash_len.
    destruct (Nat.ltb_spec (32 + length (concat b)) 32); [lia|].
    rewrite (skipn_app_len _ _ 32 Hx).
    rewrite (IH f Hb') by (cbn in Hf; lia).
    rewrite (firstn_app_len _ _ 32 Hx). reflexivity.
Qed.

Lemma split32_sound : forall fuel bs b, split32 fuel bs = Some b -> concat b = bs /\ Forall h32 b.
Proof.
  induction fuel as [|f IH]; intros bs b E.
  - destruct bs; cbn in E; [|discriminate]. inversion E; subst. split; [reflexivity|constructor].
  - destruct bs as [|x0 xr]; cbn [split32] in E.
    + inversion E; subst. split; [reflexivity|constructor].
    + set (zs := x0 :: xr) in *.
      destruct (Nat.ltb_spec (length zs) hash_len) as [|Hge]; [discriminate|].
      destruct (split32 f (skipn hash_len zs)) as [r|] eqn:Er; [|discriminate].
      assert (Eb : b = firstn hash_len zs :: r) by congruence. subst b. clear E.
      destruct (IH _ _ Er) as [Hc Hf]. split.
      * cbn [concat]. rewrite Hc. apply firstn_skipn.
      * constructor; auto. unfold h32. rewrite firstn_length. unfold hash_len in *. lia.
Qed.

Lemma node_of_bytes_concat (b : node) : Forall h32 b -> length b <= 16 ->
  node_of_bytes (concat b) = HOk b.
Proof.
  intros Hb Hl. unfold node_of_bytes. rewrite concat_length32 by assumption.
  unfold hash_len, max_children.
  destruct (Nat.ltb_spec (32 * 16) (32 * length b)); [lia|].
  rewrite split32_concat; auto.
Qed.

Lemma node_of_bytes_sound bs b : node_of_bytes bs = HOk b -> concat b = bs /\ Forall h32 b.
Proof.
  unfold node_of_bytes. destruct (Nat.ltb _ _); [discriminate|].
  destruct (split32 _ bs) as [r|] eqn:E; [|discriminate]. intro X; inversion X; subst.
  eapply split32_sound; eauto.
Qed.

(* ------------------------------------------------------------------ *)
(* chunks                                                               *)

Definition chunk_at (ys : list bytes) (q : nat) : list bytes := firstn 16 (skipn (16 * q) ys).
Definition nchunks (n : nat) : nat := (n + 15) / 16.
Definition rem16 (ys : list bytes) : list bytes := skipn (16 * (length ys / 16)) ys.

Arguments chunk_at : simpl never.
Arguments nchunks : simpl never.
Arguments rem16 : simpl never.

Lemma chunk_at_length ys q : length (chunk_at ys q) = Nat.min 16 (length ys - 16 * q).
Proof. unfold chunk_at. now rewrite firstn_length, skipn_length. Qed.

Lemma Forall_firstn' {A} (P : A -> Prop) : forall n l, Forall P l -> Forall P (firstn n l).
Proof. induction n; intros [|x l] F; cbn; try constructor; inversion F; subst; auto. Qed.

Lemma Forall_skipn' {A} (P : A -> Prop) : forall n l, Forall P l -> Forall P (skipn n l).
Proof. induction n; intros [|x l] F; cbn; auto. inversion F; subst; auto. Qed.

Lemma nth_error_skipn' {A} : forall n (l : list A) t, nth_error (skipn n l) t = nth_error l (n + t).
Proof. induction n; intros [|x l] t; cbn; auto. destruct t; reflexivity. Qed.

Lemma nth_error_firstn_lt {A} : forall n (l : list A) t, t < n -> nth_error (firstn n l) t = nth_error l t.
Proof.
  induction n; intros [|x l] t Ht; cbn; try lia; auto. destruct t; cbn; auto. apply IHn. lia.
Qed.

Lemma skipn_skipn' {A} : forall a b (l : list A), skipn a (skipn b l) = skipn (a + b) l.
Proof.
  intros a b. revert a. induction b; intros a l.
  - now rewrite Nat.add_0_r.
  - destruct l; [now rewrite !skipn_nil|]. rewrite Nat.add_succ_r. cbn. apply IHb.
Qed.

Lemma chunk_at_h32 ys q : Forall h32 ys -> Forall h32 (chunk_at ys q).
Proof. intro F. unfold chunk_at. now apply Forall_firstn', Forall_skipn'. Qed.

Lemma chunk_at_le16 ys q : length (chunk_at ys q) <= 16.
Proof. rewrite chunk_at_length. lia. Qed.

Lemma chunk_at_app ys zs q : 16 * q + 16 <= length ys -> chunk_at (ys ++ zs) q = chunk_at ys q.
Proof.
  intro Hq. unfold chunk_at. rewrite skipn_app, firstn_app, skipn_length.
  replace (16 - (length ys - 16 * q)) with 0 by lia. cbn [firstn]. now rewrite app_nil_r.
Qed.

Lemma rem16_length ys : length (rem16 ys) = length ys mod 16.
Proof. unfold rem16. rewrite skipn_length. lia. Qed.

Lemma chunk_at_last ys zs : length ys mod 16 + length zs <= 16 ->
  chunk_at (ys ++ zs) (length ys / 16) = rem16 ys ++ zs.
Proof.
  intro Hl. unfold chunk_at, rem16. rewrite skipn_app.
  replace (16 * (length ys / 16) - length ys) with 0 by lia. cbn [skipn].
  apply firstn_all2. rewrite app_length, skipn_length. lia.
Qed.

Lemma chunk_at_firstn ly a q : 16 * q + 16 <= a -> chunk_at (firstn a ly) q = chunk_at ly q.
Proof.
  intro Hq. unfold chunk_at. rewrite skipn_firstn_comm, firstn_firstn. f_equal. lia.
Qed.

Lemma nth_error_chunk_at ys q t : t < 16 -> nth_error (chunk_at ys q) t = nth_error ys (16 * q + t).
Proof. intro Ht. unfold chunk_at. now rewrite nth_error_firstn_lt, nth_error_skipn'. Qed.

Lemma nth_error_seq0 n q : q < n -> nth_error (seq 0 n) q = Some q.
Proof.
  intro Hq. rewrite (nth_error_nth' _ 0) by (now rewrite seq_length). now rewrite seq_nth.
Qed.

(* ------------------------------------------------------------------ *)
Section Proofs.
Variable H : bytes -> bytes.
Hypothesis H_len : hash32 H.

Definition collision : Prop := exists a b : bytes, a <> b /\ H a = H b.

Definition hc (c : list bytes) : bytes := H (concat c).

(* the next layer: hash of every chunk, the last one possibly short *)
Definition layer1 (ys : list bytes) : list bytes :=
  map (fun q => hc (chunk_at ys q)) (seq 0 (nchunks (length ys))).
(* ... of complete chunks only *)
Definition cl1 (ys : list bytes) : list bytes :=
  map (fun q => hc (chunk_at ys q)) (seq 0 (length ys / 16)).

Lemma layer1_length ys : length (layer1 ys) = nchunks (length ys).
Proof. unfold layer1. now rewrite map_length, seq_length. Qed.
Lemma cl1_length ys : length (cl1 ys) = length ys / 16.
Proof. unfold cl1. now rewrite map_length, seq_length. Qed.

Lemma layer1_h32 ys : Forall h32 (layer1 ys).
Proof. unfold layer1. apply Forall_forall. intros x Hx. apply in_map_iff in Hx. destruct Hx as (q & <- & _). apply H_len. Qed.
Lemma cl1_h32 ys : Forall h32 (cl1 ys).
Proof. unfold cl1. apply Forall_forall. intros x Hx. apply in_map_iff in Hx. destruct Hx as (q & <- & _). apply H_len. Qed.

Lemma nth_error_layer1 ys q : q < nchunks (length ys) ->
  nth_error (layer1 ys) q = Some (hc (chunk_at ys q)).
Proof. intro Hq. unfold layer1. erewrite map_nth_error; eauto using nth_error_seq0. Qed.

(* accumulator roots of a sequence: the trailing incomplete chunk of every
   layer of complete blocks *)
Fixpoint spec_roots_f (fuel : nat) (ys : list bytes) : list node :=
  match fuel with
  | O => []
  | S f => match ys with [] => [] | _ => rem16 ys :: spec_roots_f f (cl1 ys) end
  end.
Definition spec_roots (ys : list bytes) : list node := spec_roots_f (length ys) ys.

Lemma spec_roots_f_fuel : forall f ys, length ys <= f -> spec_roots_f f ys = spec_roots_f (length ys) ys.
Proof.
  induction f as [f IH] using lt_wf_ind. intros ys Hl.
  destruct ys as [|y ys']; [destruct f; reflexivity|].
  destruct f as [|f]; [cbn in Hl; lia|].
  set (zs := y :: ys') in *. assert (Lz : length zs = S (length ys')) by reflexivity.
  rewrite Lz. cbn [spec_roots_f]. f_equal.
  assert (Lc : length (cl1 zs) <= length ys') by (rewrite cl1_length; lia).
  rewrite (IH f) by lia. rewrite (IH (length ys')) by lia. reflexivity.
Qed.

Lemma spec_roots_nil : spec_roots [] = [].
Proof. reflexivity. Qed.

Lemma spec_roots_cons ys : ys <> [] -> spec_roots ys = rem16 ys :: spec_roots (cl1 ys).
Proof.
  intro Hn. destruct ys as [|y ys']; [congruence|].
  unfold spec_roots at 1. cbn [length spec_roots_f]. f_equal.
  unfold spec_roots. apply spec_roots_f_fuel. rewrite cl1_length. cbn [length]. lia.
Qed.

(* complete chunks of an extended sequence *)
Lemma cl1_snoc_same ys x : (length ys + 1) mod 16 <> 0 -> cl1 (ys ++ [x]) = cl1 ys.
Proof.
  intro Hm. unfold cl1. rewrite app_length. cbn [length].
  replace ((length ys + 1) / 16) with (length ys / 16) by lia.
  apply map_ext_in. intros q Hq. apply in_seq in Hq. f_equal. apply chunk_at_app. lia.
Qed.

Lemma cl1_snoc_carry ys x : (length ys + 1) mod 16 = 0 ->
  cl1 (ys ++ [x]) = cl1 ys ++ [hc (rem16 ys ++ [x])].
Proof.
  intro Hm. unfold cl1. rewrite app_length. cbn [length].
  replace ((length ys + 1) / 16) with (S (length ys / 16)) by lia.
  rewrite seq_S, map_app. cbn [map Nat.add]. f_equal.
  - apply map_ext_in. intros q Hq. apply in_seq in Hq. f_equal. apply chunk_at_app. lia.
  - f_equal. f_equal. apply chunk_at_last. cbn [length]. lia.
Qed.

Lemma rem16_snoc_same ys x : (length ys + 1) mod 16 <> 0 -> rem16 (ys ++ [x]) = rem16 ys ++ [x].
Proof.
  intro Hm. unfold rem16. rewrite app_length. cbn [length].
  replace ((length ys + 1) / 16) with (length ys / 16) by lia.
  rewrite skipn_app. replace (16 * (length ys / 16) - length ys) with 0 by lia. reflexivity.
Qed.

Lemma rem16_snoc_carry ys x : (length ys + 1) mod 16 = 0 -> rem16 (ys ++ [x]) = [].
Proof.
  intro Hm. unfold rem16. apply skipn_all2. rewrite app_length. cbn [length]. lia.
Qed.

Lemma rem16_h32 ys : Forall h32 ys -> Forall h32 (rem16 ys).
Proof. intro F. unfold rem16. now apply Forall_skipn'. Qed.

(* ------------------------------------------------------------------ *)
(* the bucket                                                           *)

Definition sound (m : bmap bytes) : Prop := forall k v, bm_get k m = Some v -> H v = k.
Definition ext (m m' : bmap bytes) : Prop := forall k v, bm_get k m = Some v -> bm_get k m' = Some v.

Lemma ext_refl m : ext m m. Proof. intros k v; auto. Qed.
Lemma ext_trans a b c : ext a b -> ext b c -> ext a c. Proof. intros X Y k v Hk; auto. Qed.
Lemma sound_empty : sound bm_empty.
Proof. intros k v. rewrite bm_get_empty. discriminate. Qed.

Lemma set_sound m v : sound m -> sound (bm_set (H v) v m).
Proof.
  intros Hs k v'. destruct (bytes_eqb (H v) k) eqn:E.
  - apply bytes_eqb_eq in E. subst k. rewrite bm_gss. congruence.
  - assert (H v <> k) by (intro X; rewrite X, bytes_eqb_refl in E; discriminate).
    rewrite bm_gso by assumption. apply Hs.
Qed.

Lemma set_ext m v : sound m -> ext m (bm_set (H v) v m) \/ collision.
Proof.
  intro Hs. destruct (bm_get (H v) m) as [v0|] eqn:G.
  - destruct (bytes_eqb v0 v) eqn:E.
    + apply bytes_eqb_eq in E. subst v0. left. intros k v' Hk.
      destruct (bytes_eqb (H v) k) eqn:E2.
      * apply bytes_eqb_eq in E2. subst k. rewrite bm_gss. congruence.
      * rewrite bm_gso; auto. intro X. rewrite X, bytes_eqb_refl in E2. discriminate.
    + right. exists v0, v. split.
      * intro X. subst. rewrite bytes_eqb_refl in E. discriminate.
      * now apply Hs.
  - left. intros k v' Hk.
    destruct (bytes_eqb (H v) k) eqn:E2.
    + apply bytes_eqb_eq in E2. subst k. congruence.
    + rewrite bm_gso; auto. intro X. rewrite X, bytes_eqb_refl in E2. discriminate.
Qed.

(* chunk q of ys is in the bucket under its hash *)
Definition chunk_stored (m : bmap bytes) (ys : list bytes) (q : nat) : Prop :=
  bm_get (hc (chunk_at ys q)) m = Some (concat (chunk_at ys q)).

(* all complete blocks of all levels are in the bucket (stored when they carry) *)
Fixpoint blocks_stored_f (fuel : nat) (m : bmap bytes) (ys : list bytes) : Prop :=
  match fuel with
  | O => True
  | S f => (forall q, q < length ys / 16 -> chunk_stored m ys q) /\ blocks_stored_f f m (cl1 ys)
  end.
Definition blocks_stored m ys := blocks_stored_f (S (length ys)) m ys.

Lemma blocks_stored_f_ext f : forall m m' ys, ext m m' -> blocks_stored_f f m ys -> blocks_stored_f f m' ys.
Proof.
  induction f; intros m m' ys He; cbn [blocks_stored_f]; auto. intros [A B]. split; eauto.
  intros q Hq. apply He. apply A. exact Hq.
Qed.

Lemma blocks_stored_f_fuel : forall f m ys, length ys < f -> (blocks_stored_f f m ys <-> blocks_stored m ys).
Proof.
  induction f as [f IH] using lt_wf_ind. intros m ys Hl. unfold blocks_stored.
  destruct f as [|f]; [lia|]. cbn [blocks_stored_f].
  destruct (Nat.eq_dec (length ys) 0) as [E0|E0].
  - (* nothing to store at any level *)
    assert (Z : forall g zs, length zs = 0 -> blocks_stored_f g m zs).
    { induction g; intros zs Hz; cbn [blocks_stored_f]; auto. split; [intros q Hq; rewrite Hz in Hq; cbn in Hq; lia|].
      apply IHg. rewrite cl1_length, Hz. reflexivity. }
    assert (Lc : length (cl1 ys) = 0) by (rewrite cl1_length, E0; reflexivity).
    split; intros [A _]; (split; [exact A|apply Z; exact Lc]).
  - assert (Lc : length (cl1 ys) < length ys) by (rewrite cl1_length; lia).
    split; intros [A B]; (split; [exact A|]).
    + apply (IH f) in B; [|lia|lia]. apply (IH (length ys)); [lia|lia|exact B].
    + apply (IH (length ys)) in B; [|lia|lia]. apply (IH f); [lia|lia|exact B].
Qed.

Lemma blocks_stored_unfold m ys :
  blocks_stored m ys <-> (forall q, q < length ys / 16 -> chunk_stored m ys q) /\ blocks_stored m (cl1 ys).
Proof.
  unfold blocks_stored at 1. cbn [blocks_stored_f].
  destruct (Nat.eq_dec (length ys) 0) as [E0|E0].
  - assert (Lc : length (cl1 ys) = 0) by (rewrite cl1_length, E0; reflexivity).
    rewrite E0. cbn [blocks_stored_f]. split.
    + intros [A _]. split; [exact A|]. unfold blocks_stored. rewrite Lc. cbn [blocks_stored_f].
      split; [|exact I]. intros q Hq. rewrite Lc in Hq. cbn in Hq. lia.
    + intros [A _]. split; [exact A|exact I].
  - rewrite (blocks_stored_f_fuel (length ys) m (cl1 ys)) by (rewrite cl1_length; lia). tauto.
Qed.

Lemma blocks_stored_ext m m' ys : ext m m' -> blocks_stored m ys -> blocks_stored m' ys.
Proof. apply blocks_stored_f_ext. Qed.

Lemma blocks_stored_short m ys : length ys < 16 -> blocks_stored m ys.
Proof.
  unfold blocks_stored. generalize (S (length ys)) as g. intros g. revert ys.
  induction g; intros ys Hl; cbn [blocks_stored_f]; auto. split.
  - intros q Hq. replace (length ys / 16) with 0 in Hq by lia. lia.
  - apply IHg. rewrite cl1_length. lia.
Qed.

(* ------------------------------------------------------------------ *)
(* Add                                                                  *)

Lemma node_add_ok (b : node) h : h32 h -> length b < 16 -> node_add b h = HOk (b ++ [h]).
Proof.
  intros Hh Hb. unfold node_add, node_full, hash_len, max_children. rewrite Hh. cbn [Nat.eqb negb].
  destruct (Nat.eqb_spec (length b) 16); [lia|reflexivity].
Qed.

Lemma add_at_ok : forall n ys x m, length ys = n -> Forall h32 ys -> h32 x -> sound m -> blocks_stored m ys ->
  (exists m', add_at H (spec_roots ys) x m = HOk (spec_roots (ys ++ [x]), m') /\
              sound m' /\ ext m m' /\ blocks_stored m' (ys ++ [x]))
  \/ collision.
Proof.
  induction n as [n IH] using lt_wf_ind. intros ys x m Hn Fy Hx Hs Hb.
  destruct ys as [|y ys'].
  - left. exists m. cbn [app]. rewrite spec_roots_nil. cbn [add_at].
    rewrite (node_add_ok [] x Hx) by (cbn; lia). split; [|split; [auto|split; [apply ext_refl|]]].
    + reflexivity.
    + apply blocks_stored_short. cbn. lia.
  - set (zs := y :: ys') in *. assert (Nz : zs <> []) by discriminate.
    rewrite (spec_roots_cons zs Nz). cbn [add_at].
    rewrite (node_add_ok (rem16 zs) x Hx) by (rewrite rem16_length; lia).
    unfold node_full, max_children. rewrite app_length, rem16_length. cbn [length].
    assert (Nz' : zs ++ [x] <> []) by (destruct zs; discriminate).
    apply blocks_stored_unfold in Hb. destruct Hb as [Hb0 Hb1].
    destruct (Nat.eqb_spec (length zs mod 16 + 1) 16) as [E16|E16].
    + (* the node is full: store it, carry its hash *)
      assert (Hm : (length zs + 1) mod 16 = 0) by lia.
      assert (Nr : rem16 zs ++ [x] <> []) by (destruct (rem16 zs); discriminate).
      unfold node_hash. destruct (rem16 zs ++ [x]) as [|r0 rr] eqn:Er; [congruence|]. rewrite <- Er.
      fold (hc (rem16 zs ++ [x])). unfold node_bytes.
      set (v := concat (rem16 zs ++ [x])). change (hc (rem16 zs ++ [x])) with (H v).
      destruct (set_ext m v Hs) as [X1|C]; [|right; exact C].
      destruct (IH (length (cl1 zs)) ltac:(rewrite cl1_length; subst n; lia) (cl1 zs) (H v) (bm_set (H v) v m)
                  eq_refl (cl1_h32 zs) (H_len v) (set_sound m v Hs) (blocks_stored_ext _ _ _ X1 Hb1))
        as [(m' & E & S' & X' & B')|C]; [left|right; exact C].
      exists m'. rewrite (spec_roots_cons _ Nz'), rem16_snoc_carry, cl1_snoc_carry by assumption.
      fold v. change (hc (rem16 zs ++ [x])) with (H v).
      match goal with |- context [add_at ?a ?b ?c ?d] =>
        replace (add_at a b c d) with (@HOk (list node * bmap bytes) (spec_roots (cl1 zs ++ [H v]), m'))
          by (symmetry; exact E) end.
      split; [reflexivity|]. split; [auto|]. split; [eauto using ext_trans|].
      apply blocks_stored_unfold. rewrite cl1_snoc_carry by assumption. split; [|exact B'].
      intros q Hq. rewrite app_length in Hq. cbn [length] in Hq.
      unfold chunk_stored. destruct (Nat.eq_dec q (length zs / 16)) as [->|Nq].
      * rewrite chunk_at_last by (cbn [length]; lia). apply X'. fold v. apply bm_gss.
      * rewrite chunk_at_app by lia. apply X', X1. apply Hb0. lia.
    + left. exists m. rewrite (spec_roots_cons _ Nz'), rem16_snoc_same, cl1_snoc_same by lia.
      split; [reflexivity|]. split; [auto|]. split; [apply ext_refl|].
      apply blocks_stored_unfold. rewrite cl1_snoc_same by lia. split; [|exact Hb1].
      intros q Hq. rewrite app_length in Hq. cbn [length] in Hq.
      unfold chunk_stored. rewrite chunk_at_app by lia. apply Hb0. lia.
Qed.

(* the roots alone: no assumption on the bucket, no collision case *)
Lemma add_at_roots : forall n ys x m, length ys = n -> h32 x ->
  exists m', add_at H (spec_roots ys) x m = HOk (spec_roots (ys ++ [x]), m').
Proof.
  induction n as [n IH] using lt_wf_ind. intros ys x m Hn Hx.
  destruct ys as [|y ys'].
  - exists m. cbn [app]. rewrite spec_roots_nil. cbn [add_at].
    rewrite (node_add_ok [] x Hx) by (cbn; lia). reflexivity.
  - set (zs := y :: ys') in *. assert (Nz : zs <> []) by discriminate.
    rewrite (spec_roots_cons zs Nz). cbn [add_at].
    rewrite (node_add_ok (rem16 zs) x Hx) by (rewrite rem16_length; lia).
    unfold node_full, max_children. rewrite app_length, rem16_length. cbn [length].
    assert (Nz' : zs ++ [x] <> []) by (destruct zs; discriminate).
    destruct (Nat.eqb_spec (length zs mod 16 + 1) 16) as [E16|E16].
    + assert (Hm : (length zs + 1) mod 16 = 0) by lia.
      unfold node_hash. destruct (rem16 zs ++ [x]) as [|r0 rr] eqn:Er; [destruct (rem16 zs); discriminate|].
      rewrite <- Er. fold (hc (rem16 zs ++ [x])). unfold node_bytes.
      set (v := concat (rem16 zs ++ [x])). change (hc (rem16 zs ++ [x])) with (H v).
      destruct (IH (length (cl1 zs)) ltac:(rewrite cl1_length; subst n; lia) (cl1 zs) (H v) (bm_set (H v) v m)
                  eq_refl (H_len v)) as (m' & E).
      exists m'. rewrite (spec_roots_cons _ Nz'), rem16_snoc_carry, cl1_snoc_carry by assumption.
      fold v. change (hc (rem16 zs ++ [x])) with (H v).
      match goal with |- context [add_at ?a ?b ?c ?d] =>
        replace (add_at a b c d) with (@HOk (list node * bmap bytes) (spec_roots (cl1 zs ++ [H v]), m'))
          by (symmetry; exact E) end.
      reflexivity.
    + exists m. rewrite (spec_roots_cons _ Nz'), rem16_snoc_same, cl1_snoc_same by lia. reflexivity.
Qed.

(* ------------------------------------------------------------------ *)
(* layers, the root, the stored tree                                    *)

Fixpoint layer_at (ys : list bytes) (n : nat) : list bytes :=
  match n with O => ys | S n' => layer_at (layer1 ys) n' end.

Fixpoint top_f (fuel : nat) (ys : list bytes) : option bytes :=
  match fuel with
  | O => None
  | S f => match ys with [] => None | [y] => Some y | _ => top_f f (layer1 ys) end
  end.
Definition spec_root (ys : list bytes) : option bytes := top_f (S (length ys)) ys.
Definition spec_header (xs : list bytes) : header := mkHeader (spec_root xs) (N.of_nat (length xs)).

Lemma nchunks_lt n : 2 <= n -> nchunks n < n.
Proof. unfold nchunks. lia. Qed.

Lemma top_f_fuel : forall f ys, length ys < f -> top_f f ys = spec_root ys.
Proof.
  induction f as [f IH] using lt_wf_ind. intros ys Hl. unfold spec_root.
  destruct f as [|f]; [lia|]. cbn [top_f].
  destruct ys as [|y [|y2 ys']]; try reflexivity.
  set (zs := y :: y2 :: ys') in *.
  assert (L2 : 2 <= length zs) by (subst zs; cbn [length]; lia).
  pose proof (nchunks_lt _ L2) as Hc. rewrite <- layer1_length in Hc.
  rewrite (IH f) by lia. rewrite (IH (length zs)) by lia. reflexivity.
Qed.

Lemma spec_root_nil : spec_root [] = None. Proof. reflexivity. Qed.
Lemma spec_root_one y : spec_root [y] = Some y. Proof. reflexivity. Qed.
Lemma spec_root_step ys : 2 <= length ys -> spec_root ys = spec_root (layer1 ys).
Proof.
  intro L2. unfold spec_root at 1. cbn [top_f].
  destruct ys as [|y [|y2 ys']]; cbn [length] in L2; try lia.
  apply top_f_fuel. rewrite layer1_length. apply nchunks_lt. cbn [length]. lia.
Qed.

Definition tree_stored (m : bmap bytes) (ys : list bytes) : Prop :=
  forall n q, 2 <= length (layer_at ys n) -> q < nchunks (length (layer_at ys n)) ->
              chunk_stored m (layer_at ys n) q.

Lemma tree_stored_unfold m ys :
  tree_stored m ys <->
  ((2 <= length ys -> forall q, q < nchunks (length ys) -> chunk_stored m ys q) /\ tree_stored m (layer1 ys)).
Proof.
  unfold tree_stored. split.
  - intro T. split; [intros L q Hq; exact (T 0 q L Hq)|intros n q; exact (T (S n) q)].
  - intros [A B] [|n] q; cbn [layer_at]; [auto|apply B].
Qed.

Lemma layer_at_small ys : length ys <= 1 -> forall n, length (layer_at ys n) <= 1.
Proof.
  intros Hl n. revert ys Hl. induction n; intros ys Hl; cbn [layer_at]; auto.
  apply IHn. rewrite layer1_length. unfold nchunks. lia.
Qed.

Lemma tree_stored_small m ys : length ys <= 1 -> tree_stored m ys.
Proof. intros Hl n q L. pose proof (layer_at_small ys Hl n). lia. Qed.

Lemma tree_stored_ext m m' ys : ext m m' -> tree_stored m ys -> tree_stored m' ys.
Proof. intros He T n q L Hq. apply He. apply T; auto. Qed.

Lemma layer1_single ws : 1 <= length ws <= 16 -> layer1 ws = [hc ws].
Proof.
  intro Hl. unfold layer1. replace (nchunks (length ws)) with 1 by (unfold nchunks; lia).
  cbn [seq map]. f_equal. f_equal. unfold chunk_at. cbn [Nat.mul skipn]. apply firstn_all2. lia.
Qed.

Lemma layer1_full zs : length zs mod 16 = 0 -> layer1 zs = cl1 zs.
Proof.
  intro Hm. unfold layer1, cl1. replace (nchunks (length zs)) with (length zs / 16) by (unfold nchunks; lia).
  reflexivity.
Qed.

Lemma layer1_partial zs o : 1 <= length zs mod 16 + length o <= 16 ->
  layer1 (zs ++ o) = cl1 zs ++ [hc (rem16 zs ++ o)].
Proof.
  intro Hl. unfold layer1, cl1. rewrite app_length.
  replace (nchunks (length zs + length o)) with (S (length zs / 16)) by (unfold nchunks; lia).
  rewrite seq_S, map_app. cbn [map Nat.add]. f_equal.
  - apply map_ext_in. intros q Hq. apply in_seq in Hq. f_equal. apply chunk_at_app. lia.
  - f_equal. f_equal. apply chunk_at_last. lia.
Qed.

Definition olist (c : option bytes) : list bytes := match c with Some x => [x] | None => [] end.

Lemma spec_roots_cl1_nil zs : length zs < 16 -> spec_roots (cl1 zs) = [].
Proof.
  intro Hl. assert (E : cl1 zs = []).
  { apply length_zero_iff_nil. rewrite cl1_length. lia. }
  now rewrite E.
Qed.

Lemma rem16_short zs : length zs < 16 -> rem16 zs = zs.
Proof. intro Hl. unfold rem16. replace (length zs / 16) with 0 by lia. reflexivity. Qed.

(* GetMerkleHeader / Finalize on the roots of ys with a carry-in c:
   the layered root of ys ++ [c]; Finalize leaves the whole tree in the bucket *)
Lemma carry_loop_ok : forall n ys c m store,
  length ys = n -> Forall h32 ys -> Forall h32 (olist c) ->
  exists m', carry_loop H store (spec_roots ys) c m = HOk (spec_root (ys ++ olist c), m') /\
    (store = false -> m' = m) /\
    (store = true -> sound m -> blocks_stored m ys ->
       (sound m' /\ ext m m' /\ tree_stored m' (ys ++ olist c)) \/ collision).
Proof.
  induction n as [n IH] using lt_wf_ind. intros ys c m store Hn Fy Fc.
  destruct ys as [|y ys'].
  - exists m. rewrite spec_roots_nil. cbn [carry_loop app].
    split; [destruct c; reflexivity|]. split; [auto|]. intros _ Hs _. left.
    split; [auto|]. split; [apply ext_refl|]. apply tree_stored_small. destruct c; cbn; lia.
  - set (zs := y :: ys') in *. assert (Nz : zs <> []) by discriminate.
    rewrite (spec_roots_cons zs Nz). cbn [carry_loop].
    set (r' := rem16 zs ++ olist c).
    assert (Er' : carry_in (rem16 zs) c = HOk r').
    { subst r'. unfold carry_in. destruct c as [c0|]; cbn [olist].
      - inversion Fc; subst. apply node_add_ok; auto. rewrite rem16_length. lia.
      - now rewrite app_nil_r. }
    rewrite Er'.
    assert (Lr : length r' = length zs mod 16 + length (olist c))
      by (subst r'; now rewrite app_length, rem16_length).
    assert (Lc : length (olist c) <= 1) by (destruct c; cbn; lia).
    assert (Fr : Forall h32 r') by (subst r'; apply Forall_app; split; auto using rem16_h32).
    destruct (Nat.lt_ge_cases (length zs) 16) as [Hsh|Hlg].
    + (* the last root *)
      rewrite (spec_roots_cl1_nil zs Hsh).
      assert (Ers : r' = zs ++ olist c) by (subst r'; now rewrite rem16_short).
      rewrite <- Ers. unfold node_len.
      destruct (Nat.eqb_spec (length r') 1) as [E1|E1].
      * exists m. destruct r' as [|w [|w2 r2]]; cbn [length] in E1; try lia.
        cbn [node_get nth_error]. rewrite spec_root_one.
        split; [reflexivity|]. split; [auto|]. intros _ Hs _. left.
        split; [auto|]. split; [apply ext_refl|]. apply tree_stored_small. cbn; lia.
      * assert (L2 : 2 <= length r' <= 16).
        { split; [|rewrite Lr; lia]. rewrite Ers, app_length. subst zs. cbn [length]. cbn [length] in E1.
          rewrite Ers, app_length in E1. cbn [length] in E1. lia. }
        assert (Eh : node_hash H r' = Some (hc r')).
        { unfold node_hash. destruct r'; [cbn in L2; lia|reflexivity]. }
        rewrite Eh. rewrite (spec_root_step r') by lia. rewrite (layer1_single r') by lia. rewrite spec_root_one.
        eexists. split; [reflexivity|]. split; [intros ->; reflexivity|].
        intros -> Hs _. unfold node_bytes.
        destruct (set_ext m (concat r') Hs) as [X|C]; [left|right; exact C].
        split; [apply set_sound; auto|]. split; [exact X|].
        apply tree_stored_unfold. split.
        -- intros _ q Hq. replace (nchunks (length r')) with 1 in Hq by (unfold nchunks; lia).
           assert (q = 0) by lia. subst q. unfold chunk_stored.
           replace (chunk_at r' 0) with r' by (unfold chunk_at; cbn [Nat.mul skipn]; symmetry; apply firstn_all2; lia).
           apply bm_gss.
        -- rewrite (layer1_single r') by lia. apply tree_stored_small. cbn; lia.
    + (* a higher root follows *)
      assert (Nc : cl1 zs <> []).
      { intro E. apply (f_equal (@length _)) in E. rewrite cl1_length in E.
        change (@length bytes []) with 0 in E. lia. }
      rewrite (spec_roots_cons _ Nc).
      assert (Lcl : length (cl1 zs) < n) by (rewrite cl1_length; subst n; lia).
      destruct r' as [|w r2] eqn:Erw.
      * (* nothing at this level *)
        assert (Hm0 : length zs mod 16 = 0) by (cbn [length] in Lr; lia).
        assert (Ec : c = None) by (destruct c; cbn [olist length] in Lr; [lia|reflexivity]).
        subst c. cbn [node_hash olist] in *.
        destruct (IH _ Lcl (cl1 zs) None m store eq_refl (cl1_h32 zs) Fc) as (m' & E & P0 & P1).
        rewrite <- (spec_roots_cons _ Nc). rewrite E. exists m'. cbn [olist] in *. rewrite !app_nil_r in *.
        rewrite (spec_root_step zs) by lia. rewrite (layer1_full zs Hm0).
        split; [reflexivity|]. split; [auto|]. intros St Hs Hb.
        apply blocks_stored_unfold in Hb. destruct Hb as [Hb0 Hb1].
        destruct (P1 St Hs Hb1) as [(S' & X' & T')|C]; [left|right; exact C].
        split; [auto|]. split; [auto|]. apply tree_stored_unfold. split.
        -- intros _ q Hq. replace (nchunks (length zs)) with (length zs / 16) in Hq by (unfold nchunks; lia).
           apply X'. apply Hb0. exact Hq.
        -- rewrite (layer1_full zs Hm0). exact T'.
      * rewrite <- Erw in *. clear Erw.
        assert (Lr1 : 1 <= length r' <= 16).
        { split; [rewrite Lr in *; destruct r'; [discriminate|cbn; lia]|rewrite Lr; lia]. }
        assert (Eh : node_hash H r' = Some (hc r')).
        { unfold node_hash. destruct r'; [cbn in Lr1; lia|reflexivity]. }
        rewrite Eh. unfold node_bytes.
        set (m1 := if store then bm_set (hc r') (concat r') m else m).
        assert (Fc1 : Forall h32 (olist (Some (hc r')))) by (constructor; [apply H_len|constructor]).
        destruct (IH _ Lcl (cl1 zs) (Some (hc r')) m1 store eq_refl (cl1_h32 zs) Fc1) as (m' & E & P0 & P1).
        rewrite <- (spec_roots_cons _ Nc). rewrite E. exists m'. cbn [olist] in *.
        assert (El : layer1 (zs ++ olist c) = cl1 zs ++ [hc r']).
        { subst r'. apply layer1_partial. rewrite <- Lr. exact Lr1. }
        rewrite (spec_root_step (zs ++ olist c)) by (rewrite app_length; lia). rewrite El.
        split; [reflexivity|]. split; [intros ->; subst m1; auto|].
        intros -> Hs Hb. subst m1.
        apply blocks_stored_unfold in Hb. destruct Hb as [Hb0 Hb1].
        destruct (set_ext m (concat r') Hs) as [X1|C]; [|right; exact C].
        fold (hc r') in X1.
        destruct (P1 eq_refl (set_sound m _ Hs) (blocks_stored_ext _ _ _ X1 Hb1)) as [(S' & X' & T')|C];
          [left|right; exact C].
        split; [auto|]. split; [eauto using ext_trans|]. apply tree_stored_unfold. split.
        -- intros _ q Hq. rewrite app_length in Hq.
           replace (nchunks (length zs + length (olist c))) with (S (length zs / 16)) in Hq by (unfold nchunks; lia).
           unfold chunk_stored. destruct (Nat.eq_dec q (length zs / 16)) as [->|Nq].
           ++ rewrite chunk_at_last by lia. fold r'. apply X'. apply bm_gss.
           ++ rewrite chunk_at_app by lia. apply X', X1. apply Hb0. lia.
        -- rewrite El. exact T'.
Qed.

End Proofs.
