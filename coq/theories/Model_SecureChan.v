(* Model_SecureChan.v - network/secure.go: SecureAead.Write / Read / increaseNonce,
   NewSecureConn (choice of the direction secrets), secureKey.setPeerPublicKey
   (isLower) and secureKey.hkdf (which HKDF block becomes which secret).
   Executable definitions only; proofs are in Proofs_SecureChan.v.

   The AEAD (seal/open), the ECDH agreement and the HKDF are never modelled
   numerically: they are Section variables.  The wire is a byte queue. *)
From Goloop Require Import lib.Bytes.
Open Scope N_scope.

(* ------------------------------------------------------------------ *)
(* constants of secure.go                                               *)
Definition frame_size : nat := 1024.     (* secureConnFrameSize *)
(* secureConnHeaderSize = 4: two length bytes (big endian) and two bytes that
   the writer leaves zero and the reader ignores *)

(* ------------------------------------------------------------------ *)
(* increaseNonce: for i := last .. 0 { nonce[i]++; if nonce[i] != 0 return }
   written on the reversed counter (least significant byte first) *)
Fixpoint inc_rev (l : bytes) : bytes :=
  match l with
  | [] => []
  | b :: r => let b' := (b + 1) mod 256 in
              if b' =? 0 then 0 :: inc_rev r else b' :: r
  end.
Definition inc_nonce (n : bytes) : bytes := rev (inc_rev (rev n)).

Fixpoint iter_inc (k : nat) (n : bytes) : bytes :=
  match k with O => n | S k' => iter_inc k' (inc_nonce n) end.

(* ------------------------------------------------------------------ *)
(* Write: `for wn > n { cn := copy(frame[:1024], b[n:]) ... }`          *)
Fixpoint chunks (fuel : nat) (b : bytes) : list bytes :=
  match fuel with
  | O => []
  | S f => match b with
           | [] => []
           | _ => firstn frame_size b :: chunks f (skipn frame_size b)
           end
  end.
Definition split_frames (b : bytes) : list bytes := chunks (length b) b.

(* binary.BigEndian.PutUint16(sealed, uint16(cn)); bytes 2,3 stay zero *)
Definition hdr (len : nat) : bytes :=
  let v := N.of_nat len mod 65536 in [v / 256; v mod 256; 0; 0].

Inductive rerr := EEof | EShort | EAuth | EBlock.
(* EEof   : io.EOF            (the wire is closed and no byte was available)
   EShort : io.ErrUnexpectedEOF (closed in the middle of a header or body)
   EAuth  : the AEAD refused the sealed bytes
   EBlock : the wire is empty / too short and still open: the real Read waits;
            the harness pipe reports it as a distinguished error *)

(* what one Read call returns: n, the bytes copied into the caller's buffer, err *)
Record rres := { r_n : N; r_data : bytes; r_err : option rerr }.

(* variants of SecureAead.Read: the current code and the two earlier ones that
   the property refutes (kept to state the refutations) *)
Inductive variant :=
| VCur       (* current tree (after 735c6b7 and 089424b) *)
| VErrN      (* 735c6b7 only: n = header length is returned together with an error *)
| VPreFix.   (* before 735c6b7: no pending buffer, n = frame length whatever len(b) *)

Record rstate := { rs_nonce : bytes; rs_pending : bytes }.

(* result of taking one frame off the wire with io.ReadFull *)
Inductive parse :=
| PNone                                   (* no byte available *)
| PShortHdr                               (* 1..3 bytes *)
| PShortBody (n : N) (none : bool)        (* header, then fewer than n+overhead bytes (none: zero bytes) *)
| PFrame (n : N) (sealed rest : bytes).

Section AEAD.
  Variable seal : bytes -> bytes -> bytes -> bytes.          (* key nonce plaintext *)
  Variable open : bytes -> bytes -> bytes -> option bytes.   (* key nonce sealed *)
  Variable overhead : nat.                                   (* aead.Overhead() *)

  (* ---------------- writer ---------------- *)
  (* one frame on the wire: header ++ Seal(nonce, frame[:cn]); then increaseNonce *)
  Fixpoint seal_frames (key nonce : bytes) (ps : list bytes) : list bytes * bytes :=
    match ps with
    | [] => ([], nonce)
    | p :: r => let (fs, n') := seal_frames key (inc_nonce nonce) r in
                ((hdr (length p) ++ seal key nonce p) :: fs, n')
    end.

  (* SecureAead.Write b: the conn.Write calls (one per frame) and the new nonce;
     it returns len(b) *)
  Definition write (key nonce b : bytes) : list bytes * bytes :=
    seal_frames key nonce (split_frames b).

  (* a sequence of Write calls: the bytes put on the wire and the new nonce *)
  Fixpoint write_all (key nonce : bytes) (ws : list bytes) : bytes * bytes :=
    match ws with
    | [] => ([], nonce)
    | b :: r => let (fs, n1) := write key nonce b in
                let (w, n2) := write_all key n1 r in (concat fs ++ w, n2)
    end.

  (* ---------------- reader ---------------- *)
  Definition parse_frame (w : bytes) : parse :=
    match w with
    | [] => PNone
    | a :: b :: _ :: _ :: w1 =>
        let n := a * 256 + b in
        let need := (N.to_nat n + overhead)%nat in
        if (length w1 <? need)%nat then PShortBody n (Nat.eqb (length w1) 0)
        else PFrame n (firstn need w1) (skipn need w1)
    | _ => PShortHdr
    end.

  Definition mk_res (n : N) (d : bytes) (e : option rerr) : rres :=
    {| r_n := n; r_data := d; r_err := e |}.

  (* SecureAead.Read with a caller buffer of `size` bytes, the wire `w`
     (closed = the writer side closed it).  Returns result, new state, rest of wire. *)
  Definition read_v (v : variant) (key : bytes) (st : rstate) (w : bytes) (closed : bool) (size : nat)
    : rres * rstate * bytes :=
    let err_n (n : N) := match v with VCur => 0 | _ => n end in
    match v, rs_pending st with
    | VPreFix, _ | _, [] =>
        match parse_frame w with
        | PNone => (mk_res 0 [] (Some (if closed then EEof else EBlock)), st, w)
        | PShortHdr => (mk_res 0 [] (Some (if closed then EShort else EBlock)), st, [])
        | PShortBody n none =>
            (mk_res (err_n n) [] (Some (if closed then (if none then EEof else EShort) else EBlock)), st, [])
        | PFrame n sealed rest =>
            match open key (rs_nonce st) sealed with
            | None => (mk_res (err_n n) [] (Some EAuth), st, rest)
            | Some plain =>
                let d := firstn size plain in
                match v with
                | VPreFix =>   (* copy(b, frame[:n]); return n *)
                    (mk_res n d None, {| rs_nonce := inc_nonce (rs_nonce st); rs_pending := [] |}, rest)
                | _ =>
                    (mk_res (N.of_nat (length d)) d None,
                     {| rs_nonce := inc_nonce (rs_nonce st); rs_pending := skipn (length d) plain |}, rest)
                end
            end
        end
    | _, pend =>      (* n = copy(b, pending); pending = pending[n:] *)
        let d := firstn size pend in
        (mk_res (N.of_nat (length d)) d None,
         {| rs_nonce := rs_nonce st; rs_pending := skipn (length d) pend |}, w)
    end.

  Definition read := read_v VCur.

  (* a sequence of Read calls on a fixed wire *)
  Fixpoint read_all_v (v : variant) (key : bytes) (st : rstate) (w : bytes) (closed : bool) (sizes : list nat)
    : list rres :=
    match sizes with
    | [] => []
    | s :: r => let '(res, st', w') := read_v v key st w closed s in
                res :: read_all_v v key st' w' closed r
    end.
  Definition read_all := read_all_v VCur.

  (* the consumer of the connection (Peer.receiveRoutine) closes at the first
     error that is not "would block": reads after that are not made *)
  Definition hard_err (r : rres) : bool :=
    match r_err r with Some EBlock | None => false | Some _ => true end.
  Fixpoint read_all_stop (key : bytes) (st : rstate) (w : bytes) (closed : bool) (sizes : list nat)
    : list rres :=
    match sizes with
    | [] => []
    | s :: r => let '(res, st', w') := read key st w closed s in
                if hard_err res then [res] else res :: read_all_stop key st' w' closed r
    end.

  Definition delivered (rs : list rres) : bytes := concat (map r_data rs).

  (* ---------------- one direction of a connection, interleaved ---------------- *)
  Record chan := { c_key : bytes; c_wnonce : bytes; c_wire : bytes; c_closed : bool; c_rst : rstate }.
  Inductive op := OWrite (b : bytes) | ORead (size : nat) | OClose.
  Inductive out := OutW (n : nat) | OutWClosed | OutR (r : rres) | OutC.

  Definition step (c : chan) (o : op) : chan * out :=
    match o with
    | OWrite b =>
        if c_closed c then (c, OutWClosed) else
        let (fs, n') := write (c_key c) (c_wnonce c) b in
        ({| c_key := c_key c; c_wnonce := n'; c_wire := c_wire c ++ concat fs;
            c_closed := false; c_rst := c_rst c |}, OutW (length b))
    | ORead size =>
        let '(res, st', w') := read (c_key c) (c_rst c) (c_wire c) (c_closed c) size in
        ({| c_key := c_key c; c_wnonce := c_wnonce c; c_wire := w';
            c_closed := c_closed c; c_rst := st' |}, OutR res)
    | OClose =>
        ({| c_key := c_key c; c_wnonce := c_wnonce c; c_wire := c_wire c;
            c_closed := true; c_rst := c_rst c |}, OutC)
    end.

  Fixpoint run (c : chan) (ops : list op) : list out * chan :=
    match ops with
    | [] => ([], c)
    | o :: r => let (c', x) := step c o in
                let (xs, c'') := run c' r in (x :: xs, c'')
    end.

  Definition out_data (x : out) : bytes := match x with OutR r => r_data r | _ => [] end.
  Definition op_written (closed_before : bool) (o : op) : bytes :=
    match o with OWrite b => if closed_before then [] else b | _ => [] end.
  (* bytes accepted by Write calls (those made before OClose) *)
  Fixpoint written (closed : bool) (ops : list op) : bytes :=
    match ops with
    | [] => []
    | OClose :: r => written true r
    | o :: r => op_written closed o ++ written closed r
    end.

  Definition chan_init (key nonce : bytes) : chan :=
    {| c_key := key; c_wnonce := nonce; c_wire := []; c_closed := false;
       c_rst := {| rs_nonce := nonce; rs_pending := [] |} |}.
End AEAD.

(* ------------------------------------------------------------------ *)
(* key setup: secureKey.setPeerPublicKey, secureKey.hkdf, NewSecureConn *)

(* an elliptic-curve public key as the code compares it: big.Int X, Y *)
Record pubkey := { pk_x : N; pk_y : N }.

(* setPeerPublicKey on a fresh secureKey (isLower starts false):
     xc := pX.Cmp(X); yc := pY.Cmp(Y)
     xc > 0 -> true | xc == 0 -> (yc > 0 -> true | yc == 0 -> defaultLower) *)
Definition is_lower (mine peer : pubkey) (default_lower : bool) : bool :=
  if pk_x mine <? pk_x peer then true
  else if pk_x peer =? pk_x mine then
    (if pk_y mine <? pk_y peer then true
     else if pk_y peer =? pk_y mine then default_lower else false)
  else false.

Inductive suite := SuiteNone | SuiteChaCha | SuiteAes128 | SuiteAes256.
Definition secret_len (s : suite) : nat :=
  match s with SuiteAes128 => 16%nat | _ => 32%nat end.

Section KEYS.
  Variable priv : Type.
  Variable shared : Type.
  Variable pub_of : priv -> pubkey.
  Variable ecdh : priv -> pubkey -> shared.         (* x coordinate of d * P, left-padded *)
  Variable kdf : shared -> nat -> nat -> bytes.     (* kdf z len i = i-th block of `len` bytes of the HKDF stream *)

  (* the state secureKey.setup leaves behind *)
  Record keys := { k_lower : bool; k_secret : list bytes; k_extra : bytes }.

  (* setup(sa, peerPublicKey, defaultLower, numOfSecret); peer = None when
     elliptic.Unmarshal refuses the bytes.  hkdf: secret[i] = block i for
     i < numOfSecret, extra = block numOfSecret *)
  Definition setup (d : priv) (peer : option pubkey) (default_lower : bool) (sa : suite) (num : nat)
    : option keys :=
    match peer with
    | None => None
    | Some p =>
        let z := ecdh d p in
        let len := secret_len sa in
        Some {| k_lower := is_lower (pub_of d) p default_lower;
                k_secret := map (kdf z len) (seq 0 num);
                k_extra := kdf z len num |}
    end.

  (* NewSecureConn: (in, out) secrets; None = error *)
  Definition conn_secrets (k : keys) (sa : suite) : option (bytes * bytes) :=
    match sa with
    | SuiteNone => None                       (* newSecureAead: not supported *)
    | _ =>
      match k_secret k with
      | [] => None
      | [s0] => Some (s0, s0)
      | s0 :: s1 :: _ => if k_lower k then Some (s0, s1) else Some (s1, s0)
      end
    end.
End KEYS.

(* ------------------------------------------------------------------ *)
(* A concrete stand-in for the AEAD, used only to RUN the model (Run_C31.v,
   the refutation witnesses and the examples): the sealed form is the
   plaintext followed by `oh` tag bytes: eight taken from a sum over key and
   plaintext, the others from the low bytes of the nonce.
   No theorem depends on it. *)
Definition toy_mix (k p : bytes) : N :=
  fold_left (fun acc b => acc + b + 8) p (fold_left (fun acc b => acc + 3 * b + 1) k 23130).
Definition toy_tag (oh : nat) (k n p : bytes) : bytes :=
  let h := toy_mix k p in
  let rn := rev n in
  map (fun i => if (i <? 8)%nat then (h / 2 ^ N.of_nat i) mod 256
                else N.lxor (nth (i - 8) rn 0) 165) (seq 0 oh).
Definition toy_seal (oh : nat) (k n p : bytes) : bytes := p ++ toy_tag oh k n p.
Definition toy_open (oh : nat) (k n c : bytes) : option bytes :=
  let p := firstn (length c - oh) c in
  if (oh <=? length c)%nat && bytes_eqb c (toy_seal oh k n p) then Some p else None.

(* an AEAD given by the table of ciphertexts that exist (nonce, plaintext, sealed) *)
Definition tbl_open (tbl : list (bytes * bytes * bytes)) (k n c : bytes) : option bytes :=
  match find (fun t => bytes_eqb n (fst (fst t)) && bytes_eqb c (snd t)) tbl with
  | Some t => Some (snd (fst t))
  | None => None
  end.
