(* Crc32c.v — executable CRC-32C (Castagnoli), reflected, table-free bitwise
   version over N.  Used only to RUN models that take the checksum as a Section
   variable (Model_Wal); no theorem depends on it.  Validated against Go's
   crc32.Checksum(_, crc32.MakeTable(crc32.Castagnoli)) by the C03 harness
   (cases CCrc).  Style: stdlib only, no proofs. *)
From Goloop Require Import lib.Bytes.
Open Scope N_scope.

Definition crc32c_poly : N := 2197175160.   (* 0x82F63B78, reflected polynomial *)
Definition crc32c_mask : N := 4294967295.   (* 0xFFFFFFFF *)

Definition crc32c_bit (c : N) : N :=
  if N.odd c then N.lxor (N.div2 c) crc32c_poly else N.div2 c.

Definition crc32c_byte (c b : N) : N :=
  let c := N.lxor c (b mod 256) in
  crc32c_bit (crc32c_bit (crc32c_bit (crc32c_bit
  (crc32c_bit (crc32c_bit (crc32c_bit (crc32c_bit c))))))).

Definition crc32c_update (c : N) (bs : bytes) : N := fold_left crc32c_byte bs c.

Definition crc32c (bs : bytes) : N :=
  N.lxor (crc32c_update crc32c_mask bs) crc32c_mask.
