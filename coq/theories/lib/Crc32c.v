(* Crc32c.v — executable CRC-32C (Castagnoli, reflected) over N.  Used only to
   RUN models that take the checksum as a Section variable (Model_Wal); no
   theorem depends on it.  Validated against Go's
   crc32.Checksum(_, crc32.MakeTable(crc32.Castagnoli)) by the C03 harness
   (cases CCrc) on every run.
     crc32c_ref : table-free bitwise version (the definition);
     crc32c     : the same function driven by a 256-entry table stored as a
                  binary tree over the bits of the index (about ten times faster
                  under vm_compute).
   Style: stdlib only, no proofs (one computed sanity check at the end). *)
From Goloop Require Import lib.Bytes.
Open Scope N_scope.

Definition crc32c_poly : N := 2197175160.   (* 0x82F63B78, reflected polynomial *)
Definition crc32c_mask : N := 4294967295.   (* 0xFFFFFFFF *)

Definition crc32c_bit (c : N) : N :=
  if N.odd c then N.lxor (N.div2 c) crc32c_poly else N.div2 c.

Definition crc32c_bit8 (c : N) : N :=
  crc32c_bit (crc32c_bit (crc32c_bit (crc32c_bit
  (crc32c_bit (crc32c_bit (crc32c_bit (crc32c_bit c))))))).

Definition crc32c_byte_ref (c b : N) : N := crc32c_bit8 (N.lxor c (N.land b 255)).

Definition crc32c_ref (bs : bytes) : N :=
  N.lxor (fold_left crc32c_byte_ref bs crc32c_mask) crc32c_mask.

(* ---- table version: T[x] = crc32c_bit8 x for x < 256, as a tree indexed by
        the bits of x, least significant first ---- *)
Inductive crc_tree := CLeaf (v : N) | CNode (zero one : crc_tree).

Fixpoint crc_build (depth : nat) (acc w : N) : crc_tree :=
  match depth with
  | O => CLeaf (crc32c_bit8 acc)
  | S d => CNode (crc_build d acc (2 * w)) (crc_build d (acc + w) (2 * w))
  end.

Definition crc32c_table : crc_tree := Eval vm_compute in crc_build 8 0 1.

Fixpoint crc_look0 (t : crc_tree) : N :=
  match t with CLeaf v => v | CNode z _ => crc_look0 z end.

(* returns (T[low 8 bits of p], p >> 8) *)
Fixpoint crc_lookp (t : crc_tree) (p : positive) : N * N :=
  match t with
  | CLeaf v => (v, Npos p)
  | CNode z o =>
      match p with
      | xO q => crc_lookp z q
      | xI q => crc_lookp o q
      | xH => (crc_look0 o, 0)
      end
  end.

Definition crc_look (t : crc_tree) (x : N) : N * N :=
  match x with
  | N0 => (crc_look0 t, 0)
  | Npos p => crc_lookp t p
  end.

Definition crc32c_byte (c b : N) : N :=
  let '(v, rest) := crc_look crc32c_table (N.lxor c (N.land b 255)) in N.lxor v rest.

Definition crc32c (bs : bytes) : N :=
  N.lxor (fold_left crc32c_byte bs crc32c_mask) crc32c_mask.

(* "123456789" -> 0xE3069283, both versions *)
Example crc32c_check_value :
  crc32c [49;50;51;52;53;54;55;56;57] = 3808858755 /\
  crc32c_ref [49;50;51;52;53;54;55;56;57] = 3808858755.
Proof. vm_compute. split; reflexivity. Qed.
