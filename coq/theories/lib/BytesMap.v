(* BytesMap.v — a finite map from byte strings to values, used as the model of a
   db.Bucket (key -> value) by Model_Mta and Model_Hexary, and as the recorded
   hash table in their Run files.  A positive-indexed radix tree on a prefix of
   the key (3 bytes) with an association list per bucket: look-ups cost a few
   dozen steps under vm_compute instead of a scan of the whole store.
   Style: stdlib only.  (Written for C27/C28.) *)
From Coq Require Import FMapPositive.
From Goloop Require Import lib.Bytes.
Open Scope N_scope.

Section BM.
Context {V : Type}.

Definition bkey (k : bytes) : positive :=
  N.succ_pos (match k with
              | a :: b :: c :: _ => (a * 256 + b) * 256 + c
              | a :: b :: _ => a * 256 + b
              | a :: _ => a
              | [] => 0
              end).

Definition bmap := PositiveMap.t (list (bytes * V)).
Definition bm_empty : bmap := PositiveMap.empty _.

Fixpoint assoc_get (k : bytes) (l : list (bytes * V)) : option V :=
  match l with
  | [] => None
  | (k', v) :: r => if bytes_eqb k k' then Some v else assoc_get k r
  end.

Fixpoint assoc_set (k : bytes) (v : V) (l : list (bytes * V)) : list (bytes * V) :=
  match l with
  | [] => [(k, v)]
  | (k', v') :: r => if bytes_eqb k k' then (k, v) :: r else (k', v') :: assoc_set k v r
  end.

Definition bucket_of (k : bytes) (m : bmap) : list (bytes * V) :=
  match PositiveMap.find (bkey k) m with Some l => l | None => [] end.

Definition bm_get (k : bytes) (m : bmap) : option V := assoc_get k (bucket_of k m).

Definition bm_set (k : bytes) (v : V) (m : bmap) : bmap :=
  PositiveMap.add (bkey k) (assoc_set k v (bucket_of k m)) m.

Lemma assoc_gss k v l : assoc_get k (assoc_set k v l) = Some v.
Proof.
  induction l as [|[k' v'] r IH]; cbn.
  - now rewrite bytes_eqb_refl.
  - destruct (bytes_eqb k k') eqn:E; cbn.
    + now rewrite bytes_eqb_refl.
    + now rewrite E.
Qed.

Lemma assoc_gso k k' v l : k <> k' -> assoc_get k' (assoc_set k v l) = assoc_get k' l.
Proof.
  intro Hne. induction l as [|[k0 v0] r IH]; cbn.
  - destruct (bytes_eqb k' k) eqn:E; [|reflexivity].
    apply bytes_eqb_eq in E. congruence.
  - destruct (bytes_eqb k k0) eqn:E; cbn.
    + apply bytes_eqb_eq in E. subst k0.
      destruct (bytes_eqb k' k) eqn:E2; [|reflexivity].
      apply bytes_eqb_eq in E2. congruence.
    + now rewrite IH.
Qed.

Lemma bm_get_empty k : bm_get k bm_empty = None.
Proof. unfold bm_get, bucket_of, bm_empty. now rewrite PositiveMap.gempty. Qed.

Lemma bm_gss k v m : bm_get k (bm_set k v m) = Some v.
Proof.
  unfold bm_get, bm_set, bucket_of at 1. rewrite PositiveMap.gss. apply assoc_gss.
Qed.

Lemma bm_gso k k' v m : k <> k' -> bm_get k' (bm_set k v m) = bm_get k' m.
Proof.
  intro Hne. unfold bm_get, bm_set, bucket_of at 1.
  destruct (Pos.eq_dec (bkey k') (bkey k)) as [E|E].
  - rewrite E, PositiveMap.gss. rewrite assoc_gso by assumption.
    unfold bucket_of. now rewrite E.
  - rewrite PositiveMap.gso by assumption. reflexivity.
Qed.

Definition bm_of_list (l : list (bytes * V)) : bmap :=
  fold_left (fun m kv => bm_set (fst kv) (snd kv) m) l bm_empty.

End BM.
Arguments bmap : clear implicits.
