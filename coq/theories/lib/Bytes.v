(* Bytes.v — bytes as N, byte strings as list N; executable helpers used by
   every model, plus the small facts about them that proofs share.
   Style: stdlib only. *)
From Coq Require Export List NArith ZArith Bool Lia.
From Coq Require Import ZifyBool ZifyN ZifyNat.
Export ListNotations.
Open Scope N_scope.

Definition byte := N.
Definition bytes := list N.

Definition byte_ok (b : N) : bool := b <? 256.
Definition bytes_ok (bs : bytes) : bool := forallb byte_ok bs.

Fixpoint bytes_eqb (a b : bytes) : bool :=
  match a, b with
  | [], [] => true
  | x :: a', y :: b' => (x =? y) && bytes_eqb a' b'
  | _, _ => false
  end.

Lemma bytes_eqb_eq a b : bytes_eqb a b = true <-> a = b.
Proof.
  revert b; induction a as [|x a IH]; intros [|y b]; cbn; split; intro H;
    try reflexivity; try discriminate.
  - apply andb_true_iff in H as [Hx Hr]. apply N.eqb_eq in Hx.
    apply IH in Hr. now subst.
  - inversion H; subst. rewrite N.eqb_refl. cbn. now apply IH.
Qed.

Lemma bytes_eqb_refl a : bytes_eqb a a = true.
Proof. now apply bytes_eqb_eq. Qed.

Definition opt_bytes_eqb (a b : option bytes) : bool :=
  match a, b with
  | None, None => true
  | Some x, Some y => bytes_eqb x y
  | _, _ => false
  end.

Lemma opt_bytes_eqb_eq a b : opt_bytes_eqb a b = true <-> a = b.
Proof.
  destruct a, b; cbn; try (split; congruence).
  rewrite bytes_eqb_eq. split; congruence.
Qed.

(* indices (as nat) of the cases for which f is false *)
Fixpoint failing_from {A} (f : A -> bool) (i : nat) (l : list A) : list nat :=
  match l with
  | [] => []
  | x :: r => if f x then failing_from f (S i) r else i :: failing_from f (S i) r
  end.
Definition failing {A} (f : A -> bool) (l : list A) : list nat := failing_from f 0 l.

(* big-endian / little-endian fixed width *)
Fixpoint be_bytes (n : nat) (v : N) : bytes :=
  match n with
  | O => []
  | S k => (v / 2 ^ (8 * N.of_nat k)) mod 256 :: be_bytes k v
  end.

Definition be_val (bs : bytes) : N :=
  fold_left (fun acc b => acc * 256 + b) bs 0.

(* induction two elements at a time *)
Lemma list_ind2 {A} (P : list A -> Prop) :
  P [] -> (forall x, P [x]) -> (forall x y r, P r -> P (x :: y :: r)) -> forall l, P l.
Proof.
  intros H0 H1 H2. fix IH 1. intros [|x [|y r]].
  - exact H0.
  - apply H1.
  - apply H2. apply IH.
Qed.
