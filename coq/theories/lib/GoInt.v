(* GoInt.v -- Go's fixed-width integer semantics over Z, used by the kernels that
   tools/go2coq re-generates from /repo (coq/theories/gen/K_*.v) and by models
   whose result depends on width.

   Conventions of the generated code:
     - a Go integer value is the mathematical integer it denotes (a Z inside the
       range of its type); int and uint are 64 bit;
     - every + - * / << and unary - ^ node on a sized type is followed by the
       wrap of the result type; / is Z.quot, % is Z.rem (truncation toward 0);
     - & | ^ &^ >> % need no wrap (on in-range operands the result is in range);
     - a conversion T(x) is wrap_T x unless every value of x's type fits in T;
     - an `error` result is a gerr: ENil, or EErr "<callee of the constructor
       call without its final method name>" (X.Errorf(..) gives "X"); message
       texts and arguments are not part of the value.
   All wraps are stated with literal constants so that `lia` (with the
   Z.to_euclidean_division_equations hook) can reason about them directly.
   Style: stdlib only. *)
From Coq Require Export ZArith Bool String List Lia.
From Coq Require Import ZifyBool.
Local Open Scope Z_scope.

(* ------------------------------------------------------------------ errors *)

Inductive gerr : Type := ENil | EErr (tag : string).

Definition gerr_is_nil (e : gerr) : bool :=
  match e with ENil => true | EErr _ => false end.

Lemma gerr_is_nil_true e : gerr_is_nil e = true <-> e = ENil.
Proof. destruct e; cbn; split; intro H; try reflexivity; discriminate. Qed.

(* ------------------------------------------------------------------- wraps *)

Definition wrap_u8  (x : Z) : Z := x mod 256.
Definition wrap_u16 (x : Z) : Z := x mod 65536.
Definition wrap_u32 (x : Z) : Z := x mod 4294967296.
Definition wrap_u64 (x : Z) : Z := x mod 18446744073709551616.
Definition wrap_uint (x : Z) : Z := x mod 18446744073709551616.

Definition wrap_i8  (x : Z) : Z := (x + 128) mod 256 - 128.
Definition wrap_i16 (x : Z) : Z := (x + 32768) mod 65536 - 32768.
Definition wrap_i32 (x : Z) : Z := (x + 2147483648) mod 4294967296 - 2147483648.
Definition wrap_i64 (x : Z) : Z :=
  (x + 9223372036854775808) mod 18446744073709551616 - 9223372036854775808.
Definition wrap_int (x : Z) : Z :=
  (x + 9223372036854775808) mod 18446744073709551616 - 9223372036854775808.

(* bounds, as notations so that lia sees the literals *)
Notation max_u8 := 255 (only parsing).
Notation max_u16 := 65535 (only parsing).
Notation max_u32 := 4294967295 (only parsing).
Notation max_u64 := 18446744073709551615 (only parsing).
Notation min_i8 := (-128) (only parsing).
Notation max_i8 := 127 (only parsing).
Notation min_i16 := (-32768) (only parsing).
Notation max_i16 := 32767 (only parsing).
Notation min_i32 := (-2147483648) (only parsing).
Notation max_i32 := 2147483647 (only parsing).
Notation min_i64 := (-9223372036854775808) (only parsing).
Notation max_i64 := 9223372036854775807 (only parsing).

Ltac wrap_unfold :=
  unfold wrap_u8, wrap_u16, wrap_u32, wrap_u64, wrap_uint,
         wrap_i8, wrap_i16, wrap_i32, wrap_i64, wrap_int in *.

(* local: lia with division/modulo by literals *)
Local Ltac dm_lia := wrap_unfold; Z.div_mod_to_equations; lia.

Lemma wrap_u8_small x : 0 <= x <= max_u8 -> wrap_u8 x = x.      Proof. intros; dm_lia. Qed.
Lemma wrap_u16_small x : 0 <= x <= max_u16 -> wrap_u16 x = x.   Proof. intros; dm_lia. Qed.
Lemma wrap_u32_small x : 0 <= x <= max_u32 -> wrap_u32 x = x.   Proof. intros; dm_lia. Qed.
Lemma wrap_u64_small x : 0 <= x <= max_u64 -> wrap_u64 x = x.   Proof. intros; dm_lia. Qed.
Lemma wrap_uint_small x : 0 <= x <= max_u64 -> wrap_uint x = x. Proof. intros; dm_lia. Qed.
Lemma wrap_i8_small x : min_i8 <= x <= max_i8 -> wrap_i8 x = x.     Proof. intros; dm_lia. Qed.
Lemma wrap_i16_small x : min_i16 <= x <= max_i16 -> wrap_i16 x = x. Proof. intros; dm_lia. Qed.
Lemma wrap_i32_small x : min_i32 <= x <= max_i32 -> wrap_i32 x = x. Proof. intros; dm_lia. Qed.
Lemma wrap_i64_small x : min_i64 <= x <= max_i64 -> wrap_i64 x = x. Proof. intros; dm_lia. Qed.
Lemma wrap_int_small x : min_i64 <= x <= max_i64 -> wrap_int x = x. Proof. intros; dm_lia. Qed.

Lemma wrap_u8_range x : 0 <= wrap_u8 x <= max_u8.       Proof. dm_lia. Qed.
Lemma wrap_u16_range x : 0 <= wrap_u16 x <= max_u16.    Proof. dm_lia. Qed.
Lemma wrap_u32_range x : 0 <= wrap_u32 x <= max_u32.    Proof. dm_lia. Qed.
Lemma wrap_u64_range x : 0 <= wrap_u64 x <= max_u64.    Proof. dm_lia. Qed.
Lemma wrap_uint_range x : 0 <= wrap_uint x <= max_u64.  Proof. dm_lia. Qed.
Lemma wrap_i8_range x : min_i8 <= wrap_i8 x <= max_i8.      Proof. dm_lia. Qed.
Lemma wrap_i16_range x : min_i16 <= wrap_i16 x <= max_i16.  Proof. dm_lia. Qed.
Lemma wrap_i32_range x : min_i32 <= wrap_i32 x <= max_i32.  Proof. dm_lia. Qed.
Lemma wrap_i64_range x : min_i64 <= wrap_i64 x <= max_i64.  Proof. dm_lia. Qed.
Lemma wrap_int_range x : min_i64 <= wrap_int x <= max_i64.  Proof. dm_lia. Qed.

(* wrapping is congruent to the identity modulo 2^width *)
Lemma wrap_u8_mod x : wrap_u8 x mod 256 = x mod 256.
Proof. unfold wrap_u8. apply Z.mod_mod. lia. Qed.
Lemma wrap_u16_mod x : wrap_u16 x mod 65536 = x mod 65536.
Proof. unfold wrap_u16. apply Z.mod_mod. lia. Qed.
Lemma wrap_u32_mod x : wrap_u32 x mod 4294967296 = x mod 4294967296.
Proof. unfold wrap_u32. apply Z.mod_mod. lia. Qed.
Lemma wrap_u64_mod x : wrap_u64 x mod 18446744073709551616 = x mod 18446744073709551616.
Proof. unfold wrap_u64. apply Z.mod_mod. lia. Qed.
Lemma wrap_i32_mod x : wrap_i32 x mod 4294967296 = x mod 4294967296.
Proof. dm_lia. Qed.
Lemma wrap_i64_mod x : wrap_i64 x mod 18446744073709551616 = x mod 18446744073709551616.
Proof. dm_lia. Qed.
Lemma wrap_int_mod x : wrap_int x mod 18446744073709551616 = x mod 18446744073709551616.
Proof. dm_lia. Qed.

(* `unwrap` removes every wrap whose argument is provably in range (by lia) *)
Ltac unwrap :=
  repeat first
    [ rewrite wrap_int_small by lia | rewrite wrap_i64_small by lia
    | rewrite wrap_i32_small by lia | rewrite wrap_i16_small by lia
    | rewrite wrap_i8_small by lia
    | rewrite wrap_uint_small by lia | rewrite wrap_u64_small by lia
    | rewrite wrap_u32_small by lia | rewrite wrap_u16_small by lia
    | rewrite wrap_u8_small by lia ].

(* ----------------------------------------------------- truncating division *)

Lemma quot_nonneg a b : 0 <= a -> 0 < b -> Z.quot a b = a / b.
Proof. intros. apply Z.quot_div_nonneg; lia. Qed.

Lemma rem_nonneg a b : 0 <= a -> 0 < b -> Z.rem a b = a mod b.
Proof. intros. apply Z.rem_mod_nonneg; lia. Qed.

(* ------------------------------------------------------------ shifts, masks *)

Lemma shiftr_div x n : 0 <= n -> Z.shiftr x n = x / 2 ^ n.
Proof. intros. apply Z.shiftr_div_pow2; lia. Qed.

Lemma shiftl_mul x n : 0 <= n -> Z.shiftl x n = x * 2 ^ n.
Proof. intros. apply Z.shiftl_mul_pow2; lia. Qed.

Lemma land_ones_mod x n : 0 <= n -> Z.land x (2 ^ n - 1) = x mod 2 ^ n.
Proof.
  intros. replace (2 ^ n - 1) with (Z.ones n) by (rewrite Z.ones_equiv; lia).
  apply Z.land_ones; lia.
Qed.

(* (a << k) | b  =  a * 2^k + b   when b fits in the k low bits *)
Lemma lor_shiftl_low a b k :
  0 <= k -> 0 <= b < 2 ^ k -> Z.lor (Z.shiftl a k) b = a * 2 ^ k + b.
Proof.
  intros Hk Hb.
  assert (Hland : Z.land (Z.shiftl a k) b = 0).
  { apply Z.bits_inj'. intros n Hn. rewrite Z.land_spec, Z.bits_0.
    destruct (Z_lt_ge_dec n k) as [Hlt|Hge].
    - rewrite Z.shiftl_spec_low by lia. reflexivity.
    - replace (Z.testbit b n) with false; [apply andb_false_r|].
      symmetry. destruct (Z.eq_dec b 0) as [->|Hnz]; [apply Z.bits_0|].
      apply Z.bits_above_log2; [lia|].
      assert (Z.log2 b < k) by (apply Z.log2_lt_pow2; lia). lia. }
  rewrite <- Z.lxor_lor by exact Hland.
  rewrite <- Z.add_nocarry_lxor by exact Hland.
  rewrite Z.shiftl_mul_pow2 by lia. reflexivity.
Qed.

(* ------------------------------------------------------ math/bits intrinsics *)

(* bits.Len64(x): number of bits needed to represent x; 0 for x = 0 *)
Definition bits_len64 (x : Z) : Z := if x <=? 0 then 0 else Z.log2 x + 1.
Definition bits_len32 (x : Z) : Z := if x <=? 0 then 0 else Z.log2 x + 1.

(* bits.TrailingZeros64(x): index of the lowest set bit; 64 for x = 0.
   x & -x isolates the lowest set bit. *)
Definition bits_tz64 (x : Z) : Z := if x =? 0 then 64 else Z.log2 (Z.land x (- x)).
Definition bits_tz32 (x : Z) : Z := if x =? 0 then 32 else Z.log2 (Z.land x (- x)).

Lemma bits_len64_0 : bits_len64 0 = 0.
Proof. reflexivity. Qed.

Lemma bits_len64_spec x :
  0 < x -> 2 ^ (bits_len64 x - 1) <= x < 2 ^ bits_len64 x.
Proof.
  intros Hx. unfold bits_len64. destruct (x <=? 0) eqn:E; [lia|].
  replace (Z.log2 x + 1 - 1) with (Z.log2 x) by lia.
  pose proof (Z.log2_spec x Hx) as [H1 H2].
  split; [exact H1|]. replace (Z.log2 x + 1) with (Z.succ (Z.log2 x)) by lia. exact H2.
Qed.

Lemma bits_len64_nonneg x : 0 <= bits_len64 x.
Proof. unfold bits_len64. destruct (x <=? 0); [lia|]. pose proof (Z.log2_nonneg x). lia. Qed.

Lemma bits_len64_le_64 x : 0 <= x <= max_u64 -> bits_len64 x <= 64.
Proof.
  intros Hx. unfold bits_len64. destruct (x <=? 0) eqn:E; [lia|].
  assert (Z.log2 x < 64) by (apply Z.log2_lt_pow2; lia). lia.
Qed.

Lemma bits_tz64_range x : 0 <= x <= max_u64 -> 0 <= bits_tz64 x <= 64.
Proof.
  intros Hx. unfold bits_tz64. destruct (x =? 0) eqn:E; [lia|].
  assert (Hxp : 0 < x) by lia.
  split; [apply Z.log2_nonneg|].
  set (l := Z.land x (- x)).
  destruct (Z_le_gt_dec l 0) as [Hl0|Hlp].
  - rewrite Z.log2_nonpos by lia. lia.
  - assert (Hb : Z.testbit l (Z.log2 l) = true) by (apply Z.bit_log2; lia).
    unfold l in Hb at 1. rewrite Z.land_spec in Hb. apply andb_true_iff in Hb as [Hbx _].
    assert (Z.log2 l <= Z.log2 x).
    { destruct (Z_le_gt_dec (Z.log2 l) (Z.log2 x)); [assumption|].
      rewrite Z.bits_above_log2 in Hbx by lia. discriminate. }
    assert (Z.log2 x < 64) by (apply Z.log2_lt_pow2; lia). lia.
Qed.

(* m odd => m & -m = 1 *)
Lemma land_opp_odd q : Z.land (2 * q + 1) (- (2 * q + 1)) = 1.
Proof.
  apply Z.bits_inj'. intros n Hn. rewrite Z.land_spec.
  destruct (Z.eq_dec n 0) as [->|Hnz].
  - rewrite Z.bits_opp by lia. replace (Z.pred (2 * q + 1)) with (2 * q) by lia.
    rewrite Z.testbit_odd_0, Z.testbit_even_0. reflexivity.
  - replace n with (Z.succ (n - 1)) by lia.
    rewrite Z.bits_opp by lia. replace (Z.pred (2 * q + 1)) with (2 * q) by lia.
    rewrite Z.testbit_odd_succ, Z.testbit_even_succ by lia.
    change 1 with (2 * 0 + 1). rewrite Z.testbit_odd_succ by lia. rewrite Z.bits_0.
    apply andb_negb_r.
Qed.

(* the number of trailing zero bits of 2^s * odd is s *)
Lemma bits_tz64_pow2_odd s q : 0 <= s -> bits_tz64 (2 ^ s * (2 * q + 1)) = s.
Proof.
  intros Hs. unfold bits_tz64.
  assert (Hp : 0 < 2 ^ s) by (apply Z.pow_pos_nonneg; lia).
  destruct (2 ^ s * (2 * q + 1) =? 0) eqn:E; [apply Z.eqb_eq, Z.mul_eq_0 in E; lia|].
  replace (- (2 ^ s * (2 * q + 1))) with (Z.shiftl (- (2 * q + 1)) s)
    by (rewrite Z.shiftl_mul_pow2 by lia; ring).
  replace (2 ^ s * (2 * q + 1)) with (Z.shiftl (2 * q + 1) s)
    by (rewrite Z.shiftl_mul_pow2 by lia; ring).
  rewrite <- Z.shiftl_land, land_opp_odd.
  rewrite Z.shiftl_mul_pow2 by lia. rewrite Z.mul_1_l. apply Z.log2_pow2. lia.
Qed.

(* key = 2^t * odd  ==>  key xor (key-1) = 2^(t+1) - 1 *)
Lemma lxor_pred_pow2_odd t r : 0 <= t -> 0 <= r ->
  Z.lxor (2 ^ t * (2 * r + 1)) (2 ^ t * (2 * r + 1) - 1) = 2 ^ (t + 1) - 1.
Proof.
  intros Ht Hr.
  assert (Hp : 0 < 2 ^ t) by (apply Z.pow_pos_nonneg; lia).
  assert (H2 : 2 ^ (t + 1) = 2 * 2 ^ t) by (rewrite Z.pow_add_r by lia; change (2 ^ 1) with 2; lia).
  assert (E1 : 2 ^ t * (2 * r + 1) = Z.lor (Z.shiftl r (t + 1)) (2 ^ t)).
  { rewrite lor_shiftl_low by lia. rewrite H2. lia. }
  assert (E2 : 2 ^ t * (2 * r + 1) - 1 = Z.lor (Z.shiftl r (t + 1)) (Z.ones t)).
  { rewrite Z.ones_equiv. rewrite lor_shiftl_low by lia. rewrite H2. lia. }
  rewrite E2, E1.
  replace (2 ^ (t + 1) - 1) with (Z.ones (t + 1)) by (rewrite Z.ones_equiv; lia).
  apply Z.bits_inj'. intros n Hn.
  rewrite Z.lxor_spec, !Z.lor_spec.
  destruct (Z_lt_ge_dec n (t + 1)).
  - rewrite Z.shiftl_spec_low by lia. rewrite (Z.ones_spec_low (t + 1)) by lia. cbn [orb].
    rewrite Z.pow2_bits_eqb by lia.
    destruct (Z.eq_dec n t) as [->|].
    + rewrite Z.eqb_refl, Z.ones_spec_high by lia. reflexivity.
    + rewrite (proj2 (Z.eqb_neq t n)) by lia. rewrite Z.ones_spec_low by lia. reflexivity.
  - rewrite (Z.ones_spec_high (t + 1)) by lia. rewrite Z.pow2_bits_eqb by lia.
    rewrite (proj2 (Z.eqb_neq t n)) by lia.
    rewrite (Z.ones_spec_high t n) by lia. rewrite !orb_false_r. apply xorb_nilpotent.
Qed.

(* ------------------------------------------------------------ bool helpers *)

Lemma negb_eqb_true a b : negb (a =? b) = true <-> a <> b.
Proof. rewrite negb_true_iff, Z.eqb_neq. reflexivity. Qed.

Lemma bool_eq_iff (a b : bool) : a = b <-> (a = true <-> b = true).
Proof. destruct a, b; intuition congruence. Qed.

(* turn a boolean goal/hypothesis built from Z comparisons into Prop *)
Ltac bool_to_prop :=
  repeat first
    [ rewrite andb_true_iff | rewrite orb_true_iff | rewrite negb_true_iff
    | rewrite andb_false_iff | rewrite orb_false_iff | rewrite negb_false_iff
    | rewrite Z.eqb_eq | rewrite Z.eqb_neq
    | rewrite Z.ltb_lt | rewrite Z.ltb_ge | rewrite Z.leb_le | rewrite Z.leb_gt
    | rewrite Z.gtb_ltb | rewrite Z.geb_leb ].
