(* Proofs_TxVerify.v — facts about Model_TxVerify (decision logic of
   verifySignature and the signature byte formats).  Style: stdlib only. *)
From Goloop Require Import lib.Bytes Model_Address Model_TxSerialize Proofs_TxSerialize Model_TxVerify.
From Coq Require Import ZifyBool ZifyN ZifyNat.
Open Scope N_scope.

Lemma addr_eqb_eq a b : addr_eqb a b = true <-> a = b.
Proof.
  destruct a as [c1 i1], b as [c2 i2]. unfold addr_eqb. cbn [a_contract a_id]. split.
  - intro E. apply andb_true_iff in E as [Ec Ei]. apply Bool.eqb_prop in Ec. apply bytes_eqb_eq in Ei.
    now subst.
  - intro E. inversion E; subst. rewrite Bool.eqb_reflx, bytes_eqb_refl. reflexivity.
Qed.

Section VerifyProofs.
  Variable H : bytes -> bytes.
  Variable recover : bytes -> bytes -> option bytes.

  (* verification succeeds exactly when a key is recovered from (signature, id)
     and its address is the sender *)
  Theorem verify_signature_iff from s id :
    verify_signature H recover from s id = VOk <->
    exists pk, recover_public_key recover s id = Some pk /\ addr_of_pub H pk = Some from.
  Proof.
    unfold verify_signature. split.
    - destruct (recover_public_key recover s id) as [pk|]; [|discriminate].
      destruct (addr_of_pub H pk) as [a|] eqn:Ea; [|discriminate].
      destruct (addr_eqb a from) eqn:E; [|discriminate]. intros _.
      apply addr_eqb_eq in E. subst. eauto.
    - intros (pk & Er & Ea). rewrite Er, Ea.
      replace (addr_eqb from from) with true by (symmetry; now apply addr_eqb_eq). reflexivity.
  Qed.

  (* the recovered key comes from the primitive applied to a 65-byte signature
     with V and a 1..32-byte hash: nothing else can verify *)
  Theorem verify_needs_recovery from s id :
    verify_signature H recover from s id = VOk ->
    exists vrs pk, s = SigV vrs /\ (0 < length id <= 32)%nat /\ recover vrs id = Some pk
                   /\ addr_of_pub H pk = Some from.
  Proof.
    intro Hv. apply verify_signature_iff in Hv as (pk & Er & Ea).
    destruct s as [|vrs|rs]; cbn [recover_public_key] in Er; try discriminate.
    destruct id as [|b id']; [discriminate|]. cbn [is_nil orb] in Er.
    destruct (Nat.ltb 32 (length (b :: id'))) eqn:El; [discriminate|].
    apply Nat.ltb_ge in El. exists vrs, pk. repeat split; auto. cbn [length]. lia.
  Qed.

  Theorem verify_ok_implies_signature f data_ok id :
    verify H recover f data_ok id = VOk -> verify_signature H recover (t_from f) (t_sig f) id = VOk.
  Proof.
    unfold verify.
    destruct (match t_value f with Some v => (v <? 0)%Z | None => false end); [discriminate|].
    destruct (t_stepLimit f <? 0)%Z; [discriminate|]. destruct (negb data_ok); [discriminate|]. auto.
  Qed.

  (* a signature without V (64 bytes) or no signature never verifies *)
  Theorem no_v_never_verifies from s id : has_v s = false -> verify_signature H recover from s id = VNoKey.
  Proof. destruct s; cbn; try discriminate; reflexivity. Qed.

  Theorem rs64_never_verifies from b s id : length b = 64%nat -> parse_signature b = Some s ->
    verify_signature H recover from s id <> VOk.
  Proof.
    intros Hl Hp. unfold parse_signature in Hp. rewrite Hl in Hp. cbn in Hp. inversion Hp; subst.
    cbn. discriminate.
  Qed.

End VerifyProofs.

(* ---------- signature byte formats ---------- *)

Lemma parse_rsv_65 b : length b = 65%nat -> bytes_ok b = true ->
  exists vrs, parse_signature b = Some (SigV vrs) /\ length vrs = 65%nat /\ bytes_ok vrs = true
              /\ serialize_rsv (SigV vrs) = Some b.
Proof.
  intros Hl Hb. unfold parse_signature. rewrite Hl. cbn [Nat.eqb].
  assert (Hs : length (skipn 64 b) = 1%nat) by (rewrite skipn_length; lia).
  destruct (skipn 64 b) as [|v [|? ?]] eqn:Es; try discriminate.
  exists (flag_to_ecdsa v :: firstn 64 b).
  assert (Hsplit : b = firstn 64 b ++ [v]) by (rewrite <- Es; symmetry; apply firstn_skipn).
  assert (Hv : v < 256).
  { rewrite Hsplit, bytes_ok_app in Hb. apply andb_true_iff in Hb as [_ Hv].
    cbn in Hv. unfold byte_ok in Hv. lia. }
  split; [reflexivity|]. split; [cbn [length]; rewrite firstn_length_le; lia|]. split.
  - change (bytes_ok (flag_to_ecdsa v :: firstn 64 b)) with (byte_ok (flag_to_ecdsa v) && bytes_ok (firstn 64 b)).
    rewrite bytes_ok_firstn by exact Hb. unfold byte_ok, flag_to_ecdsa.
    assert ((v + 27) mod 256 < 256) by (apply N.mod_lt; lia).
    replace ((v + 27) mod 256 <? 256) with true by lia. reflexivity.
  - cbn [serialize_rsv]. destruct (flag_roundtrip v Hv) as [R _]. rewrite R. now rewrite <- Hsplit.
Qed.

Lemma serialize_parse_rsv vrs : wf_sig (SigV vrs) = true ->
  exists b, serialize_rsv (SigV vrs) = Some b /\ length b = 65%nat /\ parse_signature b = Some (SigV vrs).
Proof.
  intro Hw. destruct (sig_bytes_roundtrip (SigV vrs) Hw) as (b & Es & Ep).
  cbn [sig_to_bytes] in Es. exists b. split; [exact Es|].
  cbn [wf_sig] in Hw. apply andb_true_iff in Hw as [Hl _]. apply Nat.eqb_eq in Hl.
  destruct vrs as [|v rs]; [discriminate|]. cbn [serialize_rsv] in Es. inversion Es; subst b.
  assert (Hlen : length (rs ++ [flag_to_compat v]) = 65%nat) by (rewrite app_length; cbn in *; lia).
  split; [exact Hlen|]. unfold sig_of_bytes in Ep.
  destruct (rs ++ [flag_to_compat v]) eqn:E; [discriminate|]. exact Ep.
Qed.

Lemma parse_vrs_65 b : length b = 65%nat -> bytes_ok b = true ->
  exists vrs, parse_signature_vrs b = Some (SigV vrs) /\ serialize_vrs (SigV vrs) = Some b.
Proof.
  intros Hl Hb. unfold parse_signature_vrs. rewrite Hl. cbn [Nat.eqb].
  destruct b as [|v rs]; [discriminate|]. eexists. split; [reflexivity|]. cbn [serialize_vrs].
  assert (Hv : v < 256) by (cbn in Hb; apply andb_true_iff in Hb as [Hv _]; unfold byte_ok in Hv; lia).
  destruct (flag_roundtrip v Hv) as [R _]. now rewrite R.
Qed.

(* R|S|V and V|R|S are two spellings of one signature: converting through the
   internal form moves V from the back to the front and nothing else *)
Lemma rsv_to_vrs b s : length b = 65%nat -> bytes_ok b = true -> parse_signature b = Some s ->
  exists v, skipn 64 b = [v] /\ serialize_vrs s = Some (v :: firstn 64 b)
            /\ parse_signature_vrs (v :: firstn 64 b) = Some s.
Proof.
  intros Hl Hb Hp. unfold parse_signature in Hp. rewrite Hl in Hp. cbn [Nat.eqb] in Hp.
  destruct (skipn 64 b) as [|v [|? ?]] eqn:Es; try discriminate. inversion Hp; subst s.
  assert (Hsplit : b = firstn 64 b ++ [v]) by (rewrite <- Es; symmetry; apply firstn_skipn).
  assert (Hv : v < 256).
  { rewrite Hsplit, bytes_ok_app in Hb. apply andb_true_iff in Hb as [_ Hv].
    cbn in Hv. unfold byte_ok in Hv. lia. }
  exists v. split; [reflexivity|]. cbn [serialize_vrs].
  destruct (flag_roundtrip v Hv) as [R _]. rewrite R. split; [reflexivity|].
  unfold parse_signature_vrs. cbn [length]. rewrite firstn_length_le by lia. reflexivity.
Qed.

(* the V offset: +27 and -27 modulo 256 are total and mutually inverse on bytes *)
Lemma flag_conversions v : v < 256 ->
  flag_to_ecdsa v < 256 /\ flag_to_compat v < 256 /\
  flag_to_compat (flag_to_ecdsa v) = v /\ flag_to_ecdsa (flag_to_compat v) = v.
Proof. unfold flag_to_ecdsa, flag_to_compat. lia. Qed.

(* lengths other than 64 and 65 are not signatures *)
Lemma parse_signature_lengths b s : parse_signature b = Some s ->
  (length b = 65%nat /\ has_v s = true) \/ (length b = 64%nat /\ s = SigRS b).
Proof.
  unfold parse_signature. destruct (Nat.eqb (length b) 65) eqn:E65.
  - apply Nat.eqb_eq in E65. destruct (skipn 64 b) as [|v [|? ?]]; try discriminate.
    intro E; inversion E; subst. left. auto.
  - destruct (Nat.eqb (length b) 64) eqn:E64; [|discriminate]. apply Nat.eqb_eq in E64.
    intro E; inversion E; subst. right. auto.
Qed.

(* non-vacuity: a concrete signature and hash for which verification succeeds *)
Example verify_example :
  let Hx := fun p : bytes => repeat 7 12 ++ firstn 20 p in
  let pk := 4 :: repeat 9 64 in
  let sig := SigV (27 :: repeat 1 64) in
  let rec := fun (vrs h : bytes) => if bytes_eqb vrs (27 :: repeat 1 64) then Some pk else None in
  verify_signature Hx rec {| a_contract := false; a_id := repeat 9 20 |} sig (repeat 5 32) = VOk
  /\ verify_signature Hx rec {| a_contract := true; a_id := repeat 9 20 |} sig (repeat 5 32) = VMismatch
  /\ verify_signature Hx rec {| a_contract := false; a_id := repeat 9 20 |} (SigV (28 :: repeat 1 64)) (repeat 5 32) = VNoKey.
Proof. vm_compute. auto. Qed.

Example sig_example : parse_signature (repeat 1 64 ++ [1]) = Some (SigV (28 :: repeat 1 64))
  /\ wf_sig (SigV (28 :: repeat 1 64)) = true /\ bytes_ok (repeat 1 64 ++ [1]) = true.
Proof. vm_compute. auto. Qed.
