(* Proofs_Tendermint.v — safety of the abstract protocol of Spec_Tendermint.v:
   quorum intersection, no correct equivocation, precommit => polka, the lock
   invariant, agreement, decide => +2/3 precommits; non-vacuity examples; and
   the refutation of agreement when a restart may bring back a stale lock
   (the behaviour of applyLockWAL, see docs/notes/C01_spec.md).

   The proof is one inductive invariant [Inv] over reachable states; no
   temporal reasoning.  The central clause is Paxos-like: call a block b
   CHOOSABLE at round r when the slots that are Byzantine, or have precommitted
   b at r, or could still do so (no precommit at r yet and no vote above r)
   number more than 2n/3.  Choosability only ever decreases, +2/3 precommits
   imply it, and [I_S]: a polka for anything but b at a round above r implies
   b is not choosable at r. *)
From Coq Require Import List Arith NArith Bool Lia.
From Goloop Require Import Model_Quorum Spec_Tendermint.
Import ListNotations.

Local Arguments polka : simpl never.
Local Arguments qprecommit : simpl never.
Local Arguments quorum : simpl never.
Local Arguments over23 : simpl never.
Local Arguments countn : simpl never.
Local Arguments correct : simpl never.
Local Arguments lock_safe : simpl never.

(* ------------------------------------------------------------------ *)
(* equality tests                                                      *)

Lemma vtype_eqb_eq a b : vtype_eqb a b = true <-> a = b.
Proof. destruct a, b; cbn; split; intro H; try reflexivity; discriminate. Qed.

Lemma value_eqb_eq a b : value_eqb a b = true <-> a = b.
Proof.
  destruct a as [x|], b as [y|]; cbn; split; intro H; try reflexivity; try discriminate.
  - apply N.eqb_eq in H. subst. reflexivity.
  - injection H as ->. apply N.eqb_refl.
Qed.

Lemma value_eqb_neq a b : value_eqb a b = false <-> a <> b.
Proof.
  split.
  - intros H E. apply value_eqb_eq in E. congruence.
  - intros H. destruct (value_eqb a b) eqn:E; [|reflexivity].
    apply value_eqb_eq in E. contradiction.
Qed.

Lemma vote_eqb_eq a b : vote_eqb a b = true <-> a = b.
Proof.
  destruct a as [s1 r1 t1 v1], b as [s2 r2 t2 v2]. unfold vote_eqb. cbn.
  rewrite !andb_true_iff, Nat.eqb_eq, N.eqb_eq, vtype_eqb_eq, value_eqb_eq.
  split.
  - intros [[[-> ->] ->] ->]. reflexivity.
  - intros H. injection H as -> -> -> ->. auto.
Qed.

Lemma value_eq_dec (a b : value) : a = b \/ a <> b.
Proof.
  destruct (value_eqb a b) eqn:E.
  - left. apply value_eqb_eq. exact E.
  - right. apply value_eqb_neq. exact E.
Qed.

(* ------------------------------------------------------------------ *)
(* the threshold                                                       *)

Lemma over23_spec c n : over23 c n = true <-> 2 * n < 3 * c.
Proof.
  unfold over23. rewrite Nat.ltb_lt.
  pose proof (Nat.div_mod (n * 2) 3 ltac:(lia)) as D.
  pose proof (Nat.mod_upper_bound (n * 2) 3 ltac:(lia)) as U.
  split; intro H; lia.
Qed.

(* the same test as commitvotelist.go:enoughVote whenever there is a validator *)
Lemma over23_enough c n : n <> 0 -> over23 c n = enough c n.
Proof.
  intro Hn. unfold enough, over23.
  destruct (n =? 0) eqn:E; [apply Nat.eqb_eq in E; contradiction|reflexivity].
Qed.

Lemma over23_mono c c' n : c <= c' -> over23 c n = true -> over23 c' n = true.
Proof. rewrite !over23_spec. lia. Qed.

(* ------------------------------------------------------------------ *)
(* counting and quorum intersection                                    *)

Lemma filter_len_mono {A} (p q : A -> bool) (l : list A) :
  (forall x, In x l -> p x = true -> q x = true) ->
  length (filter p l) <= length (filter q l).
Proof.
  induction l as [|a l IH]; intros H; cbn; [lia|].
  assert (IH' := IH (fun x Hx => H x (or_intror Hx))).
  destruct (p a) eqn:Ep.
  - rewrite (H a (or_introl eq_refl) Ep). cbn. lia.
  - destruct (q a); cbn; lia.
Qed.

Lemma filter_len_ie {A} (p q : A -> bool) (l : list A) :
  length (filter p l) + length (filter q l)
  = length (filter (fun x => p x && q x) l) + length (filter (fun x => p x || q x) l).
Proof. induction l as [|a l IH]; cbn; [reflexivity|]. destruct (p a), (q a); cbn; lia. Qed.

Lemma filter_len_le {A} (p : A -> bool) (l : list A) : length (filter p l) <= length l.
Proof. induction l as [|a l IH]; cbn; [lia|]. destruct (p a); cbn; lia. Qed.

Lemma countn_le p n : countn p n <= n.
Proof. unfold countn. pose proof (filter_len_le p (seq 0 n)). rewrite seq_length in H. exact H. Qed.

Lemma countn_mono p q n :
  (forall k, k < n -> p k = true -> q k = true) -> countn p n <= countn q n.
Proof.
  intros H. apply filter_len_mono. intros k Hk. apply in_seq in Hk. apply H. lia.
Qed.

Lemma existsb_false_all {A} (f : A -> bool) l x : existsb f l = false -> In x l -> f x = false.
Proof.
  intros E Hx. destruct (f x) eqn:F; [|reflexivity].
  assert (existsb f l = true) by (apply existsb_exists; exists x; auto). congruence.
Qed.

(* two sets of more than 2n/3 slots share a slot outside any set of fewer than n/3 slots *)
Lemma quorum_intersection (p q b : nat -> bool) (n : nat) :
  2 * n < 3 * countn p n -> 2 * n < 3 * countn q n -> 3 * countn b n < n ->
  exists k, k < n /\ p k = true /\ q k = true /\ b k = false.
Proof.
  intros Hp Hq Hb.
  destruct (existsb (fun k => p k && q k && negb (b k)) (seq 0 n)) eqn:E.
  - apply existsb_exists in E. destruct E as [k [Hk Hf]].
    apply in_seq in Hk. rewrite !andb_true_iff, negb_true_iff in Hf.
    exists k. repeat split; try tauto; lia.
  - exfalso.
    assert (Hsub : countn (fun k => p k && q k) n <= countn b n).
    { apply countn_mono. intros k Hk Hpq.
      assert (Hin : In k (seq 0 n)) by (apply in_seq; lia).
      pose proof (existsb_false_all _ _ _ E Hin) as F. cbn in F.
      rewrite Hpq in F. cbn in F. apply negb_false_iff in F. exact F. }
    pose proof (filter_len_ie p q (seq 0 n)) as IE. fold (countn p n) in IE. fold (countn q n) in IE.
    fold (countn (fun k => p k && q k) n) in IE.
    fold (countn (fun k => p k || q k) n) in IE.
    pose proof (countn_le (fun k => p k || q k) n). lia.
Qed.

(* the same for duplicate-free lists of slots *)
Definition mem (l : list nat) (k : nat) : bool := existsb (Nat.eqb k) l.

Lemma mem_In l k : mem l k = true <-> In k l.
Proof.
  unfold mem. rewrite existsb_exists. split.
  - intros [x [Hx E]]. apply Nat.eqb_eq in E. subst. exact Hx.
  - intros H. exists k. split; [exact H|apply Nat.eqb_refl].
Qed.

Lemma NoDup_filter {A} (p : A -> bool) l : NoDup l -> NoDup (filter p l).
Proof.
  induction 1 as [|a l Hn Hd IH]; cbn; [constructor|].
  destruct (p a); [constructor|]; auto.
  intro H. apply filter_In in H. tauto.
Qed.

Lemma countn_mem_ge l n : NoDup l -> (forall k, In k l -> k < n) -> length l <= countn (mem l) n.
Proof.
  intros Hd Hlt. unfold countn. apply NoDup_incl_length; [exact Hd|].
  intros k Hk. apply filter_In. split; [apply in_seq; specialize (Hlt k Hk); lia|].
  apply mem_In. exact Hk.
Qed.

Lemma countn_mem_le l n : countn (mem l) n <= length l.
Proof.
  unfold countn. apply NoDup_incl_length.
  - apply NoDup_filter. apply seq_NoDup.
  - intros k Hk. apply filter_In in Hk. apply mem_In. tauto.
Qed.

Lemma quorum_intersection_lists (P Q B : list nat) (n : nat) :
  NoDup P -> NoDup Q ->
  (forall k, In k P -> k < n) -> (forall k, In k Q -> k < n) ->
  2 * n < 3 * length P -> 2 * n < 3 * length Q -> 3 * length B < n ->
  exists k, k < n /\ In k P /\ In k Q /\ ~ In k B.
Proof.
  intros DP DQ LP LQ HP HQ HB.
  pose proof (countn_mem_ge P n DP LP) as GP. pose proof (countn_mem_ge Q n DQ LQ) as GQ.
  pose proof (countn_mem_le B n) as GB.
  destruct (quorum_intersection (mem P) (mem Q) (mem B) n) as [k [Hk [H1 [H2 H3]]]]; try lia.
  exists k. rewrite <- !mem_In. repeat split; auto. congruence.
Qed.

(* ------------------------------------------------------------------ *)
(* queries on the soup                                                 *)

Lemma has_vote_In sp k r t v : has_vote sp k r t v = true <-> In (mkVote k r t v) sp.
Proof.
  unfold has_vote. rewrite existsb_exists. split.
  - intros [x [Hx E]]. apply vote_eqb_eq in E. subst. exact Hx.
  - intros H. exists (mkVote k r t v). split; [exact H|apply vote_eqb_eq; reflexivity].
Qed.

Lemma voted_in_false sp k r t v : voted_in sp k r t = false -> ~ In (mkVote k r t v) sp.
Proof.
  intros E H. pose proof (existsb_false_all _ _ _ E H) as F. cbn in F.
  rewrite Nat.eqb_refl, N.eqb_refl in F. cbn in F.
  destruct t; discriminate.
Qed.

Lemma rounds_le_spec sp k r m :
  rounds_le sp k r = true -> In m sp -> v_sender m = k -> (v_round m <= r)%N.
Proof.
  intros H Hm Hs. unfold rounds_le in H. rewrite forallb_forall in H.
  specialize (H m Hm). rewrite Hs, Nat.eqb_refl in H. cbn in H. apply N.leb_le. exact H.
Qed.

Lemma rounds_le_tail sp k r m : rounds_le (m :: sp) k r = true -> rounds_le sp k r = true.
Proof. cbn. rewrite andb_true_iff. tauto. Qed.

Lemma voted_in_tail sp k r t m : voted_in (m :: sp) k r t = false -> voted_in sp k r t = false.
Proof. cbn. rewrite orb_false_iff. tauto. Qed.

(* ================================================================== *)
Section Safety.
  Variable n : nat.
  Variable byz : nat -> bool.
  (* fewer than one third of the slots are Byzantine *)
  Hypothesis Hbyz : 3 * countn byz n < n.

  Notation correct := (correct n byz).
  Notation polka := (polka n).
  Notation qprecommit := (qprecommit n).
  Notation quorum := (quorum n).
  Notation step := (step n byz).
  Notation run := (run n byz).
  Notation reachable := (reachable n byz).

  Lemma correct_spec k : correct k = true <-> k < n /\ byz k = false.
  Proof.
    unfold Spec_Tendermint.correct. rewrite andb_true_iff, Nat.ltb_lt, negb_true_iff. tauto.
  Qed.

  Lemma quorum_mono sp sp' r t v :
    incl sp sp' -> quorum sp r t v = true -> quorum sp' r t v = true.
  Proof.
    intros Hi. unfold Spec_Tendermint.quorum. apply over23_mono. apply countn_mono.
    intros k _. rewrite !has_vote_In. apply Hi.
  Qed.

  Lemma polka_mono sp sp' r v : incl sp sp' -> polka sp r v = true -> polka sp' r v = true.
  Proof. apply quorum_mono. Qed.

  Lemma polka_cons sp m r v : polka sp r v = true -> polka (m :: sp) r v = true.
  Proof. apply polka_mono. apply incl_tl, incl_refl. Qed.

  (* a quorum of slots contains a correct one, and two quorums share a correct one *)
  Lemma quorum_two sp r t v r' t' v' :
    quorum sp r t v = true -> quorum sp r' t' v' = true ->
    exists k, correct k = true /\ In (mkVote k r t v) sp /\ In (mkVote k r' t' v') sp.
  Proof.
    unfold Spec_Tendermint.quorum. rewrite !over23_spec. intros H1 H2.
    destruct (quorum_intersection _ _ byz n H1 H2 Hbyz) as [k [Hk [A [B C]]]].
    exists k. rewrite correct_spec, <- !has_vote_In. auto.
  Qed.

  Lemma quorum_has_correct sp r t v :
    quorum sp r t v = true -> exists k, correct k = true /\ In (mkVote k r t v) sp.
  Proof. intros H. destruct (quorum_two _ _ _ _ _ _ _ H H) as [k [? [? _]]]. eauto. Qed.

  (* ---------------------------------------------------------------- *)
  (* choosability                                                      *)

  Definition chooser (sp : list vote) (r : N) (b : N) (k : nat) : bool :=
    byz k || has_vote sp k r Precommit (Some b)
    || (negb (voted_in sp k r Precommit) && rounds_le sp k r).

  Definition choosable (sp : list vote) (r : N) (b : N) : bool :=
    over23 (countn (chooser sp r b) n) n.

  Lemma qprecommit_choosable sp r b : qprecommit sp r (Some b) = true -> choosable sp r b = true.
  Proof.
    unfold Spec_Tendermint.qprecommit, Spec_Tendermint.quorum, choosable.
    apply over23_mono. apply countn_mono. intros k _ H. unfold chooser. rewrite H.
    rewrite orb_true_r. reflexivity.
  Qed.

  (* ---------------------------------------------------------------- *)
  (* the invariant                                                     *)

  Definition hv (s : state) k r t v : Prop := In (mkVote k r t v) (soup s).

  Definition I_noeq (s : state) : Prop :=
    forall k r t v w, correct k = true -> hv s k r t v -> hv s k r t w -> v = w.

  Definition I_pp (s : state) : Prop :=
    forall k r b, correct k = true -> hv s k r Precommit (Some b) ->
      polka (soup s) r (Some b) = true.

  (* a correct validator that precommitted b at r is still locked on b since a
     round >= r, unless a polka for something else exists at a round >= r *)
  Definition I_A (s : state) : Prop :=
    forall k r b, correct k = true -> hv s k r Precommit (Some b) ->
      (exists lr, lock s k = Some (lr, b) /\ (r <= lr)%N) \/
      (exists r2 w, (r <= r2)%N /\ w <> Some b /\ polka (soup s) r2 w = true).

  (* ... and it prevoted something else above r only if such a polka exists *)
  Definition I_C (s : state) : Prop :=
    forall k r b r' w, correct k = true ->
      hv s k r Precommit (Some b) -> hv s k r' Prevote w -> (r < r')%N -> w <> Some b ->
      exists r2 w2, (r <= r2)%N /\ w2 <> Some b /\ polka (soup s) r2 w2 = true.

  Definition I_S (s : state) : Prop :=
    forall r b r' w, polka (soup s) r' w = true -> (r < r')%N -> w <> Some b ->
      choosable (soup s) r b = false.

  Definition I_D (s : state) : Prop :=
    forall k b, decided s k = Some b -> exists r, qprecommit (soup s) r (Some b) = true.

  Definition Inv (s : state) : Prop :=
    I_noeq s /\ I_pp s /\ I_A s /\ I_C s /\ I_S s /\ I_D s.

  Lemma polka_unique s r v w :
    I_noeq s -> polka (soup s) r v = true -> polka (soup s) r w = true -> v = w.
  Proof.
    intros Hne H1 H2. destruct (quorum_two _ _ _ _ _ _ _ H1 H2) as [k [Hc [A B]]].
    exact (Hne k r Prevote v w Hc A B).
  Qed.

  (* with b choosable at r and a correct precommit for b at r, there is no
     polka for anything else at r or above *)
  Lemma bad_polka_contra s r b k r2 w :
    Inv s -> choosable (soup s) r b = true -> correct k = true ->
    hv s k r Precommit (Some b) -> (r <= r2)%N -> w <> Some b ->
    polka (soup s) r2 w = true -> False.
  Proof.
    intros (Hne & Hpp & _ & _ & HS & _) Hch Hc Hv Hle Hw Hp.
    destruct (N.eq_dec r r2) as [<-|Hneq].
    - apply Hw. apply (polka_unique s r); auto. exact (Hpp k r b Hc Hv).
    - assert (r < r2)%N by lia. rewrite (HS r b r2 w Hp H Hw) in Hch. discriminate.
  Qed.

  (* ---------------------------------------------------------------- *)
  (* the four kinds of state change                                    *)

  (* what the sender of an added vote must satisfy *)
  Definition vote_ok (s : state) (m : vote) : Prop :=
    correct (v_sender m) = true ->
      voted_in (soup s) (v_sender m) (v_round m) (v_type m) = false /\
      rounds_le (soup s) (v_sender m) (v_round m) = true /\
      (v_type m = Prevote ->
         forall lr b, lock s (v_sender m) = Some (lr, b) -> v_value m = Some b) /\
      (v_type m = Precommit -> forall b, v_value m = Some b ->
         polka (soup s) (v_round m) (Some b) = true /\
         exists lr, lock s (v_sender m) = Some (lr, b) /\ (v_round m <= lr)%N).

  Lemma chooser_antimono s m r b k :
    k < n -> vote_ok s m ->
    chooser (m :: soup s) r b k = true -> chooser (soup s) r b k = true.
  Proof.
    intros Hk Hok. unfold chooser. rewrite !orb_true_iff, !andb_true_iff, !negb_true_iff.
    intros [[Hb|Hv]|[Hnv Hrl]]; auto.
    - apply has_vote_In in Hv. destruct Hv as [Hm|Hv].
      + destruct (byz k) eqn:Bk; auto.
        assert (Hc : correct (v_sender m) = true) by (subst m; apply correct_spec; auto).
        destruct (Hok Hc) as (Hnv & Hrl & _). subst m. cbn in *. auto.
      + left. right. apply has_vote_In. exact Hv.
    - right. split; [eapply voted_in_tail|eapply rounds_le_tail]; eauto.
  Qed.

  Lemma choosable_antimono s m r b :
    vote_ok s m -> choosable (m :: soup s) r b = true -> choosable (soup s) r b = true.
  Proof.
    intros Hok. unfold choosable. apply over23_mono. apply countn_mono.
    intros k Hk. apply chooser_antimono; auto.
  Qed.

  Lemma inv_add_vote s m : Inv s -> vote_ok s m -> Inv (add_vote s m).
  Proof.
    intros HI Hok. pose proof HI as (Hne & Hpp & HA & HC & HS & HD).
    unfold Inv, I_noeq, I_pp, I_A, I_C, I_S, I_D, hv. cbn [add_vote soup lock decided].
    repeat split.
    - (* no equivocation *)
      intros k r t v w Hc [Hv|Hv] [Hw|Hw].
      + rewrite Hv in Hw. injection Hw. auto.
      + subst m. destruct (Hok Hc) as (Hnv & _). cbn in Hnv.
        exfalso. exact (voted_in_false _ _ _ _ _ Hnv Hw).
      + subst m. destruct (Hok Hc) as (Hnv & _). cbn in Hnv.
        exfalso. exact (voted_in_false _ _ _ _ _ Hnv Hv).
      + exact (Hne k r t v w Hc Hv Hw).
    - (* precommit => polka *)
      intros k r b Hc [Hv|Hv]; apply polka_cons.
      + subst m. destruct (Hok Hc) as (_ & _ & _ & Hpc). cbn in Hpc.
        destruct (Hpc eq_refl b eq_refl) as [Hp _]. exact Hp.
      + exact (Hpp k r b Hc Hv).
    - (* I_A *)
      intros k r b Hc [Hv|Hv].
      + subst m. destruct (Hok Hc) as (_ & _ & _ & Hpc). cbn in Hpc.
        destruct (Hpc eq_refl b eq_refl) as [_ Hl]. left. exact Hl.
      + destruct (HA k r b Hc Hv) as [Hl|(r2 & w & Hle & Hw & Hp)]; [left; exact Hl|].
        right. exists r2, w. repeat split; auto. apply polka_cons. exact Hp.
    - (* I_C *)
      intros k r b r' w Hc Hpc Hpv Hlt Hw.
      assert (Hold : (exists r2 w2, (r <= r2)%N /\ w2 <> Some b /\ polka (soup s) r2 w2 = true) ->
                     exists r2 w2, (r <= r2)%N /\ w2 <> Some b /\ polka (m :: soup s) r2 w2 = true).
      { intros (r2 & w2 & ? & ? & ?). exists r2, w2. repeat split; auto. apply polka_cons; auto. }
      destruct Hpc as [Hpc|Hpc]; destruct Hpv as [Hpv|Hpv].
      + rewrite Hpc in Hpv. discriminate.
      + (* the precommit is new: the sender has no vote above r *)
        subst m. destruct (Hok Hc) as (_ & Hrl & _). cbn in Hrl.
        pose proof (rounds_le_spec _ _ _ _ Hrl Hpv eq_refl) as Hle. cbn in Hle. lia.
      + (* the prevote is new: the sender was not locked on b *)
        subst m. destruct (Hok Hc) as (_ & _ & Hpr & _). cbn in Hpr.
        destruct (HA k r b Hc Hpc) as [(lr & Hl & _)|Hex]; [|exact (Hold Hex)].
        exfalso. apply Hw. exact (Hpr eq_refl lr b Hl).
      + exact (Hold (HC k r b r' w Hc Hpc Hpv Hlt Hw)).
    - (* I_S *)
      intros r b r' w Hp Hlt Hw.
      destruct (choosable (m :: soup s) r b) eqn:Hch'; [exfalso|reflexivity].
      assert (Hch : choosable (soup s) r b = true) by (eapply choosable_antimono; eauto).
      (* a correct slot in the polka and in the choosers *)
      assert (Hex : exists k, correct k = true /\ In (mkVote k r' Prevote w) (m :: soup s)
                              /\ chooser (m :: soup s) r b k = true).
      { unfold Spec_Tendermint.polka, Spec_Tendermint.quorum in Hp. unfold choosable in Hch'.
        rewrite over23_spec in Hp, Hch'.
        destruct (quorum_intersection _ _ byz n Hp Hch' Hbyz) as [k [Hk [A [B C]]]].
        exists k. rewrite correct_spec, <- has_vote_In. auto. }
      destruct Hex as (k & Hc & Hpv & Hck).
      assert (Hbk : byz k = false) by (apply correct_spec in Hc; tauto).
      unfold chooser in Hck. rewrite Hbk in Hck. cbn [orb] in Hck.
      apply orb_true_iff in Hck. destruct Hck as [Hpc|Hfree].
      2:{ (* k could still precommit at r: but it has a vote at r' > r *)
          apply andb_true_iff in Hfree. destruct Hfree as [_ Hrl].
          pose proof (rounds_le_spec _ _ _ _ Hrl Hpv eq_refl) as Hle. cbn in Hle. lia. }
      apply has_vote_In in Hpc.
      destruct Hpc as [Hpc|Hpc]; destruct Hpv as [Hpv|Hpv].
      + rewrite Hpc in Hpv. discriminate.
      + subst m. destruct (Hok Hc) as (_ & Hrl & _). cbn in Hrl.
        pose proof (rounds_le_spec _ _ _ _ Hrl Hpv eq_refl) as Hle. cbn in Hle. lia.
      + subst m. destruct (Hok Hc) as (_ & _ & Hpr & _). cbn in Hpr.
        destruct (HA k r b Hc Hpc) as [(lr & Hl & _)|(r2 & w2 & Hle & Hw2 & Hp2)].
        * apply Hw. exact (Hpr eq_refl lr b Hl).
        * exact (bad_polka_contra s r b k r2 w2 HI Hch Hc Hpc Hle Hw2 Hp2).
      + destruct (HC k r b r' w Hc Hpc Hpv Hlt Hw) as (r2 & w2 & Hle & Hw2 & Hp2).
        exact (bad_polka_contra s r b k r2 w2 HI Hch Hc Hpc Hle Hw2 Hp2).
    - (* I_D *)
      intros k b Hd. destruct (HD k b Hd) as [r Hq]. exists r.
      eapply quorum_mono; [|exact Hq]. apply incl_tl, incl_refl.
  Qed.

  Lemma inv_lock s i r b :
    Inv s -> correct i = true -> rounds_le (soup s) i r = true ->
    polka (soup s) r (Some b) = true -> Inv (set_lock s i (Some (r, b))).
  Proof.
    intros (Hne & Hpp & HA & HC & HS & HD) Hc Hrl Hp.
    unfold Inv. repeat split; auto.
    intros k r0 b0 Hck Hv. unfold hv in Hv. cbn [set_lock soup lock] in *.
    unfold upd. destruct (Nat.eqb k i) eqn:E.
    - apply Nat.eqb_eq in E. subst k.
      pose proof (rounds_le_spec _ _ _ _ Hrl Hv eq_refl) as Hle. cbn in Hle.
      destruct (N.eq_dec b0 b) as [->|Hnb].
      + left. exists r. auto.
      + right. exists r, (Some b). repeat split; auto. congruence.
    - exact (HA k r0 b0 Hck Hv).
  Qed.

  Lemma inv_unlock s i lr b r' w :
    Inv s -> lock s i = Some (lr, b) -> (lr <= r')%N -> w <> Some b ->
    polka (soup s) r' w = true -> Inv (set_lock s i None).
  Proof.
    intros (Hne & Hpp & HA & HC & HS & HD) Hl Hle Hw Hp.
    unfold Inv. repeat split; auto.
    intros k r0 b0 Hck Hv. unfold hv in Hv. cbn [set_lock soup lock] in *.
    unfold upd. destruct (Nat.eqb k i) eqn:E.
    - apply Nat.eqb_eq in E. subst k.
      destruct (HA i r0 b0 Hck Hv) as [(lr0 & Hl0 & Hle0)|Hex]; [|right; exact Hex].
      rewrite Hl in Hl0. injection Hl0 as -> ->.
      right. exists r', w. repeat split; auto. lia.
    - exact (HA k r0 b0 Hck Hv).
  Qed.

  Lemma other_polka_from_spec sp r0 b :
    other_polka_from n sp r0 b = true <->
    exists r2 w, (r0 <= r2)%N /\ w <> Some b /\ polka sp r2 w = true.
  Proof.
    unfold other_polka_from. rewrite existsb_exists. split.
    - intros [m [_ H]]. rewrite !andb_true_iff, negb_true_iff in H.
      destruct H as [[[_ Hle] Hw] Hp]. exists (v_round m), (v_value m).
      repeat split; auto. apply N.leb_le; exact Hle. apply value_eqb_neq; exact Hw.
    - intros (r2 & w & Hle & Hw & Hp).
      destruct (quorum_has_correct sp r2 Prevote w Hp) as [k [_ Hin]].
      exists (mkVote k r2 Prevote w). split; [exact Hin|]. cbn.
      rewrite !andb_true_iff, negb_true_iff. repeat split; auto.
      apply N.leb_le; exact Hle. apply value_eqb_neq; exact Hw.
  Qed.

  Lemma lock_covers_spec l r0 b :
    lock_covers l r0 b = true <-> exists lr, l = Some (lr, b) /\ (r0 <= lr)%N.
  Proof.
    unfold lock_covers. destruct l as [[lr lb]|].
    - rewrite andb_true_iff, N.eqb_eq, N.leb_le. split.
      + intros [-> H]. eauto.
      + intros [lr' [E H]]. injection E as -> ->. auto.
    - split; [discriminate|]. intros [lr [E _]]. discriminate.
  Qed.

  (* [lock_safe sp i l] says exactly that clause I_A holds for i under lock l *)
  Lemma lock_safe_spec sp i l :
    lock_safe n sp i l = true <->
    forall r b, In (mkVote i r Precommit (Some b)) sp ->
      (exists lr, l = Some (lr, b) /\ (r <= lr)%N) \/
      (exists r2 w, (r <= r2)%N /\ w <> Some b /\ polka sp r2 w = true).
  Proof.
    unfold lock_safe. rewrite forallb_forall. split.
    - intros H r b Hin. specialize (H _ Hin). cbn in H.
      rewrite Nat.eqb_refl in H. cbn in H.
      apply orb_true_iff in H. destruct H as [H|H].
      + left. apply lock_covers_spec. exact H.
      + right. apply other_polka_from_spec. exact H.
    - intros H m Hm. destruct m as [k r t v]. cbn.
      destruct (Nat.eqb k i) eqn:Ek; [|reflexivity]. apply Nat.eqb_eq in Ek. subst k.
      destruct t; [reflexivity|]. cbn. destruct v as [b|]; [|reflexivity].
      apply orb_true_iff. destruct (H r b Hm) as [Hl|Hp].
      + left. apply lock_covers_spec. exact Hl.
      + right. apply other_polka_from_spec. exact Hp.
  Qed.

  Lemma inv_setlock s i l :
    Inv s -> lock_safe n (soup s) i l = true -> Inv (set_lock s i l).
  Proof.
    intros (Hne & Hpp & HA & HC & HS & HD) Hsafe.
    unfold Inv. repeat split; auto.
    intros k r0 b0 Hck Hv. unfold hv in Hv. cbn [set_lock soup lock] in *.
    unfold upd. destruct (Nat.eqb k i) eqn:E.
    - apply Nat.eqb_eq in E. subst k.
      exact (proj1 (lock_safe_spec _ _ _) Hsafe r0 b0 Hv).
    - exact (HA k r0 b0 Hck Hv).
  Qed.

  Lemma inv_decide s i r b :
    Inv s -> qprecommit (soup s) r (Some b) = true ->
    Inv (mkState (soup s) (lock s) (upd (decided s) i (Some b))).
  Proof.
    intros (Hne & Hpp & HA & HC & HS & HD) Hq.
    unfold Inv. repeat split; auto.
    intros k b0 Hd. cbn [decided soup] in *. unfold upd in Hd.
    destruct (Nat.eqb k i); [injection Hd as <-; eauto|exact (HD k b0 Hd)].
  Qed.

  Lemma inv_init : Inv init.
  Proof.
    unfold Inv, I_noeq, I_pp, I_A, I_C, I_S, I_D, hv. cbn.
    repeat split; try (intros; contradiction); try (intros; discriminate).
    intros r b r' w Hp. exfalso.
    destruct (quorum_has_correct [] r' Prevote w Hp) as [k [_ []]].
  Qed.

  Lemma inv_step s a s' : Inv s -> step s a = Some s' -> Inv s'.
  Proof.
    intros HI Hs. destruct a as [i r v|i r v|i r b|i r' w|i l|i r b|m|i]; cbn in Hs.
    - (* SendPrevote *)
      destruct (correct i) eqn:Hc; cbn in Hs; [|discriminate].
      destruct (voted_in (soup s) i r Prevote) eqn:Hv; cbn in Hs; [discriminate|].
      destruct (rounds_le (soup s) i r) eqn:Hrl; cbn in Hs; [|discriminate].
      destruct (match lock s i with Some (_, b) => value_eqb v (Some b) | None => true end) eqn:Hl;
        [|discriminate].
      injection Hs as <-. apply inv_add_vote; [exact HI|].
      intros _. cbn. split; [exact Hv|]. split; [exact Hrl|]. split.
      + intros _ lr b Hlk. rewrite Hlk in Hl. apply value_eqb_eq. exact Hl.
      + intros Habs. discriminate.
    - (* SendPrecommit *)
      destruct (correct i) eqn:Hc; cbn in Hs; [|discriminate].
      destruct (voted_in (soup s) i r Precommit) eqn:Hv; cbn in Hs; [discriminate|].
      destruct (rounds_le (soup s) i r) eqn:Hrl; cbn in Hs; [|discriminate].
      destruct v as [b|].
      + destruct (polka (soup s) r (Some b)) eqn:Hp; [|discriminate].
        injection Hs as <-. apply inv_add_vote.
        * apply inv_lock; auto.
        * intros _. cbn. split; [exact Hv|]. split; [exact Hrl|]. split; [intros Habs; discriminate|].
          intros _ b0 Hb0. injection Hb0 as <-. split; [exact Hp|].
          exists r. unfold upd. rewrite Nat.eqb_refl. split; [reflexivity|lia].
      + injection Hs as <-. apply inv_add_vote; [exact HI|].
        intros _. cbn. split; [exact Hv|]. split; [exact Hrl|].
        split; [intros Habs; discriminate|]. intros _ b0 Hb0. discriminate.
    - (* Lock *)
      destruct (correct i) eqn:Hc; cbn in Hs; [|discriminate].
      destruct (rounds_le (soup s) i r) eqn:Hrl; cbn in Hs; [|discriminate].
      destruct (polka (soup s) r (Some b)) eqn:Hp; [|discriminate].
      injection Hs as <-. apply inv_lock; auto.
    - (* Unlock *)
      destruct (lock s i) as [[lr b]|] eqn:Hl; [|discriminate].
      destruct (correct i) eqn:Hc; cbn in Hs; [|discriminate].
      destruct (N.leb lr r') eqn:Hle; cbn in Hs; [|discriminate].
      destruct (value_eqb w (Some b)) eqn:Hw; cbn in Hs; [discriminate|].
      destruct (polka (soup s) r' w) eqn:Hp; [|discriminate].
      injection Hs as <-. eapply inv_unlock; eauto.
      * apply N.leb_le. exact Hle.
      * apply value_eqb_neq. exact Hw.
    - (* SetLock *)
      destruct (correct i) eqn:Hc; cbn in Hs; [|discriminate].
      destruct (lock_safe n (soup s) i l) eqn:Hsafe; [|discriminate].
      injection Hs as <-. apply inv_setlock; auto.
    - (* Decide *)
      destruct (correct i) eqn:Hc; cbn in Hs; [|discriminate].
      destruct (qprecommit (soup s) r (Some b)) eqn:Hq; [|discriminate].
      injection Hs as <-. eapply inv_decide; eauto.
    - (* ByzSend *)
      destruct (byz (v_sender m)) eqn:Hb; [|discriminate].
      injection Hs as <-. apply inv_add_vote; [exact HI|].
      intros Hc. apply correct_spec in Hc. destruct Hc as [_ Hc]. congruence.
    - (* CrashRestart *)
      destruct (correct i); [|discriminate]. injection Hs as <-. exact HI.
  Qed.

  Lemma inv_run acts : forall s s', Inv s -> run s acts = Some s' -> Inv s'.
  Proof.
    induction acts as [|a acts IH]; intros s s' HI Hr; cbn in Hr.
    - injection Hr as <-. exact HI.
    - destruct (step s a) as [s1|] eqn:Hs; [|discriminate].
      exact (IH s1 s' (inv_step _ _ _ HI Hs) Hr).
  Qed.

  Lemma run_app s a1 a2 :
    run s (a1 ++ a2) = match run s a1 with Some s' => run s' a2 | None => None end.
  Proof.
    revert s. induction a1 as [|a a1 IH]; intros s; cbn; [reflexivity|].
    destruct (step s a); [apply IH|reflexivity].
  Qed.

  Lemma reachable_init : reachable init.
  Proof. exists []. reflexivity. Qed.

  Lemma reachable_step s a s' : reachable s -> step s a = Some s' -> reachable s'.
  Proof.
    intros [acts Hr] Hs. exists (acts ++ [a]). rewrite run_app, Hr. cbn. rewrite Hs. reflexivity.
  Qed.

  Lemma inv_reachable s : reachable s -> Inv s.
  Proof. intros [acts Hr]. exact (inv_run acts init s inv_init Hr). Qed.

  (* ---------------------------------------------------------------- *)
  (* the theorems                                                      *)

  Theorem no_correct_equivocation s k r t v w :
    reachable s -> correct k = true ->
    has_vote (soup s) k r t v = true -> has_vote (soup s) k r t w = true -> v = w.
  Proof.
    intros Hr Hc Hv Hw. apply has_vote_In in Hv, Hw.
    destruct (inv_reachable s Hr) as (Hne & _). exact (Hne k r t v w Hc Hv Hw).
  Qed.

  Theorem precommit_implies_polka s k r b :
    reachable s -> correct k = true ->
    has_vote (soup s) k r Precommit (Some b) = true -> polka (soup s) r (Some b) = true.
  Proof.
    intros Hr Hc Hv. apply has_vote_In in Hv.
    destruct (inv_reachable s Hr) as (_ & Hpp & _). exact (Hpp k r b Hc Hv).
  Qed.

  Theorem one_polka_per_round s r v w :
    reachable s -> polka (soup s) r v = true -> polka (soup s) r w = true -> v = w.
  Proof.
    intros Hr. destruct (inv_reachable s Hr) as (Hne & _). apply polka_unique. exact Hne.
  Qed.

  (* the lock invariant: once more than 2n/3 slots (Byzantine ones counted) have
     precommitted b in round r, no polka for anything else - block or nil -
     exists in any later round, in any reachable state *)
  Theorem lock_invariant s r b r' w :
    reachable s -> qprecommit (soup s) r (Some b) = true -> (r < r')%N -> w <> Some b ->
    polka (soup s) r' w = false.
  Proof.
    intros Hr Hq Hlt Hw. destruct (inv_reachable s Hr) as (_ & _ & _ & _ & HS & _).
    destruct (polka (soup s) r' w) eqn:Hp; [|reflexivity].
    pose proof (HS r b r' w Hp Hlt Hw) as Hn.
    rewrite (qprecommit_choosable _ _ _ Hq) in Hn. discriminate.
  Qed.

  (* two quorums of precommits, in any two rounds, are for the same block *)
  Theorem one_block_per_height s r1 b1 r2 b2 :
    reachable s -> qprecommit (soup s) r1 (Some b1) = true ->
    qprecommit (soup s) r2 (Some b2) = true -> b1 = b2.
  Proof.
    intros Hr.
    assert (Hlt : forall r1 b1 r2 b2, (r1 < r2)%N ->
              qprecommit (soup s) r1 (Some b1) = true ->
              qprecommit (soup s) r2 (Some b2) = true -> b1 = b2).
    { clear r1 b1 r2 b2. intros r1 b1 r2 b2 Hlt Q1 Q2.
      destruct (N.eq_dec b1 b2) as [E|E]; [exact E|exfalso].
      destruct (quorum_has_correct _ _ _ _ Q2) as [k [Hc Hv]].
      apply has_vote_In in Hv.
      pose proof (precommit_implies_polka s k r2 b2 Hr Hc Hv) as Hp.
      assert (Hw : Some b2 <> Some b1) by congruence.
      rewrite (lock_invariant s r1 b1 r2 (Some b2) Hr Q1 Hlt Hw) in Hp. discriminate. }
    intros Q1 Q2.
    destruct (N.lt_trichotomy r1 r2) as [H|[H|H]].
    - exact (Hlt r1 b1 r2 b2 H Q1 Q2).
    - subst r2. destruct (quorum_two _ _ _ _ _ _ _ Q1 Q2) as [k [Hc [A B]]].
      destruct (inv_reachable s Hr) as (Hne & _).
      pose proof (Hne k r1 Precommit _ _ Hc A B) as E. injection E. auto.
    - symmetry. exact (Hlt r2 b2 r1 b1 H Q2 Q1).
  Qed.

  Theorem decide_needs_quorum s i b :
    reachable s -> decided s i = Some b -> exists r, qprecommit (soup s) r (Some b) = true.
  Proof.
    intros Hr Hd. destruct (inv_reachable s Hr) as (_ & _ & _ & _ & _ & HD). exact (HD i b Hd).
  Qed.

  Theorem agreement s i j v w :
    reachable s -> correct i = true -> correct j = true ->
    decided s i = Some v -> decided s j = Some w -> v = w.
  Proof.
    intros Hr _ _ Hi Hj.
    destruct (decide_needs_quorum s i v Hr Hi) as [r1 Q1].
    destruct (decide_needs_quorum s j w Hr Hj) as [r2 Q2].
    exact (one_block_per_height s r1 v r2 w Hr Q1 Q2).
  Qed.

  (* crash/restart with votes and lock intact does nothing to the abstract state *)
  Lemma crash_restart_identity s i s' : step s (CrashRestart i) = Some s' -> s' = s.
  Proof. cbn. destruct (correct i); [|discriminate]. intros H. injection H. auto. Qed.

  (* lock changes that are always allowed ([SetLock] accepts them) in a reachable
     state: keeping the lock, any lock at all for a validator that is unlocked,
     the same block with a HIGHER lockedRound.  (A LOWER lockedRound is what
     [RestartStale] does; it is refuted below.) *)
  Lemma lock_safe_same s i :
    reachable s -> correct i = true -> lock_safe n (soup s) i (lock s i) = true.
  Proof.
    intros Hr Hc. destruct (inv_reachable s Hr) as (_ & _ & HA & _).
    apply lock_safe_spec. intros r b Hin. exact (HA i r b Hc Hin).
  Qed.

  Lemma lock_safe_unlocked s i l :
    reachable s -> correct i = true -> lock s i = None -> lock_safe n (soup s) i l = true.
  Proof.
    intros Hr Hc Hl. destruct (inv_reachable s Hr) as (_ & _ & HA & _).
    apply lock_safe_spec. intros r b Hin.
    destruct (HA i r b Hc Hin) as [(lr & E & _)|H]; [congruence|right; exact H].
  Qed.

  Lemma lock_safe_raise s i lr b lr' :
    reachable s -> correct i = true -> lock s i = Some (lr, b) -> (lr <= lr')%N ->
    lock_safe n (soup s) i (Some (lr', b)) = true.
  Proof.
    intros Hr Hc Hl Hle. destruct (inv_reachable s Hr) as (_ & _ & HA & _).
    apply lock_safe_spec. intros r b0 Hin.
    destruct (HA i r b0 Hc Hin) as [(lr0 & E & Hle0)|H]; [|right; exact H].
    rewrite Hl in E. injection E as -> ->. left. exists lr'. split; [reflexivity|lia].
  Qed.

  (* a validator that acts on the subset of the soup it has received satisfies
     the evidence guards on the whole soup *)
  Lemma evidence_monotone sp sp' r t v :
    incl sp sp' -> quorum sp r t v = true -> quorum sp' r t v = true.
  Proof. apply quorum_mono. Qed.
End Safety.

(* ================================================================== *)
(* Non-vacuity: four validators, slot 3 Byzantine.                     *)

Definition byz3 (k : nat) : bool := Nat.eqb k 3.

Example byz3_minority : 3 * countn byz3 4 < 4.
Proof. vm_compute. lia. Qed.

(* a one-round decision *)
Definition sched_simple : list action :=
  [ SendPrevote 0 0 (Some 7%N); SendPrevote 1 0 (Some 7%N); SendPrevote 2 0 (Some 7%N);
    SendPrecommit 0 0 (Some 7%N); SendPrecommit 1 0 (Some 7%N); SendPrecommit 2 0 (Some 7%N);
    Decide 0 0 7%N; Decide 1 0 7%N ].

Example sched_simple_decides :
  exists s, run 4 byz3 init sched_simple = Some s /\
            decided s 0 = Some 7%N /\ decided s 1 = Some 7%N /\ lock s 2 = Some (0%N, 7%N).
Proof. eexists. split; [vm_compute; reflexivity|]. repeat split. Qed.

(* a three-round history with a Byzantine equivocator, a lock, a nil polka that
   unlocks, a re-lock, a restart and a late decision in an old round:
   round 0: 0,2 and Byzantine 3 prevote block 7; 0 locks and precommits 7;
            1 prevotes nil; 3 also prevotes 9 (equivocation); 1,2 precommit nil
   round 1: 0 (locked) prevotes 7; 1,2,3 prevote nil -> nil polka; 0 unlocks
            (Unlock 0 1 nil, lockedRound 0 <= 1), everybody precommits nil
   round 2: everybody prevotes 9, precommits 9; 0 decides 9 after a restart;
            1 decides later from the same round. *)
Definition sched_rounds : list action :=
  [ SendPrevote 0 0 (Some 7%N); SendPrevote 2 0 (Some 7%N);
    ByzSend (mkVote 3 0 Prevote (Some 7%N)); ByzSend (mkVote 3 0 Prevote (Some 9%N));
    SendPrevote 1 0 None;
    SendPrecommit 0 0 (Some 7%N); SendPrecommit 1 0 None; SendPrecommit 2 0 None;
    SendPrevote 0 1 (Some 7%N); SendPrevote 1 1 None; SendPrevote 2 1 None;
    ByzSend (mkVote 3 1 Prevote None);
    Unlock 0 1 None;
    SendPrecommit 0 1 None; SendPrecommit 1 1 None; SendPrecommit 2 1 None;
    SendPrevote 0 2 (Some 9%N); SendPrevote 1 2 (Some 9%N); SendPrevote 2 2 (Some 9%N);
    SendPrecommit 0 2 (Some 9%N); SendPrecommit 1 2 (Some 9%N); SendPrecommit 2 2 (Some 9%N);
    CrashRestart 0;
    Decide 0 2 9%N;
    SendPrevote 1 3 (Some 9%N);
    Decide 1 2 9%N ].

Example sched_rounds_decides :
  exists s, run 4 byz3 init sched_rounds = Some s /\
            decided s 0 = Some 9%N /\ decided s 1 = Some 9%N /\
            lock s 0 = Some (2%N, 9%N) /\ decided s 2 = None.
Proof. eexists. split; [vm_compute; reflexivity|]. repeat split. Qed.

(* the guards do reject: a locked validator cannot prevote another block, a
   block cannot be precommitted without a polka, a lock is not released by a
   polka below lockedRound, nobody decides without +2/3 precommits, a correct
   validator cannot vote twice in a round or go back a round *)
Example guards_reject :
  let pre := [ SendPrevote 0 0 (Some 7%N); SendPrevote 1 0 (Some 7%N); SendPrevote 2 0 (Some 7%N);
               SendPrecommit 0 0 (Some 7%N) ] in
  run 4 byz3 init (pre ++ [SendPrevote 0 1 (Some 9%N)]) = None /\
  run 4 byz3 init (pre ++ [SendPrevote 0 1 None]) = None /\
  run 4 byz3 init (pre ++ [SendPrecommit 1 0 (Some 9%N)]) = None /\
  run 4 byz3 init (pre ++ [Decide 1 0 7%N]) = None /\
  run 4 byz3 init (pre ++ [SendPrevote 1 0 None]) = None /\
  run 4 byz3 init (pre ++ [SendPrevote 0 1 (Some 7%N); SendPrecommit 0 0 None]) = None /\
  run 4 byz3 init (pre ++ [SendPrevote 0 5 (Some 7%N); SendPrevote 0 4 (Some 7%N)]) = None /\
  run 4 byz3 init (pre ++ [ByzSend (mkVote 1 0 Prevote None)]) = None /\
  (exists s, run 4 byz3 init (pre ++ [SendPrevote 0 1 (Some 7%N)]) = Some s).
Proof. vm_compute. repeat split; try reflexivity. eexists; reflexivity. Qed.

(* ================================================================== *)
(* Refutation: agreement fails if a restart may restore a stale lock.  *)
(* One Byzantine slot out of four and ONE restart of a correct slot.   *)
(*
   round 0: 0,2,3 prevote block 7; 0 sees the polka, locks (0,7), precommits 7
            (the only time its lock is written to the lock WAL); 1 prevotes nil;
            1,2 precommit nil.
   round 1: 0 prevotes 7 (locked); 1,2,3 prevote nil: a nil polka that 0 does
            not receive yet.  1,2 precommit nil.
   round 2: 0,1,2,3 prevote 7; 0 re-locks 7 at round 2 ("update lock round":
            memory only) and precommits 7; 2 locks and precommits 7; Byzantine
            3 precommits 7.  2 decides 7 (0, 2, 3 precommitted it in round 2).
   restart: 0 comes back locked on (0,7)            <- RestartStale 0 0
            0 now receives the nil polka of round 1: lockedRound 0 < 1, unlock.
   round 3: 0,1 and Byzantine 3 prevote 9 and precommit 9; 1 decides 9.
   Without the stale restart the Unlock step is rejected (lockedRound 2 > 1). *)
Definition sched_stale : list (action_x) :=
  map Plain
  [ SendPrevote 0 0 (Some 7%N); SendPrevote 2 0 (Some 7%N);
    ByzSend (mkVote 3 0 Prevote (Some 7%N)); SendPrevote 1 0 None;
    SendPrecommit 0 0 (Some 7%N); SendPrecommit 1 0 None; SendPrecommit 2 0 None;
    SendPrevote 0 1 (Some 7%N); SendPrevote 1 1 None; SendPrevote 2 1 None;
    ByzSend (mkVote 3 1 Prevote None);
    SendPrecommit 1 1 None; SendPrecommit 2 1 None;
    SendPrevote 0 2 (Some 7%N); SendPrevote 1 2 (Some 7%N); SendPrevote 2 2 (Some 7%N);
    ByzSend (mkVote 3 2 Prevote (Some 7%N));
    SendPrecommit 0 2 (Some 7%N); SendPrecommit 2 2 (Some 7%N);
    ByzSend (mkVote 3 2 Precommit (Some 7%N));
    Decide 2 2 7%N ]
  ++ [ RestartStale 0 0 ] ++
  map Plain
  [ Unlock 0 1 None;
    SendPrevote 0 3 (Some 9%N); SendPrevote 1 3 (Some 9%N);
    ByzSend (mkVote 3 3 Prevote (Some 9%N));
    SendPrecommit 0 3 (Some 9%N); SendPrecommit 1 3 (Some 9%N);
    ByzSend (mkVote 3 3 Precommit (Some 9%N));
    Decide 1 3 9%N ].

Theorem agreement_with_stale_lock_restart_refuted :
  exists n byz acts s i j v w,
    3 * countn byz n < n /\ run_x n byz init acts = Some s /\
    correct n byz i = true /\ correct n byz j = true /\
    decided s i = Some v /\ decided s j = Some w /\ v <> w.
Proof.
  exists 4, byz3, sched_stale.
  eexists. exists 2, 1, 7%N, 9%N.
  split; [vm_compute; lia|].
  split; [vm_compute; reflexivity|].
  repeat split; try reflexivity. discriminate.
Qed.

(* the same schedule without the stale restart is not a run of the protocol:
   the unlock is refused because lockedRound is 2 *)
Definition unstale (a : action_x) : list action :=
  match a with Plain a => [a] | RestartStale _ _ => [] end.

Example sched_without_stale_restart_rejected :
  run 4 byz3 init (flat_map unstale sched_stale) = None.
Proof. vm_compute. reflexivity. Qed.

(* [SetLock] (the general lock change, meant for restarts) draws the line in
   the same place: just before the stale restart of the schedule above,
   validator 0 may come back with its lock (2,7), or with a higher round, but
   not with (0,7) and not unlocked *)
Definition stale_prefix : list action := firstn 21 (flat_map unstale sched_stale).

Example setlock_rejects_stale_lock :
  (exists s, run 4 byz3 init stale_prefix = Some s /\ lock s 0 = Some (2%N, 7%N)) /\
  run 4 byz3 init (stale_prefix ++ [SetLock 0 (Some (0%N, 7%N))]) = None /\
  run 4 byz3 init (stale_prefix ++ [SetLock 0 None]) = None /\
  run 4 byz3 init (stale_prefix ++ [SetLock 0 (Some (2%N, 9%N))]) = None /\
  (exists s, run 4 byz3 init (stale_prefix ++ [SetLock 0 (Some (2%N, 7%N))]) = Some s) /\
  (exists s, run 4 byz3 init (stale_prefix ++ [SetLock 0 (Some (5%N, 7%N))]) = Some s).
Proof.
  vm_compute. repeat split; try reflexivity; eexists; try split; reflexivity.
Qed.

(* whereas a validator that was legitimately unlocked may come back with its
   old lock (consensus.go does not log unlocks): harmless, it then prevotes 7 *)
Example setlock_accepts_relock_after_unlock :
  let pre := firstn 13 sched_rounds in
  (exists s, run 4 byz3 init pre = Some s /\ lock s 0 = None) /\
  (exists s, run 4 byz3 init (pre ++ [SetLock 0 (Some (0%N, 7%N)); SendPrevote 0 2 (Some 7%N)]) = Some s) /\
  run 4 byz3 init (pre ++ [SetLock 0 (Some (0%N, 7%N)); SendPrevote 0 2 (Some 9%N)]) = None.
Proof.
  vm_compute. repeat split; try reflexivity; eexists; try split; reflexivity.
Qed.

(* ================================================================== *)
(* Final statements (interface for Prop_C01.v)                         *)

Theorem tm_quorum_intersection :
  forall (p q b : nat -> bool) (n : nat),
    2 * n < 3 * countn p n -> 2 * n < 3 * countn q n -> 3 * countn b n < n ->
    exists k, k < n /\ p k = true /\ q k = true /\ b k = false.
Proof. exact quorum_intersection. Qed.

Theorem tm_no_equivocation :
  forall (n : nat) (byz : nat -> bool), 3 * countn byz n < n ->
  forall s k r t v w, reachable n byz s -> correct n byz k = true ->
    has_vote (soup s) k r t v = true -> has_vote (soup s) k r t w = true -> v = w.
Proof. intros n byz H s k r t v w. exact (no_correct_equivocation n byz H s k r t v w). Qed.

Theorem tm_precommit_implies_polka :
  forall (n : nat) (byz : nat -> bool), 3 * countn byz n < n ->
  forall s k r b, reachable n byz s -> correct n byz k = true ->
    has_vote (soup s) k r Precommit (Some b) = true -> polka n (soup s) r (Some b) = true.
Proof. intros n byz H s k r b. exact (precommit_implies_polka n byz H s k r b). Qed.

Theorem tm_lock_invariant :
  forall (n : nat) (byz : nat -> bool), 3 * countn byz n < n ->
  forall s r b r' w, reachable n byz s ->
    qprecommit n (soup s) r (Some b) = true -> (r < r')%N -> w <> Some b ->
    polka n (soup s) r' w = false.
Proof. intros n byz H s r b r' w. exact (lock_invariant n byz H s r b r' w). Qed.

Theorem tm_decide_needs_quorum :
  forall (n : nat) (byz : nat -> bool), 3 * countn byz n < n ->
  forall s i b, reachable n byz s -> decided s i = Some b ->
    exists r, qprecommit n (soup s) r (Some b) = true.
Proof. intros n byz H s i b. exact (decide_needs_quorum n byz H s i b). Qed.

Theorem tm_agreement :
  forall (n : nat) (byz : nat -> bool), 3 * countn byz n < n ->
  forall s i j v w, reachable n byz s ->
    correct n byz i = true -> correct n byz j = true ->
    decided s i = Some v -> decided s j = Some w -> v = w.
Proof. intros n byz H s i j v w. exact (agreement n byz H s i j v w). Qed.

Print Assumptions tm_quorum_intersection.
Print Assumptions tm_no_equivocation.
Print Assumptions tm_precommit_implies_polka.
Print Assumptions tm_lock_invariant.
Print Assumptions tm_decide_needs_quorum.
Print Assumptions tm_agreement.
Print Assumptions agreement_with_stale_lock_restart_refuted.
