(* Property C11 — Replay protection: a transaction is included at most once per chain.
   This file holds only the property theorems; definitions are in
   Model_Locator.v, proofs in Proofs_Locator.v.

   Reading the statements.  A history is a list of operations on the locator
   manager and its trackers (NewTracker, New, Add, Commit, Has, in any order, on
   any tracker, with branches).  `hist_ok tsof gof v win init h` says that h is
   built by block validation: every Add in h is made with force = false on a
   tracker from which no child has been created yet (ensureRecordTXIDsInLock
   creates the tracker and adds to it in one critical section), every
   transaction of the Add carries the timestamp `tsof id` and the group
   `gof id` of its id (an id is the hash of the transaction, so both are
   functions of the id), its timestamp passes the window check `win` for the
   block's (timestamp, threshold), and a block that carries transactions does
   not have timestamp 0.  Nothing is assumed about the block timestamps
   otherwise (the code guarantees strictly increasing ones; the theorems do
   not need it), about the thresholds (arbitrary per block), about when and
   which trackers are committed, or about eviction (it is whatever
   addListAndClearOld does).  `chain_ids st t` are the ids recorded in tracker
   t and in all trackers it descends from. *)
From Goloop Require Import lib.Bytes Model_Locator Proofs_Locator.
From Goloop Require Import Link_C11.
Open Scope Z_scope.

(* accepted by CheckTxTimestamp under NewTimestampRange(bts, th) iff bts-th < ts <= bts+th *)
Theorem C11_window : forall bts th ts, range_check bts th ts = 0%N <-> in_window bts th ts.
Proof. exact window_iff. Qed.
Print Assumptions C11_window.

(* and the two error classes: Expired iff ts <= bts-th, Future iff above both bounds *)
Theorem C11_window_classes : forall bts th ts,
  (range_check bts th ts = 1%N <-> ts <= bts - th) /\
  (range_check bts th ts = 2%N <-> (bts - th < ts /\ bts + th < ts)).
Proof. exact window_classes. Qed.
Print Assumptions C11_window_classes.

(* The property as stated does NOT hold for the code as it is: a transaction
   whose timestamp is exactly bts+th of its block is accepted again in a child block. *)
Theorem C11_no_replay_refuted :
  exists tsof gof h t, hist_ok tsof gof VCode in_window init h /\
                       ~ NoDup (chain_ids (run init h) t).
Proof. exact no_replay_refuted. Qed.
Print Assumptions C11_no_replay_refuted.

(* What does hold for the code as it is: no id twice along any chain, for all
   histories whose transactions are inside the window but not at its top point. *)
Theorem C11_no_replay_except_bound : forall tsof gof h,
  hist_ok tsof gof VCode in_window_open init h ->
  forall t, NoDup (chain_ids (run init h) t).
Proof. exact no_replay_except_bound. Qed.
Print Assumptions C11_no_replay_except_bound.

Theorem C11_open_window : forall bts th ts,
  in_window_open bts th ts <-> in_window bts th ts /\ ts <> bts + th.
Proof. exact open_iff. Qed.
Print Assumptions C11_open_window.

(* That single point is the only gap: with `>` instead of `>=` in the guard of
   tracker.Has (and nothing else changed) the full statement holds. *)
Theorem C11_no_replay_strict_guard : forall tsof gof h,
  hist_ok tsof gof VStrict in_window init h ->
  forall t, NoDup (chain_ids (run_v VStrict init h) t).
Proof. exact no_replay_strict. Qed.
Print Assumptions C11_no_replay_strict_guard.

(* The gap concerns uncommitted ancestors only.  For the code as it is and the
   full window (top point included): when a validated Add records ids in a
   fresh tracker, none of them is an id of a committed tracker of its chain
   (`cchain_from`: the ids of the closed trackers along the chain) — whether the
   committed list is still cached or was evicted to the database. *)
Theorem C11_committed_never_replayed : forall tsof gof h t txs,
  hist_ok tsof gof VCode in_window init (h ++ [OAdd t txs false]) ->
  let st := run init h in
  forall st' cnt cls tk tk',
    tracker_add st t txs false = Some (st', cnt, cls) ->
    get (s_trk st) t = Some tk -> t_ids tk = [] -> get (s_trk st') t = Some tk' ->
    forall X, In X (t_ids tk') -> ~ In X (cchain_from (s_trk st) (t_gparent tk)).
Proof. exact committed_not_replayed. Qed.
Print Assumptions C11_committed_never_replayed.

(* The two defects repaired by ba5b843, as variants of the model.  The first
   refutes C11_no_replay_except_bound, the second C11_committed_never_replayed
   (Proofs_Locator: h_early_now / h_maxle_now show that the code as it is
   rejects the replay of exactly these histories). *)
Theorem C11_pre_fix_early_return_refuted :
  exists tsof gof h t, hist_ok tsof gof VPreEarly in_window_open init h /\
                       ~ NoDup (chain_ids (run_v VPreEarly init h) t).
Proof. exact pre_early_refuted. Qed.
Print Assumptions C11_pre_fix_early_return_refuted.

Theorem C11_pre_fix_maxts_refuted :
  exists tsof gof h t, hist_ok tsof gof VPreMaxLe in_window init h /\
                       ~ NoDup (chain_ids (run_v VPreMaxLe init h) t).
Proof. exact pre_maxle_refuted. Qed.
Print Assumptions C11_pre_fix_maxts_refuted.

Theorem C11_pre_fix_maxts_replays_committed :
  let st := run_v VPreMaxLe init (firstn 8 h_maxle) in
  In 7%N (cchain_from (s_trk st) (Some 2%nat)) /\
  exists st', tracker_add_v VPreMaxLe st 3 [(7%N, 110)] false = Some (st', 1%nat, 0%N).
Proof. exact pre_maxle_replays_committed. Qed.
Print Assumptions C11_pre_fix_maxts_replays_committed.

(* ---- kernel links (Link_C11.v).  The five kernels are re-generated from
   service/tschecker.go and common/txlocator/manager.go on every run (tools/go2coq);
   the window test, the guard of tracker.Has and the maxTSInDB shortcut of the model
   (variant VCode) ARE the decisions of the current Go code.  i64 x says x is an int64
   (the Go sum / difference does not overflow); ts_err_of_class maps the classes
   0 / 1 / 2 of check_ts to nil / ExpiredTransactionError / FutureTransactionError ---- *)
Theorem C11_kernel_CheckTxTimestamp : forall min max ts,
  CheckTxTimestamp min max ts = ts_err_of_class (check_ts min max ts).
Proof. exact check_ts_is_CheckTxTimestamp. Qed.
Print Assumptions C11_kernel_CheckTxTimestamp.

Theorem C11_kernel_timestampRangeMin : forall bts th ts, i64 (bts - th) ->
  range_check bts th ts = check_ts (timestampRangeMin bts th) (bts + th) ts.
Proof. exact range_min_is_kernel. Qed.
Print Assumptions C11_kernel_timestampRangeMin.

Theorem C11_kernel_timestampRangeMax : forall bts th ts, i64 (bts + th) ->
  range_check bts th ts = check_ts (bts - th) (timestampRangeMax bts th) ts.
Proof. exact range_max_is_kernel. Qed.
Print Assumptions C11_kernel_timestampRangeMax.

(* the window of the theorems above is what NewTimestampRange(bts, th).CheckTx accepts *)
Theorem C11_kernel_window : forall bts th ts, i64 (bts - th) -> i64 (bts + th) ->
  (in_window bts th ts <->
   CheckTxTimestamp (timestampRangeMin bts th) (timestampRangeMax bts th) ts = ts_err_of_class 0).
Proof. exact in_window_is_kernels. Qed.
Print Assumptions C11_kernel_window.

Theorem C11_kernel_trackerHasGuard : forall ts lts lth, i64 (lts + lth) ->
  skip_own VCode ts (lts + lth) = trackerHasGuard ts lts lth.
Proof. exact skip_own_is_trackerHasGuard. Qed.
Print Assumptions C11_kernel_trackerHasGuard.

Theorem C11_kernel_locatorCacheMiss : forall l ts,
  db_skip VCode l ts = locatorCacheMiss l ts.
Proof. exact db_skip_is_locatorCacheMiss. Qed.
Print Assumptions C11_kernel_locatorCacheMiss.

Theorem C11_kernel_params : Link_C11.kernel_params_pinned.
Proof. exact Link_C11.kernel_params_ok. Qed.
Print Assumptions C11_kernel_params.

(* ---- restarts of the node (ORestart: a new locator manager over the same database:
   m.locators and the caches empty, maxTSInDB = 0, the blocks that were not finalized lost;
   the chain continues with manager.NewTracker from a finalized block) ---- *)

(* With restarts the property does NOT hold for the code as it is, even away from the
   bound ts = bts+th and even with `>` in the guard: after a restart the new manager
   does not know the bound of the data already in the database; when its first list
   is evicted, maxTSInDB becomes that list's ts+th, which can be below the timestamp
   of a transaction finalized before the restart under a larger threshold; the cache
   shortcut then skips the database.  hist_ok_free: every Add is a validated one. *)
Theorem C11_restart_refuted :
  exists tsof gof h t,
    hist_ok_free tsof gof VCode in_window_open init h /\ ~ NoDup (chain_ids (run init h) t).
Proof. exact restart_refuted. Qed.
Print Assumptions C11_restart_refuted.

Theorem C11_restart_refuted_strict_guard :
  exists tsof gof h t,
    hist_ok_free tsof gof VStrict in_window_open init h /\
    ~ NoDup (chain_ids (run_v VStrict init h) t).
Proof. exact restart_refuted_strict. Qed.
Print Assumptions C11_restart_refuted_strict_guard.

(* What holds with restarts.  hist_ok_r adds to hist_ok, for every block (NewTracker /
   New) created in a state m: RInv.preok m g (ts+th) — every id of the block's group that
   is in the database, is not in m.locators, while maxTSInDB of the group is 0
   (unknown), has timestamp <= ts+th of the new block (ids with timestamp <= 0 aside).
   Before the first restart no such id exists; after a restart these are the ids
   finalized by the earlier processes, until the first eviction.  It is implied by
   "ts+th of a block is never below the largest timestamp finalized so far"
   (C11_restart_condition), e.g. by a threshold that does not shrink across a
   restart faster than block time advances. *)
Theorem C11_no_replay_with_restarts_except_bound : forall tsof gof h,
  hist_ok_r tsof gof VCode in_window_open init h ->
  forall t, NoDup (chain_ids (run init h) t).
Proof. exact no_replay_restart_except_bound. Qed.
Print Assumptions C11_no_replay_with_restarts_except_bound.

Theorem C11_no_replay_with_restarts_strict_guard : forall tsof gof h,
  hist_ok_r tsof gof VStrict in_window init h ->
  forall t, NoDup (chain_ids (run_v VStrict init h) t).
Proof. exact no_replay_restart_strict. Qed.
Print Assumptions C11_no_replay_with_restarts_strict_guard.

Theorem C11_restart_condition : forall tsof gof m g bound,
  (forall X, In X (m_db m) -> gof X = g -> tsof X <= bound) -> RInv.preok tsof gof m g bound.
Proof. exact preok_of_db_bound. Qed.
Print Assumptions C11_restart_condition.

(* ---- the transition layer (service/transition.go): the threshold of a group is the one
   of the state the block is executed on, for the window AND for the id list ---- *)
From Goloop Require Import Model_TxChain Proofs_TxChain.

(* a block accepted by validation: every normal transaction lies in
   (bts - th, bts + th] with th = TransactionTimestampThreshold of the parent's result
   state, and the id list created for the block has exactly that (bts, th): the
   hypothesis under which the locator theorems above speak about this Add *)
Theorem C11_chain_normal_accept_partial : forall b par bts txs newms b' rp,
  nth_error (b_trs b) par = Some rp ->
  bstep b (BNormal par bts txs false newms) = (b', 0%N) ->
  (forall p, In p txs -> in_window bts (th_of_state (r_ms rp)) (snd p)) /\
  exists r tk, b_trs b' = b_trs b ++ [r] /\ r_par r = Some par /\
    get (s_trk (b_loc b')) (r_n r) = Some tk /\
    t_ts tk = bts /\ t_th tk = th_of_state (r_ms rp).
Proof. exact chain_normal_accept. Qed.
Print Assumptions C11_chain_normal_accept_partial.

(* the same for the patch group: the patching block's time and the constant 1 minute *)
Theorem C11_chain_patch_accept_partial : forall b tr bts ptxs b' rt,
  nth_error (b_trs b) tr = Some rt -> ptxs <> [] ->
  bstep b (BPatch tr bts ptxs) = (b', 0%N) ->
  (forall p, In p ptxs -> in_window bts patch_th (snd p)) /\
  exists r tk, b_trs b' = b_trs b ++ [r] /\
    get (s_trk (b_loc b')) (r_p r) = Some tk /\ t_ts tk = bts /\ t_th tk = patch_th.
Proof. exact chain_patch_accept. Qed.
Print Assumptions C11_chain_patch_accept_partial.

(* a block rejected as Expired / Future does carry a transaction outside that window *)
Theorem C11_chain_normal_reject_window : forall b par bts txs newms b' rp v,
  nth_error (b_trs b) par = Some rp ->
  bstep b (BNormal par bts txs false newms) = (b', v) -> (v = 2%N \/ v = 3%N) ->
  exists p, In p txs /\ ~ in_window bts (th_of_state (r_ms rp)) (snd p).
Proof. exact chain_normal_reject_window. Qed.
Print Assumptions C11_chain_normal_reject_window.
