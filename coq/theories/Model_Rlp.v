(* Model_Rlp.v — executable model of goloop's RLP codec
     common/codec/rlp.go     rlpReader (readBytes, readList, ReadRaw, limitReader, maxSB),
                             rlpWriter (writeBytes, writeList, writeNull)
     common/codec/codec.go   encoderImpl.encodeValue / decoderImpl.decodeValue and their
                             helpers (decodeNullableValue, decodeRecursiveFields, tryCustom, flush)
     common/codec/bytes.go   UnmarshalFromBytes (maxSB := len(input), fresh decoder state)
     common/intconv/bytes.go the integer <-> bytes functions used by the two files above.
   No proofs in this file (Proofs_Rlp.v).

   Go types are mirrored by a universe [ty]; Go values by [value], which keeps nil and
   empty apart wherever Go does (nil []byte / nil slice / nil map / nil pointer).
   Reflection itself (which struct fields are visited, flattening of embedded structs,
   which custom interface a type implements) is NOT modelled: the harness maps a Go type
   to its universe code.

   Reader state.  A Go rlpReader is a chain of limitReaders over one bytes.Buffer.  The
   model keeps, for the reader of the current nesting level,
     view  : the bytes this level can still obtain (min over the chain of limits),
     sh    : "short" — this level's own limit is larger than what the chain can deliver
             (a list whose declared size exceeds the enclosing data).  At an exhausted
             level a header read yields io.EOF when sh = false and ErrInvalidFormat when
             sh = true (limitReader.Read turns the parent's EOF into an error),
     mx    : rlpReader.maxSB,
     pend  : decoderImpl.child left behind by a list that was abandoned because
             ErrNilValue escaped from one of its struct fields: the number of bytes that
             reader may still deliver.  It is drained by the next flush() (only custom
             DecodeSelfer types flush) or silently replaced by the next list.
             Since commit 9a1f237 nothing abandons a reader any more (pend stays 0, see
             Proofs_Rlp.dec_pend); the component is kept because the model is parametrised
             by the behaviour before that commit ([dec_pre], the refuted variant).   *)
From Goloop Require Import lib.Bytes.
Open Scope N_scope.

Definition len (l : bytes) : N := N.of_nat (length l).

(* ------------------------------------------------------------------------- *)
(* intconv                                                                    *)
(* ------------------------------------------------------------------------- *)

(* big-endian value *)
Fixpoint be_n (bs : bytes) : N :=
  match bs with
  | [] => 0
  | b :: r => b * 2 ^ (8 * len r) + be_n r
  end.

(* number of bytes of the minimal unsigned big-endian form (0 for 0) *)
Definition nbytes (n : N) : nat := N.to_nat ((N.size n + 7) / 8).

(* intconv.SizeToBytes (for sizes below 2^64) *)
Definition size_to_bytes (n : N) : bytes :=
  if n =? 0 then [0] else be_bytes (nbytes n) n.

(* intconv.SafeBytesToSize: at most 8 bytes, value at most math.MaxInt *)
Definition max_int : N := 2 ^ 63 - 1.
Definition bytes_to_size (bs : bytes) : option N :=
  if (8 <? length bs)%nat then None
  else let n := be_n bs in if n <=? max_int then Some n else None.

(* minimal two's complement: intconv.Int64ToBytes on int64, intconv.Uint64ToBytes on
   uint64 (a zero byte is prepended when the top bit is set), intconv.BigIntToBytes *)
Definition z_nbytes (z : Z) : nat :=
  let m := if (z <? 0)%Z then (- z - 1)%Z else z in
  N.to_nat (N.size (Z.to_N m) / 8 + 1).
Definition z_to_bytes (z : Z) : bytes :=
  let k := z_nbytes z in
  be_bytes k (Z.to_N (z mod 2 ^ (8 * Z.of_nat k))).

(* intconv.BigIntSetBytes; SafeBytesToInt64 is this restricted to at most 8 bytes *)
Definition bytes_to_z (bs : bytes) : Z :=
  match bs with
  | [] => 0%Z
  | b :: _ =>
      if 128 <=? b then (Z.of_N (be_n bs) - 2 ^ (8 * Z.of_nat (length bs)))%Z
      else Z.of_N (be_n bs)
  end.

Definition bytes_to_int64 (bs : bytes) : option Z :=
  if (8 <? length bs)%nat then None else Some (bytes_to_z bs).

(* intconv.SafeBytesToUint64 *)
Definition bytes_to_uint64 (bs : bytes) : option N :=
  match bs with
  | [] => Some 0
  | b :: r =>
      if b =? 0 then (if (8 <? length r)%nat then None else Some (be_n r))
      else if 128 <=? b then None
      else if (8 <? length bs)%nat then None else Some (be_n bs)
  end.

(* rlpReader.readUintValue / readIntValue: width checks *)
Definition to_uint (w : N) (bs : bytes) : option N :=
  match bytes_to_uint64 bs with
  | Some n => if n <? 2 ^ w then Some n else None
  | None => None
  end.
Definition in_int_range (w : N) (z : Z) : bool :=
  ((- 2 ^ (Z.of_N w - 1) <=? z) && (z <? 2 ^ (Z.of_N w - 1)))%Z.
Definition to_int (w : N) (bs : bytes) : option Z :=
  match bytes_to_int64 bs with
  | Some z => if in_int_range w z then Some z else None
  | None => None
  end.
Definition to_bool (bs : bytes) : option bool :=
  match bytes_to_uint64 bs with
  | Some 0 => Some false
  | Some 1 => Some true
  | _ => None
  end.

(* ------------------------------------------------------------------------- *)
(* rlpWriter                                                                  *)
(* ------------------------------------------------------------------------- *)

Definition null : bytes := [0xF8; 0].

Definition enc_bytes (b : bytes) : bytes :=
  match b with
  | [] => [0x80]
  | [x] => if x <? 0x80 then [x] else [0x81; x]
  | _ => if len b <=? 55 then (0x80 + len b) :: b
         else let s := size_to_bytes (len b) in (0xB7 + len s) :: s ++ b
  end.

Definition enc_list (p : bytes) : bytes :=
  if len p <=? 55 then (0xC0 + len p) :: p
  else let s := size_to_bytes (len p) in (0xF7 + len s) :: s ++ p.

(* ------------------------------------------------------------------------- *)
(* universe                                                                   *)
(* ------------------------------------------------------------------------- *)

Inductive ty :=
| TUint (w : N)            (* uint8/16/32/64, uint (64-bit platform) *)
| TInt (w : N)             (* int8/16/32/64, int *)
| TBool
| TString
| TBytes                   (* []byte *)
| TByteArr (n : nat)       (* [n]byte *)
| TBig                     (* big.Int (the *big.Int case of tryCustom) and common.HexInt (BinaryMarshaler) *)
| TRaw                     (* a type with MarshalRLP/UnmarshalRLP: one raw RLP item *)
| TSelf (t : ty)           (* a DecodeSelfer/EncodeSelfer wrapping one value: d.Decode(&inner) *)
| TList (t : ty)           (* []T, T not a byte *)
| TArray (n : nat) (t : ty)(* [n]T, T not a byte *)
| TStruct (ts : list ty)   (* exported fields in order, embedded structs flattened *)
| TMap (k t : ty)
| TPtr (t : ty).

Inductive value :=
| VUint (n : N)
| VInt (z : Z)
| VBool (b : bool)
| VString (s : bytes)
| VBytes (b : option bytes)                    (* None = nil slice *)
| VByteArr (b : bytes)
| VBig (z : Z)
| VRaw (b : bytes)
| VList (l : option (list value))              (* None = nil slice *)
| VArray (l : list value)
| VStruct (l : list value)
| VMap (m : option (list (value * value)))     (* None = nil map *)
| VPtr (p : option value).                     (* None = nil pointer *)

(* reflect.Zero *)
Fixpoint zero (t : ty) : value :=
  match t with
  | TUint _ => VUint 0
  | TInt _ => VInt 0
  | TBool => VBool false
  | TString => VString []
  | TBytes => VBytes None
  | TByteArr n => VByteArr (repeat 0 n)
  | TBig => VBig 0
  | TRaw => VRaw []
  | TSelf t' => zero t'
  | TList _ => VList None
  | TArray n t' => VArray (repeat (zero t') n)
  | TStruct ts => VStruct (map zero ts)
  | TMap _ _ => VMap None
  | TPtr _ => VPtr None
  end.

(* ------------------------------------------------------------------------- *)
(* map keys: the three key kinds encodeValue sorts                            *)
(* ------------------------------------------------------------------------- *)

Fixpoint bytes_ltb (a b : bytes) : bool :=      (* Go string < *)
  match a, b with
  | _, [] => false
  | [], _ :: _ => true
  | x :: a', y :: b' => (x <? y) || ((x =? y) && bytes_ltb a' b')
  end.

Definition key_lt (a b : value) : bool :=
  match a, b with
  | VString x, VString y => bytes_ltb x y
  | VInt x, VInt y => (x <? y)%Z
  | VUint x, VUint y => x <? y
  | _, _ => false
  end.

(* sorted association list: insert or replace *)
Fixpoint map_insert {A} (k : value) (x : A) (acc : list (value * A)) : list (value * A) :=
  match acc with
  | [] => [(k, x)]
  | (k', x') :: r =>
      if key_lt k k' then (k, x) :: acc
      else if key_lt k' k then (k', x') :: map_insert k x r
      else (k, x) :: r
  end.

Definition sort_by_key {A} (l : list (value * A)) : list (value * A) :=
  fold_right (fun kv acc => map_insert (fst kv) (snd kv) acc) [] l.

(* ------------------------------------------------------------------------- *)
(* encoder: encoderImpl.encodeValue (value-directed: a Go value carries its type) *)
(* ------------------------------------------------------------------------- *)

Fixpoint enc (v : value) : bytes :=
  match v with
  | VUint n => enc_bytes (z_to_bytes (Z.of_N n))
  | VInt z => enc_bytes (z_to_bytes z)
  | VBool b => enc_bytes [if b then 1 else 0]
  | VString s => enc_bytes s
  | VBytes None => null
  | VBytes (Some b) => enc_bytes b
  | VByteArr b => enc_bytes b
  | VBig z => enc_bytes (z_to_bytes z)
  | VRaw b => b
  | VList None => null
  | VList (Some l) => enc_list (concat (map enc l))
  | VArray l => enc_list (concat (map enc l))
  | VStruct l => enc_list (concat (map enc l))
  | VMap None => null
  | VMap (Some ps) =>
      enc_list (concat (map snd (sort_by_key
        (map (fun kv => match kv with (k, x) => (k, enc k ++ enc x) end) ps))))
  | VPtr None => null
  | VPtr (Some x) => enc x
  end.

(* ------------------------------------------------------------------------- *)
(* rlpReader                                                                  *)
(* ------------------------------------------------------------------------- *)

Inductive hres (A : Type) :=
| HOk (a : A) (rest : bytes)
| HNil (rest : bytes)          (* ErrNilValue, after consuming f8 00 *)
| HEof                         (* io.EOF on the header byte, nothing consumed *)
| HErr.
Arguments HOk {A}. Arguments HNil {A}. Arguments HEof {A}. Arguments HErr {A}.

(* readAll of n bytes *)
Definition take (n : N) (v : bytes) : option (bytes * bytes) :=
  if n <=? len v then Some (firstn (N.to_nat n) v, skipn (N.to_nat n) v) else None.

(* readSize *)
Definition read_size (k : N) (v : bytes) : option (N * bytes) :=
  match take k v with
  | None => None
  | Some (sb, r) =>
      match bytes_to_size sb with
      | None => None
      | Some n => Some (n, r)
      end
  end.

Definition hdr_eof {A} (sh : bool) : hres A := if sh then HErr else HEof.

(* rlpReader.readBytes *)
Definition read_bytes (sh : bool) (mx : N) (v : bytes) : hres bytes :=
  match v with
  | [] => hdr_eof sh
  | tag :: r =>
      if tag <? 0x80 then HOk [tag] r
      else if tag <=? 0xB7 then
        match take (tag - 0x80) r with
        | Some (b, r') => HOk b r'
        | None => HErr
        end
      else if tag <? 0xC0 then
        match read_size (tag - 0xB7) r with
        | None => HErr
        | Some (n, r') =>
            if mx <? n then HErr
            else match take n r' with
                 | Some (b, r'') => HOk b r''
                 | None => HErr
                 end
        end
      else if tag =? 0xF8 then
        match read_size 1 r with
        | Some (n, r') => if n =? 0 then HNil r' else HErr
        | None => HErr
        end
      else HErr
  end.

(* rlpReader.readList: the declared payload size *)
Definition read_list (sh : bool) (v : bytes) : hres N :=
  match v with
  | [] => hdr_eof sh
  | tag :: r =>
      if tag <? 0xC0 then HErr
      else if tag <=? 0xF7 then HOk (tag - 0xC0) r
      else
        match read_size (tag - 0xF7) r with
        | None => HErr
        | Some (n, r') => if (tag =? 0xF8) && (n =? 0) then HNil r' else HOk n r'
        end
  end.

(* rlpReader.readMore / ReadRaw *)
Definition read_more (mx : N) (org : bytes) (size : N) (r : bytes) : hres bytes :=
  if mx <? size + len org then HErr
  else match take size r with
       | Some (b, r') => HOk (org ++ b) r'
       | None => HErr
       end.

Definition read_raw (sh : bool) (mx : N) (v : bytes) : hres bytes :=
  match v with
  | [] => hdr_eof sh
  | tag :: r =>
      if tag <? 0x80 then HOk [tag] r
      else if tag <=? 0xB7 then read_more mx [tag] (tag - 0x80) r
      else if tag <? 0xC0 then
        match take (tag - 0xB7) r with
        | None => HErr
        | Some (sb, r') =>
            match bytes_to_size sb with
            | None => HErr
            | Some n => read_more mx (tag :: sb) n r'
            end
        end
      else if tag <=? 0xF7 then read_more mx [tag] (tag - 0xC0) r
      else
        match take (tag - 0xF7) r with
        | None => HErr
        | Some (sb, r') =>
            match bytes_to_size sb with
            | None => HErr
            | Some n => read_more mx (tag :: sb) n r'
            end
        end
  end.

(* ------------------------------------------------------------------------- *)
(* decoder                                                                    *)
(* ------------------------------------------------------------------------- *)

Definition st := (bytes * N)%type.          (* view, pend *)

Inductive res :=
| ROk (v : value) (s : st)
| RNil (s : st)                (* ErrNilValue *)
| REof (s : st)                (* io.EOF *)
| RErr                         (* any other error *)
| RFuel.                       (* the model ran out of fuel: excluded by dec_no_fuel *)

Inductive lres (A : Type) :=
| LOk (a : A) (s : st)
| LNil (s : st)
| LErr
| LFuel.
Arguments LOk {A}. Arguments LNil {A}. Arguments LErr {A}. Arguments LFuel {A}.

Definition lcons {A} (x : A) (r : lres (list A)) : lres (list A) :=
  match r with
  | LOk l s => LOk (x :: l) s
  | LNil s => LNil s
  | LErr => LErr
  | LFuel => LFuel
  end.

Definition of_bytes (h : hres bytes) (v : bytes) (pend : N) (f : bytes -> option value) : res :=
  match h with
  | HOk b r => match f b with Some x => ROk x (r, pend) | None => RErr end
  | HNil r => RNil (r, pend)
  | HEof => REof (v, pend)
  | HErr => RErr
  end.

(* [n]byte: reflect.Copy into the zeroed array *)
Definition fit (n : nat) (b : bytes) : bytes := firstn n (b ++ repeat 0 n).

(* child reader of a list with declared size sz, opened when the parent can deliver r *)
Definition child_view (sz : N) (r : bytes) : bytes :=
  if sz <=? len r then firstn (N.to_nat sz) r else r.
Definition child_short (sz : N) (r : bytes) : bool := len r <? sz.
Definition after_child (sz : N) (r : bytes) : bytes :=
  if sz <=? len r then skipn (N.to_nat sz) r else [].

(* d.flush() after the elements: Close() drains the child; fails when it is short *)
Definition close_ok (csh : bool) (sz : N) (r : bytes) (x : value) : res :=
  if csh then RErr else ROk x (after_child sz r, 0).

(* ErrNilValue escaped from a field: the child reader stays in d.child un-closed *)
Definition abandon (sz : N) (r cv rest : bytes) : st :=
  (rest ++ after_child sz r, sz - (len cv - len rest)).

(* flush() of an abandoned child: Close() drains what it may still deliver *)
Definition drain (p : N) (v : bytes) : option bytes :=
  if p <=? len v then Some (skipn (N.to_nat p) v) else None.

Section Loops.
  Variable elem : bytes -> N -> res.      (* decodeNullableValue of one element at the child level *)
  Variable zv : value.                    (* reflect.Zero of the element type *)

  (* slice: until io.EOF *)
  Fixpoint loop_items (fuel : nat) (v : bytes) (p : N) : lres (list value) :=
    match fuel with
    | O => LFuel
    | S f =>
        match elem v p with
        | ROk x (v', p') => lcons x (loop_items f v' p')
        | RNil (v', p') => lcons zv (loop_items f v' p')
        | REof s => LOk [] s
        | RErr => LErr
        | RFuel => LFuel
        end
    end.

  (* array: at most n elements, io.EOF leaves the rest zero *)
  Fixpoint loop_upto (n : nat) (v : bytes) (p : N) : lres (list value) :=
    match n with
    | O => LOk [] (v, p)
    | S k =>
        match elem v p with
        | ROk x (v', p') => lcons x (loop_upto k v' p')
        | RNil (v', p') => lcons zv (loop_upto k v' p')
        | REof s => LOk (repeat zv (S k)) s
        | RErr => LErr
        | RFuel => LFuel
        end
    end.
End Loops.

(* decodeRecursiveFields: io.EOF zeroes the field and goes on; ErrNilValue escapes *)
Fixpoint loop_fields (ds : list ((bytes -> N -> res) * value)) (v : bytes) (p : N)
  : lres (list value) :=
  match ds with
  | [] => LOk [] (v, p)
  | (d, z) :: ds' =>
      match d v p with
      | ROk x (v', p') => lcons x (loop_fields ds' v' p')
      | REof (v', p') => lcons z (loop_fields ds' v' p')
      | RNil s => LNil s
      | RErr => LErr
      | RFuel => LFuel
      end
  end.

Section MapLoop.
  Variable kd vd : bytes -> N -> res.
  Variable zv : value.

  Fixpoint loop_map (fuel : nat) (acc : list (value * value)) (v : bytes) (p : N)
    : lres (list (value * value)) :=
    match fuel with
    | O => LFuel
    | S f =>
        match kd v p with
        | REof s => LOk acc s
        | RNil _ => LErr                       (* InvalidFormat(NilKey) *)
        | RErr => LErr
        | RFuel => LFuel
        | ROk k (v', p') =>
            match vd v' p' with
            | ROk x (v'', p'') => loop_map f (map_insert k x acc) v'' p''
            | RNil (v'', p'') => loop_map f (map_insert k zv acc) v'' p''
            | REof _ => LErr                   (* InvalidFormat(NoValue) *)
            | RErr => LErr
            | RFuel => LFuel
            end
        end
    end.
End MapLoop.

(* decoderImpl.decodeValue on a pointer to a value of type t.
   sh, mx: the current reader; v, pend: its state.
   pre = false: the current code — ErrNilValue from a struct field is reported as
                ErrInvalidFormat (commit 9a1f237);
   pre = true : the code before that commit — ErrNilValue escapes from the Struct case
                with the struct's list reader still open (kept as the refuted variant). *)
Section Dec.
Variable pre : bool.
Fixpoint dec_gen (t : ty) (sh : bool) (mx : N) (v : bytes) (pend : N) {struct t} : res :=
  match t with
  | TUint w => of_bytes (read_bytes sh mx v) v pend (fun b => option_map VUint (to_uint w b))
  | TInt w => of_bytes (read_bytes sh mx v) v pend (fun b => option_map VInt (to_int w b))
  | TBool => of_bytes (read_bytes sh mx v) v pend (fun b => option_map VBool (to_bool b))
  | TString => of_bytes (read_bytes sh mx v) v pend (fun b => Some (VString b))
  | TBytes =>
      match read_bytes sh mx v with
      | HOk b r => ROk (VBytes (Some b)) (r, pend)
      | HNil r => ROk (VBytes None) (r, pend)
      | HEof => REof (v, pend)
      | HErr => RErr
      end
  | TByteArr n => of_bytes (read_bytes sh mx v) v pend (fun b => Some (VByteArr (fit n b)))
  | TBig => of_bytes (read_bytes sh mx v) v pend (fun b => Some (VBig (bytes_to_z b)))
  | TRaw => of_bytes (read_raw sh mx v) v pend (fun b => Some (VRaw b))
  | TSelf t' =>
      (* RLPDecodeSelf: d.Decode(&inner) = flush, decodeValue; then tryCustom flushes again.
         tryCustom (commit 8783bcf) turns ErrNilValue into ErrInvalidFormat when d.child is
         still set; after the flush above and with pre = false no child is open when the
         inner decodeValue reports nil, so that branch cannot be reached from this pattern
         (it guards self-decoders that open their own list, e.g. TypedObj: not modelled) *)
      match drain pend v with
      | None => RErr
      | Some v' =>
          match dec_gen t' sh mx v' 0 with
          | ROk x (v'', p'') =>
              match drain p'' v'' with
              | Some v3 => ROk x (v3, 0)
              | None => RErr
              end
          | o => o
          end
      end
  | TList t' =>
      match read_list sh v with
      | HEof => REof (v, pend)
      | HErr => RErr
      | HNil r => ROk (VList None) (r, pend)
      | HOk sz r =>
          let cv := child_view sz r in
          let csh := child_short sz r in
          let cmx := N.min mx sz in
          match loop_items (dec_gen t' csh cmx) (zero t') (S (length cv)) cv 0 with
          | LOk l _ => close_ok csh sz r (VList (Some l))
          | LNil _ => RErr
          | LErr => RErr
          | LFuel => RFuel
          end
      end
  | TArray n t' =>
      match read_list sh v with
      | HEof => REof (v, pend)
      | HErr => RErr
      | HNil r => RNil (r, pend)
      | HOk sz r =>
          let cv := child_view sz r in
          let csh := child_short sz r in
          let cmx := N.min mx sz in
          match loop_upto (dec_gen t' csh cmx) (zero t') n cv 0 with
          | LOk l _ => close_ok csh sz r (VArray l)
          | LNil _ => RErr
          | LErr => RErr
          | LFuel => RFuel
          end
      end
  | TStruct ts =>
      match read_list sh v with
      | HEof => REof (v, pend)
      | HErr => RErr
      | HNil r => RNil (r, pend)
      | HOk sz r =>
          let cv := child_view sz r in
          let csh := child_short sz r in
          let cmx := N.min mx sz in
          match loop_fields (map (fun t' => (dec_gen t' csh cmx, zero t')) ts) cv 0 with
          | LOk l _ => close_ok csh sz r (VStruct l)
          | LNil (rest, _) => if pre then RNil (abandon sz r cv rest) else RErr
          | LErr => RErr
          | LFuel => RFuel
          end
      end
  | TMap k t' =>
      match read_list sh v with
      | HEof => REof (v, pend)
      | HErr => RErr
      | HNil r => ROk (VMap None) (r, pend)
      | HOk sz r =>
          let cv := child_view sz r in
          let csh := child_short sz r in
          let cmx := N.min mx sz in
          match loop_map (dec_gen k csh cmx) (dec_gen t' csh cmx) (zero t') (S (length cv)) [] cv 0 with
          | LOk m _ => close_ok csh sz r (VMap (Some m))
          | LNil _ => RErr
          | LErr => RErr
          | LFuel => RFuel
          end
      end
  | TPtr t' =>
      match dec_gen t' sh mx v pend with
      | ROk x s => ROk (VPtr (Some x)) s
      | RNil s => ROk (VPtr None) s
      | o => o
      end
  end.
End Dec.

Definition dec := dec_gen false.
Definition dec_pre := dec_gen true.

(* bytesWrapper.UnmarshalFromBytes(bs, &x) with x of type t, on a clean decoder:
   ROk x (rest, pend): accepted, rest returned; pend > 0 means the pooled decoder goes
   back dirty (its next use first discards pend bytes of the next input). *)
Definition unmarshal (t : ty) (bs : bytes) : res := dec t false (len bs) bs 0.
Definition unmarshal_pre (t : ty) (bs : bytes) : res := dec_pre t false (len bs) bs 0.

(* bytesWrapper.MarshalToBytes(&x) *)
Definition marshal (v : value) : bytes := enc v.

(* ------------------------------------------------------------------------- *)
(* the supported universe and well-typed values                               *)
(* ------------------------------------------------------------------------- *)

Definition width_ok (w : N) : bool := (w =? 8) || (w =? 16) || (w =? 32) || (w =? 64).
Definition key_ty (k : ty) : bool :=
  match k with TString | TInt _ | TUint _ => true | _ => false end.

(* map values are not addressable: encodeValue does not try the custom encoders on
   them, nor on their struct fields / array elements, but decodeValue does *)
Fixpoint custom_free (t : ty) : bool :=
  match t with
  | TBig | TRaw | TSelf _ => false
  | TArray _ t' => custom_free t'
  | TStruct ts => forallb custom_free ts
  | _ => true
  end.

Fixpoint ty_ok (t : ty) : bool :=
  match t with
  | TUint w | TInt w => width_ok w
  | TSelf t' | TList t' | TArray _ t' | TPtr t' => ty_ok t'
  | TStruct ts => forallb ty_ok ts
  | TMap k t' => key_ty k && ty_ok k && ty_ok t' && custom_free t'
  | _ => true
  end.

Definition key_eqb (a b : value) : bool := negb (key_lt a b) && negb (key_lt b a).
Fixpoint nodup_keys {A} (l : list (value * A)) : bool :=
  match l with
  | [] => true
  | (k, _) :: r => negb (existsb (fun kv => key_eqb k (fst kv)) r) && nodup_keys r
  end.

(* exactly one raw item *)
Definition one_item (b : bytes) : bool :=
  match read_raw false (len b) b with
  | HOk _ [] => true
  | _ => false
  end.

Fixpoint wtb (t : ty) (v : value) {struct t} : bool :=
  match t, v with
  | TUint w, VUint n => n <? 2 ^ w
  | TInt w, VInt z => in_int_range w z
  | TBool, VBool _ => true
  | TString, VString s => bytes_ok s
  | TBytes, VBytes None => true
  | TBytes, VBytes (Some b) => bytes_ok b
  | TByteArr n, VByteArr b => Nat.eqb (length b) n && bytes_ok b
  | TBig, VBig _ => true
  | TRaw, VRaw b => bytes_ok b && one_item b
  | TSelf t', _ => wtb t' v
  | TList _, VList None => true
  | TList t', VList (Some l) => forallb (wtb t') l
  | TArray n t', VArray l => Nat.eqb (length l) n && forallb (wtb t') l
  | TStruct ts, VStruct l =>
      (fix go (ts : list ty) (l : list value) : bool :=
         match ts, l with
         | [], [] => true
         | t' :: ts', x :: l' => wtb t' x && go ts' l'
         | _, _ => false
         end) ts l
  | TMap _ _, VMap None => true
  | TMap k t', VMap (Some ps) =>
      forallb (fun kv => wtb k (fst kv) && wtb t' (snd kv)) ps && nodup_keys ps
  | TPtr _, VPtr None => true
  | TPtr t', VPtr (Some x) => wtb t' x
  | _, _ => false
  end.

(* ------------------------------------------------------------------------- *)
(* what a round trip returns: map pairs in key order; a nil pointer to a type whose
   decoder itself accepts the nil marker comes back as a pointer to that nil      *)
(* ------------------------------------------------------------------------- *)

Fixpoint absorbs (t : ty) : bool :=
  match t with
  | TBytes | TList _ | TMap _ _ | TPtr _ => true
  | TRaw => true                      (* ReadRaw returns the nil marker as a raw item *)
  | TSelf t' => absorbs t'
  | _ => false
  end.

Fixpoint nilv (t : ty) : value :=
  match t with
  | TBytes => VBytes None
  | TList _ => VList None
  | TMap _ _ => VMap None
  | TRaw => VRaw null
  | TPtr t' => if absorbs t' then VPtr (Some (nilv t')) else VPtr None
  | TSelf t' => nilv t'
  | _ => zero t
  end.

Fixpoint canon (t : ty) (v : value) {struct t} : value :=
  match t, v with
  | TSelf t', _ => canon t' v
  | TList t', VList (Some l) => VList (Some (map (canon t') l))
  | TArray _ t', VArray l => VArray (map (canon t') l)
  | TStruct ts, VStruct l =>
      VStruct ((fix go (ts : list ty) (l : list value) : list value :=
                  match ts, l with
                  | t' :: ts', x :: l' => canon t' x :: go ts' l'
                  | _, _ => l
                  end) ts l)
  | TMap _ t', VMap (Some ps) =>
      VMap (Some (sort_by_key (map (fun kv => (fst kv, canon t' (snd kv))) ps)))
  | TPtr t', VPtr None => if absorbs t' then VPtr (Some (nilv t')) else VPtr None
  | TPtr t', VPtr (Some x) => VPtr (Some (canon t' x))
  | _, _ => v
  end.

(* ------------------------------------------------------------------------- *)
(* decidable equality of values (used by the run file)                        *)
(* ------------------------------------------------------------------------- *)

Definition opt_eqb {A} (f : A -> A -> bool) (a b : option A) : bool :=
  match a, b with
  | None, None => true
  | Some x, Some y => f x y
  | _, _ => false
  end.

Fixpoint value_eqb (a b : value) {struct a} : bool :=
  let list_eqb :=
    fix go (l1 l2 : list value) : bool :=
      match l1, l2 with
      | [], [] => true
      | x :: r1, y :: r2 => value_eqb x y && go r1 r2
      | _, _ => false
      end in
  match a, b with
  | VUint x, VUint y => x =? y
  | VInt x, VInt y => (x =? y)%Z
  | VBool x, VBool y => Bool.eqb x y
  | VString x, VString y => bytes_eqb x y
  | VBytes x, VBytes y => opt_eqb bytes_eqb x y
  | VByteArr x, VByteArr y => bytes_eqb x y
  | VBig x, VBig y => (x =? y)%Z
  | VRaw x, VRaw y => bytes_eqb x y
  | VList None, VList None => true
  | VList (Some x), VList (Some y) => list_eqb x y
  | VArray x, VArray y => list_eqb x y
  | VStruct x, VStruct y => list_eqb x y
  | VMap None, VMap None => true
  | VMap (Some x), VMap (Some y) =>
      (fix go (l1 l2 : list (value * value)) : bool :=
         match l1, l2 with
         | [], [] => true
         | (k1, x1) :: r1, (k2, x2) :: r2 => value_eqb k1 k2 && value_eqb x1 x2 && go r1 r2
         | _, _ => false
         end) x y
  | VPtr None, VPtr None => true
  | VPtr (Some x), VPtr (Some y) => value_eqb x y
  | _, _ => false
  end.
