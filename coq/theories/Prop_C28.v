(* Property C28 — the hexary block-hash accumulator (icon/merkle/hexary) is
   deterministic, provable and rewindable.  Only the property theorems; proofs
   are in Proofs_Hexary.v.  H is the hash (SHA3-256 in the code); the only thing
   assumed of it is its output length.  spec_header xs is the layered 16-ary
   Merkle root of xs (a lone hash is its own root) with the number of leaves;
   spec_roots xs are the trailing incomplete chunks of the layers of complete
   blocks.  Statements that depend on what the tree bucket returns end in
   "\/ collision H": the proof then exhibits two byte strings with one hash.
   Histories: hop = Add | Finalize | GetMerkleHeader | SetLen, in any order;
   hseq ops is the sequence they leave (Add appends, SetLen l <= length keeps
   the first l hashes); lengths fit int64 ((adds ops) < 2^63). *)
From Goloop Require Import lib.Bytes lib.BytesMap Model_Hexary Proofs_Hexary.
From Goloop Require Import Link_C28.

(* the header is a function of the sequence alone: additions only ... *)
Theorem C28_header_of_adds : forall H, hash32 H -> forall xs, Forall h32 xs ->
  get_header H (hrun H (map HAdd xs)) = HOk (spec_header H xs) /\
  h_roots (hs_acc (hrun H (map HAdd xs))) = spec_roots H xs.
Proof. exact header_of_adds. Qed.
Print Assumptions C28_header_of_adds.

(* ... and after any interleaving of Add, Finalize, GetMerkleHeader and SetLen *)
Theorem C28_header_function_of_sequence : forall H, hash32 H -> forall ops,
  Forall hop_ok ops -> (N.of_nat (adds ops) < 2 ^ 63)%N ->
  (get_header H (hrun H ops) = HOk (spec_header H (hseq ops)) /\
   exists st1, finalize H (hrun H ops) = HOk (spec_header H (hseq ops), st1) /\
               get_header H st1 = HOk (spec_header H (hseq ops)))
  \/ collision H.
Proof. exact header_function_of_sequence. Qed.
Print Assumptions C28_header_function_of_sequence.

(* every added hash has a proof (Prove over the tree bucket after Finalize)
   that a tree built from the header alone accepts (merkleTree.Add) *)
Theorem C28_proof_accepted : forall H, hash32 H -> forall ops i x,
  Forall hop_ok ops -> (N.of_nat (adds ops) < 2 ^ 63)%N ->
  nth_error (hseq ops) i = Some x ->
  (exists st1 mt p,
     finalize H (hrun H ops) = HOk (spec_header H (hseq ops), st1) /\
     new_mtree (hs_tree st1) (spec_header H (hseq ops)) = HOk mt /\
     prove mt (N.of_nat i) (Some 0%nat) = HOk p /\ length p = mt_level mt /\
     forall m0, exists vt vt', new_mtree m0 (spec_header H (hseq ops)) = HOk vt /\
                               mt_add H vt (N.of_nat i) x p = HOk vt')
  \/ collision H.
Proof. exact proof_accepted. Qed.
Print Assumptions C28_proof_accepted.

(* an accepted full proof binds hash and proof: any other (hash, proof) of the
   same length for the same key is rejected, or the hash function collides *)
Theorem C28_altered_rejected_or_collision : forall H, hash32 H ->
  forall vt key h p vt1 h' p',
  length p = mt_level vt -> length p' = mt_level vt ->
  mt_add H vt key h p = HOk vt1 -> (h', p') <> (h, p) ->
  (forall vt2, mt_add H vt key h' p' <> HOk vt2) \/ collision H.
Proof. exact altered_rejected_or_collision. Qed.
Print Assumptions C28_altered_rejected_or_collision.

(* a proof with inserted elements (longer than the tree has levels) is rejected
   with a verification error ... *)
Theorem C28_overlong_rejected : forall H vt key h p,
  (mt_level vt < length p)%nat -> mt_add H vt key h p = HErr HVerify.
Proof. exact overlong_rejected. Qed.
Print Assumptions C28_overlong_rejected.

(* ... while the code before /repo 33272cd crashed on it *)
Theorem C28_add_prefix_refuted : forall H,
  exists vt key h p, (mt_level vt < length p)%nat /\ mt_add_old H vt key h p = HErr HPanic.
Proof. exact mt_add_old_refuted. Qed.
Print Assumptions C28_add_prefix_refuted.

(* rewinding to any shorter length gives exactly the roots and the header of
   accumulating only that prefix *)
Theorem C28_rewind : forall H, hash32 H -> forall ops l,
  Forall hop_ok ops -> (N.of_nat (adds ops) < 2 ^ 63)%N -> (l <= length (hseq ops))%nat ->
  (exists st', set_len H (hrun H ops) (N.of_nat l) = HOk st' /\
     h_roots (hs_acc st') = spec_roots H (firstn l (hseq ops)) /\
     get_header H st' = HOk (spec_header H (firstn l (hseq ops))) /\
     get_header H (hrun H (map HAdd (firstn l (hseq ops)))) = HOk (spec_header H (firstn l (hseq ops))) /\
     h_roots (hs_acc (hrun H (map HAdd (firstn l (hseq ops))))) = spec_roots H (firstn l (hseq ops)))
  \/ collision H.
Proof. exact rewind. Qed.
Print Assumptions C28_rewind.

(* ---- kernel links (Link_C28.v).  LevelFromLen, powerOf16 and minProofLenForKey are
   re-generated from icon/merkle/hexary on every run (tools/go2coq); level_from_len,
   power_of_16 and min_proof_len of the model, used in all theorems above, ARE the
   functions of the current Go code for every length / key that fits an int64 (uint64
   for powerOf16; 17 = loop fuel sufficient for every uint64) ---- *)
Theorem C28_kernel_LevelFromLen : forall len : N,
  (Z.of_N len <= 9223372036854775807)%Z ->
  Z.of_nat (level_from_len len) = LevelFromLen (Z.of_N len).
Proof. exact level_from_len_is_LevelFromLen. Qed.
Print Assumptions C28_kernel_LevelFromLen.

Theorem C28_kernel_powerOf16 : forall n : N,
  (Z.of_N n <= 18446744073709551615)%Z ->
  powerOf16 17 (Z.of_N n) = Some (power_of_16 n).
Proof. exact power_of_16_is_powerOf16. Qed.
Print Assumptions C28_kernel_powerOf16.

(* kernel argument order: (key, sa.level) *)
Theorem C28_kernel_minProofLenForKey : forall (level : nat) (key : N),
  (Z.of_N key <= 9223372036854775807)%Z -> (Z.of_nat level <= 9223372036854775807)%Z ->
  Z.of_nat (min_proof_len level key) = minProofLenForKey (Z.of_N key) (Z.of_nat level).
Proof. exact min_proof_len_is_minProofLenForKey. Qed.
Print Assumptions C28_kernel_minProofLenForKey.

Theorem C28_kernel_params : Link_C28.kernel_params_pinned.
Proof. exact Link_C28.kernel_params_ok. Qed.
Print Assumptions C28_kernel_params.
