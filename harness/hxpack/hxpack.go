// Package hxpack prints long byte strings compactly for Coq case files:
// 7 bytes per primitive 63-bit integer literal (hexadecimal), decoded in Coq by
// GoloopRun.Run_Pack63.unpack63.  Parsing a `list N` literal costs ~70 µs per
// byte in coqc 8.16, a packed literal ~7 µs per byte, and long flat list
// literals overflow coqc's stack.
package hxpack

import (
	"fmt"
	"strings"
)

// Bytes prints b as a Coq term of type `list N` (needs Run_Pack63 imported).
func Bytes(b []byte) string {
	if len(b) == 0 {
		return "[]"
	}
	if len(b) < 8 {
		var sb strings.Builder
		sb.WriteByte('[')
		for i, x := range b {
			if i > 0 {
				sb.WriteByte(';')
			}
			fmt.Fprintf(&sb, "%d", x)
		}
		sb.WriteByte(']')
		return sb.String()
	}
	var sb strings.Builder
	sb.Grow(len(b)*3 + 32)
	fmt.Fprintf(&sb, "(unpack63 %d%%nat [", len(b))
	for i := 0; i < len(b); i += 7 {
		j := i + 7
		if j > len(b) {
			j = len(b)
		}
		var w uint64
		for _, x := range b[i:j] {
			w = w<<8 | uint64(x)
		}
		if i > 0 {
			sb.WriteByte(';')
		}
		fmt.Fprintf(&sb, "0x%x%%uint63", w)
	}
	sb.WriteString("])")
	return sb.String()
}
