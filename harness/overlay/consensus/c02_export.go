//go:build verif

package consensus

// Add-only accessors for the C02/C01 harness (harness/cmd/c02).  Nothing here
// changes engine behaviour: the functions only read fields of the engine.

import (
	"fmt"
	"sort"
	"time"

	"github.com/icon-project/goloop/module"
)

// VerifState is the projection of the engine state the harness compares with
// the Coq node model after every event.
type VerifState struct {
	Height       int64
	Round        int32
	Step         int
	LockedRound  int32
	LockedID     string // "" when lockedBlockParts is zero
	POLRound     int32
	CurID        string // "" when currentBlockParts has no part set
	CurZero      bool
	CurComplete  bool
	CurHasBlock  bool
	CurValidated bool
	CommitRound  int32
	Started      bool
	Timer        *time.Timer // identity of the armed step timer (nil: none)
}

// VerifPSIDKey is the canonical text of a part set id used by the harness.
func VerifPSIDKey(id *PartSetID) string {
	if id == nil {
		return ""
	}
	return fmt.Sprintf("%d:%x", id.Count, id.Hash)
}

func (cs *consensus) verifState() VerifState {
	return VerifState{
		Height:       cs.height,
		Round:        cs.round,
		Step:         int(cs.step),
		LockedRound:  cs.lockedRound,
		LockedID:     VerifPSIDKey(cs.lockedBlockParts.ID()),
		POLRound:     cs.proposalPOLRound,
		CurID:        VerifPSIDKey(cs.currentBlockParts.ID()),
		CurZero:      cs.currentBlockParts.IsZero(),
		CurComplete:  cs.currentBlockParts.IsComplete(),
		CurHasBlock:  cs.currentBlockParts.HasBlockData(),
		CurValidated: cs.currentBlockParts.HasValidatedBlock(),
		CommitRound:  cs.commitRound,
		Started:      cs.started,
		Timer:        cs.timer,
	}
}

// VerifStateOf reads the engine state.  lock=true takes the engine mutex (use
// from the harness thread); lock=false is for hooks that are called by the
// engine itself while it already holds its mutex (WAL / network / block
// manager wrappers).
func VerifStateOf(c module.Consensus, lock bool) VerifState {
	cs := c.(*consensus)
	if lock {
		cs.mutex.Lock()
		defer cs.mutex.Unlock()
	}
	return cs.verifState()
}

// VerifHVSDump prints the height vote set (debugging aid for mismatches).
func VerifHVSDump(c module.Consensus) string {
	cs := c.(*consensus)
	cs.mutex.Lock()
	defer cs.mutex.Unlock()
	var rounds []int
	for r := range cs.hvs._votes {
		rounds = append(rounds, int(r))
	}
	sort.Ints(rounds)
	s := ""
	for _, r := range rounds {
		rvs := cs.hvs._votes[int32(r)]
		for t := 0; t < int(numberOfVoteTypes); t++ {
			vs := rvs[t]
			if vs == nil {
				continue
			}
			s += fmt.Sprintf("r%d t%d cnt=%d [", r, t, vs.count)
			for i, m := range vs.msgs {
				if m == nil {
					s += "-"
				} else {
					s += fmt.Sprintf("%d:%s/%d", i, VerifPSIDKey(m.BlockPartSetIDAndNTSVoteCount.ID()), m.Timestamp)
				}
				s += " "
			}
			s += "] "
		}
	}
	return s
}

// VerifSigner returns the address that signed a vote or proposal (nil if the
// signature does not recover).
func VerifSigner(m Message) module.Address {
	switch x := m.(type) {
	case *VoteMessage:
		if a := x.address(); a != nil {
			return a
		}
	case *ProposalMessage:
		if a := x.address(); a != nil {
			return a
		}
	}
	return nil
}

// VerifStepNames maps the step enumeration to the names used in the Coq model.
func VerifStepCount() int { return int(stepCommit) + 1 }
