//go:build verif

package consensus

// VerifEnoughVote exposes the unexported threshold test of VerifyBlock.
func VerifEnoughVote(voted int, voters int) bool { return enoughVote(voted, voters) }
