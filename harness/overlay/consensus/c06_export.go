//go:build verif

// Add-only shim for the C06 harness: thin wrappers over unexported identifiers of
// package consensus (double-sign data, message construction, the message log).
package consensus

import (
	"math/rand"

	"github.com/icon-project/goloop/common"
	"github.com/icon-project/goloop/common/cache"
	"github.com/icon-project/goloop/module"
)

func VerifMatchNID(a, b uint32) bool { return matchNID(a, b) }

// VerifVoteSpec: the fields of a vote message chosen by the harness.
type VerifVoteSpec struct {
	Height    int64
	Round     int32
	Type      byte
	BlockID   []byte
	HasPSID   bool // false: BlockPartSetIDAndNTSVoteCount stays nil (nil vote)
	PSCount   uint16
	PSHash    []byte
	NID       uint32 // carried in the part set id's app data (HasPSID only)
	NTSCount  uint16
	Timestamp int64
	// unsigned attachments of a precommit (equal lengths)
	NTSIDs    []int64
	NTSHashes [][]byte
	NTSProofs [][]byte
}

func VerifNewVote(w module.Wallet, s VerifVoteSpec) (*VoteMessage, error) {
	vm := newVoteMessage()
	vm.Height = s.Height
	vm.Round = s.Round
	vm.Type = VoteType(s.Type)
	vm.BlockID = s.BlockID
	if s.HasPSID {
		psid := &PartSetID{Count: s.PSCount, Hash: s.PSHash}
		vm.BlockPartSetIDAndNTSVoteCount = psid.WithAppData(psidAppData(s.NID, s.NTSCount))
	}
	vm.Timestamp = s.Timestamp
	for i := range s.NTSIDs {
		vm.NTSVoteBases = append(vm.NTSVoteBases, ntsVoteBase{
			NetworkTypeID:          s.NTSIDs[i],
			NetworkTypeSectionHash: s.NTSHashes[i],
		})
		vm.NTSDProofParts = append(vm.NTSDProofParts, s.NTSProofs[i])
	}
	if err := vm.Sign(w); err != nil {
		return nil, err
	}
	return vm, nil
}

type VerifProposalSpec struct {
	Height   int64
	Round    int32
	HasPSID  bool
	PSCount  uint16
	PSHash   []byte
	POLRound int32
	NID      uint32
}

func VerifNewProposal(w module.Wallet, s VerifProposalSpec) (*ProposalMessage, error) {
	msg := NewProposalMessage()
	msg.Height = s.Height
	msg.Round = s.Round
	if s.HasPSID {
		msg.BlockPartSetID = &PartSetID{Count: s.PSCount, Hash: s.PSHash}
	}
	msg.POLRound = s.POLRound
	msg.NID = s.NID
	if err := msg.Sign(w); err != nil {
		return nil, err
	}
	return msg, nil
}

func VerifDSDVote(msg *VoteMessage) (module.DoubleSignData, error) {
	return newDoubleSignDataWithVoteMessage(msg)
}

func VerifDSDProposal(msg *ProposalMessage) (module.DoubleSignData, error) {
	return newDoubleSignDataWithProposalMessage(msg)
}

// typed nil receivers/arguments of the two concrete types
func VerifNilDSDVote() module.DoubleSignData     { return (*dsVote)(nil) }
func VerifNilDSDProposal() module.DoubleSignData { return (*dsProposal)(nil) }

// VerifView is what the decision logic reads from a double-sign datum.
type VerifView struct {
	Kind   string // module.DSTVote / module.DSTProposal
	Signer []byte
	Height int64
	Round  int32
	VType  byte
	NID    uint32
	NIDErr bool
	Hash   []byte
	Cost   int
	// PreImage: the bytes handed to the hash whose digest is signed (signedBase._byteser)
	PreImage []byte
	// Unsigned: an encoding of everything in the message that PreImage does not cover
	// (NTSVoteBases, NTSDProofParts); empty when there is nothing
	Unsigned []byte
}

func VerifViewOf(d module.DoubleSignData) (VerifView, bool) {
	switch v := d.(type) {
	case *dsVote:
		if v == nil {
			return VerifView{}, false
		}
		nid, err := v.msg.NID()
		return VerifView{
			Kind: module.DSTVote, Signer: v.Signer(), Height: v.msg.Height, Round: v.msg.Round,
			VType: byte(v.msg.Type), NID: nid, NIDErr: err != nil, Hash: v.msg.hash(), Cost: v.msg.Cost(),
			PreImage: v.msg._byteser.bytes(), Unsigned: verifUnsigned(v.msg),
		}, true
	case *dsProposal:
		if v == nil {
			return VerifView{}, false
		}
		return VerifView{
			Kind: module.DSTProposal, Signer: v.Signer(), Height: v.msg.Height, Round: v.msg.Round,
			VType: 0, NID: v.msg.NID, Hash: v.msg.hash(), Cost: v.msg.Cost(),
			PreImage: v.msg._byteser.bytes(),
		}, true
	}
	return VerifView{}, false
}

func verifUnsigned(m *VoteMessage) []byte {
	if len(m.NTSVoteBases) == 0 && len(m.NTSDProofParts) == 0 {
		return nil
	}
	return msgCodec.MustMarshalToBytes(&struct {
		Bases []ntsVoteBase
		Parts [][]byte
	}{m.NTSVoteBases, m.NTSDProofParts})
}

// VerifDSMLog wraps the message log with a caller-supplied random source.
type VerifDSMLog struct {
	l dsmLog
}

func VerifNewDSMLog(cap int, src rand.Source) *VerifDSMLog {
	return &VerifDSMLog{l: dsmLog{
		c: cache.MakeCosterRandom[dsmCacheKey, cache.Coster](cap, src),
	}}
}

// VerifMakeDSMLog uses the package's own constructor (time-seeded source).
func VerifMakeDSMLog(cap int) *VerifDSMLog { return &VerifDSMLog{l: makeDSMLog(cap)} }

func (v *VerifDSMLog) LogVote(msg *VoteMessage) []module.DoubleSignData {
	return v.l.LogAndCheckVoteMessage(msg)
}

func (v *VerifDSMLog) LogProposal(msg *ProposalMessage) []module.DoubleSignData {
	return v.l.LogAndCheckProposalMessage(msg)
}

// StoredHash returns the hash of the message stored under the key of the given datum.
func (v *VerifDSMLog) StoredHash(d module.DoubleSignData) []byte {
	switch x := d.(type) {
	case *dsVote:
		addr := x.msg.address()
		m := v.l.getVoteMessage(x.msg.Type, *addr, x.msg.Height, x.msg.Round)
		if m == nil {
			return nil
		}
		return m.hash()
	case *dsProposal:
		addr := x.msg.address()
		m := v.l.getProposalMessage(*addr, x.msg.Height, x.msg.Round)
		if m == nil {
			return nil
		}
		return m.hash()
	}
	return nil
}

func VerifVoteOf(d module.DoubleSignData) *VoteMessage {
	if x, ok := d.(*dsVote); ok && x != nil {
		return x.msg
	}
	return nil
}

func VerifProposalOf(d module.DoubleSignData) *ProposalMessage {
	if x, ok := d.(*dsProposal); ok && x != nil {
		return x.msg
	}
	return nil
}

var _ = common.AddressBytes
