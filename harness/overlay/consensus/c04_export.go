//go:build verif

package consensus

// Add-only shim for property C04: thin exported wrappers around the unexported
// voteSet.  No behaviour of its own; the "peek" accessors work on a shallow
// copy of the struct so that observing does not fill the maxIndex cache of the
// vote set under test (the copy carries the same cache value, so a stale cache
// is observed exactly as a caller would observe it).

type VerifVoteSet struct{ vs *voteSet }

func VerifNewVoteSet(n int) *VerifVoteSet { return &VerifVoteSet{newVoteSet(n)} }

func (w *VerifVoteSet) Add(i int, v *VoteMessage) bool { return w.vs.add(i, v) }

// Query is the real, cache-filling call.
func (w *VerifVoteSet) Query() ([]byte, *PartSetID, bool) {
	return w.vs.getOverTwoThirdsRoundDecisionDigest()
}

func (w *VerifVoteSet) PeekDecision() ([]byte, *PartSetID, bool) {
	c := *w.vs
	return c.getOverTwoThirdsRoundDecisionDigest()
}

func (w *VerifVoteSet) PeekPartSetID() (*PartSetID, bool) {
	c := *w.vs
	return c.getOverTwoThirdsPartSetID()
}

// PeekVoteListLen: length of voteListForOverTwoThirds(), -1 for nil.
func (w *VerifVoteSet) PeekVoteListLen() int {
	c := *w.vs
	vl := c.voteListForOverTwoThirds()
	if vl == nil {
		return -1
	}
	return vl.Len()
}

func (w *VerifVoteSet) HasOverTwoThirds() bool { return w.vs.hasOverTwoThirds() }
func (w *VerifVoteSet) Count() int             { return w.vs.count }
func (w *VerifVoteSet) Round() int32           { return w.vs.getRound() }
func (w *VerifVoteSet) Len() int               { return len(w.vs.msgs) }
func (w *VerifVoteSet) Slot(i int) *VoteMessage { return w.vs.msgs[i] }
func (w *VerifVoteSet) MaskGet(i int) bool     { return w.vs.getMask().Get(i) }

// Counters returns the digest and count of every entry of vs.counters, in order.
func (w *VerifVoteSet) Counters() ([][]byte, []int) {
	ds := make([][]byte, len(w.vs.counters))
	cs := make([]int, len(w.vs.counters))
	for i, c := range w.vs.counters {
		ds[i] = c.roundDecisionDigest
		cs[i] = c.count
	}
	return ds, cs
}

// VerifNewVote builds an unsigned vote message (voteSet never looks at signatures).
func VerifNewVote(height int64, round int32, typ VoteType, blockID []byte,
	psid *PartSetIDAndAppData, ntsIDs []int64, ts int64) *VoteMessage {
	vm := newVoteMessage()
	vm.Height = height
	vm.Round = round
	vm.Type = typ
	var nts []ntsVoteBase
	for _, id := range ntsIDs {
		nts = append(nts, ntsVoteBase{NetworkTypeID: id, NetworkTypeSectionHash: []byte{byte(id), 0x5a}})
	}
	vm.SetRoundDecision(blockID, psid, nts)
	vm.Timestamp = ts
	return vm
}
