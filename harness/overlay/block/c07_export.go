//go:build verif

// Add-only shim for the C07 harness: calls the unexported verifyNewBlock of the
// block manager with an explicitly chosen parent (ImportBlock always takes the
// parent from the node map keyed by the candidate's PrevID, which makes the
// "bad prev ID" comparison of verifyNewBlock unreachable through the public API).
package block

import (
	"github.com/icon-project/goloop/module"
)

// VerifVerifyNewBlock runs m.verifyNewBlock(b, prev) under the manager's lock
// and returns its error.
func VerifVerifyNewBlock(bm module.BlockManager, b module.BlockData, prev module.Block) error {
	m := bm.(*manager)
	m.syncer.begin()
	defer m.syncer.end()
	_, err := m.verifyNewBlock(b, prev)
	return err
}

// VerifNodeIDs returns the ids of the blocks currently held in the manager's node
// map (last finalized block and live candidates), i.e. the blocks a candidate may
// name as its parent.
func VerifNodeIDs(bm module.BlockManager) [][]byte {
	m := bm.(*manager)
	m.syncer.begin()
	defer m.syncer.end()
	res := make([][]byte, 0, len(m.nmap))
	for k := range m.nmap {
		res = append(res, []byte(k))
	}
	return res
}
