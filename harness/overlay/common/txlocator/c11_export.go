//go:build verif

package txlocator

import "github.com/icon-project/goloop/module"

// Read-only views of the manager / tracker state for the C11 harness.

type VerifList struct {
	Ts, Th int64
	IDs    []string // live locator ids (blanked ones are skipped)
}

type VerifState struct {
	Locators []string
	Cache    [2][]VerifList
	MaxTS    [2]int64
	Alive    bool // m.locators != nil
}

// VerifWaitFlush blocks until every queued flush job has been written and cached.
func VerifWaitFlush(lm module.LocatorManager) {
	lm.(*manager).flushWG.Wait()
}

func VerifManagerState(lm module.LocatorManager) VerifState {
	m := lm.(*manager)
	m.lock.Lock()
	defer m.lock.Unlock()
	var st VerifState
	st.Alive = m.locators != nil
	for k := range m.locators {
		st.Locators = append(st.Locators, k)
	}
	for g := 0; g < 2; g++ {
		st.MaxTS[g] = m.cache[g].maxTSInDB
		for ptr := m.cache[g].head; ptr != nil; ptr = ptr.next {
			vl := VerifList{Ts: ptr.ts, Th: ptr.th}
			for itr := ptr.head; itr != nil; itr = itr.next {
				if itr.id != "" {
					vl.IDs = append(vl.IDs, itr.id)
				}
			}
			st.Cache[g] = append(st.Cache[g], vl)
		}
	}
	return st
}

// VerifTrackerOpen reports t.locators != nil (the tracker has not been committed).
func VerifTrackerOpen(lt module.LocatorTracker) bool {
	t := lt.(*tracker)
	t.lock.Lock()
	defer t.lock.Unlock()
	return t.locators != nil
}
