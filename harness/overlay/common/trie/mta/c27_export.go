//go:build verif

package mta

// Add-only shims for the C27 harness (mapped into the package with
// `go build -tags verif -overlay`).  They only read.

// VerifRoots returns the hash of every root slot, nil for an empty slot.
func VerifRoots(a *Accumulator) (roots [][]byte, occupied []bool) {
	roots = make([][]byte, len(a.roots))
	occupied = make([]bool, len(a.roots))
	for i, r := range a.roots {
		if r != nil {
			roots[i] = r.Hash()
			occupied[i] = true
		}
	}
	return
}

// VerifDump reports (preimage, digest) of every data/branch node held in memory.
// f returns false to stop descending below a node (already reported).
func VerifDump(a *Accumulator, f func(pre, dig []byte) bool) {
	var walk func(n Node)
	walk = func(n Node) {
		switch x := n.(type) {
		case *branchNode:
			h := x.Hash()
			if f(x.serialized, h) {
				walk(x.left)
				walk(x.right)
			}
		case *dataNode:
			f(x.data, x.Hash())
		}
	}
	for _, r := range a.roots {
		if r != nil {
			walk(r)
		}
	}
}
