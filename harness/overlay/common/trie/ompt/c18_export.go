//go:build verif

package ompt

import "reflect"

// VerifBytesObjectType exposes the object type of the byte-valued trie so that a
// harness can use the ForObject API (which distinguishes "no value, no error").
func VerifBytesObjectType() reflect.Type { return reflect.TypeOf(bytesObject(nil)) }
