//go:build verif

package network

// Add-only export shim for the C32 harness (authenticator handshake).
// Thin wrappers: every call goes straight into authenticator.go / peer.go.

import (
	"bytes"
	"net"

	"github.com/icon-project/goloop/common/log"
	"github.com/icon-project/goloop/module"
)

func verifQuietLogger() log.Logger {
	l := log.New()
	l.SetLevel(log.PanicLevel)
	l.SetConsoleLevel(log.PanicLevel)
	return l
}

// VerifNextHandler is the handler placed after the authenticator: it records
// the peers that nextOnPeer hands over (= peers the authenticator accepted).
type VerifNextHandler struct {
	Peers  []*Peer
	Closed []*Peer
}

func (h *VerifNextHandler) onPeer(p *Peer)                { h.Peers = append(h.Peers, p) }
func (h *VerifNextHandler) onPacket(pkt *Packet, p *Peer) {}
func (h *VerifNextHandler) onClose(p *Peer)               { h.Closed = append(h.Closed, p) }
func (h *VerifNextHandler) setNext(ph PeerHandler)        {}

func (h *VerifNextHandler) Has(p *Peer) bool {
	for _, q := range h.Peers {
		if q == p {
			return true
		}
	}
	return false
}

// VerifNewAuthenticator is newAuthenticator with a quiet logger and a recording next handler.
func VerifNewAuthenticator(w module.Wallet) (*Authenticator, *VerifNextHandler) {
	a := newAuthenticator(w, verifQuietLogger())
	n := &VerifNextHandler{}
	a.setNext(n)
	return a, n
}

// VerifNewPeer is newPeer.
func VerifNewPeer(conn net.Conn, in bool, channel string) *Peer {
	p := newPeer(conn, in, "", verifQuietLogger())
	if !in {
		// PeerDispatcher.onConnect sets the channel of an outgoing peer before onPeer
		p.setChannel(channel)
	}
	return p
}

func VerifAuthOnPeer(a *Authenticator, p *Peer) { a.onPeer(p) }

// VerifAuthOnPacket delivers one packet of the auth protocol the way
// Peer.receiveRoutine does (through Authenticator.onPacket).
func VerifAuthOnPacket(a *Authenticator, p *Peer, sub uint16, payload []byte, src []byte) {
	var id module.PeerID
	if src != nil {
		id = NewPeerID(src)
	}
	pkt := newPacket(p2pProtoAuth, module.ProtocolInfo(sub), payload, id)
	a.onPacket(pkt, p)
}

// VerifPeerExtra: the session secret the signatures are made over (nil before the secure exchange).
func VerifPeerExtra(p *Peer) []byte {
	if p.secureKey == nil || p.secureKey.extra == nil {
		return nil
	}
	return append([]byte(nil), p.secureKey.extra...)
}

// VerifPeerSecrets: the other HKDF outputs of the session.
func VerifPeerSecrets(p *Peer) [][]byte {
	if p.secureKey == nil {
		return nil
	}
	var r [][]byte
	for _, s := range p.secureKey.secret {
		r = append(r, append([]byte(nil), s...))
	}
	return r
}

// VerifPeerIDBytes: the identity assigned to the peer (nil if none).
func VerifPeerIDBytes(p *Peer) []byte {
	id := p.ID()
	if id == nil {
		return nil
	}
	return append([]byte(nil), id.Bytes()...)
}

// VerifWaitInfo: the sub protocol the authenticator waits for on this peer.
func VerifWaitInfo(p *Peer) (sub uint16, processing bool, exists bool) {
	v, ok := p.GetAttr(AttrWaitSubProtocolInfo)
	if !ok {
		return 0, false, false
	}
	wi := v.(*waitInfo)
	return wi.pi.Uint16(), wi.processing, true
}

// VerifSelfID: the authenticator's own peer id.
func VerifSelfID(a *Authenticator) []byte { return append([]byte(nil), a.self.Bytes()...) }

type VerifPacket struct {
	Sub     uint16
	Payload []byte
	Src     []byte
}

// VerifParsePackets decodes the packets found in a byte stream written by a peer.
func VerifParsePackets(b []byte) []VerifPacket {
	var res []VerifPacket
	r := bytes.NewReader(b)
	for r.Len() > 0 {
		pkt := &Packet{}
		if _, err := pkt.ReadFrom(r); err != nil {
			break
		}
		vp := VerifPacket{Sub: pkt.subProtocol.Uint16(), Payload: append([]byte(nil), pkt.payload...)}
		if pkt.src != nil {
			vp.Src = append([]byte(nil), pkt.src.Bytes()...)
		}
		res = append(res, vp)
	}
	return res
}

const (
	VerifSubSecureRequest     = uint16(0x0100)
	VerifSubSecureResponse    = uint16(0x0200)
	VerifSubSignatureRequest  = uint16(0x0300)
	VerifSubSignatureResponse = uint16(0x0400)
)
