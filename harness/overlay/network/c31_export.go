//go:build verif

package network

// Add-only export shim for the C31 harness (encrypted peer channel).
// Thin wrappers only: every call below goes straight into the code of
// secure.go; no logic of the channel is re-implemented here.

import (
	"crypto/ecdsa"
	"math/big"
	"net"
)

// VerifSecureKey wraps the unexported *secureKey.
type VerifSecureKey struct{ k *secureKey }

// VerifSecureKeyFromD builds a secureKey on DefaultSecureEllipticCurve from a
// private scalar chosen by the harness (newSecureKey draws it from
// crypto/rand; the struct is assembled exactly as newSecureKey does).
func VerifSecureKeyFromD(d []byte) *VerifSecureKey {
	c := DefaultSecureEllipticCurve
	priv := &ecdsa.PrivateKey{D: new(big.Int).SetBytes(d)}
	priv.PublicKey.Curve = c
	priv.PublicKey.X, priv.PublicKey.Y = c.ScalarBaseMult(d)
	return &VerifSecureKey{k: &secureKey{PrivateKey: priv, keyLogWriter: nil}}
}

// VerifNewSecureKey is newSecureKey (random key from crypto/rand).
func VerifNewSecureKey() *VerifSecureKey {
	return &VerifSecureKey{k: newSecureKey(DefaultSecureEllipticCurve, nil)}
}

func (v *VerifSecureKey) MarshalPublicKey() []byte { return v.k.marshalPublicKey() }
func (v *VerifSecureKey) XY() (*big.Int, *big.Int)  { return v.k.X, v.k.Y }

// Setup is secureKey.setup.
func (v *VerifSecureKey) Setup(sa SecureAeadSuite, peerPublicKey []byte, defaultLower bool, numOfSecret int) error {
	return v.k.setup(sa, peerPublicKey, defaultLower, numOfSecret)
}
func (v *VerifSecureKey) IsLower() bool { return v.k.isLower }
func (v *VerifSecureKey) Secrets() [][]byte {
	r := make([][]byte, len(v.k.secret))
	for i, s := range v.k.secret {
		r[i] = append([]byte(nil), s...)
	}
	return r
}
func (v *VerifSecureKey) Extra() []byte { return append([]byte(nil), v.k.extra...) }

// NewConn is NewSecureConn.
func (v *VerifSecureKey) NewConn(conn net.Conn, sa SecureAeadSuite) (*SecureConn, error) {
	return NewSecureConn(conn, sa, v.k)
}

// VerifSecureConnKeys returns the secrets chosen for the two directions.
func VerifSecureConnKeys(c *SecureConn) (in, out []byte) {
	return append([]byte(nil), c.in.secret...), append([]byte(nil), c.out.secret...)
}

// VerifSecureConnNonces returns copies of the current nonce counters.
func VerifSecureConnNonces(c *SecureConn) (in, out []byte) {
	return append([]byte(nil), c.in.nonce...), append([]byte(nil), c.out.nonce...)
}

// VerifSecureConnSetNonces overwrites the nonce counters (to start a session
// next to a carry / wrap-around of the counter); nil leaves a counter alone.
func VerifSecureConnSetNonces(c *SecureConn, in, out []byte) {
	if in != nil {
		copy(c.in.nonce, in)
	}
	if out != nil {
		copy(c.out.nonce, out)
	}
}

// VerifSecureConnOverhead is the AEAD tag size in use.
func VerifSecureConnOverhead(c *SecureConn) int { return c.out.aead.Overhead() }

// VerifSecureConnNonceSize is the AEAD nonce size in use.
func VerifSecureConnNonceSize(c *SecureConn) int { return c.out.aead.NonceSize() }

const (
	VerifSecureConnHeaderSize = secureConnHeaderSize
	VerifSecureConnFrameSize  = secureConnFrameSize
)
