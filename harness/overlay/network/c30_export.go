//go:build verif

package network

// Add-only shim for the C30 harness (packet framing): construct a Packet with
// chosen header fields / extension and read the fields of a received Packet.
// Nothing here changes behaviour of the package.

import "github.com/icon-project/goloop/module"

type VerifC30Fields struct {
	Proto, Sub uint16
	Src        []byte
	Dest, TTL  byte
	Payload    []byte
	Hint       byte
	Ext        []byte
	Hash       uint64
	LenField   uint32
}

// VerifC30NewPacket builds a packet the way protocolHandler.send / PeerToPeer.Send /
// sendToFriends do: NewPacket, then dest, ttl, src, and (optionally) the extension.
func VerifC30NewPacket(f VerifC30Fields) *Packet {
	pkt := NewPacket(module.ProtocolInfo(f.Proto), module.ProtocolInfo(f.Sub), f.Payload)
	pkt.dest = f.Dest
	pkt.ttl = f.TTL
	pkt.src = NewPeerID(f.Src)
	if f.Hint != 0 || len(f.Ext) > 0 {
		pkt.extendInfo = newPacketExtendInfo(f.Hint, len(f.Ext))
		pkt.ext = f.Ext
	}
	return pkt
}

func VerifC30GetFields(p *Packet) VerifC30Fields {
	f := VerifC30Fields{
		Proto: p.protocol.Uint16(), Sub: p.subProtocol.Uint16(),
		Dest: p.dest, TTL: p.ttl, Payload: p.payload,
		Hint: p.extendInfo.hint(), Hash: p.hashOfPacket, LenField: p.lengthOfPayload,
	}
	if p.src != nil {
		f.Src = p.src.Bytes()
	}
	if n := p.extendInfo.len(); n > 0 && len(p.ext) >= n {
		f.Ext = p.ext[:n]
	}
	return f
}

const (
	VerifC30HeaderSize = packetHeaderSize
	VerifC30FooterSize = packetFooterSize
	VerifC30PayloadMax = DefaultPacketPayloadMax
	VerifC30BufferSize = DefaultPacketBufferSize
)

// VerifC30RelayAppend does to a (received) packet what PeerToPeer.sendToFriends does before
// relaying it: bump the hint, add the new ids' length to the announced length through
// newPacketExtendInfo, re-serialise the footer, append the ids to the extension.
func VerifC30RelayAppend(pkt *Packet, ids []byte) {
	ext := ids
	pkt.extendInfo = newPacketExtendInfo(pkt.extendInfo.hint()+1, pkt.extendInfo.len()+len(ext))
	if len(pkt.ext) > 0 {
		ext = append(pkt.ext, ext...)
	}
	pkt.footerToBytes(true)
	pkt.ext = ext[:]
}

// VerifC30AnnouncedExtLen: the extension length stored in the footer field.
func VerifC30AnnouncedExtLen(pkt *Packet) int { return pkt.extendInfo.len() }
