//go:build verif

package network

// Add-only shim for the C33 harness (flooding rules of PeerToPeer.onPacket and the
// PacketPool).  It builds a PeerToPeer with stub peers (no sockets, no goroutines),
// registers a recording packet callback, feeds packets to onPacket exactly as
// Peer.receiveRoutine does (after a WriteTo/ReadFrom round trip so that hashOfPacket
// is the verified footer hash), and exposes PacketPool with chosen hashes.
// Nothing here changes behaviour of the package.

import (
	"bytes"
	"net"
	"sync"
	"time"

	"github.com/icon-project/goloop/common/log"
	"github.com/icon-project/goloop/module"
)

type verifC33Conn struct{ closed bool }

func (c *verifC33Conn) Read(b []byte) (int, error)         { return 0, net.ErrClosed }
func (c *verifC33Conn) Write(b []byte) (int, error)        { return len(b), nil }
func (c *verifC33Conn) Close() error                       { c.closed = true; return nil }
func (c *verifC33Conn) LocalAddr() net.Addr                { return nil }
func (c *verifC33Conn) RemoteAddr() net.Addr               { return nil }
func (c *verifC33Conn) SetDeadline(t time.Time) error      { return nil }
func (c *verifC33Conn) SetReadDeadline(t time.Time) error  { return nil }
func (c *verifC33Conn) SetWriteDeadline(t time.Time) error { return nil }

func verifC33Logger() log.Logger {
	l := log.New()
	l.SetLevel(log.PanicLevel)
	l.SetConsoleLevel(log.PanicLevel)
	return l
}

type VerifC33Delivery struct {
	Hash   uint64
	Src    []byte
	PeerID []byte
}

type VerifC33Node struct {
	p2p       *PeerToPeer
	logger    log.Logger
	mtx       sync.Mutex // the callback may be invoked from several goroutines
	Delivered []VerifC33Delivery
}

func (n *VerifC33Node) DeliveredCount() int {
	n.mtx.Lock()
	defer n.mtx.Unlock()
	return len(n.Delivered)
}

type VerifC33Peer struct{ p *Peer }

// VerifC33NewNode: a PeerToPeer as NewManager builds it, with callbacks registered for
// cbProtos (as RegisterReactor does through setCbFunc) and a packet pool of the given shape.
func VerifC33NewNode(selfID []byte, cbProtos []uint16, numBucket uint8, lenBucket uint16) *VerifC33Node {
	l := verifC33Logger()
	self := &Peer{id: NewPeerID(selfID)}
	n := &VerifC33Node{logger: l}
	n.p2p = newPeerToPeer("verif", self, nil, nil, l)
	n.p2p.packetPool = NewPacketPool(numBucket, lenBucket)
	for _, pi := range cbProtos {
		n.p2p.setCbFunc(module.ProtocolInfo(pi), func(pkt *Packet, p *Peer) {
			n.mtx.Lock()
			n.Delivered = append(n.Delivered, VerifC33Delivery{Hash: pkt.hashOfPacket, Src: pkt.src.Bytes(), PeerID: p.ID().Bytes()})
			n.mtx.Unlock()
		}, nil)
	}
	return n
}

func (n *VerifC33Node) SetSelfRole(role byte) { n.p2p.self.setRole(PeerRoleFlag(role)) }

// NewPeer: a connected peer after the handshake: id, role flags resolved by this node, role
// flags the peer announced about itself (recvRole), connection type, protocols.
func (n *VerifC33Node) NewPeer(id []byte, role byte, recvRole byte, connType byte, protos []uint16) *VerifC33Peer {
	p := newPeer(&verifC33Conn{}, true, "", n.logger)
	p.setID(NewPeerID(id))
	p.setRole(PeerRoleFlag(role))
	p.setRecvRole(PeerRoleFlag(recvRole))
	p.setConnType(PeerConnectionType(connType))
	pis := newProtocolInfos()
	for _, pi := range protos {
		pis.Add(module.ProtocolInfo(pi))
	}
	p.setProtocolInfos(pis)
	return &VerifC33Peer{p}
}

func (p *VerifC33Peer) Closed() bool { return p.p.IsClosed() }

// Roles returns (p.Role(), p.RecvRole()) as the package sees them now.
func (p *VerifC33Peer) Roles() (byte, byte) { return byte(p.p.Role()), byte(p.p.RecvRole()) }

// SetAllowedRoots replaces the validator list (manager.SetRole(RoleValidator, ...)); connected
// peers registered with AddToTopology get/lose the root flag through onAllowedPeerIDSetUpdate.
func (n *VerifC33Node) SetAllowedRoots(ids [][]byte) {
	l := make([]module.PeerID, len(ids))
	for i, id := range ids {
		l[i] = NewPeerID(id)
	}
	n.p2p.allowedRoots.ClearAndAdd(l...)
}

// Handshake: the peer's QueryMessage announcing `claimed` goes through onPacket (handleQuery
// resolves the role against the allowed sets and stores the claim as recvRole).  The peer must
// have been created with the control protocol (0x0000) among its protocols.
func (n *VerifC33Node) Handshake(p *VerifC33Peer, claimed byte) {
	q := newPacket(p2pProtoControl, p2pProtoQueryReq, n.p2p.encode(&QueryMessage{Role: PeerRoleFlag(claimed)}), p.p.ID())
	n.p2p.onPacket(q, p.p)
}

// Prepare / Fire: build the received packet first, hand it to onPacket later (so that several
// goroutines can be released at the same moment).
type VerifC33Prepared struct {
	pkt *Packet
	p   *Peer
}

func (n *VerifC33Node) Prepare(p *VerifC33Peer, f VerifC33Packet) (*VerifC33Prepared, error) {
	pkt, err := verifC33Build(f)
	if err != nil {
		return nil, err
	}
	pkt.sender = p.p.ID()
	return &VerifC33Prepared{pkt, p.p}, nil
}
func (n *VerifC33Node) Fire(x *VerifC33Prepared) { n.p2p.onPacket(x.pkt, x.p) }
func (x *VerifC33Prepared) Hash() uint64         { return x.pkt.hashOfPacket }

// AddToTopology registers the peer in the connection-type set (only needed for relaying).
func (n *VerifC33Node) AddToTopology(p *VerifC33Peer) { n.p2p.m[p.p.ConnType()].Add(p.p) }

type VerifC33Packet struct {
	Proto, Sub uint16
	Src        []byte
	Dest, TTL  byte
	Payload    []byte
	ForceHash  *uint64 // when set, hashOfPacket is overwritten after reading (collision experiments)
}

func verifC33Build(f VerifC33Packet) (*Packet, error) {
	out := NewPacket(module.ProtocolInfo(f.Proto), module.ProtocolInfo(f.Sub), f.Payload)
	out.src = NewPeerID(f.Src)
	out.dest = f.Dest
	out.ttl = f.TTL
	var buf bytes.Buffer
	if _, err := out.WriteTo(&buf); err != nil {
		return nil, err
	}
	pkt := &Packet{}
	if _, err := pkt.ReadFrom(&buf); err != nil {
		return nil, err
	}
	if f.ForceHash != nil {
		pkt.hashOfPacket = *f.ForceHash
	}
	return pkt, nil
}

type VerifC33Result struct {
	Hash       uint64
	Delivered  int  // callback invocations caused by this packet
	Closed     bool // the sending peer was closed
	InPool     bool // packetPool.Contains(pkt) afterwards
}

// OnPacket: what Peer.receiveRoutine does with a packet read from the peer's connection.
func (n *VerifC33Node) OnPacket(p *VerifC33Peer, f VerifC33Packet) (VerifC33Result, error) {
	pkt, err := verifC33Build(f)
	if err != nil {
		return VerifC33Result{}, err
	}
	pkt.sender = p.p.ID()
	before := n.DeliveredCount()
	n.p2p.onPacket(pkt, p.p)
	return VerifC33Result{Hash: pkt.hashOfPacket, Delivered: n.DeliveredCount() - before, Closed: p.p.IsClosed(),
		InPool: n.p2p.packetPool.Contains(pkt)}, nil
}

// RelayDecision: protocolHandler.onPacketResult for a received packet; reports whether the
// packet was handed to PeerToPeer.Send's queue.  The node must have peers that make the
// destination available (AddToTopology).
func (n *VerifC33Node) RelayDecision(from *VerifC33Peer, f VerifC33Packet, isRelay bool) (bool, error) {
	pkt, err := verifC33Build(f)
	if err != nil {
		return false, err
	}
	pkt.sender = from.p.ID()
	m := &manager{p2p: n.p2p, protocolHandlers: make(map[uint16]*protocolHandler), logger: n.logger}
	ph := &protocolHandler{m: m, protocol: module.ProtocolInfo(f.Proto), priority: 1, logger: n.logger}
	m.protocolHandlers[f.Proto] = ph
	n.p2p.run = true
	for n.p2p.sendQueue.Pop() != nil {
	}
	ph.onPacketResult(pkt, isRelay, nil)
	relayed := n.p2p.sendQueue.Pop() != nil
	n.p2p.run = false
	return relayed, nil
}

// ---- PacketPool with chosen hashes ----

type VerifC33Pool struct{ p *PacketPool }

func VerifC33NewPool(numBucket uint8, lenBucket uint16) *VerifC33Pool {
	return &VerifC33Pool{NewPacketPool(numBucket, lenBucket)}
}
func (p *VerifC33Pool) Put(h uint64) bool      { return p.p.Put(&Packet{hashOfPacket: h}) }
func (p *VerifC33Pool) Contains(h uint64) bool { return p.p.Contains(&Packet{hashOfPacket: h}) }
func (p *VerifC33Pool) Clear()                 { p.p.Clear() }

const (
	VerifC33DefaultNumBucket = DefaultPacketPoolNumBucket
	VerifC33DefaultBucketLen = DefaultPacketPoolBucketLen
	VerifC33RoleSeed         = byte(p2pRoleSeed)
	VerifC33RoleRoot         = byte(p2pRoleRoot)
	VerifC33DestAny          = byte(p2pDestAny)
	VerifC33DestPeer         = byte(p2pDestPeer)
	VerifC33ConnNone         = byte(p2pConnTypeNone)
	VerifC33ConnParent       = byte(p2pConnTypeParent)
	VerifC33ConnChildren     = byte(p2pConnTypeChildren)
	VerifC33ConnFriend       = byte(p2pConnTypeFriend)
	VerifC33ConnOther        = byte(p2pConnTypeOther)
)
