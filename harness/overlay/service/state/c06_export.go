//go:build verif

// Add-only shim for the C06 harness.
package state

import "github.com/icon-project/goloop/module"

// VerifDecodeDoubleSignContext is what worldContext.DecodeDoubleSignContext calls.
func VerifDecodeDoubleSignContext(t string, d []byte) (module.DoubleSignContext, error) {
	return decodeDoubleSignContext(t, d)
}
