//go:build verif

package state

// Add-only export shim for the C15/C16 harness: read the fields of a buffered
// BTP message (elements of Receipt.BTPMessages()).

// VerifBTPMsgOf returns (network id, message, true) if v is a BTP message element.
func VerifBTPMsgOf(v interface{}) (int64, []byte, bool) {
	if m, ok := v.(*bTPMsg); ok {
		return m.nid, m.message, true
	}
	return 0, nil, false
}
