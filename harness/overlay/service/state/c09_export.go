//go:build verif

// Add-only export shim for property C09: lets the harness poll whether a
// virtual state has committed (waiter == nil), without blocking on a worker
// that holds the mutex while it waits for a dependency.
package state

// VerifC09Committed reports whether Commit (or a waitCommit after it) has
// cleared the waiter of w.  false if w is busy (its mutex is held).
func VerifC09Committed(w WorldVirtualState) bool {
	wvs, ok := w.(*worldVirtualState)
	if !ok || wvs == nil {
		return false
	}
	if !wvs.mutex.TryLock() {
		return false
	}
	defer wvs.mutex.Unlock()
	return wvs.waiter == nil
}
