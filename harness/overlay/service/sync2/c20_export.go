//go:build verif

package sync2

// Add-only shim for property C20: lets the harness drive the REAL syncProcessor
// (getPacks, HandleData, AddRequest) as a network would, with one synthetic peer
// and no reactor.  No behaviour of its own: every method only moves the single
// peer between the processor's pools the way sendRequestsInLock / a reactor
// would, and then calls the unexported method.

import (
	"bytes"

	"github.com/icon-project/goloop/common/db"
	"github.com/icon-project/goloop/common/log"
	"github.com/icon-project/goloop/common/merkle"
	"github.com/icon-project/goloop/module"
)

type verifPeerID struct{ b []byte }

func (p verifPeerID) Bytes() []byte              { return p.b }
func (p verifPeerID) Equal(o module.PeerID) bool { return o != nil && bytes.Equal(p.b, o.Bytes()) }
func (p verifPeerID) String() string             { return "verif-peer" }

type verifSender struct{}

func (verifSender) RequestData(module.PeerID, uint32, []BucketIDAndBytes) error { return nil }

type VerifSyncProcessor struct {
	sp *syncProcessor
	p  *peer
}

func VerifNewSyncProcessor(b merkle.Builder, datasyncer bool) *VerifSyncProcessor {
	lg := log.New()
	lg.SetLevel(log.FatalLevel)
	sp := newSyncProcessor(b, nil, lg, datasyncer)
	sp.migrateDur = configDataSyncMigrationInterval
	return &VerifSyncProcessor{sp: sp, p: newPeer(verifPeerID{[]byte("verif-peer")}, verifSender{}, lg)}
}

func (v *VerifSyncProcessor) detachInLock() {
	v.sp.readyPool.remove(v.p.id)
	v.sp.sentPool.remove(v.p.id)
	v.sp.checkedPoolRemoveInLock(v.p)
}

// Packs returns what sendRequestsInLock would ask one ready peer for now.
func (v *VerifSyncProcessor) Packs() [][]BucketIDAndBytes {
	v.sp.mutex.Lock()
	defer v.sp.mutex.Unlock()
	if v.sp.builder.UnresolvedCount() == 0 {
		return nil
	}
	v.detachInLock()
	v.sp.readyPool.push(v.p)
	packs := v.sp.getPacks()
	v.sp.readyPool.remove(v.p.id)
	return packs
}

// HandleData delivers one response of the peer (the peer counts as having been asked).
func (v *VerifSyncProcessor) HandleData(data []BucketIDAndBytes) {
	v.sp.mutex.Lock()
	v.detachInLock()
	v.sp.sentPool.push(v.p)
	v.sp.mutex.Unlock()
	v.sp.HandleData(0, v.p, data)
}

func (v *VerifSyncProcessor) AddRequest(id db.BucketID, key []byte) error {
	return v.sp.AddRequest(id, key)
}

func (v *VerifSyncProcessor) UnresolvedCount() int { return v.sp.UnresolvedCount() }

func (v *VerifSyncProcessor) Close() {
	v.sp.mutex.Lock()
	defer v.sp.mutex.Unlock()
	v.detachInLock()
	v.sp.stopMigrateTimerInLock()
}
