//go:build verif

// Add-only shim for the C06 harness: the double-sign report manager.
package service

import (
	"github.com/icon-project/goloop/common/log"
	"github.com/icon-project/goloop/module"
)

type VerifDSRManager struct {
	m *dsrManager
}

// VerifNewDSRManager returns a manager whose firstHeight is set as
// OnFinalizeState would (InvalidFirstHeight = -1 leaves it unset).
func VerifNewDSRManager(first int64) *VerifDSRManager {
	m := newDSRManager(log.GlobalLogger())
	if first != InvalidFirstHeight {
		m.lock.Lock()
		m.setFirstHeightInLock(first)
		m.lock.Unlock()
	}
	return &VerifDSRManager{m: m}
}

func (v *VerifDSRManager) Add(data []module.DoubleSignData, ctx module.DoubleSignContext) error {
	return v.m.Add(data, ctx)
}

func (v *VerifDSRManager) TodoLen() int { return v.m.todo.Len() }
