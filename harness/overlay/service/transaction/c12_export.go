//go:build verif

// Add-only export shim for properties C12 (transaction identity) and C13
// (only the sender's key authorises).  It exposes the parsed fields and the
// internal flags of a v3 transaction, the two hash functions of
// transaction_v3.go / transaction_json.go, and a constructor for the binary
// form from explicit field values.  It contains no logic of its own.
package transaction

import (
	"encoding/json"
	"math/big"

	"github.com/icon-project/goloop/common"
	"github.com/icon-project/goloop/common/codec"
	"github.com/icon-project/goloop/common/crypto"
)

// VerifV3Fields is a copy of the parsed fields of a transactionV3.
type VerifV3Fields struct {
	Version   uint16
	From      []byte   // 21 bytes
	To        []byte   // 21 bytes
	Value     *big.Int // nil = absent
	StepLimit *big.Int
	TimeStamp int64
	NID       *int64
	Nonce     *big.Int
	SigNil    bool
	SigHasV   bool
	SigRS     []byte // 64 bytes when a signature is present
	SigRSV    []byte // 65 bytes when the signature has V
	DataType  *string
	Data      []byte // nil = absent
	DataNil   bool
	Raw       bool   // the raw flag (hash from the JSON text)
	CachedBin []byte // tx.bytes as stored (nil if not set yet)
}

func verifV3(t interface{}) *transactionV3 {
	if w, ok := t.(*transaction); ok {
		t = w.Transaction
	}
	if tx, ok := t.(*transactionV3); ok {
		return tx
	}
	return nil
}

// VerifIsV3 reports whether the (possibly wrapped) transaction is a transactionV3.
func VerifIsV3(t interface{}) bool { return verifV3(t) != nil }

// VerifV3FieldsOf copies the fields of a (possibly wrapped) v3 transaction.
func VerifV3FieldsOf(t interface{}) *VerifV3Fields {
	tx := verifV3(t)
	if tx == nil {
		return nil
	}
	d := &tx.transactionV3Data
	f := &VerifV3Fields{
		Version:   d.Version.Value,
		From:      append([]byte{}, d.From.Bytes()...),
		To:        append([]byte{}, d.To.Bytes()...),
		StepLimit: new(big.Int).Set(&d.StepLimit.Int),
		TimeStamp: d.TimeStamp.Value,
		Raw:       tx.raw,
		CachedBin: tx.bytes,
	}
	if d.Value != nil {
		f.Value = new(big.Int).Set(&d.Value.Int)
	}
	if d.NID != nil {
		v := d.NID.Value
		f.NID = &v
	}
	if d.Nonce != nil {
		f.Nonce = new(big.Int).Set(&d.Nonce.Int)
	}
	if d.Signature.Signature == nil {
		f.SigNil = true
	} else {
		f.SigHasV = d.Signature.Signature.HasV()
		if rs, err := d.Signature.Signature.SerializeRS(); err == nil {
			f.SigRS = append([]byte{}, rs...)
		}
		if rsv, err := d.Signature.Signature.SerializeRSV(); err == nil {
			f.SigRSV = rsv
		}
	}
	if d.DataType != nil {
		s := *d.DataType
		f.DataType = &s
	}
	if d.Data == nil {
		f.DataNil = true
	} else {
		f.Data = append([]byte{}, d.Data...)
	}
	return f
}

// VerifV3StructHash is transactionV3Data.calcHash (the hash over the parsed
// fields), whatever the raw flag says.
func VerifV3StructHash(t interface{}) ([]byte, error) {
	tx := verifV3(t)
	if tx == nil {
		return nil, nil
	}
	return tx.transactionV3Data.calcHash()
}

// VerifMapHash is calcHashOfTransactionJSON (hash over the JSON map).
func VerifMapHash(js []byte, version int) ([]byte, error) {
	return calcHashOfTransactionJSON(js, version)
}

// VerifV3VerifySignature calls verifySignature only (no value/data checks).
func VerifV3VerifySignature(t interface{}) error {
	tx := verifV3(t)
	if tx == nil {
		return nil
	}
	return tx.verifySignature()
}

// VerifV3Encode builds the binary form of a v3 transaction from explicit
// field values through the same codec call as transactionV3.Bytes().
// sig is R|S|V (65), R|S (64) or empty (no signature).
func VerifV3Encode(f *VerifV3Fields, sig []byte) ([]byte, error) {
	var d transactionV3Data
	d.Version.Value = f.Version
	if err := d.From.SetBytes(f.From); err != nil {
		return nil, err
	}
	if err := d.To.SetBytes(f.To); err != nil {
		return nil, err
	}
	if f.Value != nil {
		d.Value = new(common.HexInt)
		d.Value.Set(f.Value)
	}
	if f.StepLimit != nil {
		d.StepLimit.Set(f.StepLimit)
	}
	d.TimeStamp.Value = f.TimeStamp
	if f.NID != nil {
		d.NID = &common.HexInt64{Value: *f.NID}
	}
	if f.Nonce != nil {
		d.Nonce = new(common.HexInt)
		d.Nonce.Set(f.Nonce)
	}
	if len(sig) > 0 {
		s, err := crypto.ParseSignature(sig)
		if err != nil {
			return nil, err
		}
		d.Signature.Signature = s
	}
	if f.DataType != nil {
		s := *f.DataType
		d.DataType = &s
	}
	if !f.DataNil {
		d.Data = json.RawMessage(append([]byte{}, f.Data...))
	}
	return codec.MarshalToBytes(&d)
}
