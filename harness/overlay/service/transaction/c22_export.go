//go:build verif

package transaction

// VerifIntToKey exposes the index-key function of the transaction list.
func VerifIntToKey(i int) []byte { return intToKey(i) }
