//go:build verif

package contract

// Add-only export shim for the C15/C16 harness (harness/internal/txexec):
// the harness-defined scripted contract moves the transaction value with the
// real TransferHandler, exactly as TransferAndCallHandler does.

// VerifNewTransferHandler returns the (unexported-constructor) TransferHandler for ch.
func VerifNewTransferHandler(ch *CommonHandler) *TransferHandler {
	return newTransferHandler(ch)
}
