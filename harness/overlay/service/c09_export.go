//go:build verif

// Add-only export shim for property C09 (parallel transaction execution is
// equivalent to sequential execution).  It builds a `transition` carrying only
// the fields that executeTxsSequential / executeTxsConcurrent read (db, chain,
// log, plt through the embedded transitionContext, bi, step) and calls the real
// functions with a caller-supplied transaction list.
package service

import (
	"github.com/icon-project/goloop/chain/base"
	"github.com/icon-project/goloop/common/db"
	"github.com/icon-project/goloop/common/log"
	"github.com/icon-project/goloop/module"
	"github.com/icon-project/goloop/service/contract"
	"github.com/icon-project/goloop/service/txresult"
)

type VerifC09Env struct {
	t *transition
}

func VerifC09NewEnv(dbase db.Database, chain module.Chain, plt base.Platform, logger log.Logger, bi module.BlockInfo) *VerifC09Env {
	t := &transition{
		id: new(transitionID),
		bi: bi,
		transitionContext: &transitionContext{
			db:    dbase,
			chain: chain,
			log:   logger,
			plt:   plt,
		},
		step: stepExecuting,
	}
	return &VerifC09Env{t: t}
}

// NewContext does what doExecute does before it runs the transaction lists:
// newWorldContext(true) + newContractContext + ClearCache.
func (e *VerifC09Env) NewContext() (contract.Context, error) {
	wc, err := e.t.newWorldContext(true)
	if err != nil {
		return nil, err
	}
	ctx := e.t.newContractContext(wc)
	ctx.ClearCache()
	return ctx, nil
}

// ExecuteSequential calls executeTxsSequential.
func (e *VerifC09Env) ExecuteSequential(l module.TransactionList, ctx contract.Context, n int) ([]txresult.Receipt, error) {
	buf := make([]txresult.Receipt, n)
	err := e.t.executeTxsSequential(l, ctx, buf)
	return buf, err
}

// ExecuteConcurrent calls executeTxsConcurrent with the given level.
func (e *VerifC09Env) ExecuteConcurrent(level int, l module.TransactionList, ctx contract.Context, n int) ([]txresult.Receipt, error) {
	buf := make([]txresult.Receipt, n)
	err := e.t.executeTxsConcurrent(level, l, ctx, buf)
	return buf, err
}
