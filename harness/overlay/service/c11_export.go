//go:build verif

package service

import (
	"github.com/icon-project/goloop/module"
	"github.com/icon-project/goloop/service/scoredb"
	"github.com/icon-project/goloop/service/state"
)

// VerifLoggerTracker returns the locator tracker behind a TXIDLogger (C11 harness).
func VerifLoggerTracker(l TXIDLogger) module.LocatorTracker {
	return l.(*txIDLogger).lt
}

// ---- transition-level stream of C11 (read-only accessors) ----

// VerifC11LocatorManager returns the locator manager of a real service manager.
func VerifC11LocatorManager(sm module.ServiceManager) module.LocatorManager {
	return sm.(*manager).lm
}

// VerifC11Trackers returns the locator trackers behind the patch / normal id
// loggers of a transition (nil when the logger has not been created).
func VerifC11Trackers(tr module.Transition) (patch, normal module.LocatorTracker) {
	t := tr.(*transition)
	t.mutex.Lock()
	defer t.mutex.Unlock()
	if l, ok := t.ptxIDs.(*txIDLogger); ok && l != nil {
		patch = l.lt
	}
	if l, ok := t.ntxIDs.(*txIDLogger); ok && l != nil {
		normal = l.lt
	}
	return
}

// VerifC11StateThresholdMS reads timestamp_threshold (milliseconds, 0 = not set)
// from the world snapshot a completed transition results in.
func VerifC11StateThresholdMS(tr module.Transition) (int64, bool) {
	t := tr.(*transition)
	t.mutex.Lock()
	defer t.mutex.Unlock()
	if t.worldSnapshot == nil {
		return 0, false
	}
	ass := t.worldSnapshot.GetAccountSnapshot(state.SystemID)
	if ass == nil {
		return 0, true
	}
	as := scoredb.NewStateStoreWith(ass)
	return scoredb.NewVarDB(as, state.VarTimestampThreshold).Int64(), true
}
