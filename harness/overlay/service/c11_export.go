//go:build verif

package service

import "github.com/icon-project/goloop/module"

// VerifLoggerTracker returns the locator tracker behind a TXIDLogger (C11 harness).
func VerifLoggerTracker(l TXIDLogger) module.LocatorTracker {
	return l.(*txIDLogger).lt
}
