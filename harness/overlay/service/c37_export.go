//go:build verif

// Add-only export shim for property C37 (proposed transactions are valid for
// the block being proposed).  Read-only views of the REAL service manager's
// transaction pools and of a transition's world snapshot, plus the two
// operations the harness needs to put a pool into a chosen state (replace the
// element list by an empty one; TransactionPool.Add itself is exported).
package service

import (
	"math/big"

	"github.com/icon-project/goloop/common/errors"
	"github.com/icon-project/goloop/module"
	"github.com/icon-project/goloop/service/transaction"
)

// VerifC37Pool returns the pool of group g of the real service manager.
func VerifC37Pool(sm module.ServiceManager, g module.TransactionGroup) *TransactionPool {
	return sm.(*manager).tm.getTxPool(g)
}

// VerifC37TIM returns the TXIDManager the pools of the service manager share.
func VerifC37TIM(sm module.ServiceManager) TXIDManager {
	return sm.(*manager).tim
}

// VerifC37SwapPool installs tp as the pool of group g and returns the previous one
// (the harness computes the block of ANOTHER proposer with a second real pool
// over the same TXIDManager and then puts the node's own pool back).
func VerifC37SwapPool(sm module.ServiceManager, g module.TransactionGroup, tp *TransactionPool) *TransactionPool {
	tm := sm.(*manager).tm
	tm.lock.Lock()
	defer tm.lock.Unlock()
	var old *TransactionPool
	switch g {
	case module.TransactionGroupPatch:
		old, tm.patchTxPool = tm.patchTxPool, tp
	default:
		old, tm.normalTxPool = tm.normalTxPool, tp
	}
	return old
}

// VerifC37LocatorManager returns the locator manager the service manager uses.
func VerifC37LocatorManager(sm module.ServiceManager) module.LocatorManager {
	return sm.(*manager).lm
}

// VerifC37Elem is one pool element in iteration order.
type VerifC37Elem struct {
	Tx      transaction.Transaction
	Direct  bool   // e.ts != 0
	HasErr  bool   // e.err != nil
	ErrCode int    // errors.CodeOf(e.err) (0 when HasErr is false)
	ErrText string // for messages only
}

// VerifC37Handle keeps the elements a pool held at one moment, so that what a
// later Candidate call wrote into them (e.err) and whether they are still
// linked into the pool can be read even after the removal goroutine ran.
type VerifC37Handle struct {
	tp    *TransactionPool
	elems []*txElement
}

func VerifC37PoolHandle(tp *TransactionPool) *VerifC37Handle {
	tp.mutex.Lock()
	defer tp.mutex.Unlock()
	h := &VerifC37Handle{tp: tp}
	for e := tp.list.Front(); e != nil; e = e.Next() {
		h.elems = append(h.elems, e)
	}
	return h
}

// State lists, for the saved elements in their original order: the
// transaction, direct flag, e.err, and InList = the element is still in the pool.
func (h *VerifC37Handle) State() ([]VerifC37Elem, []bool) {
	h.tp.mutex.Lock()
	defer h.tp.mutex.Unlock()
	out := make([]VerifC37Elem, len(h.elems))
	in := make([]bool, len(h.elems))
	for i, e := range h.elems {
		el := VerifC37Elem{Tx: e.Value(), Direct: e.ts != 0}
		if e.err != nil {
			el.HasErr = true
			el.ErrCode = int(errors.CodeOf(e.err))
			el.ErrText = e.err.Error()
		}
		out[i] = el
		in[i] = e.list == h.tp.list
	}
	return out, in
}

// VerifC37PoolReset replaces the element list of the pool by an empty one.
func VerifC37PoolReset(tp *TransactionPool) {
	tp.mutex.Lock()
	defer tp.mutex.Unlock()
	tp.list = newTransactionList()
}

// VerifC37Balance reads a balance from the world snapshot of a completed transition.
func VerifC37Balance(tr module.Transition, addr module.Address) *big.Int {
	t := tr.(*transition)
	if t.worldSnapshot == nil {
		return nil
	}
	ass := t.worldSnapshot.GetAccountSnapshot(addr.ID())
	if ass == nil {
		return new(big.Int)
	}
	return new(big.Int).Set(ass.GetBalance())
}

// Error codes the harness classifies by.
const (
	VerifC37CodeExpired          = int(ExpiredTransactionError)
	VerifC37CodeFuture           = int(FutureTransactionError)
	VerifC37CodeNotEnoughBalance = int(transaction.NotEnoughBalanceError)
	VerifC37CodeNotEnoughStep    = int(transaction.NotEnoughStepError)
	VerifC37CodeIllegalArgument  = int(errors.IllegalArgumentError)
	VerifC37CodeInvalidState     = int(errors.InvalidStateError)
)
