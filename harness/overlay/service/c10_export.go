//go:build verif

// Add-only export shim for property C10 (block execution never silently drops
// a transaction).  It builds a `transition` carrying only the fields that
// executeTxs / executeTxsSequential / executeTxsConcurrent read (db, cm, eem,
// chain, log, plt through the embedded transitionContext, bi, step) and calls
// the real functions with a caller-supplied transaction list.
package service

import (
	"github.com/icon-project/goloop/chain/base"
	"github.com/icon-project/goloop/common/db"
	"github.com/icon-project/goloop/common/log"
	"github.com/icon-project/goloop/module"
	"github.com/icon-project/goloop/service/contract"
	"github.com/icon-project/goloop/service/txresult"
)

// VerifC10RetryCount is the constant the retry loops compare with.
const VerifC10RetryCount = RetryCount

type VerifC10Env struct {
	t *transition
}

func VerifC10NewEnv(dbase db.Database, chain module.Chain, plt base.Platform, logger log.Logger, bi module.BlockInfo) *VerifC10Env {
	t := &transition{
		id: new(transitionID),
		bi: bi,
		transitionContext: &transitionContext{
			db:    dbase,
			chain: chain,
			log:   logger,
			plt:   plt,
		},
		step: stepExecuting,
	}
	return &VerifC10Env{t: t}
}

// NewContext does what doExecute does before it runs the transaction lists:
// newWorldContext(true) + newContractContext.
func (e *VerifC10Env) NewContext(skipping bool) (contract.Context, error) {
	wc, err := e.t.newWorldContext(true)
	if err != nil {
		return nil, err
	}
	ctx := e.t.newContractContext(wc)
	ctx.ClearCache()
	if skipping {
		ctx.EnableSkipTransaction()
	}
	return ctx, nil
}

// ExecuteTxs = make([]Receipt, n) + executeTxs, exactly as doExecute calls it
// for the normal transaction list (mode chosen by chain.ConcurrencyLevel()).
func (e *VerifC10Env) ExecuteTxs(l module.TransactionList, ctx contract.Context, n int) ([]txresult.Receipt, error) {
	buf := make([]txresult.Receipt, n)
	err := e.t.executeTxs(l, ctx, buf)
	return buf, err
}

// ExecuteSequential calls executeTxsSequential directly (as doExecute does for
// the patch transaction list).
func (e *VerifC10Env) ExecuteSequential(l module.TransactionList, ctx contract.Context, n int) ([]txresult.Receipt, error) {
	buf := make([]txresult.Receipt, n)
	err := e.t.executeTxsSequential(l, ctx, buf)
	return buf, err
}

// ExecuteConcurrent calls executeTxsConcurrent directly with the given level.
func (e *VerifC10Env) ExecuteConcurrent(level int, l module.TransactionList, ctx contract.Context, n int) ([]txresult.Receipt, error) {
	buf := make([]txresult.Receipt, n)
	err := e.t.executeTxsConcurrent(level, l, ctx, buf)
	return buf, err
}
