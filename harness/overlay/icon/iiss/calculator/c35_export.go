//go:build verif

// Add-only export shim for property C35 (rewards never exceed the term's
// reward budget).  It runs the real IISS-4 reward calculation
// (iiss4Reward.Calculate) on a caller-supplied Context and exposes the
// unexported per-P-Rep results (PRepInfo / PRep fields) afterwards, plus the
// unexported helper fundToPeriodIScore.
package calculator

import (
	"math/big"
	"sort"

	"github.com/icon-project/goloop/module"
)

// VerifC35PRep is a copy of the unexported fields of one PRep after calculation.
type VerifC35PRep struct {
	Owner            module.Address
	Status           int
	Delegated        *big.Int
	Bonded           *big.Int
	CommissionRate   int64
	Power            *big.Int
	Pubkey           bool
	Rank             int
	AccumulatedVoted *big.Int
	AccumulatedPower *big.Int
	Commission       *big.Int
	VoterReward      *big.Int
	Wage             *big.Int
	Rewardable       bool
}

// VerifC35Result is what the calculation left behind.
type VerifC35Result struct {
	Loaded                bool // loadPRepInfo completed
	PReps                 []VerifC35PRep // every entry of PRepInfo.preps, sorted by owner bytes
	Rank                  []module.Address // PRepInfo.rank in order
	TotalAccumulatedPower *big.Int
	ElectedPRepCount      int
	OffsetLimit           int
}

// VerifC35Calculate runs NewIISS4Reward(ctx).Calculate() and snapshots PRepInfo.
func VerifC35Calculate(ctx Context) (*VerifC35Result, error) {
	r, err := NewIISS4Reward(ctx)
	if err != nil {
		return nil, err
	}
	cerr := r.Calculate()
	res := &VerifC35Result{}
	if r.pi == nil {
		return res, cerr
	}
	res.Loaded = true
	pi := r.pi
	res.ElectedPRepCount = pi.electedPRepCount
	res.OffsetLimit = pi.offsetLimit
	res.TotalAccumulatedPower = new(big.Int).Set(pi.totalAccumulatedPower)
	for _, p := range pi.preps {
		res.PReps = append(res.PReps, VerifC35PRep{
			Owner:            p.owner,
			Status:           int(p.status),
			Delegated:        new(big.Int).Set(p.delegated),
			Bonded:           new(big.Int).Set(p.bonded),
			CommissionRate:   int64(p.commissionRate),
			Power:            new(big.Int).Set(p.power),
			Pubkey:           p.pubkey,
			Rank:             p.rank,
			AccumulatedVoted: new(big.Int).Set(p.accumulatedVoted),
			AccumulatedPower: new(big.Int).Set(p.accumulatedPower),
			Commission:       new(big.Int).Set(p.commission),
			VoterReward:      new(big.Int).Set(p.voterReward),
			Wage:             new(big.Int).Set(p.wage),
			Rewardable:       p.IsRewardable(pi.electedPRepCount),
		})
	}
	sort.Slice(res.PReps, func(i, j int) bool {
		return string(res.PReps[i].Owner.Bytes()) < string(res.PReps[j].Owner.Bytes())
	})
	for _, p := range pi.rank {
		res.Rank = append(res.Rank, p.owner)
	}
	return res, cerr
}

// VerifC35FundToPeriodIScore is fundToPeriodIScore.
func VerifC35FundToPeriodIScore(reward *big.Int, period int64) *big.Int {
	return fundToPeriodIScore(reward, period)
}
