//go:build verif

// Add-only export shim for property C35: access to what the simulator keeps
// private — the accounts of an Env and the extension snapshot of the last
// finalized block (whose Back2 / Reward are the inputs of the reward
// calculation the platform starts, see iiss.updateCalculator).
package icsim

import (
	"github.com/icon-project/goloop/icon/iiss"
	"github.com/icon-project/goloop/icon/iiss/icreward"
	"github.com/icon-project/goloop/icon/iiss/icstage"
	"github.com/icon-project/goloop/module"
)

// VerifC35EnvAccounts returns the P-Rep, user and bonder addresses of env.
func VerifC35EnvAccounts(env *Env) (preps, users, bonders []module.Address) {
	return env.preps, env.users, env.bonders
}

// VerifC35CalcInputs returns the (back, base) pair iiss.updateCalculator would hand to
// calculator.New for the last finalized block: Back2 and Reward of the extension snapshot.
func VerifC35CalcInputs(sim Simulator) (*icstage.Snapshot, *icreward.Snapshot) {
	impl, ok := sim.(*simulatorImpl)
	if !ok || impl.wss == nil {
		return nil, nil
	}
	ess, ok := impl.wss.GetExtensionSnapshot().(*iiss.ExtensionSnapshotImpl)
	if !ok || ess == nil {
		return nil, nil
	}
	return ess.Back2(), ess.Reward()
}
