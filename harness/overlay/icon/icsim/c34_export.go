//go:build verif

// Add-only export shim for property C34 (staking conservation): read-only access
// to the IISS state of a simulator, so that the harness can read the stored
// network totals (totalDelegation), P-Rep status/bonder lists of arbitrary
// addresses and the unstaking/unbonding timer tables.
package icsim

import (
	"github.com/icon-project/goloop/icon/iiss/icstate"
)

// VerifC34State returns the (read-only) icstate.State of the last finalised block.
func VerifC34State(sim Simulator) *icstate.State {
	return sim.(*simulatorImpl).getReadonlyExtensionState().State
}
