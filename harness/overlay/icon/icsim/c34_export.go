//go:build verif

// Add-only export shim for property C34 (staking conservation).
//
//   - VerifC34State: read-only access to the IISS state of a simulator, so that the
//     harness can read the stored network totals (totalDelegation), P-Rep status /
//     bonder lists of arbitrary addresses and the unstaking/unbonding timer tables.
//   - VerifC34GoByBlockIssuing: simulatorImpl.GoByBlock with the base transaction
//     handled by the real ExtensionStateImpl.OnBaseTx (ICX issue to the treasury +
//     total supply, consensus info, reward fund transfer, network score timers)
//     instead of HandleConsensusInfo alone.  Everything else is the block loop of
//     GoByBlock, statement by statement.
package icsim

import (
	"github.com/icon-project/goloop/icon/iiss"
	"github.com/icon-project/goloop/icon/iiss/icstate"
	"github.com/icon-project/goloop/module"
	"github.com/icon-project/goloop/service/state"
)

// VerifC34State returns the (read-only) icstate.State of the last finalised block.
func VerifC34State(sim Simulator) *icstate.State {
	return sim.(*simulatorImpl).getReadonlyExtensionState().State
}

// VerifC34GoByBlockIssuing executes one block whose base transaction issues ICX.
func VerifC34GoByBlockIssuing(s Simulator, csi module.ConsensusInfo, blk Block) ([]Receipt, error) {
	sim := s.(*simulatorImpl)
	var err error
	var receipts []Receipt

	size := 1
	if blk != nil {
		size += len(blk.Txs())
	}
	receipts = make([]Receipt, size)

	wss := sim.wss
	blockHeight := sim.blockHeight + 1
	wc := NewWorldContext(newWorldState(wss, false), blockHeight, sim.Revision(), csi, sim.stepPrice)

	if err = sim.onExecutionBegin(wc); err != nil {
		return nil, err
	}

	// base transaction: the real handler of icon/iiss/base.go
	{
		cc := NewCallContext(wc, state.SystemAddress)
		es := wc.GetExtensionState().(*iiss.ExtensionStateImpl)
		err = es.OnBaseTx(cc, nil)
		receipts[0] = NewReceipt(cc.BlockHeight(), err, cc.Events())
		if err != nil {
			return nil, err
		}
	}

	if blk != nil {
		for i, tx := range blk.Txs() {
			wss = wc.GetSnapshot()
			cc := NewCallContext(wc, tx.From())
			err = sim.executeTx(cc, tx)
			receipts[i+1] = NewReceipt(blockHeight, err, cc.Events())

			if err != nil {
				if err = wc.Reset(wss); err != nil {
					return nil, err
				}
			}
		}
	}

	if err = sim.onExecutionEnd(wc); err != nil {
		return receipts, err
	}

	wss = wc.GetSnapshot()
	if err = wss.Flush(); err != nil {
		return receipts, err
	}

	sim.onFinalize(wss)

	sim.wss = wss
	sim.blockHeight = blockHeight
	return receipts, nil
}
