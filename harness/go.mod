module verif/harness

go 1.23

require (
	github.com/decred/dcrd/dcrec/secp256k1/v4 v4.2.0
	github.com/icon-project/goloop v0.0.0
	golang.org/x/crypto v0.32.0
)

require (
	contrib.go.opencensus.io/exporter/prometheus v0.4.2 // indirect
	github.com/beorn7/perks v1.0.1 // indirect
	github.com/biter777/countries v1.3.4 // indirect
	github.com/bshuster-repo/logrus-logstash-hook v0.4.1 // indirect
	github.com/cespare/xxhash/v2 v2.1.2 // indirect
	github.com/davecgh/go-spew v1.1.2-0.20180830191138-d8f796af33cc // indirect
	github.com/evalphobia/logrus_fluent v0.5.4 // indirect
	github.com/fluent/fluent-logger-golang v1.4.0 // indirect
	github.com/go-kit/log v0.2.1 // indirect
	github.com/go-logfmt/logfmt v0.5.1 // indirect
	github.com/gofrs/uuid v4.4.0+incompatible // indirect
	github.com/golang/groupcache v0.0.0-20210331224755-41bb18bfe9da // indirect
	github.com/golang/protobuf v1.5.3 // indirect
	github.com/golang/snappy v0.0.0-20180518054509-2e65f85255db // indirect
	github.com/matttproud/golang_protobuf_extensions v1.0.1 // indirect
	github.com/philhofer/fwd v1.0.0 // indirect
	github.com/pkg/errors v0.9.1 // indirect
	github.com/pmezard/go-difflib v1.0.1-0.20181226105442-5d4384ee4fb2 // indirect
	github.com/prometheus/client_golang v1.13.0 // indirect
	github.com/prometheus/client_model v0.2.0 // indirect
	github.com/prometheus/common v0.37.0 // indirect
	github.com/prometheus/procfs v0.8.0 // indirect
	github.com/prometheus/statsd_exporter v0.22.7 // indirect
	github.com/sirupsen/logrus v1.9.3 // indirect
	github.com/stretchr/testify v1.8.4 // indirect
	github.com/syndtr/goleveldb v1.0.0 // indirect
	github.com/tinylib/msgp v1.1.0 // indirect
	github.com/vmihailenco/msgpack/v4 v4.3.13 // indirect
	github.com/vmihailenco/tagparser v0.1.1 // indirect
	go.opencensus.io v0.24.0 // indirect
	golang.org/x/sync v0.10.0 // indirect
	golang.org/x/sys v0.29.0 // indirect
	google.golang.org/protobuf v1.33.0 // indirect
	gopkg.in/natefinch/lumberjack.v2 v2.2.1 // indirect
	gopkg.in/yaml.v2 v2.4.0 // indirect
	gopkg.in/yaml.v3 v3.0.1 // indirect
)

replace github.com/icon-project/goloop => /repo
