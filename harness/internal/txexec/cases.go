package txexec

// cases.go — Coq printing of an executed block, the direct oracles of C15 and
// C16 (the property statements checked on the observations, independent of the
// Coq model), and the random block generators shared by the two harnesses.

import (
	"fmt"
	"math/big"
	"math/rand"
	"strings"
)

// ---------------------------------------------------------------- Coq printing

func coqZ(v *big.Int) string { return "(" + v.String() + ")%Z" }
func coqZs(s string) string  { return "(" + bigOf(s).String() + ")%Z" }

func coqParams(p *Params) string {
	expand := "false"
	if p.Rev >= 6 { // basic.Revision6 toggles module.ExpandErrorCode
		expand = "true"
	}
	return fmt.Sprintf("(mkParams %s (%d)%%Z (%d)%%Z (%d)%%Z (%d)%%Z %s %d %d [%d])",
		coqZs(p.Price), p.CDefault, p.CInput, p.CCall, p.Invoke, expand, IDTreasury, IDScript, IDNoContract)
}

func coqOp(o *Op) string {
	switch o.K {
	case "set":
		v := bigOf(o.V).Int64()
		return fmt.Sprintf("OSet %d %d %d", o.A, o.B, v)
	case "move":
		return fmt.Sprintf("OMove %d %d %s", o.A, o.B, coqZs(o.V))
	case "log":
		return fmt.Sprintf("OLog %d", o.A)
	case "btp":
		return fmt.Sprintf("OBtp %d", o.A)
	case "burn":
		return fmt.Sprintf("OBurn %s", coqZs(o.V))
	case "enter":
		return "OEnter"
	case "xfer":
		return fmt.Sprintf("OXfer %d %s", o.A, coqZs(o.V))
	case "exit":
		return fmt.Sprintf("OExit %d", o.A)
	case "hang":
		return "OHang"
	case "grant":
		return fmt.Sprintf("OGrant %d", o.A)
	case "revoke":
		return fmt.Sprintf("ORevoke %d", o.A)
	case "dep":
		return fmt.Sprintf("OMove %d %d %s", IDScript, IDDeposit, coqZs(o.V))
	case "wdr":
		return fmt.Sprintf("OMove %d %d %s", IDDeposit, IDScript, coqZs(o.V))
	}
	return "OLog 0"
}

func coqTx(t *Tx, dataLen int) string {
	dt := []string{"DNone", "DMessage", "DCall"}[t.DT]
	ops := make([]string, len(t.Ops))
	for i := range t.Ops {
		ops[i] = coqOp(&t.Ops[i])
	}
	val := t.Value
	if val == "" {
		val = "0"
	}
	return fmt.Sprintf("(mkTx %d %d %s %s %s (%d)%%Z %v [%s])", t.From, t.To, coqZs(val), coqZs(t.Limit), dt, dataLen, t.Async, strings.Join(ops, "; "))
}

func coqBals(b []*big.Int) string {
	parts := make([]string, len(b))
	for i, v := range b {
		parts[i] = fmt.Sprintf("(%d, %s)", i, coqZ(v))
	}
	return "[" + strings.Join(parts, "; ") + "]"
}

func coqStos(s [][]int64) string {
	var parts []string
	for a := range s {
		for k, v := range s[a] {
			parts = append(parts, fmt.Sprintf("(%d, %d, %d)", a, k, v))
		}
	}
	return "[" + strings.Join(parts, "; ") + "]"
}

func coqLogs(l []LogEnt) string {
	parts := make([]string, len(l))
	for i, e := range l {
		switch e.Kind {
		case "script":
			parts[i] = fmt.Sprintf("LScript %d", e.ID)
		case "xfer":
			parts[i] = fmt.Sprintf("LXfer %d %s", e.ID, coqZs(e.Amt))
		default:
			parts[i] = "LXfer 999999 (-1)%Z" // an event the model never produces
		}
	}
	return "[" + strings.Join(parts, "; ") + "]"
}

func coqIds(l []int) string {
	parts := make([]string, len(l))
	for i, v := range l {
		if v < 0 {
			v = 999999
		}
		parts[i] = fmt.Sprintf("%d", v)
	}
	return "[" + strings.Join(parts, "; ") + "]"
}

func coqIdx(l []int) string {
	parts := make([]string, len(l))
	for a, v := range l {
		parts[a] = fmt.Sprintf("(%d, (%d)%%Z)", a, v)
	}
	return "[" + strings.Join(parts, "; ") + "]"
}

func coqBtp(l []int64) string {
	parts := make([]string, len(l))
	for i, v := range l {
		if v < 0 {
			v = 999999
		}
		parts[i] = fmt.Sprintf("%d", v)
	}
	return "[" + strings.Join(parts, "; ") + "]"
}

// CoqCase prints `Block p bals stos txs obs final`.
func CoqCase(in *BlockIn, obs *BlockObs) string {
	txs := make([]string, len(in.Txs))
	os := make([]string, len(in.Txs))
	for i := range in.Txs {
		o := &obs.Txs[i]
		txs[i] = coqTx(&in.Txs[i], o.DataLen)
		os[i] = fmt.Sprintf("(mkO %d %s %s %s %s %s %s %s %s)", o.Status, coqZ(o.Used), coqZ(o.Price),
			coqLogs(o.Logs), coqBtp(o.Btp), coqBals(o.Bal), coqStos(o.Sto), coqIds(o.Vals), coqIdx(o.Idx))
	}
	return fmt.Sprintf("(Block %s %s %s %s\n  [%s]\n  [%s]\n  %s)", coqParams(&in.P), coqBals(obs.PreBal), coqStos(obs.PreSto), coqIds(obs.PreVals),
		strings.Join(txs, ";\n   "), strings.Join(os, ";\n   "), coqBals(obs.Final))
}

// Corrupt returns a copy of obs with one observable changed (for canaries).
func Corrupt(obs *BlockObs, how int) *BlockObs {
	c := *obs
	c.Txs = append([]TxObs(nil), obs.Txs...)
	switch how % 3 {
	case 0: // a receipt claims one more step
		t := c.Txs[len(c.Txs)-1]
		t.Used = new(big.Int).Add(t.Used, big.NewInt(1))
		c.Txs[len(c.Txs)-1] = t
	case 1: // a balance is off by one after the first transaction
		t := c.Txs[0]
		t.Bal = append([]*big.Int(nil), t.Bal...)
		t.Bal[1] = new(big.Int).Add(t.Bal[1], big.NewInt(1))
		c.Txs[0] = t
	default: // the treasury got one unit more
		c.Final = append([]*big.Int(nil), obs.Final...)
		c.Final[IDTreasury] = new(big.Int).Add(c.Final[IDTreasury], big.NewInt(1))
	}
	return &c
}

// ---------------------------------------------------------------- direct oracles

func sum(b []*big.Int) *big.Int {
	s := new(big.Int)
	for _, v := range b {
		s.Add(s, v)
	}
	return s
}

func preOf(obs *BlockObs, i int) ([]*big.Int, [][]int64, []string) {
	if i == 0 {
		return obs.PreBal, obs.PreSto, obs.PreDigest
	}
	return obs.Txs[i-1].Bal, obs.Txs[i-1].Sto, obs.Txs[i-1].Digest
}

func mentions(ops []Op, id int) bool {
	for _, o := range ops {
		switch o.K {
		case "move":
			if o.A == id || o.B == id {
				return true
			}
		case "xfer":
			if o.A == id {
				return true
			}
		}
	}
	return false
}

// OracleC15: every transaction charges the sender exactly stepUsed*stepPrice
// (+ value on success), stepUsed is within its bounds, a successful plain
// transfer credits the recipient, balances never go negative, the sum of all
// balances changes by exactly minus the fee per transaction and is restored by
// the treasury credit at the end of the block.
func OracleC15(in *BlockIn, obs *BlockObs) string {
	price := bigOf(in.P.Price)
	total := new(big.Int)
	for i := range in.Txs {
		tx, o := &in.Txs[i], &obs.Txs[i]
		pre, _, _ := preOf(obs, i)
		fee := new(big.Int).Mul(o.Used, o.Price)
		total.Add(total, fee)
		if o.Fee.Cmp(fee) != 0 {
			return fmt.Sprintf("tx %d: Receipt.Fee()=%s but stepUsed*stepPrice=%s", i, o.Fee, fee)
		}
		if o.Price.Cmp(price) != 0 && !(o.Price.Sign() == 0 && o.Status != 0) {
			return fmt.Sprintf("tx %d: receipt step price %s, block step price %s, status %d", i, o.Price, price, o.Status)
		}
		// bounds
		min := big.NewInt(in.P.CDefault)
		lim := bigOf(tx.Limit)
		if big.NewInt(in.P.Invoke).Cmp(lim) < 0 {
			lim = big.NewInt(in.P.Invoke)
		}
		if lim.Cmp(min) < 0 {
			lim = min // a step limit below the minimum charge is charged the minimum (PreValidate rejects such transactions)
		}
		if o.Used.Cmp(min) < 0 {
			return fmt.Sprintf("tx %d: stepUsed %s below the minimum charge %s", i, o.Used, min)
		}
		if o.Used.Cmp(lim) > 0 {
			return fmt.Sprintf("tx %d: stepUsed %s above the step limit %s", i, o.Used, lim)
		}
		// no negative balance
		for a, v := range o.Bal {
			if v.Sign() < 0 {
				return fmt.Sprintf("tx %d: account %d has negative balance %s", i, a, v)
			}
		}
		// conservation per transaction
		want := new(big.Int).Sub(sum(pre), fee)
		if sum(o.Bal).Cmp(want) != 0 {
			return fmt.Sprintf("tx %d: sum of balances %s, expected %s (before %s, fee %s)", i, sum(o.Bal), want, sum(pre), fee)
		}
		// the sender's charge
		val := bigOf(tx.Value)
		moved := new(big.Int)
		if o.Status == 0 && tx.From != tx.To && val.Sign() > 0 {
			moved = val
		}
		plain := tx.DT != DTCall && tx.To <= IDTreasury
		script := tx.DT == DTCall && tx.To == IDScript
		if o.Status != 0 || plain || (script && !mentions(tx.Ops, tx.From)) {
			exp := new(big.Int).Sub(pre[tx.From], fee)
			exp.Sub(exp, moved)
			if o.Bal[tx.From].Cmp(exp) != 0 {
				return fmt.Sprintf("tx %d: sender balance %s, expected %s = %s - fee %s - value %s (status %d)", i, o.Bal[tx.From], exp, pre[tx.From], fee, moved, o.Status)
			}
		}
		if plain {
			for a := range o.Bal {
				exp := new(big.Int).Set(pre[a])
				if a == tx.From {
					continue
				}
				if a == tx.To {
					exp.Add(exp, moved)
				}
				if o.Bal[a].Cmp(exp) != 0 {
					return fmt.Sprintf("tx %d: plain transfer of %s (status %d): account %d has %s, expected %s", i, val, o.Status, a, o.Bal[a], exp)
				}
			}
			if o.Status != 0 && o.Status != 10 && o.Status != 11 && !(o.Status == 6 && val.Sign() < 0) {
				return fmt.Sprintf("tx %d: plain transfer failed with status %d", i, o.Status)
			}
		}
	}
	// block end
	if obs.TotalFee.Cmp(total) != 0 {
		return fmt.Sprintf("gathered fee %s differs from the sum of the receipts' fees %s", obs.TotalFee, total)
	}
	last := obs.PreBal
	if n := len(obs.Txs); n > 0 {
		last = obs.Txs[n-1].Bal
	}
	for a := range obs.Final {
		exp := new(big.Int).Set(last[a])
		if a == IDTreasury {
			exp.Add(exp, total)
		}
		if obs.Final[a].Cmp(exp) != 0 {
			return fmt.Sprintf("block end: account %d has %s, expected %s (fees charged %s)", a, obs.Final[a], exp, total)
		}
		if obs.Final[a].Sign() < 0 {
			return fmt.Sprintf("block end: account %d negative", a)
		}
	}
	if sum(obs.Final).Cmp(sum(obs.PreBal)) != 0 {
		return fmt.Sprintf("sum of balances after the block %s differs from before %s", sum(obs.Final), sum(obs.PreBal))
	}
	return ""
}

// OracleC16: a failed transaction leaves every balance, every storage value
// and every account record of the universe as before, except the payer's
// balance reduced by the fee; its receipt has no event logs and no BTP messages.
func OracleC16(in *BlockIn, obs *BlockObs) string {
	for i := range in.Txs {
		tx, o := &in.Txs[i], &obs.Txs[i]
		if o.Status == 0 {
			continue
		}
		pre, psto, pdig := preOf(obs, i)
		fee := new(big.Int).Mul(o.Used, o.Price)
		if len(o.Logs) != 0 {
			return fmt.Sprintf("tx %d failed with status %d but its receipt has %d event log(s)", i, o.Status, len(o.Logs))
		}
		if len(o.Btp) != 0 {
			return fmt.Sprintf("tx %d failed with status %d but its receipt has %d BTP message(s)", i, o.Status, len(o.Btp))
		}
		pvals, pidx := obs.PreVals, obs.PreIdx
		if i > 0 {
			pvals, pidx = obs.Txs[i-1].Vals, obs.Txs[i-1].Idx
		}
		if fmt.Sprint(o.Vals) != fmt.Sprint(pvals) {
			return fmt.Sprintf("tx %d failed with status %d: validator list is %v, was %v", i, o.Status, o.Vals, pvals)
		}
		if fmt.Sprint(o.Idx) != fmt.Sprint(pidx) {
			return fmt.Sprintf("tx %d failed with status %d: ValidatorState.IndexOf of accounts 0..4 is %v, was %v (validators %v)", i, o.Status, o.Idx, pidx, o.Vals)
		}
		for a := range o.Bal {
			exp := new(big.Int).Set(pre[a])
			if a == tx.From {
				exp.Sub(exp, fee)
			}
			if o.Bal[a].Cmp(exp) != 0 {
				return fmt.Sprintf("tx %d failed with status %d: balance of account %d is %s, expected %s (before %s, fee %s)", i, o.Status, a, o.Bal[a], exp, pre[a], fee)
			}
			for k := range o.Sto[a] {
				if o.Sto[a][k] != psto[a][k] {
					return fmt.Sprintf("tx %d failed with status %d: storage of account %d key %d is %d, was %d", i, o.Status, a, k, o.Sto[a][k], psto[a][k])
				}
			}
			if (a != tx.From || fee.Sign() == 0) && o.Digest[a] != pdig[a] {
				return fmt.Sprintf("tx %d failed with status %d: account record %d changed from %s to %s", i, o.Status, a, pdig[a], o.Digest[a])
			}
		}
	}
	return ""
}

// FailedAfterMutation: some transaction failed after it had something to roll back.
func FailedAfterMutation(in *BlockIn, obs *BlockObs) bool {
	for i := range in.Txs {
		tx, o := &in.Txs[i], &obs.Txs[i]
		if o.Status == 0 {
			continue
		}
		if bigOf(tx.Value).Sign() > 0 && o.Status != 11 {
			return true
		}
		for _, op := range tx.Ops {
			switch op.K {
			case "set", "move", "log", "btp", "xfer", "grant", "revoke", "dep", "wdr":
				return true
			}
		}
	}
	return false
}

func HasFee(obs *BlockObs) bool {
	for i := range obs.Txs {
		if obs.Txs[i].Used.Sign() > 0 && obs.Txs[i].Price.Sign() > 0 {
			return true
		}
	}
	return false
}

// Kinds summarises a block for the distribution table.
func Kinds(in *BlockIn, obs *BlockObs) string {
	if len(in.Txs) == 1 {
		tx, o := &in.Txs[0], &obs.Txs[0]
		k := []string{"transfer", "message", "call"}[tx.DT]
		switch {
		case tx.To == IDScript && tx.DT == DTCall:
			k = "script"
			if tx.Async {
				k = "ascript"
			}
		case tx.To == IDScript:
			k += "-to-contract"
		case tx.To == IDNoContract:
			k += "-to-nocontract"
		}
		return fmt.Sprintf("single-%s-status%d", k, o.Status)
	}
	fails := 0
	for i := range obs.Txs {
		if obs.Txs[i].Status != 0 {
			fails++
		}
	}
	switch {
	case fails == 0:
		return "block-all-success"
	case fails == len(obs.Txs):
		return "block-all-fail"
	}
	return "block-mixed"
}

// ---------------------------------------------------------------- generators

func price0(p *Params) *big.Int { return bigOf(p.Price) }

func pick(r *rand.Rand, xs ...int64) int64 { return xs[r.Intn(len(xs))] }

func dec(v *big.Int) string { return v.String() }

func GenParams(r *rand.Rand) Params {
	p := Params{Rev: 4}
	if r.Intn(10) < 3 {
		p.Rev = 8
	}
	switch r.Intn(8) {
	case 0:
		p.Price = "0"
	case 1:
		p.Price = "1"
	case 2:
		p.Price = "12500000000"
	case 3:
		p.Price = "1000000000000000000000" // fees beyond 64 bits
	default:
		p.Price = fmt.Sprint(1 + r.Intn(50))
	}
	p.CDefault = pick(r, 0, 1, 100, 100, 1000, 100000)
	p.CInput = pick(r, 0, 1, 2, 200)
	p.CCall = pick(r, 0, 5, 25, 25000)
	p.Invoke = pick(r, 1<<40, 1<<40, 1<<40, 1<<40, 1<<40, 1<<40, 200000, 200000, 5000, 150)
	return p
}

func genBalance(r *rand.Rand, p *Params) *big.Int {
	price := bigOf(p.Price)
	switch r.Intn(10) {
	case 0:
		return new(big.Int)
	case 1:
		return big.NewInt(int64(r.Intn(200)))
	case 2: // around one minimum fee
		v := new(big.Int).Mul(price, big.NewInt(p.CDefault))
		return v.Add(v, big.NewInt(int64(r.Intn(3)-1))).Abs(v)
	case 3:
		v, _ := new(big.Int).SetString("1000000000000000000000000", 10)
		return v.Add(v, big.NewInt(r.Int63()))
	default:
		v := new(big.Int).Mul(price, big.NewInt(1+r.Int63n(100_000_000)))
		return v.Add(v, big.NewInt(r.Int63n(1_000_000)))
	}
}

var exitCodes = []int{0, 0, 1, 2, 5, 6, 9, 10, 11, 12, 13, 14, 15, 32, 32, 33, 40, 99, 100, 131, 500, 999, 1032}

func genOps(r *rand.Rand, bal []*big.Int, failing bool) []Op {
	n := 1 + r.Intn(10)
	var ops []Op
	depth := 0
	amtFor := func(a int) string {
		switch r.Intn(16) {
		case 0:
			return dec(bal[a])
		case 1:
			return dec(new(big.Int).Add(bal[a], big.NewInt(1)))
		case 2:
			return "0"
		case 3:
			return fmt.Sprint(-1 - r.Intn(5))
		case 4, 5, 6, 7: // a small part, so that several moves in a row stay affordable
			return dec(new(big.Int).Div(bal[a], big.NewInt(int64(3+r.Intn(20)))))
		default:
			if bal[a].Sign() > 0 {
				return dec(new(big.Int).Rand(r, bal[a]))
			}
			return fmt.Sprint(r.Intn(3))
		}
	}
	for i := 0; i < n; i++ {
		switch r.Intn(16) {
		case 13:
			ops = append(ops, Op{K: []string{"grant", "grant", "revoke"}[r.Intn(3)], A: r.Intn(IDTreasury + 1)})
		case 14:
			ops = append(ops, Op{K: "dep", V: amtFor(IDScript)})
		case 15:
			ops = append(ops, Op{K: "wdr", V: amtFor(IDDeposit)})
		case 0, 1, 2:
			ops = append(ops, Op{K: "set", A: r.Intn(NAcct), B: r.Intn(NKeys), V: fmt.Sprint(r.Intn(4))})
		case 3, 4, 5:
			a := r.Intn(NAcct)
			ops = append(ops, Op{K: "move", A: a, B: r.Intn(NAcct), V: amtFor(a)})
		case 6:
			ops = append(ops, Op{K: "log", A: r.Intn(100)})
		case 7:
			ops = append(ops, Op{K: "btp", A: 1 + r.Intn(100)})
		case 8:
			ops = append(ops, Op{K: "burn", V: fmt.Sprint(pick(r, 0, 1, 10, 100, 1000, 100000, 1<<41, -5))})
		case 9:
			ops = append(ops, Op{K: "enter"})
			depth++
		case 10:
			amt := amtFor(IDScript)
			if r.Intn(4) == 0 { // far more than the contract can hold after receiving the value: must fail and be caught
				big1, _ := new(big.Int).SetString("100000000000000000000000000000000", 10)
				amt = dec(big1.Add(big1, bal[IDScript]))
			}
			ops = append(ops, Op{K: "xfer", A: r.Intn(IDTreasury + 1), V: amt})
		case 11:
			if depth > 0 {
				ops = append(ops, Op{K: "exit", A: exitCodes[r.Intn(len(exitCodes))]})
				depth--
			} else {
				ops = append(ops, Op{K: "log", A: 100 + r.Intn(100)})
			}
		default:
			if depth > 0 && r.Intn(2) == 0 {
				ops = append(ops, Op{K: "exit", A: 0})
				depth--
			} else {
				ops = append(ops, Op{K: "btp", A: 200 + r.Intn(50)})
			}
		}
	}
	if failing {
		// close the nested frames (successfully or not), then make the root frame fail
		for depth > 0 {
			if r.Intn(3) == 0 {
				ops = append(ops, Op{K: "exit", A: exitCodes[r.Intn(len(exitCodes))]})
			}
			depth--
			if r.Intn(2) == 0 {
				break // leave the rest open: the failure below then happens inside a nested frame
			}
		}
		switch r.Intn(6) {
		case 0:
			ops = append(ops, Op{K: "burn", V: fmt.Sprint(int64(1) << 41)}) // out of step
		case 1:
			a := r.Intn(NAcct)
			ops = append(ops, Op{K: "move", A: a, B: r.Intn(NAcct), V: dec(new(big.Int).Add(bal[a], big.NewInt(1+int64(r.Intn(1000)))))})
		case 2:
			ops = append(ops, Op{K: "move", A: r.Intn(NAcct), B: r.Intn(NAcct), V: "-1"})
		default:
			c := exitCodes[2+r.Intn(len(exitCodes)-2)]
			ops = append(ops, Op{K: "exit", A: c})
		}
		// whatever follows must not matter when the root frame failed; when the failure hit a
		// nested frame the tail decides
		if r.Intn(3) == 0 {
			ops = append(ops, Op{K: "exit", A: exitCodes[2+r.Intn(len(exitCodes)-2)]})
		}
	}
	return ops
}

// RealHangBudget is the number of really hanging frames (each blocks for TxTimeout) the
// generator may still emit; further timeouts use the Timeout status path.
var RealHangBudget int

// genTimeoutOps: every frame of a chain of depth 2 or 3 mutates state, then the innermost
// frame times out (hangs, or returns the Timeout status); the instructions after it run
// only where the timeout is an ordinary caught failure (synchronous nested calls).
func genTimeoutOps(r *rand.Rand, bal []*big.Int, from int) []Op {
	mut := func() []Op {
		var ops []Op
		for n := 1 + r.Intn(3); n > 0; n-- {
			switch r.Intn(8) {
			case 5:
				ops = append(ops, Op{K: []string{"grant", "revoke"}[r.Intn(2)], A: r.Intn(IDTreasury + 1)})
			case 6:
				ops = append(ops, Op{K: "dep", V: dec(new(big.Int).Div(bal[IDScript], big.NewInt(int64(2+r.Intn(9)))))})
			case 7:
				ops = append(ops, Op{K: "wdr", V: dec(new(big.Int).Div(bal[IDDeposit], big.NewInt(int64(2+r.Intn(9)))))})
			case 0, 1:
				ops = append(ops, Op{K: "set", A: r.Intn(NAcct), B: r.Intn(NKeys), V: fmt.Sprint(1 + r.Intn(4))})
			case 2:
				a := r.Intn(NAcct)
				ops = append(ops, Op{K: "move", A: a, B: r.Intn(NAcct), V: dec(new(big.Int).Div(bal[a], big.NewInt(int64(4+r.Intn(20)))))})
			case 3:
				ops = append(ops, Op{K: "log", A: r.Intn(100)})
			default:
				ops = append(ops, Op{K: "btp", A: 1 + r.Intn(100)})
			}
		}
		return ops
	}
	ops := mut()
	depth := 2 + r.Intn(2)
	for d := 1; d < depth; d++ {
		ops = append(ops, Op{K: "enter"})
		ops = append(ops, mut()...)
		if r.Intn(4) == 0 {
			ops = append(ops, Op{K: "xfer", A: r.Intn(IDTreasury + 1), V: fmt.Sprint(r.Intn(3))})
		}
	}
	switch {
	case RealHangBudget > 0 && r.Intn(3) == 0:
		RealHangBudget--
		ops = append(ops, Op{K: "hang", A: 1})
	case r.Intn(2) == 0:
		ops = append(ops, Op{K: "hang"})
	default:
		ops = append(ops, Op{K: "exit", A: 12})
	}
	for d := 1; d < depth; d++ {
		if r.Intn(2) == 0 {
			ops = append(ops, Op{K: "log", A: 200 + d})
		}
		ops = append(ops, Op{K: "exit", A: []int{0, 0, 32}[r.Intn(3)]})
	}
	if r.Intn(2) == 0 {
		ops = append(ops, Op{K: "set", A: from, B: 0, V: "3"})
	}
	return ops
}

// GenTx draws one transaction; bal is the (approximate) current balance vector.
func GenTx(r *rand.Rand, p *Params, bal []*big.Int, scriptBias int) Tx {
	tx := Tx{From: r.Intn(NEOA)}
	if r.Intn(12) == 0 {
		tx.From = IDTreasury
	} else if r.Intn(100) < 60 { // mostly a sender that can pay
		for i := 0; i < NEOA; i++ {
			if bal[i].Cmp(bal[tx.From]) > 0 {
				tx.From = i
			}
		}
	}
	tx.To = r.Intn(IDTreasury + 1)
	switch r.Intn(10) {
	case 0:
		tx.To = IDNoContract
	case 1:
		tx.To = IDScript
	case 2:
		tx.To = tx.From
	}
	tx.DT = int(pick(r, DTNone, DTNone, DTMessage, DTCall))
	if r.Intn(100) < scriptBias {
		tx.To, tx.DT = IDScript, DTCall
	}
	if tx.DT != DTNone {
		tx.Pad = int(pick(r, 0, 0, 1, 7, 40, 300))
	}
	if tx.To == IDScript && tx.DT == DTCall {
		tx.Async = r.Intn(100) < 45
		if r.Intn(100) < 18 {
			tx.Ops = genTimeoutOps(r, bal, tx.From)
			tx.Async = r.Intn(100) < 80
		} else {
			tx.Ops = genOps(r, bal, r.Intn(100) < 70)
		}
	}
	_, data := dataOf(&tx)
	need := p.CDefault + p.CInput*int64(len(data))
	generous := r.Intn(100) < 50
	if len(tx.Ops) > 0 && r.Intn(100) < 75 {
		generous = true // let most scripts reach their own failure point
	}
	lsel := r.Intn(9)
	if generous {
		lsel = 6 + r.Intn(3)
	}
	switch lsel {
	case 0:
		tx.Limit = fmt.Sprint(need)
	case 1:
		tx.Limit = fmt.Sprint(need + 1)
	case 2:
		if need > 0 {
			tx.Limit = fmt.Sprint(need - 1)
		} else {
			tx.Limit = "0"
		}
	case 3:
		tx.Limit = fmt.Sprint(need + p.CCall)
	case 4:
		tx.Limit = fmt.Sprint(r.Int63n(need + 2))
	case 5:
		tx.Limit = fmt.Sprint(need + p.CCall + r.Int63n(5000))
	default:
		tx.Limit = fmt.Sprint(2*need + 3*p.CCall + 100 + r.Int63n(100000))
		if generous && price0(p).BitLen() > 40 {
			tx.Limit = fmt.Sprint(need + 3*p.CCall + r.Int63n(50)) // keep limit*price affordable
		}
	}
	price := bigOf(p.Price)
	room := new(big.Int).Sub(bal[tx.From], new(big.Int).Mul(price, bigOf(tx.Limit)))
	vsel := r.Intn(10)
	if generous {
		vsel = 6 + r.Intn(4)
		if r.Intn(4) == 0 {
			vsel = r.Intn(3)
		}
	}
	switch vsel {
	case 0:
		tx.Value = "0"
	case 1:
		tx.Value = "" // no value field
	case 2: // exactly what is left after the maximum fee
		if room.Sign() >= 0 {
			tx.Value = dec(room)
		} else {
			tx.Value = "0"
		}
	case 3:
		tx.Value = dec(new(big.Int).Add(room, big.NewInt(1)))
		if bigOf(tx.Value).Sign() < 0 {
			tx.Value = "1"
		}
	case 4:
		if room.Sign() > 0 {
			tx.Value = dec(new(big.Int).Sub(room, big.NewInt(1)))
		} else {
			tx.Value = "1"
		}
	case 5:
		tx.Value = dec(new(big.Int).Add(bal[tx.From], big.NewInt(int64(r.Intn(10)))))
	default:
		if room.Sign() > 0 {
			tx.Value = dec(new(big.Int).Rand(r, room))
		} else {
			tx.Value = fmt.Sprint(r.Intn(5))
		}
	}
	if len(tx.Ops) > 0 && r.Intn(100) < 8 {
		// a script that SUCCEEDS but moves (almost) everything out of the sender: the fee
		// cannot be paid afterwards and Execute has to roll the whole transaction back
		left := new(big.Int).Sub(bal[tx.From], bigOf(tx.Value))
		if bigOf(tx.Value).Sign() < 0 {
			left = new(big.Int).Set(bal[tx.From])
		}
		left.Sub(left, big.NewInt(int64(r.Intn(3))))
		if left.Sign() > 0 {
			tx.Ops = []Op{{K: "log", A: 7}, {K: "btp", A: 8}, {K: "set", A: r.Intn(NAcct), B: r.Intn(NKeys), V: "4"},
				{K: "move", A: tx.From, B: (tx.From + 1 + r.Intn(3)) % NAcct, V: dec(left)}, {K: "log", A: 9}}
		}
	} else if len(tx.Ops) > 0 && price.Sign() > 0 && r.Intn(100) < 8 {
		// malformed stream (Verify() rejects negative values): a NEGATIVE value lets the balance
		// pre-check pass although the sender cannot even pay the steps of a successful call:
		// success -> fee unpayable -> rollback -> STILL unpayable -> second round of Execute's
		// out-of-balance loop (price 0).  The only way to reach that round without LegacyBalanceCheck.
		poor := 0
		for i := 1; i < NEOA; i++ {
			if bal[i].Cmp(bal[poor]) < 0 {
				poor = i
			}
		}
		t2 := tx
		t2.From, t2.Async = poor, r.Intn(2) == 0
		t2.Ops = []Op{{K: "log", A: 11}, {K: "set", A: r.Intn(NAcct), B: r.Intn(NKeys), V: "2"}}
		_, d2 := dataOf(&t2)
		need2 := p.CDefault + p.CInput*int64(len(d2)) + p.CCall
		limit := big.NewInt(need2 + int64(r.Intn(100)))
		if need2 > 0 && bal[poor].Cmp(new(big.Int).Mul(price, big.NewInt(need2))) < 0 {
			t2.Limit = dec(limit)
			t2.Value = dec(new(big.Int).Sub(bal[poor], new(big.Int).Mul(price, limit)))
			tx = t2
		}
	} else if r.Intn(40) == 0 {
		tx.Value = fmt.Sprint(-1 - r.Intn(1000)) // malformed: Verify() rejects it, Execute must still be safe
	}
	return tx
}

// GenBlock draws a block: parameters, universe, transactions.
// scriptBias: percentage of transactions forced to be scripted calls.
func GenBlock(r *rand.Rand, maxTx int, scriptBias int) *BlockIn {
	in := &BlockIn{P: GenParams(r)}
	nv := 1 + r.Intn(3)
	for _, a := range r.Perm(IDTreasury + 1)[:nv] {
		in.Vals = append(in.Vals, a)
	}
	bal := make([]*big.Int, NUniv)
	for i := range bal {
		bal[i] = genBalance(r, &in.P)
		if i == IDNoContract || (i >= NEOA && r.Intn(2) == 0) {
			if r.Intn(3) > 0 {
				bal[i] = big.NewInt(int64(r.Intn(3)))
			}
		}
		in.Bal = append(in.Bal, dec(bal[i]))
		row := make([]int64, NKeys)
		for k := range row {
			if r.Intn(3) == 0 {
				row[k] = int64(1 + r.Intn(5))
			}
		}
		in.Sto = append(in.Sto, row)
	}
	n := 1
	if maxTx > 1 && r.Intn(3) > 0 {
		n = 2 + r.Intn(maxTx-1)
	}
	for i := 0; i < n; i++ {
		in.Txs = append(in.Txs, GenTx(r, &in.P, bal, scriptBias))
	}
	return in
}
