// Package txexec is the shared helper of the C15 / C16 harness binaries.
//
// It stands up ONE real test node (test.NewNode: real service manager, real
// transition, real contract manager, the `basic` platform) and executes blocks
// of real version-3 transactions on it through service.NewTransition /
// Transition.Execute.  Three things are added around the code under test, all
// from the outside (nothing under /repo is edited):
//
//   - a wrapping base.Platform that delegates everything to basic.Platform but
//     (a) wraps the ContractManager so that `dataType:"call"` transactions to ONE
//     special contract address are served by the harness-defined scripted
//     contract (script.go) and (b) records the receipt and the account
//     universe after every transaction (OnTransactionEnd) and at the end of
//     the block, after the treasury was credited (OnExecutionEnd);
//   - a "verifsetup" transaction type (registered like test.Transaction is)
//     whose Execute writes balances, storage and the fee parameters
//     (step price / step costs / invoke limit / revision) directly into the
//     world state, used for the unchecked set-up block of every case;
//   - two add-only overlay shims (service/contract, service/state).
package txexec

import (
	"encoding/json"
	"fmt"
	"math/big"
	"sync"
	"time"

	"github.com/icon-project/goloop/chain/base"
	"github.com/icon-project/goloop/common"
	"github.com/icon-project/goloop/common/crypto"
	"github.com/icon-project/goloop/common/db"
	"github.com/icon-project/goloop/common/intconv"
	"github.com/icon-project/goloop/common/log"
	"github.com/icon-project/goloop/common/wallet"
	"github.com/icon-project/goloop/consensus"
	"github.com/icon-project/goloop/module"
	"github.com/icon-project/goloop/service"
	"github.com/icon-project/goloop/service/contract"
	"github.com/icon-project/goloop/service/platform/basic"
	"github.com/icon-project/goloop/service/scoredb"
	"github.com/icon-project/goloop/service/state"
	"github.com/icon-project/goloop/service/transaction"
	"github.com/icon-project/goloop/service/txresult"
	"github.com/icon-project/goloop/test"
)

// ---------------------------------------------------------------- universe

// Account ids of the universe.  0..NEOA-1 are externally owned accounts with
// keys, IDTreasury is the treasury (also an EOA with a key, so it can send),
// IDScript is the scripted contract, IDNoContract is a contract-form address
// (cx…) that holds no contract.
const (
	NEOA         = 4
	IDTreasury   = 4
	IDScript     = 5
	IDNoContract = 6
	NAcct        = 7
	IDDeposit    = 7 // pseudo account: the (v2) deposit held by the script contract
	NUniv        = 8
	NKeys        = 3 // storage keys per account
)

const (
	DTNone    = 0
	DTMessage = 1
	DTCall    = 2
)

var (
	wallets [NAcct]module.Wallet
	addrs   [NAcct]*common.Address
	godAddr = common.MustNewAddressFromString("hx0000000000000000000000000000000000000d0d")
)

func init() {
	for i := 0; i <= IDTreasury; i++ {
		skb := crypto.SHA3Sum256([]byte(fmt.Sprintf("verif-c15-account-%d", i)))
		sk, err := crypto.ParsePrivateKey(skb)
		if err != nil {
			panic(err)
		}
		w, err := wallet.NewFromPrivateKey(sk)
		if err != nil {
			panic(err)
		}
		wallets[i] = w
		addrs[i] = common.AddressToPtr(w.Address())
	}
	addrs[IDScript] = common.MustNewAddressFromString("cx5c5c5c5c5c5c5c5c5c5c5c5c5c5c5c5c5c5c5c5c")
	addrs[IDNoContract] = common.MustNewAddressFromString("cx6e6e6e6e6e6e6e6e6e6e6e6e6e6e6e6e6e6e6e6e")
}

func Addr(i int) *common.Address { return addrs[i] }

func idOfAddress(a module.Address) int {
	for i, x := range addrs {
		if x.Equal(a) {
			return i
		}
	}
	return -1
}

func storageKey(k int) []byte { return []byte(fmt.Sprintf("verif-key-%d", k)) }

// ---------------------------------------------------------------- inputs

// Params are the fee parameters of a block (written by the set-up block).
type Params struct {
	Rev      int    `json:"rev"`      // basic platform revision value (4 = default, 8 = latest)
	Price    string `json:"price"`    // step price (decimal)
	CDefault int64  `json:"cdefault"` // step cost "default"
	CInput   int64  `json:"cinput"`   // step cost "input" (per byte of compact JSON data)
	CCall    int64  `json:"ccall"`    // step cost "contractCall"
	Invoke   int64  `json:"invoke"`   // step limit "invoke"
}

// Op is one instruction of the scripted contract (see script.go).
type Op struct {
	K string `json:"k"`           // set move log btp burn enter xfer exit
	A int    `json:"a,omitempty"` // account / log id / message id / status
	B int    `json:"b,omitempty"` // second account / key
	V string `json:"v,omitempty"` // amount / value / steps (decimal)
}

type Tx struct {
	From  int    `json:"from"`
	To    int    `json:"to"`
	Value string `json:"value"` // decimal, may be negative in the malformed stream
	Limit string `json:"limit"` // stepLimit, decimal
	DT    int    `json:"dt"`    // DTNone, DTMessage, DTCall
	Pad   int    `json:"pad"`   // size knob of the data field
	Async bool   `json:"async,omitempty"` // scripted contract as asynchronous (engine-like) handler
	Ops   []Op   `json:"ops,omitempty"`
}

type BlockIn struct {
	P   Params     `json:"p"`
	Bal []string   `json:"bal"` // NUniv decimal balances (the last one: deposit of the script contract)
	Sto [][]int64  `json:"sto"` // NUniv x NKeys values, 0 = absent
	Vals []int     `json:"vals"` // initial validator list (EOA ids, at least one)
	Txs []Tx       `json:"txs"`
}

// ---------------------------------------------------------------- observations

type LogEnt struct {
	Kind string `json:"kind"` // script | xfer | other
	ID   int64  `json:"id"`   // script log id / recipient account id
	Amt  string `json:"amt,omitempty"`
}

type TxObs struct {
	Status  int
	Used    *big.Int
	Price   *big.Int
	Fee     *big.Int // Receipt.Fee()
	Logs    []LogEnt
	Btp     []int64
	Bal     []*big.Int // balances of the universe after this transaction
	Sto     [][]int64
	Digest  []string // hex of AccountSnapshot.Bytes() per account (nil snapshot = "")
	Vals    []int    // validator list (account ids; -1 = unknown address)
	Idx     []int    // ValidatorState.IndexOf for the EOAs 0..IDTreasury
	DataLen int      // bytes of the data field as sent
}

type BlockObs struct {
	PreBal    []*big.Int
	PreSto    [][]int64
	PreDigest []string
	PreVals   []int
	PreIdx    []int
	Txs       []TxObs
	Final     []*big.Int // after the treasury credit (OnExecutionEnd)
	FinalSto  [][]int64
	FinalDig  []string
	FinalVals []int
	FinalIdx  []int
	TotalFee  *big.Int   // ExecutionResult.TotalFee()
	Virtual   *big.Int
}

// ---------------------------------------------------------------- environment

type nullT struct{ errs []string }

func (t *nullT) Errorf(format string, args ...interface{}) {
	t.errs = append(t.errs, fmt.Sprintf(format, args...))
}
func (t *nullT) Logf(format string, args ...any) {}

// TxTimeout is the transaction timeout of the fixture's chain (test.Chain has 5s):
// how long a hanging asynchronous frame blocks before waitResult's timer fires.
const TxTimeout = 4000 * time.Millisecond

type shortChain struct{ module.Chain }

func (c *shortChain) TransactionTimeout() time.Duration { return TxTimeout }

type Env struct {
	t     *nullT
	node  *test.Node
	nctx  *test.NodeContext
	base  module.Transition // after genesis + one-time initialisation
	nonce int64

	mu     sync.Mutex
	rec    *BlockObs // non-nil while a checked block executes
	recErr string
}

type plat struct {
	base.Platform
	env *Env
}

func (p *plat) NewContractManager(dbase db.Database, dir string, logger log.Logger) (contract.ContractManager, error) {
	cm, err := p.Platform.NewContractManager(dbase, dir, logger)
	if err != nil {
		return nil, err
	}
	return &wrapCM{ContractManager: cm}, nil
}

func (p *plat) OnTransactionEnd(wc state.WorldContext, logger log.Logger, rct txresult.Receipt) error {
	p.env.onTxEnd(wc, rct)
	return p.Platform.OnTransactionEnd(wc, logger, rct)
}

func (p *plat) OnExecutionEnd(wc state.WorldContext, er base.ExecutionResult, logger log.Logger) error {
	p.env.onExecEnd(wc, er)
	return p.Platform.OnExecutionEnd(wc, er, logger)
}

func genesisJSON() string {
	g := map[string]interface{}{
		"accounts": []interface{}{
			map[string]interface{}{"name": "god", "address": godAddr.String(), "balance": "0x0"},
			map[string]interface{}{"name": "treasury", "address": addrs[IDTreasury].String(), "balance": "0x0"},
		},
		"message": "verif C15/C16 fixture",
		"nid":     "0x1",
		"chain": map[string]interface{}{
			"revision": fmt.Sprintf("0x%x", basic.DefaultRevision),
			"fee": map[string]interface{}{
				"stepPrice": "0x1",
				"stepLimit": map[string]interface{}{"invoke": "0x100000", "query": "0x100000"},
				"stepCosts": map[string]interface{}{"default": "0x10", "input": "0x1", "contractCall": "0x5"},
			},
		},
	}
	b, _ := json.Marshal(g)
	return string(b)
}

// NewEnv creates the node and the base transition every case branches from.
func NewEnv() (*Env, error) {
	e := &Env{t: &nullT{}}
	log.GlobalLogger().SetLevel(log.FatalLevel)
	registerSetupTx()
	e.node = test.NewNode(e.t,
		test.UseGenesis(genesisJSON()),
		test.UseConfig(&test.FixtureConfig{
			NewPlatform: func(ctx *test.NodeContext) base.Platform {
				return &plat{Platform: basic.Platform, env: e}
			},
			NewSM: func(ctx *test.NodeContext) module.ServiceManager {
				e.nctx = ctx
				return test.NewServiceManager(ctx.C, ctx.Platform, ctx.CM, ctx.EM)
			},
		}))
	if len(e.t.errs) > 0 {
		return nil, fmt.Errorf("node set-up: %v", e.t.errs)
	}
	e.node.Chain.Logger().SetLevel(log.FatalLevel)
	if e.nctx == nil {
		return nil, fmt.Errorf("service manager factory was not called")
	}
	// block 0 carries the genesis transaction; its effects are the Result of block 1
	e.node.ProposeFinalizeBlock(consensus.NewEmptyCommitVoteList())
	if len(e.t.errs) > 0 {
		return nil, fmt.Errorf("block 1: %v", e.t.errs)
	}
	blk := e.node.LastBlock
	// the transitions are created like test.ServiceManager does, but on a chain whose
	// TransactionTimeout is short enough to let a frame really time out
	itr, err := service.NewInitTransition(e.nctx.C.Database(), blk.Result(), blk.NextValidators(),
		e.nctx.CM, e.nctx.EM, &shortChain{e.nctx.C}, e.nctx.C.Logger(), e.nctx.Platform, service.NewTimestampChecker())
	if err != nil {
		return nil, err
	}
	// one-time initialisation block: contract account for the script address,
	// one validator with a BTP key and one open BTP network (id 1).
	st := &setupJSON{Type: setupType, Nonce: e.nextNonce(), Init: true}
	for i := 0; i <= IDTreasury; i++ {
		st.PubKeys = append(st.PubKeys, common.HexBytes(wallets[i].PublicKey()))
	}
	tr, _, err := e.execute(itr, []module.Transaction{e.setupTx(st)}, 1, nil)
	if err != nil {
		return nil, fmt.Errorf("init block: %v", err)
	}
	e.base = tr
	return e, nil
}

func (e *Env) Close() {
	defer func() { recover() }()
	e.node.Close()
}

func (e *Env) nextNonce() int64 {
	e.nonce++
	return e.nonce
}

type execCB struct{ ch chan error }

func (c *execCB) OnValidate(tr module.Transition, err error) {
	if err != nil {
		c.ch <- fmt.Errorf("validate: %v", err)
	}
}
func (c *execCB) OnExecute(tr module.Transition, err error) { c.ch <- err }

// execute runs txs as one block on top of parent; rec (may be nil) receives the observations.
func (e *Env) execute(parent module.Transition, txs []module.Transaction, height int64, rec *BlockObs) (module.Transition, []module.Receipt, error) {
	txl := transaction.NewTransactionListFromSlice(e.node.Chain.Database(), txs)
	bi := common.NewBlockInfo(height, height*1_000_000)
	csi := common.NewConsensusInfo(nil, nil, nil)
	tr := service.NewTransition(parent, nil, txl, bi, csi, true)
	var err error
	e.mu.Lock()
	e.rec = rec
	e.recErr = ""
	e.mu.Unlock()
	cb := &execCB{ch: make(chan error, 2)}
	if _, err := tr.Execute(cb); err != nil {
		return nil, nil, err
	}
	select {
	case err = <-cb.ch:
	case <-time.After(120 * time.Second):
		err = fmt.Errorf("transition did not complete in 60s")
	}
	e.mu.Lock()
	e.rec = nil
	rerr := e.recErr
	e.mu.Unlock()
	if err != nil {
		return nil, nil, err
	}
	if rerr != "" {
		return nil, nil, fmt.Errorf("observer: %s", rerr)
	}
	var rcts []module.Receipt
	for it := tr.NormalReceipts().Iterator(); it.Has(); it.Next() {
		r, err := it.Get()
		if err != nil {
			return nil, nil, err
		}
		rcts = append(rcts, r)
	}
	return tr, rcts, nil
}

// ---------------------------------------------------------------- observers

func readUniverse(wc state.WorldContext) (bal []*big.Int, sto [][]int64, dig []string) {
	bal = make([]*big.Int, NUniv)
	sto = make([][]int64, NUniv)
	dig = make([]string, NUniv)
	for i := 0; i < NUniv; i++ {
		sto[i] = make([]int64, NKeys)
		bal[i] = new(big.Int)
	}
	for i := 0; i < NAcct; i++ {
		ass := wc.GetAccountSnapshot(addrs[i].ID())
		if ass == nil {
			continue
		}
		bal[i].Set(ass.GetBalance())
		for k := 0; k < NKeys; k++ {
			v, err := ass.GetValue(storageKey(k))
			if err == nil && len(v) > 0 {
				sto[i][k] = intconv.BytesToInt64(v)
			}
		}
		dig[i] = fmt.Sprintf("%x", ass.Bytes())
		if i == IDScript {
			bal[IDDeposit] = depositOf(wc, ass)
		}
	}
	return
}

// depositOf: total usable deposit of an account (GetDepositInfo "availableDeposit").
func depositOf(dc state.DepositContext, ad state.AccountData) *big.Int {
	info, err := ad.GetDepositInfo(dc, module.JSONVersionLast)
	if err != nil || info == nil {
		return new(big.Int)
	}
	if s, ok := info["availableDeposit"].(string); ok {
		v := new(big.Int)
		if intconv.ParseBigInt(v, s) == nil {
			return v
		}
	}
	return big.NewInt(-1)
}

func readValidators(wc state.WorldContext) (vals []int, idx []int) {
	vs := wc.GetValidatorState()
	for i := 0; i < vs.Len(); i++ {
		v, _ := vs.Get(i)
		vals = append(vals, idOfAddress(v.Address()))
	}
	for a := 0; a <= IDTreasury; a++ {
		idx = append(idx, vs.IndexOf(addrs[a]))
	}
	return
}

func (e *Env) onTxEnd(wc state.WorldContext, rct txresult.Receipt) {
	e.mu.Lock()
	defer e.mu.Unlock()
	if e.rec == nil {
		return
	}
	o := TxObs{Status: int(rct.Status()), Used: rct.StepUsed(), Price: rct.StepPrice(), Fee: rct.Fee()}
	for it := rct.EventLogIterator(); it.Has(); it.Next() {
		ev, err := it.Get()
		if err != nil {
			e.recErr = "event log iterator: " + err.Error()
			return
		}
		o.Logs = append(o.Logs, decodeLog(ev))
	}
	if l := rct.BTPMessages(); l != nil {
		for i := l.Front(); i != nil; i = i.Next() {
			nid, msg, ok := state.VerifBTPMsgOf(i.Value)
			if !ok || nid != btpNID {
				o.Btp = append(o.Btp, -1)
			} else {
				o.Btp = append(o.Btp, intconv.BytesToInt64(msg))
			}
		}
	}
	o.Bal, o.Sto, o.Digest = readUniverse(wc)
	o.Vals, o.Idx = readValidators(wc)
	e.rec.Txs = append(e.rec.Txs, o)
}

func (e *Env) onExecEnd(wc state.WorldContext, er base.ExecutionResult) {
	e.mu.Lock()
	defer e.mu.Unlock()
	if e.rec == nil {
		return
	}
	e.rec.Final, e.rec.FinalSto, e.rec.FinalDig = readUniverse(wc)
	e.rec.FinalVals, e.rec.FinalIdx = readValidators(wc)
	e.rec.TotalFee = new(big.Int).Set(er.TotalFee())
	e.rec.Virtual = new(big.Int).Set(er.VirtualFee())
}

const (
	scriptLogSig = "VerifLog(int)"
	btpNID       = int64(1)
)

func decodeLog(ev module.EventLog) LogEnt {
	idx := ev.Indexed()
	if len(idx) == 2 && string(idx[0]) == scriptLogSig && ev.Address().Equal(addrs[IDScript]) {
		return LogEnt{Kind: "script", ID: intconv.BytesToInt64(idx[1])}
	}
	if len(idx) == 4 && string(idx[0]) == txresult.EventLogICXTransfer && ev.Address().Equal(addrs[IDScript]) {
		var from, to common.Address
		if from.SetBytes(idx[1]) == nil && to.SetBytes(idx[2]) == nil && from.Equal(addrs[IDScript]) {
			if id := idOfAddress(&to); id >= 0 {
				return LogEnt{Kind: "xfer", ID: int64(id), Amt: intconv.BigIntSetBytes(new(big.Int), idx[3]).String()}
			}
		}
	}
	return LogEnt{Kind: "other"}
}

// ---------------------------------------------------------------- set-up transaction

const setupType = "verifsetup"

type setupJSON struct {
	Type   string          `json:"type"`
	Nonce  int64           `json:"nonce"`
	Init   bool            `json:"init,omitempty"`
	PubKeys []common.HexBytes `json:"pubKeys,omitempty"`
	In     *BlockIn        `json:"in,omitempty"`
}

type setupTx struct {
	js  setupJSON
	raw []byte
}

var setupOnce sync.Once

func registerSetupTx() {
	setupOnce.Do(func() {
		transaction.RegisterFactory(&transaction.Factory{
			Priority: 4,
			CheckJSON: func(jso map[string]interface{}) bool {
				v, ok := jso["type"]
				return ok && v == setupType
			},
			ParseJSON: func(js []byte, jsm map[string]interface{}, raw bool) (transaction.Transaction, error) {
				t := &setupTx{raw: append([]byte(nil), js...)}
				if err := json.Unmarshal(js, &t.js); err != nil {
					return nil, err
				}
				return t, nil
			},
		})
	})
}

func (e *Env) setupTx(js *setupJSON) module.Transaction {
	b, err := json.Marshal(js)
	if err != nil {
		panic(err)
	}
	tx, err := transaction.NewTransactionFromJSON(b)
	if err != nil {
		panic(err)
	}
	return tx
}

func (t *setupTx) Prepare(ctx contract.Context) (state.WorldContext, error) {
	return ctx.GetFuture([]state.LockRequest{{state.WorldIDStr, state.AccountWriteLock}}), nil
}

func (t *setupTx) Execute(ctx contract.Context, wcs state.WorldSnapshot, estimate bool) (txresult.Receipt, error) {
	sys := ctx.GetAccountState(state.SystemID)
	if t.js.Init {
		sas := ctx.GetAccountState(addrs[IDScript].ID())
		if !sas.IsContract() {
			if !sas.InitContractAccount(addrs[0]) {
				return nil, fmt.Errorf("cannot initialise the script contract account")
			}
		}
		v, err := state.ValidatorFromAddress(addrs[0])
		if err != nil {
			return nil, err
		}
		if err := ctx.GetValidatorState().Set([]module.Validator{v}); err != nil {
			return nil, err
		}
		bs, ok := ctx.GetBTPState().(*state.BTPStateImpl)
		if !ok {
			return nil, fmt.Errorf("no BTP state")
		}
		bc := state.NewBTPContext(ctx, sys)
		// every account that may become a validator has a BTP key, so that a validator
		// change never invalidates the proof context of the open network
		for i, pk := range t.js.PubKeys {
			if err := bs.SetPublicKey(bc, addrs[i], "ecdsa/secp256k1", pk); err != nil {
				return nil, err
			}
		}
		if _, nid, err := bs.OpenNetwork(bc, "eth", "verif", addrs[0]); err != nil {
			return nil, err
		} else if nid != btpNID {
			return nil, fmt.Errorf("BTP network id %d", nid)
		}
	}
	if in := t.js.In; in != nil {
		price, ok := new(big.Int).SetString(in.P.Price, 10)
		if !ok {
			return nil, fmt.Errorf("bad price")
		}
		if err := scoredb.NewVarDB(sys, state.VarRevision).Set(in.P.Rev); err != nil {
			return nil, err
		}
		if err := scoredb.NewVarDB(sys, state.VarStepPrice).Set(price); err != nil {
			return nil, err
		}
		costs := scoredb.NewDictDB(sys, state.VarStepCosts, 1)
		for k, v := range map[string]int64{state.StepTypeDefault: in.P.CDefault, state.StepTypeInput: in.P.CInput, state.StepTypeContractCall: in.P.CCall} {
			if err := costs.Set(k, v); err != nil {
				return nil, err
			}
		}
		if err := scoredb.NewDictDB(sys, state.VarStepLimit, 1).Set(state.StepLimitTypeInvoke, in.P.Invoke); err != nil {
			return nil, err
		}
		var vl []module.Validator
		for _, a := range in.Vals {
			if a < 0 || a > IDTreasury {
				return nil, fmt.Errorf("bad validator id")
			}
			v, err := state.ValidatorFromAddress(addrs[a])
			if err != nil {
				return nil, err
			}
			vl = append(vl, v)
		}
		if len(vl) == 0 {
			return nil, fmt.Errorf("no validator")
		}
		if err := ctx.GetValidatorState().Set(vl); err != nil {
			return nil, err
		}
		if dep, ok := new(big.Int).SetString(in.Bal[IDDeposit], 10); !ok || dep.Sign() < 0 {
			return nil, fmt.Errorf("bad deposit")
		} else if dep.Sign() > 0 {
			if err := ctx.GetAccountState(addrs[IDScript].ID()).AddDeposit(ctx, dep); err != nil {
				return nil, err
			}
		}
		for i := 0; i < NAcct; i++ {
			as := ctx.GetAccountState(addrs[i].ID())
			b, ok := new(big.Int).SetString(in.Bal[i], 10)
			if !ok {
				return nil, fmt.Errorf("bad balance")
			}
			as.SetBalance(b)
			for k := 0; k < NKeys; k++ {
				if v := in.Sto[i][k]; v != 0 {
					if _, err := as.SetValue(storageKey(k), intconv.Int64ToBytes(v)); err != nil {
						return nil, err
					}
				} else if _, err := as.DeleteValue(storageKey(k)); err != nil {
					return nil, err
				}
			}
		}
	}
	r := txresult.NewReceipt(ctx.Database(), ctx.Revision(), state.SystemAddress)
	r.SetResult(module.StatusSuccess, new(big.Int), new(big.Int), nil)
	return r, nil
}

func (t *setupTx) Dispose()                       {}
func (t *setupTx) Group() module.TransactionGroup { return module.TransactionGroupNormal }
func (t *setupTx) ID() []byte                     { return crypto.SHA3Sum256(t.Bytes()) }
func (t *setupTx) From() module.Address           { return state.SystemAddress }
func (t *setupTx) Bytes() []byte                  { return t.raw }
func (t *setupTx) Hash() []byte                   { return t.ID() }
func (t *setupTx) Verify() error                  { return nil }
func (t *setupTx) Version() int                   { return module.TransactionVersion3 }
func (t *setupTx) ToJSON(version module.JSONVersion) (interface{}, error) {
	var m map[string]interface{}
	err := json.Unmarshal(t.raw, &m)
	return m, err
}
func (t *setupTx) MarshalJSON() ([]byte, error)                           { return t.raw, nil }
func (t *setupTx) ValidateNetwork(nid int) bool                           { return true }
func (t *setupTx) PreValidate(wc state.WorldContext, update bool) error   { return nil }
func (t *setupTx) GetHandler(cm contract.ContractManager) (transaction.Handler, error) { return t, nil }
func (t *setupTx) Timestamp() int64                                       { return 0 }
func (t *setupTx) Nonce() *big.Int                                        { return big.NewInt(t.js.Nonce) }
func (t *setupTx) To() module.Address                                     { return state.SystemAddress }
func (t *setupTx) IsSkippable() bool                                      { return false }

// ---------------------------------------------------------------- real transactions

// dataOf builds the (already compact) data field of a transaction.
func dataOf(tx *Tx) (dataType *string, data []byte) {
	switch tx.DT {
	case DTMessage:
		dt := contract.DataTypeMessage
		pad := tx.Pad
		if pad < 0 {
			pad = 0
		}
		hexs := make([]byte, 2*pad)
		for i := range hexs {
			hexs[i] = "0123456789abcdef"[(i*7+pad)%16]
		}
		return &dt, []byte(`"0x` + string(hexs) + `"`)
	case DTCall:
		dt := contract.DataTypeCall
		pad := ""
		for i := 0; i < tx.Pad; i++ {
			pad += "p"
		}
		if tx.To == IDScript {
			method := "run"
			if tx.Async {
				method = "runa"
			}
			return &dt, []byte(`{"method":"` + method + `","params":{"pad":"` + pad + `","s":"` + EncodeOps(tx.Ops) + `"}}`)
		}
		return &dt, []byte(`{"method":"poke","params":{"pad":"` + pad + `"}}`)
	}
	return nil, nil
}

func hexOf(dec string) (string, error) {
	v, ok := new(big.Int).SetString(dec, 10)
	if !ok {
		return "", fmt.Errorf("bad number %q", dec)
	}
	if v.Sign() < 0 {
		return "-0x" + new(big.Int).Neg(v).Text(16), nil
	}
	return "0x" + v.Text(16), nil
}

// realTx builds and signs a version-3 transaction.
func (e *Env) realTx(tx *Tx) (module.Transaction, int, error) {
	if tx.From < 0 || tx.From > IDTreasury || tx.To < 0 || tx.To >= NAcct {
		return nil, 0, fmt.Errorf("bad account id")
	}
	lim, err := hexOf(tx.Limit)
	if err != nil {
		return nil, 0, err
	}
	m := map[string]interface{}{
		"version":   "0x3",
		"from":      addrs[tx.From].String(),
		"to":        addrs[tx.To].String(),
		"stepLimit": lim,
		"timestamp": "0x1",
		"nid":       "0x1",
		"nonce":     fmt.Sprintf("0x%x", e.nextNonce()),
	}
	if tx.Value != "" {
		if m["value"], err = hexOf(tx.Value); err != nil {
			return nil, 0, err
		}
	}
	dt, data := dataOf(tx)
	if dt != nil {
		m["dataType"] = *dt
		m["data"] = json.RawMessage(data)
	}
	js, err := json.Marshal(m)
	if err != nil {
		return nil, 0, err
	}
	bs, err := transaction.SerializeJSON(js, nil, nil)
	if err != nil {
		return nil, 0, err
	}
	bs = append([]byte("icx_sendTransaction."), bs...)
	sig, err := wallets[tx.From].Sign(crypto.SHA3Sum256(bs))
	if err != nil {
		return nil, 0, err
	}
	m["signature"] = sig
	js, err = json.Marshal(m)
	if err != nil {
		return nil, 0, err
	}
	t, err := transaction.NewTransactionFromJSON(js)
	if err != nil {
		return nil, 0, err
	}
	return t, len(data), nil
}

// RunBlock executes the unchecked set-up block for `in` and then the checked block.
func (e *Env) RunBlock(in *BlockIn) (*BlockObs, error) {
	if len(in.Bal) != NUniv || len(in.Sto) != NUniv {
		return nil, fmt.Errorf("bad universe size")
	}
	for _, s := range in.Sto {
		if len(s) != NKeys {
			return nil, fmt.Errorf("bad key universe size")
		}
	}
	st := &setupJSON{Type: setupType, Nonce: e.nextNonce(), In: in}
	str, _, err := e.execute(e.base, []module.Transaction{e.setupTx(st)}, 2, nil)
	if err != nil {
		return nil, fmt.Errorf("set-up block: %v", err)
	}
	obs := &BlockObs{}
	var txs []module.Transaction
	lens := make([]int, len(in.Txs))
	for i := range in.Txs {
		t, n, err := e.realTx(&in.Txs[i])
		if err != nil {
			return nil, fmt.Errorf("tx %d: %v", i, err)
		}
		lens[i] = n
		txs = append(txs, t)
	}
	// the pre-state is read from the set-up transition's result through a
	// throw-away empty block (same world snapshot, nothing executed)
	pre := &BlockObs{}
	if _, _, err := e.execute(str, nil, 3, pre); err != nil {
		return nil, fmt.Errorf("pre-state block: %v", err)
	}
	obs.PreBal, obs.PreSto, obs.PreDigest = pre.Final, pre.FinalSto, pre.FinalDig
	obs.PreVals, obs.PreIdx = pre.FinalVals, pre.FinalIdx
	_, rcts, err := e.execute(str, txs, 3, obs)
	if err != nil {
		return nil, fmt.Errorf("checked block: %v", err)
	}
	if len(rcts) != len(txs) || len(obs.Txs) != len(txs) || obs.Final == nil {
		return nil, fmt.Errorf("observed %d receipts / %d hooks for %d transactions", len(rcts), len(obs.Txs), len(txs))
	}
	for i := range obs.Txs {
		obs.Txs[i].DataLen = lens[i]
	}
	return obs, nil
}

