package txexec

// script.go — the harness-defined scripted contract.
//
// `dataType:"call"` transactions to addrs[IDScript] are served by scriptHandler
// (a SyncContractHandler) instead of the engine-backed CallHandler; every other
// (from, to, type) combination goes to the real ContractManager.  A script is
// a flat list of instructions executed against the REAL CallContext:
//
//	set a k v   storage write on account a (v = 0 deletes)       AccountState.SetValue/DeleteValue
//	move f t v  balance move between ANY two accounts, guarded like TransferHandler
//	            (v < 0 -> InvalidParameter, balance(f) < v -> OutOfBalance: the current frame fails)
//	log i       cc.OnEvent
//	btp i       cc.OnBTPMessage(1, i)
//	burn n      cc.DeductSteps(max(n,0)); false -> the current frame fails with OutOfStep
//	enter       nested cc.Call of a sub-handler that continues the same script in a new frame
//	            (charges contractCall steps like every call); its failure is CAUGHT: the
//	            caller continues after the point where the callee stopped
//	xfer t v    real inter-call transfer from the contract to EOA t
//	            (ContractManager.GetCallHandler(CTypeTransfer) -> TransferHandler, new frame), failure caught
//	exit s      the current frame returns status s mod 1000 (0 = success)
//
// End of script: every open frame returns success.
// Before the script the root handler charges contractCall steps
// (cc.ApplyCallSteps) and moves the transaction value with the real
// TransferHandler.DoExecuteSync — what TransferAndCallHandler does.

import (
	"encoding/json"
	"fmt"
	"math/big"
	"strconv"
	"strings"

	"github.com/icon-project/goloop/common/codec"
	"github.com/icon-project/goloop/common/intconv"
	"github.com/icon-project/goloop/module"
	"github.com/icon-project/goloop/service/contract"
	"github.com/icon-project/goloop/service/scoreresult"
)

type wrapCM struct {
	contract.ContractManager
}

func (cm *wrapCM) GetHandler(from, to module.Address, value *big.Int, ctype int, data []byte) (contract.ContractHandler, error) {
	if ctype == contract.CTypeCall && to != nil && addrs[IDScript].Equal(to) {
		jso, err := contract.ParseCallData(data)
		if err == nil && jso.Method == "run" {
			var params struct {
				S string `json:"s"`
			}
			if err := json.Unmarshal(jso.Params, &params); err != nil {
				return nil, err
			}
			ops, err := DecodeOps(params.S)
			if err != nil {
				return nil, err
			}
			ch := contract.NewCommonHandler(from, to, value, false, cm.Logger())
			pc := 0
			return &scriptHandler{CommonHandler: ch, ops: ops, pc: &pc, root: true}, nil
		}
	}
	return cm.ContractManager.GetHandler(from, to, value, ctype, data)
}

type scriptHandler struct {
	*contract.CommonHandler
	ops  []Op
	pc   *int
	root bool
}

func status(code int) error {
	if code == 0 {
		return nil
	}
	return scoreresult.New(module.Status(code), fmt.Sprintf("verif script status %d", code))
}

func (h *scriptHandler) ExecuteSync(cc contract.CallContext) (error, *codec.TypedObj, module.Address) {
	if err := cc.ApplyCallSteps(); err != nil {
		return err, nil, nil
	}
	if h.root && h.Value != nil && h.Value.Sign() > 0 {
		th := contract.VerifNewTransferHandler(h.CommonHandler)
		if st, _, _ := th.DoExecuteSync(cc); st != nil {
			return st, nil, nil
		}
	}
	return h.run(cc), nil, nil
}

func bigOf(s string) *big.Int {
	v, ok := new(big.Int).SetString(s, 10)
	if !ok {
		return new(big.Int)
	}
	return v
}

func (h *scriptHandler) run(cc contract.CallContext) error {
	for *h.pc < len(h.ops) {
		op := h.ops[*h.pc]
		*h.pc++
		switch op.K {
		case "set":
			if op.A < 0 || op.A >= NAcct || op.B < 0 || op.B >= NKeys {
				continue
			}
			as := cc.GetAccountState(addrs[op.A].ID())
			v := bigOf(op.V).Int64()
			if v != 0 {
				if _, err := as.SetValue(storageKey(op.B), intconv.Int64ToBytes(v)); err != nil {
					panic(err)
				}
			} else if _, err := as.DeleteValue(storageKey(op.B)); err != nil {
				panic(err)
			}
		case "move":
			if op.A < 0 || op.A >= NAcct || op.B < 0 || op.B >= NAcct {
				continue
			}
			amt := bigOf(op.V)
			if amt.Sign() < 0 {
				return scoreresult.InvalidParameterError.New("verif: negative move")
			}
			as1 := cc.GetAccountState(addrs[op.A].ID())
			b1 := as1.GetBalance()
			if b1.Cmp(amt) < 0 {
				return scoreresult.ErrOutOfBalance
			}
			as1.SetBalance(new(big.Int).Sub(b1, amt))
			as2 := cc.GetAccountState(addrs[op.B].ID())
			as2.SetBalance(new(big.Int).Add(as2.GetBalance(), amt))
		case "log":
			cc.OnEvent(addrs[IDScript], [][]byte{[]byte(scriptLogSig), intconv.Int64ToBytes(int64(op.A))}, [][]byte{})
		case "btp":
			cc.OnBTPMessage(btpNID, intconv.Int64ToBytes(int64(op.A)))
		case "burn":
			n := bigOf(op.V)
			if n.Sign() < 0 {
				n = new(big.Int)
			}
			if !cc.DeductSteps(n) {
				return scoreresult.ErrOutOfStep
			}
		case "enter":
			sub := &scriptHandler{
				CommonHandler: contract.NewCommonHandler(addrs[IDScript], addrs[IDScript], new(big.Int), true, h.Logger()),
				ops:           h.ops, pc: h.pc,
			}
			_, used, _, _ := cc.Call(sub, cc.StepAvailable())
			cc.DeductSteps(used)
		case "xfer":
			if op.A < 0 || op.A > IDTreasury {
				continue // only EOA recipients: a contract-form recipient would need an engine
			}
			hd, err := cc.ContractManager().GetCallHandler(addrs[IDScript], addrs[op.A], bigOf(op.V), contract.CTypeTransfer, nil)
			if err != nil {
				panic(err)
			}
			_, used, _, _ := cc.Call(hd, cc.StepAvailable())
			cc.DeductSteps(used)
		case "exit":
			code := op.A % 1000
			if code < 0 {
				code = -code
			}
			return status(code)
		}
	}
	return nil
}

// ---------------------------------------------------------------- script text

func EncodeOps(ops []Op) string {
	parts := make([]string, len(ops))
	for i, o := range ops {
		v := o.V
		if v == "" {
			v = "0"
		}
		parts[i] = fmt.Sprintf("%s.%d.%d.%s", o.K, o.A, o.B, v)
	}
	return strings.Join(parts, ";")
}

func DecodeOps(s string) ([]Op, error) {
	if s == "" {
		return nil, nil
	}
	var ops []Op
	for _, p := range strings.Split(s, ";") {
		f := strings.Split(p, ".")
		if len(f) != 4 {
			return nil, fmt.Errorf("bad op %q", p)
		}
		a, err1 := strconv.Atoi(f[1])
		b, err2 := strconv.Atoi(f[2])
		if err1 != nil || err2 != nil {
			return nil, fmt.Errorf("bad op %q", p)
		}
		if _, ok := new(big.Int).SetString(f[3], 10); !ok {
			return nil, fmt.Errorf("bad op %q", p)
		}
		ops = append(ops, Op{K: f[0], A: a, B: b, V: f[3]})
	}
	return ops, nil
}
