package txexec

// script.go — the harness-defined scripted contract.
//
// `dataType:"call"` transactions to addrs[IDScript] are served by scriptHandler
// (a SyncContractHandler) instead of the engine-backed CallHandler; every other
// (from, to, type) combination goes to the real ContractManager.  A script is
// a flat list of instructions executed against the REAL CallContext:
//
//	set a k v   storage write on account a (v = 0 deletes)       AccountState.SetValue/DeleteValue
//	move f t v  balance move between ANY two accounts, guarded like TransferHandler
//	            (v < 0 -> InvalidParameter, balance(f) < v -> OutOfBalance: the current frame fails)
//	log i       cc.OnEvent
//	btp i       cc.OnBTPMessage(1, i)
//	burn n      cc.DeductSteps(max(n,0)); false -> the current frame fails with OutOfStep
//	enter       nested cc.Call of a sub-handler that continues the same script in a new frame
//	            (charges contractCall steps like every call); its failure is CAUGHT: the
//	            caller continues after the point where the callee stopped
//	xfer t v    real inter-call transfer from the contract to EOA t
//	            (ContractManager.GetCallHandler(CTypeTransfer) -> TransferHandler, new frame), failure caught
//	exit s      the current frame returns status s mod 1000 (0 = success)
//	grant a / revoke a   ValidatorState.Add / Remove of EOA a (the last validator is never removed)
//	dep v / wdr v        the contract moves v between its balance and its fee-sharing deposit
//	            (AccountState.AddDeposit / WithdrawDeposit, deposit term 0 = one in-place v2 deposit);
//	            in the model the deposit is the balance of pseudo account 7: OMove 5 7 v / OMove 7 5 v
//	hang a      the frame reports the Timeout status; with a = 1 in an asynchronous frame it
//	            really never answers, so the call-context timer (waitResult) fires
//
// Two flavours, chosen by the method name of the transaction: "run" = synchronous
// handler, nested frames by cc.Call (each nested frame is its own `target`, so even a
// Timeout status of a callee is an ordinary caught failure); "runa" = asynchronous
// handler (what an engine-backed SCORE is): nested frames are requested with cc.OnCall
// and pushed by waitResult, results come back through SendResult / cc.OnResult, and a
// Timeout (status or timer) at any depth goes through cleanUpFrames(target = the
// transaction's call frame): the whole call ends with Timeout.
//
// End of script: every open frame returns success.
// Before the script the root handler charges contractCall steps
// (cc.ApplyCallSteps) and moves the transaction value with the real
// TransferHandler.DoExecuteSync — what TransferAndCallHandler does.

import (
	"encoding/json"
	"fmt"
	"math/big"
	"strconv"
	"strings"

	"github.com/icon-project/goloop/common/codec"
	"github.com/icon-project/goloop/common/intconv"
	"github.com/icon-project/goloop/common/log"
	"github.com/icon-project/goloop/module"
	"github.com/icon-project/goloop/service/contract"
	"github.com/icon-project/goloop/service/eeproxy"
	"github.com/icon-project/goloop/service/scoreresult"
	"github.com/icon-project/goloop/service/state"
)

type wrapCM struct {
	contract.ContractManager
}

func (cm *wrapCM) GetHandler(from, to module.Address, value *big.Int, ctype int, data []byte) (contract.ContractHandler, error) {
	if ctype == contract.CTypeCall && to != nil && addrs[IDScript].Equal(to) {
		jso, err := contract.ParseCallData(data)
		if err == nil && (jso.Method == "run" || jso.Method == "runa") {
			var params struct {
				S string `json:"s"`
			}
			if err := json.Unmarshal(jso.Params, &params); err != nil {
				return nil, err
			}
			ops, err := DecodeOps(params.S)
			if err != nil {
				return nil, err
			}
			ch := contract.NewCommonHandler(from, to, value, false, cm.Logger())
			pc := 0
			if jso.Method == "runa" {
				return &asyncScript{CommonHandler: ch, in: interp{ops: ops, pc: &pc}, root: true}, nil
			}
			return &scriptHandler{CommonHandler: ch, in: interp{ops: ops, pc: &pc}, root: true}, nil
		}
	}
	return cm.ContractManager.GetHandler(from, to, value, ctype, data)
}

func status(code int) error {
	if code == 0 {
		return nil
	}
	return scoreresult.New(module.Status(code), fmt.Sprintf("verif script status %d", code))
}

func bigOf(s string) *big.Int {
	v, ok := new(big.Int).SetString(s, 10)
	if !ok {
		return new(big.Int)
	}
	return v
}

// interp is the instruction interpreter shared by the synchronous and the
// asynchronous scripted contract; nested frames of one transaction share pc.
type interp struct {
	ops []Op
	pc  *int
}

// step runs instructions of the current frame until the frame ends (status),
// hangs (hang: never answer), or needs an inter-call (call != nil: the caller
// performs it — cc.Call in a synchronous frame, cc.OnCall in an asynchronous
// one — and calls step again when the callee has returned).
func (in *interp) step(cc contract.CallContext, async bool, logger log.Logger) (call contract.ContractHandler, hang bool, st error) {
	for *in.pc < len(in.ops) {
		op := in.ops[*in.pc]
		*in.pc++
		switch op.K {
		case "set":
			if op.A < 0 || op.A >= NAcct || op.B < 0 || op.B >= NKeys {
				continue
			}
			as := cc.GetAccountState(addrs[op.A].ID())
			v := bigOf(op.V).Int64()
			if v != 0 {
				if _, err := as.SetValue(storageKey(op.B), intconv.Int64ToBytes(v)); err != nil {
					panic(err)
				}
			} else if _, err := as.DeleteValue(storageKey(op.B)); err != nil {
				panic(err)
			}
		case "move":
			if op.A < 0 || op.A >= NAcct || op.B < 0 || op.B >= NAcct {
				continue
			}
			amt := bigOf(op.V)
			if amt.Sign() < 0 {
				return nil, false, scoreresult.InvalidParameterError.New("verif: negative move")
			}
			as1 := cc.GetAccountState(addrs[op.A].ID())
			b1 := as1.GetBalance()
			if b1.Cmp(amt) < 0 {
				return nil, false, scoreresult.ErrOutOfBalance
			}
			as1.SetBalance(new(big.Int).Sub(b1, amt))
			as2 := cc.GetAccountState(addrs[op.B].ID())
			as2.SetBalance(new(big.Int).Add(as2.GetBalance(), amt))
		case "log":
			cc.OnEvent(addrs[IDScript], [][]byte{[]byte(scriptLogSig), intconv.Int64ToBytes(int64(op.A))}, [][]byte{})
		case "btp":
			cc.OnBTPMessage(btpNID, intconv.Int64ToBytes(int64(op.A)))
		case "burn":
			n := bigOf(op.V)
			if n.Sign() < 0 {
				n = new(big.Int)
			}
			if !cc.DeductSteps(n) {
				return nil, false, scoreresult.ErrOutOfStep
			}
		case "enter":
			ch := contract.NewCommonHandler(addrs[IDScript], addrs[IDScript], new(big.Int), true, logger)
			if async {
				return &asyncScript{CommonHandler: ch, in: *in}, false, nil
			}
			return &scriptHandler{CommonHandler: ch, in: *in}, false, nil
		case "xfer":
			if op.A < 0 || op.A > IDTreasury {
				continue // only EOA recipients: a contract-form recipient would need an engine
			}
			hd, err := cc.ContractManager().GetCallHandler(addrs[IDScript], addrs[op.A], bigOf(op.V), contract.CTypeTransfer, nil)
			if err != nil {
				panic(err)
			}
			return hd, false, nil
		case "exit":
			code := op.A % 1000
			if code < 0 {
				code = -code
			}
			return nil, false, status(code)
		case "grant", "revoke":
			if op.A < 0 || op.A > IDTreasury {
				continue // only externally owned accounts can be validators
			}
			v, err := state.ValidatorFromAddress(addrs[op.A])
			if err != nil {
				panic(err)
			}
			vs := cc.GetValidatorState()
			if op.K == "grant" {
				if err := vs.Add(v); err != nil {
					panic(err)
				}
			} else if vs.Len() > 1 { // the scripted contract never removes the last validator
				vs.Remove(v)
			}
		case "dep", "wdr":
			// the contract puts `amt` of its own balance into its (v2, term 0) deposit, or
			// takes it back; guarded like a transfer between the balance and the deposit
			amt := bigOf(op.V)
			if amt.Sign() < 0 {
				return nil, false, scoreresult.InvalidParameterError.New("verif: negative deposit amount")
			}
			as := cc.GetAccountState(addrs[IDScript].ID())
			if op.K == "dep" {
				b := as.GetBalance()
				if b.Cmp(amt) < 0 {
					return nil, false, scoreresult.ErrOutOfBalance
				}
				if amt.Sign() > 0 {
					as.SetBalance(new(big.Int).Sub(b, amt))
					if err := as.AddDeposit(cc, amt); err != nil {
						panic(err)
					}
				}
			} else {
				if depositOf(cc, as).Cmp(amt) < 0 {
					return nil, false, scoreresult.ErrOutOfBalance
				}
				if amt.Sign() > 0 {
					got, _, err := as.WithdrawDeposit(cc, []byte{}, amt)
					if err != nil || got.Cmp(amt) != 0 {
						panic(fmt.Sprint("withdraw: ", got, err))
					}
					as.SetBalance(new(big.Int).Add(as.GetBalance(), amt))
				}
			}
		case "hang":
			// A=1: really never answer (asynchronous frames only; the call-context timer
			// fires); otherwise report the Timeout status
			return nil, async && op.A == 1, scoreresult.ErrTimeout
		}
	}
	return nil, false, nil
}

// ---- synchronous flavour: nested frames through cc.Call

type scriptHandler struct {
	*contract.CommonHandler
	in   interp
	root bool
}

func (h *scriptHandler) ExecuteSync(cc contract.CallContext) (error, *codec.TypedObj, module.Address) {
	if err := cc.ApplyCallSteps(); err != nil {
		return err, nil, nil
	}
	if h.root && h.Value != nil && h.Value.Sign() > 0 {
		th := contract.VerifNewTransferHandler(h.CommonHandler)
		if st, _, _ := th.DoExecuteSync(cc); st != nil {
			return st, nil, nil
		}
	}
	for {
		call, _, st := h.in.step(cc, false, h.CommonHandler.Logger())
		if call == nil {
			return st, nil, nil
		}
		// the callee's failure is caught
		_, used, _, _ := cc.Call(call, cc.StepAvailable())
		cc.DeductSteps(used)
	}
}

// ---- asynchronous flavour: stands for a SCORE run by an execution environment.
// ExecuteAsync starts it, inter-calls are requested with cc.OnCall and answered
// through SendResult, the end of the frame is reported with cc.OnResult — the
// frames are pushed, popped and cleaned up by callContext.waitResult/handleResult.

type asyncScript struct {
	*contract.CommonHandler
	eeproxy.CallContext // never used: the script talks to contract.CallContext directly
	in                  interp
	root                bool
	cc                  contract.CallContext
}

func (h *asyncScript) Logger() log.Logger   { return h.CommonHandler.Logger() }
func (h *asyncScript) EEType() state.EEType { return state.NullEE }
func (h *asyncScript) Dispose()             {}

func (h *asyncScript) ExecuteAsync(cc contract.CallContext) error {
	h.cc = cc
	if err := cc.ApplyCallSteps(); err != nil {
		return err
	}
	if h.root && h.Value != nil && h.Value.Sign() > 0 {
		th := contract.VerifNewTransferHandler(h.CommonHandler)
		if st, _, _ := th.DoExecuteSync(cc); st != nil {
			return st
		}
	}
	h.resume()
	return nil
}

func (h *asyncScript) SendResult(st error, steps *big.Int, result *codec.TypedObj) error {
	// the callee's failure is caught; its steps are charged to this frame
	h.cc.DeductSteps(steps)
	h.resume()
	return nil
}

func (h *asyncScript) resume() {
	call, hang, st := h.in.step(h.cc, true, h.CommonHandler.Logger())
	switch {
	case call != nil:
		h.cc.OnCall(call, h.cc.StepAvailable())
	case hang:
		// no answer: waitResult's timer ends the transaction
	default:
		h.cc.OnResult(st, 0, new(big.Int), nil, nil)
	}
}

// ---------------------------------------------------------------- script text

func EncodeOps(ops []Op) string {
	parts := make([]string, len(ops))
	for i, o := range ops {
		v := o.V
		if v == "" {
			v = "0"
		}
		parts[i] = fmt.Sprintf("%s.%d.%d.%s", o.K, o.A, o.B, v)
	}
	return strings.Join(parts, ";")
}

func DecodeOps(s string) ([]Op, error) {
	if s == "" {
		return nil, nil
	}
	var ops []Op
	for _, p := range strings.Split(s, ";") {
		f := strings.Split(p, ".")
		if len(f) != 4 {
			return nil, fmt.Errorf("bad op %q", p)
		}
		a, err1 := strconv.Atoi(f[1])
		b, err2 := strconv.Atoi(f[2])
		if err1 != nil || err2 != nil {
			return nil, fmt.Errorf("bad op %q", p)
		}
		if _, ok := new(big.Int).SetString(f[3], 10); !ok {
			return nil, fmt.Errorf("bad op %q", p)
		}
		ops = append(ops, Op{K: f[0], A: a, B: b, V: f[3]})
	}
	return ops, nil
}
