// Package trielib holds what the trie harnesses (c17, c18, c22) share: a
// recording database (collects every node the implementation writes), the
// (preimage, digest) table handed to the Coq model, reference-map helpers.
package trielib

import (
	"bytes"
	"fmt"
	"math/rand"
	"sort"
	"strings"

	"golang.org/x/crypto/sha3"

	"github.com/icon-project/goloop/common/db"
	"github.com/icon-project/goloop/common/trie"
	"github.com/icon-project/goloop/common/trie/trie_manager"
)

func Sha3(b []byte) []byte {
	h := sha3.Sum256(b)
	return h[:]
}

// RecDB wraps a map database and records every value written to the
// MerkleTrie bucket (the serialised nodes).
type RecDB struct {
	db.Database
	Nodes map[string]bool
	// fault injection: when Armed, the (Skip+1)-th Get on the MerkleTrie bucket fails once
	Armed bool
	Skip  int
	Fired bool
}

// ErrInjected is the transient read failure injected by an armed RecDB.
var ErrInjected = fmt.Errorf("injected transient read failure")

func (b *recBucket) Get(k []byte) ([]byte, error) {
	if b.d.Armed {
		if b.d.Skip == 0 {
			b.d.Armed = false
			b.d.Fired = true
			return nil, ErrInjected
		}
		b.d.Skip--
	}
	return b.Bucket.Get(k)
}

// Arm makes the (skip+1)-th node read fail once.
func (d *RecDB) Arm(skip int) { d.Armed, d.Skip, d.Fired = true, skip, false }

// Disarm switches fault injection off and reports whether the fault fired.
func (d *RecDB) Disarm() bool { d.Armed = false; return d.Fired }

type recBucket struct {
	db.Bucket
	d *RecDB
}

func NewRecDB() *RecDB {
	return &RecDB{Database: db.NewMapDB(), Nodes: map[string]bool{}}
}

func (d *RecDB) GetBucket(id db.BucketID) (db.Bucket, error) {
	b, err := d.Database.GetBucket(id)
	if err != nil || id != db.MerkleTrie {
		return b, err
	}
	return &recBucket{b, d}, nil
}

func (b *recBucket) Set(k, v []byte) error {
	b.d.Nodes[string(v)] = true
	return b.Bucket.Set(k, v)
}

// Table is the partial SHA3-256 function given to the model.
type Table struct {
	pre map[string]bool
}

func NewTable() *Table { return &Table{pre: map[string]bool{}} }

func (t *Table) Add(pre []byte) { t.pre[string(pre)] = true }

func (t *Table) AddDB(d *RecDB) {
	for k := range d.Nodes {
		t.pre[k] = true
	}
}

func (t *Table) Len() int { return len(t.pre) }

// Coq prints the table as a list (bytes * bytes), sorted for determinism; the
// digest is computed here, independently of the implementation.
func (t *Table) Coq() string {
	ks := make([]string, 0, len(t.pre))
	for k := range t.pre {
		ks = append(ks, k)
	}
	sort.Strings(ks)
	items := make([]string, len(ks))
	for i, k := range ks {
		items[i] = "(" + Bx([]byte(k)) + "," + Bx(Sha3([]byte(k))) + ")"
	}
	return "[" + strings.Join(items, ";\n  ") + "]"
}

// Bx prints a byte string as the compact literal `(bx len [w;...])` of
// Run_TrieTbl.v: big-endian 7-byte chunks as 63-bit integers.
func Bx(b []byte) string {
	if len(b) == 0 {
		return "[]"
	}
	var sb strings.Builder
	fmt.Fprintf(&sb, "(bx %d%%nat [", len(b))
	for i := 0; i < len(b); i += 7 {
		j := i + 7
		if j > len(b) {
			j = len(b)
		}
		var w uint64
		for _, x := range b[i:j] {
			w = w<<8 | uint64(x)
		}
		if i > 0 {
			sb.WriteByte(';')
		}
		fmt.Fprintf(&sb, "%d", w)
	}
	sb.WriteString("]%uint63)")
	return sb.String()
}

// Preamble of the cases files of the trie harnesses.
func Preamble(id string) string {
	return "From Coq Require Import Uint63.\nFrom GoloopRun Require Import Run_TrieTbl Run_" + id + "."
}

type KV struct{ K, V []byte }

func CoqKVs(l []KV) string {
	items := make([]string, len(l))
	for i, kv := range l {
		items[i] = "(" + Bx(kv.K) + "," + Bx(kv.V) + ")"
	}
	return "[" + strings.Join(items, "; ") + "]"
}

func CoqOptBytes(b []byte) string {
	if b == nil {
		return "None"
	}
	return "(Some " + Bx(b) + ")"
}

func CoqBytesList(l [][]byte) string {
	items := make([]string, len(l))
	for i, b := range l {
		items[i] = Bx(b)
	}
	return "[" + strings.Join(items, "; ") + "]"
}

// SortedRef returns the reference map's entries in ascending byte order,
// optionally restricted to a key prefix.
func SortedRef(ref map[string][]byte, prefix []byte) []KV {
	var l []KV
	for k, v := range ref {
		if bytes.HasPrefix([]byte(k), prefix) {
			l = append(l, KV{[]byte(k), v})
		}
	}
	sort.Slice(l, func(i, j int) bool { return bytes.Compare(l[i].K, l[j].K) < 0 })
	return l
}

// Iterate drains a trie iterator.
func Iterate(it trie.Iterator) ([]KV, error) {
	var l []KV
	for ; it.Has(); it.Next() {
		v, k, err := it.Get()
		if err != nil {
			return l, err
		}
		l = append(l, KV{append([]byte(nil), k...), append([]byte(nil), v...)})
		if len(l) > 100000 {
			return l, fmt.Errorf("iterator does not terminate")
		}
	}
	return l, nil
}

func KVsEqual(a, b []KV) bool {
	if len(a) != len(b) {
		return false
	}
	for i := range a {
		if !bytes.Equal(a[i].K, b[i].K) || !bytes.Equal(a[i].V, b[i].V) {
			return false
		}
	}
	return true
}

// Rebuild inserts the reference map into a fresh trie over a fresh recording
// database in a random order (some keys first written with another value, some
// noise keys added and removed again), flushes it, and returns the snapshot and
// the database.
func Rebuild(ref map[string][]byte, r *rand.Rand) (trie.Snapshot, *RecDB) {
	d := NewRecDB()
	m := trie_manager.NewMutable(d, nil)
	ks := make([]string, 0, len(ref))
	for k := range ref {
		ks = append(ks, k)
	}
	sort.Strings(ks)
	r.Shuffle(len(ks), func(i, j int) { ks[i], ks[j] = ks[j], ks[i] })
	var noise [][]byte
	for i, k := range ks {
		if r.Intn(4) == 0 {
			m.Set([]byte(k), []byte{byte(i), 0xee})
		}
		if r.Intn(5) == 0 {
			nk := append([]byte(k), byte(r.Intn(256)))
			if _, ok := ref[string(nk)]; !ok {
				m.Set(nk, []byte("noise"))
				noise = append(noise, nk)
			}
		}
		m.Set([]byte(k), ref[k])
		if r.Intn(6) == 0 && len(noise) > 0 {
			j := r.Intn(len(noise))
			m.Delete(noise[j])
			noise = append(noise[:j], noise[j+1:]...)
		}
	}
	for _, nk := range noise {
		m.Delete(nk)
	}
	s := m.GetSnapshot()
	s.Hash()
	s.Flush()
	return s, d
}

// ---------- generators shared by c17 / c18 ----------

// GenKeys: 3-14 keys of 0-4 bytes over a 2-4 symbol alphabet (shared prefixes) and
// 32-byte keys that differ from a common base in one nibble.
func GenKeys(r *rand.Rand) [][]byte {
	full := []byte{0x00, 0x01, 0x0f, 0x10, 0x11, 0x12, 0x1f, 0xa0, 0xab, 0xff}
	na := 2 + r.Intn(3)
	alpha := make([]byte, na)
	for i := range alpha {
		alpha[i] = full[r.Intn(len(full))]
	}
	base32 := make([]byte, 32)
	r.Read(base32)
	n := 3 + r.Intn(12)
	seen := map[string]bool{}
	var keys [][]byte
	for tries := 0; len(keys) < n && tries < 200; tries++ {
		var k []byte
		switch r.Intn(9) {
		case 0, 1:
			k = append([]byte(nil), base32...)
			pos := []int{0, 1, 31, 32, 61, 62, 63}[r.Intn(7)]
			nib := byte(r.Intn(16))
			if pos%2 == 0 {
				k[pos/2] = k[pos/2]&0x0f | nib<<4
			} else {
				k[pos/2] = k[pos/2]&0xf0 | nib
			}
		default:
			l := r.Intn(5)
			k = make([]byte, l)
			for i := range k {
				k[i] = alpha[r.Intn(na)]
			}
		}
		if !seen[string(k)] {
			seen[string(k)] = true
			keys = append(keys, k)
		}
	}
	return keys
}

// GenVal: 1-70 bytes, concentrated around the 32-byte inlining threshold.
func GenVal(r *rand.Rand) []byte {
	var l int
	switch x := r.Intn(20); {
	case x < 2:
		l = 1
	case x < 10:
		l = 1 + r.Intn(40)
	case x < 17:
		l = 24 + r.Intn(12)
	case x < 19:
		l = 1 + r.Intn(6)
	default:
		l = 50 + r.Intn(20)
	}
	v := make([]byte, l)
	r.Read(v)
	if l == 1 && r.Intn(2) == 0 {
		v[0] &= 0x7f
	}
	return v
}
