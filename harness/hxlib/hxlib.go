// Package hxlib is the common scaffold of the per-property harness binaries.
//
// A harness binary runs the IMPLEMENTATION (/repo, rebuilt on every run) on
// generated cases, evaluates the property's direct oracle on each case, and
// writes (a) Coq files `cases_<ID>_<k>.v` holding the observed behaviour so
// that the model can be evaluated on the same cases inside Coq, (b) gen.json
// with counts, distribution, samples and the oracle failures.
//
//	hx gen    -seed N -tier quick|thorough -out DIR
//	hx replay FILE          (re-run the oracle on a saved case; exit 1 + message if it fails)
//	hx search -seed N -budget K -out DIR   (oracle only, many sub-seeds)
package hxlib

import (
	"crypto/sha256"
	"encoding/hex"
	"encoding/json"
	"flag"
	"fmt"
	"math/rand"
	"os"
	"path/filepath"
	"sort"
	"strings"
)

// Case is one observed case.
type Case struct {
	Kind       string      `json:"kind"`            // label for the distribution table
	Coq        string      `json:"-"`               // Coq term of type `case` (Run_<ID>.v)
	Input      interface{} `json:"input"`           // JSON-able description sufficient for Replay
	Nontrivial bool        `json:"nontrivial"`      // by the property's stated rule
	Key        string      `json:"-"`               // canonical key for distinctness (default: Coq)
	OracleErr  string      `json:"oracle,omitempty"` // non-empty: the implementation violates the property on this case
	Canary     bool        `json:"canary,omitempty"` // deliberately wrong observation: the model MUST flag it
}

// Ctx is handed to generators.
type Ctx struct {
	ID     string
	Seed   int64
	Tier   string
	Rand   *rand.Rand
	OutDir string
	// Scale multiplies the quick case counts (1 for quick, larger for thorough).
	Scale int
	// OracleOnly: no Coq output wanted (search mode) — generators may skip building Coq terms.
	OracleOnly bool

	cases   []Case
	canaries []Case
	seen    map[string]bool
	dist    map[string]int
	nontriv int
	notes   []string
}

func (c *Ctx) Emit(cs Case) {
	key := cs.Key
	if key == "" {
		key = cs.Coq
	}
	h := sha256.Sum256([]byte(cs.Kind + "|" + key))
	k := string(h[:12])
	if !cs.Canary {
		c.dist[cs.Kind]++
		if !c.seen[k] {
			c.seen[k] = true
			if cs.Nontrivial {
				c.nontriv++
			}
		}
	}
	if cs.Canary {
		c.canaries = append(c.canaries, cs)
		return
	}
	c.cases = append(c.cases, cs)
}

// Note adds a free-text line to gen.json (generator remarks, skipped items…).
func (c *Ctx) Note(format string, a ...interface{}) { c.notes = append(c.notes, fmt.Sprintf(format, a...)) }

// N scales a quick-tier count.
func (c *Ctx) N(quick int) int { return quick * c.Scale }

// Sub returns an independent PRNG derived from the run seed and a label, so a
// single case can be regenerated without replaying the whole stream.
func (c *Ctx) Sub(label string, i int) *rand.Rand {
	h := sha256.Sum256([]byte(fmt.Sprintf("%d|%s|%d", c.Seed, label, i)))
	var s int64
	for _, b := range h[:8] {
		s = s<<8 | int64(b)
	}
	return rand.New(rand.NewSource(s))
}

// Spec describes a property harness.
type Spec struct {
	ID   string
	Rule string // how cases are generated and what makes one non-trivial
	// Preamble of every cases file: the Require line(s) for the Run module.
	// Default: "From GoloopRun Require Import Run_<ID>."
	Preamble string
	// CaseType is the Coq type of a case (default "case").
	CaseType string
	Shard    int // cases per Coq file (default 400)
	Gen      func(*Ctx)
	// Replay re-runs the direct oracle on a saved Input; returns "" if the property holds.
	Replay func(input json.RawMessage) string
}

type genOut struct {
	ID           string         `json:"id"`
	Seed         int64          `json:"seed"`
	Tier         string         `json:"tier"`
	Evaluations  int            `json:"evaluations"`
	Distinct     int            `json:"distinct_nontrivial"`
	Rule         string         `json:"rule"`
	Distribution map[string]int `json:"distribution"`
	Samples      []Case         `json:"samples"`
	Shards       []shardInfo    `json:"shards"`
	OracleFails  []oracleFail   `json:"oracle_fails"`
	Notes        []string       `json:"notes,omitempty"`
}
type shardInfo struct {
	File     string `json:"file"`
	Cases    int    `json:"cases"`
	Canaries []int  `json:"canaries"` // shard-local indices that must be reported
	First    int    `json:"first"`    // global index of the first case
}
type oracleFail struct {
	Index int    `json:"index"`
	Msg   string `json:"msg"`
	File  string `json:"file"`
}

func Main(spec Spec) {
	if len(os.Args) < 2 {
		fmt.Fprintln(os.Stderr, "usage: gen|replay|search|case")
		os.Exit(2)
	}
	mode := os.Args[1]
	fs := flag.NewFlagSet(mode, flag.ExitOnError)
	seed := fs.Int64("seed", 1, "")
	tier := fs.String("tier", "quick", "")
	out := fs.String("out", ".", "")
	budget := fs.Int("budget", 4, "")
	switch mode {
	case "gen":
		fs.Parse(os.Args[2:])
		os.Exit(runGen(spec, *seed, *tier, *out, false))
	case "search":
		fs.Parse(os.Args[2:])
		rc := 0
		for i := 0; i < *budget; i++ {
			d := filepath.Join(*out, fmt.Sprintf("search%d", i))
			os.MkdirAll(d, 0o755)
			if runGen(spec, *seed*1000003+int64(i)+17, "quick", d, true) == 3 {
				rc = 3
				fmt.Println("SEARCH-HIT", filepath.Join(d, "gen.json"))
				break
			}
		}
		os.Exit(rc)
	case "replay":
		if len(os.Args) < 3 {
			os.Exit(2)
		}
		b, err := os.ReadFile(os.Args[2])
		if err != nil {
			fmt.Fprintln(os.Stderr, err)
			os.Exit(2)
		}
		var doc struct {
			Input json.RawMessage `json:"input"`
		}
		if err := json.Unmarshal(b, &doc); err != nil || doc.Input == nil {
			fmt.Fprintln(os.Stderr, "replay file has no input:", err)
			os.Exit(2)
		}
		if spec.Replay == nil {
			fmt.Println("REPLAY-UNSUPPORTED")
			os.Exit(2)
		}
		if msg := spec.Replay(doc.Input); msg != "" {
			fmt.Println("REPLAY-FAIL", msg)
			os.Exit(1)
		}
		fmt.Println("REPLAY-OK")
		os.Exit(0)
	default:
		fmt.Fprintln(os.Stderr, "unknown mode", mode)
		os.Exit(2)
	}
}

// runGen returns 0 (ok), 3 (oracle failures found).
func runGen(spec Spec, seed int64, tier, out string, oracleOnly bool) int {
	scale := 1
	if tier == "thorough" {
		scale = 10
	}
	ctx := &Ctx{ID: spec.ID, Seed: seed, Tier: tier, Rand: rand.New(rand.NewSource(seed)),
		OutDir: out, Scale: scale, OracleOnly: oracleOnly,
		seen: map[string]bool{}, dist: map[string]int{}}
	os.MkdirAll(out, 0o755)
	spec.Gen(ctx)

	res := genOut{ID: spec.ID, Seed: seed, Tier: tier, Rule: spec.Rule, Distribution: ctx.dist, Notes: ctx.notes}
	for _, cs := range ctx.cases {
		if !cs.Canary {
			res.Evaluations++
		}
	}
	res.Distinct = ctx.nontriv
	// samples: first of each kind, up to 8
	seenKind := map[string]bool{}
	for _, cs := range ctx.cases {
		if !seenKind[cs.Kind] && !cs.Canary && len(res.Samples) < 8 {
			seenKind[cs.Kind] = true
			res.Samples = append(res.Samples, cs)
		}
	}
	// oracle failures → replay files
	for i, cs := range ctx.cases {
		if cs.OracleErr != "" && !cs.Canary {
			f := filepath.Join(out, fmt.Sprintf("oraclefail_%d.json", i))
			b, _ := json.MarshalIndent(map[string]interface{}{
				"property": spec.ID, "seed": seed, "index": i, "kind": cs.Kind,
				"what": cs.OracleErr, "input": cs.Input,
			}, "", " ")
			os.WriteFile(f, b, 0o644)
			res.OracleFails = append(res.OracleFails, oracleFail{i, cs.OracleErr, f})
			if len(res.OracleFails) >= 20 {
				break
			}
		}
	}
	if !oracleOnly {
		shard := spec.Shard
		if shard <= 0 {
			shard = 400
		}
		pre := spec.Preamble
		if pre == "" {
			pre = "From GoloopRun Require Import Run_" + spec.ID + "."
		}
		ct := spec.CaseType
		if ct == "" {
			ct = "case"
		}
		// only cases with a Coq term take part
		var idx []int
		for i, cs := range ctx.cases {
			if cs.Coq != "" {
				idx = append(idx, i)
			}
		}
		for k := 0; k*shard < len(idx); k++ {
			lo, hi := k*shard, (k+1)*shard
			if hi > len(idx) {
				hi = len(idx)
			}
			name := fmt.Sprintf("cases_%s_%d.v", spec.ID, k)
			var sb strings.Builder
			sb.WriteString("From Coq Require Import List NArith ZArith String. Import ListNotations.\n")
			sb.WriteString(pre + "\n")
			sb.WriteString("Local Open Scope N_scope.\n")
			fmt.Fprintf(&sb, "Definition cases : list %s := [\n", ct)
			si := shardInfo{File: name, Cases: hi - lo, First: lo}
			for j := lo; j < hi; j++ {
				cs := ctx.cases[idx[j]]
				sb.WriteString(cs.Coq)
				if j+1 < hi || len(ctx.canaries) > 0 {
					sb.WriteString(";\n")
				} else {
					sb.WriteString("\n")
				}
			}
			// every shard ends with the canaries: wrong observations the model must flag
			for q, cs := range ctx.canaries {
				sb.WriteString(cs.Coq)
				if q+1 < len(ctx.canaries) {
					sb.WriteString(";\n")
				} else {
					sb.WriteString("\n")
				}
				si.Canaries = append(si.Canaries, hi-lo+q)
			}
			sb.WriteString("].\nDefinition M := Eval vm_compute in mismatches cases.\nPrint M.\n")
			os.WriteFile(filepath.Join(out, name), []byte(sb.String()), 0o644)
			res.Shards = append(res.Shards, si)
		}
		// case inputs, for mapping a mismatch index back to a replayable input
		type ci struct {
			Index int         `json:"index"`
			Kind  string      `json:"kind"`
			Input interface{} `json:"input"`
		}
		var all []ci
		for j, i := range idx {
			all = append(all, ci{j, ctx.cases[i].Kind, ctx.cases[i].Input})
		}
		b, _ := json.Marshal(all)
		os.WriteFile(filepath.Join(out, "cases.json"), b, 0o644)
	}
	b, _ := json.MarshalIndent(res, "", " ")
	os.WriteFile(filepath.Join(out, "gen.json"), b, 0o644)
	if len(res.OracleFails) > 0 {
		return 3
	}
	return 0
}

// ---------- Coq term printers ----------

// CoqBytes prints a byte string as a list N literal.
func CoqBytes(b []byte) string {
	if len(b) == 0 {
		return "[]"
	}
	var sb strings.Builder
	sb.Grow(len(b)*4 + 2)
	sb.WriteByte('[')
	for i, x := range b {
		if i > 0 {
			sb.WriteByte(';')
		}
		fmt.Fprintf(&sb, "%d", x)
	}
	sb.WriteByte(']')
	return sb.String()
}

func CoqBool(b bool) string {
	if b {
		return "true"
	}
	return "false"
}

// CoqOpt wraps an already printed term.
func CoqOpt(present bool, term string) string {
	if !present {
		return "None"
	}
	return "(Some " + term + ")"
}

// CoqZ prints an integer in Z scope.
func CoqZ(v interface{}) string { return fmt.Sprintf("(%v)%%Z", v) }

// CoqN prints a non-negative integer in N scope.
func CoqN(v interface{}) string { return fmt.Sprintf("%v", v) }

// CoqNat prints a small natural number in nat scope.
func CoqNat(v int) string { return fmt.Sprintf("%d%%nat", v) }

func CoqList(items []string) string { return "[" + strings.Join(items, "; ") + "]" }

func Hex(b []byte) string { return hex.EncodeToString(b) }

func SortedKeys(m map[string]int) []string {
	var ks []string
	for k := range m {
		ks = append(ks, k)
	}
	sort.Strings(ks)
	return ks
}

// Catch runs f and converts a panic into a message (for "never crashes" clauses).
func Catch(f func()) (panicked string) {
	defer func() {
		if r := recover(); r != nil {
			panicked = fmt.Sprint(r)
			if panicked == "" {
				panicked = "panic"
			}
		}
	}()
	f()
	return ""
}
