package main

// The environment of one scenario: a REAL service manager (service.NewManager:
// real transaction pools, real TXIDManager over a real locator manager, real
// transitions) on an in-memory database, the `basic` platform and a chain stub
// (test.Chain with the two block limits made adjustable).  Nothing is mocked
// between TransactionPool.Candidate and transition.validateTxs.

import (
	"context"
	"encoding/base64"
	"encoding/json"
	"fmt"
	"math/big"
	"os"
	"path/filepath"
	"time"

	"github.com/icon-project/goloop/common"
	"github.com/icon-project/goloop/common/crypto"
	"github.com/icon-project/goloop/common/db"
	"github.com/icon-project/goloop/common/log"
	"github.com/icon-project/goloop/common/txlocator"
	"github.com/icon-project/goloop/common/wallet"
	"github.com/icon-project/goloop/module"
	"github.com/icon-project/goloop/service"
	"github.com/icon-project/goloop/service/contract"
	"github.com/icon-project/goloop/service/platform/basic"
	"github.com/icon-project/goloop/service/transaction"
	"github.com/icon-project/goloop/test"
)

// ---------------------------------------------------------------- accounts

// Accounts 0..nEOA-1 are externally owned accounts with deterministic keys;
// account idTreasury is the treasury of the genesis (an EOA with a key too).
const (
	nEOA       = 6
	idTreasury = 6
	nAcct      = 7
)

var (
	wallets [nAcct]module.Wallet
	addrs   [nAcct]*common.Address
	godAddr = common.MustNewAddressFromString("hx0000000000000000000000000000000000000d0d")
)

func init() {
	for i := 0; i < nAcct; i++ {
		skb := crypto.SHA3Sum256([]byte(fmt.Sprintf("verif-c37-account-%d", i)))
		sk, err := crypto.ParsePrivateKey(skb)
		if err != nil {
			panic(err)
		}
		w, err := wallet.NewFromPrivateKey(sk)
		if err != nil {
			panic(err)
		}
		wallets[i] = w
		addrs[i] = common.AddressToPtr(w.Address())
	}
}

// ---------------------------------------------------------------- chain stub

type regulator struct {
	module.Regulator
	c *chainStub
}

func (r *regulator) MaxTxCount() int { return r.c.maxCount }

type chainStub struct {
	*test.Chain
	maxBytes int
	maxCount int
	reg      *regulator
}

func (c *chainStub) MaxBlockTxBytes() int              { return c.maxBytes }
func (c *chainStub) Regulator() module.Regulator       { return c.reg }
func (c *chainStub) NormalTxPoolSize() int             { return 5000 }
func (c *chainStub) PatchTxPoolSize() int              { return 1000 }
func (c *chainStub) ConcurrencyLevel() int             { return 1 }
func (c *chainStub) TransactionTimeout() time.Duration { return 5 * time.Second }
func (c *chainStub) MetricContext() context.Context    { return context.Background() }

type nullT struct{ errs []string }

func (t *nullT) Errorf(format string, args ...interface{}) {
	t.errs = append(t.errs, fmt.Sprintf(format, args...))
}
func (t *nullT) Logf(format string, args ...any) {}

// ---------------------------------------------------------------- parameters

// Params are the chain parameters of a scenario, written by the genesis transaction.
type Params struct {
	Price    int64   `json:"price"`    // step price
	CDefault int64   `json:"cdefault"` // step cost "default"
	CInput   int64   `json:"cinput"`   // step cost "input" (per byte of the data field)
	ThMS     int64   `json:"thms"`     // timestampThreshold in milliseconds (0: not configured -> 5 min)
	Bal      []int64 `json:"bal"`      // nAcct initial balances
}

func genesisJSON(p *Params) []byte {
	accts := []interface{}{
		map[string]interface{}{"name": "god", "address": godAddr.String(), "balance": "0x0"},
		map[string]interface{}{"name": "treasury", "address": addrs[idTreasury].String(),
			"balance": fmt.Sprintf("0x%x", p.Bal[idTreasury])},
	}
	for i := 0; i < nEOA; i++ {
		accts = append(accts, map[string]interface{}{"name": fmt.Sprintf("a%d", i),
			"address": addrs[i].String(), "balance": fmt.Sprintf("0x%x", p.Bal[i])})
	}
	chain := map[string]interface{}{
		"revision": fmt.Sprintf("0x%x", basic.DefaultRevision),
		"fee": map[string]interface{}{
			"stepPrice": fmt.Sprintf("0x%x", p.Price),
			"stepLimit": map[string]interface{}{"invoke": "0x7fffffff", "query": "0x7fffffff"},
			"stepCosts": map[string]interface{}{
				"default": fmt.Sprintf("0x%x", p.CDefault),
				"input":   fmt.Sprintf("0x%x", p.CInput),
			},
		},
	}
	if p.ThMS != 0 {
		chain["timestampThreshold"] = fmt.Sprintf("0x%x", p.ThMS)
	}
	g := map[string]interface{}{
		"accounts": accts,
		"message":  "verif C37 fixture",
		"nid":      "0x1",
		"chain":    chain,
	}
	b, _ := json.Marshal(g)
	return b
}

// ---------------------------------------------------------------- environment

type env struct {
	t     *nullT
	dir   string
	chain *chainStub
	sm    module.ServiceManager
	lm    module.LocatorManager
	pools [2]*service.TransactionPool
	csi   module.ConsensusInfo
}

func newEnv(p *Params) (*env, module.Transition, module.Transaction, error) {
	log.GlobalLogger().SetLevel(log.FatalLevel)
	e := &env{t: &nullT{}}
	dir, err := os.MkdirTemp("", "verif-c37-")
	if err != nil {
		return nil, nil, nil, err
	}
	e.dir = dir
	logger := log.New()
	logger.SetLevel(log.FatalLevel)
	gs := genesisJSON(p)
	tc, err := test.NewChain(e.t, wallets[0], db.NewMapDB(), logger, nil, string(gs))
	if err != nil {
		return nil, nil, nil, err
	}
	tc.Logger().SetLevel(log.FatalLevel)
	cs := &chainStub{Chain: tc, maxBytes: 1024 * 1024, maxCount: 1000}
	cs.reg = &regulator{Regulator: tc.Regulator(), c: cs}
	e.chain = cs
	sm, err := service.NewManager(cs, nil, nil, basic.Platform, filepath.Join(dir, "contract"))
	if err != nil {
		return nil, nil, nil, err
	}
	e.sm = sm
	e.lm = service.VerifC37LocatorManager(sm)
	e.pools[module.TransactionGroupPatch] = service.VerifC37Pool(sm, module.TransactionGroupPatch)
	e.pools[module.TransactionGroupNormal] = service.VerifC37Pool(sm, module.TransactionGroupNormal)
	e.csi = common.NewConsensusInfo(nil, nil, nil)

	itr, err := sm.CreateInitialTransition(nil, nil)
	if err != nil {
		return nil, nil, nil, err
	}
	gtx, err := sm.GenesisTransactionFromBytes(gs, module.BlockVersion2)
	if err != nil {
		return nil, nil, nil, err
	}
	return e, itr, gtx, nil
}

func (e *env) close() {
	defer func() { recover() }()
	e.sm.Term()
	e.chain.Chain.Close()
	os.RemoveAll(e.dir)
}

func (e *env) waitFlush() { txlocator.VerifWaitFlush(e.lm) }

// ---------------------------------------------------------------- executing a transition

type execCB struct {
	chVal chan error
	chExe chan error
}

func (c *execCB) OnValidate(tr module.Transition, err error) {
	c.chVal <- err
}
func (c *execCB) OnExecute(tr module.Transition, err error) { c.chExe <- err }

// runTransition starts tr and waits for the validation result; when execute is
// set it then waits for the execution result, otherwise it cancels the transition.
func runTransition(tr module.Transition, execute bool) (valErr error, exeErr error, fatal error) {
	cb := &execCB{chVal: make(chan error, 1), chExe: make(chan error, 1)}
	cancel, err := tr.Execute(cb)
	if err != nil {
		return nil, nil, fmt.Errorf("Execute: %v", err)
	}
	select {
	case valErr = <-cb.chVal:
	case <-time.After(60 * time.Second):
		return nil, nil, fmt.Errorf("no validation result in 60s")
	}
	if valErr != nil {
		return valErr, nil, nil
	}
	if !execute {
		cancel()
		return nil, nil, nil
	}
	select {
	case exeErr = <-cb.chExe:
	case <-time.After(60 * time.Second):
		return nil, nil, fmt.Errorf("no execution result in 60s")
	}
	return nil, exeErr, nil
}

// ---------------------------------------------------------------- real transactions

// TxIn describes one version-3 transaction.
type TxIn struct {
	N     int   `json:"n"`     // number of the transaction inside the scenario (its model id)
	From  int   `json:"from"`  // account
	To    int   `json:"to"`    // account
	Value int64 `json:"value"` // >= 0
	Limit int64 `json:"limit"` // stepLimit
	TS    int64 `json:"ts"`    // timestamp (microseconds)
	Pad   int   `json:"pad"`   // > 0: dataType "message" with Pad data bytes (hex string of Pad/.. characters)
	Patch bool  `json:"patch,omitempty"`
}

// dataOf returns the data type and the compact JSON data of a transaction and
// the number of bytes MeasureBytesOfData counts for it.
func dataOf(tx *TxIn) (dt *string, data []byte) {
	if tx.Patch {
		s := contract.DataTypePatch
		return &s, []byte(fmt.Sprintf(`{"type":"%s","data":"%s"}`, module.PatchTypeSkipTransaction,
			base64.StdEncoding.EncodeToString([]byte(fmt.Sprintf("verif-%d", tx.N))))) // Patch.Data is []byte
	}
	if tx.Pad > 0 {
		s := contract.DataTypeMessage
		hexs := make([]byte, 2*tx.Pad)
		for i := range hexs {
			hexs[i] = "0123456789abcdef"[(i*7+tx.Pad)%16]
		}
		return &s, []byte(`"0x` + string(hexs) + `"`)
	}
	return nil, nil
}

func realTx(tx *TxIn) (transaction.Transaction, error) {
	if tx.From < 0 || tx.From >= nAcct || tx.To < 0 || tx.To >= nAcct {
		return nil, fmt.Errorf("bad account id")
	}
	m := map[string]interface{}{
		"version":   "0x3",
		"from":      addrs[tx.From].String(),
		"to":        addrs[tx.To].String(),
		"stepLimit": fmt.Sprintf("0x%x", tx.Limit),
		"timestamp": fmt.Sprintf("0x%x", tx.TS),
		"nid":       "0x1",
		"nonce":     fmt.Sprintf("0x%x", tx.N+1),
		"value":     fmt.Sprintf("0x%x", tx.Value),
	}
	dt, data := dataOf(tx)
	if dt != nil {
		m["dataType"] = *dt
		m["data"] = json.RawMessage(data)
	}
	js, err := json.Marshal(m)
	if err != nil {
		return nil, err
	}
	bs, err := transaction.SerializeJSON(js, nil, nil)
	if err != nil {
		return nil, err
	}
	bs = append([]byte("icx_sendTransaction."), bs...)
	sig, err := wallets[tx.From].Sign(crypto.SHA3Sum256(bs))
	if err != nil {
		return nil, err
	}
	m["signature"] = sig
	js, err = json.Marshal(m)
	if err != nil {
		return nil, err
	}
	t, err := transaction.NewTransactionFromJSON(js)
	if err != nil {
		return nil, err
	}
	if err := t.Verify(); err != nil {
		return nil, fmt.Errorf("generated transaction does not verify: %v", err)
	}
	return t, nil
}

func balanceOf(tr module.Transition, acct int) *big.Int {
	return service.VerifC37Balance(tr, addrs[acct])
}
