// c37: "Proposed transactions are valid for the block being proposed".
//
// Every scenario stands up a REAL service manager (service.NewManager: real
// transaction pools, real TXIDManager over a real locator manager) on an
// in-memory database, executes a genesis block that sets balances, fee
// parameters and the timestamp threshold, and then walks through a few blocks
// the way block.Manager does:
//
//	pool := generated transactions (fresh element list, TransactionPool.Add)
//	P    := sm.ProposeTransition(parent, bi, csi)     -> TransactionPool.Candidate
//	V    := sm.CreateTransition(parent, P.NormalTransactions(), bi, csi, false)
//	V.Execute(cb)                                     -> ensureRecordTXIDs + validateTxs, then execution
//	sm.Finalize(parent, Patch|Result); sm.Finalize(V, Normal)
//
// and, for the patch group, sm.GetPatches + sm.PatchTransition.  For every
// Candidate call it records the pool (in iteration order), the selected list,
// the e.err class and the removal of every element, the manager state and the
// validator's verdict (Run_C37.CCand), and for extra, mostly invalid lists the
// validator's verdict alone (CVal).  The direct oracle is the property
// itself, checked on the implementation without the model.
package main

import (
	"encoding/json"
	"fmt"
	"math/big"
	"math/rand"
	"sort"
	"strings"
	"time"

	"github.com/icon-project/goloop/common"
	"github.com/icon-project/goloop/common/errors"
	"github.com/icon-project/goloop/common/txlocator"
	"github.com/icon-project/goloop/module"
	"github.com/icon-project/goloop/service"
	"github.com/icon-project/goloop/service/transaction"

	"verif/harness/hxlib"
)

// ---------------------------------------------------------------------------
// plans (these are also the replay inputs)
// ---------------------------------------------------------------------------

type PoolTx struct {
	TxIn
	Direct bool `json:"direct,omitempty"`
}

type BlockPlan struct {
	BTS       int64    `json:"bts"`
	MaxBytes  int      `json:"maxBytes"`
	MaxCount  int      `json:"maxCount"`
	Pool      []PoolTx `json:"pool"`                // insertion order into the (fresh) normal pool
	PatchPool []PoolTx `json:"patchPool,omitempty"` // insertion order into the (fresh) patch pool
	Extra     [][]int  `json:"extra,omitempty"`     // extra lists to validate: transaction numbers
	Finalize  bool     `json:"finalize"`            // finalize this block before the next one is proposed
	// Keep: the node's normal pool is NOT replaced by a fresh one; Pool holds the additions only.
	// Elements that stayed after earlier Candidate calls are looked at again.
	Keep bool `json:"keep,omitempty"`
	// PeerPool (non-nil): the block is made by ANOTHER proposer from this pool (a second real
	// TransactionPool over the same TXIDManager); the node only validates, executes and finalizes it.
	// LocalToo: the node also made its own proposal for the height (which lost the round).
	PeerPool []PoolTx `json:"peerPool,omitempty"`
	LocalToo bool     `json:"localToo,omitempty"`
	// NoCleanup: the ids of the block are committed (finalizeNormalTransaction) but the node's pool has not
	// been cleaned yet (tm.RemoveTxs / RemoveOldTxByBlockTS run after the commit) when the next Candidate runs.
	NoCleanup bool `json:"noCleanup,omitempty"`
}

type ScenPlan struct {
	P      Params      `json:"p"`
	Blocks []BlockPlan `json:"blocks"`
}

type replayIn struct {
	Plan  ScenPlan `json:"plan"`
	Block int      `json:"block"` // index into Plan.Blocks
	Kind  string   `json:"kind"`  // normal | patch | extra
	Extra int      `json:"extra,omitempty"`
}

const (
	defaultTh = int64(300000000)
	patchTh   = int64(60000000)
)

func normalTh(p *Params) int64 {
	if p.ThMS*1000 == 0 {
		return defaultTh
	}
	return p.ThMS * 1000
}

// ---------------------------------------------------------------------------
// classes
// ---------------------------------------------------------------------------

const (
	cOk = iota
	cExpired
	cFuture
	cDup
	cStep
	cBalance
	cState
	cOther = 99
)

func classOfCode(code int) int {
	switch code {
	case service.VerifC37CodeExpired:
		return cExpired
	case service.VerifC37CodeFuture:
		return cFuture
	case service.VerifC37CodeIllegalArgument:
		return cDup
	case service.VerifC37CodeNotEnoughStep:
		return cStep
	case service.VerifC37CodeNotEnoughBalance:
		return cBalance
	case service.VerifC37CodeInvalidState:
		return cState
	}
	return cOther
}

func classOfErr(err error) int {
	if err == nil {
		return cOk
	}
	return classOfCode(int(errors.CodeOf(err)))
}

// ---------------------------------------------------------------------------
// scenario state
// ---------------------------------------------------------------------------

type trk struct{ p, n int } // tracker numbers (Model_Locator store positions) of a transition

type included struct {
	tx    *TxIn
	block int // index of the block that carries it
}

type scen struct {
	e    *env
	plan *ScenPlan
	ops  []string // Coq terms of the locator operations performed so far
	ntrk int

	txs   map[int]*TxIn                   // every transaction of the scenario by number
	real  map[int]transaction.Transaction // the real transaction objects
	idNum map[string]int                  // real id -> number (genesis: 0)

	chain     []included   // transactions of the executed blocks of the chain
	pchain    []included   // patch transactions of the executed (patched) transitions of the chain
	looked    map[int]bool // transactions that were in the node's pool during an earlier Candidate call
	unfinal   bool         // the parent block is not finalized
	par, gpar module.Transition
	parT, gpT trk
	lastBTS   int64
}

func (s *scen) newRoot(g bool, ts, th int64) int {
	s.ops = append(s.ops, fmt.Sprintf("ONewRoot %s %s %s", hxlib.CoqBool(g), z(ts), z(th)))
	s.ntrk++
	return s.ntrk - 1
}
func (s *scen) opNew(parent int, ts, th int64) int {
	s.ops = append(s.ops, fmt.Sprintf("ONew %s %s %s", hxlib.CoqNat(parent), z(ts), z(th)))
	s.ntrk++
	return s.ntrk - 1
}
func (s *scen) opAdd(t int, nums []int, force bool) {
	var items []string
	for _, n := range nums {
		ts := int64(0)
		if n != 0 {
			ts = s.txs[n].TS
		}
		items = append(items, fmt.Sprintf("(%d, %s)", n, hxlib.CoqZ(ts)))
	}
	s.ops = append(s.ops, fmt.Sprintf("OAdd %s %s %s", hxlib.CoqNat(t), hxlib.CoqList(items), hxlib.CoqBool(force)))
}
func (s *scen) opCommit(t int) {
	s.ops = append(s.ops, fmt.Sprintf("OCommit %s", hxlib.CoqNat(t)))
}

func (s *scen) realOf(t *TxIn) (transaction.Transaction, error) {
	if r, ok := s.real[t.N]; ok {
		return r, nil
	}
	r, err := realTx(t)
	if err != nil {
		return nil, err
	}
	s.real[t.N] = r
	s.txs[t.N] = t
	s.idNum[string(r.ID())] = t.N
	return r, nil
}

func (s *scen) numOf(id []byte) int {
	if n, ok := s.idNum[string(id)]; ok {
		return n
	}
	return -1
}

func (s *scen) balances(tr module.Transition) []*big.Int {
	out := make([]*big.Int, nAcct)
	for i := range out {
		out[i] = balanceOf(tr, i)
		if out[i] == nil {
			out[i] = new(big.Int)
		}
	}
	return out
}

type snapshot struct {
	Locs       []int
	MaxP, MaxN int64
}

func (s *scen) snapshot() snapshot {
	s.e.waitFlush()
	st := txlocator.VerifManagerState(s.e.lm)
	var sn snapshot
	for _, k := range st.Locators {
		sn.Locs = append(sn.Locs, s.numOf([]byte(k)))
	}
	sort.Ints(sn.Locs)
	sn.MaxP, sn.MaxN = st.MaxTS[module.TransactionGroupPatch], st.MaxTS[module.TransactionGroupNormal]
	return sn
}

// start creates the environment and executes + finalizes the genesis block.
func startScen(plan *ScenPlan) (*scen, error) {
	e, itr, gtx, err := newEnv(&plan.P)
	if err != nil {
		return nil, err
	}
	s := &scen{e: e, plan: plan, txs: map[int]*TxIn{}, real: map[int]transaction.Transaction{},
		idNum: map[string]int{}}
	s.idNum[string(gtx.ID())] = 0
	// newInitTransition: ptxIDs, then ntxIDs, both NewTracker(group, 0, 0, tsc.Threshold())
	rp := s.newRoot(false, 0, defaultTh)
	rn := s.newRoot(true, 0, defaultTh)
	gl := e.sm.TransactionListFromSlice([]module.Transaction{gtx}, module.BlockVersion2)
	g, err := e.sm.CreateTransition(itr, gl, common.NewBlockInfo(0, 0), e.csi, true)
	if err != nil {
		e.close()
		return nil, err
	}
	v, x, f := runTransition(g, true)
	if v != nil || x != nil || f != nil {
		e.close()
		return nil, fmt.Errorf("genesis block: validate=%v execute=%v fatal=%v", v, x, f)
	}
	// ensureRecordTXIDs(force = true) of the genesis transition (the parent state has no configured threshold)
	gp := s.opNew(rp, 0, patchTh)
	s.opAdd(gp, nil, true)
	gn := s.opNew(rn, 0, defaultTh)
	s.opAdd(gn, []int{0}, true)
	// block.Manager.finalize of the genesis block: only the normal transactions
	if err := e.sm.Finalize(g, module.FinalizeNormalTransaction); err != nil {
		e.close()
		return nil, err
	}
	s.opCommit(gn)
	e.waitFlush()
	s.par, s.gpar = g, itr
	s.parT, s.gpT = trk{gp, gn}, trk{rp, rn}
	s.chain = append(s.chain, included{tx: nil, block: -1})
	return s, nil
}

// ---------------------------------------------------------------------------
// observations
// ---------------------------------------------------------------------------

type elemObs struct {
	Num        int
	Direct     bool
	Prior      int  // class of e.err before the call
	seenBefore bool // the element was in the pool during an earlier Candidate call
	Err        int  // class of e.err after the call
	ErrText    string
	Removed    bool
}

type candObs struct {
	Group     bool // true: normal
	H         []string
	Snap      snapshot
	P         int // parent tracker of the group
	BTS       int64
	MaxBytes  int
	MaxCount  int
	Pool      []elemObs
	Bal       []*big.Int
	Sel       []int
	Verdict   int
	VerdictTx string
	Unfinal   bool // the parent block was not finalized (hypothesis of the property not met)
	Fatal     string
	Peer      bool // Candidate of another proposer's pool
	RemovedOK bool // the removal flags were observed
}

type valObs struct {
	H       []string
	Snap    snapshot
	P       int
	BTS     int64
	Txs     []int
	Bal     []*big.Int
	Verdict int
	Fatal   string
}

func (s *scen) fillPool(tp *service.TransactionPool, pool []PoolTx, keep bool) error {
	if !keep {
		service.VerifC37PoolReset(tp)
	}
	for i := range pool {
		r, err := s.realOf(&pool[i].TxIn)
		if err != nil {
			return err
		}
		_ = tp.Add(r, pool[i].Direct) // a second Add of the same transaction is refused by the pool
	}
	return nil
}

type nullMonitor struct{}

func (nullMonitor) OnDropTx(n int, user bool)                         {}
func (nullMonitor) OnAddTx(n int, user bool)                          {}
func (nullMonitor) OnRemoveTx(n int, user bool)                       {}
func (nullMonitor) OnCommit(id []byte, ts time.Time, d time.Duration) {}

// poolBefore lists the pool in iteration order (with the e.err classes left by
// earlier calls) and keeps the element handles.
func (s *scen) poolBefore(tp *service.TransactionPool) ([]elemObs, *service.VerifC37Handle) {
	h := service.VerifC37PoolHandle(tp)
	els, _ := h.State()
	var out []elemObs
	for _, el := range els {
		o := elemObs{Num: s.numOf(el.Tx.ID()), Direct: el.Direct}
		if el.HasErr {
			o.Prior = classOfCode(el.ErrCode)
		}
		out = append(out, o)
	}
	return out, h
}

// poolAfter reads e.err of every element (written inside Candidate, so complete
// when the call returns) and then waits for the removal goroutine:
// dropTransactions removes all its elements in one critical section, so as
// soon as one element is gone, all are.  Whether the goroutine was started at
// all is decided from what Candidate left behind: a NEW e.err other than
// "NotEnoughBalance on a direct transaction", or AlreadyProcessed (always
// written) means yes -> wait up to 5 s and report what is observed.  An element
// that already carried an error and is now outside the window may have been
// dropped without a visible trace (e.err is sticky) if the loop reached it:
// wait up to 1 s and, if nothing left the pool, report the removal flags as
// not observed (returns false).
func (s *scen) poolAfter(h *service.VerifC37Handle, obs []elemObs, bts, th int64) bool {
	els, _ := h.State()
	sure, maybe := false, false
	for i, el := range els {
		if el.HasErr {
			obs[i].Err = classOfCode(el.ErrCode)
			obs[i].ErrText = el.ErrText
			if obs[i].Prior == cOk || obs[i].Err != obs[i].Prior {
				if !(obs[i].Err == cBalance && obs[i].Direct) {
					sure = true
				}
			} else if t := s.txs[obs[i].Num]; t != nil && t.TS <= bts-th {
				maybe = true
			}
		}
	}
	deadline := time.Now().Add(5 * time.Second)
	if !sure {
		deadline = time.Now().Add(1 * time.Second)
	}
	for {
		_, in := h.State()
		gone := false
		for i := range obs {
			obs[i].Removed = !in[i]
			if obs[i].Removed {
				gone = true
			}
		}
		if gone || (!sure && !maybe) {
			return true
		}
		if time.Now().After(deadline) {
			return sure
		}
		time.Sleep(200 * time.Microsecond)
	}
}

func txList(s *scen, l module.TransactionList) []int {
	var out []int
	for it := l.Iterator(); it.Has(); it.Next() {
		t, _, err := it.Get()
		if err != nil {
			out = append(out, -2)
			continue
		}
		out = append(out, s.numOf(t.ID()))
	}
	return out
}

// recordValidation appends the tracker operations of ensureRecordTXIDs(force = false)
// of a transition created on `parent` for the normal list `nums`.
func (s *scen) recordTransition(parent trk, bts int64, nums []int, force bool) trk {
	p := s.opNew(parent.p, bts, patchTh)
	s.opAdd(p, nil, force)
	n := s.opNew(parent.n, bts, normalTh(&s.plan.P))
	s.opAdd(n, nums, force)
	return trk{p, n}
}

// ---------------------------------------------------------------------------
// one block
// ---------------------------------------------------------------------------

type blockOut struct {
	Patch    *candObs
	Normal   *candObs
	PeerCand *candObs
	Extra    []*valObs
	Stop     bool
}

func (s *scen) runBlock(bp *BlockPlan, height int) (*blockOut, error) {
	out := &blockOut{}
	e := s.e
	bi := common.NewBlockInfo(int64(height), bp.BTS)
	e.chain.maxBytes, e.chain.maxCount = bp.MaxBytes, bp.MaxCount

	// ---- patch group: GetPatches(bn.in) + PatchTransition(bn.preexe)
	if len(bp.PatchPool) > 0 {
		if err := s.fillPool(e.pools[module.TransactionGroupPatch], bp.PatchPool, false); err != nil {
			return nil, err
		}
		o := &candObs{Group: false, H: append([]string(nil), s.ops...), P: s.gpT.p, BTS: bp.BTS,
			MaxBytes: bp.MaxBytes, MaxCount: 0, Unfinal: s.unfinal}
		o.Snap = s.snapshot()
		o.Bal = s.balances(s.gpar)
		var ph *service.VerifC37Handle
		o.Pool, ph = s.poolBefore(e.pools[module.TransactionGroupPatch])
		patches := e.sm.GetPatches(s.gpar, bi)
		o.RemovedOK = s.poolAfter(ph, o.Pool, bp.BTS, patchTh)
		o.Sel = txList(s, patches)
		pt := e.sm.PatchTransition(s.par, patches, bi)
		v, x, f := runTransition(pt, true)
		if f != nil {
			o.Fatal = f.Error()
		}
		o.Verdict = classOfErr(v)
		if v != nil {
			o.VerdictTx = v.Error()
		}
		// patchTransition: only the patch logger is new (pbi = bi when there are patches)
		pts := bp.BTS
		if len(o.Sel) == 0 {
			pts = s.lastBTS
		}
		np := s.opNew(s.gpT.p, pts, patchTh)
		s.opAdd(np, o.Sel, false)
		out.Patch = o
		if v == nil && x == nil && f == nil {
			// the patched transition replaces the parent (proposeTask: pt.in = bn.preexe.patch(...))
			s.par, s.parT = pt, trk{np, s.parT.n}
			for _, n := range o.Sel {
				s.pchain = append(s.pchain, included{tx: s.txs[n], block: height})
			}
		}
	}

	// ---- normal group: ProposeTransition on the node's own pool and / or on another proposer's pool
	local := e.pools[module.TransactionGroupNormal]
	if err := s.fillPool(local, bp.Pool, bp.Keep); err != nil {
		return nil, err
	}
	propose := func(tp *service.TransactionPool, peer bool) (*candObs, module.Transition, error) {
		o := &candObs{Group: true, H: append([]string(nil), s.ops...), P: s.parT.n, BTS: bp.BTS,
			MaxBytes: bp.MaxBytes, MaxCount: bp.MaxCount, Unfinal: s.unfinal, Peer: peer}
		o.Snap = s.snapshot()
		o.Bal = s.balances(s.par)
		var nh *service.VerifC37Handle
		o.Pool, nh = s.poolBefore(tp)
		if !peer {
			if s.looked == nil {
				s.looked = map[int]bool{}
			}
			for i := range o.Pool {
				o.Pool[i].seenBefore = bp.Keep && s.looked[o.Pool[i].Num]
				s.looked[o.Pool[i].Num] = true
			}
		}
		P, err := e.sm.ProposeTransition(s.par, bi, e.csi)
		if err != nil {
			return nil, nil, fmt.Errorf("ProposeTransition: %v", err)
		}
		o.RemovedOK = s.poolAfter(nh, o.Pool, bp.BTS, normalTh(&s.plan.P))
		o.Sel = txList(s, P.NormalTransactions())
		return o, P, nil
	}
	var o, po *candObs
	var P module.Transition
	var err error
	if bp.PeerPool == nil || bp.LocalToo {
		if o, P, err = propose(local, false); err != nil {
			return nil, err
		}
		out.Normal = o
	}
	if bp.PeerPool != nil {
		peer := service.NewTransactionPool(module.TransactionGroupNormal, 5000, service.VerifC37TIM(e.sm),
			nullMonitor{}, e.chain.Logger())
		if err := s.fillPool(peer, bp.PeerPool, false); err != nil {
			return nil, err
		}
		service.VerifC37SwapPool(e.sm, module.TransactionGroupNormal, peer)
		var PP module.Transition
		po, PP, err = propose(peer, true)
		service.VerifC37SwapPool(e.sm, module.TransactionGroupNormal, local)
		if err != nil {
			return nil, err
		}
		out.PeerCand = po
		if o != nil {
			// the node's own proposal lost the round: its list only goes through the validator
			xt, err := e.sm.CreateTransition(s.par, P.NormalTransactions(), bi, e.csi, false)
			if err != nil {
				return nil, err
			}
			v, _, f := runTransition(xt, false)
			if f != nil {
				o.Fatal = f.Error()
			}
			o.Verdict = classOfErr(v)
			if v != nil {
				o.VerdictTx = v.Error()
			}
			s.recordTransition(s.parT, bp.BTS, o.Sel, false)
		}
		P = PP
	}
	bo := o // the observation whose list becomes the block
	if po != nil {
		bo = po
	}

	// ---- extra lists through the validator (before anything is finalized)
	for _, nums := range bp.Extra {
		vo := &valObs{H: append([]string(nil), s.ops...), Snap: bo.Snap, P: s.parT.n, BTS: bp.BTS,
			Txs: nums, Bal: bo.Bal}
		var l []module.Transaction
		for _, n := range nums {
			r, ok := s.real[n]
			if !ok {
				return nil, fmt.Errorf("extra list names unknown transaction %d", n)
			}
			l = append(l, r)
		}
		xt, err := e.sm.CreateTransition(s.par, e.sm.TransactionListFromSlice(l, module.BlockVersion2), bi, e.csi, false)
		if err != nil {
			return nil, err
		}
		v, _, f := runTransition(xt, false)
		if f != nil {
			vo.Fatal = f.Error()
		}
		vo.Verdict = classOfErr(v)
		s.recordTransition(s.parT, bp.BTS, nums, false)
		out.Extra = append(out.Extra, vo)
	}

	// ---- the block's list through the validator, then execution
	V, err := e.sm.CreateTransition(s.par, P.NormalTransactions(), bi, e.csi, false)
	if err != nil {
		return nil, err
	}
	v, x, f := runTransition(V, true)
	if f != nil {
		bo.Fatal = f.Error()
	}
	bo.Verdict = classOfErr(v)
	if v != nil {
		bo.VerdictTx = v.Error()
	}
	vt := s.recordTransition(s.parT, bp.BTS, bo.Sel, false)
	if v != nil || x != nil || f != nil {
		out.Stop = true
		return out, nil
	}
	for _, n := range bo.Sel {
		s.chain = append(s.chain, included{tx: s.txs[n], block: height})
	}
	if s.unfinal {
		// the previous block was left unfinalized: the scenario ends here
		out.Stop = true
		return out, nil
	}
	if bp.Finalize {
		// block.Manager.finalize(bn): Finalize(bn.in, Patch|Result); Finalize(bn.preexe, Normal)
		if err := e.sm.Finalize(s.par, module.FinalizePatchTransaction|module.FinalizeResult); err != nil {
			return nil, fmt.Errorf("Finalize(parent): %v", err)
		}
		s.opCommit(s.parT.p)
		if bp.NoCleanup {
			// service.Manager.Finalize = finalizeNormalTransaction (ids committed) and THEN
			// tm.RemoveTxs / RemoveOldTxByBlockTS; this is the state in between
			err = service.FinalizeTransition(V, module.FinalizeNormalTransaction, false)
		} else {
			err = e.sm.Finalize(V, module.FinalizeNormalTransaction)
		}
		if err != nil {
			return nil, fmt.Errorf("Finalize(block): %v", err)
		}
		s.opCommit(vt.n)
		e.waitFlush()
	} else {
		s.unfinal = true
	}
	s.gpar, s.gpT = s.par, s.parT
	s.par, s.parT = V, vt
	s.lastBTS = bp.BTS
	return out, nil
}

// ---------------------------------------------------------------------------
// direct oracle: the property, checked on the implementation
// ---------------------------------------------------------------------------

func effBytes(mb int) int64 {
	if mb <= 0 {
		return 1024 * 1024
	}
	return int64(mb)
}
func effCount(mc int) int64 {
	if mc <= 0 {
		return 1500
	}
	return int64(mc)
}

func (s *scen) oracleCand(o *candObs, chainBefore []included) string {
	if o.Fatal != "" {
		return "validation of the proposed list did not report: " + o.Fatal
	}
	p := &s.plan.P
	th := patchTh
	if o.Group {
		th = normalTh(p)
	}
	name := "normal"
	if !o.Group {
		name = "patch"
	}
	pos := map[int]int{}
	for i, el := range o.Pool {
		pos[el.Num] = i
	}
	onChain := map[int]int{}
	for _, inc := range chainBefore {
		if inc.tx != nil {
			onChain[inc.tx.N] = inc.block
		}
	}
	bal := make([]*big.Int, nAcct)
	for i := range bal {
		bal[i] = new(big.Int).Set(o.Bal[i])
	}
	var size int64
	last := -1
	seen := map[int]bool{}
	for k, n := range o.Sel {
		t, ok := s.txs[n]
		if !ok {
			return fmt.Sprintf("%s pool: Candidate returned a transaction that was not in the pool (position %d)", name, k)
		}
		i, inPool := pos[n]
		if !inPool {
			return fmt.Sprintf("%s pool: Candidate returned transaction %d which is not an element of the pool", name, n)
		}
		if seen[n] {
			return fmt.Sprintf("%s pool: transaction %d selected twice", name, n)
		}
		seen[n] = true
		if i <= last {
			return fmt.Sprintf("%s pool: transaction %d selected out of pool order", name, n)
		}
		last = i
		if !(o.BTS-th < t.TS && t.TS <= o.BTS+th) {
			return fmt.Sprintf("%s pool: selected transaction %d has timestamp %d outside the window (%d, %d] of the block (bts %d, th %d)",
				name, n, t.TS, o.BTS-th, o.BTS+th, o.BTS, th)
		}
		if !o.Unfinal {
			if b, dup := onChain[n]; dup {
				return fmt.Sprintf("%s pool: selected transaction %d is already included in block %d of the chain", name, n, b)
			}
		}
		if o.Group {
			min := p.CDefault
			if t.Pad > 0 {
				min += p.CInput * int64(2*t.Pad+4)
			}
			if t.Limit < min {
				return fmt.Sprintf("%s pool: selected transaction %d has stepLimit %d below the minimum %d", name, n, t.Limit, min)
			}
		}
		charge := new(big.Int).Mul(big.NewInt(t.Limit), big.NewInt(p.Price))
		charge.Add(charge, big.NewInt(t.Value))
		if bal[t.From].Cmp(charge) < 0 {
			return fmt.Sprintf("%s pool: selected transaction %d (position %d) charges %s to account %d whose balance after the transactions selected before it is %s",
				name, n, k, charge, t.From, bal[t.From])
		}
		bal[t.From].Sub(bal[t.From], charge)
		bal[t.To].Add(bal[t.To], big.NewInt(t.Value))
		for a := range bal {
			if bal[a].Sign() < 0 {
				return fmt.Sprintf("%s pool: cumulative balance of account %d is negative after position %d", name, a, k)
			}
		}
		size += int64(len(s.real[n].Bytes()))
	}
	if size > effBytes(o.MaxBytes) {
		return fmt.Sprintf("%s pool: %d bytes selected, limit %d", name, size, effBytes(o.MaxBytes))
	}
	if int64(len(o.Sel)) > effCount(o.MaxCount) {
		return fmt.Sprintf("%s pool: %d transactions selected, limit %d", name, len(o.Sel), effCount(o.MaxCount))
	}
	if !o.Unfinal && o.Verdict != cOk {
		return fmt.Sprintf("%s pool: the list selected by Candidate (%v) is REJECTED by the validation of a non-proposer: %s",
			name, o.Sel, o.VerdictTx)
	}
	return ""
}

// ---------------------------------------------------------------------------
// Coq printers
// ---------------------------------------------------------------------------

func (s *scen) coqTx(n int) string {
	t := s.txs[n]
	cnt := 0
	if t.Pad > 0 && !t.Patch {
		cnt = 2*t.Pad + 4
	}
	return fmt.Sprintf("(T %d %s %d %d %s %s %s %s %s)", n, hxlib.CoqBool(!t.Patch), t.From, t.To,
		z(t.Value), z(t.Limit), z(cnt), z(t.TS),
		z(len(s.real[n].Bytes())))
}

// z prints a Z argument of a constructor / function whose argument scope is Z
// (plain literal: much faster to parse than a delimited one).
func z(v interface{}) string {
	t := fmt.Sprint(v)
	if strings.HasPrefix(t, "-") {
		return "(" + t + ")"
	}
	return t
}

func coqInts(l []int) string {
	var it []string
	for _, x := range l {
		it = append(it, fmt.Sprint(x))
	}
	return hxlib.CoqList(it)
}

func coqSnap(sn snapshot) string {
	return fmt.Sprintf("(SN %s %s %s)", coqInts(sn.Locs), z(sn.MaxP), z(sn.MaxN))
}

func coqBal(b []*big.Int) string {
	var it []string
	for i, v := range b {
		it = append(it, fmt.Sprintf("(%d, %s)", i, hxlib.CoqZ(v.String())))
	}
	return hxlib.CoqList(it)
}

func (s *scen) coqFee() string {
	p := &s.plan.P
	return fmt.Sprintf("(F %s %s %s)", z(p.Price), z(p.CDefault), z(p.CInput))
}

type corrupt int

const (
	noCorrupt corrupt = iota
	corruptSel
	corruptVerdict
	corruptErr
)

func (s *scen) coqCand(o *candObs, how corrupt) string {
	var pool, perr, errs, rem []string
	for _, el := range o.Pool {
		pool = append(pool, fmt.Sprintf("(E %s %s)", s.coqTx(el.Num), hxlib.CoqBool(el.Direct)))
		perr = append(perr, fmt.Sprint(el.Prior))
		errs = append(errs, fmt.Sprint(el.Err))
		rem = append(rem, hxlib.CoqBool(el.Removed))
	}
	sel := append([]int(nil), o.Sel...)
	verdict := o.Verdict
	switch how {
	case corruptSel:
		if len(sel) > 0 {
			sel = sel[:len(sel)-1]
		} else {
			sel = append(sel, 1)
		}
	case corruptVerdict:
		verdict = cBalance
	case corruptErr:
		if len(errs) > 0 {
			if errs[0] == "0" {
				errs[0] = "1"
			} else {
				errs[0] = "0"
			}
		}
	}
	removed := "None"
	if o.RemovedOK {
		removed = "(Some " + hxlib.CoqList(rem) + ")"
	}
	return fmt.Sprintf("CCand %s %s %s %s %s %s %s %s %s %s %s %s %s %s %s %d",
		hxlib.CoqList(o.H), coqSnap(o.Snap), hxlib.CoqNat(o.P), s.coqFee(), hxlib.CoqBool(o.Group),
		z(s.plan.P.ThMS), z(o.BTS), z(o.MaxBytes), z(o.MaxCount),
		hxlib.CoqList(pool), hxlib.CoqList(perr), coqBal(o.Bal), coqInts(sel), hxlib.CoqList(errs), removed, verdict)
}

func (s *scen) coqVal(o *valObs) string {
	var txs []string
	for _, n := range o.Txs {
		txs = append(txs, s.coqTx(n))
	}
	return fmt.Sprintf("CVal %s %s %s %s true %s %s %s %s %d",
		hxlib.CoqList(o.H), coqSnap(o.Snap), hxlib.CoqNat(o.P), s.coqFee(),
		z(s.plan.P.ThMS), z(o.BTS), hxlib.CoqList(txs), coqBal(o.Bal), o.Verdict)
}

// ---------------------------------------------------------------------------
// generators
// ---------------------------------------------------------------------------

func pick64(r *rand.Rand, xs ...int64) int64 { return xs[r.Intn(len(xs))] }

func genParams(r *rand.Rand) Params {
	p := Params{
		Price:    pick64(r, 0, 1, 1, 7, 10, 1000),
		CDefault: pick64(r, 0, 100, 100, 1000),
		CInput:   pick64(r, 0, 2, 10),
		ThMS:     pick64(r, 0, 1, 2, 5, 5, 50),
	}
	p.Bal = make([]int64, nAcct)
	for i := range p.Bal {
		switch r.Intn(5) {
		case 0:
			p.Bal[i] = 0
		case 1:
			p.Bal[i] = r.Int63n(3000)
		case 2, 3:
			p.Bal[i] = 1000 + r.Int63n(400000)
		default:
			p.Bal[i] = 1_000_000_000 + r.Int63n(1_000_000_000)
		}
	}
	return p
}

type genState struct {
	r       *rand.Rand
	next    int  // next transaction number
	persist bool // scenario with a persistent pool: several Candidate calls on the same elements
}

func (g *genState) ts(bts, th int64) int64 {
	r := g.r
	switch r.Intn(10) {
	case 0, 1, 2, 3:
		return bts + pick64(r, -th-1, -th, -th+1, -1, 0, 1, th-1, th, th+1)
	case 4:
		return bts + pick64(r, -2*th, 2*th, -th-1000, th+1000)
	default:
		return bts - th + 1 + r.Int63n(2*th)
	}
}

// genPool builds a pool for a block with timestamp bts: boundary timestamps,
// shared senders whose balance runs out, step limits around the minimum,
// transactions of earlier blocks offered again.
func (g *genState) genPool(s *scen, bts int64, patch bool, n int) []PoolTx {
	r := g.r
	p := &s.plan.P
	th := normalTh(p)
	src := s.par
	senders := []int{0, 1, 2, 3, 3, 4}
	if patch {
		th = patchTh
		src = s.gpar
		senders = []int{5, 6}
	}
	work := make([]int64, nAcct)
	for i := range work {
		b := balanceOf(src, i)
		if b != nil && b.IsInt64() {
			work[i] = b.Int64()
		} else {
			work[i] = 1 << 60
		}
	}
	var pool []PoolTx
	for len(pool) < n {
		// a transaction that is already part of the chain
		if !patch && len(s.chain) > 1 && r.Intn(4) == 0 {
			inc := s.chain[1+r.Intn(len(s.chain)-1)]
			if inc.tx != nil {
				pool = append(pool, PoolTx{TxIn: *inc.tx, Direct: r.Intn(2) == 0})
				continue
			}
		}
		if patch && len(s.pchain) > 0 && r.Intn(2) == 0 {
			inc := s.pchain[r.Intn(len(s.pchain))]
			pool = append(pool, PoolTx{TxIn: *inc.tx, Direct: r.Intn(2) == 0})
			continue
		}
		t := TxIn{N: g.next, Patch: patch}
		g.next++
		t.From = senders[r.Intn(len(senders))]
		if r.Intn(8) == 0 {
			t.To = t.From
		} else if patch {
			t.To = 5 + r.Intn(2)
		} else {
			t.To = r.Intn(nAcct)
		}
		t.TS = g.ts(bts, th)
		if !patch && r.Intn(3) == 0 {
			t.Pad = 1 + r.Intn(24)
		}
		min := int64(0)
		if !patch {
			min = p.CDefault
			if t.Pad > 0 {
				min += p.CInput * int64(2*t.Pad+4)
			}
		}
		t.Limit = min + pick64(r, 0, 0, 0, 0, 1, 17, 1000)
		if r.Intn(12) == 0 && min > 0 {
			t.Limit = min - 1
		}
		fee := t.Limit * p.Price
		left := work[t.From] - fee
		switch r.Intn(8) {
		case 0:
			t.Value = 0
		case 1, 2:
			t.Value = left // exactly exhausts the working balance
		case 3:
			t.Value = left + 1 // one more than the working balance covers
		case 4:
			t.Value = left - 1
		case 5:
			t.Value = left / 2
		default:
			if left > 0 {
				t.Value = r.Int63n(left/3 + 1)
			}
		}
		if t.Value < 0 {
			t.Value = 0
		}
		if t.Value > 1<<50 {
			t.Value = 1 << 50
		}
		// rough working balance of the generator (assumes the transaction is selected when it can be)
		if work[t.From] >= fee+t.Value && t.Limit >= min && bts-th < t.TS && t.TS <= bts+th {
			work[t.From] -= fee + t.Value
			work[t.To] += t.Value
		}
		pool = append(pool, PoolTx{TxIn: t, Direct: r.Intn(2) == 0})
		if r.Intn(25) == 0 {
			pool = append(pool, pool[len(pool)-1]) // the same transaction added twice
		}
	}
	r.Shuffle(len(pool), func(i, j int) { pool[i], pool[j] = pool[j], pool[i] })
	return pool
}

func (g *genState) genBlock(s *scen, idx, total int) BlockPlan {
	r := g.r
	p := &s.plan.P
	th := normalTh(p)
	var bp BlockPlan
	if idx == 0 {
		bp.BTS = 1_000_000_000 + r.Int63n(1000)*1000 + r.Int63n(3)
	} else {
		bp.BTS = s.lastBTS + pick64(r, 1, 2, 500, th/2, th-1, th, th+1, 2*th, 2*th+1, 3*th, 5*th)
		if g.persist && r.Intn(4) != 0 {
			bp.BTS = s.lastBTS + pick64(r, 1, 2, 500, th/4, th/2) // what stayed in the pool is still inside the window
		}
	}
	n := r.Intn(13)
	if r.Intn(10) == 0 {
		n = 0
	}
	bp.Pool = g.genPool(s, bp.BTS, false, n)
	if idx > 0 && r.Intn(2) == 0 {
		bp.PatchPool = g.genPool(s, bp.BTS, true, 1+r.Intn(5))
	}
	// limits: around prefix sums of the serialised sizes / small counts
	bp.MaxBytes, bp.MaxCount = 0, 0
	if len(bp.Pool) > 0 && r.Intn(2) == 0 {
		k := 1 + r.Intn(len(bp.Pool))
		sum := 0
		for i := 0; i < k; i++ {
			if rt, err := s.realOf(&bp.Pool[i].TxIn); err == nil {
				sum += len(rt.Bytes())
			}
		}
		bp.MaxBytes = sum + int(pick64(r, -1, 0, 0, 1))
	} else if r.Intn(4) == 0 {
		bp.MaxBytes = int(pick64(r, -1, 1, 100, 1<<20))
	}
	switch r.Intn(4) {
	case 0:
		bp.MaxCount = 1 + r.Intn(4)
	case 1:
		bp.MaxCount = int(pick64(r, -1, 1000))
	}
	bp.Finalize = true
	if idx == total-2 && r.Intn(4) == 0 {
		bp.Finalize = false // the next block is proposed on an unfinalized parent
	}
	if g.persist {
		bp.Keep = idx > 0
		if bp.Keep && len(bp.Pool) > 4 {
			bp.Pool = bp.Pool[:1+r.Intn(4)] // a few additions; the rest of the pool is what stayed
		}
		bp.NoCleanup = r.Intn(2) == 0
		if r.Intn(3) == 0 {
			// another proposer's block: some of this node's pool (also elements that stayed after an
			// earlier look), some transactions this node has never seen
			bp.PeerPool = []PoolTx{}
			stayed, _ := s.poolBefore(s.e.pools[module.TransactionGroupNormal])
			for _, el := range stayed {
				if t := s.txs[el.Num]; t != nil && r.Intn(2) == 0 {
					bp.PeerPool = append(bp.PeerPool, PoolTx{TxIn: *t, Direct: r.Intn(2) == 0})
				}
			}
			for i := range bp.Pool {
				if r.Intn(2) == 0 {
					bp.PeerPool = append(bp.PeerPool, bp.Pool[i])
				}
			}
			bp.PeerPool = append(bp.PeerPool, g.genPool(s, bp.BTS, false, r.Intn(4))...)
			r.Shuffle(len(bp.PeerPool), func(i, j int) { bp.PeerPool[i], bp.PeerPool[j] = bp.PeerPool[j], bp.PeerPool[i] })
			bp.LocalToo = r.Intn(2) == 0
		}
	}
	return bp
}

// genExtra builds lists for the validator from the block's pool and result.
func (g *genState) genExtra(s *scen, pool []elemObs, sel []int) [][]int {
	r := g.r
	var out [][]int
	var all []int
	for _, el := range pool {
		all = append(all, el.Num)
	}
	if len(all) > 0 && r.Intn(2) == 0 {
		out = append(out, all) // the whole pool as a block
	}
	if len(sel) > 0 {
		switch r.Intn(4) {
		case 0: // a selected transaction twice
			l := append(append([]int(nil), sel...), sel[r.Intn(len(sel))])
			out = append(out, l)
		case 1: // the selected list in reverse order
			l := make([]int, len(sel))
			for i, n := range sel {
				l[len(sel)-1-i] = n
			}
			out = append(out, l)
		case 2: // the selected list with one other pool element inserted
			if len(all) > len(sel) {
				x := all[r.Intn(len(all))]
				at := r.Intn(len(sel) + 1)
				l := append(append(append([]int(nil), sel[:at]...), x), sel[at:]...)
				out = append(out, l)
			}
		}
	}
	if len(all) > 1 && r.Intn(3) == 0 {
		l := append([]int(nil), all...)
		r.Shuffle(len(l), func(i, j int) { l[i], l[j] = l[j], l[i] })
		out = append(out, l[:1+r.Intn(len(l))])
	}
	return out
}

// ---------------------------------------------------------------------------
// driving a scenario
// ---------------------------------------------------------------------------

type emitted struct {
	kind   string
	block  int
	extra  int
	cand   *candObs
	val    *valObs
	oracle string
	s      *scen
}

// runScenario executes a plan; when g is non-nil the blocks are generated on
// the way (and appended to the plan) — the extra lists of a block are chosen
// after its Candidate call, so a generated block is executed in two steps.
func runScenario(plan *ScenPlan, g *genState, nBlocks int, sink func(em emitted)) error {
	s, err := startScen(plan)
	if err != nil {
		return err
	}
	defer s.e.close()
	if g == nil {
		nBlocks = len(plan.Blocks)
	}
	for idx := 0; idx < nBlocks; idx++ {
		if g != nil {
			plan.Blocks = append(plan.Blocks, g.genBlock(s, idx, nBlocks))
		}
		bp := &plan.Blocks[idx]
		if g != nil {
			// the extra lists are chosen before the Candidate call: from the pool, from a
			// random sub-list of it and from the transactions already on the chain
			var pre []elemObs
			seen := map[int]bool{}
			for i := range bp.Pool {
				if _, err := s.realOf(&bp.Pool[i].TxIn); err != nil {
					return err
				}
				if n := bp.Pool[i].N; !seen[n] {
					seen[n] = true
					pre = append(pre, elemObs{Num: n})
				}
			}
			var guess []int
			for _, el := range pre {
				if g.r.Intn(2) == 0 {
					guess = append(guess, el.Num)
				}
			}
			bp.Extra = g.genExtra(s, pre, guess)
			var onChain []int
			for _, inc := range s.chain {
				if inc.tx != nil {
					onChain = append(onChain, inc.tx.N)
				}
			}
			if len(onChain) > 0 && len(pre) > 0 && g.r.Intn(4) == 0 {
				bp.Extra = append(bp.Extra, []int{pre[0].Num, onChain[g.r.Intn(len(onChain))]})
			}
		}
		chainBefore := append([]included(nil), s.chain...)
		pchainBefore := append([]included(nil), s.pchain...)
		out, err := s.runBlock(bp, idx+1)
		if err != nil {
			return fmt.Errorf("block %d: %v", idx, err)
		}
		if out.Patch != nil {
			sink(emitted{kind: "patch", block: idx, cand: out.Patch, s: s,
				oracle: s.oracleCand(out.Patch, pchainBefore)})
		}
		if out.Normal != nil {
			sink(emitted{kind: "normal", block: idx, cand: out.Normal, s: s,
				oracle: s.oracleCand(out.Normal, chainBefore)})
		}
		if out.PeerCand != nil {
			sink(emitted{kind: "peer", block: idx, cand: out.PeerCand, s: s,
				oracle: s.oracleCand(out.PeerCand, chainBefore)})
		}
		for k, vo := range out.Extra {
			or := ""
			if vo.Fatal != "" {
				or = "validation did not report: " + vo.Fatal
			}
			sink(emitted{kind: "extra", block: idx, extra: k, val: vo, s: s, oracle: or})
		}
		if out.Stop {
			break
		}
	}
	return nil
}

func candKind(o *candObs) string {
	k := "cand-normal"
	if !o.Group {
		k = "cand-patch"
	}
	if o.Peer {
		k = "cand-peer"
	}
	if o.Unfinal {
		k += "-unfinalized-parent"
	}
	for _, el := range o.Pool {
		if el.Prior != cOk || el.seenBefore {
			k += "-again"
			break
		}
	}
	var tags []string
	has := map[int]bool{}
	for _, el := range o.Pool {
		has[el.Err] = true
	}
	for _, c := range []struct {
		c int
		n string
	}{{cExpired, "expired"}, {cState, "included"}, {cStep, "step"}, {cBalance, "balance"}} {
		if has[c.c] {
			tags = append(tags, c.n)
		}
	}
	if len(tags) > 0 {
		k += ":" + strings.Join(tags, "+")
	}
	return k
}

func gen(c *hxlib.Ctx) {
	g := &genState{r: c.Rand, next: 1}
	var canary *emitted
	scenarios := c.N(42)
	for i := 0; i < scenarios; i++ {
		plan := &ScenPlan{P: genParams(c.Rand)}
		g.next = 1
		g.persist = i%2 == 1
		nBlocks := 1 + c.Rand.Intn(5)
		if g.persist {
			nBlocks = 2 + c.Rand.Intn(4)
		}
		err := runScenario(plan, g, nBlocks, func(em emitted) {
			in := replayIn{Plan: *plan, Block: em.block, Kind: em.kind, Extra: em.extra}
			// the plan grows while the scenario runs: copy the blocks seen so far
			in.Plan.Blocks = append([]BlockPlan(nil), plan.Blocks[:em.block+1]...)
			cs := hxlib.Case{Input: in, OracleErr: em.oracle}
			if em.cand != nil {
				o := em.cand
				cs.Kind = candKind(o)
				cs.Nontrivial = len(o.Pool) >= 2 && len(o.Sel) >= 1 && len(o.Sel) < len(o.Pool) && !o.Unfinal
				if !c.OracleOnly {
					cs.Coq = em.s.coqCand(o, noCorrupt)
				} else {
					cs.Key = fmt.Sprintf("%d/%d/%s/%v", i, em.block, em.kind, o.Sel)
				}
				if canary == nil && cs.Nontrivial && o.Group && !c.OracleOnly {
					e2 := em
					canary = &e2
					for _, how := range []corrupt{corruptSel, corruptVerdict, corruptErr} {
						c.Emit(hxlib.Case{Kind: "canary", Canary: true, Coq: em.s.coqCand(o, how)})
					}
				}
			} else {
				cs.Kind = fmt.Sprintf("validate-extra:class%d", em.val.Verdict)
				cs.Nontrivial = len(em.val.Txs) > 0
				if !c.OracleOnly {
					cs.Coq = em.s.coqVal(em.val)
				} else {
					cs.Key = fmt.Sprintf("%d/%d/x%d", i, em.block, em.extra)
				}
			}
			c.Emit(cs)
		})
		if err != nil {
			c.Emit(hxlib.Case{Kind: "scenario-error", Input: replayIn{Plan: *plan}, Nontrivial: true,
				Key:       fmt.Sprintf("err%d", i),
				OracleErr: "the scenario could not be executed: " + err.Error()})
		}
	}
}

func replay(raw json.RawMessage) string {
	var in replayIn
	if err := json.Unmarshal(raw, &in); err != nil {
		return "bad replay input: " + err.Error()
	}
	msg := ""
	var err error
	if p := hxlib.Catch(func() {
		err = runScenario(&in.Plan, nil, 0, func(em emitted) {
			if em.block == in.Block && em.kind == in.Kind && em.extra == in.Extra && em.oracle != "" {
				msg = em.oracle
			}
		})
	}); p != "" {
		return "panic: " + p
	}
	if err != nil && msg == "" {
		return "the scenario could not be executed: " + err.Error()
	}
	return msg
}

func main() {
	hxlib.Main(hxlib.Spec{
		ID:       "C37",
		Rule:     "scenarios on a real service.Manager (real pools, TXIDManager, locator manager, transitions; basic platform; in-memory db): genesis with random balances (0, tight, large), step price {0,1,7,10,1000}, step costs, timestamp threshold {default 5 min, 1, 2, 5, 50 ms}; 1..5 blocks with block timestamps stepping by {1, 2, 500, th/2, th-1, th, th+1, 2th, 2th+1, 3th, 5th} (eviction, maxTSInDB); per block a fresh pool of 0..12 signed v3 transactions (timestamps at bts-th-1, bts-th, bts-th+1, bts+-1, bts+th-1, bts+th, bts+th+1, inside, far outside; four shared senders with values that exhaust / exceed by one / leave one of the working balance; recipients that spend what they just received; from = to; step limits at minimum, minimum-1; message data; transactions of earlier blocks offered again; the same transaction added twice), limits at prefix sums of the sizes +-1, counts 1..4, defaults (<= 0); every second scenario keeps the node's pool across blocks (elements that stayed after an earlier Candidate call — kept NotEnoughBalance, not reached, oversize, future — are examined again; block timestamps then mostly step by {1, 2, 500, th/4, th/2}), one block in three of those is made by another proposer (second real pool over the same TXIDManager, holding some of the node's elements and unknown ones; in half of them the node also proposes and loses), and in half of the blocks the next Candidate runs after the block's ids were committed but before the pool was cleaned (FinalizeTransition instead of Manager.Finalize); one block in four followed by a block proposed on an unfinalized parent; every second block after the first with a patch-group pool (patch transactions of earlier patched transitions offered again); plus extra lists (whole pool, duplicate, reversed, foreign element, chain transaction) through the validator only. non-trivial = a pool of >= 2 elements from which Candidate selects some but not all (finalized parent) / a non-empty extra list; distinct = distinct Coq case term",
		Preamble: "From Goloop Require Import lib.Bytes Model_Locator Model_TxPool.\nFrom GoloopRun Require Import Run_C37.",
		Gen:      gen, Replay: replay, Shard: 130,
	})
}
