// c04: consensus.voteSet (add / hasOverTwoThirds / getOverTwoThirds*) vs Model_VoteSet.
//
// Every case is a sequence of operations on newVoteSet(n): add(index, vote) and
// the cache-filling query getOverTwoThirdsRoundDecisionDigest().  After EVERY
// operation the harness records what the implementation shows (add's return
// value, count, hasOverTwoThirds, the reported decision, whether the reported
// part-set id is nil, round, the counters) and evaluates the direct oracle: an
// independent recount of the slot array.
package main

import (
	"crypto/sha256"
	"encoding/json"
	"fmt"
	"sort"
	"strings"

	"github.com/icon-project/goloop/consensus"
	"verif/harness/hxlib"
)

// ---------- decisions ----------

// A decision id stands for one (BlockID, BlockPartSetIDAndNTSVoteCount, NTSVoteBases)
// triple.  Id 0 is the nil vote.  Ids 3..6 differ from id 1 in exactly one component.
const nDec = 10

type decision struct {
	blockID []byte
	psid    *consensus.PartSetIDAndAppData
	nts     []int64
}

var decisions [nDec]decision
var digestToID = map[string]int{}

func h32(s string) []byte { x := sha256.Sum256([]byte(s)); return x[:] }

func initDecisions() {
	psA := &consensus.PartSetID{Count: 1, Hash: h32("parts-A")}
	psA2 := &consensus.PartSetID{Count: 2, Hash: h32("parts-A")}
	psA3 := &consensus.PartSetID{Count: 1, Hash: h32("parts-A'")}
	psB := &consensus.PartSetID{Count: 1, Hash: h32("parts-B")}
	decisions[0] = decision{blockID: []byte{0x01}, psid: nil}                 // nil vote: BlockID = encoded nid
	decisions[1] = decision{blockID: h32("block-A"), psid: psA.WithAppData(0)} // block A
	decisions[2] = decision{blockID: h32("block-B"), psid: psB.WithAppData(0)} // block B
	decisions[3] = decision{blockID: h32("block-A"), psid: psA3.WithAppData(0)} // A, other part-set hash
	decisions[4] = decision{blockID: h32("block-A'"), psid: psA.WithAppData(0)} // other block, A's parts
	decisions[5] = decision{blockID: h32("block-A"), psid: psA.WithAppData(1)} // A, other app data
	decisions[6] = decision{blockID: h32("block-A"), psid: psA.WithAppData(0), nts: []int64{1}}
	decisions[7] = decision{blockID: h32("block-A"), psid: psA2.WithAppData(0)} // A, other part count
	decisions[8] = decision{blockID: h32("block-B"), psid: psA.WithAppData(0)}  // B with A's parts
	decisions[9] = decision{blockID: h32("block-C"), psid: (&consensus.PartSetID{Count: 3, Hash: h32("parts-C")}).WithAppData(0)}
	for i := range decisions {
		v := newVote(opIn{D: i, H: 10, T: 1})
		k := string(v.RoundDecisionDigest())
		if j, dup := digestToID[k]; dup {
			panic(fmt.Sprintf("decisions %d and %d have the same digest", i, j))
		}
		digestToID[k] = i
	}
}

// ---------- inputs ----------

type opIn struct {
	Q  bool  `json:"q,omitempty"` // query step
	I  int   `json:"i"`
	D  int   `json:"d"`
	TS int64 `json:"ts"`
	H  int64 `json:"h"`
	R  int32 `json:"r"`
	T  int   `json:"t"`
}

type seqIn struct {
	N   int    `json:"n"`
	Ops []opIn `json:"ops"`
}

type treeIn struct {
	N      int    `json:"n"`
	Prefix []opIn `json:"prefix"`
	Depth  int    `json:"depth"` // further operations below the prefix
	ND     int    `json:"nd"`    // decisions 0..nd-1
}

func newVote(o opIn) *consensus.VoteMessage {
	d := decisions[o.D]
	return consensus.VerifNewVote(o.H, o.R, consensus.VoteType(o.T), d.blockID, d.psid, d.nts, o.TS)
}

func decOf(m *consensus.VoteMessage) int {
	id, ok := digestToID[string(m.RoundDecisionDigest())]
	if !ok {
		return -1
	}
	return id
}

// ---------- observation ----------

type stepObs struct {
	Panic   bool
	Ret     bool
	Count   int
	Has     bool
	Dec     int // -1: none reported
	PsidNil bool
	Round   int32
	Cnts    [][2]int // (decision id, count) sorted by id
}

func (o stepObs) coq() string {
	var sb strings.Builder
	if o.Panic {
		sb.WriteString("ObP ")
	} else {
		sb.WriteString("Ob " + hxlib.CoqBool(o.Ret) + " ")
	}
	dec := "None"
	if o.Dec >= 0 {
		dec = fmt.Sprintf("(Some %d)", o.Dec)
	}
	rnd := fmt.Sprintf("%d", o.Round)
	if o.Round < 0 {
		rnd = fmt.Sprintf("(%d)", o.Round)
	}
	fmt.Fprintf(&sb, "%d %s %s %s %s [", o.Count, hxlib.CoqBool(o.Has), dec, hxlib.CoqBool(o.PsidNil), rnd)
	for i, c := range o.Cnts {
		if i > 0 {
			sb.WriteString(";")
		}
		if c[1] < 0 {
			fmt.Fprintf(&sb, "cn %d (%d)", c[0], c[1])
		} else {
			fmt.Fprintf(&sb, "cn %d %d", c[0], c[1])
		}
	}
	sb.WriteString("]")
	return sb.String()
}

func zlit(v int64) string {
	if v < 0 {
		return fmt.Sprintf("(%d)", v)
	}
	return fmt.Sprintf("%d", v)
}

func (o opIn) coq() string {
	if o.Q {
		return "Qy"
	}
	if o.H == 10 && o.T == 1 {
		return fmt.Sprintf("Ad %d %d %s %s", o.I, o.D, zlit(o.TS), zlit(int64(o.R)))
	}
	return fmt.Sprintf("Ad5 %d %d %s %s %s %d", o.I, o.D, zlit(o.TS), zlit(o.H), zlit(int64(o.R)), o.T)
}

func stepCoq(o opIn, ob stepObs) string { return "(" + o.coq() + ", " + ob.coq() + ")" }

// ---------- running a sequence: observation + direct oracle ----------

type runner struct {
	n      int
	vs     *consensus.VerifVoteSet
	locked int // decision that reached +2/3 earlier in this history, -1 none
	lockC  int // its largest support seen so far
	// statistics for the non-triviality rule
	replaced, refused23, reported, dups int
}

func newRunner(n int) *runner {
	return &runner{n: n, vs: consensus.VerifNewVoteSet(n), locked: -1}
}

func sameVote(a, b *consensus.VoteMessage) bool {
	return a.Height == b.Height && a.Round == b.Round && a.Type == b.Type &&
		string(a.RoundDecisionDigest()) == string(b.RoundDecisionDigest()) && a.Timestamp == b.Timestamp
}

func (r *runner) slots() []*consensus.VoteMessage {
	s := make([]*consensus.VoteMessage, r.n)
	for i := range s {
		s[i] = r.vs.Slot(i)
	}
	return s
}

func recount(slots []*consensus.VoteMessage) (cnt [nDec]int, occupied int, unknown bool) {
	for _, m := range slots {
		if m == nil {
			continue
		}
		occupied++
		d := decOf(m)
		if d < 0 {
			unknown = true
			continue
		}
		cnt[d]++
	}
	return
}

// step applies one operation, returns the observation and the first oracle
// complaint ("" if the property holds at this step).
func (r *runner) step(o opIn) (stepObs, string) {
	var ob stepObs
	msg := ""
	fail := func(format string, a ...interface{}) {
		if msg == "" {
			msg = fmt.Sprintf(format, a...)
		}
	}
	pre := r.slots()
	preCnt, _, _ := recount(pre)
	inRange := o.Q || (o.I >= 0 && o.I < r.n)
	var v *consensus.VoteMessage
	if !o.Q {
		v = newVote(o)
	}
	p := hxlib.Catch(func() {
		if o.Q {
			r.vs.Query()
		} else {
			ob.Ret = r.vs.Add(o.I, v)
		}
	})
	if p != "" {
		ob.Panic = true
		ob.Ret = false
		if inRange {
			fail("operation panicked: %s", p)
		}
	}
	post := r.slots()
	// --- what add returned and did to the slots
	if !o.Q && inRange && p == "" {
		old := pre[o.I]
		want := true
		switch {
		case old == nil:
		case sameVote(old, v):
			want = false
			r.dups++
		case 3*preCnt[decOf(old)] > 2*r.n:
			want = false
			r.refused23++
		default:
			r.replaced++
		}
		if ob.Ret != want {
			fail("add(%d, dec %d) returned %v, expected %v (old slot: %s)", o.I, o.D, ob.Ret, want, slotStr(old))
		}
		for i := range post {
			exp := pre[i]
			if i == o.I && want {
				exp = v
			}
			if post[i] != exp {
				fail("after add(%d, dec %d) slot %d holds %s, expected %s", o.I, o.D, i, slotStr(post[i]), slotStr(exp))
			}
		}
	} else {
		for i := range post {
			if post[i] != pre[i] {
				fail("slot %d changed by a query / failed operation", i)
			}
		}
	}
	// --- observe
	cnt, occupied, unknown := recount(post)
	if unknown {
		fail("a slot holds a vote with an unknown digest")
	}
	ob.Count = r.vs.Count()
	ob.Has = r.vs.HasOverTwoThirds()
	ob.Round = r.vs.Round()
	ob.Dec = -1
	var rdd []byte
	var psid, psid2 *consensus.PartSetID
	var ok, ok2 bool
	vll := -1
	if pp := hxlib.Catch(func() {
		rdd, psid, ok = r.vs.PeekDecision()
		psid2, ok2 = r.vs.PeekPartSetID()
		vll = r.vs.PeekVoteListLen()
	}); pp != "" {
		fail("decision query panicked: %s", pp)
		ob.Panic = true
	}
	ob.PsidNil = psid == nil
	if ok {
		id, known := digestToID[string(rdd)]
		if !known {
			fail("reported digest %x belongs to no vote", rdd)
			id = nDec // never equal to a model decision
		}
		ob.Dec = id
	}
	ds, cs := r.vs.Counters()
	seen := map[int]bool{}
	got := [nDec]int{}
	for i := range ds {
		id, known := digestToID[string(ds[i])]
		if !known {
			fail("counter %d has an unknown digest", i)
			id = nDec + i
		}
		if seen[id] {
			fail("two counters for decision %d", id)
		}
		seen[id] = true
		if cs[i] == 0 {
			fail("counter for decision %d is zero", id)
		}
		if known {
			got[id] += cs[i]
		}
		ob.Cnts = append(ob.Cnts, [2]int{id, cs[i]})
	}
	sort.Slice(ob.Cnts, func(a, b int) bool { return ob.Cnts[a][0] < ob.Cnts[b][0] })
	// --- direct oracle: the statement of C04 against the recount
	if got != cnt {
		fail("counters %v differ from the recount of the slots %v", got, cnt)
	}
	if ob.Count != occupied {
		fail("count=%d but %d slots are occupied", ob.Count, occupied)
	}
	if ob.Has != (3*occupied > 2*r.n) {
		fail("hasOverTwoThirds=%v with %d of %d slots occupied", ob.Has, occupied, r.n)
	}
	maj := -1
	for d, c := range cnt {
		if 3*c > 2*r.n {
			if maj >= 0 {
				fail("two decisions with +2/3: %d and %d", maj, d)
			}
			maj = d
		}
	}
	if maj >= 0 && !ok {
		fail("decision %d holds %d of %d slots (+2/3) but none is reported", maj, cnt[maj], r.n)
	}
	if ok && maj < 0 {
		fail("decision %d reported but no decision has +2/3 (recount %v, n=%d)", ob.Dec, cnt, r.n)
	}
	if ok && maj >= 0 && ob.Dec != maj {
		fail("decision %d reported but +2/3 is for %d", ob.Dec, maj)
	}
	if ok && maj >= 0 && ob.Dec == maj {
		want := decisions[maj].psid.ID()
		if !psid.Equal(want) {
			fail("part-set id reported for decision %d is %v, expected %v", maj, psid, want)
		}
		if vll != cnt[maj] {
			fail("voteListForOverTwoThirds has %d votes, recount %d", vll, cnt[maj])
		}
	}
	if !ok && (psid != nil || rdd != nil) {
		fail("ok=false with a non-nil digest / part-set id")
	}
	if !ok && vll != -1 {
		fail("voteListForOverTwoThirds non-nil without a +2/3 decision")
	}
	if ok2 != ok || !psid2.Equal(psid) {
		fail("getOverTwoThirdsPartSetID disagrees with getOverTwoThirdsRoundDecisionDigest")
	}
	// sticky
	if r.locked >= 0 {
		if cnt[r.locked] < r.lockC {
			fail("support of the +2/3 decision %d dropped from %d to %d", r.locked, r.lockC, cnt[r.locked])
		}
		if !ok || ob.Dec != r.locked {
			fail("decision %d had +2/3 earlier but is no longer reported (reported: %d)", r.locked, ob.Dec)
		}
	}
	if maj >= 0 && r.locked < 0 {
		r.locked = maj
	}
	if r.locked >= 0 && cnt[r.locked] > r.lockC {
		r.lockC = cnt[r.locked]
	}
	if ok {
		r.reported++
	}
	for i := 0; i < r.n; i++ {
		if r.vs.MaskGet(i) != (post[i] != nil) {
			fail("mask bit %d = %v but slot occupied = %v", i, r.vs.MaskGet(i), post[i] != nil)
		}
	}
	return ob, msg
}

func slotStr(m *consensus.VoteMessage) string {
	if m == nil {
		return "empty"
	}
	return fmt.Sprintf("{dec %d ts %d h %d r %d t %d}", decOf(m), m.Timestamp, m.Height, m.Round, m.Type)
}

type seqResult struct {
	coq        string
	msg        string
	nontrivial bool
	failAt     int
}

func runSeq(in seqIn, wantCoq bool) seqResult {
	r := newRunner(in.N)
	var res seqResult
	res.failAt = -1
	var items []string
	for k, o := range in.Ops {
		ob, m := r.step(o)
		if m != "" && res.msg == "" {
			res.msg = fmt.Sprintf("n=%d step %d: %s", in.N, k, m)
			res.failAt = k
		}
		if wantCoq {
			items = append(items, stepCoq(o, ob))
		}
	}
	res.nontrivial = r.replaced > 0 || r.refused23 > 0 || r.reported > 0
	if wantCoq {
		res.coq = fmt.Sprintf("(CSeq %s [%s])", hxlib.CoqNat(in.N), strings.Join(items, ";\n "))
	}
	return res
}

// ---------- exhaustive enumeration below a prefix ----------

func choices(n, nd int) []opIn {
	var cs []opIn
	for i := 0; i < n; i++ {
		for d := 0; d < nd; d++ {
			cs = append(cs, opIn{I: i, D: d, TS: 100, H: 10, R: 0, T: 1})
		}
	}
	return cs
}

// runTree enumerates every continuation of length <= depth of the prefix; each
// path is run on a fresh vote set.  Returns the Coq tree, the first oracle
// failure and the failing path.
func runTree(in treeIn, wantCoq bool) (string, string, *seqIn, int) {
	cs := choices(in.N, in.ND)
	msg := ""
	var failing *seqIn
	nodes := 0
	var prefixItems []string
	{
		r := newRunner(in.N)
		for k, o := range in.Prefix {
			ob, m := r.step(o)
			if m != "" && msg == "" {
				msg = fmt.Sprintf("n=%d step %d: %s", in.N, k, m)
				failing = &seqIn{N: in.N, Ops: append([]opIn{}, in.Prefix[:k+1]...)}
			}
			prefixItems = append(prefixItems, stepCoq(o, ob))
		}
	}
	path := append([]opIn{}, in.Prefix...)
	var rec func(depth int) string
	rec = func(depth int) string {
		if depth == 0 {
			return "T[]"
		}
		var kids []string
		for _, c := range cs {
			path = append(path, c)
			// fresh vote set, replay the path; only the last step is new
			r := newRunner(in.N)
			var ob stepObs
			var m string
			for k, o := range path {
				ob, m = r.step(o)
				if m != "" && msg == "" {
					msg = fmt.Sprintf("n=%d step %d: %s", in.N, k, m)
					failing = &seqIn{N: in.N, Ops: append([]opIn{}, path[:k+1]...)}
				}
			}
			nodes++
			sub := rec(depth - 1)
			if wantCoq {
				kids = append(kids, "("+c.coq()+", "+ob.coq()+", "+sub+")")
			}
			path = path[:len(path)-1]
		}
		if !wantCoq {
			return ""
		}
		return "T[" + strings.Join(kids, ";") + "]"
	}
	t := rec(in.Depth)
	coq := ""
	if wantCoq {
		coq = fmt.Sprintf("(CTree %s [%s] (%s))", hxlib.CoqNat(in.N), strings.Join(prefixItems, "; "), t)
	}
	return coq, msg, failing, nodes
}

// ---------- generators ----------

type gctx struct {
	c *hxlib.Ctx
}

func pick(c *hxlib.Ctx, xs []int) int { return xs[c.Rand.Intn(len(xs))] }

func (g gctx) vote(i, d int) opIn {
	r := g.c.Rand
	o := opIn{I: i, D: d, TS: 100, H: 10, R: 0, T: 1}
	switch r.Intn(12) {
	case 0, 1:
		o.TS = 101
	case 2:
		o.R = 1
	case 3:
		if r.Intn(4) == 0 {
			o.H = 11
		} else if r.Intn(3) == 0 {
			o.T = 0
		} else {
			o.TS = 99
		}
	}
	return o
}

func (g gctx) emitSeq(kind string, in seqIn) {
	res := runSeq(in, !g.c.OracleOnly)
	g.c.Emit(hxlib.Case{Kind: kind, Coq: res.coq, Input: map[string]interface{}{"t": "seq", "v": in},
		Nontrivial: res.nontrivial, OracleErr: res.msg})
}

func (g gctx) withQueries(ops []opIn, prob float64) []opIn {
	if prob == 0 {
		return ops
	}
	var out []opIn
	for _, o := range ops {
		if g.c.Rand.Float64() < prob {
			out = append(out, opIn{Q: true})
		}
		out = append(out, o)
	}
	if g.c.Rand.Float64() < prob {
		out = append(out, opIn{Q: true})
	}
	return out
}

func (g gctx) qprob() float64 { return []float64{0, 0, 0.15, 0.4, 0.8}[g.c.Rand.Intn(5)] }

func (g gctx) palette() []int {
	r := g.c.Rand
	k := 2 + r.Intn(3)
	pal := []int{}
	base := [][]int{{0, 1, 2}, {1, 2, 3}, {0, 1, 3, 4}, {1, 5, 6, 7}, {0, 8, 1}, {0, 1, 2, 3, 4, 5, 6, 7, 8, 9}}[r.Intn(6)]
	perm := r.Perm(len(base))
	for i := 0; i < k && i < len(base); i++ {
		pal = append(pal, base[perm[i]])
	}
	return pal
}

func gen(c *hxlib.Ctx) {
	g := gctx{c}
	r := c.Rand
	randN := func() int { return 1 + r.Intn(10) }

	// 1. uniformly random sequences
	for k := 0; k < c.N(350); k++ {
		n := randN()
		pal := g.palette()
		L := r.Intn(3*n + 6)
		var ops []opIn
		for j := 0; j < L; j++ {
			ops = append(ops, g.vote(r.Intn(n), pick(c, pal)))
		}
		g.emitSeq("random", seqIn{n, g.withQueries(ops, g.qprob())})
	}
	// 2. a favourite decision gathers a majority, then everybody re-votes
	for k := 0; k < c.N(350); k++ {
		n := randN()
		pal := g.palette()
		fav := pal[0]
		L := n + r.Intn(2*n+4)
		var ops []opIn
		for j := 0; j < L; j++ {
			d := fav
			if r.Intn(10) < 3 {
				d = pick(c, pal)
			}
			ops = append(ops, g.vote(r.Intn(n), d))
		}
		for j := 0; j < n+r.Intn(n+1); j++ {
			ops = append(ops, g.vote(r.Intn(n), pick(c, pal[1:])))
		}
		g.emitSeq("majority-then-revote", seqIn{n, g.withQueries(ops, g.qprob())})
	}
	// 3. threshold boundary: exactly floor(2n/3) votes, then one more, then attacks
	for k := 0; k < c.N(250); k++ {
		n := randN()
		pal := g.palette()
		fav, oth := pal[0], pal[1]
		perm := r.Perm(n)
		thr := n * 2 / 3
		var ops []opIn
		// some validators vote for the other decision first (will be replaced)
		for j := 0; j < n; j++ {
			if r.Intn(3) == 0 {
				ops = append(ops, opIn{I: perm[j], D: oth, TS: 100, H: 10, T: 1})
			}
		}
		for j := 0; j < thr; j++ {
			ops = append(ops, opIn{I: perm[j], D: fav, TS: 100, H: 10, T: 1})
		}
		ops = append(ops, opIn{Q: true})
		if thr < n {
			ops = append(ops, opIn{I: perm[thr], D: fav, TS: 100, H: 10, T: 1})
		}
		for j := 0; j < n; j++ { // every validator now tries the other decision
			ops = append(ops, g.vote(perm[j], pick(c, pal[1:])))
		}
		for j := 0; j < r.Intn(n+1); j++ {
			ops = append(ops, g.vote(r.Intn(n), pick(c, pal)))
		}
		g.emitSeq("boundary", seqIn{n, g.withQueries(ops, []float64{0, 0.3}[r.Intn(2)])})
	}
	// 4. many distinct decisions, then re-votes: counters are removed from the middle
	for k := 0; k < c.N(250); k++ {
		n := 2 + r.Intn(9)
		var ops []opIn
		perm := r.Perm(n)
		for j := 0; j < n; j++ {
			ops = append(ops, opIn{I: perm[j], D: j % nDec, TS: 100, H: 10, T: 1})
		}
		for j := 0; j < 2*n+r.Intn(2*n); j++ {
			ops = append(ops, g.vote(r.Intn(n), r.Intn(nDec)))
		}
		// converge on one decision
		if r.Intn(2) == 0 {
			d := r.Intn(nDec)
			for _, i := range r.Perm(n) {
				ops = append(ops, opIn{I: i, D: d, TS: 102, H: 10, T: 1})
			}
			for j := 0; j < n; j++ {
				ops = append(ops, g.vote(r.Intn(n), r.Intn(nDec)))
			}
		}
		g.emitSeq("counter-churn", seqIn{n, g.withQueries(ops, g.qprob())})
	}
	// 5. duplicates, timestamp-only / round-only / type-only differences
	for k := 0; k < c.N(200); k++ {
		n := randN()
		pal := g.palette()
		var ops []opIn
		for j := 0; j < n+r.Intn(2*n+2); j++ {
			o := opIn{I: r.Intn(n), D: pick(c, pal[:2]), TS: 100, H: 10, T: 1}
			ops = append(ops, o)
			switch r.Intn(6) {
			case 0, 1:
				ops = append(ops, o) // exact duplicate
			case 2:
				o.TS++
				ops = append(ops, o)
			case 3:
				o.R++
				ops = append(ops, o)
			case 4:
				o.T = 0
				ops = append(ops, o, o)
			}
		}
		g.emitSeq("duplicates", seqIn{n, g.withQueries(ops, g.qprob())})
	}
	// 6. malformed: indices outside the validator set, empty validator set
	for k := 0; k < c.N(100); k++ {
		n := r.Intn(5)
		var ops []opIn
		for j := 0; j < 2+r.Intn(8); j++ {
			i := r.Intn(n + 3)
			ops = append(ops, g.vote(i, r.Intn(3)))
		}
		g.emitSeq("index-out-of-range", seqIn{n, g.withQueries(ops, 0.3)})
	}

	// 7. thorough tier: every sequence of length <= 6 over n <= 3 validators and 3 decisions
	if c.Tier == "thorough" && !c.OracleOnly {
		total := 0
		for n := 1; n <= 3; n++ {
			cs := choices(n, 3)
			plen := 0
			if n == 2 {
				plen = 2
			}
			if n == 3 {
				plen = 3
			}
			var prefixes [][]opIn
			var build func(p []opIn)
			build = func(p []opIn) {
				if len(p) == plen {
					prefixes = append(prefixes, append([]opIn{}, p...))
					return
				}
				for _, ch := range cs {
					build(append(p, ch))
				}
			}
			build(nil)
			for _, p := range prefixes {
				in := treeIn{N: n, Prefix: p, Depth: 6 - plen, ND: 3}
				coq, msg, failing, nodes := runTree(in, true)
				total += nodes
				var input interface{} = map[string]interface{}{"t": "tree", "v": in}
				if failing != nil {
					input = map[string]interface{}{"t": "seq", "v": *failing}
				}
				c.Emit(hxlib.Case{Kind: fmt.Sprintf("exhaustive-n%d", n), Coq: coq, Input: input,
					Key: fmt.Sprintf("%d|%v", n, p), Nontrivial: true, OracleErr: msg})
			}
		}
		c.Note("exhaustive: every add-sequence of length <= 6 over n in 1..3 and decisions {nil, A, B}: %d tree nodes below the prefixes", total)
	}

	// canaries: wrong observations the model must flag
	c.Emit(hxlib.Case{Kind: "canary", Canary: true, // a decision reported with 1 of 3 votes
		Coq: "(CSeq 3%nat [(Ad 0 1 100 0, Ob true 1 false (Some 1) false 0 [cn 1 1])])"})
	c.Emit(hxlib.Case{Kind: "canary", Canary: true, // replacement that forgot to decrement the old counter
		Coq: "(CSeq 3%nat [(Ad 0 1 100 0, Ob true 1 false None true 0 [cn 1 1]); (Ad 0 2 100 0, Ob true 1 false None true 0 [cn 1 1; cn 2 1])])"})
	c.Emit(hxlib.Case{Kind: "canary", Canary: true, // +2/3 decision given up after a conflicting re-vote
		Coq: "(CSeq 1%nat [(Ad 0 1 100 0, Ob true 1 true (Some 1) false 0 [cn 1 1]); (Ad 0 2 100 0, Ob true 1 true (Some 2) false 0 [cn 2 1])])"})
}

func replay(raw json.RawMessage) string {
	var in struct {
		T string          `json:"t"`
		V json.RawMessage `json:"v"`
	}
	if err := json.Unmarshal(raw, &in); err != nil {
		return "bad replay input: " + err.Error()
	}
	switch in.T {
	case "seq":
		var v seqIn
		if err := json.Unmarshal(in.V, &v); err != nil {
			return "bad replay input: " + err.Error()
		}
		for _, o := range v.Ops {
			if !o.Q && (o.D < 0 || o.D >= nDec) {
				return "bad replay input: decision id out of range"
			}
		}
		return runSeq(v, false).msg
	case "tree":
		var v treeIn
		if err := json.Unmarshal(in.V, &v); err != nil {
			return "bad replay input: " + err.Error()
		}
		_, msg, _, _ := runTree(v, false)
		return msg
	}
	return "unknown case type " + in.T
}

func main() {
	initDecisions()
	hxlib.Main(hxlib.Spec{
		ID: "C04",
		Rule: "operation sequences on newVoteSet(n), n in 1..10 (0..4 for the out-of-range stream): add(index, vote) with votes drawn from a palette of 2-4 of 10 decisions (nil vote, blocks A/B/C, and decisions differing from A only in part-set hash / part count / block id / app data / NTS votes), timestamps 99..102, rounds 0..1, occasionally other height/type, interleaved with cache-filling queries with probability 0/0.15/0.4/0.8; streams: uniformly random, majority-then-revote, exact threshold boundary floor(2n/3)+1 followed by a conflicting re-vote of every validator, counter churn (n distinct decisions then re-votes so counters are swap-removed from the middle), duplicates / timestamp-only / round-only / type-only differences, indices outside the validator set; thorough tier adds every add-sequence of length <= 6 over n <= 3 and 3 decisions as prefix-sharing trees. Observed after EVERY operation: add's return, count, hasOverTwoThirds, reported decision, nil-ness of the part-set id, round, counters. non-trivial = the sequence contains a replacement of an occupied slot, a refusal because the old vote backs a +2/3 decision, or a step at which a decision is reported; distinct = distinct Coq case term",
		Shard: 150,
		Gen:   gen, Replay: replay,
	})
}
