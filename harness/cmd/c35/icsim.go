// c35, second stream: terms produced by the REAL pipeline.  An icsim
// simulator (icon/icsim: the real iiss extension, real transactions, real
// term changes) is driven through whole terms with random SetDelegation /
// SetBond / SetStake / RegisterPRep / UnregisterPRep / DisqualifyPRep /
// commission-rate / missed-vote-penalty activity.  Whenever the platform
// would start a reward calculation on a new (Back2, Reward) pair
// (iiss.updateCalculator), the harness reads that pair back into its own
// Input form (extract), notes whether it is a well-formed term (checkWF — the
// hypothesis of the theorems), runs the real iiss4Reward.Calculate on the very
// same snapshots and emits the case for the model comparison and the direct
// oracle.  A calculation that fails credits nothing (property holds): it is
// counted in a generator note and kept out of the model comparison.
package main

import (
	"fmt"
	"math/big"
	"math/rand"

	"github.com/icon-project/goloop/common"
	"github.com/icon-project/goloop/common/containerdb"
	"github.com/icon-project/goloop/common/intconv"
	"github.com/icon-project/goloop/icon/icmodule"
	"github.com/icon-project/goloop/icon/icsim"
	"github.com/icon-project/goloop/icon/iiss/icobject"
	"github.com/icon-project/goloop/icon/iiss/icreward"
	"github.com/icon-project/goloop/icon/iiss/icstage"
	"github.com/icon-project/goloop/icon/iiss/icstate"
	"github.com/icon-project/goloop/icon/iiss/icutils"
	"github.com/icon-project/goloop/module"
	"verif/harness/hxlib"
)

func keyAddr(key []byte) (module.Address, error) {
	ks, err := containerdb.SplitKeys(key)
	if err != nil {
		return nil, err
	}
	if len(ks) < 2 {
		return nil, fmt.Errorf("short key")
	}
	return common.NewAddress(ks[1])
}

// idChecked maps an address to the small number the model uses; ok=false if the
// address is not of the form the harness can name (then the term is skipped).
func idChecked(a module.Address) (int, bool) {
	if a.IsContract() {
		return 0, false
	}
	id := idOf(a)
	return id, addrOf(id).Equal(a)
}

// extract reads a calculator input (back, base) into the harness's Input form.
// skip != "" : not an IISS-4 term or not expressible (reported as a note).
func extract(back *icstage.Snapshot, base *icreward.Snapshot) (in *Input, skip string) {
	g, err := back.GetGlobal()
	if err != nil || g == nil {
		return nil, "no global"
	}
	if g.GetIISSVersion() != icstate.IISSVersion4 {
		return nil, fmt.Sprintf("iiss version %d", g.GetIISSVersion())
	}
	v3 := g.GetV3()
	in = &Input{
		IGlobal: v3.GetIGlobal().String(),
		RPrep:   v3.GetIPRep().NumInt64(), RWage: v3.GetIWage().NumInt64(),
		RCps: v3.GetICps().NumInt64(), RRelay: v3.GetIRelay().NumInt64(),
		MinBond:  v3.MinBond().String(),
		BR:       g.GetBondRequirement().NumInt64(),
		Elected:  g.GetElectedPRepCount(),
		Limit:    g.GetOffsetLimit(),
		Pipeline: true,
	}
	bad := ""
	id := func(a module.Address) int {
		n, ok := idChecked(a)
		if !ok && bad == "" {
			bad = "address " + a.String() + " has no harness name"
		}
		return n
	}
	dsa, err := base.GetDSA()
	if err != nil {
		return nil, err.Error()
	}
	for it := base.Filter(icreward.VotedKey.Build()); it.Has(); it.Next() {
		o, key, err := it.Get()
		if err != nil {
			return nil, err.Error()
		}
		a, err := keyAddr(key)
		if err != nil {
			return nil, err.Error()
		}
		vd := icreward.ToVoted(o)
		pk, err := base.GetPublicKey(a)
		if err != nil {
			return nil, err.Error()
		}
		in.Voted = append(in.Voted, VotedIn{Addr: id(a), Status: int(vd.Status()), Delegated: vd.Delegated().String(),
			Bonded: vd.Bonded().String(), Rate: vd.CommissionRate().NumInt64(), Pubkey: pk.HasAll(dsa.Mask())})
	}
	for it := base.Filter(icreward.DelegatingKey.Build()); it.Has(); it.Next() {
		o, key, err := it.Get()
		if err != nil {
			return nil, err.Error()
		}
		a, err := keyAddr(key)
		if err != nil {
			return nil, err.Error()
		}
		d := icreward.ToDelegating(o)
		vi := VotingIn{Voter: id(a)}
		for _, x := range d.Delegations {
			vi.Votes = append(vi.Votes, VoteIn{id(x.To()), x.Amount().String()})
		}
		in.Delegating = append(in.Delegating, vi)
	}
	for it := base.Filter(icreward.BondingKey.Build()); it.Has(); it.Next() {
		o, key, err := it.Get()
		if err != nil {
			return nil, err.Error()
		}
		a, err := keyAddr(key)
		if err != nil {
			return nil, err.Error()
		}
		b := icreward.ToBonding(o)
		vi := VotingIn{Voter: id(a)}
		for _, x := range b.Bonds {
			vi.Votes = append(vi.Votes, VoteIn{id(x.To()), x.Amount().String()})
		}
		in.Bonding = append(in.Bonding, vi)
	}
	for it := back.Filter(icstage.EventKey.Build()); it.Has(); it.Next() {
		o, key, err := it.Get()
		if err != nil {
			return nil, err.Error()
		}
		ks, err := containerdb.SplitKeys(key)
		if err != nil || len(ks) < 2 {
			return nil, "event key"
		}
		off := int(intconv.BytesToInt64(ks[1]))
		switch o.(*icobject.Object).Tag().Type() {
		case icstage.TypeEventEnable:
			e := icstage.ToEventEnable(o)
			in.Events = append(in.Events, EventIn{Offset: off, Kind: kEnable, Target: id(e.Target()), Status: int(e.Status())})
		case icstage.TypeEventDelegation, icstage.TypeEventBond:
			e := icstage.ToEventVote(o)
			ev := EventIn{Offset: off, Kind: kDelegate, From: id(e.From())}
			if o.(*icobject.Object).Tag().Type() == icstage.TypeEventBond {
				ev.Kind = kBond
			}
			for _, v := range e.Votes() {
				ev.Votes = append(ev.Votes, VoteIn{id(v.To()), v.Amount().String()})
			}
			in.Events = append(in.Events, ev)
		}
	}
	if bad != "" {
		return nil, bad
	}
	return in, ""
}

// whyNotWF explains the first well-formedness clause a pipeline-produced term breaks.
func whyNotWF(in *Input) string {
	probe := *in
	probe.Events = nil
	if !checkWF(&probe) {
		return "the reward base (Voted / Delegating / Bonding) is not consistent"
	}
	return "the event list is not well-formed (offset order / range / duplicate target)"
}

type simDriver struct {
	r                     *rand.Rand
	env                   *icsim.Env
	sim                   icsim.Simulator
	preps, users, bonders []module.Address
	extra                 []module.Address // users that registered as P-Reps during the run
	commissionInit        map[string]bool
}

func icx(n int64) *big.Int { return icutils.ToLoop(int(n)) }

func (d *simDriver) anyPRep() module.Address {
	all := append(append([]module.Address{}, d.preps...), d.extra...)
	return all[d.r.Intn(len(all))]
}

// randomTxs builds the transactions of one block.
func (d *simDriver) randomTxs() []icsim.Transaction {
	r, sim := d.r, d.sim
	var txs []icsim.Transaction
	n := r.Intn(4)
	for i := 0; i < n; i++ {
		switch r.Intn(12) {
		case 0, 1, 2, 3: // a user re-delegates
			u := d.users[r.Intn(len(d.users))]
			k := r.Intn(4)
			var ds icstate.Delegations
			left := int64(2000)
			seen := map[string]bool{}
			for j := 0; j < k && left > 0; j++ {
				p := d.anyPRep()
				if seen[p.String()] {
					continue
				}
				seen[p.String()] = true
				a := 1 + r.Int63n(left)
				left -= a
				amt := icx(a)
				if r.Intn(3) == 0 {
					amt = new(big.Int).Sub(amt, big.NewInt(r.Int63n(1000000)))
				}
				ds = append(ds, icstate.NewDelegation(common.AddressToPtr(p), amt))
			}
			txs = append(txs, sim.SetDelegation(u, ds))
		case 4, 5: // a bonder changes its bond (only to the P-Rep that lists it)
			i := r.Intn(len(d.bonders))
			var bs icstate.Bonds
			if r.Intn(5) != 0 {
				amt := icx(1 + r.Int63n(2000))
				if r.Intn(3) == 0 {
					amt = new(big.Int).Sub(amt, big.NewInt(r.Int63n(1000000)))
				}
				bs = append(bs, icstate.NewBond(common.AddressToPtr(d.preps[i]), amt))
			}
			txs = append(txs, sim.SetBond(d.bonders[i], bs))
		case 6: // a bonder also delegates what is left of its stake
			i := r.Intn(len(d.bonders))
			txs = append(txs, sim.SetDelegation(d.bonders[i], icstate.Delegations{
				icstate.NewDelegation(common.AddressToPtr(d.anyPRep()), big.NewInt(1+r.Int63n(1000)))}))
		case 7: // a user becomes a P-Rep
			u := d.users[r.Intn(len(d.users))]
			name := fmt.Sprintf("late%d", idOf(u))
			city, country, email, web, det, ep := "c", "KOR", name+"@example.com", "https://"+name+".example.com/", "https://"+name+".example.com/d", name+".example.com:9080"
			txs = append(txs, sim.RegisterPRep(u, &icstate.PRepInfo{City: &city, Country: &country, Name: &name, Email: &email, WebSite: &web, Details: &det, P2PEndpoint: &ep}))
			d.extra = append(d.extra, u)
		case 8: // a P-Rep leaves
			if r.Intn(3) == 0 {
				txs = append(txs, sim.UnregisterPRep(d.anyPRep()))
			}
		case 9:
			if r.Intn(3) == 0 {
				txs = append(txs, sim.DisqualifyPRep(d.env.Governance(), d.anyPRep()))
			}
		case 10: // commission rates
			p := d.anyPRep()
			if !d.commissionInit[p.String()] {
				d.commissionInit[p.String()] = true
				txs = append(txs, sim.InitCommissionRate(p, icmodule.Rate(r.Intn(5001)), icmodule.Rate(5000+r.Intn(5001)), icmodule.Rate(1+r.Intn(1000))))
			} else {
				txs = append(txs, sim.SetCommissionRate(p, icmodule.Rate(r.Intn(10001))))
			}
		default: // stake changes of a user (may fail when votes exceed the new stake)
			u := d.users[r.Intn(len(d.users))]
			txs = append(txs, sim.SetStake(u, icx(1500+r.Int63n(1500))))
		}
	}
	return txs
}

// genIcsim drives one simulator for nTerms terms and emits every calculator input it meets.
func genIcsim(c *hxlib.Ctx, label string, nTerms int) {
	r := c.Sub("icsim-"+label, nTerms)
	termPeriod := int64(8 + r.Intn(25))
	mainN := int64(3 + r.Intn(4))
	subN := int64(2 + r.Intn(5))
	cfg := icsim.NewSimConfigWithParams(map[icsim.SimConfigOption]interface{}{
		icsim.SCOMainPReps:                                    mainN,
		icsim.SCOSubPReps:                                     subN,
		icsim.SCOExtraMainPReps:                               int64(0),
		icsim.SCOTermPeriod:                                   termPeriod,
		icsim.SCOValidationFailurePenaltyCondition:            int64(3),
		icsim.SCOAccumulatedValidationFailurePenaltyCondition: int64(2),
	})
	// With the simulator's default Rrep = 0 the IISS-2/3 calculator (iiss3.go calculateVotingReward,
	// early return on a zero multiplier) never writes the pre-IISS-4 delegations into
	// icreward.Delegating, and the base handed to IISS-4 is inconsistent from the start; a
	// chain with a positive voter reward rate has no such history.
	cfg.Rrep = 1200
	var env *icsim.Env
	var err error
	if p := hxlib.Catch(func() {
		env, err = icsim.NewEnv(cfg, icmodule.ValueToRevision(icmodule.LatestRevision))
	}); p != "" || err != nil || env == nil {
		c.Note("icsim %s: simulator set-up failed: %v %s", label, err, p)
		return
	}
	d := &simDriver{r: r, env: env, sim: env.Simulator(), commissionInit: map[string]bool{}}
	d.preps, d.users, d.bonders = icsim.VerifC35EnvAccounts(env)
	sim := d.sim
	seen := map[string]bool{}
	emitted := 0
	failedCalcs := 0
	observe := func() {
		back, base := icsim.VerifC35CalcInputs(sim)
		if back == nil || base == nil {
			return
		}
		key := string(back.Bytes()) + "|" + string(base.Bytes())
		if seen[key] {
			return
		}
		seen[key] = true
		in, skip := extract(back, base)
		if in == nil {
			if skip != "no global" {
				c.Note("icsim %s: calculator input at height %d skipped: %s", label, sim.BlockHeight(), skip)
			}
			return
		}
		o := &outcome{real: true}
		calcOn(o, back, base, in.Limit)
		if o.setupErr != "" {
			c.Note("icsim %s: %s", label, o.setupErr)
			return
		}
		cs := hxlib.Case{Kind: "term-icsim", Input: in, Nontrivial: nontrivial(in, o), OracleErr: oracle(in, o)}
		wf := checkWF(in)
		if !wf {
			c.Note("icsim %s: calculator input at height %d is not a well-formed term (%s); only the budget inequality is checked on it",
				label, sim.BlockHeight(), whyNotWF(in))
		}
		switch {
		case o.calcErr != nil && wf:
			// A failure on a well-formed pipeline term comes from a part of Calculate the model does not
			// cover (processClaim / processBTP / processCommissionRate, e.g. "Non PRep set the commission
			// rate", docs/notes/C35.md).  Nothing is credited, so the property holds; the term is counted
			// here and takes no part in the model comparison.
			cs.Key = key
			cs.Nontrivial = false
			failedCalcs++
			c.Note("icsim %s: reward calculation failed at height %d, nothing credited (term kept out of the model comparison): %v",
				label, sim.BlockHeight(), o.calcErr)
		case !wf:
			// outside the model's stated domain (e.g. duplicate targets): budget check only
			cs.Key = key
		case !c.OracleOnly:
			cs.Coq = coqCase(in, o, obsTweak{})
		default:
			cs.Key = key
		}
		c.Emit(cs)
		emitted++
	}
	// a wage fund and a minimum bond (they take effect from the next term)
	if p := hxlib.Catch(func() {
		a := int64(5000 + r.Intn(4000))
		w := int64(r.Intn(int(10000 - a)))
		_, _ = sim.GoByTransaction(nil,
			sim.SetRewardFundAllocation2(env.Governance(), map[icstate.RFundKey]icmodule.Rate{
				icstate.KeyIprep: icmodule.Rate(a), icstate.KeyIwage: icmodule.Rate(w),
				icstate.KeyIcps: icmodule.Rate(10000 - a - w), icstate.KeyIrelay: 0}),
			sim.SetMinimumBond(env.Governance(), icx(int64(500+r.Intn(2000)))))
	}); p != "" {
		c.Note("icsim %s: fund set-up panicked: %s", label, p)
	}
	observe()
	blocks := int64(nTerms) * termPeriod
	for b := int64(0); b < blocks; b++ {
		var csi module.ConsensusInfo
		if r.Intn(6) == 0 { // some validators miss the vote: validation-failure penalties, jail, slashing
			nv := len(sim.ValidatorList())
			var nils []int
			for j := 0; j < nv; j++ {
				if r.Intn(4) == 0 {
					nils = append(nils, j)
				}
			}
			csi = icsim.NewConsensusInfoBySim(sim, nils...)
		} else if r.Intn(2) == 0 {
			csi = icsim.NewConsensusInfoBySim(sim)
		}
		txs := d.randomTxs()
		var gerr error
		if p := hxlib.Catch(func() { _, gerr = sim.GoByTransaction(csi, txs...) }); p != "" || gerr != nil {
			c.Note("icsim %s: block %d failed: %v %s", label, sim.BlockHeight()+1, gerr, p)
			break
		}
		observe()
	}
	// let the last term's input appear
	for k := int64(0); k < 2*termPeriod+2; k++ {
		var gerr error
		if p := hxlib.Catch(func() { gerr = sim.Go(nil, 1) }); p != "" || gerr != nil {
			break
		}
		observe()
	}
	if emitted == 0 {
		c.Note("icsim %s: no IISS-4 calculator input observed", label)
	}
	if failedCalcs > 0 {
		c.Note("icsim %s: %d of %d pipeline terms had a failing calculation", label, failedCalcs, emitted)
	}
}
