// c35: IISS-4 reward calculation (icon/iiss/calculator) vs Model_Reward.
//
// Every case is one whole term: a reward fund, a P-Rep set (icreward.Voted),
// the voters' delegations/bonds (icreward.Delegating/Bonding) and the events
// of the term (icstage EventEnable / EventDelegation / EventBond) are written
// into real icstage / icreward states, the real iiss4Reward.Calculate() runs
// on them, and every I-Score credit (UpdateIScore call), every P-Rep's
// accumulated values, commission, voter reward and wage, and the period
// budgets are recorded.
package main

import (
	"encoding/json"
	"fmt"
	"io"
	"math/big"
	"math/rand"
	"sort"

	"github.com/icon-project/goloop/common"
	"github.com/icon-project/goloop/common/db"
	"github.com/icon-project/goloop/common/log"
	"github.com/icon-project/goloop/icon/icmodule"
	"github.com/icon-project/goloop/icon/iiss/calculator"
	"github.com/icon-project/goloop/icon/iiss/icreward"
	"github.com/icon-project/goloop/icon/iiss/icstage"
	"github.com/icon-project/goloop/icon/iiss/icstate"
	"github.com/icon-project/goloop/module"
	"verif/harness/hxlib"
)

// ---------------------------------------------------------------- input

type VoteIn struct {
	To  int    `json:"to"`
	Amt string `json:"amt"`
}
type VotedIn struct {
	Addr      int    `json:"addr"`
	Status    int    `json:"status"`
	Delegated string `json:"delegated"`
	Bonded    string `json:"bonded"`
	Rate      int64  `json:"rate"`
	Pubkey    bool   `json:"pubkey"`
}
type VotingIn struct {
	Voter int      `json:"voter"`
	Votes []VoteIn `json:"votes"`
}

const (
	kEnable   = 0
	kBond     = 1 // calculator.vtBond
	kDelegate = 2 // calculator.vtDelegate
)

type EventIn struct {
	Offset int      `json:"offset"`
	Kind   int      `json:"kind"`
	Target int      `json:"target,omitempty"`
	Status int      `json:"status,omitempty"`
	From   int      `json:"from,omitempty"`
	Votes  []VoteIn `json:"votes,omitempty"`
}
type Input struct {
	IGlobal    string     `json:"iglobal"`
	RPrep      int64      `json:"rprep"`
	RWage      int64      `json:"rwage"`
	RCps       int64      `json:"rcps"`
	RRelay     int64      `json:"rrelay"`
	MinBond    string     `json:"minbond"`
	BR         int64      `json:"br"`
	Elected    int        `json:"elected"`
	Limit      int        `json:"limit"`
	Voted      []VotedIn  `json:"voted"`
	Delegating []VotingIn `json:"delegating"`
	Bonding    []VotingIn `json:"bonding"`
	Events     []EventIn  `json:"events"`
	// Pipeline: this term was read back from an icsim run (its well-formedness is then an obligation
	// of the code base, not of the generator).
	Pipeline bool `json:"pipeline,omitempty"`
}

func bi(s string) *big.Int {
	v, ok := new(big.Int).SetString(s, 10)
	if !ok {
		return new(big.Int)
	}
	return v
}

func addrOf(id int) *common.Address {
	b := make([]byte, 20)
	b[16] = byte(id >> 24)
	b[17] = byte(id >> 16)
	b[18] = byte(id >> 8)
	b[19] = byte(id)
	return common.NewAddressWithTypeAndID(false, b)
}

func idOf(a module.Address) int {
	b := a.ID()
	return int(b[16])<<24 | int(b[17])<<16 | int(b[18])<<8 | int(b[19])
}

// ---------------------------------------------------------------- running the real code

type credit struct {
	Addr int
	Type calculator.RewardType
	Amt  *big.Int
}

type calcCtx struct {
	back    *icstage.Snapshot
	base    *icreward.Snapshot
	temp    *icreward.State
	stats   *calculator.Stats
	log     log.Logger
	credits []credit
}

func (c *calcCtx) Back() *icstage.Snapshot  { return c.back }
func (c *calcCtx) Base() *icreward.Snapshot { return c.base }
func (c *calcCtx) Temp() *icreward.State    { return c.temp }
func (c *calcCtx) Stats() *calculator.Stats { return c.stats }
func (c *calcCtx) Logger() log.Logger       { return c.log }

// UpdateIScore is calculator.UpdateIScore plus a record of the call.
func (c *calcCtx) UpdateIScore(addr module.Address, reward *big.Int, t calculator.RewardType) error {
	iScore, err := c.temp.GetIScore(addr)
	if err != nil {
		return err
	}
	nIScore := iScore.Added(reward)
	if err = c.temp.SetIScore(addr, nIScore); err != nil {
		return err
	}
	c.stats.IncreaseReward(t, reward)
	c.credits = append(c.credits, credit{idOf(addr), t, new(big.Int).Set(reward)})
	return nil
}

var quiet log.Logger

func quietLogger() log.Logger {
	if quiet == nil {
		l := log.New()
		l.SetOutput(io.Discard)
		l.SetLevel(log.PanicLevel)
		l.SetConsoleLevel(log.PanicLevel)
		quiet = l
	}
	return quiet
}

type outcome struct {
	setupErr string
	panicked string
	calcErr  error
	res      *calculator.VerifC35Result
	credits  []credit
	tReward  *big.Int         // fundToPeriodIScore(Iprep amount, period)
	minWage  *big.Int         // fundToPeriodIScore(Iwage amount, period)
	iscore   map[int]*big.Int // I-Score added to temp by the run
	real     bool             // the snapshots come from the simulator (claims etc. may be present)
}

func votesOf(vs []VoteIn) icstage.VoteList {
	var vl icstage.VoteList
	for _, v := range vs {
		vl = append(vl, icstage.NewVote(addrOf(v.To), bi(v.Amt)))
	}
	return vl
}

func run(in *Input) *outcome {
	o := &outcome{}
	database := db.NewMapDB()
	stage := icstage.NewState(database)
	reward := icreward.NewState(database, nil)
	fail := func(err error) bool {
		if err != nil && o.setupErr == "" {
			o.setupErr = err.Error()
		}
		return err != nil
	}
	rFund := icstate.NewRewardFund(icstate.RFVersion2)
	if fail(rFund.SetIGlobal(bi(in.IGlobal))) {
		return o
	}
	if fail(rFund.SetAllocation(map[icstate.RFundKey]icmodule.Rate{
		icstate.KeyIprep:  icmodule.Rate(in.RPrep),
		icstate.KeyIwage:  icmodule.Rate(in.RWage),
		icstate.KeyIcps:   icmodule.Rate(in.RCps),
		icstate.KeyIrelay: icmodule.Rate(in.RRelay),
	})) {
		return o
	}
	if fail(stage.AddGlobalV3(0, 0, in.Limit, in.Elected, icmodule.Rate(in.BR), rFund, bi(in.MinBond))) {
		return o
	}
	const dsaIndex = 1
	if fail(reward.SetDSA(icreward.NewDSA().Updated(dsaIndex))) {
		return o
	}
	for _, v := range in.Voted {
		vd := icreward.NewVotedV2()
		vd.SetStatus(icmodule.EnableStatus(v.Status))
		vd.SetDelegated(bi(v.Delegated))
		vd.SetBonded(bi(v.Bonded))
		vd.SetCommissionRate(icmodule.Rate(v.Rate))
		if vd.IsEmpty() {
			o.setupErr = fmt.Sprintf("generator produced an empty Voted for %d (would not be stored)", v.Addr)
			return o
		}
		if fail(reward.SetVoted(addrOf(v.Addr), vd)) {
			return o
		}
		idx := 0
		if v.Pubkey {
			idx = dsaIndex
		}
		if fail(reward.SetPublicKey(addrOf(v.Addr), icreward.NewPublicKey().Updated(idx))) {
			return o
		}
	}
	for _, d := range in.Delegating {
		dg := icreward.NewDelegating()
		for _, v := range d.Votes {
			dg.Delegations = append(dg.Delegations, icstate.NewDelegation(addrOf(v.To), bi(v.Amt)))
		}
		if fail(reward.SetDelegating(addrOf(d.Voter), dg)) {
			return o
		}
	}
	for _, d := range in.Bonding {
		bg := icreward.NewBonding()
		for _, v := range d.Votes {
			bg.Bonds = append(bg.Bonds, icstate.NewBond(addrOf(v.To), bi(v.Amt)))
		}
		if fail(reward.SetBonding(addrOf(d.Voter), bg)) {
			return o
		}
	}
	for _, e := range in.Events {
		var err error
		switch e.Kind {
		case kEnable:
			_, err = stage.AddEventEnable(e.Offset, addrOf(e.Target), icmodule.EnableStatus(e.Status))
		case kBond:
			_, _, err = stage.AddEventBond(e.Offset, addrOf(e.From), votesOf(e.Votes))
		case kDelegate:
			_, _, err = stage.AddEventDelegation(e.Offset, addrOf(e.From), votesOf(e.Votes))
		}
		if fail(err) {
			return o
		}
	}
	calcOn(o, stage.GetSnapshot(), reward.GetSnapshot(), in.Limit)
	return o
}

// calcOn runs the real calculation on (back, base) and fills the outcome.
func calcOn(o *outcome, back *icstage.Snapshot, base *icreward.Snapshot, limit int) {
	fail := func(err error) bool {
		if err != nil && o.setupErr == "" {
			o.setupErr = err.Error()
		}
		return err != nil
	}
	ctx := &calcCtx{
		back:  back,
		base:  base,
		temp:  icreward.NewStateFromSnapshot(base),
		stats: calculator.NewStats(),
		log:   quietLogger(),
	}
	g, err := ctx.back.GetGlobal()
	if fail(err) {
		return
	}
	period := int64(limit + 1)
	o.tReward = calculator.VerifC35FundToPeriodIScore(g.GetV3().GetRewardFundAmountByKey(icstate.KeyIprep), period)
	o.minWage = calculator.VerifC35FundToPeriodIScore(g.GetV3().GetRewardFundAmountByKey(icstate.KeyIwage), period)
	o.panicked = hxlib.Catch(func() {
		o.res, o.calcErr = calculator.VerifC35Calculate(ctx)
	})
	o.credits = ctx.credits
	o.iscore = map[int]*big.Int{}
	if o.panicked == "" && o.calcErr == nil {
		for _, c := range ctx.credits {
			if _, ok := o.iscore[c.Addr]; ok {
				continue
			}
			is, err := ctx.temp.GetIScore(addrOf(c.Addr))
			if fail(err) {
				return
			}
			v := new(big.Int)
			if is != nil {
				v.Set(is.Value())
			}
			// what the account held before this calculation (the harness's own terms start from zero)
			was, err := icreward.NewStateFromSnapshot(base).GetIScore(addrOf(c.Addr))
			if fail(err) {
				return
			}
			if was != nil {
				v.Sub(v, was.Value())
			}
			o.iscore[c.Addr] = v
		}
	}
}

// ---------------------------------------------------------------- well-formedness (what the real pipeline guarantees)

// checkWF re-derives the generator's claim from the input alone:
//   - rates within 0..10000, amounts non-negative, offsets non-decreasing within 0..limit;
//   - no address twice in Voted / Delegating / Bonding, no target twice in one vote list,
//     stored vote lists non-empty with positive amounts;
//   - every stored P-Rep's delegated (bonded) equals the sum of the voters' delegations (bonds) to it,
//     and nobody holds votes for an address without a Voted entry.
//
// (Running balances never going negative is NOT part of it: the calculation
// itself fails on such a term, see VoteEvents.UpdateVoting.)
func checkWF(in *Input) bool {
	okRate := func(r int64) bool { return r >= 0 && r <= 10000 }
	if !okRate(in.RPrep) || !okRate(in.RWage) || !okRate(in.BR) || in.Limit < 0 || in.Elected < 0 {
		return false
	}
	if bi(in.IGlobal).Sign() < 0 || bi(in.MinBond).Sign() < 0 {
		return false
	}
	seen := map[int]bool{}
	for _, v := range in.Voted {
		if seen[v.Addr] || !okRate(v.Rate) || bi(v.Delegated).Sign() < 0 || bi(v.Bonded).Sign() < 0 {
			return false
		}
		seen[v.Addr] = true
	}
	sumD := map[int]*big.Int{}
	sumB := map[int]*big.Int{}
	chk := func(l []VotingIn, sum map[int]*big.Int) bool {
		vs := map[int]bool{}
		for _, d := range l {
			if vs[d.Voter] || len(d.Votes) == 0 {
				return false
			}
			vs[d.Voter] = true
			ts := map[int]bool{}
			for _, v := range d.Votes {
				if ts[v.To] || bi(v.Amt).Sign() <= 0 {
					return false
				}
				ts[v.To] = true
				if sum[v.To] == nil {
					sum[v.To] = new(big.Int)
				}
				sum[v.To].Add(sum[v.To], bi(v.Amt))
			}
		}
		return true
	}
	if !chk(in.Delegating, sumD) || !chk(in.Bonding, sumB) {
		return false
	}
	get := func(m map[int]*big.Int, k int) *big.Int {
		if m[k] == nil {
			return new(big.Int)
		}
		return m[k]
	}
	for _, v := range in.Voted {
		if get(sumD, v.Addr).Cmp(bi(v.Delegated)) != 0 || get(sumB, v.Addr).Cmp(bi(v.Bonded)) != 0 {
			return false
		}
	}
	// an address without a Voted entry has no votes (an empty Voted is not stored, a non-empty one is)
	for _, m := range []map[int]*big.Int{sumD, sumB} {
		for k := range m {
			if !seen[k] {
				return false
			}
		}
	}
	last := 0
	for _, e := range in.Events {
		if e.Offset < last || e.Offset > in.Limit {
			return false
		}
		last = e.Offset
		ts := map[int]bool{}
		for _, v := range e.Votes {
			if ts[v.To] {
				return false
			}
			ts[v.To] = true
		}
	}
	return true
}

// ---------------------------------------------------------------- direct oracle

func floorDiv(a, b *big.Int) *big.Int {
	// mathematical floor for b > 0
	q, m := new(big.Int).QuoRem(a, b, new(big.Int))
	if m.Sign() < 0 {
		q.Sub(q, big.NewInt(1))
	}
	return q
}

// periodIScore is the harness's own statement of the budget: the monthly fund
// `amount` (loop) scaled to `period` blocks and converted to I-Score.
func periodIScore(amount *big.Int, period int64) *big.Int {
	v := new(big.Int).Mul(amount, big.NewInt(period))
	v.Mul(v, big.NewInt(1000))
	return floorDiv(v, big.NewInt(1296000))
}

func rateOf(amount *big.Int, rate int64) *big.Int {
	v := new(big.Int).Mul(amount, big.NewInt(rate))
	return floorDiv(v, big.NewInt(10000))
}

// accVotes computes, from the input alone, every voter's accumulated votes per P-Rep:
// initial votes count for limit+1 blocks, an event at offset o for limit-o blocks.
func accVotes(in *Input) map[int]map[int]*big.Int {
	av := map[int]map[int]*big.Int{}
	add := func(v, p int, amt *big.Int, blocks int64) {
		if av[v] == nil {
			av[v] = map[int]*big.Int{}
		}
		if av[v][p] == nil {
			av[v][p] = new(big.Int)
		}
		av[v][p].Add(av[v][p], new(big.Int).Mul(amt, big.NewInt(blocks)))
	}
	for _, l := range [][]VotingIn{in.Delegating, in.Bonding} {
		for _, d := range l {
			for _, v := range d.Votes {
				add(d.Voter, v.To, bi(v.Amt), int64(in.Limit+1))
			}
		}
	}
	for _, e := range in.Events {
		if e.Kind == kEnable {
			continue
		}
		for _, v := range e.Votes {
			add(e.From, v.To, bi(v.Amt), int64(in.Limit-e.Offset))
		}
	}
	return av
}

// budgetOnly is the bare property: everything credited for the term <= the term's budget.
func budgetOnly(in *Input, o *outcome) string {
	if o.panicked != "" || o.calcErr != nil || o.res == nil {
		return "" // nothing credited
	}
	period := int64(in.Limit + 1)
	budget := new(big.Int).Add(periodIScore(rateOf(bi(in.IGlobal), in.RPrep), period),
		periodIScore(rateOf(bi(in.IGlobal), in.RWage), period))
	total := new(big.Int)
	for _, c := range o.credits {
		total.Add(total, c.Amt)
	}
	if total.Cmp(budget) > 0 {
		return fmt.Sprintf("total I-Score credited %s exceeds the term budget %s", total, budget)
	}
	return ""
}

func oracle(in *Input, o *outcome) string {
	if o.setupErr != "" {
		return "" // reported as a generator note, not a property violation
	}
	if !checkWF(in) {
		if in.Pipeline {
			// A term read back from the real pipeline is a real voting history even if it does not meet
			// the theorems' hypothesis: the property itself (total <= budget) is still checked on it.
			return budgetOnly(in, o)
		}
		return ""
	}
	if o.panicked != "" {
		return "reward calculation panicked on a well-formed term: " + o.panicked
	}
	if o.calcErr != nil || o.res == nil {
		// A failed calculation credits nothing: the budget inequality holds trivially.  (For pipeline
		// terms the failure is counted in a generator note, see genIcsim.)
		return ""
	}
	period := int64(in.Limit + 1)
	budgetPrep := periodIScore(rateOf(bi(in.IGlobal), in.RPrep), period)
	budgetWage := periodIScore(rateOf(bi(in.IGlobal), in.RWage), period)
	budget := new(big.Int).Add(budgetPrep, budgetWage)

	total := new(big.Int)
	voterCred := map[int]*big.Int{}
	prepCred := map[int]*big.Int{}
	sumVoter := new(big.Int)
	for _, c := range o.credits {
		if c.Amt.Sign() < 0 {
			return fmt.Sprintf("negative I-Score %s credited to %d", c.Amt, c.Addr)
		}
		total.Add(total, c.Amt)
		m := voterCred
		if c.Type == calculator.RTPRep {
			m = prepCred
		} else {
			sumVoter.Add(sumVoter, c.Amt)
		}
		if m[c.Addr] == nil {
			m[c.Addr] = new(big.Int)
		}
		m[c.Addr].Add(m[c.Addr], c.Amt)
	}
	if total.Cmp(budget) > 0 {
		return fmt.Sprintf("total I-Score credited %s exceeds the term budget %s (Iprep %s + Iwage %s)", total, budget, budgetPrep, budgetWage)
	}
	// what ended up in the reward state equals what was credited (no claims in the harness's own terms)
	for a, v := range o.iscore {
		if o.real {
			break
		}
		exp := new(big.Int)
		if prepCred[a] != nil {
			exp.Add(exp, prepCred[a])
		}
		if voterCred[a] != nil {
			exp.Add(exp, voterCred[a])
		}
		if exp.Cmp(v) != 0 {
			return fmt.Sprintf("I-Score of %d in the reward state is %s, credited %s", a, v, exp)
		}
	}
	sumComm, sumWage := new(big.Int), new(big.Int)
	prepByID := map[int]*calculator.VerifC35PRep{}
	rewardable := func(p *calculator.VerifC35PRep) bool {
		return p.Status == int(icmodule.ESEnable) && p.Rank < in.Elected && p.AccumulatedPower.Sign() == 1
	}
	inRank := map[int]bool{}
	for i, a := range o.res.Rank {
		if i < in.Elected {
			inRank[idOf(a)] = true
		}
	}
	wagePer := new(big.Int)
	if in.Elected > 0 {
		wagePer = floorDiv(budgetWage, big.NewInt(int64(in.Elected)))
	}
	for i := range o.res.PReps {
		p := &o.res.PReps[i]
		id := idOf(p.Owner)
		prepByID[id] = p
		sumComm.Add(sumComm, p.Commission)
		sumWage.Add(sumWage, p.Wage)
		got := prepCred[id]
		if got == nil {
			got = new(big.Int)
		}
		if in.Elected > 0 && got.Cmp(new(big.Int).Add(p.Commission, p.Wage)) != 0 {
			return fmt.Sprintf("P-Rep %d credited %s, commission %s + wage %s", id, got, p.Commission, p.Wage)
		}
		if p.Commission.Sign() < 0 || p.VoterReward.Sign() < 0 || p.Wage.Sign() < 0 {
			return fmt.Sprintf("P-Rep %d has a negative reward part (commission %s, voter reward %s, wage %s)", id, p.Commission, p.VoterReward, p.Wage)
		}
		if rewardable(p) && inRank[id] {
			// commission split: commission + voter part = the P-Rep's power share of the budget
			pr := floorDiv(new(big.Int).Mul(budgetPrep, p.AccumulatedPower), o.res.TotalAccumulatedPower)
			comm := rateOf(pr, p.CommissionRate)
			if p.Commission.Cmp(comm) != 0 || new(big.Int).Add(p.Commission, p.VoterReward).Cmp(pr) != 0 {
				return fmt.Sprintf("P-Rep %d: commission %s + voter reward %s is not the split (rate %d) of its power share %s", id, p.Commission, p.VoterReward, p.CommissionRate, pr)
			}
			if p.Wage.Sign() != 0 && (p.Bonded.Cmp(bi(in.MinBond)) < 0 || p.Wage.Cmp(wagePer) != 0) {
				return fmt.Sprintf("P-Rep %d (bonded %s, minimum bond %s) is paid wage %s, wage per P-Rep %s", id, p.Bonded, in.MinBond, p.Wage, wagePer)
			}
		} else if p.Commission.Sign() != 0 || p.VoterReward.Sign() != 0 || p.Wage.Sign() != 0 {
			return fmt.Sprintf("P-Rep %d is not rewardable but has commission %s, voter reward %s, wage %s", id, p.Commission, p.VoterReward, p.Wage)
		}
	}
	if new(big.Int).Add(sumComm, sumVoter).Cmp(budgetPrep) > 0 {
		return fmt.Sprintf("commissions %s + voter rewards %s exceed the Iprep period budget %s", sumComm, sumVoter, budgetPrep)
	}
	if sumWage.Cmp(budgetWage) > 0 {
		return fmt.Sprintf("wages %s exceed the Iwage period budget %s", sumWage, budgetWage)
	}
	if in.Elected == 0 {
		return ""
	}
	// voter share: exact formula, and the shares of one P-Rep's voters stay within its voter reward
	av := accVotes(in)
	sumShares := map[int]*big.Int{}
	sumAV := map[int]*big.Int{}
	for v, m := range av {
		exp := new(big.Int)
		for pid, a := range m {
			if a.Sign() < 0 {
				return "" // not a history the pipeline produces (caught by UpdateVoting normally)
			}
			if sumAV[pid] == nil {
				sumAV[pid] = new(big.Int)
			}
			sumAV[pid].Add(sumAV[pid], a)
			p := prepByID[pid]
			if p == nil || !rewardable(p) {
				continue
			}
			if p.AccumulatedVoted.Sign() <= 0 {
				return fmt.Sprintf("rewardable P-Rep %d has accumulated votes %s", pid, p.AccumulatedVoted)
			}
			sh := floorDiv(new(big.Int).Mul(a, p.VoterReward), p.AccumulatedVoted)
			exp.Add(exp, sh)
			if sumShares[pid] == nil {
				sumShares[pid] = new(big.Int)
			}
			sumShares[pid].Add(sumShares[pid], sh)
		}
		got := voterCred[v]
		if got == nil {
			got = new(big.Int)
		}
		if got.Cmp(exp) != 0 {
			return fmt.Sprintf("voter %d credited %s, its vote-weighted share is %s", v, got, exp)
		}
	}
	for v := range voterCred {
		if av[v] == nil && voterCred[v].Sign() != 0 {
			return fmt.Sprintf("%d never voted but is credited a voter reward %s", v, voterCred[v])
		}
	}
	for pid, s := range sumShares {
		if s.Cmp(prepByID[pid].VoterReward) > 0 {
			return fmt.Sprintf("voters of P-Rep %d are credited %s in total, its voter reward is %s", pid, s, prepByID[pid].VoterReward)
		}
	}
	for id, p := range prepByID {
		if !inRank[id] {
			continue
		}
		s := sumAV[id]
		if s == nil {
			s = new(big.Int)
		}
		if s.Cmp(p.AccumulatedVoted) != 0 {
			return fmt.Sprintf("P-Rep %d: accumulated votes %s differ from the sum of its voters' accumulated votes %s", id, p.AccumulatedVoted, s)
		}
	}
	return ""
}

// ---------------------------------------------------------------- Coq printing

func cz(v *big.Int) string { return "(" + v.String() + ")%Z" }
func czs(s string) string  { return "(" + bi(s).String() + ")%Z" }

func coqVotes(vs []VoteIn) string {
	items := make([]string, len(vs))
	for i, v := range vs {
		items[i] = fmt.Sprintf("(%d, %s)", v.To, czs(v.Amt))
	}
	return hxlib.CoqList(items)
}

func coqVoting(l []VotingIn) string {
	items := make([]string, len(l))
	for i, d := range l {
		items[i] = fmt.Sprintf("(%d, %s)", d.Voter, coqVotes(d.Votes))
	}
	return hxlib.CoqList(items)
}

func coqInput(in *Input) string {
	var vd, ev []string
	for _, v := range in.Voted {
		vd = append(vd, fmt.Sprintf("mkVoted %d %s %s %s %s %s", v.Addr, hxlib.CoqZ(v.Status), czs(v.Delegated), czs(v.Bonded), hxlib.CoqZ(v.Rate), hxlib.CoqBool(v.Pubkey)))
	}
	for _, e := range in.Events {
		switch e.Kind {
		case kEnable:
			ev = append(ev, fmt.Sprintf("(%s, EEnable %d %s)", hxlib.CoqZ(e.Offset), e.Target, hxlib.CoqZ(e.Status)))
		case kBond:
			ev = append(ev, fmt.Sprintf("(%s, EVote VBond %d %s)", hxlib.CoqZ(e.Offset), e.From, coqVotes(e.Votes)))
		case kDelegate:
			ev = append(ev, fmt.Sprintf("(%s, EVote VDelegate %d %s)", hxlib.CoqZ(e.Offset), e.From, coqVotes(e.Votes)))
		}
	}
	return fmt.Sprintf("(mkInput %s %s %s %s %s %s %s\n %s\n %s\n %s\n %s)",
		czs(in.IGlobal), hxlib.CoqZ(in.RPrep), hxlib.CoqZ(in.RWage), czs(in.MinBond), hxlib.CoqZ(in.BR),
		hxlib.CoqZ(in.Elected), hxlib.CoqZ(in.Limit),
		hxlib.CoqList(vd), coqVoting(in.Delegating), coqVoting(in.Bonding), hxlib.CoqList(ev))
}

type obsTweak struct {
	voterPlus int // add to the first non-zero voter credit (canary)
	wagePlus  int
	flipWF    bool
}

func coqCase(in *Input, o *outcome, tw obsTweak) string {
	wf := checkWF(in) != tw.flipWF
	var obs string
	switch {
	case o.panicked != "":
		obs = "OPanic"
	case o.calcErr != nil || o.res == nil:
		obs = "OError"
	default:
		var ps, rk, pc, vc []string
		for i := range o.res.PReps {
			p := &o.res.PReps[i]
			wage := new(big.Int).Set(p.Wage)
			if tw.wagePlus != 0 && i == 0 {
				wage.Add(wage, big.NewInt(int64(tw.wagePlus)))
			}
			ps = append(ps, fmt.Sprintf("mkPO %d %s %s %s %s %s %s %s %s %s %s %s", idOf(p.Owner), hxlib.CoqZ(p.Status),
				cz(p.Delegated), cz(p.Bonded), cz(p.Power), hxlib.CoqZ(p.Rank), cz(p.AccumulatedVoted), cz(p.AccumulatedPower),
				cz(p.Commission), cz(p.VoterReward), cz(wage), hxlib.CoqBool(p.Rewardable)))
		}
		for _, a := range o.res.Rank {
			rk = append(rk, fmt.Sprint(idOf(a)))
		}
		cs := append([]credit(nil), o.credits...)
		sort.SliceStable(cs, func(i, j int) bool { return cs[i].Addr < cs[j].Addr })
		tweaked := false
		for _, c := range cs {
			amt := c.Amt
			if c.Type == calculator.RTPRep {
				pc = append(pc, fmt.Sprintf("(%d, %s)", c.Addr, cz(amt)))
			} else {
				if tw.voterPlus != 0 && !tweaked {
					amt = new(big.Int).Add(amt, big.NewInt(int64(tw.voterPlus)))
					tweaked = true
				}
				vc = append(vc, fmt.Sprintf("(%d, %s)", c.Addr, cz(amt)))
			}
		}
		obs = fmt.Sprintf("(OOk (mkObs %s %s %s\n %s\n %s\n %s\n %s))", cz(o.tReward), cz(o.minWage), cz(o.res.TotalAccumulatedPower),
			hxlib.CoqList(ps), hxlib.CoqList(rk), hxlib.CoqList(pc), hxlib.CoqList(vc))
	}
	return fmt.Sprintf("(CTerm %s %s %s)", coqInput(in), hxlib.CoqBool(wf), obs)
}

// ---------------------------------------------------------------- generator

var e18 = new(big.Int).Exp(big.NewInt(10), big.NewInt(18), nil)

type gen struct {
	r *rand.Rand
}

func (g *gen) amount() *big.Int {
	r := g.r
	switch r.Intn(6) {
	case 0:
		return big.NewInt(int64(1 + r.Intn(9)))
	case 1:
		return big.NewInt(int64(1 + r.Intn(100000)))
	case 2: // whole ICX
		return new(big.Int).Mul(big.NewInt(int64(1+r.Intn(1000000))), e18)
	case 3: // large stake with dust
		v := new(big.Int).Mul(big.NewInt(int64(1+r.Intn(9000000))), e18)
		return v.Add(v, big.NewInt(r.Int63n(1000000000)))
	case 4:
		return new(big.Int).Mul(big.NewInt(int64(1+r.Intn(100))), e18)
	default:
		return new(big.Int).Add(big.NewInt(1), new(big.Int).Rand(r, new(big.Int).Lsh(big.NewInt(1), uint(1+r.Intn(90)))))
	}
}

func pick(r *rand.Rand, xs ...int) int { return xs[r.Intn(len(xs))] }

type termOpts struct {
	kind         string
	overdraw     bool // some voter takes back more than it has (running balance negative)
	inconsistent bool // a P-Rep's totals differ from the sum of its voters' votes
	manyEvents   bool
}

// genTerm builds one term.
func (g *gen) genTerm(op termOpts) *Input {
	r := g.r
	in := &Input{}
	in.Limit = pick(r, 1, 2, 5, 9, 99, 99, 99, 300, 1000, 43119, 43119, 43119)
	if r.Intn(25) == 0 {
		in.Limit = 0
	}
	// reward fund
	switch r.Intn(12) {
	case 0:
		in.IGlobal = "0"
	case 1, 2:
		in.IGlobal = fmt.Sprint(1 + r.Intn(10000000))
	case 3, 4, 5:
		in.IGlobal = new(big.Int).Mul(big.NewInt(3000000), e18).String()
	default:
		in.IGlobal = new(big.Int).Mul(big.NewInt(int64(1+r.Intn(5000000))), new(big.Int).Exp(big.NewInt(10), big.NewInt(int64(r.Intn(19))), nil)).String()
	}
	switch r.Intn(5) {
	case 0:
		in.RPrep, in.RWage, in.RCps, in.RRelay = 7700, 1300, 1000, 0
	case 1:
		in.RPrep, in.RWage, in.RCps, in.RRelay = 10000, 0, 0, 0
	case 2:
		in.RPrep, in.RWage, in.RCps, in.RRelay = 0, 10000, 0, 0
	default:
		a := int64(r.Intn(10001))
		b := int64(r.Intn(int(10001 - a)))
		c := int64(r.Intn(int(10001 - a - b)))
		in.RPrep, in.RWage, in.RCps, in.RRelay = a, b, c, 10000-a-b-c
	}
	in.BR = int64(pick(r, 0, 1, 500, 500, 1000, 2500, 10000, r.Intn(10001)))

	nPrep := 1 + r.Intn(30)
	if r.Intn(4) == 0 {
		nPrep = 1 + r.Intn(4)
	}
	prepIDs := make([]int, nPrep)
	for i := range prepIDs {
		prepIDs[i] = 1 + i
	}
	r.Shuffle(nPrep, func(i, j int) { prepIDs[i], prepIDs[j] = prepIDs[j], prepIDs[i] })
	in.Elected = pick(r, 1, nPrep, nPrep, nPrep+2, 1+r.Intn(nPrep), 1+r.Intn(nPrep), 1+r.Intn(nPrep), 1+r.Intn(nPrep), 22, 22)
	if r.Intn(25) == 0 {
		in.Elected = 0
	}

	// voters: some are P-Reps themselves
	nVoter := 3 + r.Intn(18)
	var voters []int
	for i := 0; i < nVoter; i++ {
		if r.Intn(5) == 0 {
			voters = append(voters, prepIDs[r.Intn(nPrep)])
		} else {
			voters = append(voters, 100+i)
		}
	}
	voters = dedup(voters)
	initial := true
	target := func() int {
		if r.Intn(25) == 0 && (!initial || (op.inconsistent && r.Intn(2) == 0)) {
			return 200 + r.Intn(3) // an address that is not a registered P-Rep
		}
		if r.Intn(3) == 0 {
			return prepIDs[r.Intn(1+nPrep/3)] // concentrate on a few
		}
		return prepIDs[r.Intn(nPrep)]
	}
	// running state
	dCur := map[int]map[int]*big.Int{}
	bCur := map[int]map[int]*big.Int{}
	sumD := map[int]*big.Int{}
	sumB := map[int]*big.Int{}
	addTo := func(m map[int]*big.Int, k int, v *big.Int) {
		if m[k] == nil {
			m[k] = new(big.Int)
		}
		m[k] = new(big.Int).Add(m[k], v)
	}
	zeroBondPreps := map[int]bool{}
	for _, p := range prepIDs {
		if r.Intn(4) == 0 {
			zeroBondPreps[p] = true
		}
	}
	for _, v := range voters {
		nd := pick(r, 0, 1, 1, 2, 3, 4)
		nb := pick(r, 0, 0, 1, 1, 2, 3)
		dCur[v], bCur[v] = map[int]*big.Int{}, map[int]*big.Int{}
		for j := 0; j < nd; j++ {
			t := target()
			if dCur[v][t] == nil {
				a := g.amount()
				dCur[v][t] = a
				addTo(sumD, t, a)
			}
		}
		for j := 0; j < nb; j++ {
			t := target()
			if bCur[v][t] == nil && !zeroBondPreps[t] {
				a := g.amount()
				bCur[v][t] = a
				addTo(sumB, t, a)
			}
		}
	}
	toVoting := func(cur map[int]map[int]*big.Int) []VotingIn {
		var out []VotingIn
		for _, v := range voters {
			m := cur[v]
			if len(m) == 0 {
				continue
			}
			var ks []int
			for k := range m {
				ks = append(ks, k)
			}
			sort.Ints(ks)
			r.Shuffle(len(ks), func(i, j int) { ks[i], ks[j] = ks[j], ks[i] })
			vi := VotingIn{Voter: v}
			for _, k := range ks {
				vi.Votes = append(vi.Votes, VoteIn{k, m[k].String()})
			}
			out = append(out, vi)
		}
		return out
	}
	in.Delegating = toVoting(dCur)
	in.Bonding = toVoting(bCur)
	initial = false

	// minimum bond near the actual bonds
	switch r.Intn(4) {
	case 0:
		in.MinBond = "0"
	case 1:
		in.MinBond = new(big.Int).Mul(big.NewInt(10000), e18).String()
	default:
		in.MinBond = "1"
		for _, p := range prepIDs {
			if sumB[p] != nil && r.Intn(3) == 0 {
				mb := new(big.Int).Add(sumB[p], big.NewInt(int64(r.Intn(3)-1)))
				if mb.Sign() >= 0 {
					in.MinBond = mb.String()
				}
				break
			}
		}
	}
	get := func(m map[int]*big.Int, k int) *big.Int {
		if m[k] == nil {
			return new(big.Int)
		}
		return m[k]
	}
	for _, p := range prepIDs {
		v := VotedIn{Addr: p, Delegated: get(sumD, p).String(), Bonded: get(sumB, p).String(), Pubkey: r.Intn(8) != 0}
		switch r.Intn(10) {
		case 0:
			v.Status = 1 + r.Intn(5)
		case 1:
			v.Status = int(icmodule.ESUnjail)
		default:
			v.Status = int(icmodule.ESEnable)
		}
		switch r.Intn(6) {
		case 0:
			v.Rate = 0
		case 1:
			v.Rate = 10000
		case 2:
			v.Rate = int64(100 * r.Intn(101))
		default:
			v.Rate = int64(r.Intn(10001))
		}
		if v.Status != int(icmodule.ESEnable) && bi(v.Delegated).Sign() == 0 && bi(v.Bonded).Sign() == 0 && v.Rate == 0 {
			v.Rate = 1 + int64(r.Intn(10000)) // an empty Voted is never stored
		}
		in.Voted = append(in.Voted, v)
	}
	if op.inconsistent {
		k := r.Intn(len(in.Voted))
		d := g.amount()
		if r.Intn(2) == 0 {
			in.Voted[k].Delegated = new(big.Int).Add(bi(in.Voted[k].Delegated), d).String()
		} else if bi(in.Voted[k].Delegated).Sign() > 0 {
			// fewer votes recorded for the P-Rep than its voters hold
			in.Voted[k].Delegated = new(big.Int).Rand(r, bi(in.Voted[k].Delegated)).String()
		} else {
			in.Voted[k].Bonded = new(big.Int).Add(bi(in.Voted[k].Bonded), d).String()
		}
	}

	// events
	nEv := r.Intn(25)
	if op.manyEvents {
		nEv = 130 + r.Intn(60)
	}
	if in.Limit == 0 && nEv > 3 {
		nEv = 3
	}
	offs := make([]int, nEv)
	for i := range offs {
		switch r.Intn(6) {
		case 0:
			offs[i] = 0
		case 1:
			offs[i] = in.Limit
		case 2:
			offs[i] = pick(r, 127, 128, 255, 256, 32767, 32768) % (in.Limit + 1)
		default:
			offs[i] = r.Intn(in.Limit + 1)
		}
	}
	sort.Ints(offs)
	overdrawAt := -1
	if op.overdraw && nEv > 0 {
		overdrawAt = r.Intn(nEv)
	}
	newVoter := 150
	for i := 0; i < nEv; i++ {
		e := EventIn{Offset: offs[i]}
		k := r.Intn(10)
		if i == overdrawAt {
			k = 5
		}
		if k < 2 {
			e.Kind = kEnable
			e.Target = prepIDs[r.Intn(nPrep)]
			if r.Intn(8) == 0 {
				e.Target = 40 + r.Intn(3) // a P-Rep registered during the term
			}
			e.Status = pick(r, 0, 0, 0, 1, 2, 3, 4, 4, 5)
			in.Events = append(in.Events, e)
			continue
		}
		e.Kind = kDelegate
		cur := dCur
		if k%2 == 0 {
			e.Kind = kBond
			cur = bCur
		}
		if r.Intn(6) == 0 {
			e.From = newVoter + r.Intn(3)
			voters = dedup(append(voters, e.From))
		} else {
			e.From = voters[r.Intn(len(voters))]
		}
		if cur[e.From] == nil {
			cur[e.From] = map[int]*big.Int{}
		}
		m := cur[e.From]
		nv := 1 + r.Intn(3)
		used := map[int]bool{}
		for j := 0; j < nv; j++ {
			var t int
			var ks []int
			for kk, vv := range m {
				if vv.Sign() > 0 {
					ks = append(ks, kk)
				}
			}
			sort.Ints(ks)
			withdraw := len(ks) > 0 && r.Intn(2) == 0
			if withdraw {
				t = ks[r.Intn(len(ks))]
			} else {
				t = target()
				if e.Kind == kBond && r.Intn(12) == 0 {
					t = 40 + r.Intn(3)
				}
			}
			if used[t] {
				continue
			}
			used[t] = true
			var a *big.Int
			if withdraw {
				switch r.Intn(3) {
				case 0: // all of it
					a = new(big.Int).Neg(m[t])
				default:
					a = new(big.Int).Neg(new(big.Int).Add(big.NewInt(1), new(big.Int).Rand(r, m[t])))
				}
			} else {
				a = g.amount()
			}
			if i == overdrawAt && j == 0 {
				have := m[t]
				if have == nil {
					have = new(big.Int)
				}
				a = new(big.Int).Neg(new(big.Int).Add(have, g.amount()))
			}
			if m[t] == nil {
				m[t] = new(big.Int)
			}
			m[t] = new(big.Int).Add(m[t], a)
			e.Votes = append(e.Votes, VoteIn{t, a.String()})
		}
		if len(e.Votes) == 0 {
			continue
		}
		in.Events = append(in.Events, e)
	}
	return in
}

func dedup(xs []int) []int {
	seen := map[int]bool{}
	var out []int
	for _, x := range xs {
		if !seen[x] {
			seen[x] = true
			out = append(out, x)
		}
	}
	return out
}

func nontrivial(in *Input, o *outcome) bool {
	if o.res == nil || o.calcErr != nil {
		return false
	}
	n := 0
	for _, c := range o.credits {
		if c.Amt.Sign() > 0 {
			n++
		}
	}
	return n >= 2 && len(in.Events) > 0
}

func emit(c *hxlib.Ctx, kind string, in *Input) *outcome {
	o := run(in)
	if o.setupErr != "" {
		c.Note("%s: setup failed: %s", kind, o.setupErr)
		return o
	}
	cs := hxlib.Case{Kind: kind, Input: in, Nontrivial: nontrivial(in, o), OracleErr: oracle(in, o)}
	if !c.OracleOnly {
		cs.Coq = coqCase(in, o, obsTweak{})
	} else {
		b, _ := json.Marshal(in)
		cs.Key = string(b)
	}
	c.Emit(cs)
	return o
}

func genAll(c *hxlib.Ctx) {
	g := &gen{r: c.Rand}
	var canaryIn *Input
	var canaryOut *outcome
	for i := 0; i < c.N(230); i++ {
		in := g.genTerm(termOpts{})
		o := emit(c, "term", in)
		if canaryIn == nil && o.res != nil && o.calcErr == nil && in.Elected > 0 {
			for _, cr := range o.credits {
				if cr.Type == calculator.RTVoter && cr.Amt.Sign() > 0 {
					canaryIn, canaryOut = in, o
					break
				}
			}
		}
	}
	for i := 0; i < c.N(12); i++ {
		emit(c, "term-many-events", g.genTerm(termOpts{manyEvents: true}))
	}
	for i := 0; i < c.N(30); i++ {
		emit(c, "term-overdraw", g.genTerm(termOpts{overdraw: true}))
	}
	for i := 0; i < c.N(30); i++ {
		emit(c, "term-inconsistent", g.genTerm(termOpts{inconsistent: true}))
	}
	// terms produced by the real pipeline
	for k := 0; k < c.N(2); k++ {
		genIcsim(c, fmt.Sprint(k), 5)
	}
	// fixed boundary terms
	for _, in := range fixedTerms() {
		emit(c, "term-fixed", in)
	}
	if canaryIn != nil && !c.OracleOnly {
		c.Emit(hxlib.Case{Kind: "canary", Canary: true, Coq: coqCase(canaryIn, canaryOut, obsTweak{voterPlus: 1})})
		c.Emit(hxlib.Case{Kind: "canary", Canary: true, Coq: coqCase(canaryIn, canaryOut, obsTweak{wagePlus: 1})})
		c.Emit(hxlib.Case{Kind: "canary", Canary: true, Coq: coqCase(canaryIn, canaryOut, obsTweak{flipWF: true})})
	} else if !c.OracleOnly {
		c.Note("no canary term found")
	}
}

// fixedTerms: hand-written boundary terms.
func fixedTerms() []*Input {
	one := func(f func(in *Input)) *Input {
		in := &Input{IGlobal: new(big.Int).Mul(big.NewInt(3000000), e18).String(), RPrep: 7700, RWage: 1300, RCps: 1000,
			MinBond: "100", BR: 500, Elected: 2, Limit: 99,
			Voted: []VotedIn{
				{Addr: 1, Status: 0, Delegated: "1000", Bonded: "100", Rate: 1000, Pubkey: true},
				{Addr: 2, Status: 0, Delegated: "3000", Bonded: "99", Rate: 0, Pubkey: true},
				{Addr: 3, Status: 0, Delegated: "7", Bonded: "0", Rate: 10000, Pubkey: true},
			},
			Delegating: []VotingIn{{Voter: 100, Votes: []VoteIn{{1, "1000"}, {2, "1000"}}}, {Voter: 101, Votes: []VoteIn{{2, "2000"}, {3, "7"}}}},
			Bonding:    []VotingIn{{Voter: 1, Votes: []VoteIn{{1, "100"}}}, {Voter: 2, Votes: []VoteIn{{2, "99"}}}},
		}
		f(in)
		return in
	}
	return []*Input{
		one(func(in *Input) {}),
		// an event in the last block counts for zero blocks
		one(func(in *Input) {
			in.Events = []EventIn{{Offset: 99, Kind: kDelegate, From: 100, Votes: []VoteIn{{1, "500"}}}}
		}),
		// an event in the first block counts for limit blocks
		one(func(in *Input) {
			in.Events = []EventIn{{Offset: 0, Kind: kDelegate, From: 100, Votes: []VoteIn{{1, "-1000"}, {3, "1000"}}}}
		}),
		// the bond reaching the minimum bond during the term
		one(func(in *Input) {
			in.Events = []EventIn{{Offset: 50, Kind: kBond, From: 2, Votes: []VoteIn{{2, "1"}}}}
		}),
		// a P-Rep disabled and one registered during the term, votes for the new one
		one(func(in *Input) {
			in.Elected = 3
			in.Events = []EventIn{
				{Offset: 10, Kind: kEnable, Target: 2, Status: 2},
				{Offset: 20, Kind: kEnable, Target: 40, Status: 0},
				{Offset: 30, Kind: kBond, From: 40, Votes: []VoteIn{{40, "1000"}}},
				{Offset: 30, Kind: kDelegate, From: 101, Votes: []VoteIn{{40, "5"}, {2, "-2000"}}},
			}
		}),
		// bond requirement 0: power is the whole vote
		one(func(in *Input) { in.BR = 0 }),
		// a single block term
		one(func(in *Input) { in.Limit = 0 }),
	}
}

func replay(raw json.RawMessage) string {
	var in Input
	if err := json.Unmarshal(raw, &in); err != nil {
		return "bad replay input: " + err.Error()
	}
	o := run(&in)
	if o.setupErr != "" {
		return "setup failed: " + o.setupErr
	}
	return oracle(&in, o)
}

func main() {
	log.GlobalLogger().SetOutput(io.Discard)
	log.GlobalLogger().SetLevel(log.PanicLevel)
	hxlib.Main(hxlib.Spec{
		ID:    "C35",
		Rule:  "each case is one whole term run through the real iiss4Reward.Calculate on real icstage/icreward states: 1-30 P-Reps (all enable statuses, with/without public key, zero bond, commission 0..100%), 3-23 voters (some are P-Reps, some vote for unregistered addresses) whose delegations/bonds add up to the P-Reps' totals, 0-24 (or 130-190) events at sorted offsets incl. 0, limit and the key-encoding boundaries 127/128/255/256/32767/32768 (vote deltas incl. full withdrawal, enable/disable/jail, P-Reps and voters appearing during the term), term lengths 1..43120, funds 0..5e24, all bond requirements; malformed streams: a voter overdrawing (calculation must fail) and P-Rep totals inconsistent with the voters (model must still reproduce every number); non-trivial = calculation succeeded, at least two positive credits and at least one event; distinct = distinct Coq case term",
		Shard: 24,
		Gen:   genAll, Replay: replay,
	})
}
