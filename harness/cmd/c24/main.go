// c24: common/intconv byte and hex-text codecs and common.HexInt* vs Model_IntConv.
package main

import (
	"bytes"
	"encoding/hex"
	"encoding/json"
	"fmt"
	"math"
	"math/big"
	"math/rand"
	"regexp"
	"strings"

	"github.com/icon-project/goloop/common"
	"github.com/icon-project/goloop/common/intconv"
	"verif/harness/hxlib"
)

var (
	one     = big.NewInt(1)
	two63   = new(big.Int).Lsh(one, 63)
	two64   = new(big.Int).Lsh(one, 64)
	minI64  = new(big.Int).Neg(two63)
	canonRe = regexp.MustCompile(`^-?0x(0|[1-9a-f][0-9a-f]*)$`)
	charsRe = regexp.MustCompile(`^[0-9a-zA-Z_+\-]*$`)
	digitRe = regexp.MustCompile(`[0-9a-zA-Z]`)
)

func inI64(v *big.Int) bool { return v.Cmp(minI64) >= 0 && v.Cmp(two63) < 0 }
func inU64(v *big.Int) bool { return v.Sign() >= 0 && v.Cmp(two64) < 0 }

// ---- independent reference computations (not taken from the code under test) ----

// minimal two's-complement length from the bit length
func minLen(v *big.Int) int {
	if v.Sign() >= 0 {
		return v.BitLen()/8 + 1
	}
	return new(big.Int).Not(v).BitLen()/8 + 1 // ^v = -v-1
}

// two's-complement, big-endian value of bs ([] is 0)
func refDecode(bs []byte) *big.Int {
	v := new(big.Int).SetBytes(bs)
	if len(bs) > 0 && bs[0] >= 0x80 {
		v.Sub(v, new(big.Int).Lsh(one, uint(8*len(bs))))
	}
	return v
}

func redundantFirst(bs []byte) bool {
	return len(bs) >= 2 && ((bs[0] == 0 && bs[1] < 0x80) || (bs[0] == 0xff && bs[1] >= 0x80))
}

func refFormat(v *big.Int) string {
	a := new(big.Int).Abs(v)
	if v.Sign() < 0 {
		return "-0x" + a.Text(16)
	}
	return "0x" + a.Text(16)
}

// ---- Coq printers ----
func optBytes(ok bool, b []byte) string { return hxlib.CoqOpt(ok, hxlib.CoqBytes(b)) }
func optZ(ok bool, v interface{}) string { return hxlib.CoqOpt(ok, hxlib.CoqZ(v)) }
func optN(ok bool, v interface{}) string { return hxlib.CoqOpt(ok, hxlib.CoqN(v)) }

type msgs []string

func (m *msgs) add(format string, a ...interface{}) { *m = append(*m, fmt.Sprintf(format, a...)) }
func (m msgs) String() string {
	if len(m) == 0 {
		return ""
	}
	return m[0]
}

// ---------------------------------------------------------------------------
// encoders
// ---------------------------------------------------------------------------
func checkEncoding(m *msgs, name string, v *big.Int, enc []byte) {
	if len(enc) == 0 {
		m.add("%s(%v) is empty", name, v)
		return
	}
	if d := refDecode(enc); d.Cmp(v) != 0 {
		m.add("%s(%v) = %x is the two's-complement form of %v", name, v, enc, d)
	}
	if len(enc) != minLen(v) {
		m.add("%s(%v) = %x has %d bytes, minimal is %d", name, v, enc, len(enc), minLen(v))
	}
	if redundantFirst(enc) {
		m.add("%s(%v) = %x has a redundant first byte", name, v, enc)
	}
}

func oracleEnc(v *big.Int) (coq string, msg string) {
	var m msgs
	var bigb, i64b, u64b, szb []byte
	hasI, hasU := inI64(v), inU64(v)
	if p := hxlib.Catch(func() {
		bigb = intconv.BigIntToBytes(v)
		checkEncoding(&m, "BigIntToBytes", v, bigb)
		if back := intconv.BigIntSetBytes(new(big.Int), bigb); back.Cmp(v) != 0 {
			m.add("BigIntSetBytes(BigIntToBytes(%v)) = %v", v, back)
		}
		var h common.HexInt
		h.Set(v)
		if hb := h.Bytes(); !bytes.Equal(hb, bigb) {
			m.add("HexInt.Bytes(%v) = %x differs from BigIntToBytes %x", v, hb, bigb)
		}
		var h2 common.HexInt
		h2.SetBytes(bigb)
		if h2.Cmp(v) != 0 {
			m.add("HexInt.SetBytes(HexInt.Bytes(%v)) = %v", v, &h2.Int)
		}
		if hasI {
			i := v.Int64()
			i64b = intconv.Int64ToBytes(i)
			checkEncoding(&m, "Int64ToBytes", v, i64b)
			if !bytes.Equal(i64b, bigb) {
				m.add("Int64ToBytes(%d) = %x but BigIntToBytes = %x", i, i64b, bigb)
			}
			if back, ok := intconv.SafeBytesToInt64(i64b); !ok || back != i {
				m.add("SafeBytesToInt64(Int64ToBytes(%d)) = %d,%v", i, back, ok)
			}
			if back := intconv.BytesToInt64(i64b); back != i {
				m.add("BytesToInt64(Int64ToBytes(%d)) = %d", i, back)
			}
		}
		if hasU {
			u := v.Uint64()
			u64b = intconv.Uint64ToBytes(u)
			checkEncoding(&m, "Uint64ToBytes", v, u64b)
			if !bytes.Equal(u64b, bigb) {
				m.add("Uint64ToBytes(%d) = %x but BigIntToBytes = %x", u, u64b, bigb)
			}
			if back, ok := intconv.SafeBytesToUint64(u64b); !ok || back != u {
				m.add("SafeBytesToUint64(Uint64ToBytes(%d)) = %d,%v", u, back, ok)
			}
			if back := intconv.BytesToUint64(u64b); back != u {
				m.add("BytesToUint64(Uint64ToBytes(%d)) = %d", u, back)
			}
			szb = intconv.SizeToBytes(u)
			want := (v.BitLen() + 7) / 8
			if want == 0 {
				want = 1
			}
			if len(szb) != want {
				m.add("SizeToBytes(%d) = %x has %d bytes, minimal unsigned form has %d", u, szb, len(szb), want)
			}
			if new(big.Int).SetBytes(szb).Cmp(v) != 0 {
				m.add("SizeToBytes(%d) = %x is the unsigned form of another number", u, szb)
			}
			if back, ok := intconv.SafeBytesToSize64(szb); !ok || back != u {
				m.add("SafeBytesToSize64(SizeToBytes(%d)) = %d,%v", u, back, ok)
			}
		}
	}); p != "" {
		m.add("encoder panicked on %v: %s", v, p)
	}
	coq = fmt.Sprintf("(CEnc %s %s %s %s %s)", hxlib.CoqZ(v), hxlib.CoqBytes(bigb),
		optBytes(hasI, i64b), optBytes(hasU, u64b), optBytes(hasU, szb))
	return coq, m.String()
}

// ---------------------------------------------------------------------------
// decoders
// ---------------------------------------------------------------------------
func oracleDec(bs []byte) (coq string, msg string) {
	var m msgs
	ref := refDecode(bs)
	uref := new(big.Int).SetBytes(bs)
	var bigv *big.Int
	var i64 int64
	var u64, s64 uint64
	var sz int
	var okI, okU, okS64, okS bool
	if p := hxlib.Catch(func() {
		bigv = intconv.BigIntSetBytes(new(big.Int), append([]byte(nil), bs...))
		if bigv.Cmp(ref) != 0 {
			m.add("BigIntSetBytes(%x) = %v, two's-complement value is %v", bs, bigv, ref)
		}
		var h common.HexInt
		h.SetBytes(bs)
		if h.Cmp(bigv) != 0 {
			m.add("HexInt.SetBytes(%x) = %v differs from BigIntSetBytes %v", bs, &h.Int, bigv)
		}
		re := intconv.BigIntToBytes(bigv)
		if back := intconv.BigIntSetBytes(new(big.Int), re); back.Cmp(bigv) != 0 {
			m.add("re-encoding of BigIntSetBytes(%x) = %x decodes to %v", bs, re, back)
		}
		if len(bs) > 0 && len(re) > len(bs) {
			m.add("BigIntToBytes(BigIntSetBytes(%x)) = %x is longer than the input", bs, re)
		}
		if len(bs) > 0 && !redundantFirst(bs) && !bytes.Equal(re, bs) {
			m.add("%x has no redundant first byte but re-encodes as %x", bs, re)
		}

		i64, okI = intconv.SafeBytesToInt64(bs)
		if okI != (len(bs) <= 8) {
			m.add("SafeBytesToInt64(%x) ok=%v for %d bytes", bs, okI, len(bs))
		}
		if okI && big.NewInt(i64).Cmp(ref) != 0 {
			m.add("SafeBytesToInt64(%x) = %d, two's-complement value is %v", bs, i64, ref)
		}
		if !okI && i64 != 0 {
			m.add("SafeBytesToInt64(%x) = %d with ok=false", bs, i64)
		}
		pi := hxlib.Catch(func() { intconv.BytesToInt64(bs) })
		if (pi != "") == okI {
			m.add("BytesToInt64(%x) panic=%q but SafeBytesToInt64 ok=%v", bs, pi, okI)
		}

		u64, okU = intconv.SafeBytesToUint64(bs)
		if okU && (new(big.Int).SetUint64(u64).Cmp(ref) != 0) {
			m.add("SafeBytesToUint64(%x) = %d, value is %v", bs, u64, ref)
		}
		if !okU && !(ref.Sign() < 0 || ref.Cmp(two64) >= 0 || len(bs) > 9) {
			m.add("SafeBytesToUint64(%x) rejects %v", bs, ref)
		}
		pu := hxlib.Catch(func() { intconv.BytesToUint64(bs) })
		if (pu != "") == okU {
			m.add("BytesToUint64(%x) panic=%q but SafeBytesToUint64 ok=%v", bs, pu, okU)
		}

		s64, okS64 = intconv.SafeBytesToSize64(bs)
		if okS64 != (len(bs) <= 8) {
			m.add("SafeBytesToSize64(%x) ok=%v for %d bytes", bs, okS64, len(bs))
		}
		if okS64 && new(big.Int).SetUint64(s64).Cmp(uref) != 0 {
			m.add("SafeBytesToSize64(%x) = %d, unsigned value is %v", bs, s64, uref)
		}
		sz, okS = intconv.SafeBytesToSize(bs)
		if okS != (okS64 && s64 <= math.MaxInt64) {
			m.add("SafeBytesToSize(%x) ok=%v", bs, okS)
		}
		if okS && uint64(sz) != s64 {
			m.add("SafeBytesToSize(%x) = %d, SafeBytesToSize64 = %d", bs, sz, s64)
		}
	}); p != "" {
		m.add("decoder panicked on %x: %s", bs, p)
		if bigv == nil {
			bigv = new(big.Int)
		}
	}
	coq = fmt.Sprintf("(CDec %s %s %s %s %s %s)", hxlib.CoqBytes(bs), hxlib.CoqZ(bigv),
		optZ(okI, i64), optN(okU, u64), optN(okS64, s64), optN(okS, sz))
	return coq, m.String()
}

// ---------------------------------------------------------------------------
// formatters
// ---------------------------------------------------------------------------
func oracleFmt(v *big.Int) (coq string, msg string) {
	var m msgs
	var sb, si, su string
	hasI, hasU := inI64(v), inU64(v)
	want := refFormat(v)
	checkText := func(name, s string) {
		if !canonRe.MatchString(s) || s == "-0x0" {
			m.add("%s(%v) = %q is not of the form -?0x<lower-case hex without leading zeros>", name, v, s)
		} else if s != want {
			m.add("%s(%v) = %q, expected %q", name, v, s, want)
		}
	}
	if p := hxlib.Catch(func() {
		sb = intconv.FormatBigInt(v)
		checkText("FormatBigInt", sb)
		var back big.Int
		if err := intconv.ParseBigInt(&back, sb); err != nil || back.Cmp(v) != 0 {
			m.add("ParseBigInt(FormatBigInt(%v)=%q) = %v, err=%v", v, sb, &back, err)
		}
		var h common.HexInt
		h.Set(v)
		if h.String() != sb {
			m.add("HexInt.String(%v) = %q differs from FormatBigInt %q", v, h.String(), sb)
		}
		js, _ := h.MarshalJSON()
		var h2 common.HexInt
		if err := h2.UnmarshalJSON(js); err != nil || h2.Cmp(v) != 0 {
			m.add("HexInt JSON round trip of %v via %s gives %v, err=%v", v, js, &h2.Int, err)
		}
		if hasI {
			i := v.Int64()
			si = intconv.FormatInt(i)
			checkText("FormatInt", si)
			if back, err := intconv.ParseInt(si, 64); err != nil || back != i {
				m.add("ParseInt(FormatInt(%d)=%q, 64) = %d, err=%v", i, si, back, err)
			}
			x := common.HexInt64{Value: i}
			js, _ := x.MarshalJSON()
			var y common.HexInt64
			if err := y.UnmarshalJSON(js); err != nil || y.Value != i {
				m.add("HexInt64 JSON round trip of %d via %s gives %d, err=%v", i, js, y.Value, err)
			}
			if i >= math.MinInt32 && i <= math.MaxInt32 {
				x := common.HexInt32{Value: int32(i)}
				js, _ := x.MarshalJSON()
				var y common.HexInt32
				if err := y.UnmarshalJSON(js); err != nil || y.Value != int32(i) {
					m.add("HexInt32 JSON round trip of %d via %s gives %d, err=%v", i, js, y.Value, err)
				}
			}
			if i >= math.MinInt16 && i <= math.MaxInt16 {
				x := common.HexInt16{Value: int16(i)}
				js, _ := x.MarshalJSON()
				var y common.HexInt16
				if err := y.UnmarshalJSON(js); err != nil || y.Value != int16(i) {
					m.add("HexInt16 JSON round trip of %d via %s gives %d, err=%v", i, js, y.Value, err)
				}
			}
		}
		if hasU {
			u := v.Uint64()
			su = intconv.FormatUint(u)
			checkText("FormatUint", su)
			if back, err := intconv.ParseUint(su, 64); err != nil || back != u {
				m.add("ParseUint(FormatUint(%d)=%q, 64) = %d, err=%v", u, su, back, err)
			}
			x := common.HexUint64{Value: u}
			js, _ := x.MarshalJSON()
			var y common.HexUint64
			if err := y.UnmarshalJSON(js); err != nil || y.Value != u {
				m.add("HexUint64 JSON round trip of %d via %s gives %d, err=%v", u, js, y.Value, err)
			}
			if u <= math.MaxUint32 {
				x := common.HexUint32{Value: uint32(u)}
				js, _ := x.MarshalJSON()
				var y common.HexUint32
				if err := y.UnmarshalJSON(js); err != nil || y.Value != uint32(u) {
					m.add("HexUint32 JSON round trip of %d via %s gives %d, err=%v", u, js, y.Value, err)
				}
			}
			if u <= math.MaxUint16 {
				x := common.HexUint16{Value: uint16(u)}
				js, _ := x.MarshalJSON()
				var y common.HexUint16
				if err := y.UnmarshalJSON(js); err != nil || y.Value != uint16(u) {
					m.add("HexUint16 JSON round trip of %d via %s gives %d, err=%v", u, js, y.Value, err)
				}
			}
		}
	}); p != "" {
		m.add("formatter panicked on %v: %s", v, p)
	}
	coq = fmt.Sprintf("(CFmt %s %s %s %s)", hxlib.CoqZ(v), hxlib.CoqBytes([]byte(sb)),
		optBytes(hasI, []byte(si)), optBytes(hasU, []byte(su)))
	return coq, m.String()
}

// ---------------------------------------------------------------------------
// parsers
// ---------------------------------------------------------------------------
type parsed struct {
	big           *big.Int
	okB           bool
	i16, i32, i64 int64
	okI           [3]bool
	u16, u32, u64 uint64
	okU           [3]bool
}

func (p *parsed) coq(json bool, s string) string {
	return fmt.Sprintf("(CParse %s %s %s %s %s %s %s %s %s)", hxlib.CoqBool(json), hxlib.CoqBytes([]byte(s)),
		optZ(p.okB, p.big), optZ(p.okI[0], p.i16), optZ(p.okI[1], p.i32), optZ(p.okI[2], p.i64),
		optN(p.okU[0], p.u16), optN(p.okU[1], p.u32), optN(p.okU[2], p.u64))
}

func parseDirect(s string) *parsed {
	p := &parsed{big: new(big.Int)}
	var err error
	p.okB = intconv.ParseBigInt(p.big, s) == nil
	p.i16, err = intconv.ParseInt(s, 16)
	p.okI[0] = err == nil
	p.i32, err = intconv.ParseInt(s, 32)
	p.okI[1] = err == nil
	p.i64, err = intconv.ParseInt(s, 64)
	p.okI[2] = err == nil
	p.u16, err = intconv.ParseUint(s, 16)
	p.okU[0] = err == nil
	p.u32, err = intconv.ParseUint(s, 32)
	p.okU[1] = err == nil
	p.u64, err = intconv.ParseUint(s, 64)
	p.okU[2] = err == nil
	return p
}

// through the UnmarshalJSON methods of common.HexInt*; js is the JSON input
func parseJSON(js []byte) *parsed {
	p := &parsed{big: new(big.Int)}
	var h common.HexInt
	if h.UnmarshalJSON(js) == nil {
		p.okB = true
		p.big.Set(&h.Int)
	}
	var a common.HexInt16
	if a.UnmarshalJSON(js) == nil {
		p.okI[0], p.i16 = true, int64(a.Value)
	}
	var b common.HexInt32
	if b.UnmarshalJSON(js) == nil {
		p.okI[1], p.i32 = true, int64(b.Value)
	}
	var c common.HexInt64
	if c.UnmarshalJSON(js) == nil {
		p.okI[2], p.i64 = true, c.Value
	}
	var d common.HexUint16
	if d.UnmarshalJSON(js) == nil {
		p.okU[0], p.u16 = true, uint64(d.Value)
	}
	var e common.HexUint32
	if e.UnmarshalJSON(js) == nil {
		p.okU[1], p.u32 = true, uint64(e.Value)
	}
	var f common.HexUint64
	if f.UnmarshalJSON(js) == nil {
		p.okU[2], p.u64 = true, f.Value
	}
	return p
}

// property-level expectations on a parse result for text s
func checkParsed(m *msgs, s string, p *parsed) {
	accepted := func(name string, v *big.Int) {
		if !charsRe.MatchString(s) || !digitRe.MatchString(s) {
			m.add("%s accepts %q (no digit, or a character outside [0-9a-zA-Z_+-]) as %v", name, s, v)
		}
	}
	if p.okB {
		accepted("ParseBigInt", p.big)
		var back big.Int
		if err := intconv.ParseBigInt(&back, intconv.FormatBigInt(p.big)); err != nil || back.Cmp(p.big) != 0 {
			m.add("ParseBigInt(%q) = %v does not survive format/parse", s, p.big)
		}
	}
	if p.okI[2] {
		accepted("ParseInt/64", big.NewInt(p.i64))
	}
	if p.okU[2] {
		accepted("ParseUint/64", new(big.Int).SetUint64(p.u64))
	}
	// narrower widths accept a subset with the same value
	is := []int64{p.i16, p.i32, p.i64}
	us := []uint64{p.u16, p.u32, p.u64}
	lim := []uint{15, 31, 63}
	for k := 0; k < 3; k++ {
		if p.okI[k] && (!p.okI[2] || is[k] != p.i64) {
			m.add("ParseInt(%q) at width %d gives %d but width 64 gives %d ok=%v", s, lim[k]+1, is[k], p.i64, p.okI[2])
		}
		if p.okI[2] && k < 2 {
			fits := p.i64 >= -(int64(1)<<lim[k]) && p.i64 < int64(1)<<lim[k]
			if fits != p.okI[k] {
				m.add("ParseInt(%q, %d) ok=%v for value %d", s, lim[k]+1, p.okI[k], p.i64)
			}
		}
		if p.okU[k] && (!p.okU[2] || us[k] != p.u64) {
			m.add("ParseUint(%q) at width %d gives %d but width 64 gives %d ok=%v", s, lim[k]+1, us[k], p.u64, p.okU[2])
		}
		if p.okU[2] && k < 2 {
			fits := p.u64 < uint64(1)<<(lim[k]+1)
			if fits != p.okU[k] {
				m.add("ParseUint(%q, %d) ok=%v for value %d", s, lim[k]+1, p.okU[k], p.u64)
			}
		}
	}
	// canonical texts must be accepted with the right value
	if canonRe.MatchString(s) {
		neg := strings.HasPrefix(s, "-")
		want, _ := new(big.Int).SetString(strings.TrimPrefix(strings.TrimPrefix(s, "-"), "0x"), 16)
		if neg {
			want.Neg(want)
		}
		if !p.okB || p.big.Cmp(want) != 0 {
			m.add("ParseBigInt(%q) = %v ok=%v, expected %v", s, p.big, p.okB, want)
		}
		if inI64(want) && (!p.okI[2] || p.i64 != want.Int64()) {
			m.add("ParseInt(%q, 64) = %d ok=%v, expected %v", s, p.i64, p.okI[2], want)
		}
		if !inI64(want) && p.okI[2] {
			m.add("ParseInt(%q, 64) accepts an out-of-range number as %d", s, p.i64)
		}
		if inU64(want) && !neg && (!p.okU[2] || p.u64 != want.Uint64()) {
			m.add("ParseUint(%q, 64) = %d ok=%v, expected %v", s, p.u64, p.okU[2], want)
		}
		if (!inU64(want) || neg) && p.okU[2] {
			m.add("ParseUint(%q, 64) accepts an out-of-range number as %d", s, p.u64)
		}
	}
}

func oracleParse(s string, viaJSON bool) (coq string, msg string) {
	var m msgs
	var p *parsed
	if pn := hxlib.Catch(func() {
		if viaJSON {
			js, _ := json.Marshal(s)
			p = parseJSON(js)
		} else {
			p = parseDirect(s)
		}
		checkParsed(&m, s, p)
	}); pn != "" {
		m.add("parser panicked on %q: %s", s, pn)
		if p == nil {
			p = &parsed{big: new(big.Int)}
		}
	}
	return p.coq(viaJSON, s), m.String()
}

// raw (non-string) JSON input to HexInt / HexInt64 / HexUint64
func oracleRaw(s string) (coq string, msg string) {
	var m msgs
	var p *parsed
	if pn := hxlib.Catch(func() {
		p = parseJSON([]byte(s))
		if p.okB && (!charsRe.MatchString(s) || !digitRe.MatchString(s)) {
			m.add("HexInt.UnmarshalJSON accepts raw %q as %v", s, p.big)
		}
		if p.okI[2] && (!charsRe.MatchString(s) || !digitRe.MatchString(s)) {
			m.add("HexInt64.UnmarshalJSON accepts raw %q as %v", s, p.i64)
		}
	}); pn != "" {
		m.add("UnmarshalJSON panicked on raw %q: %s", s, pn)
		if p == nil {
			p = &parsed{big: new(big.Int)}
		}
	}
	coq = fmt.Sprintf("(CRaw %s %s %s %s)", hxlib.CoqBytes([]byte(s)), optZ(p.okB, p.big), optZ(p.okI[2], p.i64), optN(p.okU[2], p.u64))
	return coq, m.String()
}

// ---------------------------------------------------------------------------
// generators
// ---------------------------------------------------------------------------
func boundary(k int, neg bool, d int64) *big.Int {
	v := new(big.Int).Lsh(one, uint(k))
	if neg {
		v.Neg(v)
	}
	return v.Add(v, big.NewInt(d))
}

func randBig(r *rand.Rand, maxBits int) *big.Int {
	bits := 1 + r.Intn(maxBits)
	b := make([]byte, (bits+7)/8)
	r.Read(b)
	v := new(big.Int).SetBytes(b)
	v.Rsh(v, uint(len(b)*8-bits))
	switch r.Intn(8) {
	case 0: // long runs of ones / zeros
		v.SetBit(v, bits-1, 1)
		for i := 0; i < bits-1; i++ {
			v.SetBit(v, i, uint(r.Intn(16)/15))
		}
	case 1:
		for i := 0; i < bits; i++ {
			v.SetBit(v, i, 1-uint(r.Intn(16)/15))
		}
	}
	if r.Intn(2) == 0 {
		v.Neg(v)
	}
	return v
}

var specials = []string{
	"", "-", "+", "0x", "-0x", "+0x", "0", "-0", "+0", "00", "000", "0x0", "0X0", "-0x0", "0x00", "0x-1", "0x+1", "0x-0",
	"_", "0_", "_0", "0x_", "0x_1", "0x1_", "0__1", "0_1", "1_", "_1", "1_0", "1__0", "-_1", "-1_0", "0_x1", "0x1__1",
	" 1", "1 ", "0x1g", "0xg", "1e3", "0x1p3", "inf", "NaN", "nil", "null", "true",
	"0b", "0b1", "0b102", "0B1", "-0b1", "+0b1", "0b_1", "0o", "0o7", "0o8", "0O7", "+0o7", "+0O17", "-0X1", "+0X1", "+0x1", "0X1f", "0XfF",
	"07", "08", "09", "017", "0700", "+017", "+08", "+0_8", "0_8", "+0_7", "0_17", "-017", "-0_17", "0a", "0A", "00x1", "0xx1",
	"+-1", "-+1", "--1", "++1", "+", "1-", "1+", "0x1-", "a", "f", "A", "ff", "-ff", "x1", "X1", "0x", "0xX",
	"١", "0x١", "1\x00", "\x001", "0x1\xff", "１",
	"32767", "32768", "-32768", "-32769", "65535", "65536", "0x7fff", "0x8000", "-0x8000", "-0x8001", "0xffff", "0x10000",
	"2147483647", "2147483648", "-2147483648", "-2147483649", "4294967295", "4294967296",
	"9223372036854775807", "9223372036854775808", "-9223372036854775808", "-9223372036854775809",
	"18446744073709551615", "18446744073709551616", "18446744073709551617", "184467440737095516150", "99999999999999999999",
	"0x7fffffffffffffff", "0x8000000000000000", "-0x8000000000000000", "-0x8000000000000001",
	"0xffffffffffffffff", "0x10000000000000000", "0x00ffffffffffffffff", "0x01ffffffffffffffff", "0xfffffffffffffffff",
	"01777777777777777777777", "02000000000000000000000", "0777777777777777777777", "01000000000000000000000", "-01000000000000000000000",
	"0b1111111111111111", "0b10000000000000000", "0x_ffff_ffff_ffff_ffff", "1_8446744073709551615", "0_18446744073709551615",
	"19928560000000000000x0", "-1844674407370955161a",
}

func insertUnderscores(r *rand.Rand, digits string, valid bool) string {
	if len(digits) < 2 {
		if valid {
			return digits
		}
		return digits + "_"
	}
	var sb strings.Builder
	for i := 0; i < len(digits); i++ {
		sb.WriteByte(digits[i])
		if i+1 < len(digits) && r.Intn(4) == 0 {
			sb.WriteByte('_')
		}
	}
	s := sb.String()
	if valid {
		return s
	}
	switch r.Intn(4) {
	case 0:
		return s + "_"
	case 1:
		return "_" + s
	case 2:
		p := 1 + r.Intn(len(digits)-1)
		return digits[:p] + "__" + digits[p:]
	default:
		return strings.Replace(s, "_", "__", 1) + "_"
	}
}

// a number text: canonical form or one deviation class per draw
func genText(r *rand.Rand) (kind, s string) {
	var mag *big.Int
	if r.Intn(3) > 0 {
		ks := []int{0, 1, 3, 4, 7, 8, 15, 16, 31, 32, 62, 63, 64, 65, 127, 128, 255, 256}
		mag = boundary(ks[r.Intn(len(ks))], false, int64(r.Intn(5)-2))
		mag.Abs(mag)
	} else {
		mag = randBig(r, 96)
		mag.Abs(mag)
	}
	neg := r.Intn(3) == 0
	sign := ""
	if neg {
		sign = "-"
	}
	hexd := mag.Text(16)
	switch r.Intn(16) {
	case 0, 1:
		return "txt-canonical", sign + "0x" + hexd
	case 2:
		if r.Intn(2) == 0 {
			return "txt-upper", sign + "0x" + strings.ToUpper(hexd)
		}
		b := []byte(hexd)
		for i := range b {
			if r.Intn(2) == 0 {
				b[i] = strings.ToUpper(string(b[i]))[0]
			}
		}
		return "txt-upper", sign + "0x" + string(b)
	case 3:
		return "txt-upper-prefix", sign + "0X" + hexd
	case 4:
		return "txt-leading-zeros", sign + "0x" + strings.Repeat("0", 1+r.Intn(3)) + hexd
	case 5:
		return "txt-no-prefix", sign + hexd
	case 6:
		return "txt-decimal", sign + strings.Repeat("0", r.Intn(2)) + mag.Text(10)
	case 7:
		sg := []string{"+", "--", "-+", "+-", " -", "- "}[r.Intn(6)]
		body := []string{"0x" + hexd, mag.Text(10), "0" + mag.Text(8), "0X" + hexd}[r.Intn(4)]
		return "txt-sign", sg + body
	case 8:
		p := []string{"0b", "0B", "0o", "0O", "0"}[r.Intn(5)]
		base := 8
		if p[len(p)-1] == 'b' || p[len(p)-1] == 'B' {
			base = 2
		}
		sg := []string{"", "-", "+"}[r.Intn(3)]
		return "txt-other-base", sg + p + mag.Text(base)
	case 9:
		valid := r.Intn(2) == 0
		body := insertUnderscores(r, hexd, valid)
		pre := "0x"
		if r.Intn(3) == 0 {
			pre = "0x_"
		}
		return "txt-underscore-hex", sign + pre + body
	case 10:
		valid := r.Intn(2) == 0
		body := insertUnderscores(r, mag.Text(10), valid)
		sg := []string{"", "-", "+"}[r.Intn(3)]
		lead := []string{"", "0", "0_"}[r.Intn(3)]
		return "txt-underscore-dec", sg + lead + body
	case 11:
		junk := []byte("gxzGZ -+._/:\x00\xff\n#")
		b := []byte(sign + "0x" + hexd)
		j := junk[r.Intn(len(junk))]
		switch r.Intn(3) {
		case 0:
			b = append(b, j)
		case 1:
			p := r.Intn(len(b) + 1)
			b = append(b[:p], append([]byte{j}, b[p:]...)...)
		default:
			b[r.Intn(len(b))] = j
		}
		return "txt-junk", string(b)
	case 12:
		b := []byte(sign + "0x" + hexd)
		return "txt-truncated", string(b[:r.Intn(len(b))])
	case 13:
		alpha := []byte("0123456789abcdefABCDEFxXoObB_-+g ")
		n := r.Intn(7)
		b := make([]byte, n)
		for i := range b {
			b[i] = alpha[r.Intn(len(alpha))]
		}
		return "txt-random", string(b)
	case 14:
		// around the widths: hex and decimal
		ks := []int{15, 16, 31, 32, 63, 64}
		v := boundary(ks[r.Intn(len(ks))], false, int64(r.Intn(3)-1))
		if r.Intn(2) == 0 {
			return "txt-width", sign + "0x" + v.Text(16)
		}
		return "txt-width", sign + v.Text(10)
	default:
		return "txt-canonical", sign + "0x" + hexd
	}
}

func isASCIIPrintable(s string) bool {
	for i := 0; i < len(s); i++ {
		if s[i] < 0x20 || s[i] > 0x7e {
			return false
		}
	}
	return true
}

type valIn struct {
	V string `json:"v"`
}
type bytesIn struct {
	B string `json:"b_hex"`
}
type textIn struct {
	S    string `json:"s_hex"`
	JSON bool   `json:"json"`
}

func gen(c *hxlib.Ctx) {
	r := c.Rand
	thorough := c.Tier == "thorough"

	emitEnc := func(kind string, v *big.Int) {
		coq, msg := oracleEnc(v)
		c.Emit(hxlib.Case{Kind: kind, Coq: coq, Input: map[string]interface{}{"t": "enc", "v": valIn{v.String()}},
			Nontrivial: true, OracleErr: msg})
	}
	emitFmt := func(kind string, v *big.Int) {
		coq, msg := oracleFmt(v)
		c.Emit(hxlib.Case{Kind: kind, Coq: coq, Input: map[string]interface{}{"t": "fmt", "v": valIn{v.String()}},
			Nontrivial: true, OracleErr: msg})
	}
	emitDec := func(kind string, b []byte) {
		coq, msg := oracleDec(b)
		c.Emit(hxlib.Case{Kind: kind, Coq: coq, Input: map[string]interface{}{"t": "dec", "v": bytesIn{hex.EncodeToString(b)}},
			Nontrivial: len(b) > 0, OracleErr: msg})
	}
	emitText := func(kind, s string, viaJSON bool) {
		coq, msg := oracleParse(s, viaJSON)
		c.Emit(hxlib.Case{Kind: kind, Coq: coq, Input: map[string]interface{}{"t": "parse", "v": textIn{hex.EncodeToString([]byte(s)), viaJSON}},
			Nontrivial: true, OracleErr: msg})
	}
	emitRaw := func(kind, s string) {
		coq, msg := oracleRaw(s)
		c.Emit(hxlib.Case{Kind: kind, Coq: coq, Input: map[string]interface{}{"t": "raw", "v": textIn{hex.EncodeToString([]byte(s)), true}},
			Nontrivial: true, OracleErr: msg})
	}

	// 1. boundary values  +-2^k + {-2..2}.  quick: every k <= 72 and k = -1,0,1 mod 8 up to 300
	nfmt := 0
	for k := 0; k <= 300; k++ {
		if !thorough && k > 72 && !(k%8 == 0 || k%8 == 1 || k%8 == 7) {
			continue
		}
		for _, neg := range []bool{false, true} {
			for d := int64(-2); d <= 2; d++ {
				v := boundary(k, neg, d)
				emitEnc("enc-boundary", v)
				if thorough || (k <= 66 && (d != 2 && d != -2 || k%8 == 0 || k%8 == 7)) || (k%8 == 0 && d == 0) || r.Intn(16) == 0 {
					emitFmt("fmt-boundary", v)
					nfmt++
				}
			}
		}
	}
	// 2. random values: 64-bit-ish and wide
	for i := 0; i < c.N(300); i++ {
		v := randBig(r, []int{8, 16, 33, 64, 65, 128, 300}[r.Intn(7)])
		emitEnc("enc-random", v)
		if i%2 == 0 {
			emitFmt("fmt-random", v)
		}
	}

	// 3. decoders: [], every 1-byte string, 2-byte strings (all in the thorough tier), longer ones
	emitDec("dec-0", nil)
	for b := 0; b < 256; b++ {
		emitDec("dec-1", []byte{byte(b)})
	}
	if thorough {
		for x := 0; x < 65536; x++ {
			emitDec("dec-2", []byte{byte(x >> 8), byte(x)})
		}
	} else {
		edge := []byte{0x00, 0x01, 0x7f, 0x80, 0x81, 0xfe, 0xff}
		for _, a := range edge {
			for _, b := range edge {
				emitDec("dec-2", []byte{a, b})
			}
		}
		for i := 0; i < 250; i++ {
			emitDec("dec-2", []byte{byte(r.Intn(256)), byte(r.Intn(256))})
		}
	}
	for i := 0; i < c.N(350); i++ {
		n := []int{3, 4, 7, 8, 8, 8, 9, 9, 9, 10, 11, 16, 17, 32, 33, 40}[r.Intn(16)]
		b := make([]byte, n)
		r.Read(b)
		first := []byte{0x00, 0x00, 0x01, 0x7f, 0x80, 0xff, 0xff, byte(r.Intn(256))}
		b[0] = first[r.Intn(len(first))]
		if r.Intn(3) == 0 {
			b[1] = []byte{0x00, 0x7f, 0x80, 0xff}[r.Intn(4)]
		}
		if r.Intn(6) == 0 { // long sign extension
			for j := 1; j < n-1 && j < 1+r.Intn(n); j++ {
				b[j] = b[0]
			}
		}
		emitDec(fmt.Sprintf("dec-%d", n), b)
	}

	// 4. texts
	for _, s := range specials {
		emitText("txt-special", s, false)
		if isASCIIPrintable(s) {
			emitText("txt-special-json", s, true)
			if !strings.ContainsAny(s, "\" ") {
				emitRaw("raw-special", s)
			}
		}
	}
	for i := 0; i < c.N(700); i++ {
		kind, s := genText(r)
		emitText(kind, s, false)
		if isASCIIPrintable(s) && i%4 == 0 {
			emitText(kind+"-json", s, true)
		}
		if isASCIIPrintable(s) && !strings.ContainsAny(s, "\" ") && i%6 == 0 {
			emitRaw("raw", s)
		}
	}

	// canaries: wrong observations the model must flag
	c.Emit(hxlib.Case{Kind: "canary", Canary: true, Coq: "(CEnc (128)%Z [128] (Some [128]) (Some [128]) (Some [128]))"})
	c.Emit(hxlib.Case{Kind: "canary", Canary: true, Coq: "(CDec [255;127] (65407)%Z (Some (-129)%Z) None (Some 65407) (Some 65407))"})
	c.Emit(hxlib.Case{Kind: "canary", Canary: true, Coq: "(CFmt (-255)%Z [45;48;120;70;70] (Some [45;48;120;102;102]) None)"})
	c.Emit(hxlib.Case{Kind: "canary", Canary: true, Coq: "(CParse false [] (Some 0%Z) None None None None None None)"})
}

func replay(raw json.RawMessage) string {
	var in struct {
		T string          `json:"t"`
		V json.RawMessage `json:"v"`
	}
	if err := json.Unmarshal(raw, &in); err != nil {
		return "bad replay input: " + err.Error()
	}
	switch in.T {
	case "enc", "fmt":
		var v valIn
		json.Unmarshal(in.V, &v)
		x, ok := new(big.Int).SetString(v.V, 10)
		if !ok {
			return "bad value " + v.V
		}
		if in.T == "enc" {
			_, msg := oracleEnc(x)
			return msg
		}
		_, msg := oracleFmt(x)
		return msg
	case "dec":
		var v bytesIn
		json.Unmarshal(in.V, &v)
		b, _ := hex.DecodeString(v.B)
		_, msg := oracleDec(b)
		return msg
	case "parse", "raw":
		var v textIn
		json.Unmarshal(in.V, &v)
		s, _ := hex.DecodeString(v.S)
		if in.T == "raw" {
			_, msg := oracleRaw(string(s))
			return msg
		}
		_, msg := oracleParse(string(s), v.JSON)
		return msg
	}
	return "unknown case type " + in.T
}

func main() {
	hxlib.Main(hxlib.Spec{
		ID: "C24",
		Rule: "values: +-2^k + {-2..2} for k <= 300 (quick: every k <= 72, then k = 7,0,1 mod 8) and random values of 8..300 bits incl. long runs of ones/zeros, both signs, run through BigIntToBytes and, when in range, Int64ToBytes/Uint64ToBytes/SizeToBytes and the Format functions; " +
			"byte strings: [], all 1-byte strings, 2-byte strings (edge grid + random sample; all 65536 in the thorough tier), random strings of 3..40 bytes with critical first/second bytes and long sign extensions, run through every decoder; " +
			"texts: a fixed list of special strings, and canonical hex texts with one deviation class each (upper case, 0X, leading zeros, no prefix, decimal, sign variants, other base prefixes, underscores valid/invalid, junk byte, truncation, random, width boundaries), run through ParseBigInt, ParseInt/ParseUint at 16/32/64 bits, a subset also through the HexInt* UnmarshalJSON methods as JSON strings and as raw tokens; " +
			"non-trivial = every case except the empty byte string; distinct = distinct Coq case term",
		Gen: gen, Replay: replay,
	})
}
